"""C05 helpers: random RustType trees (IR JSON of lib/ir.py), their Rust spelling, and per-language
parsers that read a target type expression TEXT back into the tree form of Model/Lang/Decl.v texp:

    ('name', n, [args]) | ('seq', e) | ('fixed', [es]) | ('map', k, v) | ('opt', e)

A parser knows nothing about the input that produced the text except the configured mapping values
(`atoms`): a mapped name is verbatim text, it is read as one opaque name (the spec's c05_norm does the
same to XRaw).  parse(lang, text, atoms) raises ValueError on text that is not a type expression of the
language's template; the caller reports that as an observation failure, never ignores it."""
import re
import ir
from vf import S, Lst

PRIM_RUST = {'Unit': '()', 'String': 'String', 'Char': 'char', 'Bool': 'bool', 'I8': 'i8', 'I16': 'i16', 'I32': 'i32', 'I64': 'i64',
             'U8': 'u8', 'U16': 'u16', 'U32': 'u32', 'U64': 'u64', 'ISize': 'isize', 'USize': 'usize', 'F32': 'f32', 'F64': 'f64',
             'I54': 'I54', 'U53': 'U53', 'DateTime': 'OffsetDateTime'}
LEAF_PRIMS = ['Unit', 'String', 'Char', 'Bool', 'I8', 'I16', 'I32', 'U8', 'U16', 'U32', 'I54', 'U53', 'F32', 'F64']
ALL_PRIMS = list(PRIM_RUST)
CONTAINERS = ('Vec', 'Array', 'Slice', 'HashMap', 'Option')


def is_prim(t):
    return t['k'] == 'special' and t['name'] not in CONTAINERS


def rust_name(t):
    """the natural Rust spelling (= Spec c05_rust_name)"""
    k = t['k']
    if k == 'simple':
        return t['id']
    if k == 'generic':
        return t['id'] + ('<' + ', '.join(rust_name(p) for p in t['params']) + '>' if t['params'] else '')
    n, ps = t['name'], t['params']
    if n == 'Vec':
        return f'Vec<{rust_name(ps[0])}>'
    if n == 'Array':
        return f'[{rust_name(ps[0])}; {t["len"]}]'
    if n == 'Slice':
        return f'&[{rust_name(ps[0])}]'
    if n == 'HashMap':
        return f'HashMap<{rust_name(ps[0])}, {rust_name(ps[1])}>'
    if n == 'Option':
        return f'Option<{rust_name(ps[0])}>'
    return PRIM_RUST[n]


def head(t):
    if t['k'] in ('simple', 'generic'):
        return t['id']
    return {'Vec': 'Vec', 'Array': '[]', 'Slice': '&[]', 'HashMap': 'HashMap', 'Option': 'Option'}.get(t['name'], PRIM_RUST.get(t['name']))


def tool_key(t):
    """the key the unchanged tool uses (= Spec c05_tool_key, rust_types.rs Display)"""
    k = t['k']
    if k == 'simple':
        return t['id']
    if k == 'generic':
        return t['id'] + ('<' + ', '.join(tool_key(p) for p in t['params']) + '>' if t['params'] else '')
    n, ps = t['name'], t['params']
    if n == 'Vec':
        return f'Vec<{tool_key(ps[0])}>'
    if n == 'Array':
        return f'[{tool_key(ps[0])}]'
    if n == 'Slice':
        return f'&[{tool_key(ps[0])}]'
    if n == 'HashMap':
        return f'HashMap<{tool_key(ps[0])},{tool_key(ps[1])}>'
    if n == 'Option':
        return f'Option<{head(ps[0])}>'
    return PRIM_RUST[n]


def subtrees(t):
    yield t
    if t['k'] != 'simple':
        for p in t.get('params', []):
            yield from subtrees(p)


def depth(t):
    ps = t.get('params', []) if t['k'] != 'simple' else []
    return 1 + max((depth(p) for p in ps), default=0)


USER = ['Foo', 'Bar', 'Baz', 'Item', 'UserId', 'Config', 'Point', 'Wrapper', 'Node', 'Url', 'Uuid']
PARAMS = ['T', 'U', 'K', 'V']


def rand_type(rng, d, generics, leaves=LEAF_PRIMS, users=USER, generic_keys=0.04):
    """a random RustType of depth <= d+1 over the property's leaves"""
    if d <= 0 or rng.random() < 0.22:
        c = rng.random()
        if c < 0.5:
            return ir.special(rng.choice(leaves))
        if c < 0.8 or not generics:
            return ir.simple(rng.choice(users))
        return ir.simple(rng.choice(generics))
    c = rng.random()
    sub = lambda: rand_type(rng, d - 1, generics, leaves, users, generic_keys)
    if c < 0.2:
        return ir.special('Vec', sub())
    if c < 0.32:
        return ir.special('Array', sub(), n=rng.choice([0, 1, 2, 3, 5]))
    if c < 0.42:
        return ir.special('Slice', sub())
    if c < 0.6:
        return ir.special('Option', sub())
    if c < 0.78:
        if generics and rng.random() < generic_keys:
            k = ir.simple(rng.choice(generics))
        else:
            k = rng.choice([ir.special('String'), ir.special('String'), ir.special('U32'), ir.special('I32'), ir.special('Char'), ir.simple(rng.choice(users)), sub()])
            if k['k'] == 'simple' and k['id'] in generics:
                k = ir.special('String')
        return ir.special('HashMap', k, sub())
    return ir.generic(rng.choice(users), [sub() for _ in range(rng.choice([1, 1, 2, 3]))])


# ------------------------------------------------------------------------------------------------
# Rust source spelling of an IR type, decorated with what must vanish (references, smart pointers,
# path qualification, lifetimes): source-level inputs whose denotation is the given IR type
# ------------------------------------------------------------------------------------------------
WRAPPERS = ['Box', 'Arc', 'Rc', 'Cell', 'RefCell', 'Mutex', 'RwLock', 'Weak', 'std::sync::Weak', 'std::sync::Arc', 'std::rc::Rc', 'std::boxed::Box', 'std::sync::Mutex']
QUALS = {'Vec': ['std::vec::Vec', 'Vec'], 'Option': ['std::option::Option', 'core::option::Option', 'Option'],
         'HashMap': ['std::collections::HashMap', 'collections::HashMap', 'HashMap'], 'String': ['std::string::String', 'String']}


def rust_source(rng, t, noise=0.25, top=True):
    """Rust type syntax denoting t; with probability `noise` per node a vanishing wrapper is added"""
    k = t['k']
    sub = lambda x: rust_source(rng, x, noise, False)
    if k == 'simple':
        s = t['id']
        if rng.random() < noise and s not in PARAMS:
            s = rng.choice(['crate::', 'super::', 'crate::model::', 'self::']) + s
    elif k == 'generic':
        s = t['id']
        if rng.random() < noise:
            s = rng.choice(['crate::', 'super::types::']) + s
        s += '<' + ', '.join(sub(p) for p in t['params']) + '>'
    else:
        n, ps = t['name'], t['params']
        if n == 'Vec':
            s = f'{rng.choice(QUALS["Vec"]) if rng.random() < noise else "Vec"}<{sub(ps[0])}>'
        elif n == 'Option':
            s = f'{rng.choice(QUALS["Option"]) if rng.random() < noise else "Option"}<{sub(ps[0])}>'
        elif n == 'HashMap':
            s = f'{rng.choice(QUALS["HashMap"]) if rng.random() < noise else "HashMap"}<{sub(ps[0])}, {sub(ps[1])}>'
        elif n == 'Array':
            s = f'[{sub(ps[0])}; {t["len"]}]'
        elif n == 'Slice':
            s = f"&{rng.choice(['', chr(39) + 'static ']) }[{sub(ps[0])}]"
            return s          # a slice is already behind a reference
        elif n == 'String':
            s = rng.choice(["&'static str", 'String', 'String', rng.choice(QUALS['String'])]) if rng.random() < 0.5 else 'String'
        else:
            s = PRIM_RUST[n]
    r = rng.random()
    if r < noise:
        w = rng.choice(WRAPPERS)
        s = f'{w}<{s}>'
        if rng.random() < 0.3:
            s = f'{rng.choice(WRAPPERS)}<{s}>'
    elif r < noise * 1.4:
        s = f"Cow<'static, {s}>"
    elif r < noise * 1.8 and not s.startswith('&'):
        s = "&'static " + s
    return s


# ------------------------------------------------------------------------------------------------
# target type expression text -> tree
# ------------------------------------------------------------------------------------------------
class P:
    def __init__(self, lang, text, atoms):
        self.lang, self.s, self.i = lang, text, 0
        # verbatim mapped names that are not plain (dotted) identifiers, longest first
        self.atoms = sorted({a for a in atoms if a and not re.fullmatch(r'[A-Za-z_][\w]*(\.[A-Za-z_]\w*)*', a)}, key=len, reverse=True)

    def err(self, why):
        raise ValueError(f'{self.lang}: {why} at {self.i} in {self.s!r}')

    def ws(self):
        while self.i < len(self.s) and self.s[self.i] == ' ':
            self.i += 1

    def peek(self, lit):
        self.ws()
        return self.s.startswith(lit, self.i)

    def eat(self, lit):
        self.ws()
        if not self.s.startswith(lit, self.i):
            self.err(f'expected {lit!r}')
        self.i += len(lit)

    def at_end_of_type(self, j):
        return j >= len(self.s) or self.s[j] in ',>])} :?' or (self.lang == 'typescript' and self.s.startswith('[]', j))

    def atom(self):
        self.ws()
        for a in self.atoms:
            if self.s.startswith(a, self.i) and self.at_end_of_type(self.i + len(a)):
                self.i += len(a)
                return ('name', a, [])
        return None

    def ident(self):
        self.ws()
        m = re.compile(r'[A-Za-z_][\w]*(\.[A-Za-z_]\w*)*').match(self.s, self.i)
        if not m:
            self.err('identifier expected')
        self.i = m.end()
        return m.group(0)

    def args(self, open_, close):
        out = []
        self.eat(open_)
        while True:
            out.append(self.ty())
            self.ws()
            if self.peek(','):
                self.eat(',')
                continue
            self.eat(close)
            return out

    def named(self, open_, close):
        n = self.ident()
        # generic arguments follow the name immediately (no blank) in every template
        if self.i < len(self.s) and self.s.startswith(open_, self.i):
            return ('name', n, self.args(open_, close))
        return ('name', n, [])

    def ty(self):
        a = self.atom()
        if a is not None:
            t = a
        else:
            t = getattr(self, 'ty_' + self.lang)()
        # postfix forms
        while True:
            if self.lang == 'typescript' and self.s.startswith('[]', self.i):
                self.i += 2
                t = ('seq', t)
            elif self.lang in ('kotlin', 'swift') and self.s.startswith('?', self.i):
                self.i += 1
                t = ('opt', t)
            else:
                return t

    def ty_typescript(self):
        if self.peek('['):
            self.eat('[')
            if self.peek(']'):
                self.eat(']')
                return ('fixed', [])
            es = []
            while True:
                es.append(self.ty())
                if self.peek(','):
                    self.eat(',')
                    continue
                self.eat(']')
                return ('fixed', es)
        t = self.named('<', '>')
        if t[1] == 'Record' and len(t[2]) == 2:
            return ('map', t[2][0], t[2][1])
        return t

    def ty_kotlin(self):
        return self.named('<', '>')

    def ty_swift(self):
        if self.peek('['):
            self.eat('[')
            k = self.ty()
            if self.peek(':'):
                self.eat(':')
                v = self.ty()
                self.eat(']')
                return ('map', k, v)
            self.eat(']')
            return ('seq', k)
        return self.named('<', '>')

    def ty_scala(self):
        t = self.named('[', ']')
        if t[1] == 'Option' and len(t[2]) == 1:
            return ('opt', t[2][0])
        return t

    def ty_python(self):
        t = self.named('[', ']')
        if t[1] == 'Optional' and len(t[2]) == 1:
            return ('opt', t[2][0])
        return t

    def ty_go(self):
        self.ws()
        if self.s.startswith('*', self.i):
            self.i += 1
            return ('opt', self.ty())
        if self.s.startswith('map[', self.i):
            self.i += 4
            k = self.ty()
            self.eat(']')
            return ('map', k, self.ty())
        if self.s.startswith('[', self.i):
            m = re.compile(r'\[(\d*)\]').match(self.s, self.i)
            if not m:
                self.err('array or slice expected')
            self.i = m.end()
            return ('seq', self.ty())          # the observation drops the length ([n]T is a sequence)
        if self.s.startswith('struct{}', self.i):
            self.i += 8
            return ('name', 'struct{}', [])
        return self.named('[', ']')


def parse(lang, text, atoms=()):
    p = P(lang, text, atoms)
    t = p.ty()
    p.ws()
    if p.i != len(text):
        p.err('trailing text')
    return t


def go_array_lengths(text):
    """the lengths of the fixed arrays in a Go type text, in order (the part the tree observation drops)"""
    return [int(x) for x in re.findall(r'\[(\d+)\]', text)]


def tree_sx(t):
    k = t[0]
    if k == 'name':
        return f'(name {S(t[1])} {Lst(t[2], tree_sx)})'
    if k == 'seq':
        return f'(seq {tree_sx(t[1])})'
    if k == 'fixed':
        return f'(fixed {Lst(t[1], tree_sx)})'
    if k == 'map':
        return f'(map {tree_sx(t[1])} {tree_sx(t[2])})'
    if k == 'opt':
        return f'(opt {tree_sx(t[1])})'
    raise ValueError(k)


def sx_tree(x):
    """parsed S-expression of a (normalised) texp -> tree"""
    import vf
    k = x[0]
    if k == 'name':
        return ('name', vf.unS(x[1]), [sx_tree(y) for y in x[2]])
    if k == 'seq':
        return ('seq', sx_tree(x[1]))
    if k == 'fixed':
        return ('fixed', [sx_tree(y) for y in x[1]])
    if k == 'map':
        return ('map', sx_tree(x[1]), sx_tree(x[2]))
    if k == 'opt':
        return ('opt', sx_tree(x[1]))
    if k == 'raw':
        return ('name', vf.unS(x[1]), [])
    raise ValueError(str(x))


def show_tree(t):
    k = t[0]
    if k == 'name':
        return t[1] + ('<' + ', '.join(show_tree(a) for a in t[2]) + '>' if t[2] else '')
    if k == 'seq':
        return f'seq({show_tree(t[1])})'
    if k == 'fixed':
        return 'fixed(' + ', '.join(show_tree(a) for a in t[1]) + ')'
    if k == 'map':
        return f'map({show_tree(t[1])}, {show_tree(t[2])})'
    return f'opt({show_tree(t[1])})'


# ------------------------------------------------------------------------------------------------
# configurations
# ------------------------------------------------------------------------------------------------
MAPPED_VALUES = {
    'typescript': ['Uint8Array', 'Date', 'MappedTs', 'Array<Mapped1>', 'ReadonlyArray<number>', 'string', 'Map<string, unknown>'],
    'kotlin': ['MappedKt', 'kotlin.ByteArray', 'java.time.Instant', 'Map<String, Any>', 'String'],
    'swift': ['MappedSw', 'Data', 'Foundation.URL', '[String: Any]', 'String'],
    'scala': ['MappedSc', 'java.time.Instant', 'Array[Byte]', 'String'],
    'go': ['MappedGo', '[]byte', 'time.Time', 'map[string]interface{}', 'string'],
    'python': ['MappedPy', 'bytes', 'datetime', 'Dict[str, Any]', 'str'],
}
INSTANCE_LANGS = ('typescript', 'go', 'python')


def rand_cfg(rng, lang, types, generics):
    """a random configuration: prefix (Kotlin, Swift), no_pointer_slice (Go), and a type_mappings table whose keys
    are drawn from the types at hand: user type names, generic parameters, primitives, container instances in
    the natural Rust spelling and in the tool's Display spelling, plus keys that match nothing"""
    cfg = {}
    if lang in ('kotlin', 'swift'):
        cfg['prefix'] = rng.choice(['', '', 'P', 'App', 'OP'])
    if lang == 'go':
        cfg['no_pointer_slice'] = rng.random() < 0.4
        cfg['package'] = 'p'
    if lang in ('kotlin', 'scala'):
        cfg['package'] = 'com.p'
    m = {}
    r = rng.random()
    n = 0 if r < 0.25 else rng.choice([1, 1, 2, 3])
    subs = [s for t in types for s in subtrees(t)]
    for _ in range(n):
        c = rng.random()
        cand = None
        if c < 0.45:
            ids = [s['id'] for s in subs if s['k'] in ('simple', 'generic')]
            cand = rng.choice(ids) if ids else rng.choice(USER)
        elif c < 0.6:
            prims = [s for s in subs if is_prim(s)]
            cand = rust_name(rng.choice(prims)) if prims else 'u8'
        elif c < 0.9:
            conts = [s for s in subs if s['k'] == 'special' and not is_prim(s)]
            if conts:
                s = rng.choice(conts)
                cand = rng.choice([rust_name(s), rust_name(s), tool_key(s)])
            else:
                cand = 'Vec<u8>'
        else:
            cand = rng.choice(['Nothing', 'Vec<Nothing>', 'T'])
        if lang not in INSTANCE_LANGS and c >= 0.6 and c < 0.9 and rng.random() < 0.7:
            continue          # container-instance keys are outside the quantifier for Kotlin / Swift / Scala
        m[cand] = rng.choice(MAPPED_VALUES[lang])
    cfg['type_mappings'] = m
    return cfg
