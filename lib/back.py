"""Back ends (source or IR -> generated text) on both sides, in comparable form."""
import vf, ir
from vf import S, B, Lst, parse_sx


def cfg_sx(cfg):
    out = []
    for k, v in (cfg or {}).items():
        if isinstance(v, bool):
            out.append(f'({k} {B(v)})')
        elif isinstance(v, str):
            out.append(f'({k} {S(v)})')
        elif isinstance(v, dict):
            out.append(f'({k} {Lst(sorted(v.items()), lambda kv: f"({S(kv[0])} {S(kv[1])})")})')
        elif isinstance(v, list):
            out.append(f'({k} {Lst(v, S)})')
    return '(' + ' '.join(out) + ')'


def impl_canon(r):
    if 'ok' in r:
        return ('ok', r['ok'])
    if 'panic' in r:
        return ('panic', r['panic'])
    if 'abort' in r:
        return ('abort', r['abort'])
    if 'hang' in r:
        return ('hang', r['hang'])
    if 'none' in r:
        return ('none', None)
    if 'parse_errors' in r:
        return ('parse_errors', r['parse_errors'])
    if 'parse_err' in r:
        return ('parse_err', r['parse_err'])
    return ('err', r.get('err'))


def model_canon(x):
    if x[0] == 'ok':
        return ('ok', vf.unS(x[1]))
    if x[0] == 'panic':
        return ('panic', x[1])
    if x[0] == 'none':
        return ('none', None)
    if x[0] == 'parse_errors':
        return ('parse_errors', [e if isinstance(e, str) else e[0] for e in x[1]])
    if x[0] == 'parse_err':
        return ('parse_err', x[1] if isinstance(x[1], str) else x[1][0])
    return ('err', x[1] if isinstance(x[1], str) else x[1][0])


def same(a, b):
    if a[0] != b[0]:
        return False
    if a[0] in ('panic', 'abort', 'err'):
        return True
    return a[1] == b[1]


def run_src(cases):
    """cases: list of (lang, cfg dict, source, target_os). -> list of dict(impl, model, ir)"""
    srcs = sorted(set(c[2] for c in cases))
    asts = dict(zip(srcs, vf.impl([{'cmd': 'ast', 'src': s} for s in srcs])))
    ires = vf.impl([{'cmd': 'generate', 'lang': l, 'cfg': c, 'src': s, 'target_os': t} for l, c, s, t in cases])
    mreq, midx = [], []
    for k, (l, c, s, t) in enumerate(cases):
        a = asts[s]
        if 'ok' in a:
            mreq.append(f'(gen_src {l} {cfg_sx(c)} {a["ok"]} {a["tstrs"]} {Lst(t, S)})')
            midx.append(k)
    mres = dict(zip(midx, vf.model(mreq)))
    out = []
    for k, c in enumerate(cases):
        m = model_canon(mres[k]) if k in mres else (('none', None) if '#[typeshare' not in c[2] else ('parse_err', 'ESyn'))
        out.append({'case': c, 'impl': impl_canon(ires[k]), 'model': m, 'ir': ires[k].get('ir')})
    return out


def items_sx(items):
    return '(' + ' '.join(Lst(items.get(k, []), ir.sx_item) for k in ('structs', 'enums', 'aliases', 'consts')) + ')'


def run_ir(cases):
    """cases: list of (lang, cfg dict, items dict(structs, enums, aliases, consts), reconcile bool)"""
    ires = vf.impl([{'cmd': 'generate_ir', 'lang': l, 'cfg': c, 'items': it, 'reconcile': r} for l, c, it, r in cases])
    mres = vf.model([f'(gen_ir {l} {cfg_sx(c)} {items_sx(it)} {B(r)})' for l, c, it, r in cases])
    return [{'case': c, 'impl': impl_canon(i), 'model': model_canon(m)} for c, i, m in zip(cases, ires, mres)]
