"""Python mirror of coq/Model/Syntax.v: constructors, S-expression printer (for the extracted
model) and Rust source printer (for the real tool).  libdrive's `ast` command converts Rust source
back to the same S-expression with syn; checks call roundtrip() on generated cases so that a
printer that drifts from the AST cannot hide a disagreement."""
from vf import S, O, B, Lst

# ---------------------------------------------------------------- constructors
def mpath(*segs):
    return ('path', list(segs))


def mlist(name, args, raw=None, dargs=None):
    """args: list of metas, or None when the tokens (raw) do not parse as a meta list."""
    return ('list', [name] if isinstance(name, str) else list(name), args, dargs, raw)


def mnv(name, value):
    """value: a Python str for a string literal, or ('other', rust_tokens)."""
    return ('nv', [name] if isinstance(name, str) else list(name), value)


def attr(meta, inner=False):
    return ('attr', inner, meta)


def doc(text):
    return attr(mnv('doc', text))


# ---------------------------------------------------------------- S-expressions
def sx_path(p):
    return Lst(p, S)


def sx_meta(m):
    k = m[0]
    if k == 'path':
        return f'(path {sx_path(m[1])})'
    if k == 'list':
        args = 'none' if m[2] is None else f'(some {Lst(m[2], sx_meta)})'
        dargs = 'none' if m[3] is None else '(some ' + Lst(m[3], lambda d: f'({S(d[0])} {O(d[1])})') + ')'
        return f'(list {sx_path(m[1])} {args} {dargs})'
    if k == 'nv':
        v = f'(str {S(m[2])})' if isinstance(m[2], str) else 'other'
        return f'(nv {sx_path(m[1])} {v})'
    raise ValueError(m)


def sx_attr(a):
    return f'(attr {B(a[1])} {sx_meta(a[2])})'


def sx_attrs(attrs):
    return Lst(attrs, sx_attr)


# ---------------------------------------------------------------- Rust source
def rs_str(s):
    out = ['"']
    for c in s:
        o = ord(c)
        if c == '"':
            out.append('\\"')
        elif c == '\\':
            out.append('\\\\')
        elif c == '\n':
            out.append('\\n')
        elif c == '\r':
            out.append('\\r')
        elif c == '\t':
            out.append('\\t')
        elif o < 32 or o == 127:
            out.append('\\u{%x}' % o)
        else:
            out.append(c)
    out.append('"')
    return ''.join(out)


def rs_meta(m):
    k = m[0]
    name = '::'.join(m[1])
    if k == 'path':
        return name
    if k == 'list':
        if m[4] is not None:
            return f'{name}({m[4]})'
        return f'{name}({", ".join(rs_meta(x) for x in m[2])})'
    if k == 'nv':
        v = rs_str(m[2]) if isinstance(m[2], str) else m[2][1]
        return f'{name} = {v}'
    raise ValueError(m)


def rs_attr(a):
    return ('#![' if a[1] else '#[') + rs_meta(a[2]) + ']'


def rs_attrs(attrs, sep='\n'):
    return ''.join(rs_attr(a) + sep for a in attrs)
