"""The IR (RustStruct, RustEnum, ...) as JSON (the format harness/libdrive/src/dump.rs prints and
ir.rs reads back) and its S-expression form for the extracted model (ocaml/drv_ir.ml)."""
from vf import S, O, B, Lst


def mk_id(original, renamed=None, serde_rename=False):
    return {'original': original, 'renamed': original if renamed is None else renamed, 'serde_rename': serde_rename}


def simple(i):
    return {'k': 'simple', 'id': i}


def generic(i, params):
    return {'k': 'generic', 'id': i, 'params': params}


def special(name, *params, n=None):
    d = {'k': 'special', 'name': name, 'params': list(params)}
    if n is not None:
        d['len'] = n
    return d


def sx_ty(t):
    k = t['k']
    if k == 'simple':
        return f'(simple {S(t["id"])})'
    if k == 'generic':
        return f'(generic {S(t["id"])} {Lst(t["params"], sx_ty)})'
    n, ps = t['name'], t['params']
    if n == 'Vec':
        return f'(vec {sx_ty(ps[0])})'
    if n == 'Array':
        return f'(array {sx_ty(ps[0])} n{t["len"]})'
    if n == 'Slice':
        return f'(slice {sx_ty(ps[0])})'
    if n == 'HashMap':
        return f'(hashmap {sx_ty(ps[0])} {sx_ty(ps[1])})'
    if n == 'Option':
        return f'(option {sx_ty(ps[0])})'
    return f'(prim {n})'


def sx_id(i):
    return f'(id {S(i["original"])} {S(i["renamed"])} {B(i["serde_rename"])})'


def sx_fdec(d):
    return f'(word {S(d["word"])})' if 'word' in d else f'(nv {S(d["name"])} {S(d["value"])})'


def sx_field(f):
    decs = Lst(f.get('decorators', []), lambda kv: f'({kv[0]} {Lst(kv[1], sx_fdec)})')
    return f'(field {sx_id(f["id"])} {sx_ty(f["ty"])} {Lst(f.get("comments", []), S)} {B(f.get("has_default", False))} {decs})'


def sx_decmap(m):
    return Lst(m or [], lambda kv: f'({kv[0]} {Lst(kv[1], S)})')


def sx_variant(v):
    cs = Lst(v.get('comments', []), S)
    if v['k'] == 'unit':
        return f'(vunit {sx_id(v["id"])} {cs})'
    if v['k'] == 'tuple':
        return f'(vtuple {sx_id(v["id"])} {cs} {sx_ty(v["ty"])})'
    return f'(vanon {sx_id(v["id"])} {cs} {Lst(v["fields"], sx_field)})'


def sx_item(it):
    k = it['kind']
    if k == 'struct':
        return (f'(struct {sx_id(it["id"])} {Lst(it.get("generics", []), S)} {Lst(it["fields"], sx_field)} {Lst(it.get("comments", []), S)} '
                f'{sx_decmap(it.get("decorators"))} {B(it.get("is_redacted", False))})')
    if k == 'enum':
        return (f'(enum {B(it["algebraic"])} {O(it.get("tag"))} {O(it.get("content"))} {sx_id(it["id"])} {Lst(it.get("generics", []), S)} '
                f'{Lst(it.get("comments", []), S)} {Lst(it["variants"], sx_variant)} {sx_decmap(it.get("decorators"))} '
                f'{B(it.get("is_recursive", False))} {B(it.get("is_redacted", False))})')
    if k == 'alias':
        return (f'(alias {sx_id(it["id"])} {Lst(it.get("generics", []), S)} {sx_ty(it["ty"])} {Lst(it.get("comments", []), S)} '
                f'{sx_decmap(it.get("decorators"))} {B(it.get("is_redacted", False))})')
    if k == 'const':
        return f'(const {sx_id(it["id"])} {sx_ty(it["ty"])} z{it["value"]})'
    raise ValueError(k)


def type_ids(t):
    """every identifier a type expression mentions (declarative, independent of topsort.rs)"""
    if t['k'] == 'simple':
        return [t['id']]
    if t['k'] == 'generic':
        return [t['id']] + [x for p in t['params'] for x in type_ids(p)]
    return [x for p in t['params'] for x in type_ids(p)]


def item_types(it):
    k = it['kind']
    if k == 'struct':
        return [f['ty'] for f in it['fields']]
    if k == 'enum':
        out = []
        for v in it['variants']:
            if v['k'] == 'tuple':
                out.append(v['ty'])
            elif v['k'] == 'struct':
                out += [f['ty'] for f in v['fields']]
        return out
    return [it['ty']]
