"""Front end (source text -> ParsedData) on both sides, in comparable form.
Implementation: libdrive `parse` (public parser::parse). Model: libdrive `ast` (syn -> AST of
Model/Syntax.v) then the extracted Model.Parse.parse_file."""
import vf, ir
from vf import S, Lst, dump_sx, parse_sx


def impl_canon(r):
    """-> ('ok', None | dict(structs=[sx..], enums, aliases, consts, type_names, errors)) | ('err', name) | ('panic', msg)"""
    if 'panic' in r:
        return ('panic', r['panic'])
    if 'abort' in r:
        return ('abort', r['abort'])
    if 'hang' in r:
        return ('hang', r['hang'])
    if 'err' in r:
        return ('err', r['err'])
    pd = r['ok']
    if pd is None:
        return ('ok', None)
    return ('ok', {
        'structs': [ir.sx_item(x) for x in pd['structs']],
        'enums': [ir.sx_item(x) for x in pd['enums']],
        'aliases': [ir.sx_item(x) for x in pd['aliases']],
        'consts': [ir.sx_item(x) for x in pd['consts']],
        'type_names': sorted(pd['type_names']),
        'errors': [e['error'] for e in pd['errors']],
    })


def model_canon(x):
    if x[0] == 'panic':
        return ('panic', x[1])
    if x[0] == 'err':
        e = x[1]
        return ('err', e if isinstance(e, str) else e[0])
    v = x[1]
    if v == 'none':
        return ('ok', None)
    _, structs, enums, aliases, consts, names, errors = v[1]
    return ('ok', {
        'structs': [dump_sx(s) for s in structs],
        'enums': [dump_sx(s) for s in enums],
        'aliases': [dump_sx(s) for s in aliases],
        'consts': [dump_sx(s) for s in consts],
        'type_names': sorted(vf.unS(n) for n in names),
        'errors': [e if isinstance(e, str) else e[0] for e in errors],
    })


def same(a, b):
    """observational equality of two canonical outcomes (panic messages are not compared)"""
    if a[0] != b[0]:
        return False
    if a[0] in ('panic', 'abort'):
        return True
    return a[1] == b[1]


def run_front(cases):
    """cases: list of (source, target_os list). Returns list of dict(impl, model, ast, src, target_os)."""
    srcs = [c[0] for c in cases]
    uniq = sorted(set(srcs))
    asts = dict(zip(uniq, vf.impl([{'cmd': 'ast', 'src': s} for s in uniq])))
    ires = vf.impl([{'cmd': 'parse', 'src': s, 'target_os': t} for s, t in cases])
    mreq, midx = [], []
    for k, (s, t) in enumerate(cases):
        a = asts[s]
        if 'ok' in a:
            mreq.append(f'(parse {a["ok"]} {a["tstrs"]} {Lst(t, S)})')
            midx.append(k)
    mres = dict(zip(midx, vf.model(mreq)))
    out = []
    for k, (s, t) in enumerate(cases):
        a = asts[s]
        if k in mres:
            m = model_canon(mres[k])
        elif '#[typeshare' not in s:
            m = ('ok', None)            # the substring pre-filter answers before syn is consulted
        else:
            m = ('err', 'ESyn')
        out.append({'src': s, 'target_os': t, 'impl': impl_canon(ires[k]), 'model': m, 'ast': a.get('ok')})
    return out
