"""Folder-output mode as a differential oracle for the item-level properties (C01 C02 C04 C05 ...).

A workspace of INDEPENDENT crates (no cross-crate references, no imports of each other) is generated in
folder mode (--output-folder) by the real binary, and every crate is also generated ALONE in single-file mode.
Whatever a property observes about a crate's definitions - keys and bindings, wire names, optional markers,
type expressions - must be the same in both: in folder mode one Language value writes all files, reconcile sees
all crates at once, and anything carried from one crate to the next (a cache keyed by a bare name, a flag, a
memo of rendered text) shows as a difference.  The single-file observation is the one the property's main
phases judge; the generators draw names from small pools, so same-named items in different crates are common.
The seeded changes C01_g (Kotlin @SerialName decision cached per class name), C02_f (TypeScript enum text replayed
for a same-named enum), C04_g (reconcile cache dropping Option wrappers in folder mode) are of this kind."""
import concurrent.futures, json, pathlib, subprocess
import vf, extract

LANGS = {
    'typescript': ('ts', [], lambda c: c),
    'kotlin': ('kt', ['--java-package', 'com.p'], lambda c: c),
    'swift': ('swift', [], lambda c: c.capitalize()),
    'scala': ('scala', ['--scala-package', 'com.p'], lambda c: c),
    'go': ('go', ['--go-package', 'p'], lambda c: c),
    'python': ('py', [], lambda c: c),
}
CRATES = ['alpha', 'beta', 'gamma', 'delta']
DROP = {'line', 'span', 'docs'}


def clean(x):
    if isinstance(x, dict):
        return {k: clean(v) for k, v in x.items() if k not in DROP}
    if isinstance(x, list):
        return [clean(v) for v in x]
    return x


def definitions(lang, text):
    o = extract.extract(lang, text or '')
    return [clean(d) for d in o['definitions'] if d.get('kind') != 'helper'], list(o['unparsed']) + list(o['anomalies'])


def _run(args):
    lang, extra, dest, src_dir, out_file = args
    try:
        p = subprocess.run(['timeout', '30', str(vf.TYPESHARE), '--lang', lang] + extra + dest + [str(src_dir)], capture_output=True, text=True, timeout=40)
        rc, err = p.returncode, p.stderr
    except subprocess.TimeoutExpired:
        rc, err = 124, ''
    f = pathlib.Path(out_file)
    if rc != 0 and 'Could not get parsed data for single file output' in err:
        # a crate without any annotated item has no single-file output at all: it defines nothing
        return 0, '', ''
    return rc, (f.read_text(errors='replace') if f.exists() else None), err[-300:]


def with_foreign_import(src):
    """the same crate with one import of an unknown crate in front: only a struct added at the end refers to it, but the crate's import set is no longer
    empty, which is what some folder-mode code paths look at first (seeded C04_g: a cache bypassed when import_types is empty)"""
    # (only imports of names that a type of the file REFERS to survive reconcile_referenced_types, hence the struct)
    return 'use zz_unknown::Nothing;\n' + src + '\n#[typeshare]\npub struct ForeignUser { pub n: Nothing }\n'


def independent_crates(chk, workspaces, facet, what, langs=None, swift_prefix=None):
    """workspaces: list of lists of Rust sources (one per crate, independent of each other).
    facet(lang, definitions) -> comparable observation of the property.  Reports a violation (with the workspace as the
    failing input) when a crate's folder-mode file gives another observation than the crate alone."""
    langs = langs or list(LANGS)
    jobs, meta = [], []
    for w, sources in enumerate(workspaces):
        d = vf.tmpdir('verif-multi-')
        names = CRATES[:len(sources)]
        if w % 2 == 1:
            sources = workspaces[w] = [with_foreign_import(s) for s in sources]
        for c, src in zip(names, sources):
            (d / 'ws' / c / 'src').mkdir(parents=True)
            (d / 'ws' / c / 'src' / 'lib.rs').write_text(src)
        for lang in langs:
            ext, extra, fname = LANGS[lang]
            extra = list(extra) + (['--swift-prefix', swift_prefix] if lang == 'swift' and swift_prefix else [])
            out = d / f'out_{lang}'
            out.mkdir()
            jobs.append((lang, extra, ['--output-folder', str(out)], d / 'ws', out / 'nonexistent'))
            meta.append(('multi', w, lang, None, out))
            for c in names:
                f = d / f'single_{lang}_{c}.{ext}'
                jobs.append((lang, extra, ['-o', str(f)], d / 'ws' / c, f))
                meta.append(('single', w, lang, c, f))
    with concurrent.futures.ThreadPoolExecutor(max_workers=vf.NPROC) as ex:
        res = list(ex.map(_run, jobs))
    singles, multis = {}, {}
    for (kind, w, lang, c, path), (rc, text, err) in zip(meta, res):
        if kind == 'single':
            singles[(w, lang, c)] = (rc, text, err)
        else:
            multis[(w, lang)] = (rc, path, err)
    for w, sources in enumerate(workspaces):
        names = CRATES[:len(sources)]
        for lang in langs:
            ext, _, fname = LANGS[lang]
            mrc, mdir, merr = multis[(w, lang)]
            chk.evaluations += 1
            chk.count('folder_mode_workspaces_' + lang)
            payload = {'phase': 'independent-crates', 'lang': lang, 'crates': dict(zip(names, sources))}
            srcs = [singles[(w, lang, c)] for c in names]
            if any(rc != 0 for rc, _, _ in srcs):
                # a crate that fails alone (a generation error of this language) makes the folder run fail as well: nothing to compare
                chk.count('folder_mode_skipped_single_fails')
                if mrc == 0:
                    chk.violation(f'multi-{w}-{lang}', dict(payload, single_rc=[rc for rc, _, _ in srcs]), f'{what}: a crate fails when generated alone ({lang}) but the folder-mode run over the workspace exits 0')
                continue
            if mrc != 0:
                chk.violation(f'multi-{w}-{lang}', dict(payload, rc=mrc, stderr=merr), f'{what}: every crate is generated alone ({lang}) but the folder-mode run over the workspace fails')
                continue
            for c in names:
                _, stext, _ = singles[(w, lang, c)]
                mf = mdir / f'{fname(c)}.{ext}'
                mtext = mf.read_text(errors='replace') if mf.exists() else None
                sd, sun = definitions(lang, stext)
                if mtext is None:
                    if sd:
                        chk.violation(f'multi-{w}-{lang}-{c}', dict(payload, crate=c), f'{what}: folder mode ({lang}) writes no file for crate {c}, which defines {len(sd)} types when generated alone')
                    continue
                md, mun = definitions(lang, mtext)
                if sun or mun:
                    chk.count('folder_mode_unreadable_' + lang)
                    continue
                fs, fm = facet(lang, sd), facet(lang, md)
                if fs != fm:
                    diff = [(a, b) for a, b in zip(fs, fm) if a != b][:2] if isinstance(fs, list) and isinstance(fm, list) and len(fs) == len(fm) else [(fs, fm)]
                    chk.violation(f'multi-{w}-{lang}-{c}', dict(payload, crate=c, alone=stext, in_folder_mode=mtext, first_differences=json.loads(json.dumps(diff, default=str))[:2]),
                                  f'{what}: crate {c} ({lang}) is generated differently in folder mode than alone: {json.dumps(diff, default=str)[:300]}')
                else:
                    chk.nontrivial.add(('folder', lang, sources[names.index(c)]))


def facet_keys(lang, defs):
    """C01: (definition, [(member, wire key, binding)]) incl. the members of struct variants"""
    out = []
    for d in defs:
        out.append((d['name'], [(m['name'], m.get('wire_key'), m.get('key_binding')) for m in d.get('members') or []],
                    [(v['name'], [(m['name'], m.get('wire_key'), m.get('key_binding')) for m in v.get('members') or []]) for v in d.get('variants') or []]))
    return out


def facet_enums(lang, defs):
    """C02: (definition, [(case, wire name(s), payload kind)], tag keys, content keys)"""
    return [(d['name'], [(v['name'], v.get('wire_name'), v.get('wire_names'), v.get('payload')) for v in d.get('variants') or []], d.get('tag_keys'), d.get('content_keys'))
            for d in defs if d.get('variants') or d.get('kind') == 'enum']


def facet_optional(lang, defs):
    """C04: (definition, [(member, optional, detail, type)]) incl. payloads and alias targets"""
    out = []
    for d in defs:
        ms = [(m['name'], m.get('optional'), m.get('optional_detail'), m.get('type')) for m in d.get('members') or []]
        vs = [(v['name'], v.get('optional'), v.get('optional_detail'), v.get('type'), [(m['name'], m.get('optional'), m.get('optional_detail'), m.get('type')) for m in v.get('members') or []])
              for v in d.get('variants') or []]
        out.append((d['name'], d.get('type'), ms, vs))
    return out


def facet_types(lang, defs):
    """C05 / C09: (definition, generics, alias / const type, [(member, type text)], [(variant, type text, [(member, type text)])])"""
    return [(d['name'], d.get('generics'), d.get('type_raw'), [(m['name'], m.get('type_raw')) for m in d.get('members') or []],
             [(v['name'], v.get('type_raw'), [(m['name'], m.get('type_raw')) for m in v.get('members') or []]) for v in d.get('variants') or []]) for d in defs]
