"""Seeded generator of IR item sets (the JSON form of lib/ir.py) for back-end checks.
Structured, mostly valid inputs: names and types a real program could produce after parsing, plus a
controllable share of edge material (keywords, dashed keys, leading-digit variants, odd generics)."""
import ir

PRIMS = ['String', 'Char', 'I8', 'I16', 'I32', 'U8', 'U16', 'U32', 'Bool', 'F32', 'F64', 'I54', 'U53', 'Unit']
FIELD_NAMES = ['id', 'name', 'user_id', 'created_at', 'value', 'items', 'count', 'kind', 'data', 'flag', 'x', 'y', 'address_line1',
               'type', 'class', 'default', 'func', 'let', 'var', 'in', 'is', 'from', 'import', 'object', 'val', 'self', 'None', 'package']
TYPE_NAMES = ['Foo', 'Bar', 'Baz', 'Item', 'UserId', 'Config', 'Point', 'Wrapper', 'Node', 'Color', 'Shape', 'Event', 'Payload', 'Options', 'Type']
VARIANT_NAMES = ['A', 'B', 'Red', 'GreenLight', 'Unit', 'Some', 'None', 'Ok', 'Type', 'V1', 'Http2', 'AddressLine1', 'URL', 'Foo_Bar', '3D']
GENERICS = ['T', 'U', 'K', 'V']
COMMENTS = ['A comment', 'second line', 'with "quotes"', "it's", 'unicode é', 'trailing \\', 'has `ticks`', '', 'trailing blanks \t ']
SWIFT_DECORATORS = ['Equatable', 'Hashable', 'Identifiable', 'Sendable', 'Codable', 'String']
SWIFT_GENERIC_CONSTRAINTS = ['T: Equatable & Hashable', 'T: Sendable', 'U:Hashable&Codable', 'T', 'K : Comparable', 'V: A: B & ']


class Gen:
    def __init__(self, rng, edge=0.15, langs_with_datetime=True):
        self.rng = rng
        self.edge = edge
        self.datetime = langs_with_datetime

    def comments(self):
        r = self.rng
        n = r.choice([0, 0, 0, 1, 1, 2, 3])
        return [r.choice(COMMENTS) for _ in range(n)]

    def ty(self, depth, names, generics, allow_unit=True):
        r = self.rng
        if depth <= 0 or r.random() < 0.35:
            c = r.random()
            if c < 0.45:
                p = r.choice(PRIMS if allow_unit else [p for p in PRIMS if p != 'Unit'])
                return ir.special(p)
            if c < 0.75 and names:
                return ir.simple(r.choice(names))
            if c < 0.9 and generics:
                return ir.simple(r.choice(generics))
            if self.datetime and c < 0.93:
                return ir.special('DateTime')
            return ir.special('String')
        c = r.random()
        if c < 0.25:
            return ir.special('Vec', self.ty(depth - 1, names, generics))
        if c < 0.45:
            return ir.special('Option', self.ty(depth - 1, names, generics))
        if c < 0.6:
            k = r.choice([ir.special('String'), ir.special('String'), ir.special('U32'), ir.simple(r.choice(names)) if names else ir.special('String')])
            return ir.special('HashMap', k, self.ty(depth - 1, names, generics))
        if c < 0.7:
            return ir.special('Array', self.ty(depth - 1, names, generics), n=r.choice([0, 1, 2, 3]))
        if c < 0.78:
            return ir.special('Slice', self.ty(depth - 1, names, generics))
        if c < 0.95 and names:
            return ir.generic(r.choice(names), [self.ty(depth - 1, names, generics) for _ in range(r.choice([1, 1, 2]))])
        return ir.special('Vec', ir.special('U8'))

    def field(self, name, names, generics):
        r = self.rng
        renamed = name
        if r.random() < self.edge:
            renamed = r.choice([name.replace('_', '-'), name + '-x', 'camelCase' + name.title().replace('_', ''), name.upper()])
        t = self.ty(r.choice([0, 1, 1, 2, 3]), names, generics)
        decs = []
        if r.random() < self.edge:
            decs = [[l, ds] for l, ds in [
                ('TypeScript', [{'word': 'readonly'}] if r.random() < 0.5 else [{'name': 'type', 'value': 'any'}]),
                ('Kotlin', [{'name': 'type', 'value': 'Any'}]), ('Swift', [{'name': 'type', 'value': 'Int'}])] if r.random() < 0.5]
            if r.random() < 0.5:   # scala(type = ..) override, a bare word, or both (BTreeSet order: words first)
                decs.append(['Scala', r.choice([[{'name': 'type', 'value': 'Short'}], [{'word': 'transient'}],
                                                [{'word': 'transient'}, {'name': 'type', 'value': 'Vector[Byte]'}]])])
            decs.sort()
        return {'id': ir.mk_id(name, renamed, renamed != name and r.random() < 0.7), 'ty': t, 'comments': self.comments(),
                'has_default': r.random() < 0.2, 'decorators': decs}

    def fields(self, names, generics, maxn=5):
        r = self.rng
        n = r.choice([0, 1, 2, 2, 3, maxn])
        return [self.field(nm, names, generics) for nm in r.sample(FIELD_NAMES, n)]

    def decorators(self):
        r = self.rng
        out = []
        if r.random() < self.edge:
            out.append(['Swift', sorted(set(r.sample(SWIFT_DECORATORS, r.randint(1, 2))))])
        if r.random() < self.edge / 2:
            out.append(['Kotlin', ['JvmInline']])
        if r.random() < self.edge / 2:
            out.append(['SwiftGenericConstraints', sorted(set(r.sample(SWIFT_GENERIC_CONSTRAINTS, r.randint(1, 2))))])
        out.sort()
        return out

    def items(self, nmin=1, nmax=6):
        r = self.rng
        n = r.randint(nmin, nmax)
        names = r.sample(TYPE_NAMES, n)
        structs, enums, aliases, consts = [], [], [], []
        for nm in names:
            kind = r.choice(['struct', 'struct', 'struct', 'uenum', 'aenum', 'aenum', 'alias', 'const'])
            others = [x for x in names if x != nm] + ([nm] if r.random() < 0.1 else [])
            gens = r.sample(GENERICS, r.choice([0, 0, 0, 1, 2])) if kind in ('struct', 'aenum', 'alias') else []
            renamed = nm + 'Renamed' if r.random() < self.edge else nm
            idd = ir.mk_id(nm, renamed, renamed != nm)
            if kind == 'struct':
                structs.append({'kind': 'struct', 'id': idd, 'generics': gens, 'fields': self.fields(others, gens), 'comments': self.comments(),
                                'decorators': self.decorators(), 'is_redacted': r.random() < 0.1})
            elif kind == 'uenum':
                vs = []
                for v in r.sample(VARIANT_NAMES[:12] if r.random() > self.edge else VARIANT_NAMES, r.randint(0, 4)):
                    vr = v if r.random() > 0.3 else r.choice([v.lower(), v.upper(), 'kebab-' + v.lower()])
                    vs.append({'k': 'unit', 'id': ir.mk_id(v, vr, False), 'comments': self.comments()})
                enums.append({'kind': 'enum', 'algebraic': False, 'tag': None, 'content': None, 'id': idd, 'generics': [], 'comments': self.comments(),
                              'variants': vs, 'decorators': self.decorators(), 'is_recursive': False, 'is_redacted': r.random() < 0.05})
            elif kind == 'aenum':
                vs = []
                for v in r.sample(VARIANT_NAMES[:12] if r.random() > self.edge else VARIANT_NAMES, r.randint(1, 4)):
                    vr = v if r.random() > 0.3 else r.choice([v.lower(), 'kebab-' + v.lower()])
                    vid = ir.mk_id(v, vr, False)
                    k = r.choice(['unit', 'tuple', 'tuple', 'struct'])
                    if k == 'unit':
                        vs.append({'k': 'unit', 'id': vid, 'comments': self.comments()})
                    elif k == 'tuple':
                        vs.append({'k': 'tuple', 'id': vid, 'comments': self.comments(), 'ty': self.ty(r.choice([0, 1, 2]), others, gens)})
                    else:
                        vs.append({'k': 'struct', 'id': vid, 'comments': self.comments(), 'fields': self.fields(others, gens, 3)})
                if not any(v['k'] != 'unit' for v in vs):
                    vs.append({'k': 'tuple', 'id': ir.mk_id('Last'), 'comments': [], 'ty': ir.special('String')})
                rec = any(nm in ir.type_ids(t) for v in vs for t in ([v['ty']] if v['k'] == 'tuple' else [f['ty'] for f in v.get('fields', [])]))
                enums.append({'kind': 'enum', 'algebraic': True, 'tag': r.choice(['type', 't', 'kind', 'tag']), 'content': r.choice(['content', 'c', 'value', 'data']),
                              'id': idd, 'generics': gens, 'comments': self.comments(), 'variants': vs, 'decorators': self.decorators(),
                              'is_recursive': rec, 'is_redacted': r.random() < 0.05})
            elif kind == 'alias':
                aliases.append({'kind': 'alias', 'id': idd, 'generics': gens, 'ty': self.ty(r.choice([0, 1, 2]), others, gens, allow_unit=True), 'comments': self.comments(),
                                'decorators': self.decorators(), 'is_redacted': r.random() < 0.1})
            else:
                consts.append({'kind': 'const', 'id': ir.mk_id(nm.upper() + '_MAX'), 'ty': ir.special(r.choice(['U32', 'I32', 'U8', 'I54'])),
                               'value': str(r.choice([0, 1, 42, -7, 2 ** 40, -(2 ** 70)]))})
        return {'structs': structs, 'enums': enums, 'aliases': aliases, 'consts': consts}
