"""Seeded generator of COMPILABLE Rust items for C19 (#[typeshare] is transparent to rustc and serde).

Every generated item comes as twins: text A carries `#[typeshare..]` invocations on the item and
`#[typeshare(..)]` helpers on its members; text B is the same source with every typeshare attribute
removed.  The generator knows where it put them: they are written between the marker characters
\\x01 .. \\x02, twin A deletes the markers, twin B deletes the marked spans.  Besides the texts an item
records how to build values of it (Rust expressions with the placeholder {P} for the module path of
the twin), how to observe them (`mode`: json / ser / debug / size / union / call), and what was
planted (counters for the evidence file).  Ground truth never comes from typeshare or the model."""
import re

TS_OPEN, TS_CLOSE = '\x01', '\x02'


def ts(text):
    return TS_OPEN + text + TS_CLOSE


def twin_a(s):
    return s.replace(TS_OPEN, '').replace(TS_CLOSE, '')


def twin_b(s):
    return re.sub('\x01[^\x02]*\x02', '', s)


FIELD_IDENTS = ['id', 'name', 'user_id', 'created_at', 'value', 'items', 'count', 'kind', 'data', 'flag', 'x', 'y2', 'address_line1', 'is_ok', 'a_b_c',
                'r#type', 'r#match', 'r#ref', 'inner', 'payload_len', 'w']
TYPE_IDENTS = ['Foo', 'Bar', 'Baz', 'Item', 'UserId', 'Config', 'Point', 'Wrapper', 'Node', 'Color', 'Shape', 'Event', 'Payload', 'Options', 'Account']
VARIANT_IDENTS = ['A', 'B', 'Red', 'GreenLight', 'Unit', 'Ready', 'Failed', 'Ok2', 'V1', 'Http2', 'AddressLine1', 'Pending', 'Done', 'Empty', 'Full', 'Leaf']
RULES = ['lowercase', 'UPPERCASE', 'PascalCase', 'camelCase', 'snake_case', 'SCREAMING_SNAKE_CASE', 'kebab-case', 'SCREAMING-KEBAB-CASE']
WORDS = ['alpha', 'be ta', 'g\\"q', 'd\\\\e', '', 'zeta9', 'ünï', 'tab\\t']
DOCS = ['A doc line', 'second line here', 'Mentions `code` and "quotes"', "it's fine", 'trailing', 'x']
VIS = ['pub', 'pub', 'pub', 'pub(crate)', 'pub(in crate)']

# helpers typeshare documents for members, and a few it does not (the macro never looks at arguments)
MEMBER_HELPERS = [('skip', '#[typeshare(skip)]'), ('serialized_as', '#[typeshare(serialized_as = "String")]'),
                  ('serialized_as', '#[typeshare(serialized_as = "Vec<u8>")]'), ('typescript_readonly', '#[typeshare(typescript(readonly))]'),
                  ('typescript_type', '#[typeshare(typescript(type = "number"))]'), ('redacted', '#[typeshare(redacted)]'),
                  ('skip_redacted', '#[typeshare(skip, redacted)]'), ('python_type', '#[typeshare(python(type = "int"))]'),
                  ('go_type', '#[typeshare(go(type = "uint"))]'), ('kotlin_decorator', '#[typeshare(kotlin(JvmInline))]'),
                  ('two_languages', '#[typeshare(swift(type = "Int"), typescript(readonly))]'), ('bare_word', '#[typeshare]'),
                  ('empty_parens', '#[typeshare()]'), ('arbitrary_tokens', '#[typeshare(anything at all, 1 + 2, {x} [y])]'),
                  ('name_value', '#[typeshare = "v"]'), ('spaced', '#[ typeshare ( skip ) ]')]
ITEM_INVOCATIONS = ['#[typeshare]', '#[typeshare]', '#[typeshare]', '#[typeshare()]', '#[typeshare(swift = "Equatable, Hashable")]',
                    '#[typeshare(kotlin = "JvmInline", redacted)]', '#[typeshare(serialized_as = "String")]',
                    '#[typeshare(swiftGenericConstraints = "T: Equatable")]', '#[typeshare(transparent)]', '#[typeshare::typeshare]',
                    '#[::typeshare::typeshare(swift = "Codable")]', '#[typeshare(any tokens { } [ ] 1 + 2)]', '#[typeshare::typeshare(skip)]']


class Ty:
    """a type expression: Rust text (mentioning the item's generic parameters by name) and a value generator"""

    def __init__(self, text, val, option=False, serde_ok=True):
        self.text, self.val, self.option, self.serde_ok = text, val, option, serde_ok


def _str_lit(r):
    return '"' + r.choice(WORDS) + '"'


PRIM = {
    'u8': lambda r: f'{r.randint(0, 255)}u8', 'u16': lambda r: f'{r.randint(0, 65535)}u16', 'u32': lambda r: f'{r.randint(0, 2**32 - 1)}u32',
    'u64': lambda r: f'{r.randint(0, 2**64 - 1)}u64', 'i8': lambda r: f'{r.randint(-128, 127)}i8', 'i32': lambda r: f'{r.randint(-2**31, 2**31 - 1)}i32',
    'i64': lambda r: f'{r.randint(-2**63, 2**63 - 1)}i64', 'bool': lambda r: r.choice(['true', 'false']),
    'char': lambda r: r.choice(["'a'", "'Z'", "'\\n'", "'é'", "'\"'"]), 'String': lambda r: f'String::from({_str_lit(r)})',
    'f64': lambda r: r.choice(['0.5f64', '-2.25f64', '1e10f64', '3.0f64']), '()': lambda r: '()',
}


class Param:
    def __init__(self, kind, name, bound='', default='', where='', inst=None):
        self.kind, self.name, self.bound, self.default, self.where, self.inst = kind, name, bound, default, where, inst


class Item:
    def __init__(self):
        self.kind = ''          # struct_named struct_tuple struct_unit enum union alias const static fn
        self.name = ''
        self.text = ''          # marked text of the item (+ nothing else)
        self.mode = ''          # json ser debug size union call
        self.ty = ''            # the concrete type, {P} = module path
        self.values = []        # Rust expressions of that type ({P})
        self.counts = []        # counter names for the evidence
        self.ts_members = 0     # helpers planted at member positions
        self.invocations = 0
        self.special = None     # None | 'illtyped' | 'known' | 'control' | 'outside'
        self.plant = ''

    @property
    def a(self):
        return twin_a(self.text)

    @property
    def b(self):
        return twin_b(self.text)


class Gen:
    def __init__(self, rng):
        self.r = rng

    # ------------------------------------------------------------ types
    def ty(self, depth, params, serde, top=True):
        r = self.r
        tps = [p for p in params if p.kind == 'type']
        lts = [p for p in params if p.kind == 'lifetime']
        opts = ['prim'] * 5 + ['option', 'option', 'vec', 'vec', 'box', 'tuple', 'array', 'map']
        if tps:
            opts += ['param'] * 4
        if lts:
            opts += ['str', 'cow', 'str'] if top else ['cow', 'cow']
        k = r.choice(opts) if depth > 0 else r.choice(['prim', 'prim', 'param' if tps else 'prim', ('str' if top else 'cow') if lts else 'prim'])
        if k == 'prim':
            n = r.choice(list(PRIM))
            return Ty(n, PRIM[n])
        if k == 'param':
            p = r.choice(tps)
            return Ty(p.name, p.inst.val)
        if k == 'str':
            lt = r.choice(lts).name
            return Ty(f"&{lt} str", lambda r: r.choice(['"plain"', '"two words"', '""']))
        if k == 'cow':
            lt = r.choice(lts).name
            return Ty(f"Cow<{lt}, str>", lambda r: f'Cow::Borrowed({_str_lit(r)})')
        x = self.ty(depth - 1, params, serde, top=False)
        if k == 'option':
            return Ty(f'Option<{x.text}>', lambda r: 'None' if r.random() < 0.4 else f'Some({x.val(r)})', option=True)
        if k == 'vec':
            return Ty(f'Vec<{x.text}>', lambda r: 'vec![' + ', '.join(x.val(r) for _ in range(r.randint(0, 3))) + ']')
        if k == 'box':
            return Ty(f'Box<{x.text}>', lambda r: f'Box::new({x.val(r)})')
        if k == 'tuple':
            y = self.ty(depth - 1, params, serde, top=False)
            return Ty(f'({x.text}, {y.text})', lambda r: f'({x.val(r)}, {y.val(r)})')
        if k == 'array':
            n = r.randint(1, 3)
            return Ty(f'[{x.text}; {n}]', lambda r: '[' + ', '.join(x.val(r) for _ in range(n)) + ']')
        return Ty(f'BTreeMap<String, {x.text}>', lambda r: 'BTreeMap::from([' + ', '.join(f'(String::from("k{i}"), {x.val(r)})' for i in range(r.randint(0, 2))) + '])')

    # ------------------------------------------------------------ generics
    def generics(self, allow_lifetime=True, allow_default=True, copy=False):
        r = self.r
        params = []
        shape = r.choice(['', '', '', 'T', 'T', 'TU', 'a', 'aT', 'aTU'])
        if 'a' in shape and allow_lifetime:
            params.append(Param('lifetime', "'a"))
        for n in [c for c in shape if c in 'TU']:
            cname = r.choice(['u8', 'String', 'bool', 'i64', 'u32', 'char']) if not copy else r.choice(['u8', 'bool', 'i64', 'u32', 'char'])
            p = Param('type', n, inst=Ty(cname, PRIM[cname]))
            need = 'Copy' if copy else None
            style = r.choice(['', '', 'inline', 'where', 'both'])
            b = r.choice(['Clone', 'Clone + Default', 'std::fmt::Debug', 'Clone + PartialEq'])
            if need:
                b = 'Copy'
                style = r.choice(['inline', 'where'])
            if style in ('inline', 'both'):
                p.bound = b
            if style in ('where', 'both'):
                p.where = f'{n}: ' + (b if style == 'where' else 'Default')
            if allow_default and n == shape[-1] and r.random() < 0.3:
                p.default = cname
            params.append(p)
        return params

    @staticmethod
    def generics_text(params):
        if not params:
            return '', ''
        ps = []
        for p in params:
            t = p.name
            if p.bound:
                t += ': ' + p.bound
            if p.default:
                t += ' = ' + p.default
            ps.append(t)
        wh = [p.where for p in params if p.where]
        return '<' + ', '.join(ps) + '>', (' where ' + ', '.join(wh) if wh else '')

    @staticmethod
    def generic_args(params):
        if not params:
            return ''
        return '<' + ', '.join("'_" if p.kind == 'lifetime' else p.inst.text for p in params) + '>'

    @staticmethod
    def phantom(params):
        inner = ', '.join(f"&{p.name} ()" if p.kind == 'lifetime' else p.name for p in params)
        return f'PhantomData<({inner},)>' if len(params) == 1 else f'PhantomData<({inner})>'

    # ------------------------------------------------------------ attributes
    def doc(self):
        r = self.r
        d = r.choice(DOCS)
        k = r.random()
        if k < 0.5:
            return f'/// {d}'
        if k < 0.8:
            return '#[doc = "' + d.replace('"', '\\"') + '"]'
        return f'/** {d} */'

    def member_others(self, it, serde, pos, is_option=False, allow_cfg_false=True, variant=False):
        """non-typeshare attributes for one member; returns (list of texts, configured_out)"""
        r = self.r
        out, gone = [], False
        used = set()
        n = r.choice([0, 0, 1, 1, 2, 3])
        for _ in range(n):
            k = r.choice(['doc', 'doc', 'serde', 'serde', 'cfg_true', 'cfg_false', 'allow', 'cfg_attr', 'deprecated'])
            if k == 'doc':
                out.append(self.doc())
                it.counts.append('attr_doc_member')
            elif k == 'serde' and serde:
                if variant:
                    c = r.choice([f'rename = "v{r.randint(0, 99)}_{len(out)}"', f'alias = "al{r.randint(0, 9)}"', 'skip_serializing', 'skip_deserializing'])
                elif pos == 'named':
                    c = r.choice([f'rename = "k{r.randint(0, 999)}-{len(out)}"', 'default', f'alias = "al{r.randint(0, 99)}"', 'skip', 'skip_serializing', 'default',
                                  'skip_serializing_if = "Option::is_none"' if is_option else 'default'])
                else:
                    c = None          # tuple fields: no serde attributes
                key = c.split(' ')[0] if c else None
                if key in ('skip', 'skip_serializing', 'skip_deserializing'):
                    key = 'skip'
                if c and key not in used:
                    used.add(key)
                    out.append(f'#[serde({c})]')
                    it.counts.append('attr_serde_member')
            elif k == 'cfg_true':
                out.append(r.choice(['#[cfg(all())]', '#[cfg(not(any()))]']))
                it.counts.append('attr_cfg_true_member')
            elif k == 'cfg_false' and allow_cfg_false and not gone and r.random() < 0.5:
                out.append(r.choice(['#[cfg(any())]', '#[cfg(not(all()))]']))
                it.counts.append('attr_cfg_false_member')
                gone = True
            elif k == 'allow':
                out.append(r.choice(['#[allow(dead_code)]', '#[allow(unused, non_snake_case)]']))
                it.counts.append('attr_allow_member')
            elif k == 'cfg_attr':
                out.append(r.choice(['#[cfg_attr(all(), doc = "via cfg_attr")]', '#[cfg_attr(any(), no_such_attribute)]', '#[cfg_attr(all(), allow(unused))]',
                                     '#[cfg_attr(not(any()), allow(dead_code), doc = "two")]']))
                it.counts.append('attr_cfg_attr_member')
            elif k == 'deprecated' and 'deprecated' not in used:
                used.add('deprecated')
                out.append(r.choice(['#[deprecated]', '#[deprecated(note = "old")]']))
                it.counts.append('attr_deprecated_member')
        return out, gone

    def member_attrs(self, it, serde, pos, poskey, annotated, **kw):
        """returns (marked attribute text, configured_out)"""
        r = self.r
        others, gone = self.member_others(it, serde, pos, **kw)
        helpers = []
        if annotated and r.random() < 0.55:
            for _ in range(r.choice([1, 1, 1, 2, 3])):
                label, h = r.choice(MEMBER_HELPERS)
                helpers.append(ts(h))
                it.ts_members += 1
                it.counts.append('helper_at_' + poskey)
                it.counts.append('helper_' + label)
        allx = others + helpers
        r.shuffle(allx)
        return ''.join(a + '\n    ' for a in allx), gone

    def item_attrs(self, it, derives, serde_attrs, extra, annotated):
        """the item's outer attributes: derive lists (possibly split), serde container attributes, other
        attributes and 1-3 typeshare invocations, in random order (derive before AND after typeshare)."""
        r = self.r
        attrs = []
        ds = list(derives)
        r.shuffle(ds)
        dattrs = []
        if ds:
            cut = r.randint(1, len(ds)) if r.random() < 0.4 else len(ds)
            for part in (ds[:cut], ds[cut:]):
                if part:
                    dattrs.append('#[derive(' + ', '.join(part) + ')]')
        others = list(extra)
        once = set()
        for _ in range(r.choice([0, 1, 1, 2, 3])):
            k = r.choice(['doc', 'doc', 'allow', 'cfg_true', 'cfg_attr', 'must_use', 'deprecated'])
            if k in ('must_use', 'deprecated'):
                if k in once:
                    continue
                once.add(k)
            if k == 'doc':
                others.append(self.doc())
            elif k == 'allow':
                others.append(r.choice(['#[allow(dead_code)]', '#[allow(non_camel_case_types, unused)]', '#[allow(clippy::all)]']))
            elif k == 'cfg_true':
                others.append(r.choice(['#[cfg(all())]', '#[cfg(not(any()))]']))
            elif k == 'cfg_attr':
                others.append(r.choice(['#[cfg_attr(all(), allow(unused))]', '#[cfg_attr(any(), no_such_attribute)]', '#[cfg_attr(all(), doc = "d")]']))
            elif k == 'must_use':
                others.append('#[must_use]')
            elif k == 'deprecated':
                others.append('#[deprecated]')
            it.counts.append('attr_' + k + '_item')
        invs = []
        if annotated:
            for _ in range(r.choice([1, 1, 1, 2, 2, 3])):
                inv = r.choice(ITEM_INVOCATIONS)
                invs.append(ts(inv))
                it.invocations += 1
                it.counts.append('invocation_' + ('qualified' if '::' in inv else 'args' if '(' in inv else 'bare'))
            it.counts.append(f'invocations_{len(invs)}')
        free = others + invs
        r.shuffle(free)
        # derive attributes keep their relative order; serde container attributes follow the last derive
        # attribute (rustc rejects a derive helper used before the derive that introduces it)
        seq = free[:]
        for d in dattrs:
            seq.insert(r.randint(0, len(seq)), d)
        # re-establish derive order
        idx = [i for i, a in enumerate(seq) if a in dattrs]
        for i, d in zip(idx, dattrs):
            seq[i] = d
        for s in serde_attrs:
            lastd = max(seq.index(d) for d in dattrs) if dattrs else -1
            seq.insert(r.randint(lastd + 1, len(seq)), s)
        if invs and dattrs:
            fi = min(i for i, a in enumerate(seq) if a in invs)
            fd = seq.index(dattrs[0])
            it.counts.append('derive_before_typeshare' if fd < fi else 'derive_after_typeshare')
            if len(dattrs) > 1 and seq.index(dattrs[0]) < fi < seq.index(dattrs[1]):
                it.counts.append('typeshare_between_derives')
        for s in serde_attrs:
            it.counts.append('attr_serde_item')
        return ''.join(a + '\n' for a in seq)

    # ------------------------------------------------------------ items
    def pick_mode(self):
        return self.r.choice(['json', 'json', 'json', 'json', 'ser', 'debug', 'size'])

    def derives_for(self, mode, extra_ok=True):
        r = self.r
        d = {'json': ['Serialize', 'Deserialize'], 'ser': ['Serialize'], 'debug': ['Debug'], 'size': []}[mode]
        if extra_ok:
            d = d + r.sample(['Clone', 'PartialEq', 'Debug'] if mode != 'debug' else ['Clone', 'PartialEq'], r.randint(0, 2))
        # spell some with paths
        return [('serde::' + x if x in ('Serialize', 'Deserialize') and r.random() < 0.2 else x) for x in d]

    def struct(self, annotated=True):
        r = self.r
        it = Item()
        it.mode = self.pick_mode()
        serde = it.mode in ('json', 'ser')
        shape = r.choice(['named', 'named', 'named', 'tuple', 'unit'])
        it.kind = 'struct_' + shape
        it.name = r.choice(TYPE_IDENTS)
        params = self.generics() if shape != 'unit' else []
        if it.mode == 'size' and r.random() < 0.3 and shape == 'named':
            for p in params:
                p.default = ''
            params.append(Param('const', 'const N: usize', inst=Ty(str(r.randint(1, 4)), None)))
        g, wh = self.generics_text(params)
        sattrs, extra = [], []
        if serde and shape == 'named':
            if r.random() < 0.4:
                sattrs.append(f'#[serde(rename_all = "{r.choice(RULES)}")]')
            if r.random() < 0.15:
                sattrs.append(f'#[serde(rename = "Renamed{r.randint(0, 9)}")]')
            if r.random() < 0.1:
                sattrs.append('#[serde(deny_unknown_fields)]')
        if r.random() < 0.15 and shape != 'unit':
            extra.append('#[repr(C)]')
            it.counts.append('attr_repr_item')
        if r.random() < 0.08:
            extra.append('#[non_exhaustive]')
        vis = r.choice(VIS)
        head = self.item_attrs(it, self.derives_for(it.mode), sattrs, extra, annotated)
        if shape == 'unit':
            it.text = f'{head}{vis} struct {it.name};'
            it.ty = '{P}::' + it.name
            it.values = ['{P}::' + it.name]
            return it
        fields = []  # (ident or None, Ty, attrtext, gone)
        names = r.sample(FIELD_IDENTS, r.randint(0, 5))
        for n in names:
            t = self.ty(r.randint(0, 2), [p for p in params if p.kind != 'const'], serde)
            at, gone = self.member_attrs(it, serde, shape if shape == 'named' else 'tuple', 'field' if shape == 'named' else 'tuple_field', annotated,
                                         is_option=t.option)
            fields.append((n, t, at, gone))
        cps = [p for p in params if p.kind == 'const']
        for p in cps:
            fields.append(('arr', Ty('[u8; N]', lambda r, p=p: f'[{r.randint(0, 255)}u8; {p.inst.text}]'), '', False))
        tl = [p for p in params if p.kind != 'const']
        if tl:
            at, _ = self.member_attrs(it, serde, shape if shape == 'named' else 'tuple', 'field' if shape == 'named' else 'tuple_field', annotated,
                                      allow_cfg_false=False)
            fields.append(('ph', Ty(self.phantom(tl), lambda r: 'PhantomData'), at, False))
        args = '<' + ', '.join("'_" if p.kind == 'lifetime' else p.inst.text for p in params) + '>' if params else ''
        it.ty = '{P}::' + it.name + args
        live = [f for f in fields if not f[3]]
        if shape == 'named':
            body = ''.join(f'    {at}{r.choice(VIS)} {n}: {t.text},\n' for n, t, at, _ in fields)
            it.text = f'{head}{vis} struct {it.name}{g}{wh} {{\n{body}}}'
            for _ in range(2):
                it.values.append('{P}::' + it.name + ' { ' + ', '.join(f'{n}: {t.val(r)}' for n, t, _, _ in live) + ' }')
        else:
            body = ''.join(f'    {at}{r.choice(VIS)} {t.text},\n' for _, t, at, _ in fields)
            it.text = f'{head}{vis} struct {it.name}{g}(\n{body}){wh};'
            for _ in range(2):
                it.values.append('{P}::' + it.name + '(' + ', '.join(t.val(r) for _, t, _, _ in live) + ')')
        return it

    def enum(self, annotated=True):
        r = self.r
        it = Item()
        it.kind = 'enum'
        it.mode = self.pick_mode()
        serde = it.mode in ('json', 'ser')
        it.name = r.choice(TYPE_IDENTS)
        unit_only = r.random() < 0.3
        params = [] if unit_only else self.generics()
        g, wh = self.generics_text(params)
        rep = r.choice(['external', 'external', 'adjacent', 'adjacent', 'internal', 'untagged']) if serde else 'external'
        sattrs, extra = [], []
        if serde:
            if rep == 'adjacent':
                sattrs.append(r.choice(['#[serde(tag = "type", content = "content")]', '#[serde(tag = "t", content = "c")]']))
            elif rep == 'internal':
                sattrs.append('#[serde(tag = "__tag")]')
            elif rep == 'untagged':
                sattrs.append('#[serde(untagged)]')
            if r.random() < 0.4:
                sattrs.append(f'#[serde(rename_all = "{r.choice(RULES)}")]')
            if r.random() < 0.15 and not unit_only:
                sattrs.append(f'#[serde(rename_all_fields = "{r.choice(RULES)}")]')
        discr = (unit_only and r.random() < 0.6) or (not unit_only and r.random() < 0.12)
        if discr:
            extra.append(r.choice(['#[repr(u8)]', '#[repr(i32)]', '#[repr(u16)]']))
            it.counts.append('attr_repr_item')
            it.counts.append('enum_discriminants')
        if r.random() < 0.08:
            extra.append('#[non_exhaustive]')
        head = self.item_attrs(it, self.derives_for(it.mode), sattrs, extra, annotated)
        vnames = r.sample(VARIANT_IDENTS, r.randint(1, 5))
        body, live = '', []
        last = -1
        for vn in vnames:
            vk = 'unit' if unit_only else r.choice(['unit', 'tuple1', 'tuple2', 'struct', 'struct'])
            if rep == 'internal' and vk in ('tuple1', 'tuple2'):
                vk = 'struct'
            at, gone = self.member_attrs(it, serde, 'variant', 'variant', annotated, variant=True)
            d = ''
            if discr:
                if r.random() < 0.8:
                    last += r.randint(1, 5)
                    forms = [f'{last}', f'{last}', f'({last})', f'{{ {last} }}', f'{last} + 0', f'0x{last:x}']
                    if last & (last - 1) == 0 and last > 0:
                        forms += [f'1 << {last.bit_length() - 1}'] * 3
                    d = ' = ' + r.choice(forms)
                else:
                    last += 1
            if vk == 'unit':
                body += f'    {at}{vn}{d},\n'
                val = lambda r, vn=vn: '{P}::' + it.name + '::' + vn
            elif vk in ('tuple1', 'tuple2'):
                fs = []
                for _ in range(1 if vk == 'tuple1' else 2):
                    t = self.ty(r.randint(0, 2), params, serde)
                    fat, fgone = self.member_attrs(it, False, 'tuple', 'variant_tuple_field', annotated, allow_cfg_false=False)
                    fs.append((t, fat))
                body += f'    {at}{vn}(' + ', '.join(f'{fat}{t.text}' for t, fat in fs) + f'){d},\n'
                val = lambda r, vn=vn, fs=fs: '{P}::' + it.name + '::' + vn + '(' + ', '.join(t.val(r) for t, _ in fs) + ')'
            else:
                fs = []
                for n in r.sample(FIELD_IDENTS, r.randint(0, 3)):
                    t = self.ty(r.randint(0, 2), params, serde)
                    fat, fgone = self.member_attrs(it, serde, 'named', 'variant_field', annotated, is_option=t.option)
                    fs.append((n, t, fat, fgone))
                body += f'    {at}{vn} {{\n' + ''.join(f'        {fat}{n}: {t.text},\n' for n, t, fat, _ in fs) + f'    }}{d},\n'
                val = lambda r, vn=vn, fs=fs: '{P}::' + it.name + '::' + vn + ' { ' + ', '.join(f'{n}: {t.val(r)}' for n, t, _, g in fs if not g) + ' }'
            if not gone:
                live.append(val)
        if params:
            at, _ = self.member_attrs(it, serde, 'variant', 'variant', annotated, allow_cfg_false=False, variant=True)
            body += f'    {at}Ph {{ p: {self.phantom(params)} }},\n'
            live.append(lambda r: '{P}::' + it.name + '::Ph { p: PhantomData }')
        if not live:
            body += '    Last,\n'
            live.append(lambda r: '{P}::' + it.name + '::Last')
        it.text = f'{head}{r.choice(VIS)} enum {it.name}{g}{wh} {{\n{body}}}'
        it.ty = '{P}::' + it.name + self.generic_args(params)
        for _ in range(3):
            it.values.append(r.choice(live)(r))
        return it

    def union(self, annotated=True):
        r = self.r
        it = Item()
        it.kind = 'union'
        it.mode = 'union'
        it.name = r.choice(TYPE_IDENTS)
        params = self.generics(allow_lifetime=False, copy=True) if r.random() < 0.4 else []
        g, wh = self.generics_text(params)
        extra = ['#[repr(C)]'] if r.random() < 0.6 else []
        derives = ['Clone', 'Copy'] if r.random() < 0.6 else []
        head = self.item_attrs(it, derives, [], extra, annotated)
        body = ''
        first = None
        for n in r.sample([f for f in FIELD_IDENTS if not f.startswith('r#')], r.randint(1, 4)):
            t = r.choice(['u8', 'u32', 'i64', 'bool', '[u8; 4]', '(u8, u16)', 'f64'] + [p.name for p in params])
            at, gone = self.member_attrs(it, False, 'named', 'union_field', annotated, allow_cfg_false=first is not None)
            body += f'    {at}pub {n}: {t},\n'
            if first is None:
                first = (n, t)
        if params:
            at, _ = self.member_attrs(it, False, 'named', 'union_field', annotated, allow_cfg_false=False)
            body += f'    {at}ph: {self.phantom(params)},\n'
        it.text = f'{head}{r.choice(VIS)} union {it.name}{g}{wh} {{\n{body}}}'
        it.ty = '{P}::' + it.name + self.generic_args(params)
        uv = {'u8': '7', 'u32': '70000', 'i64': '-7', 'bool': 'true', '[u8; 4]': '[1, 2, 3, 4]', '(u8, u16)': '(1, 2)', 'f64': '1.5'}
        n, t = first
        v = uv[t] if t in uv else [p for p in params if p.name == t][0].inst.val(r)
        it.values = [f'unsafe {{ let u: {it.ty} = {{P}}::{it.name} {{ {n}: {v} }}; u.{n} }}']
        return it

    EXOTIC_TYPES = ["Box<dyn Fn(u8) -> u8 + Send + 'static>", "&'static [u8]", '*const u8', 'fn() -> !', 'fn(u8, &str) -> u8',
                    '<Vec<u8> as IntoIterator>::Item', "[Option<&'static str>; 2]", 'std::collections::HashMap<String, Vec<(u8, i8)>>', '(u8,)',
                    '((), ((),))', 'Option<fn(&u8) -> &u8>', 'core::marker::PhantomData<dyn Send>', '[u8; 4 + 4]', '[u8; { 3 }]', '[u8; (2)]',
                    '[u8; usize::MAX - usize::MAX + 1]', "for<'x> fn(&'x u8) -> &'x u8", 'Result<u8, Box<dyn std::error::Error + Send + Sync>>',
                    '::std::string::String', 'crate::PhantomData<u8>', '[[u16; 2]; 2]', "&'static mut u8", '*mut [u8]', 'Option<Box<Self>>',
                    'unsafe extern "C" fn(u8) -> u8', 'std::cell::Cell<u8>', "std::borrow::Cow<'static, [u8]>", '(u8, (u16, (u32,)))']
    EXOTIC_COPY = ["&'static [u8]", '*const u8', 'fn() -> !', 'fn(u8, &str) -> u8', '(u8,)', '((), ((),))', '[u8; 4 + 4]', '[u8; { 3 }]',
                   "for<'x> fn(&'x u8) -> &'x u8", 'core::marker::PhantomData<dyn Send>', '[[u16; 2]; 2]', '*mut [u8]', 'unsafe extern "C" fn(u8) -> u8']
    EXOTIC_WHERE = ["T: 'static", "for<'x> &'x T: Sized", '[T; 2]: Sized', 'T: Clone + Send, T: Sync', 'T: Iterator<Item = u8>', 'Vec<T>: Default',
                    'T: Into<u64> + From<u8>', "for<'y> &'y T: PartialEq<&'y T>"]

    def exotic(self, annotated=True):
        """types, bounds and visibilities that only have to survive DeriveInput::to_token_stream; observed through size_of"""
        r = self.r
        it = Item()
        it.mode = 'size'
        it.name = r.choice(TYPE_IDENTS + ['r#type', 'snake_name'])
        shape = r.choice(['named', 'named', 'tuple', 'union', 'enum'])
        it.kind = {'named': 'struct_named', 'tuple': 'struct_tuple', 'union': 'union', 'enum': 'enum'}[shape]
        it.counts.append('exotic_types')
        generic = r.random() < 0.5
        generic_inst = r.choice(['u8', 'u32', 'u64'])
        bound = ': Copy' if shape == 'union' else r.choice(['', ': Copy', ': Copy + Send'])
        wh = ''
        if generic and r.random() < 0.7:
            w = r.choice(self.EXOTIC_WHERE)
            if 'Iterator' in w:
                if shape == 'union' or 'Copy' in bound:
                    w = "T: 'static"
                else:
                    generic_inst = 'std::vec::IntoIter<u8>'
            wh = ' where ' + w          # no trailing comma: rustc's pretty-printer drops it (in both twins)
        g = f'<T{bound}>' if generic else ''
        pool = self.EXOTIC_COPY if shape == 'union' else self.EXOTIC_TYPES
        extra = ['#[repr(C)]'] if r.random() < 0.3 else []
        head = self.item_attrs(it, [], [], extra, annotated)
        vis = r.choice(VIS)
        fvis = ['pub', 'pub(crate)', 'pub(in crate)', 'pub(self)', 'pub(super)', '', 'pub(in super)', 'pub']
        mk = lambda poskey, pos: self.member_attrs(it, False, pos, poskey, annotated, allow_cfg_false=False)[0]
        tys = [r.choice(pool) for _ in range(r.randint(1, 4))]
        if generic:
            tys.append(r.choice(['T', '[T; 2]', '(T, T)'] if shape == 'union' else ['T', 'Vec<T>', 'Option<Box<T>>', 'fn(T) -> T', '[T; 2]']))
        if shape == 'named':
            names = r.sample(FIELD_IDENTS, len(tys))
            body = ''.join(f'    {mk("field", "named")}{r.choice(fvis)} {nm}: {t},\n' for nm, t in zip(names, tys))
            it.text = f'{head}{vis} struct {it.name}{g}{wh} {{\n{body}}}'
        elif shape == 'tuple':
            body = ''.join(f'    {mk("tuple_field", "tuple")}{r.choice(fvis)} {t},\n' for t in tys)
            it.text = f'{head}{vis} struct {it.name}{g}(\n{body}){wh};'
        elif shape == 'union':
            names = r.sample([f for f in FIELD_IDENTS if not f.startswith('r#')], len(tys))
            body = ''.join(f'    {mk("union_field", "named")}{r.choice(fvis)} {nm}: {t},\n' for nm, t in zip(names, tys))
            it.text = f'{head}{vis} union {it.name}{g}{wh} {{\n{body}}}'
        else:
            vn = r.sample(VARIANT_IDENTS, len(tys))
            body = ''
            for k, (v, t) in enumerate(zip(vn, tys)):
                at = mk('variant', 'variant')
                if k % 2 == 0:
                    body += f'    {at}{v}({mk("variant_tuple_field", "tuple")}{t}),\n'
                else:
                    body += f'    {at}{v} {{ {mk("variant_field", "named")}{r.choice(FIELD_IDENTS)}: {t} }},\n'
            it.text = f'{head}{vis} enum {it.name}{g}{wh} {{\n{body}}}'
        it.ty = '{P}::' + it.name + (f'<{generic_inst}>' if generic else '')
        it.values = []
        return it

    def other(self, annotated=True):
        """items that are not a DeriveInput: the macro must hand them back unchanged"""
        r = self.r
        it = Item()
        it.kind = r.choice(['alias', 'alias', 'const', 'const', 'static', 'fn', 'fn'])
        it.mode = 'call'
        extra = []
        if it.kind == 'fn' and r.random() < 0.4:
            extra.append(r.choice(['#[inline]', '#[inline(always)]', '#[cold]']))
        head = self.item_attrs(it, [], [], extra, annotated)
        vis = r.choice(VIS)
        if it.kind == 'alias':
            it.name = r.choice(TYPE_IDENTS)
            if r.random() < 0.5:
                target = r.choice(['Vec<(T, u8)>', 'Option<Box<T>>', 'BTreeMap<String, T>', '[T; 3]'])
                it.text = f'{head}{vis} type {it.name}<T> = {target};'
                it.ty = '{P}::' + it.name + '<u16>'
            else:
                target = r.choice(['Vec<u8>', '(u8, String)', "&'static str", 'fn(u8) -> u8', '[u64; 2]'])
                it.text = f'{head}{vis} type {it.name} = {target};'
                it.ty = '{P}::' + it.name
            it.values = [f'(std::mem::size_of::<{it.ty}>(), std::mem::align_of::<{it.ty}>())']
        elif it.kind == 'const':
            it.name = r.choice(['LIMIT', 'NAME', 'FLAGS', 'X'])
            t, v = r.choice([('u32', '17'), ('&str', '"text"'), ('i64', '-5 + 2'), ('(u8, bool)', '(1, true)'), ('[u8; 2]', '[1, 2]'), ('f64', '1.5')])
            it.text = f'{head}{vis} const {it.name}: {t} = {v};'
            it.values = ['{P}::' + it.name]
        elif it.kind == 'static':
            it.name = r.choice(['TABLE', 'GREETING'])
            t, v = r.choice([('&str', '"hi"'), ('[u16; 3]', '[1, 2, 3]'), ('u8', '0xff')])
            it.text = f'{head}{vis} static {it.name}: {t} = {v};'
            it.values = ['{P}::' + it.name]
        else:
            it.name = r.choice(['compute', 'make', 'helper_fn'])
            sig, call = r.choice([('(x: u8) -> u16 { x as u16 + 3 }', '(4)'), ('<T: Clone>(x: T, n: u8) -> (T, T, u8) { (x.clone(), x, n) }', '(String::from("s"), 2)'),
                                  ("<'a>(s: &'a str) -> &'a str where 'a: 'a { &s[1..] }", '("abc")'), ('() {}', '()')])
            it.text = f'{head}{vis} fn {it.name}{sig}'
            it.values = ['{P}::' + it.name + call]
        return it

    def item(self):
        r = self.r
        annotated = r.random() > 0.03
        k = r.choice(['struct'] * 5 + ['enum'] * 5 + ['union'] * 2 + ['other'] * 2 + ['exotic'] * 2)
        it = getattr(self, k)(annotated)
        it.counts.append('kind_' + it.kind)
        it.counts.append('mode_' + it.mode)
        if not annotated:
            it.counts.append('unannotated')
        return it

    # ------------------------------------------------------------ special plants
    def illtyped(self):
        """an item that is ill-typed in BOTH twins (the defect does not involve typeshare)"""
        r = self.r
        it = Item()
        it.special = 'illtyped'
        it.mode = 'size'
        it.name = 'Bad'
        h = lambda: ts(r.choice(MEMBER_HELPERS)[1]) + ' ' if r.random() < 0.7 else ''
        inv = ts(r.choice(ITEM_INVOCATIONS))
        how = r.choice(['undefined_type', 'default_enum', 'copy_string', 'tag_tuple_variant', 'duplicate_field', 'repr_on_struct', 'bad_rename_all',
                        'serialize_union', 'unknown_derive', 'const_type', 'unknown_trait', 'unused_param', 'missing_lifetime'])
        it.plant = how
        d = r.choice(['before', 'after'])

        def hd(derive, rest=''):
            dl = f'#[derive({derive})]\n' if derive else ''
            return (dl + inv + '\n' if d == 'before' else inv + '\n' + dl) + rest
        if how == 'undefined_type':
            it.text = hd('Debug') + f'pub struct Bad {{ {h()}pub a: u8, {h()}pub b: Undefined9 }}'
        elif how == 'default_enum':
            it.text = hd('Default') + f'pub enum Bad {{ {h()}A, {h()}B }}'
        elif how == 'copy_string':
            it.text = hd('Clone, Copy') + f'pub struct Bad {{ {h()}pub s: String }}'
        elif how == 'tag_tuple_variant':
            it.text = hd('Serialize', '#[serde(tag = "t")]\n') + f'pub enum Bad {{ {h()}A(u8, u8), {h()}B }}'
        elif how == 'duplicate_field':
            it.text = hd('Debug') + f'pub struct Bad {{ {h()}pub a: u8, {h()}pub a: u16 }}'
        elif how == 'repr_on_struct':
            it.text = hd('Debug', '#[repr(u8)]\n') + f'pub struct Bad {{ {h()}pub a: u8 }}'
        elif how == 'bad_rename_all':
            it.text = hd('Serialize', '#[serde(rename_all = "bogusCase")]\n') + f'pub struct Bad {{ {h()}pub a_b: u8 }}'
        elif how == 'serialize_union':
            it.text = hd('Serialize') + f'pub union Bad {{ {h()}a: u8, {h()}b: u16 }}'
        elif how == 'unknown_derive':
            it.text = hd('NoSuchDerive') + f'pub struct Bad({h()}pub u8);'
        elif how == 'const_type':
            it.text = inv + '\npub const BAD: u8 = "text";'
        elif how == 'unknown_trait':
            it.text = hd('') + f'pub struct Bad<T> where T: NoSuchTrait {{ {h()}pub a: T }}'
        elif how == 'unused_param':
            it.text = hd('') + f'pub enum Bad<T> {{ {h()}A {{ {h()}x: u8 }} }}'
        else:
            it.text = hd('') + f'pub struct Bad {{ {h()}pub a: &str }}'
        it.kind = 'illtyped'
        it.counts += ['special_illtyped', 'illtyped_' + how]
        return it

    UNPARSABLE = ['[u8; if true { 1 } else { 2 }]', '[u8; { let n = 2; n }]', '[u16; match 1 { _ => 2 }]', 'Option<[u8; loop { break 3 }]>',
                  '[u8; { const K: usize = 2; K }]', '[u8; unsafe { 1 }]']

    def known_plant(self, with_helper=True):
        """valid Rust whose field type contains an expression outside syn's derive-only grammar;
        with a helper on a member it reproduces finding C19-derive-parse-needs-syn-full, without one it
        is the control (the macro hands the item back unchanged and nothing is wrong with that)"""
        r = self.r
        it = Item()
        it.special = 'known' if with_helper else 'control'
        it.mode = 'size'
        it.name = 'Arr'
        t = r.choice(self.UNPARSABLE)
        it.plant = t
        inv = ts(r.choice(['#[typeshare]', '#[typeshare(swift = "Codable")]', '#[typeshare::typeshare]']))
        helper = ts(r.choice(MEMBER_HELPERS)[1]) + ' ' if with_helper else ''
        other = r.choice(['', '/// doc\n    ', '#[allow(dead_code)] '])
        shape = r.choice(['struct', 'struct', 'tuple', 'enum', 'union'])
        d = r.choice(['', '#[derive(Debug, Clone)]\n'])
        d2 = '' if d else r.choice(['', '#[derive(Debug)]\n'])
        if shape == 'union':
            d, d2 = '', ''
        if shape == 'struct':
            where = r.random() < 0.5
            it.text = f'{d}{inv}\n{d2}pub struct Arr {{\n    {other}{helper if where else ""}pub a: {t},\n    {"" if where else helper}pub b: u8,\n}}'
        elif shape == 'tuple':
            it.text = f'{d}{inv}\n{d2}pub struct Arr({other}{helper}pub {t}, pub u8);'
        elif shape == 'enum':
            it.text = f'{d}{inv}\n{d2}pub enum Arr {{\n    {other}{helper}A({t}),\n    B {{ x: u8 }},\n}}'
        else:
            it.text = f'{inv}\npub union Arr {{\n    {other}{helper}a: {t},\n    b: u8,\n}}'
        it.ts_members = 1 if with_helper else 0
        it.kind = 'plant_' + shape
        it.counts += ['special_' + it.special, 'plant_' + shape]
        return it

    def outside_plant(self):
        """member attributes that name the macro in a way neither the macro nor typeshare-core treats as a
        helper (outside the property's domain): they reach rustc, which rejects them"""
        r = self.r
        it = Item()
        it.special = 'outside'
        it.mode = 'size'
        it.name = 'Odd'
        odd = r.choice(['#[typeshare::typeshare(skip)]', '#[::typeshare::typeshare(skip)]', '#[cfg_attr(all(), typeshare(skip))]',
                        '#[cfg_attr(not(any()), doc = "x", typeshare(redacted))]', '#[typeshare::typeshare]'])
        it.plant = odd
        inv = ts('#[typeshare]')
        reg = ts('#[typeshare(skip)]') + ' ' if r.random() < 0.5 else ''
        shape = r.choice(['struct', 'enum', 'variant_field'])
        if shape == 'struct':
            it.text = f'{inv}\n#[derive(Debug)]\npub struct Odd {{\n    {reg}pub a: u8,\n    {ts(odd)} pub b: u8,\n}}'
        elif shape == 'enum':
            it.text = f'#[derive(Debug)]\n{inv}\npub enum Odd {{\n    {reg}A,\n    {ts(odd)} B(u8),\n}}'
        else:
            it.text = f'{inv}\npub enum Odd {{\n    {reg}A,\n    B {{ {ts(odd)} x: u8 }},\n}}'
        it.kind = 'plant_outside'
        it.counts += ['special_outside']
        return it
