(* C13, part 2: the rule is applied at every level - file, item, variant, field, struct-variant field. *)
From Coq Require Import List Bool.
From TS Require Import Model.Str Model.Outcome Model.Unicode Model.Syntax Model.Attrs Model.TargetOs Model.Types Model.Parse.
From TS Require Import Spec.Serde Spec.TargetOsRule Spec.C03Spec.
From TS Require Import Proofs.C13 Proofs.FrontAttrs Proofs.FrontItems.
Import ListNotations.

Section L.
Variable uc : unicode.
Variable tstr : str -> option ty.
Variable T : list str.

Lemma accepts_rule attrs : cfg_parsable attrs = true -> accepts T attrs = os_rule attrs T.
Proof. intros H. unfold accepts. now rewrite (accept_is_rule attrs T H). Qed.

Lemma filter_ext_in' {A} (f g : A -> bool) l : (forall x, In x l -> f x = g x) -> filter f l = filter g l.
Proof.
  induction l as [|x r IH]; intros H; cbn [filter]; [reflexivity|].
  rewrite (H x (or_introl eq_refl)), IH; [reflexivity|]. intros y Hy. apply H. now right.
Qed.

(* field level *)
Theorem field_level attrs ident gens l s :
  (forall f, In f l -> cfg_parsable (f_attrs f) = true) ->
  parse_struct uc tstr T attrs ident gens (FNamed l) = Ok (ItStruct s) ->
  map (fun rf => original (fid rf)) (sfields s) =
  map field_name (filter (fun f => negb (skip_marked (f_attrs f)) && os_rule (f_attrs f) T) l).
Proof.
  intros HP H. rewrite (struct_members uc tstr T attrs ident gens l s H). f_equal.
  apply filter_ext_in'. intros f Hf. rewrite (is_skipped_spec T (f_attrs f) (HP f Hf)).
  unfold spec_skipped. destruct (skip_marked (f_attrs f)), (os_rule (f_attrs f) T); reflexivity.
Qed.

(* variant level *)
Theorem variant_level attrs ident gens vs e :
  (forall v, In v vs -> cfg_parsable (v_attrs v) = true) ->
  parse_enum uc tstr T attrs ident gens vs = Ok (ItEnum e) ->
  map (fun rv => original (vid (variant_shared rv))) (evariants (enum_shared e)) =
  map (fun v => replace_sub (lit "r#") [] (v_ident v))
      (filter (fun v => negb (skip_marked (v_attrs v)) && os_rule (v_attrs v) T) vs).
Proof.
  intros HP H. rewrite (enum_variants uc tstr T attrs ident gens vs e H). f_equal.
  apply filter_ext_in'. intros v Hv. rewrite (is_skipped_spec T (v_attrs v) (HP v Hv)).
  unfold spec_skipped. destruct (skip_marked (v_attrs v)), (os_rule (v_attrs v) T); reflexivity.
Qed.

(* struct-variant field level *)
Theorem variant_field_level ra attrs ident l rv :
  (forall f, In f l -> cfg_parsable (f_attrs f) = true) ->
  parse_enum_variant uc tstr T ra {| v_attrs := attrs; v_ident := ident; v_fields := FNamed l |} = Ok rv ->
  exists fs sh, rv = VAnon fs sh /\
    map (fun rf => original (fid rf)) fs =
    map field_name (filter (fun f => negb (skip_marked (f_attrs f)) && os_rule (f_attrs f) T) l).
Proof.
  intros HP H. destruct (variant_members uc tstr T ra attrs ident l rv H) as (fs & sh & -> & E).
  exists fs, sh. split; [reflexivity|]. rewrite E. f_equal.
  apply filter_ext_in'. intros f Hf. rewrite (is_skipped_spec T (f_attrs f) (HP f Hf)).
  unfold spec_skipped. destruct (skip_marked (f_attrs f)), (os_rule (f_attrs f) T); reflexivity.
Qed.

(* item level: an item is looked at iff it is annotated and the rule keeps it *)
Lemma annotated_model attrs : has_typeshare_annotation attrs = annotated attrs.
Proof.
  unfold has_typeshare_annotation, annotated. apply existsb_ext'. intros a.
  unfold mem_str, TYPESHARE. apply existsb_ext'. intros seg. apply str_eqb_sym.
Qed.

Theorem item_level attrs : cfg_parsable attrs = true -> wanted T attrs = annotated attrs && os_rule attrs T.
Proof. intros H. unfold wanted. now rewrite annotated_model, (accepts_rule attrs H). Qed.

(* file level: a file whose inner attributes are rejected contributes nothing *)
Theorem file_level f : cfg_parsable (fl_attrs f) = true -> os_rule (fl_attrs f) T = false ->
  parse_file uc tstr T f = Ok None.
Proof.
  intros HP HR. unfold parse_file. destruct (fl_marker f); cbn [negb]; [|reflexivity].
  rewrite (accepts_rule _ HP), HR. reflexivity.
Qed.
End L.
