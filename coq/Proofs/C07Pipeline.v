(* C07, the modelled single-file pipeline end to end: parser::parse, reconcile, topsort, generate_types.

   - reconcile is a total function (Model/Reconcile.v has no partial operation); what matters for the stages
     after it is that it keeps the shape invariant pd_wf (Proofs/C07Front.v);
   - topsort is total on every item list (Proofs/C07Topsort.v);
   - the six back ends panic only at their recorded sites (Proofs/C07TypeScript.v ... C07Go.v), of which only
     go.rs:594 is reachable from what the front end delivers.

   [single_file_run] (Spec/C07BackSpec.v) composes the stages the way the whole-pipeline driver command gen_src
   does. *)
From Coq Require Import String List Bool Permutation.
From TS Require Import Model.Str Model.Outcome Model.Unicode Model.Syntax Model.Types Model.Parse Model.Reconcile Model.Collect
                       Model.TopsortAlgo Model.Topsort Model.Lang.Common
                       Model.Lang.TypeScript Model.Lang.Kotlin Model.Lang.Scala Model.Lang.Swift Model.Lang.Python Model.Lang.Go.
From TS Require Import Spec.C07BackSpec.
From TS Require Import Proofs.C07 Proofs.C07Monad Proofs.C07Topsort Proofs.C07Front
                       Proofs.C07TypeScript Proofs.C07Kotlin Proofs.C07Scala Proofs.C07Swift Proofs.C07Python Proofs.C07Go.
Import ListNotations.

(* ---------- reconcile ---------- *)
Lemma reconcile_single_eq pd : reconcile_single pd = reconcile_crate (collect_serde_renames [([], pd)]) [] pd.
Proof. reflexivity. Qed.

(* reconcile always returns (it is a total function) and keeps the shape the back ends rely on *)
Theorem reconcile_keeps_wf :
  (forall rn cn pd, pd_wf pd = true -> pd_wf (reconcile_crate rn cn pd) = true) /\
  (forall pd, pd_wf pd = true -> pd_wf (reconcile_single pd) = true) /\
  (forall arrivals, Forall (fun pd => pd_wf pd = true) arrivals -> pd_wf (single_file_input arrivals) = true) /\
  (forall cs, map fst (reconcile_aliases cs) = map fst cs).
Proof.
  repeat split.
  - apply reconcile_crate_wf.
  - intros pd H. rewrite reconcile_single_eq. now apply reconcile_crate_wf.
  - apply single_file_input_wf.
  - intros cs. unfold reconcile_aliases. rewrite map_map. reflexivity.
Qed.

(* ---------- the composition ---------- *)
Section Run.
Context {C : Type}.
Variable gen : C -> parsed -> outcome str.
Variable P : string -> Prop.
Variable uc : unicode.
Variable tstr : str -> option ty.
Variable T : list str.

(* whatever a back end guarantees on well-shaped parsed data, the whole run guarantees on every file *)
Lemma single_file_run_po c f :
  (forall pd, pd_wf pd = true -> panics_only P (gen c pd)) ->
  panics_only P (single_file_run gen uc tstr T c f).
Proof.
  intros Hgen. unfold single_file_run.
  destruct (parse_file_total uc tstr T f) as (r & E). rewrite E. cbn [bind].
  destruct r as [pd|]; [|exact I]. destruct (p_errors pd); [|exact I].
  apply po_omap. apply Hgen. apply (proj1 (proj2 reconcile_keeps_wf)). eapply parse_file_wf. exact E.
Qed.
End Run.

Definition go_594_with_acronyms (c : go_config) (s : string) : Prop :=
  s = "go.rs:594"%string /\ go_uppercase_acronyms c <> [].

Theorem single_file_pipeline uc tstr T f :
  (forall c, no_panic (single_file_run (ts_generate uc) uc tstr T c f)) /\
  (forall c, no_panic (single_file_run (kt_generate uc) uc tstr T c f)) /\
  (forall c, no_panic (single_file_run (sc_generate uc) uc tstr T c f)) /\
  (forall c, no_panic (single_file_run (sw_generate uc) uc tstr T c f)) /\
  (forall c, no_panic (single_file_run (py_generate uc) uc tstr T c f)) /\
  (forall c, panics_only (go_594_with_acronyms c) (single_file_run (go_generate uc) uc tstr T c f)).
Proof.
  repeat split; intros c; apply single_file_run_po; intros pd Hw.
  - now apply ts_generate_never_panics.
  - apply kt_generate_never_panics.
  - apply sc_generate_never_panics.
  - apply sw_generate_never_panics.
  - now apply py_generate_never_panics.
  - eapply po_weaken; [|apply go_generate_panics_only]. cbv beta. intros s [[-> H]|[_ H]]; [split; [reflexivity|exact H]|].
    rewrite Hw in H. discriminate.
Qed.
