(* C07, the modelled single-file pipeline end to end: parser::parse, reconcile, topsort, generate_types.

   - reconcile is a total function (Model/Reconcile.v has no partial operation); what matters for the stages
     after it is that it keeps the shape invariant pd_wf (Proofs/C07Front.v);
   - topsort is total on every item list (Proofs/C07Topsort.v);
   - the six back ends panic only at their recorded sites (Proofs/C07TypeScript.v ... C07Go.v), of which only
     go.rs:594 is reachable from what the front end delivers.

   [single_file_run] (Spec/C07BackSpec.v) composes the stages the way the whole-pipeline driver command gen_src
   does. *)
From Coq Require Import String List Bool Permutation.
From TS Require Import Model.Str Model.Outcome Model.Unicode Model.Syntax Model.Types Model.Parse Model.Reconcile Model.Collect
                       Model.TopsortAlgo Model.Topsort Model.Lang.Common
                       Model.Lang.TypeScript Model.Lang.Kotlin Model.Lang.Scala Model.Lang.Swift Model.Lang.Python Model.Lang.Go.
From TS Require Import Spec.C07BackSpec.
From TS Require Import Proofs.C07 Proofs.C07Back Proofs.C07Monad Proofs.C07Topsort Proofs.C07Front Proofs.C07GoAscii
                       Proofs.C07TypeScript Proofs.C07Kotlin Proofs.C07Scala Proofs.C07Swift Proofs.C07Python Proofs.C07Go.
Import ListNotations.

(* ---------- reconcile ---------- *)
Lemma reconcile_single_eq pd : reconcile_single pd = reconcile_crate (collect_serde_renames [([], pd)]) [] pd.
Proof. reflexivity. Qed.

(* reconcile always returns (it is a total function) and keeps the shape the back ends rely on *)
Theorem reconcile_keeps_wf :
  (forall rn cn pd, pd_wf pd = true -> pd_wf (reconcile_crate rn cn pd) = true) /\
  (forall pd, pd_wf pd = true -> pd_wf (reconcile_single pd) = true) /\
  (forall arrivals, Forall (fun pd => pd_wf pd = true) arrivals -> pd_wf (single_file_input arrivals) = true) /\
  (forall cs, map fst (reconcile_aliases cs) = map fst cs).
Proof.
  repeat split.
  - apply reconcile_crate_wf.
  - intros pd H. rewrite reconcile_single_eq. now apply reconcile_crate_wf.
  - apply single_file_input_wf.
  - intros cs. unfold reconcile_aliases. rewrite map_map. reflexivity.
Qed.

(* ---------- the composition ---------- *)
Section Run.
Context {C : Type}.
Variable gen : C -> parsed -> outcome str.
Variable P : string -> Prop.
Variable uc : unicode.
Variable tstr : str -> option ty.
Variable T : list str.

(* whatever a back end guarantees on well-shaped parsed data, the whole run guarantees on every file *)
Lemma single_file_run_po c f :
  (forall pd, pd_wf pd = true -> panics_only P (gen c pd)) ->
  panics_only P (single_file_run gen uc tstr T c f).
Proof.
  intros Hgen. unfold single_file_run.
  destruct (parse_file_total uc tstr T f) as (r & E). rewrite E. cbn [bind].
  destruct r as [pd|]; [|exact I]. destruct (p_errors pd); [|exact I].
  apply po_omap. apply Hgen. apply (proj1 (proj2 reconcile_keeps_wf)). eapply parse_file_wf. exact E.
Qed.
End Run.

(* the one class left: Go with a non-empty acronym list AND a non-ASCII string among those it converts *)
Definition go_594_class (uc : unicode) (tstr : str -> option ty) (T : list str) (c : go_config) (f : file) (s : string) : Prop :=
  s = "go.rs:594"%string /\ go_uppercase_acronyms c <> [] /\ go_run_ascii uc tstr T (go_type_mappings c) f = false.

Lemma go_run_po uc tstr T c f : unicode_ok uc ->
  panics_only (go_594_class uc tstr T c f) (single_file_run (go_generate uc) uc tstr T c f).
Proof.
  intros Huc. unfold single_file_run, go_594_class, go_run_ascii.
  destruct (parse_file_total uc tstr T f) as (r & E). rewrite E. cbn [bind].
  destruct r as [pd|]; [|exact I]. destruct (p_errors pd); [|exact I].
  apply po_omap. eapply po_weaken; [|apply (go_generate_panics_only_sharp uc c (reconcile_single pd) Huc)]. cbv beta.
  intros s [H|[_ H]]; [exact H|].
  rewrite (proj1 (proj2 reconcile_keeps_wf) pd (parse_file_wf uc tstr T f pd E)) in H. discriminate.
Qed.

Theorem single_file_pipeline uc tstr T f :
  (forall c, no_panic (single_file_run (ts_generate uc) uc tstr T c f)) /\
  (forall c, no_panic (single_file_run (kt_generate uc) uc tstr T c f)) /\
  (forall c, no_panic (single_file_run (sc_generate uc) uc tstr T c f)) /\
  (forall c, no_panic (single_file_run (sw_generate uc) uc tstr T c f)) /\
  (forall c, no_panic (single_file_run (py_generate uc) uc tstr T c f)) /\
  (forall c, unicode_ok uc -> panics_only (go_594_class uc tstr T c f) (single_file_run (go_generate uc) uc tstr T c f)).
Proof.
  repeat split; intros c; [..|apply go_run_po]; apply single_file_run_po; intros pd Hw.
  - now apply ts_generate_never_panics.
  - apply kt_generate_never_panics.
  - apply sc_generate_never_panics.
  - apply sw_generate_never_panics.
  - now apply py_generate_never_panics.
Qed.

(* Go, the two ways out of the class *)
Corollary go_pipeline_never_panics uc tstr T c f : unicode_ok uc ->
  go_uppercase_acronyms c = [] \/ go_run_ascii uc tstr T (go_type_mappings c) f = true ->
  no_panic (single_file_run (go_generate uc) uc tstr T c f).
Proof.
  intros Huc H. eapply po_weaken; [|apply (go_run_po uc tstr T c f Huc)]. unfold go_594_class.
  intros s (_ & Hn & Ha). destruct H as [H|H]; [now apply Hn|congruence].
Qed.

(* ---------- witnesses ---------- *)
Definition w_path (n : string) (args : list (option ty)) : ty := TPath [] (lit n) args.
Definition w_variant (n : string) (fs : fields) : variant := {| v_attrs := []; v_ident := lit n; v_fields := fs |}.

(* #[typeshare] struct Item { user_id: u8, tags: Vec<Option<String>>, by_name: HashMap<String, Other<u8>> }
   #[typeshare] #[serde(tag = "t", content = "c")] enum Shape { Empty, Boxed(Box<u8>), Named { some_field: Item } }
   #[typeshare] enum Colour { Red, Green }
   #[typeshare] type Alias<T> = Vec<T>; *)
Definition w_file : file :=
  {| fl_attrs := [];
     fl_items :=
       [ IStruct [a_ts] (lit "Item") []
           (FNamed [fld [] (lit "user_id") t_u8;
                    fld [] (lit "tags") (w_path "Vec" [Some (w_path "Option" [Some (w_path "String" [])])]);
                    fld [] (lit "by_name") (w_path "HashMap" [Some (w_path "String" []); Some (w_path "Other" [Some t_u8])])]);
         INest [IEnum [a_ts; a_tagc] (lit "Shape") []
                  [w_variant "Empty" FUnit;
                   w_variant "Boxed" (FUnnamed [fld [] (lit "x") (w_path "Box" [Some t_u8])]);
                   w_variant "Named" (FNamed [fld [] (lit "some_field") (w_path "Item" [])])]];
         IEnum [a_ts] (lit "Colour") [] [w_variant "Red" FUnit; w_variant "Green" FUnit];
         IType [a_ts] (lit "Alias") [GPType (lit "T")] (w_path "Vec" [Some (w_path "T" [])]) ];
     fl_paths := []; fl_marker := true |}.

Definition w_ts_cfg : ts_config := {| ts_type_mappings := []; ts_no_version_header := true; ts_version := [] |}.
Definition w_py_cfg : py_config := {| py_type_mappings := []; py_no_version_header := true; py_version := [] |}.
Definition w_go_acr (acrs : list str) : go_config :=
  {| go_package := lit "p"; go_type_mappings := []; go_uppercase_acronyms := acrs; go_no_version_header := true;
     go_no_pointer_slice := false; go_version := [] |}.

Definition is_generated (o : outcome (option str)) : bool := match o with Ok (Some (_ :: _)) => true | _ => false end.

(* the hypotheses are satisfiable and the run reaches the back end: the file above is generated in all six
   languages (Go with the acronym list ["id"; "aé"]: ASCII input, so no panic although an acronym is not ASCII) *)
Example single_file_pipeline_nonvacuous :
  is_generated (single_file_run (ts_generate uc_exec) uc_exec no_tstr [] w_ts_cfg w_file) = true /\
  is_generated (single_file_run (kt_generate uc_exec) uc_exec no_tstr [] C07Back.w_kt_cfg w_file) = true /\
  is_generated (single_file_run (sc_generate uc_exec) uc_exec no_tstr [] (C07Back.w_sc_cfg (lit "p")) w_file) = true /\
  is_generated (single_file_run (sw_generate uc_exec) uc_exec no_tstr [] C07Back.w_sw_cfg w_file) = true /\
  is_generated (single_file_run (py_generate uc_exec) uc_exec no_tstr [] w_py_cfg w_file) = true /\
  is_generated (single_file_run (go_generate uc_exec) uc_exec no_tstr [] (w_go_acr [lit "id"; lit "a" ++ [233%N]]) w_file) = true /\
  go_run_ascii uc_exec no_tstr [] [] w_file = true /\
  match parse_file uc_exec no_tstr [] w_file with Ok (Some pd) => List.length (items_of (reconcile_single pd)) = 4%nat /\ pd_wf pd = true | _ => False end.
Proof. vm_compute. repeat split. Qed.

(* go.rs:594 IS reached (recorded finding C07-go.rs:594):  #[typeshare] struct AéX { a: u8 }  with
   uppercase_acronyms = ["aé"]: the match at byte 0 has char length 2, and byte 2 is inside the é of the result *)
Definition w_594_file : file :=
  {| fl_attrs := [];
     fl_items := [IStruct [a_ts] (lit "A" ++ [233%N] ++ lit "X") [] (FNamed [fld [] (lit "a") t_u8])];
     fl_paths := []; fl_marker := true |}.

Example go_594_reached :
  single_file_run (go_generate uc_exec) uc_exec no_tstr [] (w_go_acr [lit "a" ++ [233%N]]) w_594_file = Panic "go.rs:594" /\
  go_run_ascii uc_exec no_tstr [] [] w_594_file = false /\
  (* without the acronym the same file is generated *)
  is_generated (single_file_run (go_generate uc_exec) uc_exec no_tstr [] (w_go_acr []) w_594_file) = true.
Proof. vm_compute. repeat split. Qed.
