(* C09 in folder mode, Go with an EMPTY uppercase_acronyms list (acronyms_to_uppercase is then the identity): the
   declarations go_decl_of returns for the items of ANY program pd', from ANY import set, have the shape of
   Proofs/C09MultiLang.v (no prefix; structs under id.renamed, enums, aliases and ...Inner helper structs under
   id.original; every mentioned id verbatim); hence the file go_generate_multi writes for a crate of a folder-mode run
   satisfies good_C09_multi.  PARTIAL: a non-empty acronym list rewrites definition names and member / payload types;
   its shape (Proofs/C09_GoAcr.v c09_go_shape) is not carried over to folder mode here. *)
From Coq Require Import List Bool String Permutation.
From TS Require Import Model.Str Model.Outcome Model.Unicode Model.Types Model.Parse Model.Reconcile Model.Collect Model.TopsortAlgo Model.Topsort
                       Model.Lang.Common Model.Lang.Decl Model.Lang.Go Model.MultiFile.
From TS Require Import Spec.C09Spec Spec.C09MultiSpec Spec.C09MultiLangSpec.
From TS Require Import Proofs.C14Front Proofs.C09Common Proofs.C09Recon Proofs.C09Refs Proofs.C09Lang Proofs.C09_Go
                       Proofs.C09Multi Proofs.C09MultiLang Proofs.C12MultiGo.
Import ListNotations.

Section GOL.
Variable uc : unicode.
Variable cfg : go_config.
Hypothesis Hacr : go_uppercase_acronyms cfg = [].
Variable pd' : parsed.

Notation shape := (c9l_ref_shape Go [] pd').
Notation decl_ok := (c9l_decl_ok Go [] pd').
Notation defname := (c09_def_name Go []).
Notation names_ok x t :=
  (forall n, In n (texp_names x) -> c09_builtin Go n = true \/ exists form i, In (form, i) (c09_type_ids t) /\ n = i).

Lemma gol_defines e : c09_defines Go e = true.
Proof. unfold c09_defines. now destruct (c9e_kind e). Qed.

Lemma gol_refs tp' owner x :
  In tp' (c09_tposs pd') -> names_ok x (c9t_type tp') ->
  forall r, In r (c09_type_refs Go owner (c9t_pos tp') x) -> shape r.
Proof. intros Htp Hn. eapply (c9l_names_refs_plain Go pd'); eauto. Qed.

(* write_struct: a source struct or the helper struct of a struct variant *)
Lemma gol_struct_shape rs d sa sb (mk : rfield -> c09_tpos) :
  go_struct_decl_of uc cfg rs sa = Ok (d, sb) ->
  (forall f, In f (sfields rs) -> In (mk f) (c09_tposs pd') /\ c9t_pos (mk f) = C9Field /\ c9t_type (mk f) = fty f) ->
  exists d1, go_obs d = [d1] /\ d_name d1 = renamed (sid rs) /\ c09_is_def d1 = true /\ forall r, In r (c09_decl_refs Go d1) -> shape r.
Proof.
  unfold go_struct_decl_of. intros Hd Hmk. c09_bind Hd name s1 E1. apply (go_acr_nil uc cfg Hacr) in E1 as [-> ->].
  c09_bind Hd ms s2 E. c09_ret Hd. eexists. split; [reflexivity|]. cbn [d_name]. repeat split.
  intros r Hr. unfold c09_decl_refs in Hr. cbn [d_kind d_name d_members d_variants flat_map] in Hr. rewrite app_nil_r in Hr.
  apply in_flat_map in Hr as (m' & Hm' & Hr). apply in_map_iff in Hm' as (m & <- & Hm).
  apply c09_mmapM_Forall2 in E. destruct (c09_Forall2_in_r _ _ _ _ E Hm) as (f & Hf & sc & sd & Em).
  destruct (Hmk f Hf) as (Htp & Hpos & Hty).
  rewrite <- Hpos in Hr. eapply gol_refs; [exact Htp| |exact Hr].
  rewrite Hty. exact (go_member_names uc cfg Hacr _ _ _ _ _ Em).
Qed.

Lemma gol_item custom it ds s1 s2 : In it (items_of pd') -> go_decl_of uc cfg custom it s1 = Ok (ds, s2) ->
  forall o, In o (flat_map go_obs ds) -> decl_ok o.
Proof.
  intros Hit Hd. unfold items_of in Hit. rewrite !in_app_iff, !in_map_iff in Hit.
  destruct Hit as [(a & <- & Ha)|[(s & <- & Hs)|[(e & <- & He)|(c & <- & Hc)]]]; cbn [go_decl_of] in Hd.
  - (* alias: declared under id.original *)
    c09_bind Hd name s3 E1. apply (go_acr_nil uc cfg Hacr) in E1 as [-> ->].
    c09_bind Hd ty s4 E. c09_ret Hd.
    assert (Hn : defname (c09_ent_alias a) = original (aid a)) by (unfold c09_def_name; cbn; apply app_nil_r).
    cbn [flat_map go_obs app]. intros o [<-|[]]. split.
    + intros _. exists (c09_ent_alias a). split; [exact (c09_in_alias pd' a Ha)|]. split; [apply gol_defines|]. rewrite Hn. reflexivity.
    + intros r Hr. unfold c09_decl_refs in Hr. cbn [d_kind d_name d_type] in Hr.
      eapply (gol_refs {| c9t_owner := aid a; c9t_generics := agenerics a; c9t_pos := C9Alias; c9t_type := atype a |}); [exact (c09_tp_alias pd' a Ha)| |exact Hr].
      exact (go_texp_names cfg _ _ _ _ _ E).
  - (* struct *)
    c09_bind Hd d s3 E. c09_ret Hd.
    assert (Hn : defname (c09_ent_struct s) = renamed (sid s)) by (unfold c09_def_name; cbn; apply app_nil_r).
    destruct (gol_struct_shape s d _ _ (fun f => {| c9t_owner := sid s; c9t_generics := sgenerics s; c9t_pos := C9Field; c9t_type := fty f |}) E)
      as (d1 & Hobs & Hname & Hdef & Hrefs).
    { intros f Hf. split; [exact (c09_tp_struct pd' s f Hs Hf)|]. repeat split. }
    cbn [flat_map]. rewrite Hobs. cbn [app]. intros o [<-|[]]. split; [|exact Hrefs].
    intros _. exists (c09_ent_struct s). split; [exact (c09_in_struct pd' s Hs)|]. split; [apply gol_defines|]. rewrite Hn. exact Hname.
  - (* enum: helper structs, then the enum; everything is named from id.original *)
    set (j := c09_ent_enum e).
    assert (Hj : In j (c09_entities pd')) by exact (c09_in_enum pd' e He).
    assert (Hnj : defname j = original (eid (enum_shared e))) by (unfold c09_def_name; destruct e; cbn; apply app_nil_r).
    unfold go_enum_decls_of in Hd. cbv zeta in Hd. c09_bind Hd anon s3 Ea.
    unfold go_anonymous_struct_decls in Ea. c09_bind Ea dss s4 Em. c09_ret Ea. apply c09_mmapM_Forall2 in Em.
    assert (Hanon : forall d, In d (List.concat dss) -> exists fs vsh sa sb, In (VAnon fs vsh) (evariants (enum_shared e)) /\
              go_struct_decl_of uc cfg (anon_struct (enum_shared e) (original (eid (enum_shared e)) ++ original (vid vsh) ++ lit "Inner")
                                          (original (vid vsh)) fs) sa = Ok (d, sb)).
    { intros d Hd0. apply in_concat in Hd0 as (l & Hl & Hd0). destruct (c09_Forall2_in_r _ _ _ _ Em Hl) as (v & Hv & sa & sb & Ev').
      destruct v as [sh|t sh|fs vsh].
      - c09_ret Ev'. destruct Hd0.
      - c09_ret Ev'. destruct Hd0.
      - c09_bind Ev' sn sc E1. unfold go_make_anonymous_struct_name in E1. apply (go_acr_nil uc cfg Hacr) in E1 as [-> ->].
        c09_bind Ev' d1 sd E2. c09_ret Ev'. destruct Hd0 as [<-|[]]. exists fs, vsh, sa, sd. auto. }
    assert (Hself : exists dE, ds = List.concat dss ++ [dE] /\
              forall d, In d (go_obs dE) -> (d_kind d = DHelper) \/
                (d_name d = defname j /\ c09_is_def d = true /\ forall r, In r (c09_decl_refs Go d) -> shape r)).
    { destruct e as [sh|tag content sh]; cbn [enum_shared] in *.
      - c09_bind Hd en s5 E0. apply (go_acr_nil uc cfg Hacr) in E0 as [-> ->]. c09_bind Hd vs s6 Ev. c09_ret Hd. eexists. split; [reflexivity|].
        intros d [<-|[]]. right. cbn [d_name eid]. rewrite Hnj. repeat split.
        intros r Hr. unfold c09_decl_refs in Hr. cbn [d_kind d_name d_members d_variants flat_map app] in Hr.
        apply in_flat_map in Hr as (v & Hv & Hr). apply in_map_iff in Hv as ([[vd vc] vw] & <- & _). cbn in Hr. destruct Hr.
      - c09_bind Hd sn s5 E0. apply (go_acr_nil uc cfg Hacr) in E0 as [-> ->]. c09_bind Hd cf s6 E1. c09_bind Hd tf s7 E2.
        c09_bind Hd ssn s8 E3. c09_bind Hd ta s9 E4. cbv zeta in Hd. c09_bind Hd vs s10 Ev. c09_ret Hd. eexists. split; [reflexivity|].
        cbn [go_obs gt_name gt_key_type gt_variants gt_docs gt_tag_key gt_content_key eid]. intros d [<-|[<-|[]]]; [left; reflexivity|right].
        cbn [d_name]. rewrite Hnj. repeat split.
        intros r Hr. unfold c09_decl_refs in Hr. cbn [d_kind d_name d_members d_variants flat_map app] in Hr.
        apply in_flat_map in Hr as (vd & Hvd & Hr). apply in_map_iff in Hvd as (gv & <- & Hgv).
        apply c09_mmapM_Forall2 in Ev.
        destruct (c09_Forall2_in_r _ _ _ _ Ev Hgv) as (v & Hv & sc & sd & Ev').
        unfold go_variant_of in Ev'. cbv zeta in Ev'. c09_bind Ev' vn se E5. apply (go_acr_nil uc cfg Hacr) in E5 as [-> ->].
        c09_bind Ev' vt sf Evt. c09_bind Ev' tp sg E6. c09_bind Ev' ct sh0 Ec. c09_ret Ev'.
        cbn [go_obs_variant vd_parent vd_payload gv_content app] in Hr.
        destruct v as [vsh|t vsh|fs vsh]; cbn [variant_shared] in Evt.
        + c09_ret Evt. c09_ret Ec. destruct Hr.
        + c09_bind Evt x sx Et. c09_ret Evt. c09_bind Ec fvt sy Ef. c09_ret Ec. apply (go_acronyms_ty_nil uc cfg Hacr) in Ef. subst fvt.
          eapply (gol_refs {| c9t_owner := eid sh; c9t_generics := egenerics sh; c9t_pos := C9Payload; c9t_type := t |});
            [exact (c09_tp_tuple pd' (EAlgebraic tag content sh) t vsh He Hv)| |exact Hr].
          exact (go_texp_names cfg _ _ _ _ _ Et).
        + c09_bind Evt sn sx Et. unfold go_make_anonymous_struct_name in Et. apply (go_acr_nil uc cfg Hacr) in Et as [-> ->]. c09_ret Evt.
          c09_bind Ec fvt sy Ef. apply (go_acr_nil uc cfg Hacr) in Ef as [-> ->]. c09_ret Ec.
          cbn [map] in Hr. destruct Hr as [<-|[]].
          eapply C9L_inner with (e := c09_ent_inner (EAlgebraic tag content sh) vsh); cbn [c9_in c9_pos c9_name eid variant_shared]; try reflexivity.
          exact (c09_in_inner pd' (EAlgebraic tag content sh) fs vsh He Hv). }
    destruct Hself as (dE & -> & HselfE).
    intros o Ho. rewrite flat_map_app, in_app_iff in Ho. cbn [flat_map] in Ho. rewrite app_nil_r in Ho. destruct Ho as [Ho|Ho].
    + apply in_flat_map in Ho as (d0 & Hd0 & Ho). destruct (Hanon d0 Hd0) as (fs & vsh & sa & sb & Hv & Ec).
      destruct (gol_struct_shape _ d0 sa sb (fun f => {| c9t_owner := eid (enum_shared e); c9t_generics := egenerics (enum_shared e); c9t_pos := C9Field; c9t_type := fty f |}) Ec)
        as (d1 & Hobs & A & B & C).
      { intros f Hf. cbn [anon_struct sfields] in Hf. split; [exact (c09_tp_anon pd' e fs vsh f He Hv Hf)|]. repeat split. }
      rewrite Hobs in Ho. destruct Ho as [<-|[]]. split; [|exact C].
      intros _. exists (c09_ent_inner e vsh). split; [exact (c09_in_inner pd' e fs vsh He Hv)|]. split; [apply gol_defines|]. rewrite A. reflexivity.
    + destruct (HselfE o Ho) as [K|(A & B & C)]; [exact (c9l_decl_ok_helper Go [] pd' o K)|].
      split; [|exact C]. intros _. exists j. split; [exact Hj|]. split; [apply gol_defines|exact A].
  - (* const: not a definition *)
    c09_bind Hd ty s3 E. c09_ret Hd.
    cbn [flat_map go_obs app]. intros o [<-|[]]. split; [cbn; discriminate|].
    intros r Hr. unfold c09_decl_refs in Hr. cbn [d_kind d_name d_type] in Hr.
    eapply (gol_refs {| c9t_owner := cid c; c9t_generics := []; c9t_pos := C9Const; c9t_type := ctype c |}); [exact (c09_tp_const pd' c Hc)| |exact Hr].
    exact (go_texp_names cfg _ _ _ _ _ E).
Qed.

(* the declarations of one folder-mode file, from any import set *)
Theorem gol_decls st ds st' : go_multi_decls uc cfg st pd' = Ok (ds, st') -> forall o, In o (flat_map go_obs ds) -> decl_ok o.
Proof.
  unfold go_multi_decls. intros H.
  destruct (topsort (items_of pd')) as [items| |] eqn:Et; cbn [bind] in H; try discriminate. cbv zeta in H.
  pose proof (c09_topsort_in' _ _ Et) as Hperm.
  c09_bind H u s1 E0. c09_bind H dss s2 Em. c09_ret H. apply c09_mmapM_Forall2 in Em.
  intros o Ho. apply in_flat_map in Ho as (d & Hd & Ho). apply in_concat in Hd as (dsi & Hdsi & Hd).
  destruct (c09_Forall2_in_r _ _ _ _ Em Hdsi) as (it & Hit & sa & sb & E).
  apply Hperm in Hit. apply (gol_item _ it dsi sa sb Hit E). apply in_flat_map. eauto.
Qed.
End GOL.

(* the file of crate b in a folder-mode run, whatever import set the Go value holds when the crate is reached *)
Theorem c9m_go_file_no_acronyms (uc : unicode) (cfg : go_config) (ho : list imported -> list imported) (l : list (str * parsed)) :
  go_uppercase_acronyms cfg = [] ->
  oracle_ok ho -> c9m_ids_wf l = true ->
  forall b pd', In (b, pd') (multi_crates ho l) ->
  forall st text st', go_generate_multi uc cfg st pd' = Ok (text, st') ->
  exists ds header st1,
    go_multi_decls uc cfg st pd' = Ok (ds, st') /\ go_begin_file cfg st = Ok (header, st1) /\
    text = header ++ go_write_all_imports st' ++ List.concat (map go_render_decl ds) /\
    Forall (fun d => (c09_is_def d = true -> c9m_ldef_ok Go l b [] (d_name d)) /\
                     (forall r, In r (c09_decl_refs Go d) -> c9m_lref_ok Go l b [] r)) (flat_map go_obs ds) /\
    good_C09_multi Go [] l b (c9m_observe_decls Go (flat_map go_obs ds)) = true.
Proof.
  intros Hacr Hho Hwf b pd' Hin st text st' Hg. apply go_multi_layout in Hg as (ds & header & st1 & Ed & Eb & Et).
  exists ds, header, st1. split; [exact Ed|]. split; [exact Eb|]. split; [exact Et|].
  pose proof (gol_decls uc cfg Hacr pd' st ds st' Ed) as Hall. split.
  - exact (c9l_forall_judged Go [] ho l b pd' _ Hho Hwf Hin Hall).
  - exact (c9l_decls_good Go [] ho l b pd' _ Hho Hwf Hin Hall).
Qed.
