(* C15 multi-file: non-vacuity, evaluated inside Coq.  A two-crate plan per language: crate alpha is the documented
   program of the single-file examples (C15_ts_file_nonvacuous / C15_kt_file_nonvacuous: nasty doc strings, a Date field for
   TypeScript), crate beta holds one documented struct that uses a type of alpha and IMPORTS it.  The hypotheses of the
   theorems of Props/C15.v hold, both files are generated, every doc string is reproduced and read inside a comment,
   beta's file starts with the import line; for TypeScript the printer state collected in alpha (the key of the Date field)
   reaches beta.ts, which therefore carries the reviver trailer although crate beta has no Date. *)
From Coq Require Import List Bool String.
From TS Require Import Model.Str Model.Outcome Model.Unicode Model.Types Model.Parse Model.Lang.Common
                       Model.Lang.TypeScript Model.Lang.Kotlin Model.MultiFile.
From TS Require Model.Writer.
From TS Require Import Spec.Lexers Spec.C15Spec Spec.C15Render Spec.C15RenderKtSc Spec.C15MultiSpec.
From TS Require Import Proofs.C15 Proofs.C15_TypeScript Proofs.C15_Kotlin Proofs.C15_KotlinFile Proofs.C15Multi.
From TS Require Proofs.C10Multi.
Import ListNotations.
Local Open Scope string_scope.
Local Open Scope list_scope.

Definition w15_empty_pd (ss : list rstruct) (names : list str) : parsed :=
  {| p_structs := ss; p_enums := []; p_aliases := []; p_consts := []; p_type_names := names; p_errors := []; p_imports := [] |}.

Definition w15_ts_beta : parsed :=
  w15_empty_pd [ {| sid := c15_nv_id "Holder" "Holder"; sgenerics := [];
                    sfields := [c15_nv_field "foo" "foo" (RSimple (lit "Foo")) [c15_doc_nasty_ts]];
                    scomments := [lit "holds a Foo of crate alpha */ import { X } from ""./x"";"]; sdecs := []; sredacted := false |} ]
               [lit "Holder"].
Definition w15_ts_plan : list out_plan :=
  [ {| op_file := lit "alpha.ts"; op_crate := lit "alpha"; op_imports := []; op_data := c15_nv_pd |};
    {| op_file := lit "beta.ts"; op_crate := lit "beta"; op_imports := [(lit "alpha", [lit "E"; lit "Foo"])]; op_data := w15_ts_beta |} ].

Definition w15_kt_beta : parsed :=
  w15_empty_pd [ {| sid := c15_ktnv_id "Holder" "Holder"; sgenerics := [];
                    sfields := [c15_ktnv_field "foo" "foo" (RSimple (lit "Foo")) [c15_doc_nasty_line]];
                    scomments := [lit "holds a Foo of crate alpha */ import a.b"]; sdecs := []; sredacted := false |} ]
               [lit "Holder"].
Definition w15_kt_plan : list out_plan :=
  [ {| op_file := lit "alpha.kt"; op_crate := lit "alpha"; op_imports := []; op_data := c15_ktnv_pd |};
    {| op_file := lit "beta.kt"; op_crate := lit "beta"; op_imports := [(lit "alpha", [lit "Color"; lit "Foo"])]; op_data := w15_kt_beta |} ].

(* per generated file: its text, None for a failed file *)
Definition w15_texts {St} (r : list (str * Writer.gen_result) * outcome St) : list (option str) :=
  map (fun f => match snd f with Writer.Generated t => Some t | Writer.GenFailed => None end) (fst r).
Definition w15_good (o : option str) (l : c15_lang) (docs : list str) (needles : list string) : bool :=
  match o with
  | Some text => good_C15 l docs text && forallb (fun n => contains_sub (lit n) text) needles
  | None => false
  end.

Example C15_ts_multi_nonvacuous :
  c15_mappings_plain C15ts (ts_type_mappings c15_nv_file_cfg) = true /\ c15_no_star (ts_version c15_nv_file_cfg) = true /\
  c15_ts_plan_ok uc_exec w15_ts_plan = true /\
  match w15_texts (generate_crates (fun st (_ : str) im pd => ts_generate_multi uc_exec c15_nv_file_cfg st im pd) [] w15_ts_plan) with
  | [a; b] =>
    w15_good a C15ts (map c15_esc_ts (flat_map c15_item_docs (items_of c15_nv_pd))) ["key === ""when"""] &&
    w15_good b C15ts (map c15_esc_ts (flat_map c15_item_docs (items_of w15_ts_beta)))
             ["import { E, Foo } from ""./alpha"";"; "export interface Holder {"; "key === ""when"""]
  | _ => false
  end = true.
Proof. repeat split; vm_compute; reflexivity. Qed.

Example C15_kt_multi_nonvacuous :
  c15_plain C15kt (kt_prefix c15_ktnv_file_cfg) = true /\ c15_mappings_plain C15kt (kt_type_mappings c15_ktnv_file_cfg) = true /\
  c15_plain C15kt (kt_package c15_ktnv_file_cfg) = true /\ c15_version_nested_ok (kt_version c15_ktnv_file_cfg) = true /\
  c15_kt_plan_ok w15_kt_plan = true /\
  forallb (fun p => forallb (fun it => forallb (safe_line eol_lf_cr) (c15_item_docs it)) (items_of (op_data p))) w15_kt_plan = true /\
  match w15_texts (generate_crates (fun (st : unit) c im pd => Proofs.C10Multi.wrap_unit st (kt_generate_multi uc_exec c15_ktnv_file_cfg c im pd)) tt w15_kt_plan) with
  | [a; b] =>
    w15_good a C15kt (flat_map c15_item_docs_helpers_first (items_of c15_ktnv_pd)) ["package com.example.proto.alpha"] &&
    w15_good b C15kt (flat_map c15_item_docs_helpers_first (items_of w15_kt_beta))
             ["package com.example.proto.beta"; "import com.example.proto.alpha.MyColor"; "import com.example.proto.alpha.MyFoo"; "data class MyHolder ("]
  | _ => false
  end = true.
Proof. repeat split; vm_compute; reflexivity. Qed.

(* the hypothesis on the import map is needed: an imported name with a slash-star in it (a serde rename can produce one)
   opens a block comment in the import line that the line does not close; a crate directory named with a double quote ends
   the module string early and the closing quote of the line opens a literal *)
Definition w15_neutral_b (l : c15_lang) (s : str) : bool :=
  match lex_str_gen (c15_cfg l) LCode s with LCode => true | _ => false end.
Example C15_multi_imports_hypothesis_needed :
  c15_ts_imports_ok [(lit "alpha", [lit "a/*b"])] = false /\
  w15_neutral_b C15ts (ts_write_imports [(lit "alpha", [lit "a/*b"])]) = false /\
  c15_ts_imports_ok [(lit "al""pha", [lit "Foo"])] = false /\
  w15_neutral_b C15ts (lit "import { Foo } from ""./al""pha"";") = false /\
  c15_ts_imports_ok [(lit "alpha", [lit "Foo"])] = true /\
  w15_neutral_b C15ts (ts_write_imports [(lit "alpha", [lit "Foo"])]) = true.
Proof. repeat split; vm_compute; reflexivity. Qed.
