(* C09 for TypeScript: no prefix, every definition under id.renamed, every mentioned id spelled
   verbatim (generic parameters included); struct variants are inlined (no ...Inner helpers), no
   sealed parents.  The printing monad only collects the types that need a reviver. *)
From Coq Require Import List Bool String Permutation.
From TS Require Import Model.Str Model.Outcome Model.Unicode Model.Types Model.Parse Model.Reconcile Model.TopsortAlgo Model.Topsort
                       Model.Lang.Common Model.Lang.Decl Model.Lang.TypeScript Spec.C09Spec.
From TS Require Import Proofs.C09Common Proofs.C09Recon Proofs.C09Refs Proofs.C09Lang.
Import ListNotations.
Local Notation length := List.length (only parsing).

Local Notation ts_names_ok x t :=
  (forall n, In n (texp_names x) -> c09_builtin TypeScript n = true \/ exists form i, In (form, i) (c09_type_ids t) /\ n = i).

Section TSN.
Variable cfg : ts_config.

Lemma ts_special_mapped_names key (k : M ts_state texp) (P : texp -> Prop) s x s' :
  match tmap_get (ts_type_mappings cfg) key with
  | Some mapped =>
    mdo st <- mget;
    mdo _ <- (if has_custom_translation mapped then mput (tsmap_set st mapped []) else ret tt);
    ret (XRaw mapped)
  | None => k
  end s = Ok (x, s') ->
  (forall m, P (XRaw m)) -> (forall s x s', k s = Ok (x, s') -> P x) -> P x.
Proof.
  destruct (tmap_get (ts_type_mappings cfg) key); intros Hx Hraw Hk; [|eauto].
  c09_bind Hx st s1 E. c09_bind Hx u s2 E2. c09_ret Hx. apply Hraw.
Qed.

Lemma ts_texp_names gs t : forall s x s', ts_texp cfg gs t s = Ok (x, s') -> ts_names_ok x t.
Proof.
  induction t using rtype_ind'; intros s x s' Hx; cbn [ts_texp] in Hx.
  - c09_ret Hx. intros nm Hn. destruct (tmap_get (ts_type_mappings cfg) id); cbn [texp_names flat_map] in Hn; [destruct Hn|]. destruct Hn as [<-|[]].
    right. exists C9Simple, id. split; [left; reflexivity|reflexivity].
  - destruct (tmap_get (ts_type_mappings cfg) id); [c09_ret Hx; intros nm []|].
    c09_bind Hx parts s1 E. c09_ret Hx. apply c09_mgo_Forall2 in E. intros nm Hn. cbn [texp_names] in Hn. destruct Hn as [<-|Hn].
    + right. exists C9Generic, id. split; [left; reflexivity|reflexivity].
    + apply in_flat_map in Hn as (y & Hy & Hn). destruct (c09_Forall2_in_r _ _ _ _ E Hy) as (p & Hp & sa & sb & Ep).
      rewrite Forall_forall in H. destruct (H p Hp sa y sb Ep nm Hn) as [B|(form & i & Hi & ->)]; [left; exact B|].
      right. exists form, i. split; [|reflexivity]. cbn [c09_type_ids]. right. apply in_flat_map. exists p. split; assumption.
  - eapply (ts_special_mapped_names _ _ (fun x => ts_names_ok x (RVec t))); [exact Hx|intros m n []|]. clear Hx. intros s0 x0 s0' Hx.
    c09_bind Hx e s1 E. c09_ret Hx. exact (IHt _ _ _ E).
  - eapply (ts_special_mapped_names _ _ (fun x => ts_names_ok x (RArray t n))); [exact Hx|intros m n0 []|]. clear Hx. intros s0 x0 s0' Hx.
    c09_bind Hx e s1 E. c09_ret Hx. intros nm Hn. cbn [texp_names] in Hn. apply in_flat_map in Hn as (y & Hy & Hn).
    apply repeat_spec in Hy. subst y. exact (IHt _ _ _ E nm Hn).
  - eapply (ts_special_mapped_names _ _ (fun x => ts_names_ok x (RSlice t))); [exact Hx|intros m n []|]. clear Hx. intros s0 x0 s0' Hx.
    c09_bind Hx e s1 E. c09_ret Hx. exact (IHt _ _ _ E).
  - eapply (ts_special_mapped_names _ _ (fun x => ts_names_ok x (RHashMap t1 t2))); [exact Hx|intros m n []|]. clear Hx. intros s0 x0 s0' Hx.
    c09_bind Hx ks s1 E1. c09_bind Hx vs s2 E2. c09_ret Hx.
    assert (ts_texp cfg gs t1 s0 = Ok (ks, s1)) as E1'.
    { destruct t1; try exact E1. destruct (mem_str id gs); [discriminate|exact E1]. }
    intros nm Hn. cbn [texp_names] in Hn. apply in_app_iff in Hn as [Hn|Hn].
    + destruct (IHt1 _ _ _ E1' nm Hn) as [B|(form & i & Hi & ->)]; [left; exact B|]. right. exists form, i. split; [cbn [c09_type_ids]; apply in_app_iff; auto|reflexivity].
    + destruct (IHt2 _ _ _ E2 nm Hn) as [B|(form & i & Hi & ->)]; [left; exact B|]. right. exists form, i. split; [cbn [c09_type_ids]; apply in_app_iff; auto|reflexivity].
  - eapply (ts_special_mapped_names _ _ (fun x => ts_names_ok x (ROption t))); [exact Hx|intros m n []|]. clear Hx. intros s0 x0 s0' Hx.
    exact (IHt _ _ _ Hx).
  - eapply (ts_special_mapped_names _ _ (fun x => ts_names_ok x (RPrim p))); [exact Hx|intros m n []|]. clear Hx. intros s0 x0 s0' Hx.
    intros nm Hn. left. destruct p; try discriminate; c09_ret Hx; destruct Hn as [<-|[]]; reflexivity.
Qed.

Lemma ts_member_names gs f s m s' : ts_member_of cfg gs f s = Ok (m, s') -> ts_names_ok (tm_type m) (fty f).
Proof.
  unfold ts_member_of. intros H. c09_bind H ty s1 E. c09_bind H st s2 E2. c09_bind H u s3 E3. c09_ret H. cbn [tm_type].
  destruct (type_override f TypeScript); [c09_ret E; intros n []|]. eapply ts_texp_names; exact E.
Qed.
End TSN.

Section TSI.
Variable uc : unicode.
Variable cfg : ts_config.
Variable pd : parsed.
Hypothesis Hdom : dom_C09 TypeScript [] pd = true.
Let rn := c09_rn pd.
Let pd' := c09_reconciled pd.
Notation shape := (c09_ref_shape TypeScript [] pd).
Notation decl_ok := (c09_decl_ok pd TypeScript []).
Notation ownercond := (c09_ownercond pd TypeScript []).
Notation defname := (c09_def_name TypeScript []).

Lemma ts_refs tp owner x :
  In tp (c09_tposs pd) -> ts_names_ok x (c09_recon_type pd tp) -> ownercond tp owner ->
  forall r, In r (c09_type_refs TypeScript owner (c9t_pos tp) x) -> shape r.
Proof. intros Htp Hn Hown. eapply (c09_names_refs_plain pd TypeScript [] Hdom); eauto. Qed.

(* the members of a struct / of an inlined struct variant *)
Lemma ts_members_refs gs fs ms owner (mk : rfield -> c09_tpos) :
  Forall2 (fun f' m => exists s1 s2, ts_member_of cfg gs f' s1 = Ok (m, s2)) (map (check_field [] rn []) fs) ms ->
  (forall f, In f fs -> In (mk f) (c09_tposs pd) /\ c9t_pos (mk f) = C9Field /\ c9t_type (mk f) = fty f /\ ownercond (mk f) owner) ->
  forall r, In r (flat_map (fun m => c09_type_refs TypeScript owner C9Field (mb_type m)) (map ts_obs_member ms)) -> shape r.
Proof.
  intros F Hmk r Hr. apply in_flat_map in Hr as (m' & Hm' & Hr). apply in_map_iff in Hm' as (m & <- & Hm).
  destruct (c09_Forall2_in_r _ _ _ _ F Hm) as (f' & Hf' & s1 & s2 & Em). apply in_map_iff in Hf' as (f & <- & Hf).
  destruct (Hmk f Hf) as (Htp & Hpos & Hty & Hown). cbn [ts_obs_member mb_type] in Hr. rewrite <- Hpos in Hr.
  eapply ts_refs; [exact Htp| |exact Hown|exact Hr].
  unfold c09_recon_type. rewrite Hty. exact (ts_member_names cfg gs _ _ _ _ Em).
Qed.

Lemma ts_defname_ren en : c09_def_which TypeScript (c9e_kind en) = C9Ren -> c9e_suffix en = [] -> defname en = renamed (c9e_id en).
Proof. intros W S. unfold c09_def_name. rewrite W, S. cbn. apply app_nil_r. Qed.

Lemma ts_item it' d s1 s2 : In it' (items_of pd') -> ts_decl_of uc cfg it' s1 = Ok (d, s2) ->
  c09_item_ok pd TypeScript [] it' [ts_obs d].
Proof.
  intros Hit Hd. destruct (c09_items_cases pd TypeScript [] Hdom it' Hit) as [(a & Ha & ->)|[(s & Hs & ->)|[(e & He & ->)|(c & Hc & ->)]]];
    cbn [ts_decl_of] in Hd.
  - (* alias *)
    cbn [c09_ra agenerics atype acomments aid] in Hd. c09_bind Hd ty s3 E. c09_ret Hd.
    assert (Hn : defname (c09_ent_alias a) = renamed (aid a)) by (apply ts_defname_ren; reflexivity).
    split.
    + intros d [<-|[]]. split.
      * intros _. exists (c09_ent_alias a). split; [apply c09_in_alias; exact Ha|]. rewrite Hn. reflexivity.
      * intros r Hr. unfold c09_decl_refs in Hr. cbn [ts_obs d_kind d_name d_type] in Hr.
        eapply (ts_refs {| c9t_owner := aid a; c9t_generics := agenerics a; c9t_pos := C9Alias; c9t_type := atype a |}); [apply c09_tp_alias; exact Ha| | |exact Hr].
        -- exact (ts_texp_names cfg _ _ _ _ _ E).
        -- right. exists (c09_ent_alias a). split; [apply c09_in_alias; exact Ha|]. split; [rewrite Hn; reflexivity|reflexivity].
    + intros a0 Ha0 Ea. eexists. split; [left; reflexivity|]. split; [reflexivity|]. cbn [ts_obs d_name].
      assert (aid a0 = aid a) as <- by (apply (f_equal aid) in Ea; cbn in Ea; congruence).
      symmetry. apply ts_defname_ren; reflexivity.
  - (* struct *)
    cbn [c09_rs sgenerics sfields scomments sid] in Hd. c09_bind Hd ms s3 E. c09_ret Hd. apply c09_mmapM_Forall2 in E.
    assert (Hn : defname (c09_ent_struct s) = renamed (sid s)) by (apply ts_defname_ren; reflexivity).
    split.
    + intros d [<-|[]]. split.
      * intros _. exists (c09_ent_struct s). split; [apply c09_in_struct; exact Hs|]. rewrite Hn. reflexivity.
      * intros r Hr. unfold c09_decl_refs in Hr. cbn [ts_obs d_kind d_name d_members d_variants flat_map] in Hr. rewrite app_nil_r in Hr.
        eapply (ts_members_refs (sgenerics s) (sfields s) ms _
                  (fun f => {| c9t_owner := sid s; c9t_generics := sgenerics s; c9t_pos := C9Field; c9t_type := fty f |})); [exact E| |exact Hr].
        intros f Hf. split; [apply c09_tp_struct; assumption|]. repeat split.
        right. exists (c09_ent_struct s). split; [apply c09_in_struct; exact Hs|]. split; [rewrite Hn; reflexivity|reflexivity].
    + intros s0 Hs0 Es. eexists. split; [left; reflexivity|]. split; [reflexivity|]. cbn [ts_obs d_name].
      assert (sid s0 = sid s) as <- by (apply (f_equal sid) in Es; cbn in Es; congruence).
      symmetry. apply ts_defname_ren; reflexivity.
  - (* enum *)
    assert (Hn : defname (c09_ent_enum e) = renamed (eid (enum_shared e))) by (apply ts_defname_ren; destruct e; reflexivity).
    assert (Hj : In (c09_ent_enum e) (c09_entities pd)) by (apply c09_in_enum; exact He).
    assert (Hname : d_name (ts_obs d) = renamed (eid (enum_shared e)) /\ c09_is_def (ts_obs d) = true /\
                    forall r, In r (c09_decl_refs TypeScript (ts_obs d)) -> shape r).
    { destruct e as [sh|tag content sh]; cbn [c09_re] in Hd; cbn [enum_shared] in *.
      - c09_bind Hd vs s3 E. c09_ret Hd. cbn [ts_obs d_name check_eshared eid]. repeat split.
        intros r Hr. unfold c09_decl_refs in Hr. cbn [ts_obs d_kind d_name d_members d_variants flat_map app] in Hr.
        apply in_flat_map in Hr as (v & Hv & Hr). apply in_map_iff in Hv as ([[vd vc] vw] & <- & _). cbn in Hr. destruct Hr.
      - c09_bind Hd vs s3 E. c09_ret Hd. cbn [ts_obs d_name check_eshared eid]. repeat split.
        intros r Hr. unfold c09_decl_refs in Hr. cbn [ts_obs d_kind d_name d_members d_variants flat_map app] in Hr.
        apply in_flat_map in Hr as (vd & Hvd & Hr). apply in_map_iff in Hvd as (tv & <- & Htv).
        apply c09_mmapM_Forall2 in E. cbn [check_eshared evariants egenerics] in E.
        destruct (c09_Forall2_in_r _ _ _ _ E Htv) as (v' & Hv' & sa & sb & Ev). apply in_map_iff in Hv' as (v & <- & Hv).
        assert (Hown : forall tp, c9t_generics tp = egenerics sh ->
                  ownercond tp (renamed (eid sh))).
        { intros tp Hg. right. exists (c09_ent_enum (EAlgebraic tag content sh)). split; [exact Hj|]. split; [rewrite Hn; reflexivity|]. rewrite Hg. reflexivity. }
        destruct v as [vsh|t vsh|fs vsh]; cbn [check_variant ts_variant_of] in Ev.
        + c09_ret Ev. cbn in Hr. destruct Hr.
        + c09_bind Ev ty s4 Et. c09_ret Ev. cbn [ts_obs_variant vd_parent vd_payload app] in Hr.
          eapply (ts_refs {| c9t_owner := eid sh; c9t_generics := egenerics sh; c9t_pos := C9Payload; c9t_type := t |});
            [apply (c09_tp_tuple pd (EAlgebraic tag content sh) t vsh He Hv)| |apply Hown; reflexivity|exact Hr].
          exact (ts_texp_names cfg _ _ _ _ _ Et).
        + c09_bind Ev ms s4 Em. c09_ret Ev. cbn [ts_obs_variant vd_parent vd_payload app] in Hr. apply c09_mmapM_Forall2 in Em.
          eapply (ts_members_refs (egenerics sh) fs ms _
                    (fun f => {| c9t_owner := eid sh; c9t_generics := egenerics sh; c9t_pos := C9Field; c9t_type := fty f |})); [exact Em| |exact Hr].
          intros f Hf. split; [apply (c09_tp_anon pd (EAlgebraic tag content sh) fs vsh f He Hv Hf)|]. repeat split. apply Hown. reflexivity. }
    destruct Hname as (Hname & Hdef & Hrefs). split.
    + intros d0 [<-|[]]. split; [|exact Hrefs]. intros _. exists (c09_ent_enum e). split; [exact Hj|]. rewrite Hn. exact Hname.
    + intros e0 He0 Ee. split; [|discriminate].
      eexists. split; [left; reflexivity|]. split; [exact Hdef|]. rewrite Hname.
      assert (eid (enum_shared e0) = eid (enum_shared e)) as <-.
      { apply (f_equal (fun x => eid (enum_shared x))) in Ee. destruct e, e0; cbn in Ee |- *; congruence. }
      symmetry. apply ts_defname_ren; destruct e0; reflexivity.
  - (* const: not a definition; its type is reconciled like every other type position *)
    c09_bind Hd ty s3 E. c09_ret Hd. split; [|exact I].
    intros d [<-|[]]. split; [cbn; discriminate|].
    intros r Hr. unfold c09_decl_refs in Hr. cbn [ts_obs d_kind d_name d_type] in Hr.
    eapply (ts_refs {| c9t_owner := cid c; c9t_generics := []; c9t_pos := C9Const; c9t_type := ctype c |}); [apply c09_tp_const; exact Hc| |left; reflexivity|exact Hr].
    exact (ts_texp_names cfg _ _ _ _ _ E).
Qed.

Theorem ts_shape fd : ts_file_decls uc cfg pd' = Ok fd -> c09_shape TypeScript [] pd (c09_observe TypeScript fd).
Proof.
  unfold ts_file_decls, ts_decls. intros H.
  destruct (topsort (items_of pd')) as [items| |] eqn:Et; cbn [bind] in H; try discriminate.
  destruct (mmapM (ts_decl_of uc cfg) items []) as [[ds st]| |] eqn:Em; cbn [bind] in H; try discriminate.
  injection H as <-. pose proof (c09_topsort_in' _ _ Et) as Hperm. apply c09_mmapM_Forall2 in Em.
  apply (c09_shape_of_items pd TypeScript [] Hdom
           (fun it' g => exists d s1 s2, ts_decl_of uc cfg it' s1 = Ok (d, s2) /\ g = [ts_obs d]) [] (map (fun d => [ts_obs d]) ds)); cbn [fd_decls].
  - intros d. rewrite in_map_iff. split.
    + intros (d0 & <- & Hd0). right. exists [ts_obs d0]. split; [apply in_map_iff; eauto|left; reflexivity].
    + intros [[]|(g & Hg & Hd)]. apply in_map_iff in Hg as (d0 & <- & Hd0). destruct Hd as [<-|[]]. eauto.
  - intros d [].
  - intros it' Hit _. apply Hperm in Hit. destruct (c09_Forall2_in_l _ _ _ _ Em Hit) as (d & Hd & s1 & s2 & E).
    exists [ts_obs d]. split; [apply in_map_iff; eauto|]. exists d, s1, s2. auto.
  - intros g Hg. apply in_map_iff in Hg as (d & <- & Hd). destruct (c09_Forall2_in_r _ _ _ _ Em Hd) as (it' & Hit & s1 & s2 & E).
    exists it'. split; [apply Hperm; exact Hit|]. exists d, s1, s2. auto.
  - intros it' g Hit (d & s1 & s2 & E & ->). exact (ts_item it' d s1 s2 Hit E).
Qed.

Theorem c09_typescript (acrs : list str) fd :
  known_C09 TypeScript [] acrs pd = None -> ts_file_decls uc cfg pd' = Ok fd ->
  good_C09 TypeScript [] pd (c09_observe TypeScript fd) = true.
Proof. intros Hknown H. exact (c09_shape_good TypeScript [] acrs pd _ Hdom Hknown (ts_shape fd H)). Qed.
End TSI.

Theorem c09_typescript_all (uc : unicode) (cfg : ts_config) (acrs : list str) (pd : parsed) :
  dom_C09 TypeScript [] pd = true -> known_C09 TypeScript [] acrs pd = None ->
  forall fd : file_decls, ts_file_decls uc cfg (c09_reconciled pd) = Ok fd ->
    good_C09 TypeScript [] pd (c09_observe TypeScript fd) = true.
Proof. intros Hd Hk fd H. exact (c09_typescript uc cfg pd Hd acrs fd Hk H). Qed.
