(* C12 multi-file: concrete two-crate workspaces evaluated inside Coq (non-vacuity of Proofs/C12Multi.v and
   regression pins of the carry-over of printer state from one crate's file to the next). *)
From Coq Require Import List Bool String.
From TS Require Import Model.Str Model.Outcome Model.Unicode Model.Syntax Model.Attrs Model.Types Model.Parse
                       Model.Reconcile Model.Collect Model.TopsortAlgo Model.Topsort Model.Rename
                       Model.Lang.Common Model.Lang.Kotlin Model.Lang.Swift Model.Lang.Scala
                       Model.Lang.Go Model.Lang.Python Model.MultiFile.
From TS Require Model.Writer.
From TS Require Import Spec.C12Spec.
From TS Require Proofs.C02_Witness.
From TS Require Import Proofs.C14Witness Proofs.C12Obs Proofs.C12Multi.
From TS Require Import Model.Lang.TypeScript Spec.C17Spec Spec.C12TSSpec Proofs.C12MultiGo Proofs.C12MultiSwift Proofs.C12MultiStateless Proofs.C12MultiTS.
Import ListNotations.
Local Open Scope string_scope.
Local Open Scope list_scope.

Definition y_gstruct (name : str) (gs : list str) (fs : list field) : item :=
  IStruct [w_ts] name (map GPType gs) (FNamed fs).
Definition y_plan (l : lang) (ws : list ws_entry) : option (list out_plan) :=
  match parse_workspace uc_exec [] [] (fun l => l) ws with
  | Ok arrivals => Some (multi_plan l idl (multi_crates idl arrivals))
  | _ => None
  end.
Definition ln (s : string) : str := lit s ++ [ch_nl].

(* ---------------------------------------------------------------- Python
     alpha/src/lib.rs:  #[typeshare] struct Page<T> { item: T, at: OffsetDateTime }
     beta/src/lib.rs:   #[typeshare] struct Plain { n: u32 }                              (ws_py_plain)
                        #[typeshare] struct Other<U> { item: U, at: OffsetDateTime }      (ws_py_again) *)
Definition y_alpha_py : ws_entry := w_entry (lit "alpha") (w_file
  [y_gstruct (lit "Page") [lit "T"] [w_fld (lit "item") (w_ty (lit "T")); w_fld (lit "at") (w_ty (lit "OffsetDateTime"))]]
  [[lit "typeshare"]; [lit "T"]; [lit "OffsetDateTime"]]).
Definition ws_py_plain : list ws_entry :=
  [y_alpha_py;
   w_entry (lit "beta") (w_file [w_struct [] (lit "Plain") [w_fld (lit "n") (w_ty (lit "u32"))]] [[lit "typeshare"]; [lit "u32"]])].
Definition ws_py_again : list ws_entry :=
  [y_alpha_py;
   w_entry (lit "beta") (w_file
     [y_gstruct (lit "Other") [lit "U"] [w_fld (lit "item") (w_ty (lit "U")); w_fld (lit "at") (w_ty (lit "OffsetDateTime"))]]
     [[lit "typeshare"]; [lit "U"]; [lit "OffsetDateTime"]])].

Definition y_py_cfg : py_config := C02_Witness.c02_w_py_cfg.

(* the observation of every file of a run, the state threaded as generate_crates does *)
Fixpoint py_multi_observations (cfg : py_config) (st : py_state) (plan : list out_plan)
  : list (str * outcome (list str * list str)) :=
  match plan with
  | [] => []
  | p :: r => (op_file p, c12_py_observe_multi uc_exec cfg st (op_data p)) ::
              match py_multi_decls uc_exec cfg st (op_data p) with
              | Ok (_, st') => py_multi_observations cfg st' r
              | _ => []
              end
  end.

Definition y_none {A} (o : option A) : bool := match o with None => true | Some _ => false end.

Definition y_py_defs_alpha : list str :=
  [lit "T"; lit "serialize_datetime_data"; lit "parse_rfc3339"; lit "datetime"; lit "BaseModel"; lit "BeforeValidator";
   lit "PlainSerializer"; lit "Annotated"; lit "Generic"; lit "TypeVar"].
Definition y_py_uses_generic (g : str) : list str :=
  [lit "TypeVar"; lit "datetime"; lit "BaseModel"; lit "Generic"; g; g; lit "datetime"; lit "Annotated"; lit "BeforeValidator";
   lit "PlainSerializer"; lit "parse_rfc3339"; lit "serialize_datetime_data"].

(* beta.py of ws_py_plain, byte for byte: struct Plain uses neither a type variable nor datetime, yet its file carries
   what crate alpha left in the printer - the imports, T = TypeVar("T"), the datetime helper functions.  Every name
   this header uses (TypeVar, datetime) is imported by it. *)
Definition y_beta_plain_py : str :=
  ln "from __future__ import annotations" ++ [ch_nl] ++
  ln "from datetime import datetime" ++
  ln "from pydantic import BaseModel, BeforeValidator, PlainSerializer" ++
  ln "from typing import Annotated, Generic, TypeVar" ++ [ch_nl] ++
  ln "T = TypeVar(""T"")" ++ [ch_nl; ch_nl] ++
  py_ser_content py_datetime_translation ++ [ch_nl; ch_nl] ++ py_de_content py_datetime_translation ++ [ch_nl; ch_nl] ++
  ln "class Plain(BaseModel):" ++ ln "    n: int" ++ [ch_nl].

(* NON-VACUITY 1: the first crate uses generics + datetime, the second uses neither *)
Example c12_multi_python_nonvacuous_plain :
  exists plan t_alpha st_fin,
    y_plan Python ws_py_plain = Some plan /\
    map op_crate plan = [lit "alpha"; lit "beta"] /\
    forallb (fun p => c12_py_dom y_py_cfg (items_of (op_data p))) plan = true /\
    generate_crates (py_multi_gen uc_exec y_py_cfg) py_empty_state plan =
      ([(lit "alpha.py", Writer.Generated t_alpha); (lit "beta.py", Writer.Generated y_beta_plain_py)], Ok st_fin) /\
    py_type_variables st_fin = [lit "T"] /\ py_custom_types st_fin = [lit "datetime"] /\
    py_multi_observations y_py_cfg py_empty_state plan =
      [(lit "alpha.py", Ok (y_py_uses_generic (lit "T"), y_py_defs_alpha));
       (lit "beta.py", Ok ([lit "TypeVar"; lit "datetime"; lit "BaseModel"], y_py_defs_alpha))] /\
    c12_good (y_py_uses_generic (lit "T")) y_py_defs_alpha = true /\
    c12_good [lit "TypeVar"; lit "datetime"; lit "BaseModel"] y_py_defs_alpha = true.
Proof.
  eexists. eexists. eexists. split; [vm_compute; reflexivity|].
  repeat (split; [vm_compute; reflexivity|]). vm_compute; reflexivity.
Qed.

(* NON-VACUITY 2: both crates use generics + datetime; the second file declares both type variables *)
Example c12_multi_python_nonvacuous_again :
  exists plan t_alpha t_beta st_fin,
    y_plan Python ws_py_again = Some plan /\
    map op_crate plan = [lit "alpha"; lit "beta"] /\
    forallb (fun p => c12_py_dom y_py_cfg (items_of (op_data p))) plan = true /\
    generate_crates (py_multi_gen uc_exec y_py_cfg) py_empty_state plan =
      ([(lit "alpha.py", Writer.Generated t_alpha); (lit "beta.py", Writer.Generated t_beta)], Ok st_fin) /\
    py_type_variables st_fin = [lit "T"; lit "U"] /\
    py_multi_observations y_py_cfg py_empty_state plan =
      [(lit "alpha.py", Ok (y_py_uses_generic (lit "T"), y_py_defs_alpha));
       (lit "beta.py", Ok (y_py_uses_generic (lit "U"), lit "T" :: lit "U" :: tl y_py_defs_alpha))] /\
    c12_good (y_py_uses_generic (lit "U")) (lit "T" :: lit "U" :: tl y_py_defs_alpha) = true.
Proof.
  eexists. eexists. eexists. eexists. split; [vm_compute; reflexivity|].
  repeat (split; [vm_compute; reflexivity|]). vm_compute; reflexivity.
Qed.

(* REGRESSION PIN (the seeded change "imports drained after every file while TypeVars and helper translations
   carry over"): py_drained_gen = the multi-file generator started from the incoming state with its import table
   emptied.  Such a state violates the invariant of c12_multi_python (c12_py_state_ok), and on ws_py_plain the
   second file then uses TypeVar and datetime without importing them. *)
Definition py_drain (st : py_state) : py_state :=
  {| py_imports := []; py_type_variables := py_type_variables st; py_custom_types := py_custom_types st |}.
Definition py_drained_gen (cfg : py_config) (st : py_state) (c : str) (im : scoped) (pd : parsed) :=
  py_multi_gen uc_exec cfg (py_drain st) c im pd.
Example c12_multi_python_drain_regression :
  exists plan p_alpha p_beta t_alpha st1 t_beta st2 uses defs,
    y_plan Python ws_py_plain = Some plan /\ plan = [p_alpha; p_beta] /\
    py_generate_multi uc_exec y_py_cfg py_empty_state (op_data p_alpha) = Ok (t_alpha, st1) /\
    c12_py_state_ok st1 = true /\ c12_py_state_ok (py_drain st1) = false /\
    generate_crates (py_drained_gen y_py_cfg) py_empty_state plan =
      ([(lit "alpha.py", Writer.Generated t_alpha); (lit "beta.py", Writer.Generated t_beta)], Ok st2) /\
    t_beta <> y_beta_plain_py /\
    c12_py_observe_multi uc_exec y_py_cfg (py_drain st1) (op_data p_beta) = Ok (uses, defs) /\
    In (lit "TypeVar") uses /\ ~ In (lit "TypeVar") defs /\ In (lit "datetime") uses /\ ~ In (lit "datetime") defs /\
    c12_good uses defs = false.
Proof.
  do 9 eexists. split; [vm_compute; reflexivity|]. split; [reflexivity|].
  repeat (split; [vm_compute; reflexivity|]).
  split; [intros H; vm_compute in H; discriminate H|].
  split; [vm_compute; reflexivity|].
  split; [vm_compute; auto|]. split; [intros H; vm_compute in H; repeat (destruct H as [H|H]; [discriminate H|]); exact H|].
  split; [vm_compute; auto|]. split; [intros H; vm_compute in H; repeat (destruct H as [H|H]; [discriminate H|]); exact H|].
  vm_compute; reflexivity.
Qed.

(* SHARPNESS of the hypothesis "the crates BEFORE file i are in the domain" of c12_multi_python.  Workspace ws_py_taint:
     alpha/src/lib.rs:  #[typeshare] struct A { d: datetime }      (a user type called `datetime`: outside c12_py_dom)
     beta/src/lib.rs:   #[typeshare] struct Plain { n: u32 }       (inside the domain, outside the classes)
   alpha's field prints as the text `datetime`, which registers the datetime helper functions without the datetime
   import; the state alpha leaves violates the invariant, and beta.py - whose own crate is beyond reproach - carries
   the helper functions and uses datetime without importing it. *)
Definition ws_py_taint : list ws_entry :=
  [w_entry (lit "alpha") (w_file [w_struct [] (lit "A") [w_fld (lit "d") (w_ty (lit "datetime"))]] [[lit "typeshare"]; [lit "datetime"]]);
   w_entry (lit "beta") (w_file [w_struct [] (lit "Plain") [w_fld (lit "n") (w_ty (lit "u32"))]] [[lit "typeshare"]; [lit "u32"]])].
Example c12_multi_python_earlier_dom_needed :
  exists plan p_alpha p_beta t_alpha st1 uses defs,
    y_plan Python ws_py_taint = Some plan /\ plan = [p_alpha; p_beta] /\
    c12_py_dom y_py_cfg (items_of (op_data p_alpha)) = false /\
    c12_py_dom y_py_cfg (items_of (op_data p_beta)) = true /\
    py_generate_multi uc_exec y_py_cfg py_empty_state (op_data p_alpha) = Ok (t_alpha, st1) /\
    c12_py_state_ok st1 = false /\
    c12_py_observe_multi uc_exec y_py_cfg st1 (op_data p_beta) = Ok (uses, defs) /\
    In (lit "datetime") uses /\ ~ In (lit "datetime") defs /\ c12_good uses defs = false.
Proof.
  do 7 eexists. split; [vm_compute; reflexivity|]. split; [reflexivity|].
  repeat (split; [vm_compute; reflexivity|]).
  split; [vm_compute; auto|]. split; [intros H; vm_compute in H; repeat (destruct H as [H|H]; [discriminate H|]); exact H|].
  vm_compute; reflexivity.
Qed.

(* ---------------------------------------------------------------- Swift
     alpha/src/lib.rs:  #[typeshare] struct Ping { nothing: () }
     beta/src/lib.rs:   #[typeshare] struct Plain { n: u32 }
   Only the FIRST crate (alphabetically, the order of the run) uses (). *)
Definition y_unit : ty := TTuple [].
Definition y_plain_beta : ws_entry :=
  w_entry (lit "beta") (w_file [w_struct [] (lit "Plain") [w_fld (lit "n") (w_ty (lit "u32"))]] [[lit "typeshare"]; [lit "u32"]]).
Definition ws_sw_unit : list ws_entry :=
  [w_entry (lit "alpha") (w_file [w_struct [] (lit "Ping") [w_fld (lit "nothing") y_unit]] [[lit "typeshare"]]); y_plain_beta].
Definition y_sw_cfg : sw_config := C02_Witness.c02_w_sw_cfg.
Definition tln (s : string) : str := [ch_tab] ++ lit s ++ [ch_nl].
Definition ttln (s : string) : str := [ch_tab; ch_tab] ++ lit s ++ [ch_nl].

Definition y_alpha_swift : str :=
  ln "import Foundation" ++ [ch_nl] ++ ln "public struct Ping: Codable {" ++ tln "public let nothing: CodableVoid" ++ [ch_nl] ++
  tln "public init(nothing: CodableVoid) {" ++ ttln "self.nothing = nothing" ++ tln "}" ++ ln "}".
Definition y_beta_swift : str :=
  ln "import Foundation" ++ [ch_nl] ++ ln "public struct Plain: Codable {" ++ tln "public let n: UInt32" ++ [ch_nl] ++
  tln "public init(n: UInt32) {" ++ ttln "self.n = n" ++ tln "}" ++ ln "}".
Definition y_codable_swift : str :=
  [ch_nl] ++ ln "/// () isn't codable, so we use this instead to represent Rust's unit type" ++ ln "public struct CodableVoid: Codable {}".
Definition y_folder : str := lit "o".
Definition y_path (name : string) : str := Writer.path_join y_folder (lit name).

(* NON-VACUITY: Alpha.swift spells CodableVoid and does not define it, Beta.swift neither uses nor defines it; the
   flag alpha sets survives beta's file; the run on an empty folder writes the two files AND Codable.swift with
   the definition *)
Example c12_multi_swift_nonvacuous :
  exists plan p_alpha p_beta ds_alpha ds_beta,
    y_plan Swift ws_sw_unit = Some plan /\ plan = [p_alpha; p_beta] /\
    map op_crate plan = [lit "alpha"; lit "beta"] /\
    forallb (fun p => c12_sw_dom y_sw_cfg (items_of (op_data p))) plan = true /\
    generate_crates (sw_multi_gen uc_exec y_sw_cfg) false plan =
      ([(lit "Alpha.swift", Writer.Generated y_alpha_swift); (lit "Beta.swift", Writer.Generated y_beta_swift)], Ok true) /\
    sw_multi_decls uc_exec y_sw_cfg false (op_data p_alpha) = Ok (ds_alpha, true) /\
    c12_sw_uses ds_alpha = [lit "CodableVoid"; lit "CodableVoid"] /\ c12_sw_defs ds_alpha = [] /\
    sw_multi_decls uc_exec y_sw_cfg true (op_data p_beta) = Ok (ds_beta, true) /\
    c12_sw_uses ds_beta = [] /\ c12_sw_defs ds_beta = [] /\
    Writer.run_full [] 1%N (multi_outputs y_folder
                              [(lit "Alpha.swift", Writer.Generated y_alpha_swift); (lit "Beta.swift", Writer.Generated y_beta_swift)]
                              (sw_multi_codable y_sw_cfg (Ok true))) =
      ([(y_path "Alpha.swift", (y_alpha_swift, 1%N)); (y_path "Beta.swift", (y_beta_swift, 1%N));
        (y_path "Codable.swift", (y_codable_swift, 1%N))], Writer.ExitOk) /\
    codable_path y_folder = y_path "Codable.swift".
Proof.
  do 5 eexists. split; [vm_compute; reflexivity|]. split; [reflexivity|].
  repeat (split; [vm_compute; reflexivity|]). vm_compute; reflexivity.
Qed.

(* REGRESSION PIN (the seeded change "begin_file clears the CodableVoid flag": sw_reset_gen = the multi-file
   generator started from a cleared flag for every file).  The same two files are written, Alpha.swift still spells
   CodableVoid, but the run ends with the flag of the LAST crate: no Codable.swift. *)
Definition sw_reset_gen (cfg : sw_config) (st : sw_state) (c : str) (im : scoped) (pd : parsed) :=
  sw_multi_gen uc_exec cfg false c im pd.
Example c12_multi_swift_reset_regression :
  exists plan,
    y_plan Swift ws_sw_unit = Some plan /\
    generate_crates (sw_reset_gen y_sw_cfg) false plan =
      ([(lit "Alpha.swift", Writer.Generated y_alpha_swift); (lit "Beta.swift", Writer.Generated y_beta_swift)], Ok false) /\
    sw_multi_codable y_sw_cfg (Ok false) = None /\
    Writer.content (Writer.run [] 1%N (multi_outputs y_folder
                      [(lit "Alpha.swift", Writer.Generated y_alpha_swift); (lit "Beta.swift", Writer.Generated y_beta_swift)]
                      (sw_multi_codable y_sw_cfg (Ok false)))) (codable_path y_folder) = None.
Proof.
  eexists. split; [vm_compute; reflexivity|]. repeat (split; [vm_compute; reflexivity|]). vm_compute; reflexivity.
Qed.

(* ---------------------------------------------------------------- Go (workspace ws_py_plain: only crate alpha has an
   OffsetDateTime): beta.go imports time too - the set is not cleared -, more than it uses, never less *)
Definition y_go_cfg : go_config := C02_Witness.c02_w_go_cfg [].
Fixpoint go_multi_observations (cfg : go_config) (st : go_state) (plan : list out_plan)
  : list (str * outcome (list str * list str)) :=
  match plan with
  | [] => []
  | p :: r => (op_file p, c12_go_observe_multi uc_exec cfg st (op_data p)) ::
              match go_multi_decls uc_exec cfg st (op_data p) with
              | Ok (_, st') => go_multi_observations cfg st' r
              | _ => []
              end
  end.
Definition y_beta_go : str :=
  ln "package p" ++ [ch_nl] ++ ln "import (" ++ tln """encoding/json""" ++ tln """time""" ++ ln ")" ++ [ch_nl] ++
  ln "type Plain struct {" ++ tln "N uint32 `json:""n""`" ++ ln "}".
Example c12_multi_go_nonvacuous :
  exists plan t_alpha,
    y_plan Go ws_py_plain = Some plan /\
    map op_crate plan = [lit "alpha"; lit "beta"] /\
    forallb (fun p => c12_go_dom y_go_cfg (items_of (op_data p))) plan = true /\
    generate_crates (go_multi_gen uc_exec y_go_cfg) [] plan =
      ([(lit "alpha.go", Writer.Generated t_alpha); (lit "beta.go", Writer.Generated y_beta_go)], Ok [lit "encoding/json"; lit "time"]) /\
    go_multi_observations y_go_cfg [] plan =
      [(lit "alpha.go", Ok ([lit "time"], [lit "json"; lit "time"])); (lit "beta.go", Ok ([], [lit "json"; lit "time"]))].
Proof.
  do 2 eexists. split; [vm_compute; reflexivity|]. repeat (split; [vm_compute; reflexivity|]). vm_compute; reflexivity.
Qed.

(* ---------------------------------------------------------------- Kotlin, Scala (workspace ws_sw_unit): stateless, every file has
   its own header / alias block *)
Example c12_multi_kotlin_nonvacuous :
  exists plan t_alpha t_beta,
    y_plan Kotlin ws_sw_unit = Some plan /\
    forallb (fun p => y_none (c12_kt_known C02_Witness.c02_w_kt_cfg (op_data p))) plan = true /\
    generate_crates (kt_multi_gen uc_exec C02_Witness.c02_w_kt_cfg) tt plan =
      ([(lit "alpha.kt", Writer.Generated t_alpha); (lit "beta.kt", Writer.Generated t_beta)], Ok tt) /\
    map (fun p => c12_kt_observe_multi uc_exec C02_Witness.c02_w_kt_cfg (op_crate p) (op_data p)) plan =
      [Ok ([lit "Serializable"], [lit "Serializable"; lit "SerialName"]);
       Ok ([lit "Serializable"], [lit "Serializable"; lit "SerialName"])].
Proof.
  do 3 eexists. split; [vm_compute; reflexivity|]. repeat (split; [vm_compute; reflexivity|]). vm_compute; reflexivity.
Qed.

(* ---------------------------------------------------------------- TypeScript (workspace ws_py_plain: only crate alpha has
   a member of a translated type, `at: Date`): alpha.ts ends with ReviverFunc / ReplacerFunc handling Date; beta.ts
   has no such member and carries the same trailer (the map is not cleared) *)
Definition y_ts_cfg : ts_config := C02_Witness.c02_w_ts_cfg.
Definition y_beta_ts : str :=
  [ch_nl] ++ ln "export interface Plain {" ++ tln "n: number;" ++ ln "}" ++ [ch_nl] ++ ts_end_file [(lit "Date", [lit "at"])].
Example c12_multi_typescript_nonvacuous :
  exists plan p_alpha p_beta t_alpha ds_alpha ds_beta,
    y_plan TypeScript ws_py_plain = Some plan /\ plan = [p_alpha; p_beta] /\
    generate_crates (ts_multi_gen uc_exec y_ts_cfg) [] plan =
      ([(lit "alpha.ts", Writer.Generated t_alpha); (lit "beta.ts", Writer.Generated y_beta_ts)], Ok [(lit "Date", [lit "at"])]) /\
    ts_multi_decls uc_exec y_ts_cfg [] (op_data p_alpha) = Ok (ds_alpha, [(lit "Date", [lit "at"])]) /\
    c12_ts_translated ds_alpha = [lit "Date"] /\ c12_ts_good ds_alpha [(lit "Date", [lit "at"])] = true /\
    c12_ts_good ds_alpha [] = false /\
    ts_multi_decls uc_exec y_ts_cfg [(lit "Date", [lit "at"])] (op_data p_beta) = Ok (ds_beta, [(lit "Date", [lit "at"])]) /\
    c12_ts_translated ds_beta = [] /\ c12_ts_defs [(lit "Date", [lit "at"])] = c12_ts_helpers.
Proof.
  do 6 eexists. split; [vm_compute; reflexivity|]. split; [reflexivity|].
  repeat (split; [vm_compute; reflexivity|]). vm_compute; reflexivity.
Qed.

Example c12_multi_scala_nonvacuous :
  exists plan t_alpha t_beta,
    y_plan Scala ws_sw_unit = Some plan /\
    forallb (fun p => c12_sc_dom (op_data p)) plan = true /\
    generate_crates (sc_multi_gen uc_exec C02_Witness.c02_w_sc_cfg) tt plan =
      ([(lit "alpha.scala", Writer.Generated t_alpha); (lit "beta.scala", Writer.Generated t_beta)], Ok tt) /\
    map (fun p => c12_sc_observe uc_exec C02_Witness.c02_w_sc_cfg (op_data p)) plan =
      [Ok ([], []); Ok ([lit "UInt"], [lit "UByte"; lit "UShort"; lit "UInt"; lit "ULong"])].
Proof.
  do 3 eexists. split; [vm_compute; reflexivity|]. repeat (split; [vm_compute; reflexivity|]). vm_compute; reflexivity.
Qed.
