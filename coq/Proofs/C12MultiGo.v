(* C12 in multi-file mode, Go: the import set (a BTreeSet in the language value) is never cleared between files;
   begin_file inserts encoding/json into it again for every file, the item writers insert time where they print
   time.Time; the import block of a file is written from the set reached after its last item.  A set that only
   grows can make a later file import MORE than it uses, never less: no invariant on the incoming state is needed. *)
From Coq Require Import List Bool Permutation String.
From TS Require Import Model.Str Model.Outcome Model.Unicode Model.Types Model.Parse Model.TopsortAlgo Model.Topsort
                       Model.Lang.Common Model.Lang.Decl Model.Lang.Go Model.MultiFile Spec.C12Spec.
From TS Require Model.Writer.
From TS Require Import Proofs.BackCommon Proofs.C12Common Proofs.C12Obs Proofs.GoAcronyms Proofs.C12_Go Proofs.C12Multi.
Import ListNotations.
Local Notation length := List.length (only parsing).
Local Notation concat := List.concat (only parsing).
Local Open Scope list_scope.

(* the declarations of ONE file of a multi-file run and the import set reached, from the set the earlier crates left *)
Definition go_multi_decls (uc : unicode) (cfg : go_config) (st0 : go_state) (pd : parsed) : outcome (list go_decl * go_state) :=
  do items <- topsort (items_of pd);
  let custom_structs := go_types_mapping_to_struct items in
  let run : M go_state (list go_decl) :=
    mdo _ <- go_begin_file cfg;
    mdo dss <- mmapM (go_decl_of uc cfg custom_structs) items;
    ret (concat dss) in
  run st0.

Definition c12_go_observe_multi (uc : unicode) (cfg : go_config) (st0 : go_state) (pd : parsed) : outcome (list str * list str) :=
  do r <- go_multi_decls uc cfg st0 pd;
  Ok (c12_go_uses (fst r), c12_go_defs (snd r)).

Lemma go_multi_decls_empty uc cfg pd : go_multi_decls uc cfg [] pd = go_decls uc cfg pd.
Proof. reflexivity. Qed.
Lemma c12_go_observe_multi_empty uc cfg pd : c12_go_observe_multi uc cfg [] pd = c12_go_observe uc cfg pd.
Proof. reflexivity. Qed.

(* layout: begin_file's text, the import block of the set REACHED after the last item, the rendering of exactly
   these declarations *)
Theorem go_multi_layout uc cfg (st : go_state) (pd : parsed) text st' :
  go_generate_multi uc cfg st pd = Ok (text, st') <->
  exists ds header st1,
    go_multi_decls uc cfg st pd = Ok (ds, st') /\ go_begin_file cfg st = Ok (header, st1) /\
    text = header ++ go_write_all_imports st' ++ concat (map go_render_decl ds).
Proof.
  unfold go_generate_multi, go_multi_decls. destruct (topsort (items_of pd)) as [items| |]; cbn [bind].
  2,3: split; [discriminate|intros (ds & h & s1 & E & _); discriminate E].
  cbv zeta. unfold mconcat, go_write_item. split.
  - intros H. apply mbind_ok in H as (header & s1 & Eh & H). apply mbind_ok in H as (body & s2 & Eb & H).
    apply mbind_ok in H as (imports & s3 & Eg & H). unfold mget in Eg. injection Eg as <- <-.
    unfold ret in H. injection H as <- <-.
    apply mbind_ok in Eb as (ps & s4 & Eps & Eb). unfold ret in Eb. injection Eb as <- <-.
    apply cm_mmapM_render in Eps as (dss & Edss & ->).
    exists (concat dss), header, s1. split; [|split; [exact Eh|rewrite cm_body_render; reflexivity]].
    rewrite (cm_mbind_intro _ _ _ _ _ Eh). rewrite (cm_mbind_intro _ _ _ _ _ Edss). reflexivity.
  - intros (ds & header & s1 & E & Eh & ->).
    apply mbind_ok in E as (h' & s1' & Eh' & E). rewrite Eh in Eh'. injection Eh' as <- <-.
    apply mbind_ok in E as (dss & s2 & Edss & E). unfold ret in E. injection E as <- <-.
    assert (Eps : mmapM (fun x => mbind (go_decl_of uc cfg (go_types_mapping_to_struct items) x)
                                        (fun d => ret (concat (map go_render_decl d)))) items s1 =
                  Ok (map (fun d => concat (map go_render_decl d)) dss, s2)).
    { apply cm_mmapM_render. eauto. }
    rewrite (cm_mbind_intro _ _ _ _ _ Eh).
    assert (Eb : mbind (mmapM (fun x => mbind (go_decl_of uc cfg (go_types_mapping_to_struct items) x)
                                             (fun d => ret (concat (map go_render_decl d)))) items)
                       (fun parts => ret (concat parts)) s1 =
                 Ok (concat (map (fun d => concat (map go_render_decl d)) dss), s2)).
    { rewrite (cm_mbind_intro _ _ _ _ _ Eps). reflexivity. }
    rewrite (cm_mbind_intro _ _ _ _ _ Eb). unfold mbind, mget, ret. rewrite cm_body_render. reflexivity.
Qed.

Section GOM.
Variable uc : unicode.
Variable cfg : go_config.
Variable c12_rt_ok : rtype -> Prop.
Hypothesis Hty_uses : forall gs t s x s1, c12_rt_ok t -> go_texp cfg gs t s = Ok (x, s1) ->
  forall s2 r s3, go_acronyms_ty uc cfg x s2 = Ok (r, s3) -> incl (c12_go_ty_uses r) (c12_go_ty_uses x).

(* the names the declarations of a Go file can use are the two packages *)
Lemma c12_go_uses_vocab (d : go_decl) u : In u (c12_go_decl_uses d) -> u = lit "time" \/ u = lit "json".
Proof.
  intros Hu.
  assert (T : forall t, In u (c12_go_ty_uses t) -> u = lit "time" \/ u = lit "json").
  { induction t as [n args IH|e IH|n e IH|k v IHk IHv|e IH|x] using c12_go_ty_ind; cbn [c12_go_ty_uses]; auto.
    - rewrite in_app_iff. intros [H|H].
      + unfold c12_go_pkg_of in H. destruct (c12_before c12_ch_dot n); [|destruct H].
        destruct (mem_str s c12_go_vocab) eqn:E; [|destruct H]. destruct H as [<-|[]].
        apply c12_mem_str_In in E. destruct E as [<-|[<-|[]]]; auto.
      + apply in_flat_map in H as (y & Hy & H). rewrite Forall_forall in IH. eauto.
    - rewrite in_app_iff. intros [H|H]; auto.
    - intros []. }
  destruct d as [? ? ? ms|? ? ty|? ty ?|? ? ?|e]; cbn [c12_go_decl_uses] in Hu.
  - apply in_flat_map in Hu as (m & _ & Hu). eauto.
  - eauto.
  - eauto.
  - destruct Hu.
  - destruct Hu as [<-|Hu]; [auto|]. apply in_flat_map in Hu as (v & _ & Hu). destruct (gv_content v); try contradiction. eauto.
Qed.

(* ONE FILE from ANY incoming import set *)
Theorem c12_go_file_from st0 pd ds st :
  go_multi_decls uc cfg st0 pd = Ok (ds, st) -> Forall (c12_go_item_ok c12_rt_ok) (items_of pd) ->
  c12_good (c12_go_uses ds) (c12_go_defs st) = true /\ incl st0 st.
Proof.
  unfold go_multi_decls. intros H Hdom. apply c12_bind_ok in H as (items & Et & H).
  apply c12_topsort_perm in Et.
  assert (Hdom' : Forall (c12_go_item_ok c12_rt_ok) items).
  { apply Forall_forall. intros it Hit. rewrite Forall_forall in Hdom. apply Hdom. eapply Permutation_in; [exact Et|exact Hit]. }
  cbv zeta in H.
  apply mbind_ok in H as (hd & s1 & Eh & H). apply mbind_ok in H as (dss & s2 & Edss & H).
  unfold ret in H. injection H as <- <-.
  assert (Hjson : In (lit "encoding/json") s1 /\ incl st0 s1).
  { unfold go_begin_file in Eh. apply mbind_ok in Eh as (u0 & s3 & Ei & Eh). unfold ret in Eh. injection Eh as _ <-.
    unfold go_add_import in Ei. apply mbind_ok in Ei as (st & s4 & Eg & Ei). unfold mget in Eg. injection Eg as <- <-.
    unfold mput in Ei. injection Ei as _ <-. split; [apply c12_sset_insert_in; now left|].
    intros x Hx. apply c12_sset_insert_in. now right. }
  destruct Hjson as [Hjson Hinc].
  apply (c12_mmapM_mono c12_gle c12_gle_refl c12_gle_trans _ c12_go_Qds) in Edss as [L Q].
  - split; [|eapply incl_tran; [exact Hinc|exact L]].
    apply c12_good_spec. intros u Hu. unfold c12_go_uses in Hu. apply in_flat_map in Hu as (d & Hd & Hu).
    pose proof (c12_go_uses_vocab d u Hu) as Hv.
    apply in_concat in Hd as (l & Hl & Hd). rewrite Forall_forall in Q. specialize (Q l Hl).
    unfold c12_go_Qds in Q. rewrite Forall_forall in Q. specialize (Q d Hd u Hu).
    assert (Hp : In (c12_go_path u) s2).
    { destruct Q as [->|Q]; [apply L; exact Hjson|exact Q]. }
    unfold c12_go_defs. destruct Hv as [-> | ->].
    + apply in_map_iff. exists (lit "time"). split; [reflexivity|exact Hp].
    + apply in_map_iff. exists (lit "encoding/json"). split; [reflexivity|exact Hp].
  - exact c12_go_Qds_up.
  - eapply Forall_impl; [|exact Hdom']. cbn. intros it Hit. apply (c12_go_decl_flag uc cfg c12_rt_ok Hty_uses). exact Hit.
Qed.
End GOM.

(* the two instances of the single-file theorems: configurations without acronyms ... *)
Theorem c12_go_multi_file uc cfg st0 pd uses defs :
  c12_go_observe_multi uc cfg st0 pd = Ok (uses, defs) -> c12_go_dom cfg (items_of pd) = true -> c12_good uses defs = true.
Proof.
  unfold c12_go_observe_multi. intros H Hdom. apply c12_bind_ok in H as ([ds imports] & E & H). injection H as <- <-.
  cbn [fst snd]. unfold c12_go_dom in Hdom. apply andb_true_iff in Hdom as [A B].
  assert (Hno : go_uppercase_acronyms cfg = []) by (destruct (go_uppercase_acronyms cfg); [reflexivity|discriminate A]).
  apply (c12_go_file_from uc cfg (fun _ => True)) with (st0 := st0) (pd := pd); [|exact E|].
  - intros gs t s x s1 _ _ s2 r s3 Er. rewrite (c12_go_acronyms_ty_id uc cfg Hno _ _ _ _ Er). apply incl_refl.
  - apply c12_go_ids_item_ok; [exact B|auto].
Qed.

(* ... and alphanumeric acronyms on ASCII names *)
Theorem c12_go_multi_file_acronyms : forall uc, unicode_ok uc -> forall cfg st0 pd uses defs,
  c12_go_observe_multi uc cfg st0 pd = Ok (uses, defs) -> c12_go_dom_acr cfg (items_of pd) = true -> c12_good uses defs = true.
Proof.
  intros uc Huc cfg st0 pd uses defs H Hdom.
  unfold c12_go_observe_multi in H. apply c12_bind_ok in H as ([ds imports] & E & H). injection H as <- <-.
  cbn [fst snd]. unfold c12_go_dom_acr in Hdom. apply andb_true_iff in Hdom as [Hdom Hvoc].
  apply andb_true_iff in Hdom as [Hdom Hids]. apply andb_true_iff in Hdom as [Hacr Hmap].
  change (forallb (forallb ga_alnum) (go_uppercase_acronyms cfg) = true) in Hacr.
  apply (c12_go_file_from uc cfg (fun t => forallb (forallb is_ascii) (c12_rtype_ids t) = true)) with (st0 := st0) (pd := pd); [|exact E|].
  - intros gs t s x s1 Ht Ex s2 r s3 Er. rewrite <- c12_ga_rtype_ids in Ht.
    pose proof (ga_texp_ascii cfg gs t Hmap Ht s x s1 Ex) as Hx.
    rewrite (ga_acronyms_ty uc Huc cfg Hacr x s2 Hx) in Er. injection Er as <- _. apply c12_uses_map.
  - apply c12_go_ids_item_ok; [exact Hvoc|]. intros it t Hit Ht. rewrite forallb_forall in Hids |- *.
    intros id Hid. apply Hids. apply in_flat_map. exists it. split; [exact Hit|]. unfold c12_item_ids. apply in_flat_map. eauto.
Qed.

(* THE RUN *)
Definition go_multi_gen (uc : unicode) (cfg : go_config) (st : go_state) (_ : str) (_ : scoped) (pd : parsed) :=
  go_generate_multi uc cfg st pd.

(* dom: c12_go_dom, or c12_go_dom_acr on a Unicode table agreeing with ASCII *)
Theorem c12_multi_go uc cfg (dom : list ritem -> bool) st0 plan files fin :
  (forall st pd uses defs, c12_go_observe_multi uc cfg st pd = Ok (uses, defs) -> dom (items_of pd) = true ->
                           c12_good uses defs = true) ->
  generate_crates (go_multi_gen uc cfg) st0 plan = (files, fin) ->
  forall i fname text,
    nth_error files i = Some (fname, Writer.Generated text) ->
    exists p st_i st_i' ds header st1 uses defs,
      nth_error plan i = Some p /\ fname = op_file p /\
      go_generate_multi uc cfg st_i (op_data p) = Ok (text, st_i') /\
      go_multi_decls uc cfg st_i (op_data p) = Ok (ds, st_i') /\
      go_begin_file cfg st_i = Ok (header, st1) /\
      text = header ++ go_write_all_imports st_i' ++ concat (map go_render_decl ds) /\
      c12_go_observe_multi uc cfg st_i (op_data p) = Ok (uses, defs) /\
      (dom (items_of (op_data p)) = true -> c12_good uses defs = true).
Proof.
  intros Hfile H i fname text Hn.
  destruct (cm_crates_file (go_multi_gen uc cfg) (fun _ => True) (fun _ => True) (fun _ _ _ _ _ _ _ => Logic.I)
              plan st0 files fin i fname text Logic.I H Hn) as (p & st_i & st_i' & Hp & Hf & _ & _ & Hg).
  { apply Forall_forall. auto. }
  unfold go_multi_gen in Hg. pose proof Hg as Hg'. apply go_multi_layout in Hg' as (ds & header & st1 & Eds & Eh & Etext).
  exists p, st_i, st_i', ds, header, st1. eexists. eexists.
  split; [exact Hp|]. split; [exact Hf|]. split; [exact Hg|]. split; [exact Eds|]. split; [exact Eh|]. split; [exact Etext|].
  assert (Eo : c12_go_observe_multi uc cfg st_i (op_data p) = Ok (c12_go_uses ds, c12_go_defs st_i')).
  { unfold c12_go_observe_multi. rewrite Eds. reflexivity. }
  split; [exact Eo|]. intros Hd. exact (Hfile _ _ _ _ Eo Hd).
Qed.

Theorem c12_multi_go_noacr uc cfg st0 plan files fin :
  generate_crates (go_multi_gen uc cfg) st0 plan = (files, fin) ->
  forall i fname text,
    nth_error files i = Some (fname, Writer.Generated text) ->
    exists p st_i st_i' ds header st1 uses defs,
      nth_error plan i = Some p /\ fname = op_file p /\
      go_generate_multi uc cfg st_i (op_data p) = Ok (text, st_i') /\
      go_multi_decls uc cfg st_i (op_data p) = Ok (ds, st_i') /\
      go_begin_file cfg st_i = Ok (header, st1) /\
      text = header ++ go_write_all_imports st_i' ++ concat (map go_render_decl ds) /\
      c12_go_observe_multi uc cfg st_i (op_data p) = Ok (uses, defs) /\
      (c12_go_dom cfg (items_of (op_data p)) = true -> c12_good uses defs = true).
Proof. apply (c12_multi_go uc cfg (c12_go_dom cfg)). intros st pd uses defs. apply c12_go_multi_file. Qed.

Theorem c12_multi_go_acr uc (Huc : unicode_ok uc) cfg st0 plan files fin :
  generate_crates (go_multi_gen uc cfg) st0 plan = (files, fin) ->
  forall i fname text,
    nth_error files i = Some (fname, Writer.Generated text) ->
    exists p st_i st_i' ds header st1 uses defs,
      nth_error plan i = Some p /\ fname = op_file p /\
      go_generate_multi uc cfg st_i (op_data p) = Ok (text, st_i') /\
      go_multi_decls uc cfg st_i (op_data p) = Ok (ds, st_i') /\
      go_begin_file cfg st_i = Ok (header, st1) /\
      text = header ++ go_write_all_imports st_i' ++ concat (map go_render_decl ds) /\
      c12_go_observe_multi uc cfg st_i (op_data p) = Ok (uses, defs) /\
      (c12_go_dom_acr cfg (items_of (op_data p)) = true -> c12_good uses defs = true).
Proof. apply (c12_multi_go uc cfg (c12_go_dom_acr cfg)). intros st pd uses defs. apply c12_go_multi_file_acronyms. exact Huc. Qed.
