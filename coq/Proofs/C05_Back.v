(* C05: Kotlin, Scala, Swift, Go, Python back ends, use sites, and the primitive table. *)
From Coq Require Import String List Lia ZArith.
From TS Require Import Model.Str Model.Outcome Model.Unicode Model.Syntax Model.Types Model.Lang.Common Model.Lang.Decl
                       Model.Lang.TypeScript Model.Lang.Kotlin Model.Lang.Scala Model.Lang.Swift Model.Lang.Go Model.Lang.Python
                       Spec.C05Spec Proofs.C05.
Import ListNotations.

Ltac known_args Hk x :=
  let Ek := fresh "Ek" in destruct (c05_known _ _ _ x) eqn:Ek in Hk; [discriminate|].

(* ====================================================================================== *)
(* Kotlin                                                                                  *)
(* ====================================================================================== *)
Section KT.
Variable cfg : kt_config.
Let m := kt_type_mappings cfg.
Definition c05_kt_cfg : c05_cfg := {| c05_m := kt_type_mappings cfg; c05_pre := kt_prefix cfg; c05_nps := false |}.
Notation erase := (c05_erase Kotlin c05_kt_cfg).

Lemma kt_args_ok g ps :
  Forall (fun t => c05_dom t = true -> c05_known Kotlin m g t = None -> kt_texp cfg g t = Ok (erase g t)) ps ->
  forallb c05_dom ps = true ->
  (fix go (l : list rtype) : option c05_class :=
     match l with
     | [] => None
     | x :: r => match c05_known Kotlin m g x with Some k => Some k | None => go r end
     end) ps = None ->
  (fix go (l : list rtype) : outcome (list texp) :=
     match l with
     | [] => Ok []
     | x :: r => do y <- kt_texp cfg g x; do ys <- go r; Ok (y :: ys)
     end) ps = Ok (map (erase g) ps).
Proof.
  induction 1 as [|x r Hx Hr IH]; intros Hd Hk; [reflexivity|].
  cbn [forallb] in Hd. apply andb_true_iff in Hd as [Hd1 Hd2].
  destruct (c05_known Kotlin m g x) eqn:Ek; [discriminate|].
  rewrite (Hx Hd1 eq_refl). cbn [bind]. rewrite (IH Hd2 Hk). reflexivity.
Qed.

Theorem C05_fmt_kt g t :
  c05_dom t = true -> c05_known Kotlin m g t = None -> kt_texp cfg g t = Ok (erase g t).
Proof.
  induction t using rtype_ind'; intros Hd Hk; unfold c05_erase;
    cbn [c05_instances c05_core c05_m c05_kt_cfg]; fold m; cbn [c05_known c05_instances] in Hk; cbn [c05_dom] in Hd.
  - cbn [kt_texp]. unfold kt_format_simple_type, kt_type_name. fold m. rewrite <- c05_lookup_tmap.
    destruct (c05_lookup m id); cbn [c05_render]; [reflexivity|].
    cbn [c05_prefix c05_pre map]. reflexivity.
  - cbn [kt_texp]. fold m. rewrite <- c05_lookup_tmap. fold m in Hk.
    destruct (c05_lookup m id); cbn [c05_render]; [reflexivity|].
    rewrite (kt_args_ok g ps H Hd Hk). cbn [bind]. rewrite map_map. unfold kt_type_name.
    cbn [c05_prefix c05_pre]. reflexivity.
  - cbn [kt_texp]. rewrite (IHt Hd Hk). reflexivity.
  - cbn [kt_texp]. rewrite (IHt Hd Hk). reflexivity.
  - cbn [kt_texp]. rewrite (IHt Hd Hk). reflexivity.
  - apply andb_true_iff in Hd as [Hd1 Hd2].
    assert (Hk1 : c05_known Kotlin m g t1 = None /\ c05_known Kotlin m g t2 = None).
    { destruct t1; cbn [c05_refuses_generic_keys andb] in Hk;
        match type of Hk with match ?a with _ => _ end = None => destruct a eqn:E1; [discriminate|] end; auto. }
    destruct Hk1 as [Hk1 Hk2].
    cbn [kt_texp]. rewrite (IHt1 Hd1 Hk1), (IHt2 Hd2 Hk2). reflexivity.
  - cbn [kt_texp]. rewrite (IHt Hd Hk). reflexivity.
  - destruct (c05_lookup m (c05_prim_name p)); [discriminate|].
    destruct p; try discriminate; reflexivity.
Qed.
End KT.

(* ====================================================================================== *)
(* Scala                                                                                   *)
(* ====================================================================================== *)
Section SC.
Variable cfg : sc_config.
Let m := sc_type_mappings cfg.
Definition c05_sc_cfg : c05_cfg := {| c05_m := sc_type_mappings cfg; c05_pre := []; c05_nps := false |}.
Notation erase := (c05_erase Scala c05_sc_cfg).

Lemma sc_args_ok g ps :
  Forall (fun t => c05_dom t = true -> c05_known Scala m g t = None -> sc_texp cfg g t = Ok (erase g t)) ps ->
  forallb c05_dom ps = true ->
  (fix go (l : list rtype) : option c05_class :=
     match l with
     | [] => None
     | x :: r => match c05_known Scala m g x with Some k => Some k | None => go r end
     end) ps = None ->
  (fix go (l : list rtype) : outcome (list texp) :=
     match l with
     | [] => Ok []
     | x :: r => do y <- sc_texp cfg g x; do ys <- go r; Ok (y :: ys)
     end) ps = Ok (map (erase g) ps).
Proof.
  induction 1 as [|x r Hx Hr IH]; intros Hd Hk; [reflexivity|].
  cbn [forallb] in Hd. apply andb_true_iff in Hd as [Hd1 Hd2].
  destruct (c05_known Scala m g x) eqn:Ek; [discriminate|].
  rewrite (Hx Hd1 eq_refl). cbn [bind]. rewrite (IH Hd2 Hk). reflexivity.
Qed.

Theorem C05_fmt_sc g t :
  c05_dom t = true -> c05_known Scala m g t = None -> sc_texp cfg g t = Ok (erase g t).
Proof.
  induction t using rtype_ind'; intros Hd Hk; unfold c05_erase;
    cbn [c05_instances c05_core c05_m c05_sc_cfg]; fold m; cbn [c05_known c05_instances] in Hk; cbn [c05_dom] in Hd.
  - cbn [sc_texp]. fold m. rewrite <- c05_lookup_tmap.
    destruct (c05_lookup m id); cbn [c05_render]; [reflexivity|].
    cbn [c05_prefix app map]. destruct (mem_str id g); reflexivity.
  - cbn [sc_texp]. fold m. rewrite <- c05_lookup_tmap. fold m in Hk.
    destruct (c05_lookup m id); cbn [c05_render]; [reflexivity|].
    rewrite (sc_args_ok g ps H Hd Hk). cbn [bind]. rewrite map_map.
    cbn [c05_prefix app]. destruct (mem_str id g); reflexivity.
  - cbn [sc_texp]. rewrite (IHt Hd Hk). reflexivity.
  - cbn [sc_texp]. rewrite (IHt Hd Hk). reflexivity.
  - cbn [sc_texp]. rewrite (IHt Hd Hk). reflexivity.
  - apply andb_true_iff in Hd as [Hd1 Hd2].
    assert (Hk1 : c05_known Scala m g t1 = None /\ c05_known Scala m g t2 = None).
    { destruct t1; cbn [c05_refuses_generic_keys andb] in Hk;
        match type of Hk with match ?a with _ => _ end = None => destruct a eqn:E1; [discriminate|] end; auto. }
    destruct Hk1 as [Hk1 Hk2].
    cbn [sc_texp]. rewrite (IHt1 Hd1 Hk1), (IHt2 Hd2 Hk2). reflexivity.
  - cbn [sc_texp]. rewrite (IHt Hd Hk). reflexivity.
  - destruct (c05_lookup m (c05_prim_name p)); [discriminate|].
    destruct p; try discriminate; reflexivity.
Qed.
End SC.

(* ====================================================================================== *)
(* Swift                                                                                   *)
(* ====================================================================================== *)
Section SW.
Variable cfg : sw_config.
Let m := sw_type_mappings cfg.
Definition c05_sw_cfg : c05_cfg := {| c05_m := sw_type_mappings cfg; c05_pre := sw_prefix cfg; c05_nps := false |}.
Notation erase := (c05_erase Swift c05_sw_cfg).

Lemma sw_args_ok g ps :
  Forall (fun t => c05_dom t = true -> c05_known Swift m g t = None -> runs_to (sw_texp cfg g t) (erase g t)) ps ->
  forallb c05_dom ps = true ->
  (fix go (l : list rtype) : option c05_class :=
     match l with
     | [] => None
     | x :: r => match c05_known Swift m g x with Some k => Some k | None => go r end
     end) ps = None ->
  runs_to ((fix go (l : list rtype) : M sw_state (list texp) :=
              match l with
              | [] => ret []
              | x :: r => mdo y <- sw_texp cfg g x; mdo ys <- go r; ret (y :: ys)
              end) ps) (map (erase g) ps).
Proof.
  induction 1 as [|x r Hx Hr IH]; intros Hd Hk.
  - apply runs_ret.
  - cbn [forallb] in Hd. apply andb_true_iff in Hd as [Hd1 Hd2].
    destruct (c05_known Swift m g x) eqn:Ek; [discriminate|].
    eapply runs_bind; [exact (Hx Hd1 eq_refl)|].
    eapply runs_bind; [exact (IH Hd2 Hk)|]. apply runs_ret.
Qed.

Theorem C05_fmt_sw g t :
  c05_dom t = true -> c05_known Swift m g t = None -> runs_to (sw_texp cfg g t) (erase g t).
Proof.
  induction t using rtype_ind'; intros Hd Hk; unfold c05_erase;
    cbn [c05_instances c05_core c05_m c05_sw_cfg]; fold m; cbn [c05_known c05_instances] in Hk; cbn [c05_dom] in Hd.
  - cbn [sw_texp]. unfold sw_simple_texp. fold m. rewrite <- c05_lookup_tmap.
    destruct (c05_lookup m id); cbn [c05_render]; [apply runs_ret|].
    cbn [c05_prefix c05_pre map]. apply runs_ret.
  - cbn [sw_texp]. fold m. rewrite <- c05_lookup_tmap. fold m in Hk.
    destruct (c05_lookup m id) eqn:El; cbn [c05_render]; [apply runs_ret|].
    eapply runs_bind; [exact (sw_args_ok g ps H Hd Hk)|].
    unfold sw_simple_texp. fold m. rewrite <- c05_lookup_tmap, El. rewrite map_map.
    cbn [c05_prefix c05_pre]. apply runs_ret.
  - cbn [sw_texp]. eapply runs_bind; [exact (IHt Hd Hk)|]. apply runs_ret.
  - cbn [sw_texp]. eapply runs_bind; [exact (IHt Hd Hk)|]. apply runs_ret.
  - cbn [sw_texp]. eapply runs_bind; [exact (IHt Hd Hk)|]. apply runs_ret.
  - apply andb_true_iff in Hd as [Hd1 Hd2].
    assert (Hk1 : c05_known Swift m g t1 = None /\ c05_known Swift m g t2 = None).
    { destruct t1; cbn [c05_refuses_generic_keys andb] in Hk;
        match type of Hk with match ?a with _ => _ end = None => destruct a eqn:E1; [discriminate|] end; auto. }
    destruct Hk1 as [Hk1 Hk2].
    cbn [sw_texp]. eapply runs_bind; [exact (IHt1 Hd1 Hk1)|].
    eapply runs_bind; [exact (IHt2 Hd2 Hk2)|]. apply runs_ret.
  - cbn [sw_texp]. eapply runs_bind; [exact (IHt Hd Hk)|]. apply runs_ret.
  - destruct (c05_lookup m (c05_prim_name p)); [discriminate|].
    destruct p; try discriminate; cbn [sw_texp c05_render c05_prim_target]; try apply runs_ret.
    intros st. unfold mbind, mput, ret. eauto.
Qed.
End SW.

(* ====================================================================================== *)
(* Go: the decided tree is Go's own [go_ty]; the observation [go_obs_ty] (lengths of fixed      *)
(* arrays dropped) is what the spec speaks about                                              *)
(* ====================================================================================== *)
Definition runs_sat {St A} (mm : M St A) (P : A -> Prop) : Prop := forall st, exists a st', mm st = Ok (a, st') /\ P a.

Lemma sat_ret {St A} (a : A) (P : A -> Prop) : P a -> @runs_sat St A (ret a) P.
Proof. intros H st. exists a, st. auto. Qed.

Lemma sat_bind {St A B} (mm : M St A) (f : A -> M St B) (P : A -> Prop) (Q : B -> Prop) :
  runs_sat mm P -> (forall a, P a -> runs_sat (f a) Q) -> runs_sat (mbind mm f) Q.
Proof.
  intros Hm Hf st. destruct (Hm st) as [a [s1 [E1 Pa]]]. destruct (Hf a Pa s1) as [b [s2 [E2 Qb]]].
  exists b, s2. unfold mbind. rewrite E1. auto.
Qed.

Section GO.
Variable cfg : go_config.
Let m := go_type_mappings cfg.
Definition c05_go_cfg : c05_cfg := {| c05_m := go_type_mappings cfg; c05_pre := []; c05_nps := go_no_pointer_slice cfg |}.
Notation erase := (c05_erase Go c05_go_cfg).

Definition go_fmt_ok g t := runs_sat (go_texp cfg g t) (fun x => go_obs_ty x = erase g t).

Lemma go_args_ok g ps :
  Forall (fun t => c05_dom t = true -> c05_known Go m g t = None -> go_fmt_ok g t) ps ->
  forallb c05_dom ps = true ->
  (fix go (l : list rtype) : option c05_class :=
     match l with
     | [] => None
     | x :: r => match c05_known Go m g x with Some k => Some k | None => go r end
     end) ps = None ->
  runs_sat ((fix go (l : list rtype) : M go_state (list go_ty) :=
               match l with
               | [] => ret []
               | x :: r => mdo y <- go_texp cfg g x; mdo ys <- go r; ret (y :: ys)
               end) ps) (fun xs => map go_obs_ty xs = map (erase g) ps).
Proof.
  induction 1 as [|x r Hx Hr IH]; intros Hd Hk.
  - now apply sat_ret.
  - cbn [forallb] in Hd. apply andb_true_iff in Hd as [Hd1 Hd2].
    destruct (c05_known Go m g x) eqn:Ek; [discriminate|].
    eapply sat_bind; [exact (Hx Hd1 eq_refl)|]. intros y Hy.
    eapply sat_bind; [exact (IH Hd2 Hk)|]. intros ys Hys.
    apply sat_ret. cbn [map]. congruence.
Qed.

Lemma go_special t (k : M go_state go_ty) (kn : option c05_class) body :
  (if negb (c05_opt_eqb (c05_lookup m (c05_rust_name t)) (c05_lookup m (c05_tool_key t)))
   then Some C05K_mapping_key_display
   else match c05_lookup m (c05_rust_name t) with Some _ => None | None => kn end) = None ->
  (kn = None -> runs_sat k (fun x => go_obs_ty x = c05_render Go c05_go_cfg body)) ->
  runs_sat (match tmap_get m (rtype_display t) with
            | Some mapped => ret (GRaw mapped)
            | None => k
            end)
           (fun x => go_obs_ty x = c05_render Go c05_go_cfg
                        (match c05_lookup m (c05_rust_name t) with Some n => CMapped n | None => body end)).
Proof.
  intros Hk Hb.
  destruct (c05_opt_eqb _ _) eqn:Eeq; cbn [negb] in Hk; [|discriminate].
  apply opt_eqb_eq in Eeq. rewrite c05_tool_key_display in Eeq.
  rewrite (c05_lookup_tmap m (c05_rust_name t)) in *. rewrite (c05_lookup_tmap m (rtype_display t)) in Eeq.
  rewrite <- Eeq.
  destruct (tmap_get m (c05_rust_name t)) as [n|].
  - now apply sat_ret.
  - auto.
Qed.

Theorem C05_fmt_go g t :
  c05_dom t = true -> c05_known Go m g t = None -> go_fmt_ok g t.
Proof.
  induction t using rtype_ind'; intros Hd Hk; unfold go_fmt_ok, c05_erase;
    cbn [c05_instances c05_core c05_m c05_go_cfg]; fold m; cbn [c05_known c05_instances] in Hk; cbn [c05_dom] in Hd.
  - cbn [go_texp]. fold m. rewrite <- c05_lookup_tmap.
    destruct (c05_lookup m id); cbn [c05_render]; apply sat_ret; [reflexivity|].
    cbn [c05_prefix app map go_obs_ty]. destruct (mem_str id g); reflexivity.
  - cbn [go_texp]. fold m. rewrite <- c05_lookup_tmap. fold m in Hk.
    destruct (c05_lookup m id); cbn [c05_render]; [now apply sat_ret|].
    eapply sat_bind; [exact (go_args_ok g ps H Hd Hk)|]. intros xs Hxs.
    apply sat_ret. cbn [go_obs_ty]. rewrite Hxs, map_map. cbn [c05_prefix app]. destruct (mem_str id g); reflexivity.
  - cbn [go_texp]. fold m. apply (go_special (RVec t) _ _ (CSeq _) Hk). intros Hk'.
    eapply sat_bind; [exact (IHt Hd Hk')|]. intros e He. apply sat_ret. cbn [go_obs_ty c05_render]. now rewrite He.
  - cbn [go_texp]. fold m. apply (go_special (RArray t n) _ _ (CArr n _) Hk). intros Hk'.
    eapply sat_bind; [exact (IHt Hd Hk')|]. intros e He. apply sat_ret. cbn [go_obs_ty c05_render]. now rewrite He.
  - cbn [go_texp]. fold m. apply (go_special (RSlice t) _ _ (CSeq _) Hk). intros Hk'.
    eapply sat_bind; [exact (IHt Hd Hk')|]. intros e He. apply sat_ret. cbn [go_obs_ty c05_render]. now rewrite He.
  - apply andb_true_iff in Hd as [Hd1 Hd2].
    cbn [go_texp]. fold m. apply (go_special (RHashMap t1 t2) _ _ (CMap _ _) Hk). intros Hk'.
    assert (Hk1 : c05_known Go m g t1 = None /\ c05_known Go m g t2 = None).
    { destruct t1; cbn [c05_refuses_generic_keys andb] in Hk';
        match type of Hk' with match ?a with _ => _ end = None => destruct a eqn:E1; [discriminate|] end; auto. }
    destruct Hk1 as [Hk1 Hk2].
    eapply sat_bind; [exact (IHt1 Hd1 Hk1)|]. intros ke Hke.
    eapply sat_bind; [exact (IHt2 Hd2 Hk2)|]. intros ve Hve.
    apply sat_ret. cbn [go_obs_ty c05_render]. now rewrite Hke, Hve.
  - cbn [go_texp]. fold m. apply (go_special (ROption t) _ _ (COpt _ _) Hk). intros Hk'.
    eapply sat_bind; [exact (IHt Hd Hk')|]. intros e He. apply sat_ret.
    cbn [c05_render c05_nps c05_go_cfg]. unfold c05_is_vec, is_vec.
    destruct (match t with RVec _ => true | _ => false end && go_no_pointer_slice cfg); cbn [go_obs_ty]; now rewrite He.
  - cbn [go_texp]. fold m. rewrite <- c05_tool_key_display. cbn [c05_tool_key].
    rewrite <- c05_lookup_tmap.
    destruct (c05_lookup m (c05_prim_name p)) as [n|]; cbn [c05_render]; [now apply sat_ret|].
    destruct p; try discriminate; now apply sat_ret.
Qed.

(* the length of a fixed array is kept in Go's own tree ([n]T) *)
Theorem C05_go_array_length g t n st x st' :
  tmap_get m (rtype_display (RArray t n)) = None ->
  go_texp cfg g (RArray t n) st = Ok (x, st') -> exists e, x = GArray n e.
Proof.
  intros Hm H. cbn [go_texp] in H. fold m in H. rewrite Hm in H.
  unfold mbind in H. destruct (go_texp cfg g t st) as [[e s1]| |]; try discriminate.
  unfold ret in H. injection H as <- _. eauto.
Qed.
End GO.

(* ====================================================================================== *)
(* Python                                                                                  *)
(* ====================================================================================== *)
Section PY.
Variable cfg : py_config.
Let m := py_type_mappings cfg.
Definition c05_py_cfg : c05_cfg := {| c05_m := py_type_mappings cfg; c05_pre := []; c05_nps := false |}.
Notation erase := (c05_erase Python c05_py_cfg).

Definition total {St A} (mm : M St A) : Prop := forall st, exists a st', mm st = Ok (a, st').

Lemma py_add_import_total a b : total (py_add_import a b).
Proof. intros st. unfold py_add_import, mbind, mget, mput. eauto. Qed.
Lemma py_add_imports_total id : total (py_add_imports id).
Proof.
  unfold py_add_imports. destruct (str_eqb id (lit "Url")); [apply py_add_import_total|].
  destruct (str_eqb id (lit "DateTime")); [apply py_add_import_total|]. intros st. unfold ret. eauto.
Qed.
Lemma py_add_custom_type_total x : total (py_add_custom_type x).
Proof. intros st. unfold py_add_custom_type, mbind, mget, mput. eauto. Qed.

Definition py_fmt_ok g t := runs_to (py_texp cfg g t) (erase g t).

Lemma py_args_ok g ps :
  Forall (fun t => c05_dom t = true -> c05_known Python m g t = None -> py_fmt_ok g t) ps ->
  forallb c05_dom ps = true ->
  (fix go (l : list rtype) : option c05_class :=
     match l with
     | [] => None
     | x :: r => match c05_known Python m g x with Some k => Some k | None => go r end
     end) ps = None ->
  runs_to ((fix go (l : list rtype) : M py_state (list texp) :=
              match l with
              | [] => ret []
              | x :: r => mdo y <- py_texp cfg g x; mdo ys <- go r; ret (y :: ys)
              end) ps) (map (erase g) ps).
Proof.
  induction 1 as [|x r Hx Hr IH]; intros Hd Hk.
  - apply runs_ret.
  - cbn [forallb] in Hd. apply andb_true_iff in Hd as [Hd1 Hd2].
    destruct (c05_known Python m g x) eqn:Ek; [discriminate|].
    eapply runs_bind; [exact (Hx Hd1 eq_refl)|].
    eapply runs_bind; [exact (IH Hd2 Hk)|]. apply runs_ret.
Qed.

Lemma py_special t (k : M py_state texp) (kn : option c05_class) body :
  (if negb (c05_opt_eqb (c05_lookup m (c05_rust_name t)) (c05_lookup m (c05_tool_key t)))
   then Some C05K_mapping_key_display
   else match c05_lookup m (c05_rust_name t) with Some _ => None | None => kn end) = None ->
  (kn = None -> runs_to k (c05_render Python c05_py_cfg body)) ->
  runs_to (match tmap_get m (rtype_display t) with
           | Some mapped =>
             mdo _ <- (if py_is_some (py_json_translation_for_type mapped) then py_add_custom_type mapped else ret tt);
             ret (XRaw mapped)
           | None => k
           end)
          (c05_render Python c05_py_cfg
             (match c05_lookup m (c05_rust_name t) with Some n => CMapped n | None => body end)).
Proof.
  intros Hk Hb.
  destruct (c05_opt_eqb _ _) eqn:Eeq; cbn [negb] in Hk; [|discriminate].
  apply opt_eqb_eq in Eeq. rewrite c05_tool_key_display in Eeq.
  rewrite (c05_lookup_tmap m (c05_rust_name t)) in *. rewrite (c05_lookup_tmap m (rtype_display t)) in Eeq.
  rewrite <- Eeq.
  destruct (tmap_get m (c05_rust_name t)) as [n|].
  - apply runs_bind_unit; [|apply runs_ret].
    destruct (py_is_some _); [apply py_add_custom_type_total|]. intros st. unfold ret. eauto.
  - auto.
Qed.

Theorem C05_fmt_py g t :
  c05_dom t = true -> c05_known Python m g t = None -> py_fmt_ok g t.
Proof.
  induction t using rtype_ind'; intros Hd Hk; unfold py_fmt_ok, c05_erase;
    cbn [c05_instances c05_core c05_m c05_py_cfg]; fold m; cbn [c05_known c05_instances] in Hk; cbn [c05_dom] in Hd.
  - cbn [py_texp]. fold m. rewrite <- c05_lookup_tmap.
    apply runs_bind_unit; [apply py_add_imports_total|].
    destruct (c05_lookup m id); cbn [c05_render]; [apply runs_ret|].
    cbn [c05_prefix app map]. destruct (mem_str id g); apply runs_ret.
  - cbn [py_texp]. fold m. rewrite <- c05_lookup_tmap. fold m in Hk.
    apply runs_bind_unit; [apply py_add_imports_total|].
    destruct (c05_lookup m id); cbn [c05_render]; [apply runs_ret|].
    eapply runs_bind; [exact (py_args_ok g ps H Hd Hk)|].
    rewrite map_map. cbn [c05_prefix app]. destruct (mem_str id g); apply runs_ret.
  - cbn [py_texp]. fold m. apply (py_special (RVec t) _ _ (CSeq _) Hk). intros Hk'.
    apply runs_bind_unit; [apply py_add_import_total|].
    eapply runs_bind; [exact (IHt Hd Hk')|]. apply runs_ret.
  - cbn [py_texp]. fold m. apply (py_special (RArray t n) _ _ (CArr n _) Hk). intros Hk'.
    apply runs_bind_unit; [apply py_add_import_total|].
    eapply runs_bind; [exact (IHt Hd Hk')|]. apply runs_ret.
  - cbn [py_texp]. fold m. apply (py_special (RSlice t) _ _ (CSeq _) Hk). intros Hk'.
    apply runs_bind_unit; [apply py_add_import_total|].
    eapply runs_bind; [exact (IHt Hd Hk')|]. apply runs_ret.
  - apply andb_true_iff in Hd as [Hd1 Hd2].
    cbn [py_texp]. fold m. apply (py_special (RHashMap t1 t2) _ _ (CMap _ _) Hk). intros Hk'.
    assert (Hkv : c05_known Python m g t1 = None /\ c05_known Python m g t2 = None /\
                  match t1 with RSimple id => mem_str id g = false | _ => True end).
    { destruct t1;
        try (match type of Hk' with match ?a with _ => _ end = None => destruct a eqn:E1; [discriminate|] end; auto). }
    destruct Hkv as [Hk1 [Hk2 Hg]].
    apply runs_bind_unit; [apply py_add_import_total|].
    eapply runs_bind with (a := erase g t1).
    { destruct t1; try exact (IHt1 Hd1 Hk1). rewrite Hg. exact (IHt1 Hd1 Hk1). }
    eapply runs_bind; [exact (IHt2 Hd2 Hk2)|]. apply runs_ret.
  - cbn [py_texp]. fold m. apply (py_special (ROption t) _ _ (COpt _ _) Hk). intros Hk'.
    apply runs_bind_unit; [apply py_add_import_total|].
    eapply runs_bind; [exact (IHt Hd Hk')|]. apply runs_ret.
  - cbn [py_texp]. fold m. rewrite <- c05_tool_key_display. cbn [c05_tool_key].
    rewrite <- c05_lookup_tmap.
    destruct (c05_lookup m (c05_prim_name p)) as [n|]; cbn [c05_render].
    + apply runs_bind_unit; [|apply runs_ret].
      destruct (py_is_some _); [apply py_add_custom_type_total|]. intros st. unfold ret. eauto.
    + destruct p; try discriminate; apply runs_ret.
Qed.
End PY.

(* ====================================================================================== *)
(* The primitive table                                                                     *)
(* ====================================================================================== *)
Definition c05_ts0 : ts_config := {| ts_type_mappings := []; ts_no_version_header := true; ts_version := [] |}.
Definition c05_kt0 : kt_config := {| kt_package := []; kt_module_name := []; kt_prefix := []; kt_type_mappings := [];
                                     kt_no_version_header := true; kt_version := [] |}.
Definition c05_sc0 : sc_config := {| sc_package := []; sc_module_name := []; sc_type_mappings := [];
                                     sc_no_version_header := true; sc_version := [] |}.
Definition c05_go0 : go_config := {| go_package := []; go_type_mappings := []; go_uppercase_acronyms := [];
                                     go_no_version_header := true; go_no_pointer_slice := false; go_version := [] |}.
Definition c05_py0 : py_config := {| py_type_mappings := []; py_no_version_header := true; py_version := [] |}.

(* the name each model back end prints for a primitive under an empty configuration *)
Definition c05_model_prim_name (swcfg : sw_config) (L : lang) (p : prim) : option str :=
  let name (x : texp) := match x with XName n [] => Some n | _ => None end in
  match L with
  | TypeScript => match ts_texp c05_ts0 [] (RPrim p) [] with Ok (x, _) => name x | _ => None end
  | Kotlin => match kt_texp c05_kt0 [] (RPrim p) with Ok x => name x | _ => None end
  | Scala => match sc_texp c05_sc0 [] (RPrim p) with Ok x => name x | _ => None end
  | Swift => match sw_texp swcfg [] (RPrim p) false with Ok (x, _) => name x | _ => None end
  | Go => match go_texp c05_go0 [] (RPrim p) [] with Ok (x, _) => name (go_obs_ty x) | _ => None end
  | Python => match py_texp c05_py0 [] (RPrim p) py_empty_state with Ok (x, _) => name x | _ => None end
  end.

Lemma c05_model_prim_is_table swcfg L p : c05_leaf_ok p = true ->
  c05_model_prim_name swcfg L p = Some (c05_prim_target L p).
Proof. destruct L, p; intros H; try discriminate H; reflexivity. Qed.

(* every primitive of the quantifier maps to a target type of the same JSON category that holds
   every value of the Rust type - outside the three recorded classes *)
Theorem C05_prims swcfg L p name : c05_leaf_ok p = true -> known_C05_prim L p = None ->
  c05_model_prim_name swcfg L p = Some name -> good_C05_prim L p name = true.
Proof.
  intros Hl Hk Hn. rewrite (c05_model_prim_is_table swcfg L p Hl) in Hn. injection Hn as <-.
  destruct L, p; try discriminate Hl; try discriminate Hk; vm_compute; reflexivity.
Qed.

Theorem C05_scala_unsigned_refuted :
  forall p, In p [PU8; PU16; PU32; PU53] ->
  known_C05_prim Scala p = Some C05K_scala_unsigned /\ good_C05_prim Scala p (c05_prim_target Scala p) = false.
Proof. intros p [<-|[<-|[<-|[<-|[]]]]]; vm_compute; split; reflexivity. Qed.
Theorem C05_go_char_refuted :
  known_C05_prim Go PChar = Some C05K_go_char /\ good_C05_prim Go PChar (c05_prim_target Go PChar) = false.
Proof. vm_compute. split; reflexivity. Qed.
Theorem C05_swift_char_refuted :
  known_C05_prim Swift PChar = Some C05K_swift_char /\ good_C05_prim Swift PChar (c05_prim_target Swift PChar) = false.
Proof. vm_compute. split; reflexivity. Qed.

Example C05_prims_nonvacuous :
  List.length (filter (fun Lp => match known_C05_prim (fst Lp) (snd Lp) with None => true | Some _ => false end)
                 (list_prod all_langs c05_all_prims)) = 78%nat.
Proof. vm_compute. reflexivity. Qed.

(* ====================================================================================== *)
(* The finding classes are inhabited: on each witness the faithful model fails the spec     *)
(* ====================================================================================== *)
Definition c05_obs_st {St} (o : outcome (texp * St)) : option texp := match o with Ok (x, _) => Some x | _ => None end.
Definition c05_obs (o : outcome texp) : option texp := match o with Ok x => Some x | _ => None end.

Definition c05_ts_with (m : tmap) : ts_config := {| ts_type_mappings := m; ts_no_version_header := true; ts_version := [] |}.
Definition c05_kt_with (pre : str) (m : tmap) : kt_config :=
  {| kt_package := []; kt_module_name := []; kt_prefix := pre; kt_type_mappings := m; kt_no_version_header := true; kt_version := [] |}.
Definition c05_py_with (m : tmap) : py_config := {| py_type_mappings := m; py_no_version_header := true; py_version := [] |}.

(* HashMap<T, String> with T a generic parameter: TypeScript and Python answer with an error *)
Theorem C05_generic_map_key_refuted :
  let g := [lit "T"] in let t := RHashMap (RSimple (lit "T")) (RPrim PString) in
  dom_C05 t = true /\
  known_C05 TypeScript (c05_ts_cfg (c05_ts_with [])) g t = Some C05K_generic_map_key /\
  good_C05 TypeScript (c05_ts_cfg (c05_ts_with [])) g t (c05_obs_st (ts_texp (c05_ts_with []) g t [])) = false /\
  known_C05 Python (c05_py_cfg (c05_py_with [])) g t = Some C05K_generic_map_key /\
  good_C05 Python (c05_py_cfg (c05_py_with [])) g t (c05_obs_st (py_texp (c05_py_with []) g t py_empty_state)) = false.
Proof. vm_compute. repeat split; reflexivity. Qed.

(* type_mappings u32 = "Foo": Kotlin (likewise Swift, Scala) still prints UInt *)
Theorem C05_special_mapping_ignored_refuted :
  let m := [(lit "u32", lit "Foo")] in let t := RVec (RPrim PU32) in
  dom_C05 t = true /\
  known_C05 Kotlin (c05_kt_cfg (c05_kt_with [] m)) [] t = Some C05K_special_mapping_ignored /\
  kt_texp (c05_kt_with [] m) [] t = Ok (XName (lit "List") [XName (lit "UInt") []]) /\
  good_C05 Kotlin (c05_kt_cfg (c05_kt_with [] m)) [] t (c05_obs (kt_texp (c05_kt_with [] m) [] t)) = false.
Proof. vm_compute. repeat split; reflexivity. Qed.

(* container instances are keyed by a lossy Display: the Rust spelling "HashMap<String, u32>" is never
   found, and the key "Option<Vec>" replaces Option<Vec<String>> although no such type was mapped *)
Theorem C05_mapping_key_display_refuted :
  let m1 := [(lit "HashMap<String, u32>", lit "Foo")] in let t1 := RHashMap (RPrim PString) (RPrim PU32) in
  let m2 := [(lit "Option<Vec>", lit "Foo")] in let t2 := ROption (RVec (RPrim PString)) in
  known_C05 TypeScript (c05_ts_cfg (c05_ts_with m1)) [] t1 = Some C05K_mapping_key_display /\
  good_C05 TypeScript (c05_ts_cfg (c05_ts_with m1)) [] t1 (c05_obs_st (ts_texp (c05_ts_with m1) [] t1 [])) = false /\
  known_C05 TypeScript (c05_ts_cfg (c05_ts_with m2)) [] t2 = Some C05K_mapping_key_display /\
  ts_texp (c05_ts_with m2) [] t2 [] = Ok (XRaw (lit "Foo"), []) /\
  good_C05 TypeScript (c05_ts_cfg (c05_ts_with m2)) [] t2 (c05_obs_st (ts_texp (c05_ts_with m2) [] t2 [])) = false.
Proof. vm_compute. repeat split; reflexivity. Qed.
