(* The per-item and per-file decision theorems of C02, C03 (and the item-level ones of C04, C05) in folder mode:
   corollaries of Proofs/MultiSameDecls.v (<l>_multi_decls_items: every declaration of a folder-mode file is what the
   item writer returns on the corresponding item of the sorted crate from every state; <l>_multi_file_decls: the
   single-file observation has the same declaration list).  No hypothesis about the incoming state anywhere. *)
From Coq Require Import List Bool String Permutation.
From TS Require Import Model.Str Model.Outcome Model.Unicode Model.Types Model.Parse Model.TopsortAlgo Model.Topsort
                       Model.Lang.Common Model.Lang.Decl Model.Lang.TypeScript Model.Lang.Kotlin Model.Lang.Swift
                       Model.Lang.Scala Model.Lang.Go Model.Lang.Python Model.MultiFile.
From TS Require Import Spec.C02Spec Spec.C03Spec.
From TS Require Import Proofs.BackCommon Proofs.FrontItems Proofs.C12Common Proofs.C12Multi Proofs.C12MultiTS Proofs.C12MultiSwift
                       Proofs.C12MultiGo Proofs.C12MultiStateless Proofs.MultiSameDecls Proofs.MultiSameProps.
From TS Require Proofs.C02_TS Proofs.C02_KtSc Proofs.C02_Swift Proofs.C02_Go Proofs.C02_Py.
From TS Require Proofs.C03_TS Proofs.C03_Kotlin Proofs.C03_Swift Proofs.C03_Scala Proofs.C03_Go Proofs.C03_Python.
Import ListNotations.
Local Open Scope list_scope.

Lemma Forall2_impl {A B} (R S : A -> B -> Prop) l r : (forall x y, R x y -> S x y) -> Forall2 R l r -> Forall2 S l r.
Proof. intros H. induction 1; constructor; auto. Qed.

(* a per-item fact proved for the item writer from an arbitrary state holds for every (item, declaration) pair of a
   folder-mode file *)
Lemma items_lift {St A D} (f : A -> M St D) (P : A -> D -> Prop) (s0 : St) :
  (forall it s d s', f it s = Ok (d, s') -> P it d) ->
  forall items ds, Forall2 (writes_from_any f) items ds -> Forall2 P items ds.
Proof.
  intros HP items ds H. eapply Forall2_impl; [|exact H]. intros it d W. destruct (W s0) as (s' & E). exact (HP _ _ _ _ E).
Qed.

(* Kotlin: the declarations of a file, item by item *)
Lemma kt_decls_items uc cfg pd ds :
  kt_decls uc cfg pd = Ok ds ->
  exists items dss, topsort (items_of pd) = Ok items /\ ds = List.concat dss /\
                    Forall2 (fun it d => kt_decl_of cfg it = Ok d) items dss.
Proof.
  unfold kt_decls. intros H. apply c12_bind_ok in H as (items & Et & H). apply c12_bind_ok in H as (dss & Em & H).
  injection H as <-. exists items, dss. split; [exact Et|]. split; [reflexivity|]. exact (mapM_Forall2 _ _ _ Em).
Qed.

(* ================================================================== C02: enum wire encoding *)
Theorem c02_multi_back_ts uc cfg st pd ds st' :
  ts_multi_decls uc cfg st pd = Ok (ds, st') ->
  exists items, topsort (items_of pd) = Ok items /\
    Forall2 (fun it d => forall e, it = ItEnum e -> dom_C02_back (c02_expect_ir e) = true ->
                                   good_C02 TypeScript (c02_expect_ir e) [ts_obs d] = true) items ds.
Proof.
  intros H. destruct (ts_multi_decls_items _ _ _ _ _ _ H) as (items & Et & W). exists items. split; [exact Et|].
  eapply (items_lift _ _ ([] : ts_state)); [|exact W]. intros it s d s' E e -> Hd.
  exact (Proofs.C02_TS.C02_back_ts uc cfg e s d s' E Hd).
Qed.

Theorem c02_multi_back_sw uc cfg acr st pd ds st' :
  sw_multi_decls uc cfg st pd = Ok (ds, st') ->
  exists items, topsort (items_of pd) = Ok items /\
    Forall2 (fun it d => forall e, it = ItEnum e -> dom_C02_back (c02_expect_ir e) = true ->
                                   known_C02_back Swift acr (c02_expect_ir e) = None ->
                                   good_C02 Swift (c02_expect_ir e) (sw_obs d) = true) items ds.
Proof.
  intros H. destruct (sw_multi_decls_items _ _ _ _ _ _ H) as (items & Et & W). exists items. split; [exact Et|].
  eapply (items_lift _ _ (false : sw_state)); [|exact W]. intros it s d s' E e -> Hd Hk.
  exact (Proofs.C02_Swift.C02_back_sw uc cfg acr e s d s' E Hd Hk).
Qed.

Theorem c02_multi_back_py uc (Huc : unicode_ok uc) cfg acr st pd ds st' :
  py_multi_decls uc cfg st pd = Ok (ds, st') ->
  exists items dss, topsort (items_of pd) = Ok items /\ ds = List.concat dss /\
    Forall2 (fun it d => forall e, it = ItEnum e -> dom_C02_back (c02_expect_ir e) = true ->
                                   known_C02_back Python acr (c02_expect_ir e) = None ->
                                   good_C02 Python (c02_expect_ir e) (flat_map py_obs d) = true) items dss.
Proof.
  intros H. destruct (py_multi_decls_items _ _ _ _ _ _ H) as (items & dss & Et & Ec & W). exists items, dss.
  split; [exact Et|]. split; [exact Ec|].
  eapply (items_lift _ _ py_empty_state); [|exact W]. intros it s d s' E e -> Hd Hk.
  exact (Proofs.C02_Py.C02_back_py uc Huc cfg acr e s d s' E Hd Hk).
Qed.

Theorem c02_multi_back_go uc (Huc : unicode_ok uc) cfg st pd ds st' :
  forallb (forallb is_ascii) (go_uppercase_acronyms cfg) = true ->
  go_multi_decls uc cfg st pd = Ok (ds, st') ->
  exists items dss, topsort (items_of pd) = Ok items /\ ds = List.concat dss /\
    Forall2 (fun it d => forall e, it = ItEnum e -> dom_C02_back (c02_expect_ir e) = true ->
               known_C02_back Go (match go_uppercase_acronyms cfg with [] => false | _ => true end) (c02_expect_ir e) = None ->
               good_C02 Go (c02_expect_ir e) (flat_map go_obs d) = true) items dss.
Proof.
  intros Ha H. destruct (go_multi_decls_items _ _ _ _ _ _ H) as (items & dss & Et & Ec & W). exists items, dss.
  split; [exact Et|]. split; [exact Ec|].
  eapply (items_lift _ _ ([] : go_state)); [|exact W]. intros it s d s' E e -> Hd Hk.
  exact (Proofs.C02_Go.C02_back_go_b uc Huc cfg Ha _ e s d s' E Hd Hk).
Qed.

(* for EVERY acronym list (the constants' names pairwise different only proved for the empty one): as C02_back_go_partial *)
Theorem c02_multi_back_go_core uc cfg st pd ds st' :
  go_multi_decls uc cfg st pd = Ok (ds, st') ->
  exists items dss, topsort (items_of pd) = Ok items /\ ds = List.concat dss /\
    Forall2 (fun it d => forall e, it = ItEnum e -> dom_C02_back (c02_expect_ir e) = true ->
               c02_good_core Go (c02_expect_ir e) (flat_map go_obs d) = true /\
               (go_uppercase_acronyms cfg = [] -> c02_good_cases (flat_map go_obs d) = true)) items dss.
Proof.
  intros H. destruct (go_multi_decls_items _ _ _ _ _ _ H) as (items & dss & Et & Ec & W). exists items, dss.
  split; [exact Et|]. split; [exact Ec|].
  eapply (items_lift _ _ ([] : go_state)); [|exact W]. intros it s d s' E e -> Hd.
  exact (Proofs.C02_Go.C02_go_core uc cfg _ e s d s' E Hd).
Qed.

Theorem c02_multi_back_kt uc cfg acr c im pd text :
  kt_generate_multi uc cfg c im pd = Ok text ->
  exists ds items dss, kt_decls uc cfg pd = Ok ds /\ topsort (items_of pd) = Ok items /\ ds = List.concat dss /\
    Forall2 (fun it d => forall e, it = ItEnum e -> dom_C02_back (c02_expect_ir e) = true ->
                                   known_C02_back Kotlin acr (c02_expect_ir e) = None ->
                                   good_C02 Kotlin (c02_expect_ir e) (map kt_obs d) = true) items dss.
Proof.
  intros H. destruct (kt_multi_decls _ _ _ _ _ _ H) as (ds & fd & Ed & _ & _).
  destruct (kt_decls_items _ _ _ _ Ed) as (items & dss & Et & Ec & W). exists ds, items, dss.
  split; [exact Ed|]. split; [exact Et|]. split; [exact Ec|].
  eapply Forall2_impl; [|exact W]. intros it d E e -> Hd Hk. exact (Proofs.C02_KtSc.C02_back_kt cfg acr e d E Hd Hk).
Qed.

(* Scala (no topological sort): the enums' declarations close the second group, in the order of p_enums *)
Theorem c02_multi_back_sc uc cfg pd text :
  sc_generate uc cfg pd = Ok text ->
  exists objs pkgs sts ens, sc_decls uc cfg pd = Ok (objs, pkgs) /\ pkgs = sts ++ List.concat ens /\
    Forall2 (fun e d => dom_C02_back (c02_expect_ir e) = true ->
                        good_C02 Scala (c02_expect_ir e) (flat_map sc_obs d) = true) (p_enums pd) ens.
Proof.
  intros H. destruct (sc_multi_decls _ _ _ _ H) as (objs & pkgs & fd & Ed & _ & _).
  pose proof Ed as Ed'. unfold sc_decls in Ed'. cbv zeta in Ed'.
  apply c12_bind_ok in Ed' as (h & _ & Ed'). apply c12_bind_ok in Ed' as (als & _ & Ed').
  apply c12_bind_ok in Ed' as (sts & _ & Ed'). apply c12_bind_ok in Ed' as (ens & Ee & Ed').
  apply c12_bind_ok in Ee as (enss & Em & Ee). injection Ee as <-. injection Ed' as <- <-.
  exists (if sc_unsigned_integer_used pd then [sc_unsigned_aliases] ++ als else [] ++ als), (sts ++ List.concat enss), sts, enss.
  split; [destruct (sc_unsigned_integer_used pd); exact Ed|]. split; [reflexivity|].
  apply mapM_Forall2 in Em. clear -Em. remember (map ItEnum (p_enums pd)) as l eqn:El. revert El.
  generalize (p_enums pd) as es. induction Em as [|it d l r Hd _ IH]; intros es El.
  - destruct es; [constructor|discriminate El].
  - destruct es as [|e es]; [discriminate El|]. cbn [map] in El. injection El as -> ->.
    constructor; [|apply IH; reflexivity]. intros Hdom. exact (Proofs.C02_KtSc.C02_back_sc cfg e d Hd Hdom).
Qed.

(* ================================================================== C03: exactly the items' members *)
Theorem c03_multi_back_ts uc cfg st pd ds st' :
  ts_multi_decls uc cfg st pd = Ok (ds, st') ->
  exists fd, ts_file_decls uc cfg pd = Ok fd /\ fd_decls fd = map ts_obs ds /\ good_C03_file TypeScript pd fd = true.
Proof.
  intros H. destruct (ts_multi_file_decls _ _ _ _ _ _ H) as (fd & Ef & Efd). exists fd. split; [exact Ef|]. split; [exact Efd|].
  exact (Proofs.C03_TS.ts_file uc cfg pd fd Ef).
Qed.

Theorem c03_multi_back_kt uc cfg c im pd text :
  kt_generate_multi uc cfg c im pd = Ok text -> dom_C03_file pd = true ->
  exists ds fd, kt_decls uc cfg pd = Ok ds /\ kt_file_decls uc cfg pd = Ok fd /\ fd_decls fd = map kt_obs ds /\
                good_C03_file Kotlin pd fd = true.
Proof.
  intros H Hd. destruct (kt_multi_decls _ _ _ _ _ _ H) as (ds & fd & Ed & Ef & Efd). exists ds, fd.
  split; [exact Ed|]. split; [exact Ef|]. split; [exact Efd|]. exact (Proofs.C03_Kotlin.kt_file uc cfg pd fd Ef Hd).
Qed.

Theorem c03_multi_back_sw uc cfg st pd ds st' :
  sw_multi_decls uc cfg st pd = Ok (ds, st') -> dom_C03_file pd = true ->
  exists fd st0, sw_file_decls uc cfg pd = Ok fd /\
                 fd_decls fd = flat_map sw_obs ds ++ flat_map sw_obs (sw_trailing_decls cfg st0) /\
                 good_C03_file Swift pd fd = true.
Proof.
  intros H Hd. destruct (sw_multi_file_decls _ _ _ _ _ _ H) as (fd & s0 & Ef & _ & Efd). exists fd, s0.
  split; [exact Ef|]. split; [exact Efd|]. exact (Proofs.C03_Swift.sw_file uc cfg pd fd Ef Hd).
Qed.

Theorem c03_multi_back_sc uc cfg pd text :
  sc_generate uc cfg pd = Ok text -> dom_C03_file pd = true -> known_C03_file uc Scala pd = None ->
  exists objs pkgs fd, sc_decls uc cfg pd = Ok (objs, pkgs) /\ sc_file_decls uc cfg pd = Ok fd /\
                       fd_decls fd = flat_map sc_obs (objs ++ pkgs) /\ good_C03_file Scala pd fd = true.
Proof.
  intros H Hd Hk. destruct (sc_multi_decls _ _ _ _ H) as (objs & pkgs & fd & Ed & Ef & Efd). exists objs, pkgs, fd.
  split; [exact Ed|]. split; [exact Ef|]. split; [exact Efd|]. exact (Proofs.C03_Scala.sc_file uc cfg pd fd Ef Hd Hk).
Qed.

Theorem c03_multi_back_go uc cfg st pd ds st' :
  go_multi_decls uc cfg st pd = Ok (ds, st') ->
  exists fd, go_file_decls uc cfg pd = Ok fd /\ fd_decls fd = flat_map go_obs ds /\ good_C03_file Go pd fd = true.
Proof.
  intros H. destruct (go_multi_file_decls _ _ _ _ _ _ H) as (fd & Ef & Efd). exists fd. split; [exact Ef|]. split; [exact Efd|].
  exact (Proofs.C03_Go.go_file uc cfg pd fd Ef).
Qed.

Theorem c03_multi_back_py uc cfg st pd ds st' :
  py_multi_decls uc cfg st pd = Ok (ds, st') -> dom_C03_file pd = true -> known_C03_file uc Python pd = None ->
  exists fd helpers, py_file_decls uc cfg pd = Ok fd /\
                     fd_decls fd = map py_helper_decl helpers ++ flat_map py_obs ds /\ good_C03_file Python pd fd = true.
Proof.
  intros H Hd Hk. destruct (py_multi_file_decls _ _ _ _ _ _ H) as (fd & hs & Ef & Efd). exists fd, hs.
  split; [exact Ef|]. split; [exact Efd|]. exact (Proofs.C03_Python.py_file uc cfg pd fd Ef Hd Hk).
Qed.
