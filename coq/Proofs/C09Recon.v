(* C09: what reconcile.rs does to the names a type mentions, inside dom_C09 (single crate, no
   imports): an id - of a Simple or of a Generic, in a struct, an enum, an alias or a const - that is the
   Rust name of a typeshared item becomes that item's renamed id, everything else is unchanged; items keep
   their ids, generics, variants. *)
From Coq Require Import List Bool String Permutation.
From TS Require Import Model.Str Model.Outcome Model.Types Model.Parse Model.Reconcile Model.Lang.Decl Spec.C09Spec.
From TS Require Import Proofs.SortLemmas Proofs.C09Common.
Import ListNotations.
Local Notation length := List.length (only parsing).

(* the program the back ends receive (cli: reconcile_aliases over the single crate "") *)
Definition c09_rn (pd : parsed) : renames := collect_serde_renames [([], pd)].
Definition c09_reconciled (pd : parsed) : parsed := reconcile_crate (c09_rn pd) [] pd.

Lemma c09_reconcile_single pd : reconcile_aliases [([], pd)] = [([], c09_reconciled pd)].
Proof. reflexivity. Qed.

Definition c09_rs (rn : renames) (s : rstruct) : rstruct :=
  {| sid := sid s; sgenerics := sgenerics s; sfields := map (check_field [] rn []) (sfields s);
     scomments := scomments s; sdecs := sdecs s; sredacted := sredacted s |}.
Definition c09_re (rn : renames) (e : renum) : renum :=
  match e with
  | EUnit sh => EUnit (check_eshared [] rn [] sh)
  | EAlgebraic t c sh => EAlgebraic t c (check_eshared [] rn [] sh)
  end.
Definition c09_ra (rn : renames) (a : ralias) : ralias :=
  {| aid := aid a; agenerics := agenerics a; atype := check_type [] rn [] (atype a);
     acomments := acomments a; adecs := adecs a; aredacted := aredacted a |}.

Definition c09_rc (rn : renames) (c : rconst) : rconst := check_const [] rn [] c.

Lemma c09_stable_sort_in {A} (key : A -> str) l x : In x (stable_sort key l) <-> In x l.
Proof.
  unfold stable_sort. pose proof (fold_insert_perm key l []) as P. cbn [app] in P. split; intros H.
  - eapply Permutation_in; [exact P|exact H].
  - eapply Permutation_in; [apply Permutation_sym; exact P|exact H].
Qed.

Section Recon.
Variable pd : parsed.
Hypothesis Himp : p_imports pd = [].
Let rn := c09_rn pd.
Let pd' := c09_reconciled pd.

Lemma c09_structs' s' : In s' (p_structs pd') <-> exists s, In s (p_structs pd) /\ s' = c09_rs rn s.
Proof.
  unfold pd', c09_reconciled, reconcile_crate. cbn [p_structs]. rewrite c09_stable_sort_in, in_map_iff. rewrite Himp.
  split; intros (s & A & B); exists s; (split; [|]); auto.
Qed.
Lemma c09_enums' e' : In e' (p_enums pd') <-> exists e, In e (p_enums pd) /\ e' = c09_re rn e.
Proof.
  unfold pd', c09_reconciled, reconcile_crate. cbn [p_enums]. rewrite c09_stable_sort_in, in_map_iff. rewrite Himp.
  split; intros (e & A & B); exists e; (split; [|]); auto; destruct e; auto.
Qed.
Lemma c09_aliases' a' : In a' (p_aliases pd') <-> exists a, In a (p_aliases pd) /\ a' = c09_ra rn a.
Proof.
  unfold pd', c09_reconciled, reconcile_crate. cbn [p_aliases]. rewrite c09_stable_sort_in, in_map_iff. rewrite Himp.
  split; intros (a & A & B); exists a; (split; [|]); auto.
Qed.
Lemma c09_consts' c' : In c' (p_consts pd') <-> exists c, In c (p_consts pd) /\ c' = c09_rc rn c.
Proof.
  unfold pd', c09_reconciled, reconcile_crate. cbn [p_consts]. rewrite c09_stable_sort_in, in_map_iff. rewrite Himp.
  split; intros (c & A & B); exists c; (split; [|]); auto.
Qed.

(* ---- the rename map ---- *)
Lemma c09_rn_in o c r : In (o, c, r) rn ->
  exists e, In e (c09_entities pd) /\ c9e_kind e <> C9KInner /\ c9e_suffix e = [] /\ via_serde_rename (c9e_id e) = true /\
            o = original (c9e_id e) /\ r = renamed (c9e_id e) /\ c = [].
Proof.
  unfold rn, c09_rn, collect_serde_renames. cbn [flat_map fst snd]. rewrite app_nil_r. unfold crate_renames.
  rewrite !in_app_iff, !in_flat_map. intros [(s & Hs & H)|[(e & He & H)|(a & Ha & H)]].
  - destruct (via_serde_rename (sid s)) eqn:V; [|destruct H]. destruct H as [H|[]]. injection H as <- <- <-.
    eexists {| c9e_id := sid s; c9e_suffix := []; c9e_generics := sgenerics s; c9e_kind := C9KStruct |}.
    repeat split; try assumption; try discriminate. unfold c09_entities. apply in_or_app. left. apply in_map_iff. exists s. auto.
  - cbv zeta in H. destruct (via_serde_rename (eid (enum_shared e))) eqn:V; [|destruct H]. destruct H as [H|[]]. injection H as <- <- <-.
    eexists {| c9e_id := eid (enum_shared e); c9e_suffix := []; c9e_generics := egenerics (enum_shared e); c9e_kind := c09_enum_kind e |}.
    repeat split; try assumption; try (destruct e; discriminate).
    unfold c09_entities. apply in_or_app. right. apply in_or_app. left. apply in_flat_map. exists e. split; [assumption|]. left. reflexivity.
  - destruct (via_serde_rename (aid a)) eqn:V; [|destruct H]. destruct H as [H|[]]. injection H as <- <- <-.
    eexists {| c9e_id := aid a; c9e_suffix := []; c9e_generics := agenerics a; c9e_kind := C9KAlias (c09_alias_inline a) |}.
    repeat split; try assumption; try discriminate.
    unfold c09_entities. apply in_or_app. right. apply in_or_app. right. apply in_map_iff. exists a. auto.
Qed.

Lemma c09_item_suffix e : In e (c09_entities pd) -> c9e_kind e <> C9KInner -> c9e_suffix e = [].
Proof.
  unfold c09_entities. rewrite !in_app_iff, in_flat_map, !in_map_iff.
  intros [(s & <- & _)|[(en & _ & H)|(a & <- & _)]] K; try reflexivity.
  destruct H as [<-|H]; [reflexivity|]. apply in_flat_map in H as (v & _ & H). destruct v; try destruct H as [<-|[]]; try destruct H. exfalso. apply K. reflexivity.
Qed.

Lemma c09_rn_of e : In e (c09_entities pd) -> c9e_kind e <> C9KInner -> via_serde_rename (c9e_id e) = true ->
  In (original (c9e_id e), @nil char, renamed (c9e_id e)) rn.
Proof.
  unfold rn, c09_rn, collect_serde_renames. cbn [flat_map fst snd]. rewrite app_nil_r. unfold crate_renames, c09_entities.
  rewrite !in_app_iff, !in_flat_map, !in_map_iff.
  intros [(s & <- & Hs)|[(en & Hen & H)|(a & <- & Ha)]] K V; cbn [c9e_id] in *.
  - left. exists s. split; [assumption|]. rewrite V. left. reflexivity.
  - destruct H as [<-|H].
    + right. left. exists en. split; [assumption|]. cbv zeta. cbn [c9e_id] in V. rewrite V. left. reflexivity.
    + apply in_flat_map in H as (v & _ & H). destruct v; try destruct H as [<-|[]]; try destruct H. exfalso. apply K. reflexivity.
  - right. right. exists a. split; [assumption|]. rewrite V. left. reflexivity.
Qed.

Variables (L : lang) (pfx : str).
Hypothesis Hdom : dom_C09 L pfx pd = true.
Let Hpw := c09_dom_pairwise L pfx pd Hdom.

(* two item entities with the same Rust name are the same entity *)
Lemma c09_item_unique a b : In a (c09_entities pd) -> In b (c09_entities pd) -> c9e_suffix a = [] -> c9e_suffix b = [] ->
  original (c9e_id a) = original (c9e_id b) -> a = b.
Proof.
  intros Ha Hb Sa Sb E.
  eapply (c09_unamb_eq L pfx (c09_entities pd) a b (original (c9e_id a) ++ [])); try assumption.
  - apply c09_denotes_spelling. unfold c09_spellings. rewrite Sa. right. right. right. left. reflexivity.
  - apply c09_denotes_spelling. unfold c09_spellings. rewrite Sb, E. right. right. right. left. reflexivity.
Qed.

Lemma c09_wf e : In e (c09_entities pd) -> via_serde_rename (c9e_id e) = false -> renamed (c9e_id e) = original (c9e_id e).
Proof.
  intros He V. pose proof Hdom as H. unfold dom_C09 in H. apply andb_true_iff in H as [H _]. apply andb_true_iff in H as [H _]. apply andb_true_iff in H as [_ H].
  rewrite forallb_forall in H. specialize (H e He). unfold c09_id_wf in H. rewrite V in H. cbn in H. apply str_eqb_eq in H. exact H.
Qed.

(* reconcile.rs:169 resolve_renamed on the id of a Simple or a Generic, no imports *)
Definition c09_resolved (i : str) : str :=
  match resolve_renamed [] rn [] i with Some r => r | None => i end.

Lemma c09_resolved_item i e : c09_lookup pd i = Some e -> c09_resolved i = renamed (c9e_id e).
Proof.
  intros Hlk. destruct (c09_lookup_in pd i e Hlk) as (He & Ho & Hk). pose proof (c09_item_suffix e He Hk) as Hs.
  unfold c09_resolved, resolve_renamed. cbn [flat_map].
  destruct (has_original rn i) eqn:Hh; cbn [negb].
  - unfold lookup_rename.
    destruct (find (fun r => str_eqb (fst (fst r)) i && str_eqb (snd (fst r)) []) (rev rn)) as [[[o c] r]|] eqn:F; cbn [option_map snd].
    + apply find_some in F as [Hin E]. apply in_rev in Hin. cbn [fst snd] in E. apply andb_true_iff in E as [E _]. apply str_eqb_eq in E. subst o.
      destruct (c09_rn_in _ _ _ Hin) as (e' & He' & Hk' & Hs' & _ & Ho' & -> & Hc0).
      assert (e' = e) as -> by (apply c09_item_unique; try assumption; congruence). reflexivity.
    + (* an entry exists, so the search cannot fail *)
      exfalso. unfold has_original in Hh. apply existsb_exists in Hh as ([[o c] r] & Hin & E). cbn [fst] in E. apply str_eqb_eq in E. subst o.
      destruct (c09_rn_in _ _ _ Hin) as (e' & He' & Hk' & Hs' & _ & Ho' & -> & Hc0).
      pose proof Hin as Hin2. apply in_rev in Hin2. eapply find_none in F; [|exact Hin2]. cbn [fst snd] in F.
      subst c.
      rewrite !str_eqb_refl in F. discriminate.
  - (* no entry under this name: the item is not renamed *)
    destruct (via_serde_rename (c9e_id e)) eqn:V.
    + exfalso. pose proof (c09_rn_of e He Hk V) as Hin. unfold has_original in Hh.
      assert (existsb (fun r => str_eqb (fst (fst r)) i) rn = true) as C; [|congruence].
      apply existsb_exists. eexists. split; [exact Hin|]. cbn [fst]. rewrite Ho. apply str_eqb_refl.
    + rewrite (c09_wf e He V). symmetry. exact Ho.
Qed.

Lemma c09_resolved_other i : c09_lookup pd i = None -> c09_resolved i = i.
Proof.
  intros Hlk. unfold c09_resolved, resolve_renamed. destruct (has_original rn i) eqn:Hh; cbn [negb]; [|reflexivity].
  exfalso. unfold has_original in Hh. apply existsb_exists in Hh as ([[o c] r] & Hin & E). cbn [fst] in E. apply str_eqb_eq in E. subst o.
  destruct (c09_rn_in _ _ _ Hin) as (e' & He' & Hk' & Hs' & _ & Ho' & -> & Hc0).
  unfold c09_lookup in Hlk. eapply find_none in Hlk.
  2:{ unfold c09_item_ents. apply filter_In. split; [exact He'|]. destruct (c9e_kind e'); try reflexivity. exfalso. apply Hk'. reflexivity. }
  cbn in Hlk. rewrite <- Ho', str_eqb_refl in Hlk. discriminate.
Qed.

(* the names a reconciled type mentions *)
Lemma c09_check_type_ids t form i' : In (form, i') (c09_type_ids (check_type [] rn [] t)) ->
  exists i, In (form, i) (c09_type_ids t) /\ i' = c09_resolved i.
Proof.
  revert form i'. induction t using rtype_ind'; intros form i' Hin; cbn [check_type c09_type_ids] in *.
  - unfold c09_resolved. destruct (resolve_renamed [] rn [] id) eqn:R; cbn [c09_type_ids] in Hin; destruct Hin as [Hin|[]]; injection Hin as <- <-;
      exists id; (split; [left; reflexivity|]); rewrite R; reflexivity.
  - destruct Hin as [Hin|Hin].
    + injection Hin as <- <-. exists id. split; [left; reflexivity|reflexivity].
    + rewrite flat_map_concat_map, map_map, <- flat_map_concat_map in Hin. apply in_flat_map in Hin as (p & Hp & Hin).
      rewrite Forall_forall in H. destruct (H p Hp form i' Hin) as (i & Hi & E). exists i. split; [|exact E].
      right. apply in_flat_map. exists p. split; assumption.
  - apply IHt; assumption.
  - apply IHt; assumption.
  - apply IHt; assumption.
  - apply in_app_iff in Hin as [Hin|Hin]; [destruct (IHt1 _ _ Hin) as (i & Hi & E)|destruct (IHt2 _ _ Hin) as (i & Hi & E)]; exists i; (split; [apply in_app_iff; auto|exact E]).
  - apply IHt; assumption.
  - destruct Hin.
Qed.

Lemma c09_resolves_tp tp : In tp (c09_tposs pd) -> c09_resolves pd tp = true.
Proof.
  intros H. pose proof Hdom as Hr. unfold dom_C09 in Hr. apply andb_true_iff in Hr as [_ Hr]. rewrite forallb_forall in Hr. apply Hr. exact H.
Qed.

(* a name mentioned by the type the back end receives for a type position of the program: either an
   untouched generic parameter of the owner, or the table's spelling of a typeshared item *)
Lemma c09_mention tp form i' :
  In tp (c09_tposs pd) ->
  In (form, i') (c09_type_ids (check_type [] rn [] (c9t_type tp))) ->
  (In i' (c9t_generics tp) /\ In (form, i') (c09_type_ids (c9t_type tp))) \/
  (exists i e, In (form, i) (c09_type_ids (c9t_type tp)) /\ c09_lookup pd i = Some e /\
               i' = c09_pick (c09_type_ref_which form (c9t_pos tp)) (c9e_id e)).
Proof.
  intros Htp Hin. pose proof (c09_resolves_tp tp Htp) as Hr. unfold c09_resolves in Hr. rewrite forallb_forall in Hr.
  destruct (c09_check_type_ids _ _ _ Hin) as (i & Hi & E).
  specialize (Hr (form, i) Hi). cbn beta iota in Hr.
  destruct (c09_lookup pd i) as [e|] eqn:Hlk.
  - right. exists i, e. repeat split; try assumption.
    unfold c09_type_ref_which. cbn [c09_pick]. rewrite E. apply c09_resolved_item. exact Hlk.
  - left. destruct form.
    + rewrite orb_false_r in Hr. apply c09_mem_str_in in Hr.
      assert (i' = i) as -> by (rewrite E; apply c09_resolved_other; exact Hlk). split; assumption.
    + rewrite andb_false_r in Hr. discriminate.
Qed.
End Recon.
