(* Go's acronym rewriting (go.rs:579 convert_acronyms_to_uppercase, Model/Lang/Go.v
   go_convert_acronyms_to_uppercase) characterised on ASCII input.

   For an ASCII name and ASCII acronyms (and a Unicode table that agrees with ASCII below 128) byte
   offsets, char indices and char counts coincide, so the three-way index mix-up of go.rs:579 is
   harmless, replace_range never panics, and the result is a closed form:

       convert acrs name = Ok (ga_result (map to_pascal_case acrs) name)

   where ga_result upper-cases (ASCII) exactly the positions covered by an ACCEPTED match (followed
   by a non-lowercase character or by the end) of the PascalCase form of some acronym, the matches of
   one pattern being the leftmost non-overlapping ones searched in [name] itself.  Consequences:
   the length is preserved, only the case of letters changes, every non-lowercase character (so `*`,
   `[`, `]`, `.`, `,`, space, digits, capitals) survives, two names with one result are equal up to ASCII
   case, and - for alphanumeric acronyms - the rewriting distributes over `s1 ++ sep :: s2` for a
   non-alphanumeric separator, hence over the printed form of a Go type (the tree converted name by name
   prints to exactly the converted text).
   The non-ASCII behaviour (byte/char offsets drifting apart, replace_range off a char boundary) is
   C07's finding and is not covered here. *)
From Coq Require Import List Bool Arith Lia ZifyBool ZifyN.
From TS Require Import Model.Str Model.Outcome Model.Unicode Model.Rename Model.Types Model.Lang.Common Model.Lang.Go.
Import ListNotations.
Local Open Scope N_scope.
Local Notation length := List.length (only parsing).

(* ------------------------------------------------------------------ ASCII strings *)
Definition ga_ascii (s : str) : Prop := Forall (fun c => c < 128) s.

Lemma ga_ascii_b s : forallb is_ascii s = true <-> ga_ascii s.
Proof.
  unfold ga_ascii. rewrite forallb_forall, Forall_forall. unfold is_ascii.
  split; intros H c Hc; specialize (H c Hc); lia.
Qed.

Lemma ga_ascii_app a b : ga_ascii (a ++ b) <-> ga_ascii a /\ ga_ascii b.
Proof. apply Forall_app. Qed.

Lemma ga_ascii_skipn n s : ga_ascii s -> ga_ascii (skipn n s).
Proof.
  unfold ga_ascii. rewrite !Forall_forall. intros H c Hc. apply H.
  rewrite <- (firstn_skipn n s). apply in_or_app. now right.
Qed.

Lemma ga_aupper_ascii c : c < 128 -> aupper c < 128.
Proof. unfold aupper, is_alower. destruct ((97 <=? c) && (c <=? 122)) eqn:E; lia. Qed.
Lemma ga_alower_ascii c : c < 128 -> alower c < 128.
Proof. unfold alower, is_aupper. destruct ((65 <=? c) && (c <=? 90)) eqn:E; lia. Qed.
Lemma ga_aupper_idem c : aupper (aupper c) = aupper c.
Proof. unfold aupper, is_alower. destruct ((97 <=? c) && (c <=? 122)) eqn:E; [|now rewrite E]. destruct ((97 <=? c - 32) && (c - 32 <=? 122)) eqn:F; lia. Qed.
Lemma ga_aupper_not_lower c : is_alower (aupper c) = false.
Proof. unfold aupper. destruct (is_alower c) eqn:E; [|exact E]. unfold is_alower in *. lia. Qed.
Lemma ga_aupper_fix c : is_alower c = false -> aupper c = c.
Proof. unfold aupper. now intros ->. Qed.

Lemma ga_pascal_go_ascii tolow cap s : ga_ascii s -> ga_ascii (pascal_go tolow cap s).
Proof.
  intros H. revert cap. induction H as [|c r Hc _ IH]; intros cap; cbn [pascal_go]; [constructor|].
  destruct (c =? ch_us); [apply IH|]. destruct cap.
  - constructor; [now apply ga_aupper_ascii|apply IH].
  - constructor; [destruct tolow; [now apply ga_alower_ascii|exact Hc]|apply IH].
Qed.
Lemma ga_pascal_ascii a : ga_ascii a -> ga_ascii (to_pascal_case a).
Proof. apply ga_pascal_go_ascii. Qed.

(* ------------------------------------------------------------------ list helpers *)
Lemma ga_firstn_app_len {A} (x y : list A) n : length x = n -> firstn n (x ++ y) = x.
Proof. intros <-. induction x; cbn; [now destruct y|now f_equal]. Qed.
Lemma ga_skipn_app_len {A} (x y : list A) n : length x = n -> skipn n (x ++ y) = y.
Proof. intros <-. induction x; cbn; auto. Qed.
Lemma ga_firstn_eq_len {A} (p s : list A) : firstn (length p) s = p -> (length p <= length s)%nat.
Proof. intros H. rewrite <- H at 1. rewrite firstn_length. lia. Qed.

Lemma ga_skipn_skipn {A} x y (l : list A) : skipn x (skipn y l) = skipn (x + y) l.
Proof.
  revert l. induction y as [|y IH]; intros l; [now rewrite Nat.add_0_r|].
  rewrite Nat.add_succ_r. destruct l as [|a l]; [now rewrite !skipn_nil|]. cbn [skipn]. apply IH.
Qed.

Lemma ga_starts_with p s : starts_with p s = true <-> firstn (length p) s = p.
Proof.
  revert s. induction p as [|x p IH]; intros s; cbn [starts_with length firstn]; [tauto|].
  destruct s as [|y s]; [split; discriminate|]. rewrite andb_true_iff, N.eqb_eq, IH.
  split; [intros [-> ->]; reflexivity|intros [= -> H]; now rewrite H].
Qed.

(* ------------------------------------------------------------------ byte arithmetic on ASCII *)
Lemma ga_byte_len s : ga_ascii s -> go_byte_len s = N.of_nat (length s).
Proof.
  unfold go_byte_len. intros H.
  assert (G : forall a, fold_left (fun n c => n + go_utf8_len c) s a = a + N.of_nat (length s)).
  { induction H as [|c r Hc _ IH]; intros a; cbn [fold_left length]; [lia|].
    rewrite IH. unfold go_utf8_len. destruct (c <? 128) eqn:E; lia. }
  rewrite G. lia.
Qed.

Lemma ga_split s n : ga_ascii s -> (n <= length s)%nat ->
  go_split_at_byte s (N.of_nat n) = Some (firstn n s, skipn n s).
Proof.
  intros H. revert n. induction H as [|c r Hc _ IH]; intros n Hn; cbn [go_split_at_byte length] in *.
  - assert (n = O) by lia. subst n. reflexivity.
  - destruct n as [|m]; [reflexivity|].
    destruct (N.of_nat (S m) =? 0) eqn:E0; [lia|].
    unfold go_utf8_len. destruct (c <? 128) eqn:E; [|lia].
    destruct (N.of_nat (S m) <? 1) eqn:E1; [lia|].
    replace (N.of_nat (S m) - 1) with (N.of_nat m) by lia. rewrite IH by lia. reflexivity.
Qed.

Lemma ga_replace s i j w : ga_ascii s -> (i <= j)%nat -> (j <= length s)%nat ->
  go_replace_range s (N.of_nat i) (N.of_nat j) w = Some (firstn i s ++ w ++ skipn j s).
Proof.
  intros H Hij Hj. unfold go_replace_range. rewrite ga_split by (auto; lia).
  replace (N.of_nat j - N.of_nat i) with (N.of_nat (j - i)) by lia.
  rewrite ga_split; [|now apply ga_ascii_skipn|rewrite skipn_length; lia].
  rewrite ga_skipn_skipn. replace (j - i + i)%nat with j by lia. reflexivity.
Qed.

(* ------------------------------------------------------------------ match_indices with char offsets *)
Fixpoint ga_matches (fuel : nat) (p s : str) (off : nat) : list nat :=
  match fuel with
  | O => []
  | S f =>
    match s with
    | [] => []
    | c :: r => if starts_with p s
                then off :: ga_matches f p (skipn (length p) s) (off + length p)
                else ga_matches f p r (S off)
    end
  end.
Definition ga_idx (p s : str) : list nat :=
  match p with
  | [] => seq 0 (S (length s))
  | _ => ga_matches (S (length s)) p s 0
  end.

Lemma ga_matches_model f p s off : ga_ascii p -> ga_ascii s ->
  go_match_indices_fuel f p s (N.of_nat off) = map N.of_nat (ga_matches f p s off).
Proof.
  intros Hp. revert s off. induction f as [|f IH]; intros s off Hs; [reflexivity|].
  cbn [go_match_indices_fuel ga_matches]. destruct s as [|c r]; [reflexivity|].
  destruct (starts_with p (c :: r)).
  - cbn [map]. f_equal. rewrite (ga_byte_len p Hp).
    replace (N.of_nat off + N.of_nat (length p)) with (N.of_nat (off + length p)) by lia.
    apply IH. now apply ga_ascii_skipn.
  - inversion Hs as [|? ? Hc Hr]; subst. unfold go_utf8_len. destruct (c <? 128) eqn:E; [|lia].
    replace (N.of_nat off + 1) with (N.of_nat (S off)) by lia. now apply IH.
Qed.

Lemma ga_boundaries_model s off : ga_ascii s ->
  go_char_boundaries s (N.of_nat off) = map N.of_nat (seq off (S (length s))).
Proof.
  intros H. revert off. induction H as [|c r Hc _ IH]; intros off; cbn [go_char_boundaries length seq map]; [reflexivity|].
  f_equal. unfold go_utf8_len. destruct (c <? 128) eqn:E; [|lia].
  replace (N.of_nat off + 1) with (N.of_nat (S off)) by lia. rewrite IH. reflexivity.
Qed.

Lemma ga_idx_model p s : ga_ascii p -> ga_ascii s -> go_match_indices p s = map N.of_nat (ga_idx p s).
Proof.
  intros Hp Hs. unfold go_match_indices, ga_idx. destruct p as [|x p'].
  - exact (ga_boundaries_model s 0 Hs).
  - exact (ga_matches_model _ _ _ 0 Hp Hs).
Qed.

(* an occurrence of p at char offset i of s *)
Definition ga_occ (p s : str) (i : nat) : Prop :=
  firstn (length p) (skipn i s) = p /\ (i + length p <= length s)%nat.

Lemma ga_matches_occ f p s off :
  Forall (fun i => exists k, i = (off + k)%nat /\ ga_occ p s k) (ga_matches f p s off).
Proof.
  revert s off. induction f as [|f IH]; intros s off; [constructor|].
  cbn [ga_matches]. destruct s as [|c r]; [constructor|].
  destruct (starts_with p (c :: r)) eqn:E.
  - apply ga_starts_with in E. constructor.
    + exists O. split; [lia|]. split; [exact E|]. apply ga_firstn_eq_len in E. cbn [plus]. exact E.
    + eapply Forall_impl; [|apply IH]. cbn beta. intros i (k & -> & Hk & Hl).
      exists (length p + k)%nat. split; [lia|]. unfold ga_occ.
      rewrite skipn_length in Hl. rewrite ga_skipn_skipn in Hk. replace (length p + k)%nat with (k + length p)%nat by lia.
      split; [exact Hk|]. apply ga_firstn_eq_len in E. lia.
  - eapply Forall_impl; [|apply IH]. cbn beta. intros i (k & -> & Hk & Hl).
    exists (S k). split; [lia|]. split; [exact Hk|cbn [length]; lia].
Qed.

Lemma ga_idx_occ p s : Forall (ga_occ p s) (ga_idx p s).
Proof.
  unfold ga_idx. destruct p as [|x p'].
  - apply Forall_forall. intros i Hi. apply in_seq in Hi. split; [reflexivity|cbn [length]; lia].
  - eapply Forall_impl; [|apply ga_matches_occ]. cbn beta. intros i (k & -> & H). exact H.
Qed.

(* ------------------------------------------------------------------ the closed form *)
(* the test of go.rs:588: the character after the match is not a lowercase letter (or there is none) *)
Definition ga_accept (name : str) (i L : nat) : bool :=
  match nth_error name (i + L) with Some c => negb (is_alower c) | None => true end.
Definition ga_in (i L k : nat) : bool := (i <=? k)%nat && (k <? i + L)%nat.
(* position k lies inside an accepted match of pattern p *)
Definition ga_cover1 (p name : str) (k : nat) : bool :=
  existsb (fun i => ga_accept name i (length p) && ga_in i (length p) k) (ga_idx p name).
Definition ga_cover (pats : list str) (name : str) (k : nat) : bool :=
  existsb (fun p => ga_cover1 p name k) pats.
(* upper-case the covered positions; [k] is the position of the head of [s] *)
Fixpoint ga_apply (cov : nat -> bool) (k : nat) (s : str) : str :=
  match s with
  | [] => []
  | c :: r => (if cov k then aupper c else c) :: ga_apply cov (S k) r
  end.
Definition ga_result (pats : list str) (name : str) : str := ga_apply (ga_cover pats name) 0 name.

Lemma ga_apply_length cov k s : length (ga_apply cov k s) = length s.
Proof. revert k. induction s; intros k; cbn; auto. Qed.

Lemma ga_apply_app cov k x y : ga_apply cov k (x ++ y) = ga_apply cov k x ++ ga_apply cov (k + length x) y.
Proof.
  revert k. induction x as [|c r IH]; intros k; cbn [ga_apply app length].
  - now rewrite Nat.add_0_r.
  - rewrite IH. now replace (S k + length r)%nat with (k + S (length r))%nat by lia.
Qed.

Lemma ga_apply_ext cov cov' k s :
  (forall j, (k <= j < k + length s)%nat -> cov j = cov' j) -> ga_apply cov k s = ga_apply cov' k s.
Proof.
  revert k. induction s as [|c r IH]; intros k H; cbn [ga_apply]; [reflexivity|].
  rewrite (H k) by (cbn [length]; lia). f_equal. apply IH. intros j Hj. apply H. cbn [length]. lia.
Qed.

Lemma ga_apply_true cov k s : (forall j, (k <= j < k + length s)%nat -> cov j = true) -> ga_apply cov k s = map aupper s.
Proof.
  revert k. induction s as [|c r IH]; intros k H; cbn [ga_apply map]; [reflexivity|].
  rewrite (H k) by (cbn [length]; lia). f_equal. apply IH. intros j Hj. apply H. cbn [length]. lia.
Qed.

Lemma ga_apply_false cov k s : (forall j, (k <= j < k + length s)%nat -> cov j = false) -> ga_apply cov k s = s.
Proof.
  revert k. induction s as [|c r IH]; intros k H; cbn [ga_apply]; [reflexivity|].
  rewrite (H k) by (cbn [length]; lia). f_equal. apply IH. intros j Hj. apply H. cbn [length]. lia.
Qed.

Lemma ga_apply_ascii cov k s : ga_ascii s -> ga_ascii (ga_apply cov k s).
Proof.
  intros H. revert k. induction H as [|c r Hc _ IH]; intros k; cbn [ga_apply]; constructor; [|apply IH].
  destruct (cov k); [now apply ga_aupper_ascii|exact Hc].
Qed.

(* the heart of one replacement: the covered window gets the upper-cased pattern *)
Lemma ga_window cov cov' a p b :
  (forall j, (j < length a)%nat -> cov' j = cov j) ->
  (forall j, (length a <= j < length a + length p)%nat -> cov' j = true) ->
  (forall j, (length a + length p <= j)%nat -> cov' j = cov j) ->
  firstn (length a) (ga_apply cov 0 (a ++ p ++ b)) ++ map aupper p ++
  skipn (length a + length p) (ga_apply cov 0 (a ++ p ++ b)) = ga_apply cov' 0 (a ++ p ++ b).
Proof.
  intros H1 H2 H3. rewrite !ga_apply_app. cbn [plus].
  rewrite ga_firstn_app_len by apply ga_apply_length.
  rewrite (app_assoc (ga_apply cov 0 a) (ga_apply cov (length a) p)).
  rewrite ga_skipn_app_len by (rewrite app_length, !ga_apply_length; reflexivity).
  f_equal; [|f_equal].
  - apply ga_apply_ext. intros j Hj. symmetry. apply H1. lia.
  - symmetry. apply ga_apply_true. exact H2.
  - apply ga_apply_ext. intros j Hj. symmetry. apply H3. lia.
Qed.

Section GA.
Variable uc : unicode.
Hypothesis Huc : unicode_ok uc.

Lemma ga_upper p : ga_ascii p -> str_to_uppercase uc p = map aupper p.
Proof.
  unfold str_to_uppercase. induction 1 as [|c r Hc _ IH]; cbn [flat_map map]; [reflexivity|].
  rewrite (ok_to_upper uc Huc c Hc), IH. reflexivity.
Qed.

(* the body of the inner loop of go.rs:579 *)
Definition ga_step_fn (name pat : str) (acc : outcome str) (i : N) : outcome str :=
  do res <- acc;
  if match nth_error name (N.to_nat (i + N.of_nat (length pat))) with
     | Some c => negb (u_is_lower uc c)
     | None => true
     end
  then match go_replace_range res i (i + N.of_nat (length pat)) (str_to_uppercase uc pat) with
       | Some res' => Ok res'
       | None => Panic "go.rs:594"
       end
  else Ok res.

Lemma ga_convert_unfold acrs name :
  go_convert_acronyms_to_uppercase uc acrs name =
  fold_left (fun acc a => fold_left (ga_step_fn name (to_pascal_case a)) (go_match_indices (to_pascal_case a) name) acc)
            acrs (Ok name).
Proof. reflexivity. Qed.

Lemma ga_step cov name p i : ga_ascii name -> ga_ascii p -> ga_occ p name i ->
  ga_step_fn name p (Ok (ga_apply cov 0 name)) (N.of_nat i) =
  Ok (ga_apply (fun k => cov k || ga_accept name i (length p) && ga_in i (length p) k) 0 name).
Proof.
  intros Hn Hp [Ho Hl]. unfold ga_step_fn. cbn [bind].
  replace (N.to_nat (N.of_nat i + N.of_nat (length p))) with (i + length p)%nat by lia.
  assert (Ea : match nth_error name (i + length p) with Some c => negb (u_is_lower uc c) | None => true end
               = ga_accept name i (length p)).
  { unfold ga_accept. destruct (nth_error name (i + length p)) as [c|] eqn:E; [|reflexivity].
    apply nth_error_In in E. unfold ga_ascii in Hn. rewrite Forall_forall in Hn.
    now rewrite (ok_lower uc Huc c (Hn c E)). }
  rewrite Ea. destruct (ga_accept name i (length p)) eqn:Eacc.
  - replace (N.of_nat i + N.of_nat (length p)) with (N.of_nat (i + length p)) by lia.
    rewrite ga_replace; [|now apply ga_apply_ascii|lia|rewrite ga_apply_length; exact Hl].
    rewrite (ga_upper p Hp). f_equal.
    set (a := firstn i name). set (b := skipn (length p) (skipn i name)).
    assert (En : name = a ++ p ++ b).
    { subst a b. etransitivity; [symmetry; apply (firstn_skipn i)|]. f_equal.
      etransitivity; [symmetry; apply (firstn_skipn (length p))|]. now rewrite Ho. }
    assert (La : length a = i). { subst a. rewrite firstn_length. lia. }
    rewrite En, <- La. apply ga_window; intros j Hj; unfold ga_in; cbn [andb].
    + replace (length a <=? j)%nat with false by lia. cbn [andb]. now rewrite orb_false_r.
    + replace (length a <=? j)%nat with true by lia. replace (j <? length a + length p)%nat with true by lia. apply orb_true_r.
    + replace (j <? length a + length p)%nat with false by lia. rewrite andb_false_r. now rewrite orb_false_r.
  - f_equal. apply ga_apply_ext. intros j _. cbn [andb]. now rewrite orb_false_r.
Qed.

Lemma ga_inner cov name p idxs : ga_ascii name -> ga_ascii p -> Forall (ga_occ p name) idxs ->
  fold_left (ga_step_fn name p) (map N.of_nat idxs) (Ok (ga_apply cov 0 name)) =
  Ok (ga_apply (fun k => cov k || existsb (fun i => ga_accept name i (length p) && ga_in i (length p) k) idxs) 0 name).
Proof.
  intros Hn Hp H. revert cov. induction H as [|i r Hi _ IH]; intros cov; cbn [map fold_left existsb].
  - f_equal. apply ga_apply_ext. intros j _. now rewrite orb_false_r.
  - rewrite (ga_step cov name p i Hn Hp Hi), IH. f_equal. apply ga_apply_ext. intros j _. now rewrite orb_assoc.
Qed.

Lemma ga_outer cov name acrs : ga_ascii name -> Forall ga_ascii acrs ->
  fold_left (fun acc a => fold_left (ga_step_fn name (to_pascal_case a)) (go_match_indices (to_pascal_case a) name) acc)
            acrs (Ok (ga_apply cov 0 name)) =
  Ok (ga_apply (fun k => cov k || ga_cover (map to_pascal_case acrs) name k) 0 name).
Proof.
  intros Hn H. revert cov. induction H as [|a r Ha _ IH]; intros cov; cbn [map fold_left].
  - f_equal. apply ga_apply_ext. intros j _. cbn. now rewrite orb_false_r.
  - pose proof (ga_pascal_ascii a Ha) as Hp.
    rewrite (ga_idx_model _ _ Hp Hn), (ga_inner cov name _ _ Hn Hp (ga_idx_occ _ _)), IH.
    f_equal. apply ga_apply_ext. intros j _. unfold ga_cover. cbn [existsb]. unfold ga_cover1. now rewrite orb_assoc.
Qed.

(* THE characterisation: on ASCII input the conversion never panics and is ga_result *)
Theorem ga_convert acrs name : Forall ga_ascii acrs -> ga_ascii name ->
  go_convert_acronyms_to_uppercase uc acrs name = Ok (ga_result (map to_pascal_case acrs) name).
Proof.
  intros Ha Hn. rewrite ga_convert_unfold.
  pose proof (ga_outer (fun _ => false) name acrs Hn Ha) as H.
  rewrite (ga_apply_false (fun _ => false) 0 name) in H by reflexivity. exact H.
Qed.
End GA.

(* ------------------------------------------------------------------ what the closed form implies *)
(* pointwise: every character is kept or ASCII-upper-cased *)
Lemma ga_apply_pointwise cov k s : Forall2 (fun c r => r = c \/ r = aupper c) s (ga_apply cov k s).
Proof. revert k. induction s as [|c r IH]; intros k; cbn [ga_apply]; constructor; [destruct (cov k); auto|apply IH]. Qed.

Lemma ga_apply_upper cov k s : str_upper_ascii (ga_apply cov k s) = str_upper_ascii s.
Proof.
  unfold str_upper_ascii. revert k. induction s as [|c r IH]; intros k; cbn [ga_apply map]; [reflexivity|].
  rewrite IH. destruct (cov k); [now rewrite ga_aupper_idem|reflexivity].
Qed.

(* a string without lowercase letters (digits, punctuation, capitals) is left alone *)
Lemma ga_apply_no_lower cov k s : Forall (fun c => is_alower c = false) s -> ga_apply cov k s = s.
Proof.
  intros H. revert k. induction H as [|c r Hc _ IH]; intros k; cbn [ga_apply]; [reflexivity|].
  rewrite IH. destruct (cov k); [now rewrite (ga_aupper_fix c Hc)|reflexivity].
Qed.

(* every character that is not a lowercase letter survives at its position, and no new one appears:
   in particular a leading `*`, brackets, dots, commas, spaces and digits *)
Lemma ga_apply_nth cov k s j c : nth_error s j = Some c ->
  exists r, nth_error (ga_apply cov k s) j = Some r /\ (r = c \/ r = aupper c) /\
            (is_alower c = false -> r = c) /\ (is_alower r = true -> r = c).
Proof.
  revert k j. induction s as [|x s IH]; intros k j H; [destruct j; discriminate|].
  destruct j as [|j]; cbn [nth_error ga_apply] in *.
  - injection H as ->. eexists. split; [reflexivity|]. destruct (cov k).
    + split; [now right|]. split; [intros E; now apply ga_aupper_fix|]. rewrite ga_aupper_not_lower. discriminate.
    + auto.
  - exact (IH (S k) j H).
Qed.

Section GA2.
Variable uc : unicode.
Hypothesis Huc : unicode_ok uc.
Variable acrs : list str.
Hypothesis Hacrs : Forall ga_ascii acrs.

Theorem ga_convert_ok name : ga_ascii name ->
  exists r, go_convert_acronyms_to_uppercase uc acrs name = Ok r /\
    length r = length name /\ ga_ascii r /\ str_upper_ascii r = str_upper_ascii name /\
    Forall2 (fun c x => x = c \/ x = aupper c) name r.
Proof.
  intros Hn. eexists. split; [apply (ga_convert uc Huc acrs name Hacrs Hn)|]. unfold ga_result.
  repeat split; [apply ga_apply_length|now apply ga_apply_ascii|apply ga_apply_upper|apply ga_apply_pointwise].
Qed.

(* two names rewritten to one result are equal up to ASCII case *)
Theorem ga_convert_collide a b r : ga_ascii a -> ga_ascii b ->
  go_convert_acronyms_to_uppercase uc acrs a = Ok r -> go_convert_acronyms_to_uppercase uc acrs b = Ok r ->
  str_upper_ascii a = str_upper_ascii b.
Proof.
  intros Ha Hb. rewrite (ga_convert uc Huc acrs a Hacrs Ha), (ga_convert uc Huc acrs b Hacrs Hb).
  intros [= <-] [= E]. unfold ga_result in E.
  rewrite <- (ga_apply_upper (ga_cover (map to_pascal_case acrs) a) 0 a), <- E. apply ga_apply_upper.
Qed.

(* identity on a name without lowercase letters, and on a name in which no acronym matches *)
Theorem ga_convert_no_lower name : ga_ascii name -> Forall (fun c => is_alower c = false) name ->
  go_convert_acronyms_to_uppercase uc acrs name = Ok name.
Proof. intros Hn H. rewrite (ga_convert uc Huc acrs name Hacrs Hn). unfold ga_result. now rewrite ga_apply_no_lower. Qed.

Theorem ga_convert_no_match name : ga_ascii name ->
  Forall (fun a => ga_idx (to_pascal_case a) name = []) acrs ->
  go_convert_acronyms_to_uppercase uc acrs name = Ok name.
Proof.
  intros Hn H. rewrite (ga_convert uc Huc acrs name Hacrs Hn). unfold ga_result. f_equal.
  apply ga_apply_false. intros j _. unfold ga_cover. apply not_true_is_false. intros E.
  apply existsb_exists in E as (p & Hp & E). apply in_map_iff in Hp as (a & <- & Ha).
  rewrite Forall_forall in H. unfold ga_cover1 in E. rewrite (H a Ha) in E. discriminate.
Qed.
End GA2.

(* ================================================================== distribution over separators *)
(* With ALPHANUMERIC acronyms a match never contains `[`, `]`, `,`, space, `*`, so the rewriting of
   s1 ++ sep :: s2 is the rewriting of s1, the separator, the rewriting of s2. *)
Definition ga_alnum (c : char) : bool := is_aalpha c || is_adigit c.

Lemma ga_alnum_ascii c : ga_alnum c = true -> c < 128.
Proof. unfold ga_alnum, is_aalpha, is_alower, is_aupper, is_adigit. lia. Qed.

Lemma ga_matches_fuel f f' p s off : p <> [] -> (length s < f)%nat -> (length s < f')%nat ->
  ga_matches f p s off = ga_matches f' p s off.
Proof.
  intros Hp. revert f' s off. induction f as [|f IH]; intros f' s off H H'; [lia|].
  destruct f' as [|f']; [lia|]. cbn [ga_matches]. destruct s as [|c r]; [reflexivity|].
  destruct (starts_with p (c :: r)) eqn:E.
  - f_equal. assert (0 < length p)%nat by (destruct p; [congruence|cbn [length]; lia]).
    apply IH; rewrite skipn_length; cbn [length] in *; lia.
  - apply IH; cbn [length] in *; lia.
Qed.

Lemma ga_matches_shift f p s off : ga_matches f p s off = map (fun i => (off + i)%nat) (ga_matches f p s 0).
Proof.
  revert s off. induction f as [|f IH]; intros s off; [reflexivity|]. cbn [ga_matches].
  destruct s as [|c r]; [reflexivity|]. destruct (starts_with p (c :: r)).
  - cbn [map]. f_equal; [lia|]. rewrite IH, (IH _ (0 + length p)%nat), map_map. apply map_ext. intros. lia.
  - rewrite IH, (IH _ 1%nat), map_map. apply map_ext. intros. lia.
Qed.

Lemma ga_starts_with_sep p s1 sep s2 : ~ In sep p -> starts_with p (s1 ++ sep :: s2) = starts_with p s1.
Proof.
  revert s1. induction p as [|x p IH]; intros s1 H; [reflexivity|].
  destruct s1 as [|c r]; cbn [app starts_with].
  - destruct (x =? sep) eqn:E; [|reflexivity]. apply N.eqb_eq in E. subst. exfalso. apply H. now left.
  - rewrite IH; [reflexivity|]. intros Hin. apply H. now right.
Qed.

Lemma ga_matches_sep f p s1 sep s2 off : p <> [] -> ~ In sep p -> (length (s1 ++ sep :: s2) < f)%nat ->
  ga_matches f p (s1 ++ sep :: s2) off = ga_matches f p s1 off ++ ga_matches f p s2 (off + length s1 + 1).
Proof.
  intros Hp Hs. revert s1 off. induction f as [|f IH]; intros s1 off Hf; [lia|].
  rewrite app_length in Hf. cbn [length] in Hf.
  rewrite (ga_matches_fuel (S f) f p s2) by (assumption || lia).
  destruct s1 as [|c r].
  - cbn [app ga_matches length]. destruct p as [|x p']; [congruence|]. cbn [starts_with].
    destruct (x =? sep) eqn:E; [apply N.eqb_eq in E; subst; exfalso; apply Hs; now left|]. cbn [andb].
    replace (off + 0 + 1)%nat with (S off) by lia. reflexivity.
  - cbn [app]. cbn [ga_matches]. change (c :: r ++ sep :: s2) with ((c :: r) ++ sep :: s2).
    rewrite (ga_starts_with_sep p (c :: r) sep s2 Hs). destruct (starts_with p (c :: r)) eqn:E.
    + apply ga_starts_with in E. pose proof (ga_firstn_eq_len _ _ E) as HL.
      assert (0 < length p)%nat by (destruct p; [congruence|cbn [length]; lia]).
      assert (Esk : skipn (length p) ((c :: r) ++ sep :: s2) = skipn (length p) (c :: r) ++ sep :: s2).
      { rewrite skipn_app. replace (length p - length (c :: r))%nat with O by lia. reflexivity. }
      rewrite Esk, IH by (rewrite app_length, skipn_length; cbn [length] in *; lia).
      cbn [app]. f_equal. f_equal. rewrite skipn_length. f_equal. lia.
    + cbn [app]. rewrite IH by (rewrite app_length; cbn [length] in *; lia). f_equal. f_equal. cbn [length]. lia.
Qed.

Lemma ga_idx_sep p s1 sep s2 : p <> [] -> ~ In sep p ->
  ga_idx p (s1 ++ sep :: s2) = ga_idx p s1 ++ map (fun i => (S (length s1) + i)%nat) (ga_idx p s2).
Proof.
  intros Hp Hs. unfold ga_idx. destruct p as [|x p']; [congruence|].
  rewrite ga_matches_sep by (auto; lia). f_equal.
  - apply ga_matches_fuel; [exact Hp|rewrite app_length; cbn [length]; lia|lia].
  - rewrite ga_matches_shift. rewrite (ga_matches_fuel _ (S (length s2))); [|exact Hp|rewrite app_length; cbn [length]; lia|lia].
    apply map_ext. intros. lia.
Qed.

Lemma ga_cover1_nil name k : ga_cover1 [] name k = false.
Proof.
  unfold ga_cover1. apply not_true_is_false. intros E. apply existsb_exists in E as (i & _ & E).
  unfold ga_in in E. cbn [length] in E. lia.
Qed.

Lemma ga_cover1_sep p s1 sep s2 k : ~ In sep p -> is_alower sep = false ->
  ga_cover1 p (s1 ++ sep :: s2) k =
  if (k <? length s1)%nat then ga_cover1 p s1 k
  else if (k =? length s1)%nat then false else ga_cover1 p s2 (k - S (length s1)).
Proof.
  intros Hs Hl. destruct p as [|x p'] eqn:Ep.
  { rewrite !ga_cover1_nil. now destruct (k <? length s1)%nat, (k =? length s1)%nat. }
  rewrite <- Ep in *. assert (Hp : p <> []) by (rewrite Ep; discriminate). clear Ep.
  unfold ga_cover1. rewrite (ga_idx_sep p s1 sep s2 Hp Hs), existsb_app.
  assert (E1 : existsb (fun i => ga_accept (s1 ++ sep :: s2) i (length p) && ga_in i (length p) k) (ga_idx p s1) =
               if (k <? length s1)%nat then existsb (fun i => ga_accept s1 i (length p) && ga_in i (length p) k) (ga_idx p s1) else false).
  { pose proof (ga_idx_occ p s1) as Ho. induction Ho as [|i r [_ Hi] _ IH]; cbn [existsb]; [now destruct (k <? length s1)%nat|].
    rewrite IH. destruct (k <? length s1)%nat eqn:Ek.
    - f_equal. f_equal. unfold ga_accept. destruct (Nat.eq_dec (i + length p) (length s1)) as [Eq|Ne].
      + rewrite nth_error_app2 by lia. replace (i + length p - length s1)%nat with O by lia. cbn [nth_error].
        rewrite Hl. cbn [negb]. destruct (nth_error s1 (i + length p)) eqn:En; [|reflexivity].
        assert (nth_error s1 (i + length p) <> None) as Hne by congruence. apply nth_error_Some in Hne. lia.
      + rewrite nth_error_app1 by lia. reflexivity.
    - unfold ga_in. replace (k <? i + length p)%nat with false by lia. now rewrite !andb_false_r. }
  assert (E2 : existsb (fun i => ga_accept (s1 ++ sep :: s2) i (length p) && ga_in i (length p) k)
                       (map (fun i => (S (length s1) + i)%nat) (ga_idx p s2)) =
               if (k <=? length s1)%nat then false else existsb (fun i => ga_accept s2 i (length p) && ga_in i (length p) (k - S (length s1))) (ga_idx p s2)).
  { induction (ga_idx p s2) as [|i r IH]; cbn [map existsb]; [now destruct (k <=? length s1)%nat|].
    rewrite IH. destruct (k <=? length s1)%nat eqn:Ek.
    - unfold ga_in. replace (S (length s1) + i <=? k)%nat with false by lia. cbn [andb]. now rewrite andb_false_r.
    - f_equal. f_equal.
      + unfold ga_accept. rewrite nth_error_app2 by lia.
        replace (S (length s1) + i + length p - length s1)%nat with (S (i + length p)) by lia. reflexivity.
      + unfold ga_in. lia. }
  rewrite E1, E2. destruct (k <? length s1)%nat eqn:A, (k =? length s1)%nat eqn:B, (k <=? length s1)%nat eqn:C; try lia;
    rewrite ?orb_false_r; reflexivity.
Qed.

Lemma ga_apply_shift cov k s : ga_apply cov k s = ga_apply (fun j => cov (k + j)%nat) 0 s.
Proof.
  revert cov k. induction s as [|c r IH]; intros cov k; cbn [ga_apply]; [reflexivity|].
  rewrite Nat.add_0_r. f_equal. rewrite (IH cov), (IH _ 1%nat). apply ga_apply_ext. intros j _. f_equal. lia.
Qed.

Theorem ga_result_sep pats s1 sep s2 : Forall (fun p => ~ In sep p) pats -> is_alower sep = false ->
  ga_result pats (s1 ++ sep :: s2) = ga_result pats s1 ++ sep :: ga_result pats s2.
Proof.
  intros Hp Hl. unfold ga_result. rewrite ga_apply_app. cbn [ga_apply plus].
  assert (C : forall k, ga_cover pats (s1 ++ sep :: s2) k =
                        if (k <? length s1)%nat then ga_cover pats s1 k
                        else if (k =? length s1)%nat then false else ga_cover pats s2 (k - S (length s1))).
  { intros k. unfold ga_cover. induction Hp as [|p r Hpn _ IH]; cbn [existsb].
    - now destruct (k <? length s1)%nat, (k =? length s1)%nat.
    - rewrite IH, (ga_cover1_sep p s1 sep s2 k Hpn Hl). now destruct (k <? length s1)%nat, (k =? length s1)%nat. }
  f_equal; [|f_equal].
  - apply ga_apply_ext. intros j Hj. rewrite C. replace (j <? length s1)%nat with true by lia. reflexivity.
  - rewrite C. replace (length s1 <? length s1)%nat with false by lia. now rewrite Nat.eqb_refl.
  - rewrite ga_apply_shift. apply ga_apply_ext. intros j _. rewrite C.
    replace (S (length s1) + j <? length s1)%nat with false by lia. replace (S (length s1) + j =? length s1)%nat with false by lia.
    f_equal. lia.
Qed.

Lemma ga_result_no_lower pats s : Forall (fun c => is_alower c = false) s -> ga_result pats s = s.
Proof. apply ga_apply_no_lower. Qed.

(* no match can start inside a string that does not contain the first character of the pattern *)
Lemma ga_matches_nohead f x p s off : ~ In x s -> ga_matches f (x :: p) s off = [].
Proof.
  revert s off. induction f as [|f IH]; intros s off H; [reflexivity|]. cbn [ga_matches].
  destruct s as [|c r]; [reflexivity|]. cbn [starts_with].
  destruct (x =? c) eqn:E; [apply N.eqb_eq in E; subst; exfalso; apply H; now left|]. cbn [andb].
  apply IH. intros Hin. apply H. now right.
Qed.

Lemma ga_result_all_lower pats s :
  Forall (fun p => match p with x :: _ => is_alower x = false | [] => True end) pats ->
  Forall (fun c => is_alower c = true) s -> ga_result pats s = s.
Proof.
  intros Hp Hs. unfold ga_result. apply ga_apply_false. intros j _. unfold ga_cover.
  apply not_true_is_false. intros E. apply existsb_exists in E as (p & Hin & E).
  rewrite Forall_forall in Hp. specialize (Hp p Hin). destruct p as [|x p']; [now rewrite ga_cover1_nil in E|].
  unfold ga_cover1, ga_idx in E. rewrite ga_matches_nohead in E; [discriminate|].
  intros Hx. rewrite Forall_forall in Hs. rewrite (Hs x Hx) in Hp. discriminate.
Qed.

(* ------------------------------------------------------------------ the patterns of alphanumeric acronyms *)
Definition ga_pat_ok (p : str) : Prop :=
  Forall (fun c => ga_alnum c = true) p /\ match p with x :: _ => is_alower x = false | [] => True end.

Lemma ga_pascal_go_alnum tolow cap s : Forall (fun c => ga_alnum c = true) s ->
  Forall (fun c => ga_alnum c = true) (pascal_go tolow cap s) /\
  (cap = true -> match pascal_go tolow cap s with x :: _ => is_alower x = false | [] => True end).
Proof.
  intros H. revert cap. induction H as [|c r Hc _ IH]; intros cap; cbn [pascal_go]; [split; [constructor|auto]|].
  assert (c =? ch_us = false) as -> by (unfold ga_alnum, is_aalpha, is_alower, is_aupper, is_adigit, ch_us in *; lia).
  destruct cap.
  - split; [constructor; [|apply IH]|intros _; apply ga_aupper_not_lower].
    unfold aupper, ga_alnum, is_aalpha, is_alower, is_aupper, is_adigit in *. destruct ((97 <=? c) && (c <=? 122)) eqn:E; lia.
  - split; [|discriminate]. constructor; [|apply IH]. destruct tolow; [|exact Hc].
    unfold alower, ga_alnum, is_aalpha, is_alower, is_aupper, is_adigit in *. destruct ((65 <=? c) && (c <=? 90)) eqn:E; lia.
Qed.

Lemma ga_pascal_pat_ok a : Forall (fun c => ga_alnum c = true) a -> ga_pat_ok (to_pascal_case a).
Proof. intros H. destruct (ga_pascal_go_alnum (all_upper a) true a H) as [A B]. split; [exact A|now apply B]. Qed.

Lemma ga_alnum_list_b acrs : forallb (forallb ga_alnum) acrs = true ->
  Forall ga_ascii acrs /\ Forall ga_pat_ok (map to_pascal_case acrs).
Proof.
  intros H. rewrite forallb_forall in H. split.
  - apply Forall_forall. intros a Ha. specialize (H a Ha). rewrite forallb_forall in H.
    apply Forall_forall. intros c Hc. apply ga_alnum_ascii. now apply H.
  - apply Forall_forall. intros p Hp. apply in_map_iff in Hp as (a & <- & Ha). apply ga_pascal_pat_ok.
    specialize (H a Ha). rewrite forallb_forall in H. apply Forall_forall. exact H.
Qed.

Lemma ga_pat_ok_sep pats sep : Forall ga_pat_ok pats -> ga_alnum sep = false -> Forall (fun p => ~ In sep p) pats.
Proof.
  intros H Hs. eapply Forall_impl; [|exact H]. cbn beta. intros p [Hp _] Hin.
  rewrite Forall_forall in Hp. rewrite (Hp sep Hin) in Hs. discriminate.
Qed.

(* ================================================================== the printed form of a Go type *)
Section GaTyInd.
  Variable P : go_ty -> Prop.
  Hypothesis HN : forall n args, Forall P args -> P (GName n args).
  Hypothesis HS : forall e, P e -> P (GSlice e).
  Hypothesis HA : forall n e, P e -> P (GArray n e).
  Hypothesis HM : forall k v, P k -> P v -> P (GMap k v).
  Hypothesis HP : forall e, P e -> P (GPtr e).
  Hypothesis HR : forall t, P (GRaw t).
  Fixpoint ga_go_ty_ind (t : go_ty) : P t :=
    match t with
    | GName n args => HN n args ((fix go (l : list go_ty) : Forall P l :=
                                    match l with [] => Forall_nil P | x :: r => Forall_cons x (ga_go_ty_ind x) (go r) end) args)
    | GSlice e => HS e (ga_go_ty_ind e)
    | GArray n e => HA n e (ga_go_ty_ind e)
    | GMap k v => HM k v (ga_go_ty_ind k) (ga_go_ty_ind v)
    | GPtr e => HP e (ga_go_ty_ind e)
    | GRaw t => HR t
    end.
End GaTyInd.

(* a type with every name (and verbatim text) rewritten by T *)
Fixpoint ga_ty_map (T : str -> str) (t : go_ty) : go_ty :=
  match t with
  | GName n args => GName (T n) (map (ga_ty_map T) args)
  | GSlice e => GSlice (ga_ty_map T e)
  | GArray n e => GArray n (ga_ty_map T e)
  | GMap k v => GMap (ga_ty_map T k) (ga_ty_map T v)
  | GPtr e => GPtr (ga_ty_map T e)
  | GRaw x => GRaw (T x)
  end.

Lemma ga_dec_no_lower n : Forall (fun c => is_alower c = false) (dec_of_N n).
Proof.
  unfold dec_of_N. generalize 60%nat as f. intros f.
  assert (G : forall n acc, Forall (fun c => is_alower c = false) acc -> Forall (fun c => is_alower c = false) (dec_fuel f n acc)).
  { induction f as [|f IH]; intros m acc H; cbn [dec_fuel]; [exact H|].
    assert (Hd : is_alower (48 + m mod 10) = false).
    { pose proof (N.mod_upper_bound m 10). unfold is_alower. lia. }
    destruct (m / 10 =? 0); [constructor; assumption|apply IH; constructor; assumption]. }
  apply G. constructor.
Qed.

Lemma ga_ascii_join sep l : ga_ascii (join sep l) -> Forall ga_ascii l.
Proof.
  induction l as [|x r IH]; intros H; [constructor|]. destruct r as [|y r'].
  - constructor; [exact H|constructor].
  - change (join sep (x :: y :: r')) with (x ++ sep ++ join sep (y :: r')) in H.
    apply ga_ascii_app in H as [Hx H]. apply ga_ascii_app in H as [_ H]. constructor; [exact Hx|now apply IH].
Qed.

Section GATY.
Variable uc : unicode.
Hypothesis Huc : unicode_ok uc.
Variable cfg : go_config.
Hypothesis Hacr : forallb (forallb ga_alnum) (go_uppercase_acronyms cfg) = true.

Definition ga_T : str -> str := ga_result (map to_pascal_case (go_uppercase_acronyms cfg)).

Let Hasc : Forall ga_ascii (go_uppercase_acronyms cfg) := proj1 (ga_alnum_list_b _ Hacr).
Let Hpat : Forall ga_pat_ok (map to_pascal_case (go_uppercase_acronyms cfg)) := proj2 (ga_alnum_list_b _ Hacr).

Lemma ga_T_conv name : ga_ascii name -> go_convert_acronyms_to_uppercase uc (go_uppercase_acronyms cfg) name = Ok (ga_T name).
Proof. intros H. exact (ga_convert uc Huc _ name Hasc H). Qed.

Lemma ga_T_sep s1 sep s2 : ga_alnum sep = false -> ga_T (s1 ++ sep :: s2) = ga_T s1 ++ sep :: ga_T s2.
Proof.
  intros H. apply ga_result_sep; [now apply ga_pat_ok_sep|].
  unfold ga_alnum, is_aalpha in H. destruct (is_alower sep); [discriminate|reflexivity].
Qed.

Lemma ga_T_cons sep s : ga_alnum sep = false -> ga_T (sep :: s) = sep :: ga_T s.
Proof. intros H. exact (ga_T_sep [] sep s H). Qed.

Lemma ga_T_snoc s sep : ga_alnum sep = false -> ga_T (s ++ [sep]) = ga_T s ++ [sep].
Proof. intros H. exact (ga_T_sep s sep [] H). Qed.

Lemma ga_T_no_lower s : Forall (fun c => is_alower c = false) s -> ga_T s = s.
Proof. apply ga_result_no_lower. Qed.

Lemma ga_T_map_word : ga_T (lit "map") = lit "map".
Proof.
  apply ga_result_all_lower; [|repeat constructor].
  eapply Forall_impl; [|exact Hpat]. cbn beta. intros p [_ H]. exact H.
Qed.

Lemma ga_T_join l : ga_T (join (lit ", ") l) = join (lit ", ") (map ga_T l).
Proof.
  induction l as [|x r IH]; [reflexivity|]. destruct r as [|y r']; [reflexivity|].
  change (join (lit ", ") (x :: y :: r')) with (x ++ 44 :: 32 :: join (lit ", ") (y :: r')).
  change (join (lit ", ") (map ga_T (x :: y :: r'))) with (ga_T x ++ 44 :: 32 :: join (lit ", ") (map ga_T (y :: r'))).
  rewrite ga_T_sep, ga_T_cons, IH by reflexivity. reflexivity.
Qed.

(* THE agreement: for an ASCII printed type the tree converted name by name is what go_ty_acronyms
   computes, and it prints to exactly the converted text *)
Lemma ga_ty_agree t : ga_ascii (go_show t) ->
  go_ty_acronyms uc cfg t = Ok (ga_ty_map ga_T t) /\ go_show (ga_ty_map ga_T t) = ga_T (go_show t).
Proof.
  induction t as [n args IH|e IH|n e IH|k v IHk IHv|e IH|x] using ga_go_ty_ind; intros Ha.
  - (* GName *)
    assert (Hn : ga_ascii n /\ Forall (fun a => ga_ascii (go_show a)) args).
    { destruct args as [|a0 ar]; [split; [exact Ha|constructor]|].
      change (go_show (GName n (a0 :: ar))) with (n ++ lit "[" ++ join (lit ", ") (map go_show (a0 :: ar)) ++ lit "]") in Ha.
      apply ga_ascii_app in Ha as [Hn Ha]. apply ga_ascii_app in Ha as [_ Ha]. apply ga_ascii_app in Ha as [Ha _].
      split; [exact Hn|]. apply ga_ascii_join in Ha. now rewrite Forall_map in Ha. }
    destruct Hn as [Hn Hargs].
    assert (Hall : Forall (fun a => go_ty_acronyms uc cfg a = Ok (ga_ty_map ga_T a) /\ go_show (ga_ty_map ga_T a) = ga_T (go_show a)) args).
    { rewrite Forall_forall in *. intros a Hin. apply IH; [exact Hin|now apply Hargs]. }
    split.
    + cbn [go_ty_acronyms ga_ty_map]. rewrite (ga_T_conv n Hn). cbn [bind].
      assert (E : (fix go (l : list go_ty) : outcome (list go_ty) :=
                     match l with
                     | [] => Ok []
                     | x :: r => do y <- go_ty_acronyms uc cfg x; do ys <- go r; Ok (y :: ys)
                     end) args = Ok (map (ga_ty_map ga_T) args)).
      { clear -Hall. induction Hall as [|a r [Hx _] _ IHr]; [reflexivity|]. rewrite Hx. cbn [bind]. rewrite IHr. reflexivity. }
      rewrite E. reflexivity.
    + cbn [ga_ty_map]. destruct args as [|a0 ar]; [reflexivity|].
      change (go_show (GName n (a0 :: ar))) with (n ++ 91 :: (join (lit ", ") (map go_show (a0 :: ar)) ++ [93])).
      change (go_show (GName (ga_T n) (map (ga_ty_map ga_T) (a0 :: ar))))
        with (ga_T n ++ 91 :: (join (lit ", ") (map go_show (map (ga_ty_map ga_T) (a0 :: ar))) ++ [93])).
      assert (Em : map go_show (map (ga_ty_map ga_T) (a0 :: ar)) = map ga_T (map go_show (a0 :: ar))).
      { rewrite !map_map. clear -Hall. induction Hall as [|a r [_ Hx] _ IHr]; [reflexivity|]. cbn [map]. now rewrite Hx, IHr. }
      rewrite Em, ga_T_sep, ga_T_snoc, ga_T_join by reflexivity. reflexivity.
  - change (go_show (GSlice e)) with (91 :: 93 :: go_show e) in *. inversion Ha as [|? ? _ Ha']; subst. inversion Ha' as [|? ? _ Ha'']; subst.
    destruct (IH Ha'') as [A B]. split.
    + cbn [go_ty_acronyms]. rewrite A. reflexivity.
    + cbn [ga_ty_map]. change (go_show (GSlice (ga_ty_map ga_T e))) with (91 :: 93 :: go_show (ga_ty_map ga_T e)).
      rewrite !ga_T_cons by reflexivity. now rewrite B.
  - change (go_show (GArray n e)) with (91 :: (dec_of_N n ++ 93 :: go_show e)) in *. inversion Ha as [|? ? _ Ha']; subst.
    apply ga_ascii_app in Ha' as [_ Ha']. inversion Ha' as [|? ? _ Ha'']; subst.
    destruct (IH Ha'') as [A B]. split.
    + cbn [go_ty_acronyms]. rewrite A. reflexivity.
    + cbn [ga_ty_map]. change (go_show (GArray n (ga_ty_map ga_T e))) with (91 :: (dec_of_N n ++ 93 :: go_show (ga_ty_map ga_T e))).
      rewrite ga_T_cons, ga_T_sep by reflexivity. rewrite (ga_T_no_lower _ (ga_dec_no_lower n)). now rewrite B.
  - change (go_show (GMap k v)) with (lit "map" ++ 91 :: (go_show k ++ 93 :: go_show v)) in *.
    apply ga_ascii_app in Ha as [_ Ha]. inversion Ha as [|? ? _ Ha']; subst. apply ga_ascii_app in Ha' as [Hk Ha']. inversion Ha' as [|? ? _ Hv]; subst.
    destruct (IHk Hk) as [Ak Bk]. destruct (IHv Hv) as [Av Bv]. split.
    + cbn [go_ty_acronyms]. rewrite Ak. cbn [bind]. rewrite Av. reflexivity.
    + cbn [ga_ty_map]. change (go_show (GMap (ga_ty_map ga_T k) (ga_ty_map ga_T v)))
        with (lit "map" ++ 91 :: (go_show (ga_ty_map ga_T k) ++ 93 :: go_show (ga_ty_map ga_T v))).
      rewrite !ga_T_sep by reflexivity. rewrite ga_T_map_word. now rewrite Bk, Bv.
  - change (go_show (GPtr e)) with (42 :: go_show e) in *. inversion Ha as [|? ? _ Ha']; subst.
    destruct (IH Ha') as [A B]. split.
    + cbn [go_ty_acronyms]. rewrite A. reflexivity.
    + cbn [ga_ty_map]. change (go_show (GPtr (ga_ty_map ga_T e))) with (42 :: go_show (ga_ty_map ga_T e)).
      rewrite ga_T_cons by reflexivity. now rewrite B.
  - split; [|reflexivity]. cbn [go_ty_acronyms]. change (go_show (GRaw x)) with x in Ha. rewrite (ga_T_conv x Ha). reflexivity.
Qed.

(* go.rs:512 / go.rs:360 on an ASCII printed type: the decided type is the tree rewritten name by name
   (never the verbatim fallback), the state is untouched, nothing panics *)
Theorem ga_acronyms_ty t s : ga_ascii (go_show t) -> go_acronyms_ty uc cfg t s = Ok (ga_ty_map ga_T t, s).
Proof.
  intros Ha. destruct (ga_ty_agree t Ha) as [A B]. unfold go_acronyms_ty, mbind, go_acronyms_to_uppercase, go_lift.
  rewrite (ga_T_conv _ Ha). unfold ret. rewrite A, B, str_eqb_refl. reflexivity.
Qed.

Theorem ga_acronyms_ty_show t s : ga_ascii (go_show t) ->
  exists t', go_acronyms_ty uc cfg t s = Ok (t', s) /\ go_show t' = ga_T (go_show t).
Proof. intros Ha. exists (ga_ty_map ga_T t). split; [now apply ga_acronyms_ty|now apply ga_ty_agree]. Qed.
End GATY.

(* ================================================================== ASCII programs print ASCII Go types *)
(* the user type names a Rust type mentions *)
Fixpoint ga_rtype_ids (t : rtype) : list str :=
  match t with
  | RSimple id => [id]
  | RGeneric id ps => id :: flat_map ga_rtype_ids ps
  | RVec x | RArray x _ | RSlice x | ROption x => ga_rtype_ids x
  | RHashMap k v => ga_rtype_ids k ++ ga_rtype_ids v
  | RPrim _ => []
  end.
(* every type name of t and every type_mappings value of the configuration is ASCII *)
Definition ga_texp_asciib (cfg : go_config) (t : rtype) : bool :=
  forallb (fun kv => forallb is_ascii (snd kv)) (go_type_mappings cfg) && forallb (forallb is_ascii) (ga_rtype_ids t).

Lemma ga_is_mmapM {St A B} (f : A -> M St B) (l : list A) :
  (fix go (l : list A) : M St (list B) :=
     match l with
     | [] => ret []
     | x :: r => mbind (f x) (fun y => mbind (go r) (fun ys => ret (y :: ys)))
     end) l = mmapM f l.
Proof. induction l as [|x r IH]; cbn [mmapM]; [reflexivity|]. rewrite IH. reflexivity. Qed.

Lemma ga_mbind_ok {St A B} (m : M St A) (f : A -> M St B) s r s' :
  mbind m f s = Ok (r, s') -> exists a s1, m s = Ok (a, s1) /\ f a s1 = Ok (r, s').
Proof. unfold mbind. destruct (m s) as [[a s1]| |]; try discriminate. eauto. Qed.

Lemma ga_ascii_join_intro sep l : ga_ascii sep -> Forall ga_ascii l -> ga_ascii (join sep l).
Proof.
  intros Hs H. induction H as [|x r Hx Hr IH]; [constructor|]. destruct r as [|y r']; [exact Hx|].
  change (join sep (x :: y :: r')) with (x ++ sep ++ join sep (y :: r')). apply ga_ascii_app. split; [exact Hx|].
  apply ga_ascii_app. split; [exact Hs|exact IH].
Qed.

Lemma ga_dec_ascii n : ga_ascii (dec_of_N n).
Proof.
  unfold dec_of_N. generalize 60%nat as f. intros f.
  assert (G : forall n acc, ga_ascii acc -> ga_ascii (dec_fuel f n acc)).
  { induction f as [|f IH]; intros m acc H; cbn [dec_fuel]; [exact H|].
    assert (Hd : 48 + m mod 10 < 128) by (pose proof (N.mod_upper_bound m 10); lia).
    destruct (m / 10 =? 0); [constructor; assumption|apply IH; constructor; assumption]. }
  apply G. constructor.
Qed.

Lemma ga_tmap_get_ascii m k v : forallb (fun kv => forallb is_ascii (snd kv)) m = true -> tmap_get m k = Some v -> ga_ascii v.
Proof.
  induction m as [|[a b] r IH]; cbn [tmap_get forallb snd]; [discriminate|]. intros H. apply andb_true_iff in H as [Hb Hr].
  destruct (str_eqb a k); [intros [= <-]; now apply ga_ascii_b|now apply IH].
Qed.

Lemma ga_lit_ascii s : forallb is_ascii (lit s) = true -> ga_ascii (lit s).
Proof. apply ga_ascii_b. Qed.

Lemma ga_texp_ascii cfg g t :
  forallb (fun kv => forallb is_ascii (snd kv)) (go_type_mappings cfg) = true ->
  forallb (forallb is_ascii) (ga_rtype_ids t) = true ->
  forall s x s', go_texp cfg g t s = Ok (x, s') -> ga_ascii (go_show x).
Proof.
  intros Hm. induction t as [id|id ps IH|t IH|t n IH|t IH|k v IHk IHv|t IH|p] using rtype_ind'; intros Hid s x s' H; cbn [go_texp] in H.
  - cbn [ga_rtype_ids forallb] in Hid. apply andb_true_iff in Hid as [Hid _]. unfold ret in H. injection H as <- _.
    destruct (tmap_get (go_type_mappings cfg) id) eqn:E; [exact (ga_tmap_get_ascii _ _ _ Hm E)|now apply ga_ascii_b].
  - cbn [ga_rtype_ids forallb] in Hid. apply andb_true_iff in Hid as [Hid0 Hids].
    destruct (tmap_get (go_type_mappings cfg) id) eqn:E.
    + unfold ret in H. injection H as <- _. exact (ga_tmap_get_ascii _ _ _ Hm E).
    + rewrite ga_is_mmapM in H. apply ga_mbind_ok in H as (xs & s1 & Exs & H). unfold ret in H. injection H as <- _.
      assert (Hxs : Forall (fun y => ga_ascii (go_show y)) xs).
      { clear E Hid0. revert s xs s1 Exs. induction IH as [|p0 r Hp _ IHr]; intros s xs s1 Exs; cbn [mmapM] in Exs.
        - unfold ret in Exs. injection Exs as <- _. constructor.
        - cbn [flat_map] in Hids. rewrite forallb_app in Hids. apply andb_true_iff in Hids as [H0 Hr].
          apply ga_mbind_ok in Exs as (y & s2 & Ey & Exs). apply ga_mbind_ok in Exs as (ys & s3 & Eys & Exs).
          unfold ret in Exs. injection Exs as <- _. constructor; [exact (Hp H0 _ _ _ Ey)|exact (IHr Hr _ _ _ Eys)]. }
      apply ga_ascii_b in Hid0. destruct xs as [|x0 xr]; [exact Hid0|].
      change (go_show (GName id (x0 :: xr))) with (id ++ lit "[" ++ join (lit ", ") (map go_show (x0 :: xr)) ++ lit "]").
      repeat (apply ga_ascii_app; split); try exact Hid0; try (apply ga_ascii_b; reflexivity).
      apply ga_ascii_join_intro; [apply ga_ascii_b; reflexivity|now rewrite Forall_map].
  - destruct (tmap_get (go_type_mappings cfg) _) eqn:E; [unfold ret in H; injection H as <- _; exact (ga_tmap_get_ascii _ _ _ Hm E)|].
    apply ga_mbind_ok in H as (e & s1 & Ee & H). unfold ret in H. injection H as <- _.
    change (go_show (GSlice e)) with (91 :: 93 :: go_show e). repeat (constructor; [lia|]). exact (IH Hid _ _ _ Ee).
  - destruct (tmap_get (go_type_mappings cfg) _) eqn:E; [unfold ret in H; injection H as <- _; exact (ga_tmap_get_ascii _ _ _ Hm E)|].
    apply ga_mbind_ok in H as (e & s1 & Ee & H). unfold ret in H. injection H as <- _.
    change (go_show (GArray n e)) with (91 :: (dec_of_N n ++ 93 :: go_show e)). constructor; [lia|].
    apply ga_ascii_app. split; [apply ga_dec_ascii|]. constructor; [lia|]. exact (IH Hid _ _ _ Ee).
  - destruct (tmap_get (go_type_mappings cfg) _) eqn:E; [unfold ret in H; injection H as <- _; exact (ga_tmap_get_ascii _ _ _ Hm E)|].
    apply ga_mbind_ok in H as (e & s1 & Ee & H). unfold ret in H. injection H as <- _.
    change (go_show (GSlice e)) with (91 :: 93 :: go_show e). repeat (constructor; [lia|]). exact (IH Hid _ _ _ Ee).
  - destruct (tmap_get (go_type_mappings cfg) _) eqn:E; [unfold ret in H; injection H as <- _; exact (ga_tmap_get_ascii _ _ _ Hm E)|].
    cbn [ga_rtype_ids] in Hid. rewrite forallb_app in Hid. apply andb_true_iff in Hid as [Hk Hv].
    apply ga_mbind_ok in H as (ks & s1 & Ek & H). apply ga_mbind_ok in H as (vs & s2 & Ev & H). unfold ret in H. injection H as <- _.
    change (go_show (GMap ks vs)) with (lit "map[" ++ go_show ks ++ 93 :: go_show vs).
    apply ga_ascii_app. split; [apply ga_ascii_b; reflexivity|]. apply ga_ascii_app. split; [exact (IHk Hk _ _ _ Ek)|].
    constructor; [lia|]. exact (IHv Hv _ _ _ Ev).
  - destruct (tmap_get (go_type_mappings cfg) _) eqn:E; [unfold ret in H; injection H as <- _; exact (ga_tmap_get_ascii _ _ _ Hm E)|].
    apply ga_mbind_ok in H as (e & s1 & Ee & H). unfold ret in H. injection H as <- _.
    pose proof (IH Hid _ _ _ Ee) as He. destruct (is_vec t && go_no_pointer_slice cfg); [exact He|].
    change (go_show (GPtr e)) with (42 :: go_show e). constructor; [lia|exact He].
  - destruct (tmap_get (go_type_mappings cfg) _) eqn:E; [unfold ret in H; injection H as <- _; exact (ga_tmap_get_ascii _ _ _ Hm E)|].
    destruct p; try (unfold ret in H; injection H as <- _; apply ga_ascii_b; reflexivity).
Qed.

(* ------------------------------------------------------------------ Boolean-hypothesis forms (for Props/) *)
Lemma ga_ascii_list_b acrs : forallb (forallb is_ascii) acrs = true -> Forall ga_ascii acrs.
Proof. intros H. apply Forall_forall. intros a Ha. apply ga_ascii_b. rewrite forallb_forall in H. now apply H. Qed.

Theorem ga_convert_case_only : forall uc, unicode_ok uc -> forall acrs name,
  forallb (forallb is_ascii) acrs = true -> forallb is_ascii name = true ->
  exists r, go_convert_acronyms_to_uppercase uc acrs name = Ok r /\
            length r = length name /\ str_upper_ascii r = str_upper_ascii name.
Proof.
  intros uc Huc acrs name Ha Hn. destruct (ga_convert_ok uc Huc acrs (ga_ascii_list_b _ Ha) name (proj1 (ga_ascii_b name) Hn)) as (r & E & L & _ & U & _).
  exists r. auto.
Qed.

Theorem ga_acronyms_on_type : forall uc, unicode_ok uc ->
  forall cfg, forallb (forallb ga_alnum) (go_uppercase_acronyms cfg) = true ->
  forall (t : go_ty) s, forallb is_ascii (go_show t) = true ->
    go_acronyms_ty uc cfg t s = Ok (ga_ty_map (ga_T cfg) t, s) /\
    go_show (ga_ty_map (ga_T cfg) t) = ga_T cfg (go_show t) /\
    length (ga_T cfg (go_show t)) = length (go_show t) /\
    str_upper_ascii (ga_T cfg (go_show t)) = str_upper_ascii (go_show t).
Proof.
  intros uc Huc cfg Ha t s Ht. apply ga_ascii_b in Ht. split; [now apply ga_acronyms_ty|].
  split; [now apply (ga_ty_agree uc Huc cfg Ha)|]. unfold ga_T, ga_result. split; [apply ga_apply_length|apply ga_apply_upper].
Qed.
