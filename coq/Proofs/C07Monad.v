(* C07 (back ends): "panics only at sites in P" for the combinators of the two monads the back ends are
   written in - [outcome] (Model/Outcome.v) and the state-passing [M St] (Model/Lang/Common.v) - and a
   tactic that walks a monadic term. *)
From Coq Require Import String List.
From TS Require Import Model.Str Model.Outcome Model.Types Model.Lang.Common.
From TS Require Import Spec.C07BackSpec.
Import ListNotations.

(* ---------- outcome ---------- *)
Lemma po_ok {A} P (a : A) : panics_only P (Ok a).
Proof. exact I. Qed.
Lemma po_err {A} P e : panics_only P (@Err A e).
Proof. exact I. Qed.
Lemma po_panic {A} (P : string -> Prop) s : P s -> panics_only P (@Panic A s).
Proof. intros H; exact H. Qed.

Lemma po_weaken {A} (P Q : string -> Prop) (o : outcome A) :
  (forall s, P s -> Q s) -> panics_only P o -> panics_only Q o.
Proof. intros H. destruct o; cbn; auto. Qed.

Lemma po_bind {A B} P (m : outcome A) (f : A -> outcome B) :
  panics_only P m -> (forall a, m = Ok a -> panics_only P (f a)) -> panics_only P (bind m f).
Proof. destruct m as [a|e|s]; cbn [bind panics_only]; intros Hm Hf; auto. Qed.

Lemma po_omap {A B} P (g : A -> B) (m : outcome A) : panics_only P m -> panics_only P (omap g m).
Proof. destruct m; cbn; auto. Qed.

Lemma po_mapM {A B} P (f : A -> outcome B) l :
  (forall x, In x l -> panics_only P (f x)) -> panics_only P (mapM f l).
Proof.
  induction l as [|x r IH]; intros H; [exact I|]. cbn [mapM].
  apply po_bind; [apply H; left; reflexivity|]. intros y _.
  apply po_bind; [apply IH; intros z Hz; apply H; right; exact Hz|]. intros ys _. exact I.
Qed.

Lemma no_panic_is_panic {A} (o : outcome A) : is_panic o = false -> forall P, panics_only P o.
Proof. destruct o; cbn; intros H P; auto. discriminate. Qed.

Lemma no_panic_not_panic {A} (o : outcome A) : no_panic o -> is_panic o = false.
Proof. destruct o; cbn; intros H; auto. destruct H. Qed.

(* ---------- M St ---------- *)
Definition mpo {St A} (P : string -> Prop) (m : M St A) : Prop := forall s, panics_only P (m s).

Lemma mpo_ret {St A} P (a : A) : mpo P (@ret St A a).
Proof. intros s. exact I. Qed.
Lemma mpo_fail {St A} P e : mpo P (@fail St A e).
Proof. intros s. exact I. Qed.
Lemma mpo_mget {St} P : mpo P (@mget St).
Proof. intros s. exact I. Qed.
Lemma mpo_mput {St} P (x : St) : mpo P (mput x).
Proof. intros s. exact I. Qed.
Lemma mpo_mpanic {St A} (P : string -> Prop) site : P site -> mpo P (@mpanic St A site).
Proof. intros H s. exact H. Qed.

Lemma mpo_bind {St A B} P (m : M St A) (f : A -> M St B) :
  mpo P m -> (forall a, mpo P (f a)) -> mpo P (mbind m f).
Proof.
  intros Hm Hf s. unfold mbind. specialize (Hm s). destruct (m s) as [[a s1]|e|p]; cbn in *; auto. apply Hf.
Qed.

Lemma mpo_mmapM {St A B} P (f : A -> M St B) l :
  (forall x, In x l -> mpo P (f x)) -> mpo P (mmapM f l).
Proof.
  induction l as [|x r IH]; intros H; [apply mpo_ret|]. cbn [mmapM].
  apply mpo_bind; [apply H; left; reflexivity|]. intros y.
  apply mpo_bind; [apply IH; intros z Hz; apply H; right; exact Hz|]. intros ys. apply mpo_ret.
Qed.

Lemma mpo_mconcat {St A} P (f : A -> M St str) l :
  (forall x, In x l -> mpo P (f x)) -> mpo P (mconcat f l).
Proof. intros H. unfold mconcat. apply mpo_bind; [now apply mpo_mmapM|]. intros. apply mpo_ret. Qed.

Lemma mpo_weaken {St A} (P Q : string -> Prop) (m : M St A) :
  (forall s, P s -> Q s) -> mpo P m -> mpo Q m.
Proof. intros H Hm s. eapply po_weaken; [exact H|apply Hm]. Qed.

(* ---------- forallb / Forall plumbing ---------- *)
Lemma forallb_In {A} (f : A -> bool) l x : forallb f l = true -> In x l -> f x = true.
Proof. intros H Hx. rewrite forallb_forall in H. now apply H. Qed.

(* ---------- the walker ----------
   [po_step] handles one syntactic layer of a goal [panics_only P e] / [mpo P e]; lemmas about model
   functions already treated are taken from the hint database [c07]. *)
Create HintDb c07 discriminated.

Ltac po_head :=
  lazymatch goal with
  | |- panics_only _ (Ok _) => exact I
  | |- panics_only _ (Err _) => exact I
  | |- panics_only _ (bind _ _) => apply po_bind; [|intros ? ?]
  | |- panics_only _ (omap _ _) => apply po_omap
  | |- panics_only _ (mapM _ _) => apply po_mapM; intros ? ?
  | |- mpo _ (ret _) => apply mpo_ret
  | |- mpo _ (fail _) => apply mpo_fail
  | |- mpo _ mget => apply mpo_mget
  | |- mpo _ (mput _) => apply mpo_mput
  | |- mpo _ (mbind _ _) => apply mpo_bind; [|intros ?]
  | |- mpo _ (mmapM _ _) => apply mpo_mmapM; intros ? ?
  | |- mpo _ (mconcat _ _) => apply mpo_mconcat; intros ? ?
  | |- panics_only _ (match ?x with _ => _ end) => destruct x eqn:?
  | |- mpo _ (match ?x with _ => _ end) => destruct x eqn:?
  | |- panics_only _ (let _ := _ in _) => cbv zeta
  | |- mpo _ (let _ := _ in _) => cbv zeta
  | |- panics_only _ ((fun _ => _) _) => cbv beta
  | |- mpo _ ((fun _ => _) _) => cbv beta
  end.

Ltac po_walk := repeat (first [ solve [eauto 3 with c07] | po_head ]).
