(* C14: multi-file mode partitions by crate and imports cross-crate references. *)
From Coq Require Import List Bool Lia Permutation Sorted String.
From TS Require Import Model.Str Model.Outcome Model.Unicode Model.Syntax Model.Rename Model.Types Model.Parse
                       Model.Reconcile Model.Collect Model.Lang.Common Model.MultiFile.
From TS Require Import Spec.C11Spec Spec.C14Spec.
From TS Require Import Proofs.SortLemmas Proofs.C06.
Import ListNotations.

(* ====================================================================================== *)
(* (e) find_crate_name                                                                     *)
(* ====================================================================================== *)
Lemma SRC_same : SRC14 = SRC.
Proof. reflexivity. Qed.
Lemma dash_us_replace s : dash_us s = replace_char ch_dash ch_us s.
Proof. reflexivity. Qed.

Lemma skip_until_src_notin l r : ~ In SRC l -> skip_until_src (l ++ SRC :: r) = SRC :: r.
Proof.
  induction l as [|c l IH]; intros H; cbn [app skip_until_src].
  - now rewrite str_eqb_refl.
  - destruct (str_eqb c SRC) eqn:E.
    + apply str_eqb_eq in E. exfalso. apply H. now left.
    + apply IH. intros Hin. apply H. now right.
Qed.
Lemma skip_until_src_none l : ~ In SRC l -> skip_until_src l = [].
Proof.
  induction l as [|c l IH]; intros H; cbn [skip_until_src]; [reflexivity|].
  destruct (str_eqb c SRC) eqn:E.
  - apply str_eqb_eq in E. exfalso. apply H. now left.
  - apply IH. intros Hin. apply H. now right.
Qed.

(* the component above the LAST `src`, dashes as underscores *)
Theorem find_crate_name_last_src pre above post :
  ~ In SRC post -> find_crate_name (pre ++ above :: SRC :: post) = Some (replace_char ch_dash ch_us above).
Proof.
  intros H. unfold find_crate_name.
  replace (rev (pre ++ above :: SRC :: post)) with (rev post ++ SRC :: above :: rev pre).
  - rewrite skip_until_src_notin; [reflexivity|]. now rewrite <- in_rev.
  - rewrite rev_app_distr. cbn [rev]. now rewrite <- !app_assoc.
Qed.

Theorem find_crate_name_no_src components : ~ In SRC components -> find_crate_name components = None.
Proof. intros H. unfold find_crate_name. rewrite skip_until_src_none; [reflexivity|]. now rewrite <- in_rev. Qed.

(* nothing above the last `src` *)
Theorem find_crate_name_src_first post : ~ In SRC post -> find_crate_name (SRC :: post) = None.
Proof.
  intros H. unfold find_crate_name. cbn [rev]. rewrite skip_until_src_notin; [reflexivity|]. now rewrite <- in_rev.
Qed.

Theorem find_crate_name_dashes components c : find_crate_name components = Some c -> ~ In ch_dash c.
Proof.
  unfold find_crate_name. destruct (skip_until_src (rev components)) as [|s [|above r]]; try discriminate.
  intros [= <-]. unfold replace_char. rewrite in_map_iff. intros (x & Hx & _).
  destruct (x =? ch_dash) eqn:E; [discriminate Hx|]. apply N.eqb_neq in E. congruence.
Qed.

Lemma last_occurrence {A} (eq_dec : forall a b : A, {a = b} + {a <> b}) (x : A) l :
  In x l -> exists l1 post, l = l1 ++ x :: post /\ ~ In x post.
Proof.
  induction l as [|y l IH]; intros H; [destruct H|].
  destruct (in_dec eq_dec x l) as [Hin|Hnot].
  - destruct (IH Hin) as (l1 & post & -> & Hp). exists (y :: l1), post. now split.
  - destruct H as [->|H]; [|contradiction]. exists [], l. now split.
Qed.
Lemma str_eq_dec (a b : str) : {a = b} + {a <> b}.
Proof. destruct (str_eqb a b) eqn:E; [left; now apply str_eqb_eq|right; now apply str_eqb_neq]. Qed.

Definition last_or (prev : option str) (l : list str) : option str :=
  match rev l with x :: _ => Some x | [] => prev end.
Lemma last_or_cons prev c l : last_or prev (c :: l) = last_or (Some c) l.
Proof.
  unfold last_or. cbn [rev]. destruct (rev l) as [|x r] eqn:E; reflexivity.
Qed.

Lemma crate_scan_no_src prev best l : ~ In SRC l -> crate_scan prev best l = best.
Proof.
  revert prev best; induction l as [|c l IH]; intros prev best H; cbn [crate_scan]; [reflexivity|].
  destruct (str_eqb c SRC14) eqn:E.
  - apply str_eqb_eq in E. exfalso. apply H. left. now rewrite <- SRC_same.
  - apply IH. intros Hin. apply H. now right.
Qed.
Lemma crate_scan_last prev best l1 post :
  ~ In SRC post -> crate_scan prev best (l1 ++ SRC :: post) = option_map dash_us (last_or prev l1).
Proof.
  revert prev best; induction l1 as [|c l1 IH]; intros prev best H.
  - cbn [app crate_scan]. rewrite SRC_same, str_eqb_refl. now rewrite crate_scan_no_src.
  - cbn [app crate_scan]. rewrite IH by exact H. now rewrite last_or_cons.
Qed.

(* the model's reverse scan = the specification's forward scan, on every path *)
Theorem find_crate_name_spec components : find_crate_name components = crate_of components.
Proof.
  unfold crate_of. destruct (in_dec str_eq_dec SRC components) as [Hin|Hnot].
  - destruct (last_occurrence str_eq_dec SRC components Hin) as (l1 & post & -> & Hp).
    rewrite crate_scan_last by exact Hp. unfold find_crate_name.
    replace (rev (l1 ++ SRC :: post)) with (rev post ++ SRC :: rev l1)
      by (rewrite rev_app_distr; cbn [rev]; now rewrite <- app_assoc).
    rewrite skip_until_src_notin by (now rewrite <- in_rev).
    unfold last_or. destruct (rev l1) as [|x r]; reflexivity.
  - rewrite find_crate_name_no_src by exact Hnot. now rewrite crate_scan_no_src.
Qed.

(* and the relational form *)
Theorem crate_of_iff components c : crate_of components = Some c <-> is_crate_of components c.
Proof.
  rewrite <- find_crate_name_spec. split.
  - intros H. destruct (in_dec str_eq_dec SRC components) as [Hin|Hnot].
    + destruct (last_occurrence str_eq_dec SRC components Hin) as (l1 & post & -> & Hp).
      destruct l1 as [|a l1] using rev_ind.
      * cbn [app] in H. now rewrite find_crate_name_src_first in H.
      * clear IHl1. rewrite <- app_assoc in H. cbn [app] in H. rewrite find_crate_name_last_src in H by exact Hp.
        injection H as <-. exists l1, a, post. rewrite <- app_assoc. now repeat split.
    + now rewrite find_crate_name_no_src in H.
  - intros (pre & above & post & -> & Hp & ->). rewrite SRC_same. now apply find_crate_name_last_src.
Qed.

(* ---------- output_file_name ---------- *)
Lemma app_inv_tail' {A} (l1 l2 t : list A) : l1 ++ t = l2 ++ t -> l1 = l2.
Proof. apply app_inv_tail. Qed.

Theorem output_file_name_injective l a b : l <> Swift -> output_file_name l a = output_file_name l b -> a = b.
Proof.
  intros Hl H. destruct l; try congruence; unfold output_file_name in H; now apply app_inv_tail in H.
Qed.

Theorem output_file_name_spec l c : l <> Swift -> output_file_name l c = file_name14 l c.
Proof. intros Hl. destruct l; try congruence; reflexivity. Qed.

(* PascalCase of a conventional crate name: the all-uppercase special case of to_pascal_case is off *)
Lemma aupper_lower_ne c : is_alower c = true -> aupper c <> c.
Proof.
  unfold aupper. intros H. rewrite H. unfold is_alower in H. apply andb_true_iff in H as [H1 H2].
  apply N.leb_le in H1, H2. lia.
Qed.
Lemma all_upper_false s : existsb is_alower s = true -> all_upper s = false.
Proof.
  intros H. apply existsb_exists in H as (c & Hin & Hc). unfold all_upper. apply str_eqb_neq.
  intros E. unfold str_upper_ascii in E.
  assert (Hall : forall x, In x s -> aupper x = x).
  { clear -E. induction s as [|y s IH]; intros x Hx; [destruct Hx|]. cbn [map] in E. injection E as E1 E2.
    destruct Hx as [<-|Hx]; auto. }
  now apply (aupper_lower_ne c Hc), Hall.
Qed.
Lemma pascal_go_spec cap s : pascal_go false cap s = pascal14 cap s.
Proof.
  revert cap; induction s as [|c s IH]; intros cap; cbn [pascal_go pascal14]; [reflexivity|].
  change ch_us with 95. destruct (c =? 95); [apply IH|]. destruct cap; now rewrite IH.
Qed.
Theorem swift_file_name_spec c : conventional_crate c = true -> output_file_name Swift c = file_name14 Swift c.
Proof.
  intros H. unfold output_file_name, file_name14, to_pascal_case. rewrite all_upper_false by exact H.
  now rewrite pascal_go_spec.
Qed.

(* two different crates, one Swift file *)
Lemma swift_file_collision_refuted :
  lit "a_b" <> lit "a__b" /\ output_file_name Swift (lit "a_b") = output_file_name Swift (lit "a__b").
Proof. split; [discriminate|vm_compute; reflexivity]. Qed.

(* ====================================================================================== *)
(* (b) the import list is sound, whatever the iteration orders                             *)
(* ====================================================================================== *)
Definition in_crate_types (ct : crate_types) (k n : str) : Prop := exists names, In (k, names) ct /\ In n names.

Lemma in_scoped_pairs m k n : In (k, n) (scoped_pairs m) <-> exists v, In (k, v) m /\ In n v.
Proof.
  unfold scoped_pairs. rewrite in_flat_map. split.
  - intros ((k', v) & Hin & H). cbn [fst snd] in H. apply in_map_iff in H as (x & [= <- <-] & Hx). now exists v.
  - intros (v & Hin & Hn). exists (k, v). split; [exact Hin|]. cbn [fst snd]. apply in_map_iff. now exists n.
Qed.

Lemma sset_insert_in x y l : In x (sset_insert y l) <-> x = y \/ In x l.
Proof.
  induction l as [|z l IH]; cbn [sset_insert].
  - cbn. intuition congruence.
  - destruct (str_eqb y z) eqn:E.
    + apply str_eqb_eq in E. subst z. cbn. split; [tauto|]. intros [->|H]; [now left|exact H].
    + destruct (str_ltb y z); cbn [In]; [intuition congruence|]. rewrite IH. intuition congruence.
Qed.
Lemma fold_sset_in x all v : In x (fold_left (fun acc n => sset_insert n acc) all v) <-> In x all \/ In x v.
Proof.
  revert v; induction all as [|a all IH]; intros v; cbn [fold_left]; [cbn; tauto|].
  rewrite IH, sset_insert_in. cbn [In]. split; [intros [H|[H|H]]|intros [[H|H]|H]]; subst; tauto.
Qed.

Lemma pairs_cons k' v m k n :
  In (k, n) (scoped_pairs ((k', v) :: m)) <-> (k = k' /\ In n v) \/ In (k, n) (scoped_pairs m).
Proof.
  unfold scoped_pairs. cbn [flat_map fst snd]. rewrite in_app_iff, in_map_iff. split.
  - intros [(x & [= <- <-] & Hx)|H]; [now left|now right].
  - intros [[-> H]|H]; [left; now exists n|now right].
Qed.

Lemma scoped_add_pairs m k0 n0 k n :
  In (k, n) (scoped_pairs (scoped_add m k0 n0)) <-> (k = k0 /\ n = n0) \/ In (k, n) (scoped_pairs m).
Proof.
  induction m as [|[k' v] m IH]; cbn [scoped_add].
  - rewrite pairs_cons. cbn. intuition congruence.
  - destruct (str_eqb k' k0) eqn:E.
    + apply str_eqb_eq in E. subst k'. rewrite !pairs_cons, sset_insert_in. intuition congruence.
    + destruct (str_ltb k0 k').
      * rewrite pairs_cons. cbn [In]. split; [intros [[-> [->|[]]]|H]; tauto|intros [[-> ->]|H]; [left; split; [reflexivity|now left]|now right]].
      * rewrite !pairs_cons, IH. tauto.
Qed.

Lemma sset_extend_in x v all : In x (sset_extend v all) <-> In x all \/ In x v.
Proof. apply fold_sset_in. Qed.
(* entry(k0).or_insert_with(BTreeSet::new).extend(all): exactly the old pairs plus (k0, n) for every n of all *)
Lemma scoped_extend_pairs m k0 all k n :
  In (k, n) (scoped_pairs (scoped_extend m k0 all)) <->
  In (k, n) (scoped_pairs m) \/ (k = k0 /\ In n all).
Proof.
  induction m as [|[k' v] m IH]; cbn [scoped_extend].
  - rewrite pairs_cons, sset_extend_in. cbn. tauto.
  - destruct (str_eqb k' k0) eqn:E.
    + apply str_eqb_eq in E. subst k'. rewrite !pairs_cons, sset_extend_in. tauto.
    + destruct (str_ltb k0 k').
      * rewrite (pairs_cons k0), sset_extend_in. cbn [In]. tauto.
      * rewrite !pairs_cons, IH. tauto.
Qed.
Lemma scoped_extend_mono m k0 all k n :
  In (k, n) (scoped_pairs m) -> In (k, n) (scoped_pairs (scoped_extend m k0 all)).
Proof. intros H. apply scoped_extend_pairs. now left. Qed.

Lemma crate_types_get_in ct k names : crate_types_get ct k = Some names -> In (k, names) ct.
Proof.
  induction ct as [|[a v] ct IH]; cbn [crate_types_get]; [discriminate|].
  destruct (str_eqb a k) eqn:E.
  - apply str_eqb_eq in E. subst a. intros [= ->]. now left.
  - intros H. right. now apply IH.
Qed.
Lemma mem_str_in x l : mem_str x l = true <-> In x l.
Proof.
  unfold mem_str. rewrite existsb_exists. split.
  - intros (y & Hy & E). apply str_eqb_eq in E. now subst.
  - intros H. exists x. split; [exact H|apply str_eqb_refl].
Qed.
Lemma mem_str_notin x l : mem_str x l = false <-> ~ In x l.
Proof. rewrite <- mem_str_in. destruct (mem_str x l); split; congruence. Qed.

(* one iteration of the loop of used_imports *)
Definition used_imports_step (ct : crate_types) (own : str) (m : scoped) (imp : imported) : scoped :=
  if str_eqb (base_crate imp) own then m
  else match crate_types_get ct (base_crate imp) with
       | Some type_names =>
         if str_eqb (type_name imp) GLOB then scoped_extend m (base_crate imp) type_names
         else if mem_str (type_name imp) type_names then scoped_add m (base_crate imp) (type_name imp)
         else import_fallback ct own (type_name imp) m
       | None => import_fallback ct own (type_name imp) m
       end.
Lemma used_imports_fold ct own imports : used_imports ct own imports = fold_left (used_imports_step ct own) imports [].
Proof. reflexivity. Qed.

Section Sound.
Variable ct : crate_types.          (* all_types, in whatever iteration order *)
Variable own : str.

Definition scoped_sound (m : scoped) : Prop :=
  forall k n, In (k, n) (scoped_pairs m) -> k <> own /\ in_crate_types ct k n.

Lemma import_fallback_sound name m : scoped_sound m -> scoped_sound (import_fallback ct own name m).
Proof.
  intros Hm. unfold import_fallback.
  destruct (find _ ct) as [[k' v]|] eqn:F; [|exact Hm].
  apply find_some in F as [Hin Hp]. cbn [fst snd] in Hp. apply andb_true_iff in Hp as [Hne Hmem].
  intros k n H. cbn [fst] in H. apply scoped_add_pairs in H as [[-> ->]|H]; [|now apply Hm].
  split.
  - intros ->. now rewrite str_eqb_refl in Hne.
  - exists v. split; [exact Hin|now apply mem_str_in].
Qed.

Lemma used_imports_step_sound m imp : scoped_sound m -> scoped_sound (used_imports_step ct own m imp).
Proof.
  intros Hm. unfold used_imports_step. destruct (str_eqb (base_crate imp) own) eqn:Eo; [exact Hm|].
  assert (Hne : base_crate imp <> own) by now apply str_eqb_neq.
  destruct (crate_types_get ct (base_crate imp)) as [names|] eqn:G; [|now apply import_fallback_sound].
  apply crate_types_get_in in G.
  destruct (str_eqb (type_name imp) GLOB).
  - intros k n H. apply scoped_extend_pairs in H as [H|[-> H]]; [now apply Hm|].
    split; [exact Hne|now exists names].
  - destruct (mem_str (type_name imp) names) eqn:M; [|now apply import_fallback_sound].
    intros k n H. apply scoped_add_pairs in H as [[-> ->]|H]; [|now apply Hm].
    split; [exact Hne|]. exists names. split; [exact G|now apply mem_str_in].
Qed.

Theorem used_imports_sound imports : scoped_sound (used_imports ct own imports).
Proof.
  rewrite used_imports_fold.
  assert (H0 : scoped_sound []) by (intros k n []).
  revert H0. generalize (@nil (str * list str)) as m.
  induction imports as [|imp imports IH]; intros m Hm; cbn [fold_left]; [exact Hm|].
  apply IH. now apply used_imports_step_sound.
Qed.
End Sound.

Theorem imports_sound (hc : crate_types -> crate_types) cs cn pd k n :
  (forall l x, In x (hc l) -> In x l) ->
  In (k, n) (scoped_pairs (crate_imports hc cs cn pd)) ->
  k <> cn /\ exists names, In (k, names) (all_types cs) /\ In n names.
Proof.
  intros Hh H. apply used_imports_sound in H as [Hne (names & Hin & Hn)].
  split; [exact Hne|]. exists names. split; [now apply Hh|exact Hn].
Qed.

(* ====================================================================================== *)
(* (a) the collector partitions by crate                                                    *)
(* ====================================================================================== *)
Fixpoint crates_get (m : crates) (k : str) : option parsed :=
  match m with [] => None | (a, v) :: r => if str_eqb a k then Some v else crates_get r k end.

Lemma crates_get_in m k v : crates_get m k = Some v -> In (k, v) m.
Proof.
  induction m as [|[a w] m IH]; cbn [crates_get]; [discriminate|].
  destruct (str_eqb a k) eqn:E; [apply str_eqb_eq in E; subst a; intros [= ->]; now left|intros H; right; now apply IH].
Qed.
Lemma in_crates_get m k v : NoDup (map fst m) -> In (k, v) m -> crates_get m k = Some v.
Proof.
  induction m as [|[a w] m IH]; intros ND H; [destruct H|]. cbn [map fst] in ND. inversion ND as [|? ? Hn ND']; subst.
  cbn [crates_get]. destruct H as [[= -> ->]|H]; [now rewrite str_eqb_refl|].
  destruct (str_eqb a k) eqn:E; [|now apply IH].
  apply str_eqb_eq in E. subst a. exfalso. apply Hn. apply in_map_iff. now exists (k, v).
Qed.
Lemma crates_get_none m k : ~ In k (map fst m) -> crates_get m k = None.
Proof.
  induction m as [|[a w] m IH]; intros H; cbn [crates_get]; [reflexivity|].
  destruct (str_eqb a k) eqn:E.
  - apply str_eqb_eq in E. subst a. exfalso. apply H. now left.
  - apply IH. intros Hin. apply H. now right.
Qed.

Definition lt_str (a b : str) : Prop := str_ltb a b = true.
Definition keys_sorted (m : crates) : Prop := StronglySorted lt_str (map fst m).

Lemma upsert_keys m cn pd k : In k (map fst (crate_upsert m cn pd)) <-> k = cn \/ In k (map fst m).
Proof.
  induction m as [|[a w] m IH]; cbn [crate_upsert].
  - cbn. intuition congruence.
  - destruct (str_eqb a cn) eqn:E.
    + apply str_eqb_eq in E. subst a. cbn [map fst In]. intuition congruence.
    + destruct (str_ltb cn a).
      * cbn [map fst In]. intuition congruence.
      * cbn [map fst In]. rewrite IH. intuition congruence.
Qed.

Lemma upsert_sorted m cn pd : keys_sorted m -> keys_sorted (crate_upsert m cn pd).
Proof.
  unfold keys_sorted. induction m as [|[a w] m IH]; intros H; cbn [crate_upsert].
  - cbn. constructor; constructor.
  - apply StronglySorted_inv in H as [Ht Hall]. cbn [map fst] in *.
    destruct (str_eqb a cn) eqn:E.
    + cbn [map fst]. now constructor.
    + destruct (str_ltb cn a) eqn:L.
      * cbn [map fst]. constructor; [now constructor|].
        constructor; [exact L|]. rewrite Forall_forall in *. intros x Hx. eapply str_ltb_trans; [exact L|now apply Hall].
      * cbn [map fst]. constructor; [now apply IH|].
        rewrite Forall_forall in *. intros x Hx. apply upsert_keys in Hx as [->|Hx]; [|now apply Hall].
        apply str_eqb_neq in E. destruct (str_ltb_total a cn E) as [K|K]; [exact K|congruence].
Qed.

Lemma sorted_nodup l : StronglySorted lt_str l -> NoDup l.
Proof.
  induction 1 as [|a l Hs IH Hall]; constructor; [|exact IH].
  intros Hin. rewrite Forall_forall in Hall. specialize (Hall a Hin). unfold lt_str in Hall.
  now rewrite str_ltb_irrefl in Hall.
Qed.

Lemma crate_upsert_get m cn pd k : keys_sorted m ->
  crates_get (crate_upsert m cn pd) k =
  if str_eqb cn k then Some (pd_add (match crates_get m cn with Some v => v | None => empty_parsed end) pd)
  else crates_get m k.
Proof.
  unfold keys_sorted. induction m as [|[a w] m IH]; intros HS; cbn [crate_upsert crates_get].
  - reflexivity.
  - apply StronglySorted_inv in HS as [Ht Hall]. cbn [map fst] in *.
    destruct (str_eqb a cn) eqn:E.
    + apply str_eqb_eq in E. subst a. cbn [crates_get]. destruct (str_eqb cn k); reflexivity.
    + destruct (str_ltb cn a) eqn:L.
      * cbn [crates_get]. destruct (str_eqb cn k) eqn:Ek; [|reflexivity].
        rewrite crates_get_none; [reflexivity|].
        intros Hin. rewrite Forall_forall in Hall. specialize (Hall cn Hin). unfold lt_str in Hall.
        pose proof (str_ltb_trans _ _ _ L Hall) as K. now rewrite str_ltb_irrefl in K.
      * cbn [crates_get]. rewrite (IH Ht). destruct (str_eqb cn k) eqn:Ek; [|reflexivity].
        apply str_eqb_eq in Ek. subst k. now rewrite E.
Qed.

Lemma collect_snoc l a : collect (l ++ [a]) = crate_upsert (collect l) (fst a) (snd a).
Proof. unfold collect. now rewrite fold_left_app. Qed.

Lemma collect_sorted l : keys_sorted (collect l).
Proof.
  induction l as [|a l IH] using rev_ind; [constructor|]. rewrite collect_snoc. now apply upsert_sorted.
Qed.
Lemma collect_nodup l : NoDup (map fst (collect l)).
Proof. apply sorted_nodup, collect_sorted. Qed.

(* the per-file results of one crate, in arrival order *)
Definition of_crate (k : str) (l : list (str * parsed)) : list parsed :=
  map snd (filter (fun a => str_eqb (fst a) k) l).

Lemma collect_single_snoc x pd : collect_single (x ++ [pd]) = pd_add (collect_single x) pd.
Proof. unfold collect_single. now rewrite fold_left_app. Qed.

(* the entry of crate k is exactly the single-file collector run on the files of crate k *)
Lemma collect_get l k :
  crates_get (collect l) k = match of_crate k l with [] => None | pds => Some (collect_single pds) end.
Proof.
  induction l as [|a l IH] using rev_ind; [reflexivity|].
  rewrite collect_snoc, crate_upsert_get by apply collect_sorted.
  unfold of_crate in *. rewrite filter_app, map_app. cbn [filter].
  destruct (str_eqb (fst a) k) eqn:E.
  - apply str_eqb_eq in E. subst k. cbn [map]. rewrite IH.
    destruct (map snd (filter _ l)) as [|p ps] eqn:F.
    + reflexivity.
    + rewrite <- collect_single_snoc. cbn [app]. reflexivity.
  - cbn [map]. rewrite app_nil_r. exact IH.
Qed.

(* the four item lists of the single-file collector are concatenations *)
Lemma single_aliases pds : p_aliases (collect_single pds) = flat_map p_aliases pds.
Proof. unfold collect_single. now rewrite fold_add_aliases. Qed.
Lemma single_structs pds : p_structs (collect_single pds) = flat_map p_structs pds.
Proof. unfold collect_single. now rewrite fold_add_structs. Qed.
Lemma single_enums pds : p_enums (collect_single pds) = flat_map p_enums pds.
Proof. unfold collect_single. now rewrite fold_add_enums. Qed.
Lemma single_consts pds : p_consts (collect_single pds) = flat_map p_consts pds.
Proof. unfold collect_single. now rewrite fold_add_consts. Qed.

Lemma in_items_of it pd :
  In it (items_of pd) <->
  match it with
  | ItAlias a => In a (p_aliases pd) | ItStruct s => In s (p_structs pd)
  | ItEnum e => In e (p_enums pd) | ItConst c => In c (p_consts pd)
  end.
Proof.
  unfold items_of. rewrite !in_app_iff, !in_map_iff. destruct it as [s|e|a|c]; split.
  all: try (intros [(x & [= <-] & Hx)|[(x & [= <-] & Hx)|[(x & [= <-] & Hx)|(x & [= <-] & Hx)]]]; assumption).
  all: try (intros [(x & Hd & Hx)|[(x & Hd & Hx)|[(x & Hd & Hx)|(x & Hd & Hx)]]]; try discriminate Hd; injection Hd as <-; assumption).
  - intros H. right. left. now exists s.
  - intros H. right. right. left. now exists e.
  - intros H. left. now exists a.
  - intros H. right. right. right. now exists c.
Qed.

Lemma in_items_struct s pd : In (ItStruct s) (items_of pd) <-> In s (p_structs pd).
Proof. exact (in_items_of (ItStruct s) pd). Qed.
Lemma in_items_enum e pd : In (ItEnum e) (items_of pd) <-> In e (p_enums pd).
Proof. exact (in_items_of (ItEnum e) pd). Qed.
Lemma in_items_alias a pd : In (ItAlias a) (items_of pd) <-> In a (p_aliases pd).
Proof. exact (in_items_of (ItAlias a) pd). Qed.
Lemma in_items_const c pd : In (ItConst c) (items_of pd) <-> In c (p_consts pd).
Proof. exact (in_items_of (ItConst c) pd). Qed.

Lemma in_items_single it pds : In it (items_of (collect_single pds)) <-> exists pd, In pd pds /\ In it (items_of pd).
Proof.
  destruct it as [s|e|a|c].
  - rewrite in_items_struct, single_structs, in_flat_map. now setoid_rewrite in_items_struct.
  - rewrite in_items_enum, single_enums, in_flat_map. now setoid_rewrite in_items_enum.
  - rewrite in_items_alias, single_aliases, in_flat_map. now setoid_rewrite in_items_alias.
  - rewrite in_items_const, single_consts, in_flat_map. now setoid_rewrite in_items_const.
Qed.

Lemma in_of_crate pd k l : In pd (of_crate k l) <-> In (k, pd) l.
Proof.
  unfold of_crate. rewrite in_map_iff. split.
  - intros ([k' p] & <- & H). apply filter_In in H as [H E]. cbn [fst snd] in *. apply str_eqb_eq in E. now subst.
  - intros H. exists (k, pd). split; [reflexivity|]. apply filter_In. split; [exact H|apply str_eqb_refl].
Qed.

(* every item of a file of crate cn is in the entry of cn ... *)
Lemma partition_member l cn pd : In (cn, pd) l ->
  exists pdc, In (cn, pdc) (collect l) /\ forall it, In it (items_of pd) -> In it (items_of pdc).
Proof.
  intros H. pose proof (collect_get l cn) as G.
  assert (Hin : In pd (of_crate cn l)) by now apply in_of_crate.
  destruct (of_crate cn l) as [|p ps] eqn:F; [destruct Hin|].
  exists (collect_single (p :: ps)). split; [now apply crates_get_in|].
  intros it Hit. apply in_items_single. now exists pd.
Qed.
(* ... and the entry of cn holds nothing else *)
Lemma partition_origin l cn pdc it : In (cn, pdc) (collect l) -> In it (items_of pdc) ->
  exists pd, In (cn, pd) l /\ In it (items_of pd).
Proof.
  intros H Hit. apply in_crates_get in H; [|apply collect_nodup].
  rewrite collect_get in H. destruct (of_crate cn l) as [|p ps] eqn:F; [discriminate|]. injection H as <-.
  apply in_items_single in Hit as (pd & Hpd & Hit). exists pd. split; [|exact Hit].
  apply in_of_crate. now rewrite F.
Qed.
(* hence no item is in two crates' data unless two files of different crates produced it *)

(* the union over the crates = what the single-file collector holds (as multisets) *)
Section Proj.
Context {X : Type} (proj : parsed -> list X).
Hypothesis proj_add : forall a b, proj (pd_add a b) = proj a ++ proj b.
Hypothesis proj_empty : proj empty_parsed = [].

Lemma upsert_perm m cn pd :
  Permutation (flat_map (fun c => proj (snd c)) (crate_upsert m cn pd)) (flat_map (fun c => proj (snd c)) m ++ proj pd).
Proof.
  induction m as [|[a w] m IH]; cbn [crate_upsert].
  - cbn [flat_map snd]. rewrite proj_add, proj_empty. cbn. now rewrite app_nil_r.
  - destruct (str_eqb a cn).
    + cbn [flat_map snd]. rewrite proj_add, <- !app_assoc. apply Permutation_app_head, Permutation_app_comm.
    + destruct (str_ltb cn a).
      * cbn [flat_map snd]. rewrite proj_add, proj_empty. cbn [app].
        apply (Permutation_app_comm (proj pd) (proj w ++ flat_map (fun c => proj (snd c)) m)).
      * cbn [flat_map snd]. rewrite <- app_assoc. now apply Permutation_app_head.
Qed.

Lemma collect_perm l :
  Permutation (flat_map (fun c => proj (snd c)) (collect l)) (flat_map proj (map snd l)).
Proof.
  induction l as [|a l IH] using rev_ind; [constructor|].
  rewrite collect_snoc, map_app, flat_map_app. cbn [map flat_map]. rewrite app_nil_r.
  etransitivity; [apply upsert_perm|]. now apply Permutation_app_tail.
Qed.
End Proj.

Lemma flat_map_app_perm {A B} (f g : A -> list B) l :
  Permutation (flat_map (fun x => f x ++ g x) l) (flat_map f l ++ flat_map g l).
Proof.
  induction l as [|x l IH]; cbn [flat_map]; [constructor|].
  rewrite <- !app_assoc. apply Permutation_app_head.
  etransitivity; [apply Permutation_app_head, IH|].
  rewrite !app_assoc. apply Permutation_app_tail, Permutation_app_comm.
Qed.
Lemma flat_map_map_out {A B C} (f : B -> C) (g : A -> list B) l : flat_map (fun x => map f (g x)) l = map f (flat_map g l).
Proof. induction l as [|x l IH]; cbn [flat_map]; [reflexivity|]. now rewrite map_app, IH. Qed.

Theorem partition_union l :
  Permutation (flat_map (fun c => items_of (snd c)) (collect l)) (items_of (collect_single (map snd l))).
Proof.
  unfold items_of.
  etransitivity; [apply flat_map_app_perm|]. apply Permutation_app.
  { rewrite flat_map_map_out, single_aliases. apply Permutation_map.
    apply (collect_perm p_aliases); reflexivity. }
  etransitivity; [apply flat_map_app_perm|]. apply Permutation_app.
  { rewrite flat_map_map_out, single_structs. apply Permutation_map.
    apply (collect_perm p_structs); reflexivity. }
  etransitivity; [apply flat_map_app_perm|]. apply Permutation_app.
  { rewrite flat_map_map_out, single_enums. apply Permutation_map.
    apply (collect_perm p_enums); reflexivity. }
  rewrite flat_map_map_out, single_consts. apply Permutation_map.
  apply (collect_perm p_consts); reflexivity.
Qed.

Theorem partition l :
  NoDup (map fst (collect l)) /\
  (forall cn pd, In (cn, pd) l -> exists pdc, In (cn, pdc) (collect l) /\ forall it, In it (items_of pd) -> In it (items_of pdc)) /\
  (forall cn pdc it, In (cn, pdc) (collect l) -> In it (items_of pdc) -> exists pd, In (cn, pd) l /\ In it (items_of pd)) /\
  Permutation (flat_map (fun c => items_of (snd c)) (collect l)) (items_of (collect_single (map snd l))).
Proof.
  split; [apply collect_nodup|]. split; [apply partition_member|]. split; [apply partition_origin|apply partition_union].
Qed.
