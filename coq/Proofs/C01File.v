(* C01, whole files: the member lists a generated FILE declares are, in output order, the member lists
   of the items the back end was handed (topologically sorted; Scala: aliases, structs, enums), each
   binding the IR's keys - the helper definitions a back end adds (CodableVoid, UByte.., TypeVars,
   helper functions) declare no members. *)
From Coq Require Import List Bool Lia ZifyBool ZifyN String.
From TS Require Import Model.Str Model.Outcome Model.Unicode Model.Types Model.Parse Model.Topsort
                       Model.Lang.Common Model.Lang.Decl Model.Lang.TypeScript Model.Lang.Kotlin Model.Lang.Swift
                       Model.Lang.Scala Model.Lang.Go Model.Lang.Python.
From TS Require Import Spec.C01Spec.
From Coq Require Import Permutation.
From TS Require Import Proofs.BackCommon Proofs.FrontItems Proofs.C01 Proofs.C11.
Import ListNotations.
Local Open Scope N_scope.

Lemma obs_groups_app a b : obs_groups (a ++ b) = obs_groups a ++ obs_groups b.
Proof. apply flat_map_app. Qed.

Lemma obs_groups_flat {D} (obs : D -> list decl) ds : obs_groups (flat_map obs ds) = flat_map (fun d => obs_groups (obs d)) ds.
Proof. unfold obs_groups. apply flat_map_flat_map. Qed.

Lemma obs_groups_helpers l : Forall (fun d => d_kind d = DHelper) l -> obs_groups l = [].
Proof.
  unfold obs_groups. induction 1 as [|d r Hd _ IH]; cbn [flat_map]; [reflexivity|].
  rewrite IH, app_nil_r. unfold decl_groups. now rewrite Hd.
Qed.

(* item by item, in order *)
Lemma file_groups_fit {D} l (obs : D -> list decl) (items : list ritem) (dss : list D) :
  Forall2 (fun it ds => groups_fit l (ir_groups it) (obs_groups (obs ds))) items dss ->
  groups_fit l (flat_map ir_groups items) (obs_groups (flat_map obs dss)).
Proof. intros H. rewrite obs_groups_flat. unfold groups_fit. now apply Forall2_flat_map. Qed.

Lemma flat_map_concat_map {A B} (f : A -> list B) (ll : list (list A)) :
  flat_map f (List.concat ll) = flat_map (fun l => flat_map f l) ll.
Proof. apply flat_map_concat. Qed.

(* a successful topological sort only permutes the items (C11) *)
Lemma topsort_ok_perm things items : topsort things = Ok items -> Permutation items things.
Proof.
  intros H. assert (Hd : exists dag, build_dag things = Ok dag).
  { unfold topsort in H. destruct (build_dag things) as [dag| |]; cbn [bind] in H; try discriminate. eauto. }
  destruct Hd as [dag Hd]. destruct (topsort_permutation things dag Hd) as (out & Ho & Hp). congruence.
Qed.

(* ---------------- TypeScript ---------------- *)
Theorem ts_file_fits uc cfg pd fd : ts_file_decls uc cfg pd = Ok fd ->
  exists items, Permutation items (items_of pd) /\
                groups_fit TypeScript (flat_map ir_groups items) (obs_groups (fd_decls fd)).
Proof.
  unfold ts_file_decls, ts_decls. destruct (topsort (items_of pd)) as [items| |] eqn:Et; cbn [bind]; try discriminate.
  destruct (mmapM (ts_decl_of uc cfg) items []) as [[ds st]| |] eqn:Em; cbn [bind]; try discriminate. intros [= <-]. cbn [fd_decls].
  exists items. split; [exact (topsort_ok_perm _ _ Et)|].
  replace (map ts_obs ds) with (flat_map (fun d => [ts_obs d]) ds) by apply flat_map_single.
  apply file_groups_fit. eapply mmapM_Forall2; [|exact Em]. intros it s d s' H. exact (ts_decl_fits uc cfg it s d s' H).
Qed.

(* ---------------- Kotlin ---------------- *)
Theorem kt_file_fits uc cfg pd fd : kt_file_decls uc cfg pd = Ok fd ->
  exists items, Permutation items (items_of pd) /\
                groups_fit Kotlin (flat_map ir_groups items) (obs_groups (fd_decls fd)).
Proof.
  unfold kt_file_decls, kt_decls. destruct (topsort (items_of pd)) as [items| |] eqn:Et; cbn [bind]; try discriminate.
  destruct (mapM (kt_decl_of cfg) items) as [dss| |] eqn:Em; cbn [bind]; try discriminate. intros [= <-]. cbn [fd_decls].
  exists items. split; [exact (topsort_ok_perm _ _ Et)|].
  replace (map kt_obs (List.concat dss)) with (flat_map (fun ds => map kt_obs ds) dss).
  - apply file_groups_fit. apply mapM_Forall2 in Em. eapply Forall2_impl; [|exact Em]. cbn beta.
    intros it ds H. exact (kt_decl_fits cfg it ds H).
  - rewrite <- flat_map_single, flat_map_concat_map. apply flat_map_ext. intros ds. apply flat_map_single.
Qed.

(* ---------------- Swift ---------------- *)
Theorem sw_file_fits uc cfg pd fd : sw_file_decls uc cfg pd = Ok fd ->
  exists items, Permutation items (items_of pd) /\
                groups_fit Swift (flat_map ir_groups items) (obs_groups (fd_decls fd)).
Proof.
  unfold sw_file_decls, sw_decls. destruct (topsort (items_of pd)) as [items| |] eqn:Et; cbn [bind]; try discriminate.
  destruct (mmapM (sw_decl_of uc cfg) items false) as [[ds st]| |] eqn:Em; cbn [bind]; try discriminate. intros [= <-]. cbn [fd_decls].
  exists items. split; [exact (topsort_ok_perm _ _ Et)|].
  rewrite flat_map_app, obs_groups_app.
  assert (Ht : obs_groups (flat_map sw_obs (sw_trailing_decls cfg st)) = []).
  { unfold sw_trailing_decls. destruct st; [|reflexivity]. apply obs_groups_helpers. cbn. repeat constructor. }
  rewrite Ht, app_nil_r.
  apply file_groups_fit. eapply mmapM_Forall2; [|exact Em]. intros it s d s' H. exact (sw_decl_fits uc cfg it s d s' H).
Qed.

(* ---------------- Scala (no topological sort: aliases, structs, enums as reconcile left them) ---------------- *)
Theorem sc_file_fits uc cfg pd fd : sc_file_decls uc cfg pd = Ok fd ->
  groups_fit Scala (flat_map ir_groups (map ItAlias (p_aliases pd) ++ map ItStruct (p_structs pd) ++ map ItEnum (p_enums pd)))
             (obs_groups (fd_decls fd)).
Proof.
  unfold sc_file_decls, sc_decls. destruct (sc_begin_file cfg) as [h| |]; cbn [bind]; try discriminate.
  destruct (mapM (sc_decl_of cfg) (map ItAlias (p_aliases pd))) as [da| |] eqn:Ea; cbn [bind]; try discriminate.
  destruct (mapM (sc_decl_of cfg) (map ItStruct (p_structs pd))) as [ds| |] eqn:Es; cbn [bind]; try discriminate.
  destruct (mapM (sc_decl_of cfg) (map ItEnum (p_enums pd))) as [de| |] eqn:Ee; cbn [bind]; try discriminate.
  intros [= <-]. cbn [fd_decls].
  assert (G : forall its dss, mapM (sc_decl_of cfg) its = Ok dss ->
                groups_fit Scala (flat_map ir_groups its) (obs_groups (flat_map sc_obs (List.concat dss)))).
  { intros its dss Hm. rewrite flat_map_concat_map. apply file_groups_fit. apply mapM_Forall2 in Hm.
    eapply Forall2_impl; [|exact Hm]. cbn beta. intros it d H. exact (sc_decl_fits cfg it d H). }
  rewrite !flat_map_app, !obs_groups_app.
  assert (Hh : obs_groups (flat_map sc_obs (if sc_unsigned_integer_used pd then [sc_unsigned_aliases] else [])) = []).
  { destruct (sc_unsigned_integer_used pd); [|reflexivity]. apply obs_groups_helpers. cbn. repeat constructor. }
  rewrite Hh. cbn [app]. unfold groups_fit. repeat apply Forall2_app; apply G; assumption.
Qed.

(* ---------------- Go ---------------- *)
Theorem go_file_fits uc cfg pd fd : go_file_decls uc cfg pd = Ok fd ->
  exists items, Permutation items (items_of pd) /\
                groups_fit Go (flat_map ir_groups items) (obs_groups (fd_decls fd)).
Proof.
  unfold go_file_decls, go_decls. destruct (topsort (items_of pd)) as [items| |] eqn:Et; cbn [bind]; try discriminate.
  match goal with |- context [mbind ?m ?f ?s] => destruct (mbind m f s) as [[ds im]| |] eqn:Er end; cbn [bind]; try discriminate.
  intros [= <-]. cbn [fd_decls]. exists items. split; [exact (topsort_ok_perm _ _ Et)|].
  apply mbind_ok in Er as (u & s1 & _ & Er). apply mbind_ok in Er as (dss & s2 & Em & Er).
  unfold ret in Er. injection Er as <- _.
  rewrite flat_map_concat_map. apply file_groups_fit. eapply mmapM_Forall2; [|exact Em].
  intros it s d s' H. exact (go_decl_fits uc cfg _ it s d s' H).
Qed.

(* ---------------- Python ---------------- *)
Theorem py_file_fits uc cfg pd fd : py_file_decls uc cfg pd = Ok fd ->
  exists items, Permutation items (items_of pd) /\
                groups_fit Python (flat_map ir_groups items) (obs_groups (fd_decls fd)).
Proof.
  unfold py_file_decls, py_decls. destruct (topsort (items_of pd)) as [items| |] eqn:Et; cbn [bind]; try discriminate.
  destruct (mmapM (py_decl_of uc cfg) items py_empty_state) as [[dss st]| |] eqn:Em; cbn [bind]; try discriminate. intros [= <-]. cbn [fd_decls].
  exists items. split; [exact (topsort_ok_perm _ _ Et)|].
  rewrite !obs_groups_app.
  assert (Hh : forall names, obs_groups (map py_helper_decl names) = []).
  { intros names. apply obs_groups_helpers. induction names; cbn [map]; constructor; auto. }
  rewrite !Hh. cbn [app].
  rewrite flat_map_concat_map. apply file_groups_fit. eapply mmapM_Forall2; [|exact Em].
  intros it s d s' H. exact (py_decl_fits uc cfg it s d s' H).
Qed.
