(* C15, front end to IR: every doc string of every item the model's parser produces (parse_struct, parse_enum,
   parse_type_alias, parse_const - the four item parsers of parser.rs) is a carried line of a doc attribute of the
   item, hence free of LF and CR; so it is c15_safe in every language and comment form, and the renderer-level
   theorems of Props/C15.v (`contained iff all doc strings are safe_<l>`) give `contained` on parsed items. *)
From Coq Require Import List NArith Bool String.
From TS Require Import Model.Str Model.Outcome Model.Unicode Model.Syntax Model.Attrs Model.Types Model.Parse.
From TS Require Import Spec.Lexers Spec.C15Spec Spec.C15Render.
From TS Require Import Proofs.C15_Replace Proofs.C15 Proofs.C15_Render.
Import ListNotations.
Local Open Scope N_scope.

Definition c15_line_free (d : str) : Prop := safe_line eol_lf_cr d = true.

Section Front.
Variable uc : unicode.
Variable tstr : str -> option ty.
Variable T : list str.

Lemma c15_pca_free attrs : Forall c15_line_free (parse_comment_attrs uc attrs).
Proof. apply Forall_forall. intros d H. exact (parse_comment_attrs_no_break uc attrs d H). Qed.

Lemma c15_bind_inv {A B} (m : outcome A) (f : A -> outcome B) r : bind m f = Ok r -> exists a, m = Ok a /\ f a = Ok r.
Proof. destruct m; cbn; try discriminate. eauto. Qed.

Lemma c15_parse_field_free cf ra f rf : parse_field uc tstr cf ra f = Ok rf -> Forall c15_line_free (fcomments rf).
Proof.
  unfold parse_field. intros H. apply c15_bind_inv in H as (t & _ & H).
  destruct (cf && serde_flatten (f_attrs f)); [discriminate|].
  apply c15_bind_inv in H as (d & _ & H). apply c15_bind_inv in H as (i & _ & H). injection H as <-. apply c15_pca_free.
Qed.

Lemma c15_mapM_flat_free {A B} (f : A -> outcome B) (docs : B -> list str) :
  (forall x y, f x = Ok y -> Forall c15_line_free (docs y)) ->
  forall l ys, mapM f l = Ok ys -> Forall c15_line_free (flat_map docs ys).
Proof.
  intros Hf l. induction l as [|x l IH]; intros ys H; cbn [mapM] in H.
  - injection H as <-. constructor.
  - apply c15_bind_inv in H as (y & Hy & H). apply c15_bind_inv in H as (ys' & Hys & H). injection H as <-.
    cbn [flat_map]. apply Forall_app. split; eauto.
Qed.

Lemma c15_fields_free cf ra l fs : mapM (parse_field uc tstr cf ra) l = Ok fs -> Forall c15_line_free (flat_map fcomments fs).
Proof. apply c15_mapM_flat_free. intros x y. apply c15_parse_field_free. Qed.

Lemma c15_mk_alias_free attrs ident gens t it : mk_alias uc attrs ident gens t = Ok it -> Forall c15_line_free (c15_item_docs it).
Proof. unfold mk_alias. intros H. apply c15_bind_inv in H as (i & _ & H). injection H as <-. apply c15_pca_free. Qed.

Theorem c15_parse_struct_free attrs ident gens fs it :
  parse_struct uc tstr T attrs ident gens fs = Ok it -> Forall c15_line_free (c15_item_docs it).
Proof.
  unfold parse_struct. destruct (get_serialized_as_type uc attrs).
  - intros H. apply c15_bind_inv in H as (i & _ & H). apply c15_bind_inv in H as (t & _ & H). injection H as <-. apply c15_pca_free.
  - destruct fs as [l|l|].
    + intros H. apply c15_bind_inv in H as (fields & Hf & H). apply c15_bind_inv in H as (i & _ & H). injection H as <-.
      cbn [c15_item_docs scomments sfields]. apply Forall_app. split; [apply c15_pca_free|exact (c15_fields_free _ _ _ _ Hf)].
    + destruct l as [|f [|f2 r]]; try discriminate. intros H. apply c15_bind_inv in H as (t & _ & H).
      exact (c15_mk_alias_free _ _ _ _ _ H).
    + intros H. apply c15_bind_inv in H as (i & _ & H). injection H as <-.
      cbn [c15_item_docs scomments sfields flat_map]. rewrite app_nil_r. apply c15_pca_free.
Qed.

Lemma c15_parse_variant_free ra v rv : parse_enum_variant uc tstr T ra v = Ok rv -> Forall c15_line_free (c15_variant_docs rv).
Proof.
  unfold parse_enum_variant. intros H. apply c15_bind_inv in H as (i & _ & H). cbv zeta in H.
  destruct (v_fields v) as [l|l|].
  - apply c15_bind_inv in H as (fields & Hf & H). injection H as <-.
    cbn [c15_variant_docs vcomments]. apply Forall_app. split; [apply c15_pca_free|exact (c15_fields_free _ _ _ _ Hf)].
  - destruct l as [|f [|f2 r]]; try discriminate. apply c15_bind_inv in H as (t & _ & H). injection H as <-. apply c15_pca_free.
  - injection H as <-. apply c15_pca_free.
Qed.

Theorem c15_parse_enum_free attrs ident gens vs it :
  parse_enum uc tstr T attrs ident gens vs = Ok it -> Forall c15_line_free (c15_item_docs it).
Proof.
  unfold parse_enum. destruct (get_serialized_as_type uc attrs).
  - intros H. apply c15_bind_inv in H as (i & _ & H). apply c15_bind_inv in H as (t & _ & H). injection H as <-. apply c15_pca_free.
  - cbv zeta. intros H. apply c15_bind_inv in H as (variants & Hv & H). apply c15_bind_inv in H as (i & _ & H).
    assert (Hd : Forall c15_line_free (parse_comment_attrs uc attrs ++ flat_map c15_variant_docs variants)).
    { apply Forall_app. split; [apply c15_pca_free|].
      revert Hv. apply c15_mapM_flat_free. intros x y. apply c15_parse_variant_free. }
    destruct (forallb _ variants); destruct (get_tag_key uc attrs); destruct (get_content_key uc attrs); try discriminate;
      injection H as <-; exact Hd.
Qed.

Theorem c15_parse_type_alias_free attrs ident gens t it :
  parse_type_alias uc tstr attrs ident gens t = Ok it -> Forall c15_line_free (c15_item_docs it).
Proof. unfold parse_type_alias. intros H. apply c15_bind_inv in H as (rt & _ & H). exact (c15_mk_alias_free _ _ _ _ _ H). Qed.

Theorem c15_parse_const_free attrs ident t e it :
  parse_const uc tstr attrs ident t e = Ok it -> Forall c15_line_free (c15_item_docs it).
Proof.
  unfold parse_const. intros H. apply c15_bind_inv in H as (v & _ & H). apply c15_bind_inv in H as (rt & _ & H).
  destruct rt; try discriminate; apply c15_bind_inv in H as (i & _ & H); injection H as <-; constructor.
Qed.
End Front.

(* ---- consequences for the renderers: on doc strings free of line breaks the print orders are free of them too, and the
   `contained iff safe` statements become `contained` ---- *)
Lemma c15_line_free_forallb docs : Forall c15_line_free docs -> forall l b, forallb (c15_safe l b) docs = true.
Proof.
  intros H l b. apply forallb_forall. intros d Hd. apply c15_safe_no_break. rewrite Forall_forall in H. exact (H d Hd).
Qed.

Lemma c15_anon_comment_free e v : c15_line_free e -> c15_line_free v -> c15_line_free (c15_anon_comment e v).
Proof.
  unfold c15_line_free, safe_line, c15_anon_comment. intros He Hv. rewrite !forallb_app, He, Hv. reflexivity.
Qed.

(* ---- Kotlin, parsed items: the comments typeshare generates for helper classes are built from identifiers; on the strict
   input class of C15_kt_item they are free of line breaks, so with line-free doc strings the whole item is contained ---- *)
From Coq Require Import Lia ZifyBool ZifyN.
From TS Require Import Model.Lang.Common Model.Lang.Kotlin Proofs.C15_Kotlin.

Lemma c15_ident_ok_free l s : c15_ident_ok l s = true -> c15_line_free s.
Proof.
  unfold c15_ident_ok, c15_line_free, safe_line. destruct s as [|c r]; [discriminate|]. apply c15_forallb_impl.
  intros x. unfold c15_ident_char, c15_lit_char, eol_lf_cr, ch_nl, ch_cr. lia.
Qed.

Lemma c15_generated_free l lg it : c15_item_strict l lg it = true -> Forall c15_line_free (c15_item_generated it).
Proof.
  destruct it as [s|e|a|c]; try (intros _; constructor). cbn [c15_item_strict c15_item_generated]. set (sh := enum_shared e).
  intros H. repeat (apply andb_true_iff in H as [H ?]).
  assert (He : c15_line_free (original (eid sh))) by (eapply c15_ident_ok_free; eassumption).
  match goal with Hv : forallb (c15_variant_strict l lg) _ = true |- _ => rename Hv into HV end.
  induction (evariants sh) as [|v r IH]; [constructor|]. cbn [forallb] in HV. apply andb_true_iff in HV as [Hv Hr].
  cbn [flat_map]. apply Forall_app. split; [|exact (IH Hr)].
  destruct v as [vsh|t vsh|fs vsh]; try constructor; [|constructor].
  apply c15_anon_comment_free; [exact He|]. unfold c15_variant_strict in Hv. cbn [variant_shared] in Hv.
  repeat (apply andb_true_iff in Hv as [Hv ?]). eapply c15_ident_ok_free; eassumption.
Qed.

Theorem C15_kt_item_line_free (cfg : kt_config) :
  c15_plain C15kt (kt_prefix cfg) = true -> c15_mappings_plain C15kt (kt_type_mappings cfg) = true ->
  forall it text, c15_item_strict C15kt Kotlin it = true -> Forall c15_line_free (c15_item_docs it) ->
  kt_write_item cfg it = Ok text ->
  exists parts,
    text = text_of (c15_file_pieces C15kt parts) /\
    docs_of (c15_file_pieces C15kt parts) = c15_item_docs_helpers_first it /\
    c15_contained C15kt LCode (mark (c15_file_pieces C15kt parts)) = true.
Proof.
  intros Hp Hm it text Hs Hd H. destruct (C15_kt_item cfg Hp Hm it text Hs H) as (ps & Ht & Hdocs & Hc).
  exists ps. repeat split; auto. rewrite Hc, c15_helpers_first_safe. change safe_kt with (c15_safe C15kt false).
  rewrite (c15_line_free_forallb _ (c15_generated_free _ _ _ Hs) C15kt false).
  exact (c15_line_free_forallb _ Hd C15kt false).
Qed.
