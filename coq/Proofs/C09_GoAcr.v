(* C09 for Go under EVERY alphanumeric uppercase_acronyms list (ASCII programs).

   Part 1  the Spec's reading of acronyms_to_uppercase (c09_acr_conv: one pass per acronym over the ORIGINAL
           name) is the closed form of Proofs/GoAcronyms.v, hence the model's conversion on ASCII input; it
           only changes the ASCII case of letters (so a converted name still denotes the same item).
   Part 2  language-level: an observation in which every definition is declared under the CONVERTED table
           name (two passes for the ...Inner helper), every reference from a field / payload is the converted
           name of a generic parameter or of the mentioned item, every reference from an alias target / const
           type the unconverted one, and the helper is referred to as conv (conv (E ++ conv V ++ Inner)),
           satisfies good_C09 outside the recorded classes (C09-go-acronym-target, -generic, -inner and the
           rename classes).
   Part 3  go_file_decls has that shape. *)
From Coq Require Import List Bool String Arith Lia Permutation ZifyBool ZifyN.
From TS Require Import Model.Str Model.Outcome Model.Unicode Model.Rename Model.Types Model.Parse Model.Reconcile Model.TopsortAlgo Model.Topsort
                       Model.Lang.Common Model.Lang.Decl Model.Lang.Go Spec.C09Spec.
From TS Require Import Proofs.GoAcronyms Proofs.C09Common Proofs.C09Recon Proofs.C09Refs Proofs.C09Lang Proofs.C09_Kotlin Proofs.C09_Go.
From TS Require Proofs.C09Witness.
Import ListNotations.
Local Notation length := List.length (only parsing).

(* ================================================================== Part 1: the spec-level conversion *)
Lemma c09_capitalise_pascal a : c09_capitalise a = to_pascal_case a.
Proof. reflexivity. Qed.

Lemma c09_matches_ge f p s off : Forall (fun i => (off <= i)%nat) (ga_matches f p s off).
Proof.
  eapply Forall_impl; [|apply ga_matches_occ]. cbn beta. intros i (k & -> & _). lia.
Qed.

Lemma c09_existsb_false {A} (f : A -> bool) l : (forall x, In x l -> f x = false) -> existsb f l = false.
Proof. intros H. apply not_true_is_false. intros E. apply existsb_exists in E as (x & Hx & E). rewrite (H x Hx) in E. discriminate. Qed.

Lemma c09_accept_local pre s n :
  ga_accept (pre ++ s) (length pre) n = match skipn n s with x :: _ => negb (is_alower x) | [] => true end.
Proof.
  unfold ga_accept. rewrite nth_error_app2 by lia. replace (length pre + n - length pre)%nat with n by lia.
  revert s. induction n as [|n IH]; intros [|c r]; cbn [nth_error skipn]; try reflexivity. apply IH.
Qed.

(* one pass of the Spec over a suffix [s] of the name = marking the accepted leftmost non-overlapping matches *)
Lemma c09_pass_apply p name : p <> [] -> forall f pre s cov, name = pre ++ s -> (length s < f)%nat ->
  c09_acr_pass f p s (ga_apply cov (length pre) s) =
  ga_apply (fun k => cov k || existsb (fun i => ga_accept name i (length p) && ga_in i (length p) k) (ga_matches f p s (length pre)))
           (length pre) s.
Proof.
  intros Hp. induction f as [|f IH]; intros pre s cov Hn Hf; [lia|].
  destruct s as [|c r]; [reflexivity|].
  assert (Enil : c09_is_nil p = false) by (destruct p; [congruence|reflexivity]).
  assert (Hacc : ga_accept name (length pre) (length p) = match skipn (length p) (c :: r) with x :: _ => negb (is_alower x) | [] => true end)
    by (rewrite Hn; apply c09_accept_local).
  change (ga_apply cov (length pre) (c :: r)) with ((if cov (length pre) then aupper c else c) :: ga_apply cov (S (length pre)) r) at 1.
  cbn [c09_acr_pass ga_matches]. rewrite Enil. cbn [negb]. rewrite andb_true_r. rewrite <- Hacc. clear Hacc.
  destruct (starts_with p (c :: r)) eqn:E.
  - (* a match here *)
    remember ((if cov (length pre) then aupper c else c) :: ga_apply cov (S (length pre)) r) as cur eqn:Ecur.
    apply ga_starts_with in E. pose proof (ga_firstn_eq_len _ _ E) as HL.
    assert (Lp : (0 < length p)%nat) by (destruct p; [congruence|cbn [length]; lia]).
    set (s2 := skipn (length p) (c :: r)) in *.
    assert (Es : c :: r = p ++ s2) by (subst s2; rewrite <- E at 1; symmetry; apply firstn_skipn).
    assert (Ecur2 : cur = ga_apply cov (length pre) p ++ ga_apply cov (length pre + length p) s2).
    { rewrite Ecur. change ((if cov (length pre) then aupper c else c) :: ga_apply cov (S (length pre)) r) with (ga_apply cov (length pre) (c :: r)).
      rewrite Es. apply ga_apply_app. }
    rewrite Ecur2. rewrite ga_firstn_app_len by apply ga_apply_length. rewrite ga_skipn_app_len by apply ga_apply_length.
    assert (Hn2 : name = (pre ++ p) ++ s2) by (rewrite <- app_assoc, <- Es; exact Hn).
    assert (Lpp : length (pre ++ p) = (length pre + length p)%nat) by apply app_length.
    assert (Ls2 : (length s2 < f)%nat) by (subst s2; rewrite skipn_length; cbn [length] in *; lia).
    pose proof (IH (pre ++ p) s2 cov Hn2 Ls2) as IH2. rewrite Lpp in IH2. rewrite IH2.
    rewrite Es. rewrite ga_apply_app. f_equal.
    + (* the matched window *)
      destruct (ga_accept name (length pre) (length p)) eqn:Acc.
      * symmetry. apply ga_apply_true. intros j Hj. cbn [existsb]. rewrite Acc. unfold ga_in at 1.
        replace (length pre <=? j)%nat with true by lia. replace (j <? length pre + length p)%nat with true by lia.
        cbn [andb]. now rewrite orb_true_r.
      * apply ga_apply_ext. intros j Hj. cbn [existsb]. rewrite Acc. cbn [andb orb]. symmetry.
        rewrite c09_existsb_false; [now rewrite orb_false_r|].
        intros i Hi. pose proof (c09_matches_ge f p s2 (length pre + length p)) as G. rewrite Forall_forall in G. specialize (G i Hi).
        unfold ga_in. replace (i <=? j)%nat with false by lia. cbn [andb]. apply andb_false_r.
    + (* after it *)
      apply ga_apply_ext. intros j Hj. cbn [existsb]. unfold ga_in.
      replace (j <? length pre + length p)%nat with false by lia. rewrite !andb_false_r. reflexivity.
  - (* no match here *)
    assert (Hn2 : name = (pre ++ [c]) ++ r) by (rewrite <- app_assoc; exact Hn).
    assert (Lpc : length (pre ++ [c]) = S (length pre)) by (rewrite app_length; cbn [length]; lia).
    assert (Lr : (length r < f)%nat) by (cbn [length] in Hf; lia).
    pose proof (IH (pre ++ [c]) r cov Hn2 Lr) as IH2. rewrite Lpc in IH2. rewrite IH2.
    cbn [ga_apply]. f_equal.
    rewrite c09_existsb_false; [now rewrite orb_false_r|].
    intros i Hi. pose proof (c09_matches_ge f p r (S (length pre))) as G. rewrite Forall_forall in G. specialize (G i Hi).
    unfold ga_in. replace (i <=? length pre)%nat with false by lia. cbn [andb]. apply andb_false_r.
Qed.

(* the whole conversion of the Spec is the closed form *)
Theorem c09_acr_conv_result acrs name : c09_acr_conv acrs name = ga_result (map to_pascal_case acrs) name.
Proof.
  unfold c09_acr_conv, ga_result.
  assert (G : forall cov, fold_left (fun res a => c09_acr_pass (S (length name)) (c09_capitalise a) name res) acrs (ga_apply cov 0 name) =
                          ga_apply (fun k => cov k || ga_cover (map to_pascal_case acrs) name k) 0 name).
  { induction acrs as [|a r IH]; intros cov; cbn [fold_left map].
    - apply ga_apply_ext. intros j _. cbn. now rewrite orb_false_r.
    - rewrite c09_capitalise_pascal. set (p := to_pascal_case a).
      assert (E : c09_acr_pass (S (length name)) p name (ga_apply cov 0 name) = ga_apply (fun k => cov k || ga_cover1 p name k) 0 name).
      { destruct p as [|x p'] eqn:Ep.
        - (* an empty pattern never matches in the Spec and covers nothing in the closed form *)
          transitivity (ga_apply cov 0 name).
          + generalize (ga_apply cov 0 name) as cur. generalize (S (length name)) as f. intros f. generalize name as o.
            induction f as [|f IHf]; intros o cur; [reflexivity|]. cbn [c09_acr_pass]. destruct o as [|oc o']; [reflexivity|].
            destruct cur as [|cc cur']; [reflexivity|]. cbn [starts_with c09_is_nil negb andb]. now rewrite IHf.
          + apply ga_apply_ext. intros j _. now rewrite ga_cover1_nil, orb_false_r.
        - rewrite <- Ep. assert (Hp : p <> []) by (rewrite Ep; discriminate).
          pose proof (c09_pass_apply p name Hp (S (length name)) [] name cov eq_refl (Nat.lt_succ_diag_r _)) as H.
          cbn [length] in H. rewrite H. apply ga_apply_ext. intros j _. unfold ga_cover1, ga_idx. rewrite Ep. reflexivity. }
      rewrite E, IH. apply ga_apply_ext. intros j _. unfold ga_cover. cbn [existsb]. fold p. now rewrite orb_assoc. }
  rewrite <- (ga_apply_false (fun _ => false) 0 name) at 1 by reflexivity. rewrite G. reflexivity.
Qed.

(* the conversion only changes the ASCII case of letters: underscores stay, the folded form is kept *)
Lemma c09_fold_pointwise s r : Forall2 (fun c x => x = c \/ x = aupper c) s r -> c09_fold r = c09_fold s.
Proof.
  unfold c09_fold, remove_char. induction 1 as [|c x s r Hc _ IH]; [reflexivity|]. cbn [filter].
  assert (E1 : (x =? ch_us)%N = (c =? ch_us)%N /\ alower x = alower c).
  { destruct Hc as [->| ->]; [auto|]. unfold aupper, alower, is_alower, is_aupper, ch_us.
    destruct ((97 <=? c)%N && (c <=? 122)%N) eqn:E; [|auto]. split; [lia|].
    destruct ((65 <=? c - 32)%N && (c - 32 <=? 90)%N) eqn:F; destruct ((65 <=? c)%N && (c <=? 90)%N) eqn:G; lia. }
  destruct E1 as [E1 E2]. rewrite E1. destruct (c =? ch_us)%N; cbn [negb map]; [exact IH|]. now rewrite E2, IH.
Qed.

Lemma c09_conv_fold acrs s : c09_fold (c09_acr_conv acrs s) = c09_fold s.
Proof. rewrite c09_acr_conv_result. unfold ga_result. apply c09_fold_pointwise, ga_apply_pointwise. Qed.

Lemma c09_conv_name_eqb acrs s : c09_name_eqb Go (c09_acr_conv acrs s) s = true.
Proof. cbn [c09_name_eqb]. rewrite c09_conv_fold. apply str_eqb_refl. Qed.

(* ================================================================== Part 2: the shape of a Go observation *)
Section GoShape.
Variables (acrs : list str) (pd : parsed).
Notation conv := (c09_acr_conv acrs).
Let ents := c09_entities pd.

(* the name a definition is declared under: the converted table name (two passes for the helper struct) *)
Definition c09_go_dn (e : c09_entity) : str :=
  match c9e_kind e with
  | C9KInner => conv (conv (c09_def_name Go [] e))
  | _ => conv (c09_def_name Go [] e)
  end.
(* a name mentioned in a field / payload is converted, one mentioned in an alias target / const type is not *)
Definition c09_go_rw (pos : c09_pos) (n : str) : str := if c09_go_rewritten_pos pos then conv n else n.

Inductive c09_go_ref_shape (r : c09_ref) : Prop :=
| GS_generic (j : c09_entity) (tp : c09_tpos) (form : c09_form) (g : str) :
    In j (c09_entities pd) -> c9_in r = c09_go_dn j -> In tp (c09_tposs pd) -> c9e_generics j = c9t_generics tp ->
    In (form, g) (c09_type_ids (c9t_type tp)) -> In g (c9t_generics tp) ->
    c9_pos r = c9t_pos tp -> c9_name r = c09_go_rw (c9t_pos tp) g -> c09_go_ref_shape r
| GS_type (tp : c09_tpos) (form : c09_form) (i : str) (e : c09_entity) :
    In tp (c09_tposs pd) -> In (form, i) (c09_type_ids (c9t_type tp)) -> c09_lookup pd i = Some e ->
    c9_pos r = c9t_pos tp ->
    c9_name r = c09_go_rw (c9t_pos tp) (c09_pick (c09_type_ref_which form (c9t_pos tp)) (c9e_id e)) -> c09_go_ref_shape r
| GS_inner (e : renum) (fs : list rfield) (vsh : vshared) :
    In e (p_enums pd) -> In (VAnon fs vsh) (evariants (enum_shared e)) -> c9_pos r = C9Payload ->
    c9_name r = conv (conv (original (eid (enum_shared e)) ++ conv (original (vid vsh)) ++ lit "Inner")) -> c09_go_ref_shape r.

Record c09_go_shape (obs : c09_obs) : Prop := {
  c9g_complete : forall e, In e (c09_entities pd) -> In (c09_go_dn e) (c9_defs obs);
  c9g_sound : forall d, In d (c9_defs obs) -> exists e, In e (c09_entities pd) /\ d = c09_go_dn e;
  c9g_refs : forall r, In r (c9_refs obs) -> c09_go_ref_shape r }.

Variable obs : c09_obs.
Hypothesis Hdom : dom_C09 Go [] pd = true.
Hypothesis Hknown : known_C09 Go [] acrs pd = None.
Hypothesis Hshape : c09_go_shape obs.
Let Hpw : c09_pairwise (c09_sep Go []) ents = true := c09_dom_pairwise Go [] pd Hdom.

Lemma c09_go_class_none x : In x (c09_classes Go [] acrs pd) -> x = None.
Proof. apply c09_first_none. exact Hknown. Qed.

Lemma c09_go_dn_denotes e : c09_denotes Go [] e (c09_go_dn e) = true.
Proof.
  eapply c09_denotes_trans; [|apply c09_denotes_spelling, (c09_pick_spelling [] (c09_def_which Go (c9e_kind e)) e)].
  fold (c09_def_name Go [] e). unfold c09_go_dn. destruct (c9e_kind e); try apply c09_conv_name_eqb.
  eapply c09_name_eqb_trans; apply c09_conv_name_eqb.
Qed.

Lemma c09_go_defined_as_ok e : In e ents -> c09_defined_as Go [] (c9_defs obs) e = Some (c09_go_dn e).
Proof.
  intros He. unfold c09_defined_as.
  destruct (find (c09_denotes Go [] e) (c9_defs obs)) as [d|] eqn:F.
  - apply find_some in F as [Hd Dd]. destruct (c9g_sound _ Hshape d Hd) as (e' & He' & ->).
    f_equal. assert (e = e') as <-; [|reflexivity].
    eapply c09_unamb_eq; [exact Hpw|exact He|exact He'|exact Dd|apply c09_go_dn_denotes].
  - exfalso. eapply find_none in F; [|apply (c9g_complete _ Hshape e He)]. rewrite c09_go_dn_denotes in F. discriminate.
Qed.

Lemma c09_go_target_ok owner r e :
  In e ents -> c9_name r = c09_go_dn e -> c9_pos r <> C9Parent -> c09_target_ok Go [] ents (c9_defs obs) owner r = true.
Proof.
  intros He Hn Hp. unfold c09_target_ok.
  assert (c09_denotes Go [] e (c9_name r) = true) as Dn by (rewrite Hn; apply c09_go_dn_denotes).
  rewrite (c09_find_unamb Go [] ents e (c9_name r) Hpw He Dn). rewrite (c09_go_defined_as_ok e He).
  apply andb_true_iff. split; [apply str_eqb_eq; exact Hn|]. destruct (c9_pos r); try reflexivity. congruence.
Qed.

Lemma c09_go_ref_ok_of_target r :
  c9_pos r <> C9Parent -> (forall owner, c09_target_ok Go [] ents (c9_defs obs) owner r = true) ->
  c09_ref_ok Go [] ents (c9_defs obs) r = true.
Proof.
  intros Hp H. unfold c09_ref_ok. destruct (find _ ents) as [j|]; [|apply H].
  destruct (mem_str (c9_name r) (c9e_generics j) && negb (c09_pos_eqb (c9_pos r) C9Parent)); [reflexivity|apply H].
Qed.

Lemma c09_changes_false s : c09_acr_changes acrs s = false -> conv s = s.
Proof. unfold c09_acr_changes. intros H. apply negb_false_iff in H. now apply str_eqb_eq. Qed.

Lemma c09_go_shape_ref_ok r : c09_go_ref_shape r -> c09_ref_ok Go [] ents (c9_defs obs) r = true.
Proof.
  intros [j tp form g Hj Hin Htp Hgj Hid Hg Hpos Hn | tp form i e Htp Hid Hlk Hpos Hn | e fs vsh He Hv Hpos Hn].
  - (* a generic parameter: converted at a field / payload, but then the class says the conversion leaves it alone *)
    assert (Hname : c9_name r = g).
    { rewrite Hn. unfold c09_go_rw. destruct (c09_go_rewritten_pos (c9t_pos tp)) eqn:Erw; [|reflexivity].
      apply c09_changes_false.
      assert (c09_generic_acronym_class Go acrs tp g = None) as Hc.
      { apply c09_go_class_none. unfold c09_classes. rewrite !in_app_iff. do 4 right. apply in_flat_map. exists tp. split; [exact Htp|].
        apply in_map_iff. exists (form, g). split; [reflexivity|exact Hid]. }
      unfold c09_generic_acronym_class in Hc. rewrite Erw in Hc. pose proof Hg as Hg'. apply c09_mem_str_in in Hg'. rewrite Hg' in Hc. cbn [andb] in Hc.
      destruct (c09_acr_changes acrs g); [discriminate|reflexivity]. }
    unfold c09_ref_ok.
    assert (c09_denotes Go [] j (c9_in r) = true) as Dj by (rewrite Hin; apply c09_go_dn_denotes).
    rewrite (c09_find_unamb Go [] ents j (c9_in r) Hpw Hj Dj).
    rewrite Hname, Hgj. apply c09_mem_str_in in Hg. rewrite Hg.
    pose proof (c09_tposs_pos pd tp Htp) as Hpp. rewrite Hpos. destruct (c9t_pos tp); try reflexivity. congruence.
  - (* a mentioned item *)
    destruct (c09_lookup_in pd i e Hlk) as (He & Ho & Hk).
    pose proof (c09_item_suffix pd e He Hk) as Hs.
    pose proof (c09_tposs_pos pd tp Htp) as Hpp.
    apply c09_go_ref_ok_of_target; [rewrite Hpos; exact Hpp|]. intros owner.
    apply (c09_go_target_ok owner r e He); [|rewrite Hpos; exact Hpp].
    assert (Hdn : c09_go_dn e = conv (c09_pick (c09_def_which Go (c9e_kind e)) (c9e_id e))).
    { unfold c09_go_dn, c09_def_name. rewrite Hs, app_nil_r. cbn [app]. destruct (c9e_kind e); try reflexivity. exfalso. apply Hk. reflexivity. }
    assert (Hw : c09_pick (c09_type_ref_which form (c9t_pos tp)) (c9e_id e) = c09_pick (c09_def_which Go (c9e_kind e)) (c9e_id e)).
    { assert (c09_type_site_class Go form (c9t_pos tp) e = None) as Hc.
      { apply c09_go_class_none. unfold c09_classes. apply in_or_app. left. apply in_flat_map. exists tp. split; [exact Htp|].
        unfold c09_tpos_classes. apply in_flat_map. exists (form, i). split; [exact Hid|]. cbn [snd fst]. rewrite Hlk. left. reflexivity. }
      unfold c09_type_site_class in Hc.
      destruct (c09_renamed_away (c9e_id e)) eqn:Era; [|apply c09_pick_eq; right; exact Era].
      destruct (c09_which_eqb (c09_def_which Go (c9e_kind e)) (c09_type_ref_which form (c9t_pos tp))) eqn:Ew; [|cbn [andb negb] in Hc; discriminate].
      apply c09_pick_eq. left. destruct (c09_def_which Go (c9e_kind e)), (c09_type_ref_which form (c9t_pos tp)); try discriminate; reflexivity. }
    rewrite Hn, Hdn, Hw. unfold c09_go_rw. destruct (c09_go_rewritten_pos (c9t_pos tp)) eqn:Erw; [reflexivity|].
    symmetry. apply c09_changes_false.
    assert (c09_acronym_class Go acrs (c9t_pos tp) e = None) as Hc.
    { apply c09_go_class_none. unfold c09_classes. apply in_or_app. left. apply in_flat_map. exists tp. split; [exact Htp|].
      unfold c09_tpos_classes. apply in_flat_map. exists (form, i). split; [exact Hid|]. cbn [snd fst]. rewrite Hlk. right. left. reflexivity. }
    unfold c09_acronym_class in Hc. unfold c09_pick.
    destruct (c9t_pos tp); try discriminate Erw; try (exfalso; apply Hpp; reflexivity);
      (destruct (c09_acr_changes acrs _); [discriminate|reflexivity]).
  - (* the helper struct of a struct variant *)
    apply c09_go_ref_ok_of_target; [rewrite Hpos; discriminate|]. intros owner.
    apply (c09_go_target_ok owner r (c09_ent_inner e vsh)); [eapply c09_in_inner; eassumption| |rewrite Hpos; discriminate].
    assert (c09_inner_acronym_class Go acrs (original (eid (enum_shared e))) (original (vid vsh)) = None) as Hc.
    { apply c09_go_class_none. unfold c09_classes. rewrite !in_app_iff. do 3 right. left. apply in_flat_map. exists e. split; [exact He|].
      cbv zeta. apply in_flat_map. exists (VAnon fs vsh). split; [exact Hv|left; reflexivity]. }
    unfold c09_inner_acronym_class in Hc. cbv zeta in Hc.
    destruct (str_eqb _ _) eqn:E in Hc; [|discriminate]. apply str_eqb_eq in E.
    rewrite Hn. unfold c09_go_dn, c09_def_name, c09_ent_inner. cbn [c9e_kind c9e_id c9e_suffix c09_def_which c09_pick app]. symmetry. exact E.
Qed.

Theorem c09_go_shape_good : good_C09 Go [] pd obs = true.
Proof.
  unfold good_C09. apply forallb_forall. intros r Hr. apply c09_go_shape_ref_ok. apply (c9g_refs _ Hshape). exact Hr.
Qed.
End GoShape.

(* ================================================================== Part 3: go_file_decls has the shape *)
(* ------------------------------------------------------------------ builtin names survive the conversion *)
Lemma c09_apply_id cov k s :
  (forall j c, nth_error s j = Some c -> cov (k + j)%nat = true -> is_alower c = false) -> ga_apply cov k s = s.
Proof.
  revert k. induction s as [|c r IH]; intros k H; cbn [ga_apply]; [reflexivity|]. f_equal.
  - destruct (cov k) eqn:E; [|reflexivity]. apply ga_aupper_fix. apply (H O c eq_refl). now rewrite Nat.add_0_r.
  - apply IH. intros j x Hj Hc. apply (H (S j) x Hj). now rewrite Nat.add_succ_r.
Qed.

(* the lower-case prefix of a name is dropped *)
Fixpoint c09_dropl (s : str) : str := match s with c :: r => if is_alower c then c09_dropl r else s | [] => [] end.
(* lower-case letters first, then no lower-case letter: string, uint32, struct{}, T *)
Definition c09_low_up (s : str) : bool := forallb (fun c => negb (is_alower c)) (c09_dropl s).

Lemma c09_dropl_spec s : exists l, s = l ++ c09_dropl s /\ Forall (fun c => is_alower c = true) l.
Proof.
  induction s as [|c r (l & E & Hl)]; [exists []; split; [reflexivity|constructor]|]. cbn [c09_dropl].
  destruct (is_alower c) eqn:Ec; [exists (c :: l); split; [cbn [app]; now rewrite <- E|now constructor]|exists []; split; [reflexivity|constructor]].
Qed.

Lemma c09_nth_skipn_head {A} (s : list A) i x t : skipn i s = x :: t -> nth_error s i = Some x.
Proof. revert s. induction i as [|i IH]; intros [|c r]; cbn [skipn nth_error]; try discriminate; [intros [= -> _]; reflexivity|apply IH]. Qed.

Lemma c09_occ_head x p s i : ga_occ (x :: p) s i -> nth_error s i = Some x.
Proof.
  intros [H _]. destruct (skipn i s) as [|y t] eqn:E; cbn [length firstn] in H; [discriminate|].
  injection H as -> _. exact (c09_nth_skipn_head s i x t E).
Qed.

(* a name made of lower-case letters followed by no lower-case letter is left alone by every pattern that
   begins with a non-lower-case character *)
Lemma c09_result_low_up pats s :
  Forall (fun p => match p with x :: _ => is_alower x = false | [] => True end) pats ->
  c09_low_up s = true -> ga_result pats s = s.
Proof.
  intros Hp Hs. unfold ga_result. apply c09_apply_id. cbn [plus]. intros k c Hk Hc.
  unfold ga_cover in Hc. apply existsb_exists in Hc as (p & Hin & Hc). rewrite Forall_forall in Hp. specialize (Hp p Hin).
  destruct p as [|x p']; [now rewrite ga_cover1_nil in Hc|].
  unfold ga_cover1 in Hc. apply existsb_exists in Hc as (i & Hi & Hc). apply andb_true_iff in Hc as [_ Hc].
  pose proof (ga_idx_occ (x :: p') s) as Ho. rewrite Forall_forall in Ho. specialize (Ho i Hi). apply c09_occ_head in Ho.
  unfold ga_in in Hc.
  destruct (c09_dropl_spec s) as (l & E & Hl). unfold c09_low_up in Hs. rewrite forallb_forall in Hs.
  assert (Hil : (length l <= i)%nat).
  { destruct (Nat.lt_ge_cases i (length l)) as [Lt|Ge]; [|exact Ge]. exfalso.
    rewrite E in Ho. rewrite nth_error_app1 in Ho by exact Lt. apply nth_error_In in Ho. rewrite Forall_forall in Hl.
    rewrite (Hl x Ho) in Hp. discriminate. }
  rewrite E in Hk. rewrite nth_error_app2 in Hk by lia. apply nth_error_In in Hk. specialize (Hs c Hk).
  now apply negb_true_iff in Hs.
Qed.

Lemma c09_apply_keeps cov k s c : is_alower c = false -> In c s -> In c (ga_apply cov k s).
Proof.
  intros Hc. revert k. induction s as [|x r IH]; intros k Hin; [destruct Hin|]. cbn [ga_apply].
  destruct Hin as [->|Hin]; [left; destruct (cov k); [now apply ga_aupper_fix|reflexivity]|right; now apply IH].
Qed.

Lemma c09_go_builtins_low_up : forallb c09_low_up (c09_builtins Go) = true.
Proof. vm_compute. reflexivity. Qed.

Lemma c09_builtin_conv pats n :
  Forall (fun p => match p with x :: _ => is_alower x = false | [] => True end) pats ->
  c09_builtin Go n = true -> c09_builtin Go (ga_result pats n) = true.
Proof.
  intros Hp H. unfold c09_builtin in *. apply orb_true_iff in H as [H|H].
  - rewrite (c09_result_low_up pats n Hp); [now rewrite H|].
    unfold mem_str in H. apply existsb_exists in H as (b & Hb & E). apply str_eqb_eq in E. subst b.
    pose proof c09_go_builtins_low_up as A. rewrite forallb_forall in A. now apply A.
  - apply orb_true_iff. right. unfold contains_char in *. apply existsb_exists in H as (c & Hc & E). apply N.eqb_eq in E. subst c.
    apply existsb_exists. exists c09_ch_dot. split; [|apply N.eqb_refl]. unfold ga_result. now apply c09_apply_keeps.
Qed.

(* ------------------------------------------------------------------ names of a converted type *)
Lemma c09_names_ty_map T x : texp_names (go_obs_ty (ga_ty_map T x)) = map T (texp_names (go_obs_ty x)).
Proof.
  induction x as [n args IH|e IH|n e IH|k v IHk IHv|e IH|s] using ga_go_ty_ind; cbn [ga_ty_map go_obs_ty texp_names map].
  - f_equal. induction IH as [|a r Ha _ IHr]; [reflexivity|]. cbn [map flat_map]. now rewrite map_app, Ha, IHr.
  - exact IH.
  - exact IH.
  - now rewrite map_app, IHk, IHv.
  - exact IH.
  - reflexivity.
Qed.

Lemma c09_ids_snd t : ga_rtype_ids t = map snd (c09_type_ids t).
Proof.
  induction t using rtype_ind'; cbn [ga_rtype_ids c09_type_ids map snd]; try assumption; try reflexivity.
  - f_equal. induction H as [|p r Hp _ IH]; [reflexivity|]. cbn [flat_map]. now rewrite map_app, Hp, IH.
  - now rewrite map_app, IHt1, IHt2.
Qed.

(* ------------------------------------------------------------------ from items to the file (Go naming) *)
Section GoFile.
Variables (acrs : list str) (pd : parsed).
Hypothesis Hdom : dom_C09 Go [] pd = true.
Let rn := c09_rn pd.
Let pd' := c09_reconciled pd.
Notation conv := (c09_acr_conv acrs).
Notation dn := (c09_go_dn acrs).
Notation gshape := (c09_go_ref_shape acrs pd).

Definition c09_go_ownercond (tp : c09_tpos) (owner : str) : Prop :=
  c9t_generics tp = [] \/ exists j, In j (c09_entities pd) /\ owner = dn j /\ c9e_generics j = c9t_generics tp.
Definition c09_go_decl_ok (d : decl) : Prop :=
  (c09_is_def d = true -> exists en, In en (c09_entities pd) /\ d_name d = dn en) /\
  (forall r, In r (c09_decl_refs Go d) -> gshape r).
Definition c09_go_has_def (g : list decl) (en : c09_entity) : Prop :=
  exists d, In d g /\ c09_is_def d = true /\ d_name d = dn en.

Lemma c09_go_decl_ok_helper d : d_kind d = DHelper -> c09_go_decl_ok d.
Proof. intros K. split; [unfold c09_is_def; rewrite K; discriminate|]. unfold c09_decl_refs. rewrite K. intros r []. Qed.

Definition c09_go_item_ok (it' : ritem) (g : list decl) : Prop :=
  (forall d, In d g -> c09_go_decl_ok d) /\
  match it' with
  | ItStruct s' => forall s, In s (p_structs pd) -> s' = c09_rs rn s -> c09_go_has_def g (c09_ent_struct s)
  | ItEnum e' => forall e, In e (p_enums pd) -> e' = c09_re rn e ->
                 c09_go_has_def g (c09_ent_enum e) /\
                 (forall fs vsh, In (VAnon fs vsh) (evariants (enum_shared e)) -> c09_go_has_def g (c09_ent_inner e vsh))
  | ItAlias a' => forall a, In a (p_aliases pd) -> a' = c09_ra rn a -> c09_go_has_def g (c09_ent_alias a)
  | ItConst _ => True
  end.

Theorem c09_go_shape_of_items (R : ritem -> list decl -> Prop) (extra : list decl) (groups : list (list decl)) (fd : file_decls) :
  (forall d, In d (fd_decls fd) <-> In d extra \/ exists g, In g groups /\ In d g) ->
  (forall d, In d extra -> d_kind d = DHelper) ->
  (forall it', In it' (items_of pd') -> c09_is_const it' = false -> exists g, In g groups /\ R it' g) ->
  (forall g, In g groups -> exists it', In it' (items_of pd') /\ R it' g) ->
  (forall it' g, In it' (items_of pd') -> R it' g -> c09_go_item_ok it' g) ->
  c09_go_shape acrs pd (c09_observe Go fd).
Proof.
  intros Hfd Hextra Hcomp Hsound Hok.
  assert (Hall : forall d, In d (fd_decls fd) -> c09_go_decl_ok d).
  { intros d Hd. apply Hfd in Hd as [Hd|(g & Hg & Hd)]; [apply c09_go_decl_ok_helper, Hextra, Hd|].
    destruct (Hsound g Hg) as (it' & Hit & HR). apply (Hok it' g Hit HR). exact Hd. }
  assert (Hdef : forall it' en, In it' (items_of pd') -> c09_is_const it' = false ->
            (forall g, c09_go_item_ok it' g -> c09_go_has_def g en) -> In (dn en) (c9_defs (c09_observe Go fd))).
  { intros it' en Hit Hc K. destruct (Hcomp it' Hit Hc) as (g & Hg & HR). destruct (K g (Hok it' g Hit HR)) as (d & Hd & Hdef & Hn).
    unfold c09_observe. cbn [c9_defs]. apply in_map_iff. exists d. split; [exact Hn|]. apply filter_In. split; [|exact Hdef].
    apply Hfd. right. exists g. auto. }
  constructor.
  - intros e He. unfold c09_entities in He. rewrite !in_app_iff, in_flat_map, !in_map_iff in He.
    destruct He as [(s & <- & Hs)|[(en & Hen & He)|(a & <- & Ha)]].
    + apply (Hdef (ItStruct (c09_rs rn s))); [apply (c09_items_struct pd Go [] Hdom); exact Hs|reflexivity|]. intros g [_ K]. exact (K s Hs eq_refl).
    + unfold c09_enum_entities in He. destruct He as [<-|He].
      * apply (Hdef (ItEnum (c09_re rn en))); [apply (c09_items_enum pd Go [] Hdom); exact Hen|reflexivity|]. intros g [_ K]. exact (proj1 (K en Hen eq_refl)).
      * apply in_flat_map in He as (v & Hv & He). destruct v as [vsh|t vsh|fs vsh]; [destruct He|destruct He|]. destruct He as [<-|[]].
        apply (Hdef (ItEnum (c09_re rn en))); [apply (c09_items_enum pd Go [] Hdom); exact Hen|reflexivity|]. intros g [_ K].
        exact (proj2 (K en Hen eq_refl) fs vsh Hv).
    + apply (Hdef (ItAlias (c09_ra rn a))); [apply (c09_items_alias pd Go [] Hdom); exact Ha|reflexivity|]. intros g [_ K]. exact (K a Ha eq_refl).
  - intros n Hn. unfold c09_observe in Hn. cbn [c9_defs] in Hn. apply in_map_iff in Hn as (d & <- & Hd). apply filter_In in Hd as [Hd Hdef'].
    exact (proj1 (Hall d Hd) Hdef').
  - intros r Hr. unfold c09_observe in Hr. cbn [c9_refs] in Hr. apply in_flat_map in Hr as (d & Hd & Hr). exact (proj2 (Hall d Hd) r Hr).
Qed.

(* the names a back end spells for a type position -> reference shapes: every mentioned id [i'] is spelled
   converted in a field / payload and verbatim in an alias target / const type *)
Lemma c09_go_type_refs_shape tp owner x :
  In tp (c09_tposs pd) ->
  (forall n, In n (texp_names x) -> c09_builtin Go n = true \/
             exists form i', In (form, i') (c09_type_ids (c09_recon_type pd tp)) /\ n = c09_go_rw acrs (c9t_pos tp) i') ->
  c09_go_ownercond tp owner ->
  forall r, In r (c09_type_refs Go owner (c9t_pos tp) x) -> gshape r.
Proof.
  intros Htp Hnames Hown r Hr. unfold c09_type_refs in Hr. apply in_map_iff in Hr as (n & <- & Hn). apply filter_In in Hn as [Hn Hb].
  apply negb_true_iff in Hb. destruct (Hnames n Hn) as [C|(form & i' & Hi & ->)]; [congruence|].
  destruct (c09_mention pd Go [] Hdom tp form i' Htp Hi) as [[Hg Hi0]|(i & e & Hi0 & Hlk & E)].
  - destruct Hown as [E|(j & A & B & C)]; [rewrite E in Hg; destruct Hg|].
    eapply GS_generic with (j := j) (tp := tp) (form := form) (g := i'); cbn [c9_in c9_pos c9_name]; try assumption; reflexivity.
  - eapply GS_type with (tp := tp) (form := form) (i := i) (e := e); cbn [c9_in c9_pos c9_name]; try assumption; try reflexivity.
    now rewrite E.
Qed.
End GoFile.

(* ------------------------------------------------------------------ the model, under alphanumeric acronyms, on an ASCII program *)
(* every type_mappings value, every name of a typeshared item (original and renamed, and the names of the
   struct variants that get a helper struct) and every type name mentioned in a type position is ASCII *)
Definition c09_go_ascii (cfg : go_config) (pd : parsed) : bool :=
  forallb (fun kv => forallb is_ascii (snd kv)) (go_type_mappings cfg) &&
  forallb (fun e => forallb is_ascii (original (c9e_id e)) && forallb is_ascii (renamed (c9e_id e)) && forallb is_ascii (c9e_suffix e))
          (c09_entities pd) &&
  forallb (fun tp => forallb (fun fi => forallb is_ascii (snd fi)) (c09_type_ids (c9t_type tp))) (c09_tposs pd).

Section GOA.
Variable uc : unicode.
Hypothesis Huc : unicode_ok uc.
Variable cfg : go_config.
Hypothesis Hacr : forallb (forallb ga_alnum) (go_uppercase_acronyms cfg) = true.
Variable pd : parsed.
Hypothesis Hdom : dom_C09 Go [] pd = true.
Hypothesis Hascii : c09_go_ascii cfg pd = true.
Let rn := c09_rn pd.
Let pd' := c09_reconciled pd.
Notation acrs := (go_uppercase_acronyms cfg).
Notation conv := (c09_acr_conv (go_uppercase_acronyms cfg)).
Notation dn := (c09_go_dn (go_uppercase_acronyms cfg)).
Notation gshape := (c09_go_ref_shape (go_uppercase_acronyms cfg) pd).
Notation gownercond := (c09_go_ownercond (go_uppercase_acronyms cfg) pd).
Notation ghas_def := (c09_go_has_def (go_uppercase_acronyms cfg)).
Notation names_rw tp x :=
  (forall n, In n (texp_names x) -> c09_builtin Go n = true \/
             exists form i, In (form, i) (c09_type_ids (c09_recon_type pd tp)) /\ n = c09_go_rw (go_uppercase_acronyms cfg) (c9t_pos tp) i).

Let Hasc : Forall ga_ascii acrs := proj1 (ga_alnum_list_b _ Hacr).
Let Hpat : Forall ga_pat_ok (map to_pascal_case acrs) := proj2 (ga_alnum_list_b _ Hacr).

Lemma go_conv_T s : conv s = ga_T cfg s.
Proof. apply c09_acr_conv_result. Qed.

Lemma go_conv_ascii s : ga_ascii s -> ga_ascii (conv s).
Proof. intros H. rewrite c09_acr_conv_result. unfold ga_result. now apply ga_apply_ascii. Qed.

(* acronyms_to_uppercase of an ASCII name is the Spec's conversion *)
Lemma go_acr_conv name s y s' : ga_ascii name -> go_acronyms_to_uppercase uc cfg name s = Ok (y, s') -> y = conv name.
Proof.
  intros Hn H. unfold go_acronyms_to_uppercase, go_lift in H. rewrite (ga_convert uc Huc acrs name Hasc Hn) in H.
  injection H as <- _. symmetry. apply c09_acr_conv_result.
Qed.

Lemma go_ty_conv x s y s' : ga_ascii (go_show x) -> go_acronyms_ty uc cfg x s = Ok (y, s') ->
  texp_names (go_obs_ty y) = map (fun n => conv n) (texp_names (go_obs_ty x)).
Proof.
  intros Ha H. rewrite (ga_acronyms_ty uc Huc cfg Hacr x s Ha) in H. injection H as <- _. rewrite c09_names_ty_map.
  apply map_ext. intros a. symmetry. apply go_conv_T.
Qed.

(* a type override is verbatim text before and after the conversion: it spells no name *)
Lemma go_raw_conv o s y s' : go_acronyms_ty uc cfg (GRaw o) s = Ok (y, s') -> texp_names (go_obs_ty y) = [].
Proof.
  unfold go_acronyms_ty. intros H. c09_bind H text s1 E. c09_ret H. cbn [go_ty_acronyms].
  destruct (go_convert_acronyms_to_uppercase uc acrs o) as [x'| |]; cbn [bind]; [|reflexivity|reflexivity].
  cbn [go_show]. destruct (str_eqb x' text); reflexivity.
Qed.

Lemma go_ascii_maps : forallb (fun kv => forallb is_ascii (snd kv)) (go_type_mappings cfg) = true.
Proof. unfold c09_go_ascii in Hascii. apply andb_true_iff in Hascii as [H _]. apply andb_true_iff in H as [H _]. exact H. Qed.

Lemma go_ent_ascii e : In e (c09_entities pd) ->
  ga_ascii (original (c9e_id e)) /\ ga_ascii (renamed (c9e_id e)) /\ ga_ascii (c9e_suffix e).
Proof.
  intros He. unfold c09_go_ascii in Hascii. apply andb_true_iff in Hascii as [H _]. apply andb_true_iff in H as [_ H].
  rewrite forallb_forall in H. specialize (H e He). apply andb_true_iff in H as [H C]. apply andb_true_iff in H as [A B].
  repeat split; now apply ga_ascii_b.
Qed.

Lemma go_tp_ids_ascii tp form i : In tp (c09_tposs pd) -> In (form, i) (c09_type_ids (c9t_type tp)) -> ga_ascii i.
Proof.
  intros Htp Hi. unfold c09_go_ascii in Hascii. apply andb_true_iff in Hascii as [_ H].
  rewrite forallb_forall in H. specialize (H tp Htp). rewrite forallb_forall in H. specialize (H (form, i) Hi). now apply ga_ascii_b.
Qed.

Lemma go_recon_ascii tp : In tp (c09_tposs pd) -> forallb (forallb is_ascii) (ga_rtype_ids (c09_recon_type pd tp)) = true.
Proof.
  intros Htp. rewrite c09_ids_snd. apply forallb_forall. intros i Hi. apply in_map_iff in Hi as ([form i'] & <- & Hi). cbn [snd]. apply ga_ascii_b.
  destruct (c09_mention pd Go [] Hdom tp form i' Htp Hi) as [[_ Hi0]|(i0 & e & _ & Hlk & ->)].
  - eapply go_tp_ids_ascii; eassumption.
  - destruct (c09_lookup_in pd i0 e Hlk) as (He & _ & _). destruct (go_ent_ascii e He) as (A & B & _).
    unfold c09_pick. destruct (c09_type_ref_which _ _); assumption.
Qed.

Lemma go_texp_show_ascii tp gs s x s' : In tp (c09_tposs pd) -> go_texp cfg gs (c09_recon_type pd tp) s = Ok (x, s') -> ga_ascii (go_show x).
Proof. intros Htp. exact (ga_texp_ascii cfg gs _ go_ascii_maps (go_recon_ascii tp Htp) s x s'). Qed.

Lemma go_pat_heads : Forall (fun p => match p with x :: _ => is_alower x = false | [] => True end) (map to_pascal_case acrs).
Proof. eapply Forall_impl; [|exact Hpat]. cbn beta. intros p [_ H]. exact H. Qed.

(* a field / payload type: translated, then converted name by name *)
Lemma go_conv_names tp gs s x s1 s3 y s2 : In tp (c09_tposs pd) -> c09_go_rewritten_pos (c9t_pos tp) = true ->
  go_texp cfg gs (c09_recon_type pd tp) s = Ok (x, s1) -> go_acronyms_ty uc cfg x s3 = Ok (y, s2) -> names_rw tp (go_obs_ty y).
Proof.
  intros Htp Hrw E E2 n Hn. rewrite (go_ty_conv x s3 y s2 (go_texp_show_ascii tp gs s x s1 Htp E) E2) in Hn.
  apply in_map_iff in Hn as (n0 & <- & Hn0).
  destruct (go_texp_names cfg gs _ s x s1 E n0 Hn0) as [B|(form & i & Hi & ->)].
  - left. rewrite c09_acr_conv_result. apply c09_builtin_conv; [exact go_pat_heads|exact B].
  - right. exists form, i. split; [exact Hi|]. unfold c09_go_rw. now rewrite Hrw.
Qed.

(* an alias target / const type: translated, not converted *)
Lemma go_plain_names tp gs s x s1 : c09_go_rewritten_pos (c9t_pos tp) = false ->
  go_texp cfg gs (c09_recon_type pd tp) s = Ok (x, s1) -> names_rw tp (go_obs_ty x).
Proof.
  intros Hrw E n Hn. destruct (go_texp_names cfg gs _ s x s1 E n Hn) as [B|(form & i & Hi & ->)]; [left; exact B|].
  right. exists form, i. split; [exact Hi|]. unfold c09_go_rw. now rewrite Hrw.
Qed.

Lemma go_member_names_acr tp gs f s m s' : In tp (c09_tposs pd) -> c9t_pos tp = C9Field -> fty f = c09_recon_type pd tp ->
  go_member_of uc cfg gs f s = Ok (m, s') -> names_rw tp (mb_type (go_obs_member m)).
Proof.
  unfold go_member_of. intros Htp Hpos Hty H. c09_bind H tn s1 E. c09_bind H gt s2 E2. c09_bind H fname s3 E3. c09_ret H.
  intros n Hn. rewrite go_names_strip in Hn. cbn [gm_type] in Hn.
  destruct (type_override f Go).
  - c09_ret E. rewrite (go_raw_conv _ _ _ _ E2) in Hn. destruct Hn.
  - rewrite Hty in E. apply (go_conv_names tp gs s tn s1 s1 gt s2 Htp); [rewrite Hpos; reflexivity|exact E|exact E2|exact Hn].
Qed.

(* write_struct: a source struct or the helper struct of a struct variant *)
Lemma go_struct_shape_acr rs d sa sb (mk : rfield -> c09_tpos) fs :
  go_struct_decl_of uc cfg rs sa = Ok (d, sb) -> sfields rs = map (check_field [] rn []) fs -> ga_ascii (renamed (sid rs)) ->
  (forall f, In f fs -> In (mk f) (c09_tposs pd) /\ c9t_pos (mk f) = C9Field /\ c9t_type (mk f) = fty f /\
                        gownercond (mk f) (conv (renamed (sid rs)))) ->
  exists d1, go_obs d = [d1] /\ d_name d1 = conv (renamed (sid rs)) /\ c09_is_def d1 = true /\
             forall r, In r (c09_decl_refs Go d1) -> gshape r.
Proof.
  unfold go_struct_decl_of. intros Hd Hfs Han Hmk. c09_bind Hd name s1 E1. apply (go_acr_conv _ _ _ _ Han) in E1. subst name.
  c09_bind Hd ms s2 E. c09_ret Hd. eexists. split; [reflexivity|]. cbn [d_name]. repeat split.
  intros r Hr. unfold c09_decl_refs in Hr. cbn [d_kind d_name d_members d_variants flat_map] in Hr. rewrite app_nil_r in Hr.
  apply in_flat_map in Hr as (m' & Hm' & Hr). apply in_map_iff in Hm' as (m & <- & Hm).
  apply c09_mmapM_Forall2 in E. rewrite Hfs in E. destruct (c09_Forall2_in_r _ _ _ _ E Hm) as (f' & Hf' & sc & sd & Em).
  apply in_map_iff in Hf' as (f & <- & Hf). destruct (Hmk f Hf) as (Htp & Hpos & Hty & Hown).
  rewrite <- Hpos in Hr. eapply (c09_go_type_refs_shape acrs pd Hdom (mk f)); [exact Htp| |exact Hown|exact Hr].
  apply (go_member_names_acr (mk f) (sgenerics rs) (check_field [] rn [] f) sc m sd Htp Hpos); [|exact Em]. unfold c09_recon_type. rewrite Hty. reflexivity.
Qed.

Lemma go_has_def_acr g d en : In d g -> c09_is_def d = true -> d_name d = dn en -> ghas_def g en.
Proof. intros. exists d. auto. Qed.

Lemma go_app_ascii a b : ga_ascii a -> ga_ascii b -> ga_ascii (a ++ b).
Proof. intros. apply ga_ascii_app. auto. Qed.

Lemma go_inner_lit_ascii : ga_ascii (lit "Inner").
Proof. apply ga_ascii_b. reflexivity. Qed.

Lemma go_item_acr custom it' ds s1 s2 : In it' (items_of pd') -> go_decl_of uc cfg custom it' s1 = Ok (ds, s2) ->
  c09_go_item_ok acrs pd it' (flat_map go_obs ds).
Proof.
  intros Hit Hd. destruct (c09_items_cases pd Go [] Hdom it' Hit) as [(a & Ha & ->)|[(s & Hs & ->)|[(e & He & ->)|(c & Hc & ->)]]];
    cbn [go_decl_of] in Hd.
  - (* alias: declared under the converted id.original; the target is not converted *)
    cbn [c09_ra agenerics atype acomments aid] in Hd. c09_bind Hd name s3 E1.
    destruct (go_ent_ascii (c09_ent_alias a) (c09_in_alias pd a Ha)) as (Ao & _ & _). cbn [c09_ent_alias c9e_id] in Ao.
    apply (go_acr_conv _ _ _ _ Ao) in E1. subst name.
    c09_bind Hd ty s4 E. c09_ret Hd.
    assert (Hn : dn (c09_ent_alias a) = conv (original (aid a))) by (unfold c09_go_dn, c09_def_name; cbn; now rewrite app_nil_r).
    cbn [flat_map go_obs app]. split.
    + intros d [<-|[]]. split.
      * intros _. exists (c09_ent_alias a). split; [apply c09_in_alias; exact Ha|]. rewrite Hn. reflexivity.
      * intros r Hr. unfold c09_decl_refs in Hr. cbn [d_kind d_name d_type] in Hr.
        eapply (c09_go_type_refs_shape acrs pd Hdom {| c9t_owner := aid a; c9t_generics := agenerics a; c9t_pos := C9Alias; c9t_type := atype a |});
          [apply c09_tp_alias; exact Ha| | |exact Hr].
        -- exact (go_plain_names {| c9t_owner := aid a; c9t_generics := agenerics a; c9t_pos := C9Alias; c9t_type := atype a |} _ _ _ _ eq_refl E).
        -- right. exists (c09_ent_alias a). split; [apply c09_in_alias; exact Ha|]. split; [rewrite Hn; reflexivity|reflexivity].
    + intros a0 Ha0 Ea. eexists. split; [left; reflexivity|]. split; [reflexivity|]. cbn [d_name].
      assert (aid a0 = aid a) as Eid by (apply (f_equal aid) in Ea; cbn in Ea; congruence).
      unfold c09_go_dn, c09_def_name. cbn. rewrite app_nil_r, Eid. reflexivity.
  - (* struct: declared under the converted id.renamed *)
    c09_bind Hd d s3 E. c09_ret Hd.
    destruct (go_ent_ascii (c09_ent_struct s) (c09_in_struct pd s Hs)) as (_ & Ar & _). cbn [c09_ent_struct c9e_id] in Ar.
    assert (Hn : dn (c09_ent_struct s) = conv (renamed (sid s))) by (unfold c09_go_dn, c09_def_name; cbn; now rewrite app_nil_r).
    destruct (go_struct_shape_acr (c09_rs rn s) d _ _
                (fun f => {| c9t_owner := sid s; c9t_generics := sgenerics s; c9t_pos := C9Field; c9t_type := fty f |}) (sfields s) E eq_refl Ar)
      as (d1 & Hobs & Hname & Hdef & Hrefs).
    { intros f Hf. split; [apply c09_tp_struct; assumption|]. repeat split.
      right. exists (c09_ent_struct s). split; [apply c09_in_struct; exact Hs|]. split; [rewrite Hn; reflexivity|reflexivity]. }
    cbn [flat_map]. rewrite Hobs. cbn [app]. split.
    + intros d0 [<-|[]]. split; [|exact Hrefs]. intros _. exists (c09_ent_struct s). split; [apply c09_in_struct; exact Hs|]. rewrite Hn. exact Hname.
    + intros s0 Hs0 Es. apply (go_has_def_acr _ d1); [left; reflexivity|exact Hdef|]. rewrite Hname.
      assert (sid s0 = sid s) as Eid by (apply (f_equal sid) in Es; cbn in Es; congruence).
      unfold c09_go_dn, c09_def_name. cbn. rewrite app_nil_r, Eid. reflexivity.
  - (* enum: helper structs, then the enum; everything is named from id.original, converted *)
    destruct (c09_sh_recon pd e) as (Hid & Hgs & Hvs). fold rn in Hid, Hgs, Hvs.
    set (j := c09_ent_enum e).
    assert (Hj : In j (c09_entities pd)) by (apply c09_in_enum; exact He).
    destruct (go_ent_ascii j Hj) as (AE & _ & _). cbn [j c09_ent_enum c9e_id] in AE.
    assert (Hnj : dn j = conv (original (eid (enum_shared e)))) by (unfold c09_go_dn, c09_def_name; destruct e; cbn; now rewrite app_nil_r).
    assert (AV : forall fs vsh, In (VAnon fs vsh) (evariants (enum_shared e)) -> ga_ascii (original (vid vsh))).
    { intros fs vsh Hv. destruct (go_ent_ascii (c09_ent_inner e vsh) (c09_in_inner pd e fs vsh He Hv)) as (_ & _ & A).
      cbn [c09_ent_inner c9e_suffix] in A. apply ga_ascii_app in A as [A _]. exact A. }
    assert (Hdi : forall vsh, dn (c09_ent_inner e vsh) = conv (conv (original (eid (enum_shared e)) ++ original (vid vsh) ++ lit "Inner"))).
    { intros vsh. unfold c09_go_dn, c09_def_name. reflexivity. }
    unfold go_enum_decls_of in Hd. cbv zeta in Hd. fold rn in Hd. c09_bind Hd anon s3 Ea.
    unfold go_anonymous_struct_decls in Ea. c09_bind Ea dss s4 Em. c09_ret Ea. apply c09_mmapM_Forall2 in Em. rewrite Hvs in Em.
    assert (Hinner : forall fs vsh d sa sb, In (VAnon fs vsh) (evariants (enum_shared e)) ->
              go_struct_decl_of uc cfg (anon_struct (enum_shared (c09_re rn e)) (conv (original (eid (enum_shared e)) ++ original (vid vsh) ++ lit "Inner"))
                                          (original (vid vsh)) (map (check_field [] rn []) fs)) sa = Ok (d, sb) ->
              exists d1, go_obs d = [d1] /\ d_name d1 = dn (c09_ent_inner e vsh) /\ c09_is_def d1 = true /\
                         forall r, In r (c09_decl_refs Go d1) -> gshape r).
    { intros fs vsh d sa sb Hv Ec. rewrite Hdi.
      eapply (go_struct_shape_acr _ d sa sb (fun f => {| c9t_owner := eid (enum_shared e); c9t_generics := egenerics (enum_shared e); c9t_pos := C9Field; c9t_type := fty f |}) fs Ec);
        [reflexivity| |].
      { cbn [anon_struct sid renamed]. apply go_conv_ascii. apply go_app_ascii; [exact AE|]. apply go_app_ascii; [exact (AV fs vsh Hv)|exact go_inner_lit_ascii]. }
      intros f Hf. split; [apply (c09_tp_anon pd e fs vsh f He Hv Hf)|]. repeat split.
      right. exists (c09_ent_inner e vsh). split; [eapply c09_in_inner; eassumption|]. split; [rewrite Hdi; reflexivity|reflexivity]. }
    assert (Hvar : forall v' l sa sb, In v' (map (check_variant [] rn []) (evariants (enum_shared e))) ->
              (match v' with
               | VAnon fs vsh => mdo struct_name <- go_make_anonymous_struct_name uc cfg (enum_shared (c09_re rn e)) (original (vid vsh));
                                 mdo d <- go_struct_decl_of uc cfg (anon_struct (enum_shared (c09_re rn e)) struct_name (original (vid vsh)) fs); ret [d]
               | _ => ret []
               end) sa = Ok (l, sb) ->
              match v' with
              | VAnon fs' vsh => exists d sc sd, l = [d] /\
                   go_struct_decl_of uc cfg (anon_struct (enum_shared (c09_re rn e)) (conv (original (eid (enum_shared e)) ++ original (vid vsh) ++ lit "Inner"))
                                               (original (vid vsh)) fs') sc = Ok (d, sd)
              | _ => l = []
              end).
    { intros v' l sa sb Hin Hv'. destruct v' as [?|? ?|fs' vsh]; [c09_ret Hv'; reflexivity|c09_ret Hv'; reflexivity|].
      assert (AVv : ga_ascii (original (vid vsh))).
      { apply in_map_iff in Hin as (v & Ev & Hv). destruct v as [?|? ?|fs0 vsh0]; try discriminate. injection Ev as _ <-. exact (AV fs0 vsh0 Hv). }
      c09_bind Hv' sn sc E1. unfold go_make_anonymous_struct_name in E1. rewrite Hid in E1.
      apply go_acr_conv in E1; [|apply go_app_ascii; [exact AE|apply go_app_ascii; [exact AVv|exact go_inner_lit_ascii]]]. subst sn.
      c09_bind Hv' d sd E2. c09_ret Hv'. exists d, sc, sd. auto. }
    assert (Hanon : forall d, In d (List.concat dss) -> exists fs vsh sa sb, In (VAnon fs vsh) (evariants (enum_shared e)) /\
              go_struct_decl_of uc cfg (anon_struct (enum_shared (c09_re rn e)) (conv (original (eid (enum_shared e)) ++ original (vid vsh) ++ lit "Inner"))
                                          (original (vid vsh)) (map (check_field [] rn []) fs)) sa = Ok (d, sb)).
    { intros d Hd0. apply in_concat in Hd0 as (l & Hl & Hd0). destruct (c09_Forall2_in_r _ _ _ _ Em Hl) as (v' & Hv' & sa & sb & Ev').
      pose proof Hv' as Hv''. apply in_map_iff in Hv' as (v & <- & Hv). apply (Hvar _ _ _ _ Hv'') in Ev'. destruct v as [sh|t sh|fs sh]; cbn [check_variant] in Ev'.
      - subst l. destruct Hd0.
      - subst l. destruct Hd0.
      - destruct Ev' as (d1 & sc & sd & -> & Ec). destruct Hd0 as [<-|[]]. exists fs, sh, sc, sd. auto. }
    assert (Hanon' : forall fs vsh, In (VAnon fs vsh) (evariants (enum_shared e)) -> exists d sa sb, In d (List.concat dss) /\
              go_struct_decl_of uc cfg (anon_struct (enum_shared (c09_re rn e)) (conv (original (eid (enum_shared e)) ++ original (vid vsh) ++ lit "Inner"))
                                          (original (vid vsh)) (map (check_field [] rn []) fs)) sa = Ok (d, sb)).
    { intros fs vsh Hv. assert (In (check_variant [] rn [] (VAnon fs vsh)) (map (check_variant [] rn []) (evariants (enum_shared e)))) as Hv' by (apply in_map; exact Hv).
      destruct (c09_Forall2_in_l _ _ _ _ Em Hv') as (l & Hl & sa & sb & Ev'). apply (Hvar _ _ _ _ Hv') in Ev'. cbn [check_variant] in Ev'.
      destruct Ev' as (d1 & sc & sd & -> & Ec). exists d1, sc, sd. split; [|exact Ec]. apply in_concat. exists [d1]. split; [exact Hl|left; reflexivity]. }
    (* the enum itself *)
    assert (Hself : exists dE, ds = List.concat dss ++ [dE] /\ (exists dS, In dS (go_obs dE) /\ c09_is_def dS = true) /\
              forall d, In d (go_obs dE) -> (d_kind d = DHelper) \/
                (d_name d = dn j /\ c09_is_def d = true /\ forall r, In r (c09_decl_refs Go d) -> gshape r)).
    { destruct e as [sh|tag content sh]; cbn [c09_re enum_shared] in *.
      - c09_bind Hd en s5 E0. apply (go_acr_conv _ _ _ _ AE) in E0. subst en. c09_bind Hd vs s6 Ev. c09_ret Hd. eexists. split; [reflexivity|].
        split; [eexists; split; [left; reflexivity|reflexivity]|].
        intros d [<-|[]]. right. cbn [d_name check_eshared eid]. rewrite Hnj. repeat split.
        intros r Hr. unfold c09_decl_refs in Hr. cbn [d_kind d_name d_members d_variants flat_map app] in Hr.
        apply in_flat_map in Hr as (v & Hv & Hr). apply in_map_iff in Hv as ([[vd vc] vw] & <- & _). cbn in Hr. destruct Hr.
      - c09_bind Hd sn s5 E0. apply (go_acr_conv _ _ _ _ AE) in E0. subst sn. c09_bind Hd cf s6 E1. c09_bind Hd tf s7 E2.
        c09_bind Hd ssn s8 E3. c09_bind Hd ta s9 E4. cbv zeta in Hd. c09_bind Hd vs s10 Ev. c09_ret Hd. eexists. split; [reflexivity|].
        split; [eexists; split; [right; left; reflexivity|reflexivity]|].
        cbn [go_obs gt_name gt_key_type gt_variants gt_docs gt_tag_key gt_content_key check_eshared eid]. intros d [<-|[<-|[]]]; [left; reflexivity|right].
        cbn [d_name]. rewrite Hnj. repeat split.
        intros r Hr. unfold c09_decl_refs in Hr. cbn [d_kind d_name d_members d_variants flat_map app] in Hr.
        apply in_flat_map in Hr as (vd & Hvd & Hr). apply in_map_iff in Hvd as (gv & <- & Hgv).
        apply c09_mmapM_Forall2 in Ev. cbn [check_eshared evariants] in Ev.
        destruct (c09_Forall2_in_r _ _ _ _ Ev Hgv) as (v' & Hv' & sc & sd & Ev'). apply in_map_iff in Hv' as (v & <- & Hv).
        unfold go_variant_of in Ev'. cbv zeta in Ev'. c09_bind Ev' vn se E5.
        c09_bind Ev' vt sf Evt. c09_bind Ev' tp sg E6. c09_bind Ev' ct sh0 Ec. c09_ret Ev'.
        cbn [go_obs_variant vd_parent vd_payload gv_content app] in Hr.
        destruct v as [vsh|t vsh|fs vsh]; cbn [check_variant variant_shared] in Evt, E5.
        + c09_ret Evt. c09_ret Ec. destruct Hr.
        + c09_bind Evt x sx Et. c09_ret Evt. c09_bind Ec fvt sy Ef. c09_ret Ec.
          eapply (c09_go_type_refs_shape acrs pd Hdom {| c9t_owner := eid sh; c9t_generics := egenerics sh; c9t_pos := C9Payload; c9t_type := t |});
            [apply (c09_tp_tuple pd (EAlgebraic tag content sh) t vsh He Hv)| | |exact Hr].
          * exact (go_conv_names {| c9t_owner := eid sh; c9t_generics := egenerics sh; c9t_pos := C9Payload; c9t_type := t |} _ _ _ _ _ _ _
                                 (c09_tp_tuple pd (EAlgebraic tag content sh) t vsh He Hv) eq_refl Et Ef).
          * right. exists j. split; [exact Hj|]. split; [rewrite Hnj; reflexivity|reflexivity].
        + pose proof (AV fs vsh Hv) as AVv. apply (go_acr_conv _ _ _ _ AVv) in E5. subst vn.
          c09_bind Evt sn sx Et. unfold go_make_anonymous_struct_name in Et. cbn [check_eshared eid] in Et.
          apply go_acr_conv in Et; [|apply go_app_ascii; [exact AE|apply go_app_ascii; [apply go_conv_ascii; exact AVv|exact go_inner_lit_ascii]]]. subst sn. c09_ret Evt.
          c09_bind Ec fvt sy Ef.
          apply go_acr_conv in Ef; [|apply go_conv_ascii; apply go_app_ascii; [exact AE|apply go_app_ascii; [apply go_conv_ascii; exact AVv|exact go_inner_lit_ascii]]]. subst fvt. c09_ret Ec.
          cbn [map] in Hr. destruct Hr as [<-|[]].
          eapply GS_inner with (e := EAlgebraic tag content sh) (fs := fs) (vsh := vsh); cbn [c9_in c9_pos c9_name enum_shared]; try reflexivity; assumption. }
    destruct Hself as (dE & -> & (dS & HdS & HdefS) & HselfE).
    assert (Hg : forall d, In d (flat_map go_obs (List.concat dss ++ [dE])) <->
                (exists d0, In d0 (List.concat dss) /\ In d (go_obs d0)) \/ In d (go_obs dE)).
    { intros d. rewrite flat_map_app, in_app_iff, in_flat_map. cbn [flat_map]. rewrite app_nil_r. reflexivity. }
    split.
    + intros d Hd0. apply Hg in Hd0 as [(d0 & Hd0 & Hdd)|Hdd].
      * destruct (Hanon d0 Hd0) as (fs & vsh & sa & sb & Hv & Ec). destruct (Hinner fs vsh d0 sa sb Hv Ec) as (d1 & Ho & A & B & C).
        rewrite Ho in Hdd. destruct Hdd as [<-|[]]. split; [|exact C]. intros _. exists (c09_ent_inner e vsh). split; [eapply c09_in_inner; eassumption|exact A].
      * destruct (HselfE d Hdd) as [K|(A & B & C)]; [apply (c09_go_decl_ok_helper acrs pd); exact K|].
        split; [|exact C]. intros _. exists j. split; [exact Hj|exact A].
    + intros e0 He0 Ee.
      assert (eid (enum_shared e0) = eid (enum_shared e) /\ egenerics (enum_shared e0) = egenerics (enum_shared e) /\ c09_enum_kind e0 = c09_enum_kind e) as (Ei0 & Eg0 & Ek0).
      { pose proof (f_equal (fun x => eid (enum_shared x)) Ee) as A. pose proof (f_equal (fun x => egenerics (enum_shared x)) Ee) as B.
        pose proof (f_equal c09_enum_kind Ee) as C. destruct e, e0; cbn in A, B, C |- *; try discriminate; repeat split; congruence. }
      split.
      * destruct (HselfE dS HdS) as [K|(A & B & C)]; [unfold c09_is_def in HdefS; rewrite K in HdefS; discriminate|].
        apply (go_has_def_acr _ dS); [apply Hg; right; exact HdS|exact B|]. rewrite A. unfold j, c09_ent_enum. rewrite Ei0, Eg0, Ek0. reflexivity.
      * intros fs vsh Hv0.
        assert (evariants (enum_shared (c09_re rn e)) = map (check_variant [] rn []) (evariants (enum_shared e0))) as Hv1eq.
        { destruct (c09_sh_recon pd e0) as (_ & _ & A). transitivity (evariants (enum_shared (c09_re rn e0))); [f_equal; f_equal; exact Ee|exact A]. }
        assert (In (check_variant [] rn [] (VAnon fs vsh)) (map (check_variant [] rn []) (evariants (enum_shared e)))) as Hv1.
        { rewrite <- Hvs, Hv1eq. apply in_map. exact Hv0. }
        apply in_map_iff in Hv1 as (v & Ev1 & Hv1). destruct v as [?|? ?|fs1 vsh1]; try discriminate. injection Ev1 as Efs <-.
        destruct (Hanon' fs1 vsh1 Hv1) as (d0 & sa & sb & Hd0 & Ec). destruct (Hinner fs1 vsh1 d0 sa sb Hv1 Ec) as (d1 & Ho & A & B & C).
        apply (go_has_def_acr _ d1); [apply Hg; left; exists d0; split; [exact Hd0|rewrite Ho; left; reflexivity]|exact B|]. rewrite A.
        unfold c09_ent_inner. rewrite Ei0, Eg0. reflexivity.
  - (* const: not a definition; its type is reconciled but not converted *)
    c09_bind Hd ty s3 E. c09_ret Hd. split; [|exact I].
    cbn [flat_map go_obs app]. intros d [<-|[]]. split; [cbn; discriminate|].
    intros r Hr. unfold c09_decl_refs in Hr. cbn [d_kind d_name d_type] in Hr.
    eapply (c09_go_type_refs_shape acrs pd Hdom {| c9t_owner := cid c; c9t_generics := []; c9t_pos := C9Const; c9t_type := ctype c |});
      [apply c09_tp_const; exact Hc| |left; reflexivity|exact Hr].
    exact (go_plain_names {| c9t_owner := cid c; c9t_generics := []; c9t_pos := C9Const; c9t_type := ctype c |} _ _ _ _ eq_refl E).
Qed.

Theorem go_shape_acr fd : go_file_decls uc cfg pd' = Ok fd -> c09_go_shape acrs pd (c09_observe Go fd).
Proof.
  unfold go_file_decls, go_decls. intros H.
  destruct (topsort (items_of pd')) as [items| |] eqn:Et; cbn [bind] in H; try discriminate. cbv zeta in H.
  match type of H with context [bind ?m _] => destruct m as [[ds imports]| |] eqn:Er end; cbn [bind] in H; try discriminate.
  injection H as <-. pose proof (c09_topsort_in' _ _ Et) as Hperm.
  c09_bind Er u s1 E0. c09_bind Er dss s2 Em. c09_ret Er. apply c09_mmapM_Forall2 in Em.
  set (custom := go_types_mapping_to_struct items) in Em.
  apply (c09_go_shape_of_items acrs pd Hdom
           (fun it' g => exists ds s1 s2, go_decl_of uc cfg custom it' s1 = Ok (ds, s2) /\ g = flat_map go_obs ds)
           [] (map (flat_map go_obs) dss)); cbn [fd_decls].
  - intros d. rewrite in_flat_map. split.
    + intros (x & Hx & Hd). right. apply in_concat in Hx as (ds & Hds & Hx). exists (flat_map go_obs ds). split; [apply in_map; exact Hds|apply in_flat_map; eauto].
    + intros [[]|(g & Hg & Hd)]. apply in_map_iff in Hg as (ds & <- & Hds). apply in_flat_map in Hd as (x & Hx & Hd). exists x. split; [apply in_concat; eauto|exact Hd].
  - intros d [].
  - intros it' Hit _. apply Hperm in Hit. destruct (c09_Forall2_in_l _ _ _ _ Em Hit) as (ds & Hds & sa & sb & E).
    exists (flat_map go_obs ds). split; [apply in_map; exact Hds|]. exists ds, sa, sb. auto.
  - intros g Hg. apply in_map_iff in Hg as (ds & <- & Hds). destruct (c09_Forall2_in_r _ _ _ _ Em Hds) as (it' & Hit & sa & sb & E).
    exists it'. split; [apply Hperm; exact Hit|]. exists ds, sa, sb. auto.
  - intros it' g Hit (ds & sa & sb & E & ->). exact (go_item_acr custom it' ds sa sb Hit E).
Qed.

Theorem c09_go_acr fd :
  known_C09 Go [] acrs pd = None -> go_file_decls uc cfg pd' = Ok fd -> good_C09 Go [] pd (c09_observe Go fd) = true.
Proof. intros Hknown H. exact (c09_go_shape_good acrs pd _ Hdom Hknown (go_shape_acr fd H)). Qed.
End GOA.

(* the statement of Props/C09.v *)
Theorem c09_go_all (uc : unicode) (Huc : unicode_ok uc) (cfg : go_config) (pd : parsed) :
  forallb (forallb ga_alnum) (go_uppercase_acronyms cfg) = true -> c09_go_ascii cfg pd = true ->
  dom_C09 Go [] pd = true -> known_C09 Go [] (go_uppercase_acronyms cfg) pd = None ->
  forall fd : file_decls, go_file_decls uc cfg (c09_reconciled pd) = Ok fd ->
    good_C09 Go [] pd (c09_observe Go fd) = true.
Proof. intros Ha Hs Hd Hk fd H. exact (c09_go_acr uc Huc cfg Ha pd Hd Hs fd Hk H). Qed.

(* the hypotheses of c09_go_all are satisfiable on a program whose names the conversion really rewrites *)
Example c09_go_all_nonvacuous :
  forallb (forallb ga_alnum) Proofs.C09Witness.w_acr_list = true /\
  c09_go_ascii (Proofs.C09Witness.w_go Proofs.C09Witness.w_acr_list) Proofs.C09Witness.w_acr_clean = true /\
  Proofs.C09Witness.c09_nonvacuous_go Proofs.C09Witness.w_acr_list Proofs.C09Witness.w_acr_clean
    (go_file_decls uc_exec (Proofs.C09Witness.w_go Proofs.C09Witness.w_acr_list) (c09_reconciled Proofs.C09Witness.w_acr_clean))
    [lit "UserID"; lit "APIEvent"; lit "APIEventV1Inner"; lit "Holder"] = true.
Proof. vm_compute. repeat split; reflexivity. Qed.

(* language-level statement for Props/C09.v *)
Theorem c09_go_shape_good_all (acrs : list str) (pd : parsed) (obs : c09_obs) :
  dom_C09 Go [] pd = true -> known_C09 Go [] acrs pd = None -> c09_go_shape acrs pd obs -> good_C09 Go [] pd obs = true.
Proof. intros Hd Hk Hs. exact (c09_go_shape_good acrs pd obs Hd Hk Hs). Qed.

(* the Spec's conversion is the model's (the real code's) on ASCII input, where it never panics *)
Theorem c09_conv_is_model (uc : unicode) (Huc : unicode_ok uc) (acrs : list str) (name : str) :
  forallb (forallb is_ascii) acrs = true -> forallb is_ascii name = true ->
  go_convert_acronyms_to_uppercase uc acrs name = Ok (c09_acr_conv acrs name).
Proof.
  intros Ha Hn. rewrite c09_acr_conv_result.
  exact (ga_convert uc Huc acrs name (ga_ascii_list_b _ Ha) (proj1 (ga_ascii_b name) Hn)).
Qed.
