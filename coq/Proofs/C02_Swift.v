(* C02 for Swift: the String-backed enum, and the enum with CodingKeys, ContainerCodingKeys,
   init(from:) and encode(to:) in which the tag key is spelled 2 + n times and the content key
   1 + (2 or 3 per variant with data) times. *)
From Coq Require Import List Bool Lia ZifyBool ZifyN.
From TS Require Import Model.Str Model.Outcome Model.Unicode Model.Rename Model.Types Model.Parse Model.Lang.Common Model.Lang.Decl
                       Model.Lang.Swift.
From TS Require Import Spec.C16Spec Spec.C02Spec Proofs.C16 Proofs.BackCommon Proofs.C02_Back.
Import ListNotations.
Local Open Scope N_scope.
Local Notation length := List.length (only parsing).

Lemma c02_sw_lift_ok {A} (o : outcome A) s a s' : sw_lift o s = Ok (a, s') -> o = Ok a.
Proof. unfold sw_lift. destruct o; try discriminate. now intros [= -> _]. Qed.

Section SW.
Variable uc : unicode.
Variable cfg : sw_config.

Lemma c02_sw_inner_plain shared vs st ss st' : sw_inner_structs_of uc cfg shared vs st = Ok (ss, st') ->
  forallb c02_plain (map sw_obs_struct ss) = true.
Proof.
  revert st ss st'. induction vs as [|v r IH]; intros st ss st' H; cbn [sw_inner_structs_of] in H.
  - unfold ret in H. injection H as <- _. reflexivity.
  - destruct v as [|? ?|fields vsh]; try (eapply IH; eassumption).
    apply mbind_ok in H as (s0 & s1 & _ & H). apply mbind_ok in H as (ss0 & s2 & Hr & H).
    unfold ret in H. injection H as <- _. cbn [map forallb]. rewrite (IH _ _ _ Hr). reflexivity.
Qed.

(* the case name Swift gives a variant *)
Definition c02_sw_named (digit_prefix : bool) (ident name : str) : Prop :=
  exists camel, to_camel_case ident = Ok camel /\
    name = match camel with
           | c :: _ => if digit_prefix && is_adigit c then lit "_" ++ camel else camel
           | [] => camel
           end.

Lemma c02_sw_named_inj dp a b na nb : conv_variant a = true -> conv_variant b = true ->
  c02_sw_named dp a na -> c02_sw_named dp b nb -> na = nb -> c02_caps_eq a b = true.
Proof.
  intros Ha Hb (ca & Eca & ->) (cb & Ecb & ->) E.
  destruct (c02_camel_conv a Ha) as (c1 & r1 & N1 & U1 & C1). destruct (c02_camel_conv b Hb) as (c2 & r2 & N2 & U2 & C2).
  rewrite C1 in Eca. rewrite C2 in Ecb. injection Eca as <-. injection Ecb as <-.
  assert (D1 : is_adigit (alower c1) = false) by (unfold alower; rewrite U1; unfold is_aupper, is_adigit in *; lia).
  assert (D2 : is_adigit (alower c2) = false) by (unfold alower; rewrite U2; unfold is_aupper, is_adigit in *; lia).
  rewrite D1, D2, !andb_false_r in E. injection E as E1 E2.
  assert (c1 = c2) by (unfold alower in E1; rewrite U1, U2 in E1; lia).
  unfold c02_caps_eq. rewrite N1, N2. subst. apply str_eqb_refl.
Qed.

Lemma c02_sw_unit_variant v st sv st' : sw_unit_variant_of uc v st = Ok (sv, st') ->
  vd_wire (sw_obs_variant sv) = renamed (vid (variant_shared v)) /\
  c02_sw_named true (original (vid (variant_shared v))) (vd_name (sw_obs_variant sv)) /\
  vd_payload (sw_obs_variant sv) = PayUnit.
Proof.
  (* fix 31: the unit arm puts `_` in front of a digit-initial camelCased name as the algebraic arm does *)
  unfold sw_unit_variant_of. intros H. apply mbind_ok in H as (camel & s1 & Hc & H). apply c02_sw_lift_ok in Hc.
  unfold ret in H. injection H as <- _. cbn [sw_obs_variant vd_wire vd_name vd_payload swv_raw swv_name swv_payload].
  repeat split.
  - match goal with |- context [str_eqb ?r ?n] => destruct (str_eqb r n) eqn:E end; [|reflexivity]. apply str_eqb_eq in E. now symmetry.
  - exists camel. split; [exact Hc|]. cbn [andb]. reflexivity.
Qed.

Lemma c02_sw_variant shared v st sv st' : sw_variant_of uc cfg shared v st = Ok (sv, st') ->
  vd_wire (sw_obs_variant sv) = renamed (vid (variant_shared v)) /\
  c02_sw_named true (original (vid (variant_shared v))) (vd_name (sw_obs_variant sv)) /\
  c02_payload_kind (vd_payload (sw_obs_variant sv)) = c02_rvariant_kind v.
Proof.
  unfold sw_variant_of. intros H. apply mbind_ok in H as (camel & s1 & Hc & H). apply c02_sw_lift_ok in Hc.
  apply mbind_ok in H as (payload & s2 & Hp & H). unfold ret in H. injection H as <- _.
  cbn [sw_obs_variant vd_wire vd_name vd_payload swv_raw swv_name swv_payload].
  repeat split.
  - match goal with |- context [str_eqb ?n ?r] => destruct (str_eqb n r) eqn:E end; [|reflexivity]. now apply str_eqb_eq in E.
  - exists camel. split; [exact Hc|]. cbn [andb]. reflexivity.
  - destruct v as [vsh|t vsh|fs vsh].
    + unfold ret in Hp. injection Hp as <- _. reflexivity.
    + apply mbind_ok in Hp as (ct & s3 & _ & Hp). unfold ret in Hp. injection Hp as <- _. reflexivity.
    + unfold ret in Hp. injection Hp as <- _. reflexivity.
Qed.

Theorem C02_sw_core acr e st d st' : sw_decl_of uc cfg (ItEnum e) st = Ok (d, st') ->
  dom_C02_back (c02_expect_ir e) = true ->
  c02_good_core Swift (c02_expect_ir e) (sw_obs d) = true /\
  (known_C02_back Swift acr (c02_expect_ir e) = None -> c02_good_cases (sw_obs d) = true).
Proof.
  cbn [sw_decl_of]. intros H Hdom. apply mbind_ok in H as (en & s1 & He & H). unfold ret in H. injection H as <- _.
  unfold sw_enum_of in He. apply mbind_ok in He as (inner & s2 & Hi & He). apply mbind_ok in He as (vs & s3 & Hv & He).
  unfold ret in He. injection He as <- _. cbn [sw_obs swe_inner].
  pose proof (c02_sw_inner_plain _ _ _ _ _ Hi) as Hplain.
  pose proof (c02_dom_back_parts _ Hdom) as (Hconv & Hdi & _ & _ & Hdata).
  cbn [c02_expect_ir c02_idents] in Hconv. rewrite forallb_forall in Hconv.
  match goal with |- context [sw_obs_enum ?x] => set (d := sw_obs_enum x) end.
  assert (Hcases : forall dp, known_C02_back Swift acr (c02_expect_ir e) = None ->
                   Forall2 (c02_sw_named dp)
                           (map (fun v => original (vid (variant_shared v))) (evariants (enum_shared e))) (map vd_name (d_variants d)) ->
                   c02_good_cases (map sw_obs_struct inner ++ [d]) = true).
  { intros dp Hkn HF. rewrite c02_good_cases_app, (c02_plain_cases _ Hplain). apply c02_good_cases_one.
    cbn [known_C02_back c02_expect_ir c02_idents] in Hkn.
    destruct (c02_has_pair c02_caps_eq _) eqn:Hp; [discriminate|].
    apply (c02_distinct_rel c02_caps_eq _ _ _ HF); [|exact Hp].
    intros a b na nb Ha Hb Na Nb E. exact (c02_sw_named_inj dp a b na nb (Hconv a Ha) (Hconv b Hb) Na Nb E). }
  destruct e as [sh|tag content sh]; cbn [enum_shared] in *.
  - (* String-backed enum *)
    apply (mmapM_Forall2 _ (fun v sv => vd_wire (sw_obs_variant sv) = renamed (vid (variant_shared v)) /\
                                        c02_sw_named true (original (vid (variant_shared v))) (vd_name (sw_obs_variant sv)) /\
                                        vd_payload (sw_obs_variant sv) = PayUnit)) in Hv.
    2:{ intros v s0 sv s0' Hx. exact (c02_sw_unit_variant _ _ _ _ Hx). }
    assert (Hw : map vd_wire (d_variants d) = map (fun v => renamed (vid (variant_shared v))) (evariants sh)).
    { subst d. cbn [sw_obs_enum d_variants swe_variants]. rewrite map_map. eapply Forall2_map_r; [exact Hv|]. intros v sv (E & _). exact E. }
    assert (Hk : map (fun v => c02_payload_kind (vd_payload v)) (d_variants d) = map c02_rvariant_kind (evariants sh)).
    { cbn [c02_expect_ir c02_keys c02_kinds enum_shared] in Hdata. rewrite (c02_unit_kinds _ Hdata).
      subst d. cbn [sw_obs_enum d_variants swe_variants]. rewrite map_map. eapply Forall2_map_r; [exact Hv|]. intros v sv (_ & _ & E). now rewrite E. }
    split.
    + apply c02_good_core_intro; [now apply c02_plain_not_enum|reflexivity|].
      apply c02_good_enum_intro; [exact Hw|exact Hk|reflexivity].
    + intros Hkn. apply (Hcases true Hkn). subst d. cbn [sw_obs_enum d_variants swe_variants]. rewrite map_map.
      eapply c02_Forall2_maps; [exact Hv|]. intros v sv (_ & E & _). exact E.
  - (* enum with associated values *)
    pose proof (mmapM_length _ _ _ _ _ Hv) as Hlen.
    apply (mmapM_Forall2 _ (fun v sv => vd_wire (sw_obs_variant sv) = renamed (vid (variant_shared v)) /\
                                        c02_sw_named true (original (vid (variant_shared v))) (vd_name (sw_obs_variant sv)) /\
                                        c02_payload_kind (vd_payload (sw_obs_variant sv)) = c02_rvariant_kind v)) in Hv.
    2:{ intros v s0 sv s0' Hx. exact (c02_sw_variant _ _ _ _ _ Hx). }
    assert (Hw : map vd_wire (d_variants d) = map (fun v => renamed (vid (variant_shared v))) (evariants sh)).
    { subst d. cbn [sw_obs_enum d_variants swe_variants]. rewrite map_map. eapply Forall2_map_r; [exact Hv|]. intros v sv (E & _). exact E. }
    assert (Hk : map (fun v => c02_payload_kind (vd_payload v)) (d_variants d) = map c02_rvariant_kind (evariants sh)).
    { subst d. cbn [sw_obs_enum d_variants swe_variants]. rewrite map_map. eapply Forall2_map_r; [exact Hv|]. intros v sv (_ & _ & E). exact E. }
    split.
    + apply c02_good_core_intro; [now apply c02_plain_not_enum|reflexivity|].
      apply c02_good_enum_intro; [exact Hw|exact Hk|].
      unfold c02_good_keys. cbn [c02_expect_ir c02_keys c02_kinds enum_shared].
      subst d. cbn [sw_obs_enum d_tag_keys d_content_keys swe_tagged swe_variants c02_tag_carried c02_content_carried].
      rewrite !c02_forallb_eq; [reflexivity| |].
      * constructor; [reflexivity|]. apply c02_Forall_flat. intros sv. apply c02_Forall_repeat.
      * constructor; [reflexivity|]. constructor; [reflexivity|]. apply c02_Forall_const.
    + intros Hkn. apply (Hcases true Hkn). subst d. cbn [sw_obs_enum d_variants swe_variants]. rewrite map_map.
      eapply c02_Forall2_maps; [exact Hv|]. intros v sv (_ & E & _). exact E.
Qed.

Theorem C02_back_sw acr e st d st' : sw_decl_of uc cfg (ItEnum e) st = Ok (d, st') ->
  dom_C02_back (c02_expect_ir e) = true ->
  known_C02_back Swift acr (c02_expect_ir e) = None ->
  good_C02 Swift (c02_expect_ir e) (sw_obs d) = true.
Proof.
  intros H Hd Hk. destruct (C02_sw_core acr e st d st' H Hd) as [Hc Hn]. unfold good_C02. now rewrite Hc, (Hn Hk).
Qed.
End SW.
