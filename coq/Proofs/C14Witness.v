(* C14: concrete workspaces, evaluated inside Coq. One witness per open finding class, one regression pin per
   class repaired in /repo (C14-glob, C14-glob-order, C14-glob-const, C14-renamed-import: the former witnesses,
   which must now come out right), and non-vacuity examples for both halves of the domain of the completeness
   theorem. *)
From Coq Require Import List Bool String.
From TS Require Import Model.Str Model.Outcome Model.Unicode Model.Syntax Model.Attrs Model.Types Model.Parse
                       Model.Reconcile Model.Collect Model.Lang.Common Model.Rename Model.MultiFile.
From TS Require Import Spec.C11Spec Spec.C14Spec.
From TS Require Import Proofs.C14 Proofs.C14Front Proofs.C14Main Proofs.C14Imports.
Import ListNotations.
Local Open Scope string_scope.

Definition w_ts : attr := {| a_inner := false; a_meta := MPath [lit "typeshare"] |}.
Definition w_rename (s : str) : attr := {| a_inner := false; a_meta := MList [lit "serde"] (Some [MNV [lit "rename"] (VStr s)]) None |}.
Definition w_ty (n : str) : ty := TPath [] n [].
Definition w_fld (name : str) (t : ty) : field := {| f_attrs := []; f_ident := Some name; f_ty := t |}.
Definition w_struct (attrs : list attr) (name : str) (fs : list field) : item := IStruct (w_ts :: attrs) name [] (FNamed fs).
Definition w_file (items : list item) (paths : list path) : file := {| fl_attrs := []; fl_items := items; fl_paths := paths; fl_marker := true |}.
Definition w_entry (dir : str) (f : file) : ws_entry := {| we_path := [dir; lit "src"; lit "lib.rs"]; we_file := f; we_tstr := fun _ => None |}.
Definition w_use (c n : str) : item := IUse (UPath c (UName n)).
Definition w_glob (c : str) : item := IUse (UPath c UGlob).

(* a/src/lib.rs: #[typeshare] struct A1 { x: u8 }  #[typeshare] #[serde(rename = "A2Renamed")] struct A2 { x: u8 }
                 #[typeshare] struct A3 { y: String } *)
Definition w_a : ws_entry := w_entry (lit "a") (w_file
  [w_struct [] (lit "A1") [w_fld (lit "x") (w_ty (lit "u8"))];
   w_struct [w_rename (lit "A2Renamed")] (lit "A2") [w_fld (lit "x") (w_ty (lit "u8"))];
   w_struct [] (lit "A3") [w_fld (lit "y") (w_ty (lit "String"))]]
  [[lit "typeshare"]; [lit "u8"]; [lit "serde"]; [lit "String"]]).
(* my-crate/src/lib.rs: <uses>  #[typeshare] struct B1 { f: <t> } *)
Definition w_b (uses : list item) (t : str) : ws_entry := w_entry (lit "my-crate") (w_file
  (uses ++ [w_struct [] (lit "B1") [w_fld (lit "f") (w_ty t)]]) [[lit "typeshare"]; [t]]).
(* <dir>/src/lib.rs: #[typeshare] struct S { x: u8 } *)
Definition w_s (dir : str) : ws_entry := w_entry dir (w_file [w_struct [] (lit "S") [w_fld (lit "x") (w_ty (lit "u8"))]] [[lit "typeshare"]; [lit "u8"]]).

(* the import pairs the model computes for crate c, and the specification's verdict on them *)
Definition w_run (ho_crate : list imported -> list imported) (hc : crate_types -> crate_types) (ws : list ws_entry) (c : str) :=
  match parse_workspace uc_exec [] [] (fun l => l) ws with
  | Ok arrivals =>
    let cs := multi_crates ho_crate arrivals in
    match crates_get cs c with
    | Some pd => let pairs := scoped_pairs (crate_imports hc cs c pd) in
                 Some (pairs, map (fun v => (rv_name v, rv_from v, rv_dom v, rv_known v, rv_imported v)) (judge_crate (c14_infos uc_exec [] ws) [] c pairs))
    | None => None
    end
  | _ => None
  end.

Definition idl {A} (l : list A) : list A := l.
Lemma idl_ok {A} : oracle_ok (@idl A).
Proof. intros l x. reflexivity. Qed.
Lemma rev_ok {A} : oracle_ok (@rev A).
Proof. intros l x. symmetry. apply in_rev. Qed.

(* what an evaluation of w_run establishes about the model and the specification *)
Lemma w_run_verdict ho_crate hc ws c pairs verdicts x :
  w_run ho_crate hc ws c = Some (pairs, verdicts) -> In x verdicts ->
  exists arrivals pd v,
    parse_workspace uc_exec [] [] (fun l => l) ws = Ok arrivals /\
    In (c, pd) (multi_crates ho_crate arrivals) /\
    scoped_pairs (crate_imports hc (multi_crates ho_crate arrivals) c pd) = pairs /\
    In v (judge_crate (c14_infos uc_exec [] ws) [] c pairs) /\
    (rv_name v, rv_from v, rv_dom v, rv_known v, rv_imported v) = x.
Proof.
  unfold w_run. destruct (parse_workspace uc_exec [] [] (fun l => l) ws) as [arrivals| |]; try discriminate.
  destruct (crates_get (multi_crates ho_crate arrivals) c) as [pd|] eqn:G; [|discriminate].
  cbv zeta. intros [= <- <-] Hx. apply in_map_iff in Hx as (v & E & Hv).
  exists arrivals, pd, v. split; [reflexivity|]. split; [now apply crates_get_in|]. split; [reflexivity|]. split; [exact Hv|exact E].
Qed.

Definition ws_plain : list ws_entry := [w_a; w_b [w_use (lit "a") (lit "A1")] (lit "A1")].
Definition ws_renamed : list ws_entry := [w_a; w_b [w_use (lit "a") (lit "A2")] (lit "A2")].
Definition ws_glob : list ws_entry := [w_a; w_b [w_glob (lit "a")] (lit "A1")].
Definition ws_glob_renamed : list ws_entry := [w_a; w_b [w_glob (lit "a")] (lit "A2")].
Definition ws_glob_explicit : list ws_entry := [w_a; w_b [w_glob (lit "a"); w_use (lit "a") (lit "A1")] (lit "A1")].
Definition ws_same_name : list ws_entry := [w_s (lit "a"); w_s (lit "c"); w_b [w_use (lit "zz") (lit "S")] (lit "S")].
Definition MY : str := lit "my_crate".

(* `use a::A1;` in crate my-crate: in the domain, not in a finding class, imported from ./a *)
Example plain_eval : w_run idl idl ws_plain MY = Some ([(lit "a", lit "A1")], [(lit "A1", lit "a", true, None, true)]).
Proof. vm_compute. reflexivity. Qed.
(* `use a::A2;` where A2 is #[serde(rename = "A2Renamed")] (formerly C14-renamed-import: nothing was imported):
   the import is put back under the generated name and resolves in crate a; the reference is in the domain,
   in no finding class, imported *)
Lemma renamed_eval : w_run idl idl ws_renamed MY = Some ([(lit "a", lit "A2Renamed")], [(lit "A2", lit "a", true, None, true)]).
Proof. vm_compute. reflexivity. Qed.
(* the same reference written as a qualified path, no `use`: `f: a::A2` *)
Definition w_b_path (c t : str) : ws_entry := w_entry (lit "my-crate") (w_file
  [IStruct [w_ts] (lit "B1") [] (FNamed [w_fld (lit "f") (TPath [c] t [])])] [[lit "typeshare"]; [c; t]]).
Definition ws_renamed_path : list ws_entry := [w_a; w_b_path (lit "a") (lit "A2")].
Lemma renamed_path_eval : w_run idl idl ws_renamed_path MY = Some ([(lit "a", lit "A2Renamed")], [(lit "A2", lit "a", true, None, true)]).
Proof. vm_compute. reflexivity. Qed.
(* what reaches the generated file of my-crate: the field says A2Renamed, and the import statement (TypeScript) names it *)
Definition w_field_types (ws : list ws_entry) (c : str) : list rtype :=
  match parse_workspace uc_exec [] [] (fun l => l) ws with
  | Ok arrivals => match crates_get (multi_crates idl arrivals) c with
                   | Some pd => flat_map (fun s => map fty (sfields s)) (p_structs pd)
                   | None => []
                   end
  | _ => []
  end.
Definition w_import_text (ws : list ws_entry) (c : str) : str :=
  match parse_workspace uc_exec [] [] (fun l => l) ws with
  | Ok arrivals => let cs := multi_crates idl arrivals in
                   match crates_get cs c with Some pd => ts_write_imports (crate_imports idl cs c pd) | None => [] end
  | _ => []
  end.
Lemma renamed_text_eval :
  w_field_types ws_renamed MY = [RSimple (lit "A2Renamed")] /\
  w_import_text ws_renamed MY = (lit "import { A2Renamed } from ""./a"";" ++ [10%N; 10%N])%list /\
  w_field_types ws_renamed_path MY = [RSimple (lit "A2Renamed")] /\
  w_import_text ws_renamed_path MY = (lit "import { A2Renamed } from ""./a"";" ++ [10%N; 10%N])%list.
Proof. repeat split; vm_compute; reflexivity. Qed.
(* `use a::*;` (formerly C14-glob: nothing was imported): every type of crate a is imported, the reference to A1
   is in the domain (covered by the glob), in no finding class, imported *)
Definition A_ALL : list (str * str) := [(lit "a", lit "A1"); (lit "a", lit "A2Renamed"); (lit "a", lit "A3")].
Lemma glob_eval : w_run idl idl ws_glob MY = Some (A_ALL, [(lit "A1", lit "a", true, None, true)]).
Proof. vm_compute. reflexivity. Qed.
(* `use a::*;` and a reference to the serde-renamed A2: imported under its generated name (a glob needs no
   condition on the target) *)
Lemma glob_renamed_eval : w_run idl idl ws_glob_renamed MY = Some (A_ALL, [(lit "A2", lit "a", true, None, true)]).
Proof. vm_compute. reflexivity. Qed.
(* `use a::*; use a::A1;` (formerly C14-glob-order: the list depended on which of the two imports the per-crate
   HashSet yielded first): the same list under both iteration orders *)
Lemma glob_order_eval :
  w_run idl idl ws_glob_explicit MY = Some (A_ALL, [(lit "A1", lit "a", true, None, true)]) /\
  w_run (@rev _) idl ws_glob_explicit MY = Some (A_ALL, [(lit "A1", lit "a", true, None, true)]).
Proof. split; vm_compute; reflexivity. Qed.
(* S defined in crates a and c, `use zz::S;`: the module imported from depends on the iteration order of CrateTypes *)
Lemma same_name_eval :
  w_run idl idl ws_same_name MY = Some ([(lit "a", lit "S")], [(lit "S", lit "a", false, Some "C14-same-name", true)]) /\
  w_run idl (@rev _) ws_same_name MY = Some ([(lit "c", lit "S")], [(lit "S", lit "a", false, Some "C14-same-name", false)]).
Proof. split; vm_compute; reflexivity. Qed.

Ltac from_eval E :=
  let H1 := fresh in let H2 := fresh in let H3 := fresh in let H4 := fresh in let H5 := fresh in
  destruct (w_run_verdict _ _ _ _ _ _ _ E (or_introl eq_refl)) as (arrivals & pd & v & H1 & H2 & H3 & H4 & H5);
  exists arrivals, pd, v; injection H5 as ? ? ? ? ?; rewrite <- H3 in H4; repeat split; assumption.

Theorem imports_complete_nonvacuous : exists arrivals pd v,
  parse_workspace uc_exec [] [] (fun l => l) ws_plain = Ok arrivals /\
  In (MY, pd) (multi_crates idl arrivals) /\
  In v (judge_crate (c14_infos uc_exec [] ws_plain) [] MY (scoped_pairs (crate_imports idl (multi_crates idl arrivals) MY pd))) /\
  rv_dom v = true /\ rv_known v = None /\ rv_imported v = true.
Proof. from_eval plain_eval. Qed.

Theorem renamed_import_fixed :
  renamed_in (c14_infos uc_exec [] ws_renamed) (lit "a") (lit "A2") = lit "A2Renamed" /\
  exists arrivals pd v,
  parse_workspace uc_exec [] [] (fun l => l) ws_renamed = Ok arrivals /\
  In (MY, pd) (multi_crates idl arrivals) /\
  In v (judge_crate (c14_infos uc_exec [] ws_renamed) [] MY (scoped_pairs (crate_imports idl (multi_crates idl arrivals) MY pd))) /\
  rv_name v = lit "A2" /\ rv_from v = lit "a" /\ rv_dom v = true /\ rv_known v = None /\ rv_imported v = true.
Proof. split; [vm_compute; reflexivity|]. from_eval renamed_eval. Qed.

(* the boundary of the named half of the domain (one_generated_name): crate a has TWO types with the Rust name A2 - in two
   modules of a/src/lib.rs -, one generated as A2, one as A2Other.  Typeshare knows types by their bare names: the rename
   table holds A2 -> A2Other for crate a, so the reference of my-crate is rewritten to A2Other and (since the /repo fix of
   C14-renamed-import) the import follows it, while the specification's renamed_in names the first, A2.  The reference is
   outside dom_C14 and in no finding class; nothing is claimed about it. *)
Definition w_a_two : ws_entry := w_entry (lit "a") (w_file
  [INest [w_struct [] (lit "A2") [w_fld (lit "x") (w_ty (lit "u8"))]];
   INest [w_struct [w_rename (lit "A2Other")] (lit "A2") [w_fld (lit "y") (w_ty (lit "u8"))]]]
  [[lit "typeshare"]; [lit "u8"]; [lit "serde"]]).
Definition ws_two_names : list ws_entry := [w_a_two; w_b [w_use (lit "a") (lit "A2")] (lit "A2")].
Lemma two_names_eval :
  one_generated_name (c14_infos uc_exec [] ws_two_names) (lit "a") (lit "A2") = false /\
  renamed_in (c14_infos uc_exec [] ws_two_names) (lit "a") (lit "A2") = lit "A2" /\
  w_run idl idl ws_two_names MY = Some ([(lit "a", lit "A2Other")], [(lit "A2", lit "a", false, None, false)]) /\
  w_field_types ws_two_names MY = [RSimple (lit "A2Other")].
Proof. repeat split; vm_compute; reflexivity. Qed.

Theorem glob_fixed : exists arrivals pd v,
  parse_workspace uc_exec [] [] (fun l => l) ws_glob = Ok arrivals /\
  In (MY, pd) (multi_crates idl arrivals) /\
  In v (judge_crate (c14_infos uc_exec [] ws_glob) [] MY (scoped_pairs (crate_imports idl (multi_crates idl arrivals) MY pd))) /\
  rv_dom v = true /\ rv_known v = None /\ rv_imported v = true.
Proof. from_eval glob_eval. Qed.

Theorem glob_renamed_imported :
  renamed_in (c14_infos uc_exec [] ws_glob_renamed) (lit "a") (lit "A2") = lit "A2Renamed" /\
  exists arrivals pd v,
  parse_workspace uc_exec [] [] (fun l => l) ws_glob_renamed = Ok arrivals /\
  In (MY, pd) (multi_crates idl arrivals) /\
  In v (judge_crate (c14_infos uc_exec [] ws_glob_renamed) [] MY (scoped_pairs (crate_imports idl (multi_crates idl arrivals) MY pd))) /\
  rv_name v = lit "A2" /\ rv_from v = lit "a" /\ rv_dom v = true /\ rv_known v = None /\ rv_imported v = true.
Proof. split; [vm_compute; reflexivity|]. from_eval glob_renamed_eval. Qed.

Theorem same_name_refuted : exists arrivals pd v,
  parse_workspace uc_exec [] [] (fun l => l) ws_same_name = Ok arrivals /\
  In (MY, pd) (multi_crates idl arrivals) /\
  In v (judge_crate (c14_infos uc_exec [] ws_same_name) [] MY (scoped_pairs (crate_imports (@rev _) (multi_crates idl arrivals) MY pd))) /\
  rv_known v = Some "C14-same-name" /\ rv_imported v = false.
Proof. from_eval (proj2 same_name_eval). Qed.

(* k/src/lib.rs: #[typeshare] struct K1 { x: u8 }  #[typeshare] pub const MyConst: u32 = 1;
   my-crate/src/lib.rs: use k::*; use k::K1;  -  formerly C14-glob-const: the glob imported the const under its
   generated name, while TypeScript defines it as MY_CONST.  Now a const is not in the type table: under both
   iteration orders exactly K1 is imported, and the specification calls the old list unsound. *)
Definition w_k : ws_entry := w_entry (lit "k") (w_file
  [w_struct [] (lit "K1") [w_fld (lit "x") (w_ty (lit "u8"))];
   IConst [w_ts] (lit "MyConst") (w_ty (lit "u32")) (CELit (CInt (Some (Zpos xH))))]
  [[lit "typeshare"]; [lit "u8"]; [lit "u32"]]).
Definition ws_glob_const : list ws_entry := [w_k; w_b [w_glob (lit "k"); w_use (lit "k") (lit "K1")] (lit "K1")].

Lemma glob_const_fixed :
  w_run idl idl ws_glob_const MY = Some ([(lit "k", lit "K1")], [(lit "K1", lit "k", true, None, true)]) /\
  w_run (@rev _) idl ws_glob_const MY = Some ([(lit "k", lit "K1")], [(lit "K1", lit "k", true, None, true)]) /\
  unsound_imports (c14_infos uc_exec [] ws_glob_const) MY [(lit "k", lit "K1"); (lit "k", lit "MyConst")] = [(lit "k", lit "MyConst")] /\
  const_imports (c14_infos uc_exec [] ws_glob_const) [(lit "k", lit "K1"); (lit "k", lit "MyConst")] = [(lit "k", lit "MyConst")].
Proof. repeat split; vm_compute; reflexivity. Qed.

(* a crate with nothing but consts has an EMPTY type table: `use k0::*;` creates the entry and extends it by
   nothing - the import list has no pair (TypeScript prints the statement `import {  } from "./k0";`) *)
Definition w_k0 : ws_entry := w_entry (lit "k0") (w_file
  [IConst [w_ts] (lit "MyConst") (w_ty (lit "u32")) (CELit (CInt (Some (Zpos xH))))] [[lit "typeshare"]; [lit "u32"]]).
Definition ws_glob_only_consts : list ws_entry := [w_k0; w_b [w_glob (lit "k0")] (lit "u8")].
Lemma glob_only_consts_eval :
  match parse_workspace uc_exec [] [] (fun l => l) ws_glob_only_consts with
  | Ok arrivals => let cs := multi_crates idl arrivals in
                   option_map (crate_imports idl cs MY) (crates_get cs MY)
  | _ => None
  end = Some [(lit "k0", [])].
Proof. vm_compute. reflexivity. Qed.
