(* C02 for Python: `class E(str, Enum)` for a unit enum; for an algebraic enum the `<Enum>Types`
   class, one pydantic class per variant whose tag field is `Literal[<Enum>Types.KEY]`, and the Union.
   The wire name of a variant class is the value of the Types member its tag refers to, looked up BY
   NAME: this is where the member-name function (convert_case's snake_case, upper-cased) matters. *)
From Coq Require Import List Bool Lia ZifyBool ZifyN.
From TS Require Import Model.Str Model.Outcome Model.Unicode Model.Rename Model.Types Model.Parse Model.Lang.Common Model.Lang.Decl
                       Model.Lang.ConvertCase Model.Lang.Python.
From TS Require Import Spec.C16Spec Spec.C02Spec Proofs.C16 Proofs.BackCommon Proofs.C02_Back.
Import ListNotations.
Local Open Scope N_scope.
Local Notation length := List.length (only parsing).

Local Notation WIRES sh := (map (fun v => renamed (vid (variant_shared v))) (evariants sh)).

Section PY.
Variable uc : unicode.
Hypothesis Huc : unicode_ok uc.
Variable cfg : py_config.

(* ---------- convert_case's snake_case on ASCII strings is the spec's c02_py_key ---------- *)
Lemma c02_cc_upper c : c < 128 -> cc_is_upper uc c = is_aupper c.
Proof.
  intros H. unfold cc_is_upper. rewrite (ok_to_upper uc Huc c H), (ok_to_lower uc Huc c H). cbn [str_eqb].
  unfold aupper, alower, is_alower, is_aupper.
  destruct ((97 <=? c) && (c <=? 122)) eqn:E1; destruct ((65 <=? c) && (c <=? 90)) eqn:E2; lia.
Qed.
Lemma c02_cc_lower c : c < 128 -> cc_is_lower uc c = is_alower c.
Proof.
  intros H. unfold cc_is_lower. rewrite (ok_to_upper uc Huc c H), (ok_to_lower uc Huc c H). cbn [str_eqb].
  unfold aupper, alower, is_alower, is_aupper.
  destruct ((97 <=? c) && (c <=? 122)) eqn:E1; destruct ((65 <=? c) && (c <=? 90)) eqn:E2; lia.
Qed.

Definition c02_opt_ascii (p : option char) : Prop := match p with Some c => c < 128 | None => True end.

Lemma c02_words_model s : forall prev word, forallb is_ascii s = true -> c02_opt_ascii prev ->
  cc_split_go uc prev s word = c02_words prev s word.
Proof.
  induction s as [|c r IH]; intros prev word Hs Hp; cbn [cc_split_go c02_words]; [reflexivity|].
  cbn [forallb] in Hs. apply andb_true_iff in Hs as [Hc Hr]. unfold is_ascii in Hc.
  assert (Hc' : c < 128) by lia.
  change (cc_detect_one c) with (c02_sep c).
  assert (E2 : match prev with Some p => cc_detect_two uc p c | None => false end = match prev with Some p => c02_two p c | None => false end).
  { destruct prev as [p|]; [|reflexivity]. cbn in Hp. unfold cc_detect_two, c02_two, cc_is_digit.
    now rewrite !c02_cc_upper, !c02_cc_lower by assumption. }
  assert (E3 : match prev, r with Some p, n :: _ => cc_detect_three uc p c n | _, _ => false end =
               match prev, r with Some p, n :: _ => c02_three p c n | _, _ => false end).
  { destruct prev as [p|]; [|reflexivity]. destruct r as [|n r']; [reflexivity|]. cbn in Hp.
    cbn [forallb] in Hr. apply andb_true_iff in Hr as [Hn _]. unfold is_ascii in Hn.
    unfold cc_detect_three, c02_three. rewrite !c02_cc_upper, c02_cc_lower by lia. reflexivity. }
  rewrite E2, E3. rewrite !(IH _ _ Hr) by exact Hc'. reflexivity.
Qed.

Lemma c02_words_ascii s : forall prev word, forallb is_ascii s = true -> forallb is_ascii word = true ->
  Forall (fun w => forallb is_ascii w = true) (c02_words prev s word).
Proof.
  induction s as [|c r IH]; intros prev word Hs Hw; cbn [c02_words]; [repeat constructor; exact Hw|].
  cbn [forallb] in Hs. apply andb_true_iff in Hs as [Hc Hr].
  destruct (c02_sep c); [constructor; [exact Hw|]; now apply IH|].
  destruct (_ || _).
  - constructor; [exact Hw|]. apply IH; [exact Hr|]. cbn [forallb]. now rewrite Hc.
  - apply IH; [exact Hr|]. rewrite forallb_app, Hw. cbn [forallb]. now rewrite Hc.
Qed.

Lemma c02_lower_ascii_ascii w : forallb is_ascii w = true -> forallb is_ascii (str_lower_ascii w) = true.
Proof.
  unfold str_lower_ascii. induction w as [|c r IH]; cbn [map forallb]; [reflexivity|]. intros H.
  apply andb_true_iff in H as [Hc Hr]. rewrite (IH Hr), andb_true_r. unfold is_ascii, alower, is_aupper in *.
  destruct ((65 <=? c) && (c <=? 90)) eqn:E; lia.
Qed.

Lemma c02_join_ascii (l : list str) : Forall (fun w => forallb is_ascii w = true) l -> forallb is_ascii (join [ch_us] l) = true.
Proof.
  induction 1 as [|w r Hw Hr IH]; [reflexivity|]. cbn [join]. destruct r as [|w' r']; [exact Hw|].
  rewrite !forallb_app, Hw, IH. reflexivity.
Qed.

Lemma c02_Forall_filter {A} (P : A -> Prop) (f : A -> bool) l : Forall P l -> Forall P (filter f l).
Proof. induction 1; cbn [filter]; [constructor|]. destruct (f x); [constructor|]; assumption. Qed.

Lemma c02_map_ext_Forall {A B} (f g : A -> B) (P : A -> Prop) l : Forall P l -> (forall x, P x -> f x = g x) -> map f l = map g l.
Proof. induction 1; intros H'; cbn [map]; [reflexivity|]. f_equal; auto. Qed.

Lemma c02_Forall_map {A B} (f : A -> B) (P : A -> Prop) (Q : B -> Prop) l : Forall P l -> (forall x, P x -> Q (f x)) -> Forall Q (map f l).
Proof. induction 1; intros H'; cbn [map]; constructor; auto. Qed.

Theorem c02_py_key_model s : forallb is_ascii s = true ->
  str_to_uppercase uc (cc_to_snake uc s) = c02_py_key s.
Proof.
  intros Hs. unfold cc_to_snake, cc_split, c02_py_key.
  rewrite (c02_words_model s None [] Hs I).
  pose proof (c02_Forall_filter _ (fun w => match w with [] => false | _ => true end) _ (c02_words_ascii s None [] Hs eq_refl)) as Hw.
  rewrite (c02_map_ext_Forall (str_to_lowercase uc) str_lower_ascii _ _ Hw) by (intros w H; now apply (to_lowercase_ascii uc Huc)).
  apply (to_uppercase_ascii uc Huc). apply c02_join_ascii.
  eapply c02_Forall_map; [exact Hw|]. intros w H. now apply c02_lower_ascii_ascii.
Qed.

Lemma c02_wire_ok_ascii s : c02_wire_ok s = true -> forallb is_ascii s = true.
Proof.
  destruct s as [|c r]; [discriminate|]. cbn [c02_wire_ok forallb]. intros H. apply andb_true_iff in H as [Hc Hr].
  apply andb_true_iff. split.
  - unfold is_ascii, is_aalpha, is_alower, is_aupper, ch_us in *. lia.
  - eapply forallb_impl; [|exact Hr]. intros x Hx. unfold c02_key_char, is_ascii, is_aalpha, is_alower, is_aupper, is_adigit, ch_us, ch_dash in *. lia.
Qed.

(* ---------- looking a wire name up by its own key ---------- *)
Lemma c02_lookup_own (K : str -> str) ws :
  c02_has_pair (fun a b => str_eqb (K a) (K b)) ws = false ->
  map (fun w => py_types_lookup (map (fun w => (K w, w)) ws) (K w)) ws = ws.
Proof.
  induction ws as [|w r IH]; intros H; [reflexivity|]. cbn [c02_has_pair] in H. apply orb_false_iff in H as [H1 H2].
  cbn [map py_types_lookup]. rewrite str_eqb_refl. f_equal.
  etransitivity; [|exact (IH H2)]. apply map_ext_in. intros w' Hw'.
  assert (str_eqb (K w) (K w') = false) as ->; [|reflexivity].
  clear -H1 Hw'. induction r as [|x r IH]; [destruct Hw'|]. cbn [existsb] in H1. apply orb_false_iff in H1 as [Hx Hr].
  destruct Hw' as [->|Hin]; [exact Hx|now apply IH].
Qed.

(* ---------- decisions ---------- *)
Lemma c02_py_class_plain s st d st' : py_class_of uc cfg s st = Ok (d, st') -> forallb c02_plain (py_obs d) = true.
Proof.
  unfold py_class_of. intros H. repeat (apply mbind_ok in H as (? & ? & _ & H)). unfold ret in H. injection H as <- _. reflexivity.
Qed.

Lemma c02_py_inner_plain e vs st cs st' : py_inner_classes_of uc cfg e vs st = Ok (cs, st') ->
  forallb c02_plain (flat_map py_obs cs) = true.
Proof.
  revert st cs st'. induction vs as [|v r IH]; intros st cs st' H; cbn [py_inner_classes_of] in H.
  - unfold ret in H. injection H as <- _. reflexivity.
  - destruct v as [|? ?|fs sh]; try (eapply IH; eassumption).
    apply mbind_ok in H as (c & s1 & Hc & H). apply mbind_ok in H as (cs0 & s2 & Hr & H).
    unfold ret in H. injection H as <- _. cbn [flat_map]. rewrite forallb_app, (c02_py_class_plain _ _ _ _ Hc), (IH _ _ _ Hr). reflexivity.
Qed.

Lemma c02_py_variant en tn sh v st pv st' : py_variant_of uc cfg en tn sh v st = Ok (pv, st') ->
  pyv_type_key pv = py_variant_type_key uc v /\ pyv_class pv = en ++ original (vid (variant_shared v)) /\
  c02_payload_kind (match pyv_content pv with PYCNone => PayUnit | PYCType ty => PayNewtype ty false | PYCInner i => PayRef i [] end) = c02_rvariant_kind v.
Proof.
  destruct v as [vsh|t vsh|fs vsh]; cbn [py_variant_of]; intros H.
  - apply mbind_ok in H as (? & ? & _ & H). unfold ret in H. injection H as <- _. repeat split.
  - apply mbind_ok in H as (? & ? & _ & H). apply mbind_ok in H as (? & ? & _ & H). unfold ret in H. injection H as <- _. repeat split.
  - apply mbind_ok in H as (? & ? & _ & H). unfold ret in H. injection H as <- _. repeat split.
Qed.

Theorem C02_py_core acr e st ds st' : py_decl_of uc cfg (ItEnum e) st = Ok (ds, st') ->
  dom_C02_back (c02_expect_ir e) = true ->
  known_C02_back Python acr (c02_expect_ir e) = None ->
  c02_good_core Python (c02_expect_ir e) (flat_map py_obs ds) = true /\ c02_good_cases (flat_map py_obs ds) = true.
Proof.
  cbn [py_decl_of]. intros H Hdom Hkn. apply mbind_ok in H as (inners & s1 & Hi & H).
  pose proof (c02_py_inner_plain _ _ _ _ _ Hi) as Hplain.
  pose proof (c02_dom_back_parts _ Hdom) as (Hconv & Hdi & Hwok & Hdw & Hdata).
  destruct e as [sh|tag content sh]; cbn [enum_shared] in *.
  - (* class E(str, Enum) *)
    apply mbind_ok in H as (? & s2 & _ & H). apply mbind_ok in H as (vs & s3 & Hv & H).
    unfold ret in H. injection H as <- _. rewrite flat_map_app. cbn [flat_map py_obs]. rewrite app_nil_r.
    apply (mmapM_Forall2 _ (fun v t => exists vsh, v = VUnit vsh /\ t = (vcomments vsh, str_to_uppercase uc (original (vid vsh)), renamed (vid vsh)))) in Hv.
    2:{ intros v s0 t s0' Hx. destruct v as [vsh| |]; try discriminate. unfold ret in Hx. injection Hx as <- _. eauto. }
    match goal with |- context [?pre ++ [?x]] => set (d := x) end.
    assert (Hw : map vd_wire (d_variants d) = map (fun v => renamed (vid (variant_shared v))) (evariants sh)).
    { subst d. cbn [d_variants]. rewrite map_map. eapply Forall2_map_r; [exact Hv|]. intros v t (vsh & -> & ->). reflexivity. }
    assert (Hk : map (fun v => c02_payload_kind (vd_payload v)) (d_variants d) = map c02_rvariant_kind (evariants sh)).
    { subst d. cbn [d_variants]. rewrite map_map. eapply Forall2_map_r; [exact Hv|]. intros v t (vsh & -> & ->). reflexivity. }
    split.
    + apply c02_good_core_intro; [now apply c02_plain_not_enum|reflexivity|].
      apply c02_good_enum_intro; [exact Hw|exact Hk|reflexivity].
    + rewrite c02_good_cases_app, (c02_plain_cases _ Hplain). apply c02_good_cases_one.
      cbn [known_C02_back c02_expect_ir c02_keys c02_idents enum_shared] in Hkn.
      destruct (c02_has_pair c02_upper_eq _) eqn:Hp; [discriminate|].
      cbn [c02_expect_ir c02_idents enum_shared] in Hconv. rewrite forallb_forall in Hconv.
      apply (c02_distinct_rel c02_upper_eq (fun a n => n = str_to_uppercase uc a)
                              (map (fun v => original (vid (variant_shared v))) (evariants sh))); [| |exact Hp].
      * subst d. cbn [d_variants]. rewrite map_map. eapply c02_Forall2_maps; [exact Hv|]. intros v t (vsh & -> & ->). reflexivity.
      * intros a b na nb Ha Hb -> -> E.
        rewrite !(to_uppercase_ascii uc Huc) in E by (apply c02_conv_ascii'; auto).
        unfold c02_upper_eq. rewrite E. apply str_eqb_refl.
  - (* <Enum>Types + variant classes + Union *)
    apply mbind_ok in H as (d0 & s2 & Hd & H). unfold ret in H. injection H as <- _.
    unfold py_algebraic_of in Hd.
    apply mbind_ok in Hd as (? & ? & _ & Hd). apply mbind_ok in Hd as (? & ? & _ & Hd). apply mbind_ok in Hd as (? & ? & _ & Hd).
    apply mbind_ok in Hd as (vs & s6 & Hv & Hd). apply mbind_ok in Hd as (? & ? & _ & Hd). unfold ret in Hd. injection Hd as <- _.
    rewrite flat_map_app. cbn [flat_map py_obs]. rewrite app_nil_r.
    apply (mmapM_Forall2 _ (fun v pv => pyv_type_key pv = py_variant_type_key uc v /\
                                        pyv_class pv = renamed (eid sh) ++ original (vid (variant_shared v)) /\
                                        c02_payload_kind (match pyv_content pv with PYCNone => PayUnit | PYCType ty => PayNewtype ty false | PYCInner i => PayRef i [] end) = c02_rvariant_kind v)) in Hv.
    2:{ intros v s0 pv s0' Hx. exact (c02_py_variant _ _ _ _ _ _ _ Hx). }
    match goal with |- context [?pre ++ [?h; ?x]] => set (hd := h); set (d := x) end.
    cbn [known_C02_back c02_expect_ir c02_keys c02_wires enum_shared] in Hkn.
    destruct (c02_has_pair c02_py_key_eq _) eqn:Hp; [discriminate|].
    cbn [c02_expect_ir c02_wires enum_shared] in Hwok, Hdw.
    assert (Hkey : forall v, In v (evariants sh) -> py_variant_type_key uc v = c02_py_key (renamed (vid (variant_shared v)))).
    { intros v Hin. unfold py_variant_type_key. apply c02_py_key_model. apply c02_wire_ok_ascii.
      rewrite forallb_forall in Hwok. apply Hwok. now apply in_map with (f := fun v => renamed (vid (variant_shared v))). }
    set (entries := map (fun v => (py_variant_type_key uc v, renamed (vid (variant_shared v)))) (evariants sh)) in *.
    assert (Hent : entries = map (fun w => (c02_py_key w, w)) (WIRES sh)).
    { subst entries. rewrite map_map. apply map_ext_in. intros v Hin. now rewrite (Hkey v Hin). }
    assert (Hw : map vd_wire (d_variants d) = WIRES sh).
    { subst d. cbn [d_variants]. rewrite map_map. cbn [py_obs_variant vd_wire].
      transitivity (map (fun v => py_types_lookup entries (py_variant_type_key uc v)) (evariants sh)).
      { eapply Forall2_map_r; [exact Hv|]. intros v pv (E & _). now rewrite E. }
      rewrite Hent. set (F := py_types_lookup _).
      transitivity (map (fun w => F (c02_py_key w)) (WIRES sh)).
      { rewrite (map_map (fun v => renamed (vid (variant_shared v))) (fun w => F (c02_py_key w))).
        apply map_ext_in. intros v Hin. now rewrite (Hkey v Hin). }
      subst F. apply c02_lookup_own. exact Hp. }
    assert (Hk : map (fun v => c02_payload_kind (vd_payload v)) (d_variants d) = map c02_rvariant_kind (evariants sh)).
    { subst d. cbn [d_variants]. rewrite map_map. eapply Forall2_map_r; [exact Hv|]. intros v pv (_ & _ & E). exact E. }
    assert (Hkc : map (fun pv => c02_payload_kind (match pyv_content pv with PYCNone => PayUnit | PYCType ty => PayNewtype ty false | PYCInner i => PayRef i [] end)) vs =
                  map c02_rvariant_kind (evariants sh)).
    { eapply Forall2_map_r; [exact Hv|]. intros v pv (_ & _ & E). exact E. }
    pose proof (c02_Forall2_length _ _ _ Hv) as Hlen.
    change (flat_map py_obs inners ++ [hd; d]) with (flat_map py_obs inners ++ [hd] ++ [d]). rewrite app_assoc.
    split.
    + apply c02_good_core_intro; [|reflexivity|].
      { rewrite forallb_app, (c02_plain_not_enum _ Hplain). reflexivity. }
      apply c02_good_enum_intro; [exact Hw|exact Hk|].
      unfold c02_good_keys. cbn [c02_expect_ir c02_keys c02_kinds enum_shared].
      subst d. cbn [d_tag_keys d_content_keys c02_tag_carried c02_content_carried].
      rewrite !c02_forallb_eq.
      2:{ apply c02_Forall_flat. intros pv. destruct (pyv_content pv); repeat constructor. }
      2:{ apply c02_Forall_const. }
      cbn [andb]. rewrite !c02_is_nil_map, <- (c02_is_nil_length _ _ Hlen).
      rewrite (c02_flat_nil (fun pv => c02_payload_kind (match pyv_content pv with PYCNone => PayUnit | PYCType ty => PayNewtype ty false | PYCInner i => PayRef i [] end))).
      2:{ intros pv. destruct (pyv_content pv); reflexivity. }
      rewrite Hkc. destruct (c02_is_nil vs); destruct (c02_has_data _); reflexivity.
    + rewrite !c02_good_cases_app, (c02_plain_cases _ Hplain). cbn [andb]. apply andb_true_iff. split; apply c02_good_cases_one.
      * (* the members of <Enum>Types *)
        subst hd. cbn [d_variants]. rewrite map_map. cbn [vd_name]. rewrite Hent, map_map. cbn [fst].
        apply (c02_distinct_map c02_py_key_eq c02_py_key (WIRES sh)); [|exact Hp].
        intros a b _ _ E. unfold c02_py_key_eq. rewrite E. apply str_eqb_refl.
      * (* the variant classes *)
        assert (Hn : map vd_name (d_variants d) = map (fun a => renamed (eid sh) ++ a) (map (fun v => original (vid (variant_shared v))) (evariants sh))).
        { subst d. cbn [d_variants]. rewrite !map_map. eapply Forall2_map_r; [exact Hv|]. intros v pv (_ & E & _). exact E. }
        rewrite Hn. apply c02_distinct_prefix. exact Hdi.
Qed.

Theorem C02_back_py acr e st ds st' : py_decl_of uc cfg (ItEnum e) st = Ok (ds, st') ->
  dom_C02_back (c02_expect_ir e) = true ->
  known_C02_back Python acr (c02_expect_ir e) = None ->
  good_C02 Python (c02_expect_ir e) (flat_map py_obs ds) = true.
Proof.
  intros H Hd Hk. destruct (C02_py_core acr e st ds st' H Hd Hk) as [Hc Hn]. unfold good_C02. now rewrite Hc, Hn.
Qed.
End PY.
