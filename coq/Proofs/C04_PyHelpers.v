(* C04, Python: witness of the open finding C04-python-option-drops-helpers (class Spec/C04PyHelpers.v). *)
From Coq Require Import List Bool Arith NArith String.
From TS Require Import Model.Str Model.Outcome Model.Unicode Model.Types Model.Parse Model.Lang.Common Model.Lang.Decl Model.Lang.Python.
From TS Require Import Spec.C04PyHelpers.
From TS Require Proofs.C10.
Import ListNotations.
Local Open Scope N_scope.

(* #[typeshare] pub struct S { pub a: OffsetDateTime, pub b: Option<OffsetDateTime> } *)
Definition ph_field (name : string) (ty : rtype) : rfield :=
  {| fid := Proofs.C10.w_id name; fty := ty; fcomments := []; has_default := false; fdecs := [] |}.
Definition ph_prog : parsed :=
  {| p_structs := [{| sid := Proofs.C10.w_id "S"; sgenerics := []; sfields := [ph_field "a" (RPrim PDateTime); ph_field "b" (ROption (RPrim PDateTime))];
                      scomments := []; sdecs := []; sredacted := false |}];
     p_enums := []; p_aliases := []; p_consts := []; p_type_names := []; p_errors := []; p_imports := [] |}.

Definition ph_helpers : str := lit "Annotated[datetime, BeforeValidator(parse_rfc3339), PlainSerializer(serialize_datetime_data)]".

Lemma python_option_drops_helpers_refuted :
  exists text, py_generate uc_exec Proofs.C10.w_py_cfg ph_prog = Ok text /\
    contains_sub (lit "    a: " ++ ph_helpers) text = true /\
    contains_sub (lit "    b: Optional[datetime] = Field(default=None)") text = true /\
    c04_py_option_drops_helpers (lit "OffsetDateTime") 1 true (lit "datetime") ph_helpers = true.
Proof.
  exists (match py_generate uc_exec Proofs.C10.w_py_cfg ph_prog with Ok t => t | _ => [] end).
  repeat split; vm_compute; reflexivity.
Qed.

(* boundaries: no Option layer, a missing marker, a type that was changed in another way, or a base type without a translation
   are outside the class *)
Lemma python_option_drops_helpers_boundaries :
  c04_py_option_drops_helpers (lit "OffsetDateTime") 0 false (lit "datetime") ph_helpers = false /\
  c04_py_option_drops_helpers (lit "OffsetDateTime") 1 false (lit "datetime") ph_helpers = false /\
  c04_py_option_drops_helpers (lit "OffsetDateTime") 1 true (lit "str") ph_helpers = false /\
  c04_py_option_drops_helpers (lit "String") 1 true (lit "str") (lit "str") = false /\
  c04_py_option_drops_helpers (lit "OffsetDateTime") 2 true (lit "Optional[datetime]") ph_helpers = true.
Proof. repeat split; vm_compute; reflexivity. Qed.
