(* C10, grammar half for TypeScript, part 4: from the IR to the whole file.
     - the DECISION layer (ts_texp, ts_member_of, ts_variant_of, ts_decl_of) produces declarations of
       [c10_tsg_decl_ok] from every item of the grammar domain ([c10_tsg_item_ok] on top of dom_C10);
     - the version header is a comment, the ReviverFunc / ReplacerFunc trailer two arrow-function constants;
     - [ts_generate_recognised]: the recogniser accepts the whole generated file. *)
From Coq Require Import List Bool Arith Lia ZifyBool ZifyN NArith String Permutation.
From TS Require Import Model.Str Model.Outcome Model.Unicode Model.Types Model.Parse Model.Rename Model.TopsortAlgo Model.Topsort
                       Model.Lang.Common Model.Lang.Decl Model.Lang.TypeScript.
From TS Require Import Spec.C10Spec Spec.C10TsGrammar Proofs.BackCommon Proofs.C10_TSGrammarTok Proofs.C10_TSGrammarParse Proofs.C10_TSGrammar.
From TS Require Proofs.C10Lex Proofs.C10_TS Proofs.C10_TSFile.
Import ListNotations.
Local Open Scope N_scope.
Local Notation length := List.length (only parsing).

Ltac lit_cfrag := apply cfrag_compute; vm_compute; reflexivity.
Ltac lit_pass := apply pass_gnss; [vm_compute; reflexivity|vm_compute; discriminate].

(* ------------------------------------------------------------------ the grammar domain, on top of dom_C10 *)
(* every type_mappings value is a type of the grammar *)
Definition c10_tsg_cfg_ok (cfg : ts_config) : Prop := Forall (fun kv => TyText (snd kv)) (ts_type_mappings cfg).
(* a property key is an identifier unless it has a dash (then it is quoted): C10-digit-name is outside; a type
   override for TypeScript is a type of the grammar *)
Definition c10_tsg_field_ok (f : rfield) : Prop :=
  c10_tsg_key_ok (renamed (fid f)) = true /\ forall o, type_override f TypeScript = Some o -> TyText o.
Definition c10_tsg_variant_dom (v : rvariant) : Prop :=
  match v with VAnon fs _ => Forall c10_tsg_field_ok fs | _ => True end.
(* a tagged union prints its tag / content keys unquoted and needs at least one variant *)
Definition c10_tsg_item_ok (it : ritem) : Prop :=
  match it with
  | ItStruct s => Forall c10_tsg_field_ok (sfields s)
  | ItEnum (EAlgebraic tag content sh) =>
    c10_ts_ident_ok tag = true /\ c10_ts_ident_ok content = true /\ evariants sh <> [] /\ Forall c10_tsg_variant_dom (evariants sh)
  | _ => True
  end.
Definition c10_tsg_dom (pd : parsed) : Prop := Forall c10_tsg_item_ok (items_of pd).

(* ------------------------------------------------------------------ numbers, constant names *)
Lemma dec_fuel_digits fuel : forall n acc, forallb is_adigit acc = true -> forallb is_adigit (dec_fuel fuel n acc) = true.
Proof.
  induction fuel as [|f IH]; intros n acc Ha; cbn [dec_fuel]; [exact Ha|].
  assert (Hd : forallb is_adigit ((48 + n mod 10) :: acc) = true).
  { cbn [forallb]. rewrite Ha, andb_true_r. assert (n mod 10 < 10) by (apply N.mod_lt; lia). unfold is_adigit. lia. }
  destruct (n / 10 =? 0); [exact Hd|]. apply IH. exact Hd.
Qed.
Lemma dec_fuel_ne fuel : forall n acc, acc <> [] -> dec_fuel fuel n acc <> [].
Proof.
  induction fuel as [|f IH]; intros n acc Ha; cbn [dec_fuel]; [exact Ha|].
  destruct (n / 10 =? 0); [discriminate|]. apply IH. discriminate.
Qed.
Lemma dec_fuel_S_ne f n acc : dec_fuel (S f) n acc <> [].
Proof. cbn [dec_fuel]. destruct (n / 10 =? 0); [discriminate|apply dec_fuel_ne; discriminate]. Qed.
Lemma dec_of_N_digits n : dec_of_N n <> [] /\ forallb is_adigit (dec_of_N n) = true.
Proof.
  unfold dec_of_N. split; [|apply dec_fuel_digits; reflexivity].
  apply (dec_fuel_S_ne 59).
Qed.
Lemma dec_of_Z_num z : c10_tsg_num (dec_of_Z z).
Proof.
  destruct z as [|p|p]; cbn [dec_of_Z].
  - exists false, [48]. split; [reflexivity|]. split; [discriminate|reflexivity].
  - exists false, (dec_of_N (N.pos p)). split; [reflexivity|apply dec_of_N_digits].
  - exists true, (dec_of_N (N.pos p)). split; [reflexivity|apply dec_of_N_digits].
Qed.

Lemma ident_char_ts c : c10_ident_char c = true -> c10_ts_id_char c = true.
Proof. unfold c10_ident_char, c10_ts_id_char, c10_ts_id_start. lia. Qed.

Lemma const_name_ok uc n : unicode_ok uc -> c10_ident_ok n = true ->
  c10_ts_ident_ok (str_to_uppercase uc (to_snake_case uc n)) = true.
Proof.
  intros Huc H. destruct n as [|c r]; [discriminate|]. unfold c10_ident_ok in H. apply andb_true_iff in H as [Hc Hr].
  unfold to_snake_case. cbn [snake_go negb andb app]. unfold str_to_uppercase. cbn [flat_map].
  assert (Hlt : alower c < 128).
  { unfold c10_ident_start, alower, is_aalpha, is_alower, is_aupper, ch_us in *. destruct ((65 <=? c) && (c <=? 90)) eqn:E; lia. }
  rewrite (ok_to_upper uc Huc _ Hlt). cbn [app c10_ts_ident_ok]. apply andb_true_iff. split.
  - unfold c10_ident_start, c10_ts_id_start, aupper, alower, is_aalpha, is_alower, is_aupper, ch_us in *.
    destruct ((65 <=? c) && (c <=? 90)) eqn:E1; [destruct ((97 <=? c + 32) && (c + 32 <=? 122)) eqn:E2|destruct ((97 <=? c) && (c <=? 122)) eqn:E2]; lia.
  - fold (str_to_uppercase uc (snake_go uc (all_upper (c :: r)) false r)).
    pose proof (Proofs.C10_TSFile.to_uppercase_ident uc Huc _ (Proofs.C10_TSFile.snake_go_ident uc (all_upper (c :: r)) false r Hr)) as G.
    revert G. apply Proofs.C10Lex.forallb_impl. exact ident_char_ts.
Qed.

(* ------------------------------------------------------------------ the decision layer *)
Section Decide.
Variable uc : unicode.
Hypothesis Huc : unicode_ok uc.
Variable cfg : ts_config.
Hypothesis Gcfg : c10_tsg_cfg_ok cfg.

Definition tsp {A} (P : A -> Prop) (m : M ts_state A) : Prop := forall s y s', m s = Ok (y, s') -> P y.

Lemma tsp_mmapM {A B} (f : A -> M ts_state B) (Q : A -> Prop) (P : B -> Prop) :
  (forall x, Q x -> tsp P (f x)) -> forall l, Forall Q l -> tsp (Forall P) (mmapM f l).
Proof.
  intros Hf l HQ. induction HQ as [|x l Hx Hl IH]; intros s ys s' H; cbn [mmapM] in H.
  - unfold ret in H. injection H as <- <-. constructor.
  - apply mbind_ok in H as (y & s1 & Hy & H). apply mbind_ok in H as (ys' & s2 & Hys & H). unfold ret in H. injection H as <- <-.
    constructor; [exact (Hf x Hx s y s1 Hy)|exact (IH s1 ys' s2 Hys)].
Qed.

Lemma tmap_get_tytext k v : tmap_get (ts_type_mappings cfg) k = Some v -> TyText v.
Proof.
  pose proof Gcfg as G. unfold c10_tsg_cfg_ok in G. revert G. generalize (ts_type_mappings cfg). intros m G.
  induction G as [|[a b] r Hab Hr IH]; cbn [tmap_get]; [discriminate|].
  destruct (str_eqb a k); [intros E; injection E as <-; exact Hab|exact IH].
Qed.

Ltac special_case H :=
  let mapped := fresh "mapped" in let E := fresh "E" in
  destruct (tmap_get (ts_type_mappings cfg) _) as [mapped|] eqn:E;
  [ let a := fresh in let b := fresh in let c := fresh in let d := fresh in let Ha := fresh in let Hc := fresh in
    apply mbind_ok in H as (a & b & Ha & H); apply mbind_ok in H as (c & d & Hc & H); unfold ret in H; injection H as <- <-;
    apply TG_raw; exact (tmap_get_tytext _ _ E)
  | ].

Lemma name0 w : c10_ts_ident_ok (lit w) = true -> c10_tsg_texp (XName (lit w) []).
Proof. intros H. apply TG_name; [exact H|constructor]. Qed.

Lemma ts_texp_gram generics t : c10_rtype_ok t = true -> tsp c10_tsg_texp (ts_texp cfg generics t).
Proof.
  induction t as [id | id ps IH | t IH | t n IH | t IH | k v IHk IHv | t IH | p] using rtype_ind';
    intros Hok s x s' H; cbn [c10_rtype_ok] in Hok; cbn [ts_texp] in H.
  - unfold ret in H. injection H as <- <-.
    destruct (tmap_get (ts_type_mappings cfg) id) eqn:E; [apply TG_raw, (tmap_get_tytext _ _ E)|].
    apply TG_name; [apply ident_ts_ident, Hok|constructor].
  - apply andb_true_iff in Hok as [Hid Hps].
    destruct (tmap_get (ts_type_mappings cfg) id) eqn:E.
    + unfold ret in H. injection H as <- <-. apply TG_raw, (tmap_get_tytext _ _ E).
    + apply mbind_ok in H as (parts & s1 & Hgo & H). unfold ret in H. injection H as <- <-.
      apply TG_name; [apply ident_ts_ident, Hid|].
      clear E. revert s parts s1 Hgo. induction IH as [|a l Ha Hl IHl]; intros s parts s1 Hgo.
      * unfold ret in Hgo. injection Hgo as <- <-. constructor.
      * cbn [forallb] in Hps. apply andb_true_iff in Hps as [Hpa Hpl].
        apply mbind_ok in Hgo as (y & s2 & Hy & Hgo). apply mbind_ok in Hgo as (ys & s3 & Hys & Hgo). unfold ret in Hgo. injection Hgo as <- <-.
        constructor; [exact (Ha Hpa _ _ _ Hy)|exact (IHl Hpl _ _ _ Hys)].
  - special_case H. apply mbind_ok in H as (e & s1 & He & H). unfold ret in H. injection H as <- <-. apply TG_seq, (IH Hok _ _ _ He).
  - special_case H. apply mbind_ok in H as (e & s1 & He & H). unfold ret in H. injection H as <- <-.
    apply TG_fixed. pose proof (IH Hok _ _ _ He) as G. induction (N.to_nat n); cbn [repeat]; constructor; assumption.
  - special_case H. apply mbind_ok in H as (e & s1 & He & H). unfold ret in H. injection H as <- <-. apply TG_seq, (IH Hok _ _ _ He).
  - apply andb_true_iff in Hok as [Hk Hv]. special_case H.
    apply mbind_ok in H as (ks & s1 & Hks & H). apply mbind_ok in H as (vs & s2 & Hvs & H). unfold ret in H. injection H as <- <-.
    assert (Hk' : ts_texp cfg generics k s = Ok (ks, s1)).
    { destruct k; try exact Hks. destruct (mem_str id generics); [discriminate|exact Hks]. }
    apply TG_map; [exact (IHk Hk _ _ _ Hk')|exact (IHv Hv _ _ _ Hvs)].
  - special_case H. exact (IH Hok _ _ _ H).
  - special_case H. destruct p; try discriminate; unfold ret in H; injection H as <- <-; apply name0; reflexivity.
Qed.

Lemma key_chars k : c10_key_ok k = true -> forallb c10_key_char k = true.
Proof. destruct k; [discriminate|]. intros H. exact H. Qed.

Lemma ts_member_gram generics f : c10_field_ok CTS f = true -> c10_tsg_field_ok f -> tsp c10_tsg_member_ok (ts_member_of cfg generics f).
Proof.
  intros Hf (Gk & Go) s m s' H. unfold ts_member_of in H.
  apply mbind_ok in H as (ty & s1 & Hty & H). apply mbind_ok in H as (st & s2 & Hget & H).
  apply mbind_ok in H as (u & s3 & Hput & H). unfold ret in H. injection H as <- <-.
  unfold c10_field_ok in Hf. rewrite !andb_true_iff in Hf. destruct Hf as [[[Hid Hrt] Hdocs] _].
  unfold c10_tsg_member_ok. cbn [tm_docs tm_key tm_type]. split; [exact Hdocs|]. split; [exact Gk|].
  destruct (type_override f TypeScript) as [o|] eqn:Eo.
  - unfold ret in Hty. injection Hty as <- <-. apply TG_raw, Go. reflexivity.
  - exact (ts_texp_gram generics (fty f) Hrt _ _ _ Hty).
Qed.

Lemma ts_members_gram generics fs : forallb (c10_field_ok CTS) fs = true -> Forall c10_tsg_field_ok fs ->
  tsp (Forall c10_tsg_member_ok) (mmapM (ts_member_of cfg generics) fs).
Proof.
  intros Hfs Gfs. apply (tsp_mmapM _ (fun f => c10_field_ok CTS f = true /\ c10_tsg_field_ok f)).
  - intros f [H1 H2]. apply ts_member_gram; assumption.
  - rewrite Forall_forall in *. rewrite forallb_forall in Hfs. intros f Hin. split; auto.
Qed.

Lemma ts_variant_gram generics b v : c10_variant_ok CTS v = true -> c10_tsg_variant_dom v ->
  tsp c10_tsg_variant_ok (ts_variant_of cfg generics b v).
Proof.
  intros Hv Gv s tv s' H. unfold c10_variant_ok, c10_member_id_ok in Hv. rewrite !andb_true_iff in Hv. destruct Hv as [[[_ Hren] Hdocs] Hp].
  apply key_chars in Hren.
  destruct v as [vsh | t vsh | fs vsh]; cbn [ts_variant_of variant_shared c10_tsg_variant_dom] in *.
  - unfold ret in H. injection H as <- <-. split; assumption.
  - apply mbind_ok in H as (ty & s1 & Hty & H). unfold ret in H. injection H as <- <-.
    split; [exact Hdocs|]. split; [exact Hren|]. exact (ts_texp_gram generics t Hp _ _ _ Hty).
  - apply mbind_ok in H as (ms & s1 & Hms & H). unfold ret in H. injection H as <- <-.
    split; [exact Hdocs|]. split; [exact Hren|]. exact (ts_members_gram generics fs Hp Gv _ _ _ Hms).
Qed.

Lemma generics_ts gs : forallb c10_ident_ok gs = true -> forallb c10_ts_ident_ok gs = true.
Proof. apply Proofs.C10Lex.forallb_impl. apply ident_ts_ident. Qed.

Lemma ts_decl_of_gram it : c10_item_ok CTS it = true -> c10_tsg_item_ok it -> tsp c10_tsg_decl_ok (ts_decl_of uc cfg it).
Proof.
  intros Hit Git s d s' H. destruct it as [rs | e | a | c]; cbn [c10_item_ok ts_decl_of c10_tsg_item_ok] in *.
  - rewrite !andb_true_iff in Hit. destruct Hit as [[[[Hid Hg] Hf] Hd] _].
    unfold c10_type_id_ok in Hid. apply andb_true_iff in Hid as [_ Hren].
    apply mbind_ok in H as (ms & s1 & Hms & H). unfold ret in H. injection H as <- <-.
    cbn [c10_tsg_decl_ok]. split; [exact Hd|]. split; [apply ident_ts_ident, Hren|]. split; [apply generics_ts, Hg|].
    exact (ts_members_gram _ _ Hf Git _ _ _ Hms).
  - destruct e as [sh | tag content sh]; cbn [enum_shared] in Hit; rewrite !andb_true_iff in Hit.
    + destruct Hit as [[[[[Hid Hg] Hd] Hv] _] _]. unfold c10_type_id_ok in Hid. apply andb_true_iff in Hid as [_ Hren].
      apply mbind_ok in H as (vs & s1 & Hvs & H). unfold ret in H. injection H as <- <-.
      cbn [c10_tsg_decl_ok]. split; [exact Hd|]. split; [apply ident_ts_ident, Hren|]. split; [apply generics_ts, Hg|].
      refine (tsp_mmapM _ (fun v => c10_variant_ok CTS v = true) c10_tsg_case_ok _ (evariants sh) (Proofs.C10Lex.forallb_Forall _ _ Hv) s vs s1 Hvs).
      intros v Hv' s0 y s0' Hy. destruct v as [vsh | t vsh | fs vsh]; try discriminate.
      unfold ret in Hy. injection Hy as <- <-.
      unfold c10_variant_ok, c10_member_id_ok in Hv'. cbn [variant_shared] in Hv'. rewrite !andb_true_iff in Hv'.
      destruct Hv' as [[[Ho Hr] Hdd] _]. cbn [c10_tsg_case_ok]. split; [exact Hdd|]. split; [apply ident_ts_ident, Ho|apply key_chars, Hr].
    + destruct Hit as [[[[[Hid Hg] Hd] Hv] _] _]. unfold c10_type_id_ok in Hid. apply andb_true_iff in Hid as [_ Hren].
      destruct Git as (Gtag & Gcon & Gne & Gvs).
      apply mbind_ok in H as (vs & s1 & Hvs & H). unfold ret in H. injection H as <- <-.
      cbn [c10_tsg_decl_ok]. split; [exact Hd|]. split; [apply ident_ts_ident, Hren|]. split; [apply generics_ts, Hg|].
      split; [exact Gtag|]. split; [exact Gcon|]. split.
      * intros ->. destruct (evariants sh); [congruence|]. cbn [mmapM] in Hvs.
        apply mbind_ok in Hvs as (y & s2 & _ & Hvs). apply mbind_ok in Hvs as (ys & s3 & _ & Hvs). discriminate.
      * refine (tsp_mmapM _ (fun v => c10_variant_ok CTS v = true /\ c10_tsg_variant_dom v) c10_tsg_variant_ok _ (evariants sh) _ s vs s1 Hvs).
        -- intros v [H1 H2]. apply ts_variant_gram; assumption.
        -- apply Proofs.C10Lex.forallb_Forall in Hv. rewrite Forall_forall in *. intros v Hin. split; auto.
  - rewrite !andb_true_iff in Hit. destruct Hit as [[[[Hid Hg] Ht] Hd] _].
    unfold c10_type_id_ok in Hid. apply andb_true_iff in Hid as [_ Hren].
    apply mbind_ok in H as (ty & s1 & Hty & H). unfold ret in H. injection H as <- <-.
    cbn [c10_tsg_decl_ok]. split; [exact Hd|]. split; [apply ident_ts_ident, Hren|]. split; [apply generics_ts, Hg|].
    exact (ts_texp_gram _ _ Ht _ _ _ Hty).
  - rewrite !andb_true_iff in Hit. destruct Hit as [Hid Ht].
    unfold c10_type_id_ok in Hid. apply andb_true_iff in Hid as [_ Hren].
    apply mbind_ok in H as (ty & s1 & Hty & H). unfold ret in H. injection H as <- <-.
    cbn [c10_tsg_decl_ok]. split; [apply const_name_ok; assumption|]. split; [exact (ts_texp_gram _ _ Ht _ _ _ Hty)|apply dec_of_Z_num].
Qed.
End Decide.

(* ------------------------------------------------------------------ the version header *)
Lemma ts_begin_file_cfrag cfg : c10_doc_ok (ts_version cfg) = true -> CFrag (ts_begin_file cfg) [].
Proof.
  intros Hv. unfold ts_begin_file. destruct (ts_no_version_header cfg); [apply cfrag_nil|].
  replace (lit "/*" ++ nl ++ lit " Generated by typeshare " ++ ts_version cfg ++ nl ++ lit "*/" ++ nl ++ nl)
    with ((47 :: 42 :: (nl ++ lit " Generated by typeshare " ++ (ts_version cfg ++ nl)) ++ [42; 47]) ++ nl ++ nl).
  2:{ cbn [lit app]. repeat (rewrite <- ?app_assoc; cbn [app]). reflexivity. }
  change (@nil c10_tok) with (@nil c10_tok ++ []). apply cfrag_app; [|lit_cfrag]. apply cfrag_comment_pass.
  apply pass_app; [lit_pass|]. apply pass_app; [lit_pass|]. apply pass_doc; [exact Hv|discriminate|discriminate].
Qed.

(* ------------------------------------------------------------------ arrow-function constants: balanced token soup *)
Lemma soup_depth_app a : forall d b, soup_depth d (a ++ b) = match soup_depth d a with Some d' => soup_depth d' b | None => None end.
Proof.
  induction a as [|t r IH]; intros d b; [reflexivity|]. cbn [app soup_depth].
  destruct (c10_is_p 59 t && Nat.eqb d 0); [reflexivity|]. destruct (is_open t); [apply IH|].
  destruct (is_close t); [destruct d; [reflexivity|apply IH]|apply IH].
Qed.

Lemma soup_lift a : forall d d' k, soup_depth d a = Some d' -> soup_depth (d + k) a = Some (d' + k)%nat.
Proof.
  induction a as [|t r IH]; intros d d' k H; cbn [soup_depth] in *; [injection H as <-; reflexivity|].
  destruct (c10_is_p 59 t && Nat.eqb d 0) eqn:E; [discriminate|].
  replace (c10_is_p 59 t && Nat.eqb (d + k) 0) with false.
  2:{ symmetry. apply andb_false_iff in E as [E|E]; [rewrite E; reflexivity|]. apply andb_false_iff. right.
      apply Nat.eqb_neq. apply Nat.eqb_neq in E. lia. }
  destruct (is_open t); [exact (IH (S d) d' k H)|]. destruct (is_close t); [|exact (IH d d' k H)].
  destruct d as [|d0]; [discriminate|]. exact (IH d0 d' k H).
Qed.

(* tokens that leave the bracket depth unchanged inside a function body *)
Definition SoupN (ts : list c10_tok) : Prop := forall d, soup_depth (S d) ts = Some (S d).
Lemma soupn_compute ts : soup_depth 1 ts = Some 1%nat -> SoupN ts.
Proof. intros H d. exact (soup_lift ts 1 1 d H). Qed.
Lemma soupn_nil : SoupN [].
Proof. intros d. reflexivity. Qed.
Lemma soupn_app a b : SoupN a -> SoupN b -> SoupN (a ++ b).
Proof. intros Ha Hb d. rewrite soup_depth_app, Ha. apply Hb. Qed.

Definition Piece (x : str) : Prop := exists tx, CFrag x tx /\ SoupN tx.

Ltac lit_piece := eexists; split; [apply cfrag_compute; [vm_compute; reflexivity|vm_compute; reflexivity]|apply soupn_compute; vm_compute; reflexivity].

Lemma piece_app x y : Piece x -> Piece y -> Piece (x ++ y).
Proof. intros (tx & Hx & Sx) (ty & Hy & Sy). exists (tx ++ ty). split; [apply cfrag_app; assumption|apply soupn_app; assumption]. Qed.
Lemma piece_nil : Piece [].
Proof. exists []. split; [apply cfrag_nil|apply soupn_nil]. Qed.

Lemma piece_join sep l : Piece sep -> Forall Piece l -> Piece (join sep l).
Proof.
  intros Hs H. induction H as [|x r Hx Hr IH]; [apply piece_nil|]. destruct r as [|y r]; [exact Hx|].
  change (join sep (x :: y :: r)) with (x ++ sep ++ join sep (y :: r)). apply piece_app; [exact Hx|]. apply piece_app; [exact Hs|exact IH].
Qed.

Lemma uint8_reviver_piece : Piece uint8_reviver. Proof. lit_piece. Qed.
Lemma uint8_replacer_piece : Piece uint8_replacer. Proof. lit_piece. Qed.
Lemma date_replacer_piece : Piece date_replacer. Proof. lit_piece. Qed.

Definition date_head : str := lit "if (typeof value === ""string"" && /^\d{4}-\d{2}-\d{2}T\d{2}:\d{2}:\d{2}(\.\d+)?Z$/.test(value)".
Definition date_tail : str := lit ") {" ++ nl ++ lit "        return new Date(value);" ++ nl ++ lit "    }".
Definition date_head_toks : list c10_tok :=
  Eval vm_compute in match c10_ts_tokens (S (List.length date_head)) date_head with Some t => t | None => [] end.
Definition date_tail_toks : list c10_tok :=
  Eval vm_compute in match c10_ts_tokens (S (List.length date_tail)) date_tail with Some t => t | None => [] end.
Lemma date_head_cfrag : CFrag date_head date_head_toks. Proof. lit_cfrag. Qed.
Lemma date_tail_cfrag : CFrag date_tail date_tail_toks. Proof. lit_cfrag. Qed.
Lemma date_head_soup d : soup_depth (S d) date_head_toks = Some (S (S d)).
Proof. exact (soup_lift date_head_toks 1 2 d eq_refl). Qed.
Lemma date_tail_soup d : soup_depth (S (S d)) date_tail_toks = Some (S d).
Proof. exact (soup_lift date_tail_toks 2 1 d eq_refl). Qed.

Lemma date_id_piece i : c10_instr_ok i = true -> Piece (lit "key === """ ++ i ++ lit """").
Proof.
  intros H. exists ([KIdent (lit "key"); KP 61; KP 61; KP 61] ++ [KStr]). split; [|apply soupn_compute; reflexivity].
  change (lit "key === """ ++ i ++ lit """") with ((lit "key === " ++ [ch_dq]) ++ i ++ [ch_dq]). rewrite <- app_assoc.
  apply cfrag_app; [lit_cfrag|]. exact (cfrag_quoted i H).
Qed.

Lemma date_reviver_piece st : Proofs.C10_TSFile.c10_ts_state_ok st = true -> Piece (date_reviver st).
Proof.
  intros Hst. unfold date_reviver.
  assert (Hid : Piece (match tsmap_get st DATE with
                       | Some [] | None => []
                       | Some ids => lit " && (" ++ join (lit " || ") (map (fun i => lit "key === """ ++ i ++ lit """") ids) ++ lit ")"
                       end)).
  { destruct (tsmap_get st DATE) as [ids|] eqn:E; [|apply piece_nil]. pose proof (Proofs.C10_TSFile.tsmap_get_ok _ _ _ Hst E) as Hids.
    destruct ids as [|i0 r]; [apply piece_nil|].
    assert (Hj : Piece (join (lit " || ") (map (fun i => lit "key === """ ++ i ++ lit """") (i0 :: r)))).
    { apply piece_join; [lit_piece|]. apply Forall_map. apply Proofs.C10Lex.forallb_Forall in Hids. revert Hids. apply Forall_impl.
      intros i Hi. apply date_id_piece, Hi. }
    destruct Hj as (tj & Hfj & Hsj). exists ([KP 38; KP 38; KP 40] ++ tj ++ [KP 41]). split.
    - apply cfrag_app; [lit_cfrag|]. apply cfrag_app; [exact Hfj|lit_cfrag].
    - intros d. rewrite soup_depth_app. change (soup_depth (S d) [KP 38; KP 38; KP 40]) with (Some (S (S d))). cbv beta iota.
      rewrite soup_depth_app, Hsj. reflexivity. }
  destruct Hid as (ti & Hfi & Hsi).
  set (ID := match tsmap_get st DATE with Some _ => _ | None => _ end) in *.
  change (lit "if (typeof value === ""string"" && /^\d{4}-\d{2}-\d{2}T\d{2}:\d{2}:\d{2}(\.\d+)?Z$/.test(value)" ++ ID ++
          lit ") {" ++ nl ++ lit "        return new Date(value);" ++ nl ++ lit "    }") with (date_head ++ ID ++ date_tail).
  exists (date_head_toks ++ ti ++ date_tail_toks). split.
  - apply cfrag_app; [apply date_head_cfrag|]. apply cfrag_app; [exact Hfi|apply date_tail_cfrag].
  - intros d. rewrite soup_depth_app, date_head_soup, soup_depth_app, Hsi. apply date_tail_soup.
Qed.

(* export const NAME = (key: string, value: unknown): unknown => { body return value; }; *)
Definition func_sig : str := lit " = (key: string, value: unknown): unknown => {".
Definition func_sig_toks : list c10_tok :=
  Eval vm_compute in match c10_ts_tokens (S (List.length func_sig)) func_sig with Some t => List.tl t | None => [] end.
Lemma func_sig_cfrag : CFrag func_sig (KP 61 :: func_sig_toks). Proof. lit_cfrag. Qed.
Lemma L_indent : CFrag (lit "    ") []. Proof. lit_cfrag. Qed.
Lemma L_return : CFrag (lit "    return value;") [KIdent (lit "return"); KIdent (lit "value"); KP 59]. Proof. lit_cfrag. Qed.
Lemma L_func_end : CFrag (lit "};") [KP 125; KP 59]. Proof. lit_cfrag. Qed.

Lemma func_text name J : c10_ts_ident_ok name = true -> Piece J ->
  exists td, CFrag (lit "export const " ++ name ++ func_sig ++ nl ++ lit "    " ++ J ++ nl ++ lit "    return value;" ++ nl ++ lit "};" ++ nl) td /\ DeclToks td.
Proof.
  intros Hn (tj & Hfj & Hsj).
  exists (kw "export" :: kw "const" :: KIdent name :: KP 61 :: (func_sig_toks ++ tj ++ [KIdent (lit "return"); KIdent (lit "value"); KP 59; KP 125]) ++ [KP 59]).
  split; [|split; [discriminate|]].
  - intros b tb Hb. repeat (rewrite <- !app_assoc; cbn [app]).
    apply L_exp_const. change (KIdent name :: ?x) with ([KIdent name] ++ x). apply (frag_ident _ Hn); [reflexivity|].
    change (KP 61 :: func_sig_toks ++ ?x) with ((KP 61 :: func_sig_toks) ++ x). apply func_sig_cfrag. apply L_nl. apply L_indent.
    apply Hfj. apply L_nl. change (KIdent (lit "return") :: KIdent (lit "value") :: KP 59 :: ?x) with ([KIdent (lit "return"); KIdent (lit "value"); KP 59] ++ x).
    apply L_return. apply L_nl. change (KP 125 :: KP 59 :: ?x) with ([KP 125; KP 59] ++ x). apply L_func_end. apply L_nl, Hb.
  - intros rest. cbn [app]. rewrite <- app_assoc. cbn [app]. apply decl_soup.
    rewrite soup_depth_app. change (soup_depth 0 func_sig_toks) with (Some 1%nat). cbv beta iota.
    rewrite soup_depth_app, Hsj. reflexivity.
Qed.

Lemma ts_end_file_gram st : Proofs.C10_TSFile.c10_ts_state_ok st = true ->
  exists tds, CFrag (ts_end_file st) (List.concat tds) /\ Forall DeclToks tds.
Proof.
  intros Hst. unfold ts_end_file. destruct st as [|kv0 st0]; [exists []; split; [apply cfrag_nil|constructor]|].
  set (st := kv0 :: st0) in *. set (contents := flat_map _ st).
  assert (Hc : Forall (fun c : str * str => Piece (fst c) /\ Piece (snd c)) contents).
  { unfold contents. generalize st at 2. intros l. induction l as [|kv l IH]; cbn [flat_map]; [constructor|].
    apply Forall_app. split; [|exact IH]. unfold custom_translations.
    destruct (str_eqb (fst kv) UINT8ARRAY); [constructor; [split; [apply uint8_reviver_piece|apply uint8_replacer_piece]|constructor]|].
    destruct (str_eqb (fst kv) DATE); [|constructor].
    constructor; [split; [apply date_reviver_piece, Hst|apply date_replacer_piece]|constructor]. }
  assert (Hsep : Piece (nl ++ lit "    ")) by lit_piece.
  assert (H1 : Piece (join (nl ++ lit "    ") (map fst contents))).
  { apply piece_join; [exact Hsep|]. apply Forall_map. revert Hc. apply Forall_impl. intros c [H _]. exact H. }
  assert (H2 : Piece (join (nl ++ lit "    ") (map snd contents))).
  { apply piece_join; [exact Hsep|]. apply Forall_map. revert Hc. apply Forall_impl. intros c [_ H]. exact H. }
  destruct (func_text (lit "ReviverFunc") _ eq_refl H1) as (td1 & Hf1 & Hd1).
  destruct (func_text (lit "ReplacerFunc") _ eq_refl H2) as (td2 & Hf2 & Hd2).
  exists [td1; td2]. split; [|constructor; [exact Hd1|constructor; [exact Hd2|constructor]]].
  set (J1 := join _ (map fst contents)) in *. set (J2 := join _ (map snd contents)) in *.
  intros b tb Hb. cbn [List.concat]. rewrite app_nil_r. repeat (rewrite <- !app_assoc; cbn [app]).
  refine (ts_comments_cfrag 0 _ _ _ _ _); [vm_compute; reflexivity|].
  change (lit "export const ReviverFunc = (key: string, value: unknown): unknown => {" ++ ?x)
    with (lit "export const " ++ lit "ReviverFunc" ++ func_sig ++ x).
  change (lit "export const ReplacerFunc = (key: string, value: unknown): unknown => {" ++ ?x)
    with (lit "export const " ++ lit "ReplacerFunc" ++ func_sig ++ x).
  specialize (Hf1 (nl ++ lit "export const " ++ lit "ReplacerFunc" ++ func_sig ++ nl ++ lit "    " ++ J2 ++ nl ++ lit "    return value;" ++ nl ++ lit "};" ++ nl ++ b) (td2 ++ tb)).
  repeat (rewrite <- !app_assoc in Hf1; cbn [app] in Hf1). apply Hf1. apply L_nl.
  specialize (Hf2 b tb Hb). repeat (rewrite <- !app_assoc in Hf2; cbn [app] in Hf2). exact Hf2.
Qed.

(* ------------------------------------------------------------------ the whole file *)
Lemma parts_gram parts : Forall (fun t => exists td, CFrag t td /\ DeclToks td) parts ->
  exists tds, CFrag (List.concat parts) (List.concat tds) /\ Forall DeclToks tds /\ List.length tds = List.length parts.
Proof.
  induction 1 as [|t r (td & Hf & Hd) _ (tds & Hfs & Hds & Hl)].
  - exists []. split; [apply cfrag_nil|]. split; [constructor|reflexivity].
  - exists (td :: tds). split; [cbn [List.concat]; apply cfrag_app; assumption|]. split; [constructor; assumption|cbn [List.length]; rewrite Hl; reflexivity].
Qed.

Theorem ts_generate_recognised uc cfg pd text :
  unicode_ok uc -> Proofs.C10_TSFile.c10_ts_cfg_ok cfg = true -> c10_tsg_cfg_ok cfg ->
  dom_C10 CTS pd = true -> c10_tsg_dom pd ->
  ts_generate uc cfg pd = Ok text -> exists n, c10_ts_recognise text = Some n /\ (List.length (items_of pd) <= n)%nat.
Proof.
  intros Huc Hcfg Gcfg Hdom Gdom H. unfold ts_generate in H.
  destruct (topsort (items_of pd)) as [items| |] eqn:Et; cbn [bind] in H; try discriminate.
  destruct (mconcat (ts_write_item uc cfg) items []) as [[body st]| |] eqn:Em; try discriminate. injection H as <-.
  pose proof (Proofs.C10_TSFile.topsort_ok_perm _ _ Et) as Hperm.
  assert (Hitems : Forall (fun it => c10_item_ok CTS it = true /\ c10_tsg_item_ok it) items).
  { apply Proofs.C10Lex.forallb_Forall in Hdom. fold (items_of pd) in Hdom. unfold c10_tsg_dom in Gdom.
    eapply Permutation_Forall; [apply Permutation_sym, Hperm|]. rewrite Forall_forall in *. intros it Hin. split; auto. }
  unfold mconcat in Em. apply mbind_ok in Em as (parts & s1 & Hp & Em). unfold ret in Em. injection Em as <- <-.
  assert (Hstep : forall it, c10_item_ok CTS it = true /\ c10_tsg_item_ok it ->
            Proofs.C10_TSFile.ts_post (fun t => exists td, CFrag t td /\ DeclToks td) (ts_write_item uc cfg it)).
  { intros it [Hit Git] s y s' Hy Hs. unfold ts_write_item in Hy. apply mbind_ok in Hy as (d & s2 & Hd & Hy).
    unfold ret in Hy. injection Hy as <- <-. destruct (Proofs.C10_TSFile.ts_decl_of_ok uc Huc cfg Hcfg it Hit _ _ _ Hd Hs) as [_ Hs2].
    split; [|exact Hs2]. apply ts_render_decl_gram. exact (ts_decl_of_gram uc Huc cfg Gcfg it Hit Git _ _ _ Hd). }
  destruct (Proofs.C10_TSFile.ts_post_mmapM (ts_write_item uc cfg) _ _ Hstep items Hitems [] parts s1 Hp eq_refl) as [Pparts Hs1].
  destruct (parts_gram parts Pparts) as (tds & Hfb & Hdb & Hlen). destruct (ts_end_file_gram s1 Hs1) as (tde & Hfe & Hde).
  assert (Hv : c10_doc_ok (ts_version cfg) = true).
  { unfold Proofs.C10_TSFile.c10_ts_cfg_ok in Hcfg. apply andb_true_iff in Hcfg as [_ Hv]. exact Hv. }
  assert (Htk : Tk (ts_begin_file cfg ++ List.concat parts ++ ts_end_file s1) (List.concat (tds ++ tde))).
  { apply cfrag_tk. rewrite concat_app. change (List.concat tds ++ List.concat tde) with ([] ++ List.concat tds ++ List.concat tde).
    apply cfrag_app; [apply ts_begin_file_cfrag, Hv|]. apply cfrag_app; assumption. }
  exists (List.length (tds ++ tde)). split.
  - unfold c10_ts_recognise. rewrite (tk_run _ _ Htk). apply decls_ok; [apply Forall_app; split; assumption|lia].
  - rewrite app_length, Hlen. pose proof (Permutation_length Hperm) as Hpl.
    assert (Hpa : List.length parts = List.length items).
    { clear -Hp. revert parts s1 Hp. generalize (@nil (str * list str)). induction items as [|it r IH]; intros s parts s1 Hp; cbn [mmapM] in Hp.
      - unfold ret in Hp. injection Hp as <- <-. reflexivity.
      - apply mbind_ok in Hp as (y & s2 & Hy & Hp). apply mbind_ok in Hp as (ys & s3 & Hys & Hp). unfold ret in Hp. injection Hp as <- <-.
        cbn [List.length]. rewrite (IH _ _ _ Hys). reflexivity. }
    lia.
Qed.

(* ------------------------------------------------------------------ the layout layer alone: lists of declarations *)
Theorem ts_decls_recognised ds : Forall c10_tsg_decl_ok ds ->
  c10_ts_recognise (List.concat (map ts_render_decl ds)) = Some (List.length ds).
Proof.
  intros H. assert (Hp : Forall (fun t => exists td, CFrag t td /\ DeclToks td) (map ts_render_decl ds)).
  { apply Forall_map. revert H. apply Forall_impl. apply ts_render_decl_gram. }
  destruct (parts_gram _ Hp) as (tds & Hf & Hd & Hl). rewrite map_length in Hl. rewrite <- Hl.
  unfold c10_ts_recognise. rewrite (tk_run _ _ (cfrag_tk _ _ Hf)). apply decls_ok; [exact Hd|lia].
Qed.

(* a computable sufficient condition for the verbatim texts: identifier-shaped (string, Date, Uint8Array, MyType ...) *)
Definition c10_tsg_cfg_simple (cfg : ts_config) : bool := forallb (fun kv => c10_ts_ident_ok (snd kv)) (ts_type_mappings cfg).
Definition c10_tsg_field_simple (f : rfield) : bool :=
  c10_tsg_key_ok (renamed (fid f)) && match type_override f TypeScript with Some o => c10_ts_ident_ok o | None => true end.
Definition c10_tsg_item_simple (it : ritem) : bool :=
  match it with
  | ItStruct s => forallb c10_tsg_field_simple (sfields s)
  | ItEnum (EAlgebraic tag content sh) =>
    c10_ts_ident_ok tag && c10_ts_ident_ok content && match evariants sh with [] => false | _ => true end &&
    forallb (fun v => match v with VAnon fs _ => forallb c10_tsg_field_simple fs | _ => true end) (evariants sh)
  | _ => true
  end.
Definition c10_tsg_dom_simple (pd : parsed) : bool := forallb c10_tsg_item_simple (items_of pd).

Lemma cfg_simple_ok cfg : c10_tsg_cfg_simple cfg = true -> c10_tsg_cfg_ok cfg.
Proof.
  unfold c10_tsg_cfg_simple, c10_tsg_cfg_ok. intros H. apply Proofs.C10Lex.forallb_Forall in H. revert H. apply Forall_impl.
  intros kv Hkv. apply tytext_ident, Hkv.
Qed.
Lemma field_simple_ok f : c10_tsg_field_simple f = true -> c10_tsg_field_ok f.
Proof.
  unfold c10_tsg_field_simple, c10_tsg_field_ok. rewrite andb_true_iff. intros [Hk Ho]. split; [exact Hk|].
  intros o E. rewrite E in Ho. apply tytext_ident, Ho.
Qed.
Lemma fields_simple_ok fs : forallb c10_tsg_field_simple fs = true -> Forall c10_tsg_field_ok fs.
Proof. intros H. apply Proofs.C10Lex.forallb_Forall in H. revert H. apply Forall_impl. apply field_simple_ok. Qed.
Lemma dom_simple_ok pd : c10_tsg_dom_simple pd = true -> c10_tsg_dom pd.
Proof.
  unfold c10_tsg_dom_simple, c10_tsg_dom. intros H. apply Proofs.C10Lex.forallb_Forall in H. revert H. apply Forall_impl.
  intros [s | [sh | tag content sh] | a | c] Hit; cbn [c10_tsg_item_simple c10_tsg_item_ok] in *; try exact I.
  - apply fields_simple_ok, Hit.
  - rewrite !andb_true_iff in Hit. destruct Hit as [[[Ht Hc] Hne] Hvs]. split; [exact Ht|]. split; [exact Hc|]. split.
    + intros E. rewrite E in Hne. discriminate.
    + apply Proofs.C10Lex.forallb_Forall in Hvs. revert Hvs. apply Forall_impl. intros [vsh | t vsh | fs vsh] Hv; cbn [c10_tsg_variant_dom]; try exact I.
      apply fields_simple_ok, Hv.
Qed.

Theorem ts_generate_recognised_simple uc cfg pd text :
  unicode_ok uc -> Proofs.C10_TSFile.c10_ts_cfg_ok cfg = true -> c10_tsg_cfg_simple cfg = true ->
  dom_C10 CTS pd = true -> c10_tsg_dom_simple pd = true ->
  ts_generate uc cfg pd = Ok text -> exists n, c10_ts_recognise text = Some n /\ (List.length (items_of pd) <= n)%nat.
Proof.
  intros Huc Hcfg Gcfg Hdom Gdom. apply ts_generate_recognised; auto using cfg_simple_ok, dom_simple_ok.
Qed.

(* ------------------------------------------------------------------ non-vacuity *)
Definition g_id (s : string) : id := {| original := lit s; renamed := lit s; via_serde_rename := false |}.
Definition g_field (name : string) (ty : rtype) : rfield :=
  {| fid := g_id name; fty := ty; fcomments := [lit "a doc line with ""quotes"", a star * and a slash /"]; has_default := false; fdecs := [] |}.
Definition g_struct : rstruct :=
  {| sid := g_id "Person"; sgenerics := [lit "T"; lit "U"];
     sfields := [g_field "name" (RPrim PString);
                 g_field "age" (ROption (RPrim PU32));
                 g_field "tags" (RVec (RSimple (lit "T")));
                 g_field "pair" (RArray (RPrim PF64) 2);
                 g_field "born" (RPrim PDateTime);
                 g_field "blob" (RSimple (lit "Bytes"));
                 g_field "home" (RSimple (lit "Url"));
                 g_field "index" (RHashMap (RPrim PString) (RGeneric (lit "Box") [RSimple (lit "U"); RVec (RPrim PBool)]));
                 {| fid := {| original := lit "first_name"; renamed := lit "first-name"; via_serde_rename := true |}; fty := ROption (ROption (RPrim PString));
                    fcomments := []; has_default := true; fdecs := [(TypeScript, [DWord (lit "readonly")])] |};
                 {| fid := g_id "raw"; fty := RPrim PString; fcomments := [lit "one"; lit "two"]; has_default := false;
                    fdecs := [(TypeScript, [DNameValue (lit "type") (lit "Array<string | number>[] | null")])] |}];
     scomments := [lit "first line"; lit "second line"]; sdecs := []; sredacted := false |}.
Definition g_alias : ralias :=
  {| aid := g_id "Al"; agenerics := [lit "T"]; atype := ROption (ROption (RVec (RSimple (lit "T")))); acomments := [lit "an alias"]; adecs := []; aredacted := false |}.
Definition g_unit_enum : renum :=
  EUnit {| eid := g_id "Color"; egenerics := []; ecomments := [];
           evariants := [VUnit {| vid := g_id "Red"; vcomments := [lit "the red one"] |};
                         VUnit {| vid := {| original := lit "DarkBlue"; renamed := lit "dark-blue"; via_serde_rename := true |}; vcomments := [] |}];
           edecs := []; erecursive := false; eredacted := false |}.
Definition g_enum : renum :=
  EAlgebraic (lit "type") (lit "content")
    {| eid := g_id "E"; egenerics := [lit "T"]; ecomments := [lit "an enum"];
       evariants := [VUnit {| vid := g_id "U"; vcomments := [] |};
                     VTuple (RHashMap (RPrim PString) (ROption (RSimple (lit "T")))) {| vid := g_id "Tup"; vcomments := [lit "doc"] |};
                     VTuple (ROption (ROption (RPrim PI32))) {| vid := g_id "Opt"; vcomments := [] |};
                     VAnon [{| fid := {| original := lit "inner"; renamed := lit "in-ner"; via_serde_rename := true |}; fty := RPrim PU32; fcomments := []; has_default := false; fdecs := [] |};
                            g_field "when" (RPrim PDateTime)] {| vid := g_id "S"; vcomments := [] |}];
       edecs := []; erecursive := false; eredacted := false |}.
Definition g_prog : parsed :=
  {| p_structs := [g_struct]; p_enums := [g_unit_enum; g_enum]; p_aliases := [g_alias];
     p_consts := [{| cid := g_id "maxRetries"; ctype := RPrim PI32; cvalue := Zneg 12 |}; {| cid := g_id "Limit"; ctype := RPrim PU8; cvalue := Zpos 250 |}];
     p_type_names := []; p_errors := []; p_imports := [] |}.
Definition g_cfg : ts_config :=
  {| ts_type_mappings := [(lit "Url", lit "string"); (lit "Bytes", lit "Uint8Array")]; ts_no_version_header := false; ts_version := lit "1.46.0" |}.

Definition g_text : str := match ts_generate uc_exec g_cfg g_prog with Ok t => t | _ => [] end.

(* mutilations: the text without its last three characters; the text without its first opening brace; the text with its
   first [=] turned into [:] *)
Fixpoint g_drop_first (c : char) (s : str) : str :=
  match s with [] => [] | x :: r => if x =? c then r else x :: g_drop_first c r end.
Fixpoint g_subst_first (c d : char) (s : str) : str :=
  match s with [] => [] | x :: r => if x =? c then d :: r else x :: g_subst_first c d r end.

Lemma g_override_tytext : TyText (lit "Array<string | number>[] | null").
Proof.
  change (lit "Array<string | number>[] | null")
    with ((lit "Array" ++ lit "<" ++ join (lit ", ") [lit "string" ++ lit " | " ++ lit "number"] ++ lit ">") ++ lit "[]" ++ lit " | null").
  rewrite app_assoc. apply tytext_or_null. apply tytext_arr. apply tytext_app; [reflexivity|discriminate|].
  constructor; [|constructor]. apply tytext_or; [reflexivity|]. apply tytext_ident. reflexivity.
Qed.

Example C10_grammar_nonvacuous :
  unicode_ok uc_exec /\ Proofs.C10_TSFile.c10_ts_cfg_ok g_cfg = true /\ c10_tsg_cfg_ok g_cfg /\
  dom_C10 CTS g_prog = true /\ c10_tsg_dom g_prog /\ known_C10 CTS [] g_prog = [] /\
  ts_generate uc_exec g_cfg g_prog = Ok g_text /\
  c10_ts_recognise g_text = Some 8%nat /\
  contains_sub (lit "export interface Person<T, U> {") g_text = true /\
  contains_sub (lit "readonly ""first-name""?: string | null;") g_text = true /\
  contains_sub (lit "raw: Array<string | number>[] | null;") g_text = true /\
  contains_sub (lit "index: Record<string, Box<U, boolean[]>>;") g_text = true /\
  contains_sub (lit "pair: [number, number];") g_text = true /\
  contains_sub (lit "export type Al<T> = T[] | null | undefined;") g_text = true /\
  contains_sub (lit "DarkBlue = ""dark-blue"",") g_text = true /\
  contains_sub (lit "| { type: ""Opt"", content?: number | null }") g_text = true /\
  contains_sub (lit "export const MAX_RETRIES: number = -12;") g_text = true /\
  contains_sub (lit "key === ""born"" || key === ""when""") g_text = true /\
  contains_sub (lit "export const ReplacerFunc = ") g_text = true /\
  c10_ts_recognise (firstn (List.length g_text - 3) g_text) = None /\
  c10_ts_recognise (g_drop_first 123 g_text) = None /\
  c10_ts_recognise (g_subst_first 61 58 g_text) = None.
Proof.
  split; [exact uc_exec_ok|]. split; [vm_compute; reflexivity|]. split.
  { repeat constructor; apply tytext_ident; reflexivity. }
  split; [vm_compute; reflexivity|]. split.
  { assert (Hf : forall f, c10_tsg_key_ok (renamed (fid f)) = true -> type_override f TypeScript = None -> c10_tsg_field_ok f).
    { intros f Hk Hn. split; [exact Hk|]. intros o E. rewrite Hn in E. discriminate. }
    assert (Hraw : forall f, c10_tsg_key_ok (renamed (fid f)) = true ->
                     type_override f TypeScript = Some (lit "Array<string | number>[] | null") -> c10_tsg_field_ok f).
    { intros f Hk Hn. split; [exact Hk|]. intros o E. rewrite Hn in E. injection E as <-. exact g_override_tytext. }
    unfold c10_tsg_dom. cbn [items_of g_prog p_aliases p_structs p_enums p_consts map app].
    repeat (apply Forall_cons); try apply Forall_nil; try exact I;
      try (apply Hf; vm_compute; reflexivity); try (apply Hraw; vm_compute; reflexivity).
    split; [reflexivity|]. split; [reflexivity|]. split; [discriminate|].
    repeat (apply Forall_cons); try apply Forall_nil; try exact I; try (apply Hf; vm_compute; reflexivity). }
  repeat split; vm_compute; reflexivity.
Qed.

(* the witness, in the form stated in Props/C10.v *)
Lemma grammar_witness :
  Proofs.C10_TSFile.c10_ts_cfg_ok g_cfg = true /\ c10_tsg_cfg_ok g_cfg /\ dom_C10 CTS g_prog = true /\ c10_tsg_dom g_prog /\
  known_C10 CTS [] g_prog = [] /\
  ts_generate uc_exec g_cfg g_prog = Ok g_text /\ c10_ts_recognise g_text = Some 8%nat /\
  contains_sub (lit "export interface Person<T, U> {") g_text = true /\
  contains_sub (lit "readonly ""first-name""?: string | null;") g_text = true /\
  contains_sub (lit "| { type: ""Opt"", content?: number | null }") g_text = true /\
  contains_sub (lit "export const ReplacerFunc = ") g_text = true /\
  c10_ts_recognise (firstn (List.length g_text - 3) g_text) = None /\
  c10_ts_recognise (g_drop_first 123 g_text) = None /\
  c10_ts_recognise (g_subst_first 61 58 g_text) = None.
Proof. pose proof C10_grammar_nonvacuous as H. decompose [and] H. repeat split; assumption. Qed.
