(* C09 in folder mode, the layer shared by Kotlin / Swift / Scala / Go / Python:
   (1) the SHAPE a back end gives the declarations of a reconciled crate pd' (no workspace in sight: definitions under
       the table's name, references spelled "generic parameter verbatim, else prefix ++ the id the type mentions",
       the sealed parent, the helper struct and its type arguments);
   (2) from that shape to the judgement of Spec/C09MultiLangSpec.v on the file of crate b, through the reconcile-level
       theorem of Proofs/C09Multi.v (what the mentioned ids of pd' are, in the workspace's terms);
   (3) the boolean judgement good_C09_multi reflects the Prop-level one. *)
From Coq Require Import List Bool String Permutation.
From TS Require Import Model.Str Model.Outcome Model.Types Model.Parse Model.Reconcile Model.Collect
                       Model.Lang.Common Model.Lang.Decl Model.MultiFile.
From TS Require Import Spec.C09Spec Spec.C09MultiSpec Spec.C09MultiLangSpec.
From TS Require Import Proofs.C06 Proofs.C14Front Proofs.C06Multi Proofs.C09Common Proofs.C09Recon Proofs.C09Lang Proofs.C09Multi.
Import ListNotations.

(* ---------------------------------------------------------------- (1) the shape *)
Inductive c9l_ref_shape (L : lang) (pfx : str) (pd' : parsed) (r : c09_ref) : Prop :=
| C9L_type (tp' : c09_tpos) (form : c09_form) (i' : str) :
    In tp' (c09_tposs pd') -> In (form, i') (c09_type_ids (c9t_type tp')) -> c9_pos r = c9t_pos tp' ->
    c9_name r = (if mem_str i' (c9t_generics tp') then i' else pfx ++ i') -> c9l_ref_shape L pfx pd' r
| C9L_inline (tp' : c09_tpos) (form : c09_form) (i' : str) (e : c09_entity) :
    L = Kotlin -> In tp' (c09_tposs pd') -> In (form, i') (c09_type_ids (c9t_type tp')) -> c9t_pos tp' = C9Alias -> c9_pos r = C9Alias ->
    In e (c09_entities pd') -> c9e_kind e = C9KAlias true -> c9e_id e = c9t_owner tp' ->
    c9_name r = pfx ++ i' -> c9l_ref_shape L pfx pd' r
| C9L_parent (e : c09_entity) (w : c09_which) :
    In e (c09_entities pd') -> c9_in r = c09_def_name L pfx e -> c9_pos r = C9Parent ->
    c09_parent_which L (c9e_kind e) = Some w ->
    c9_name r = pfx ++ c09_pick w (c9e_id e) ++ c9e_suffix e -> c9l_ref_shape L pfx pd' r
| C9L_inner (e : c09_entity) :
    In e (c09_entities pd') -> c9e_kind e = C9KInner -> c09_has_inner L = true -> c9_pos r = C9Payload ->
    c9_name r = pfx ++ c09_pick (c09_inner_ref_which L) (c9e_id e) ++ c9e_suffix e -> c9l_ref_shape L pfx pd' r
| C9L_arg (e : c09_entity) :
    In e (c09_entities pd') -> c9e_kind e = C9KInner -> c9_pos r = C9Payload ->
    In (c9_name r) (c9e_generics e) -> c9l_ref_shape L pfx pd' r.

Definition c9l_decl_ok (L : lang) (pfx : str) (pd' : parsed) (d : decl) : Prop :=
  (c09_is_def d = true -> exists e, In e (c09_entities pd') /\ c09_defines L e = true /\ d_name d = c09_def_name L pfx e) /\
  (forall r, In r (c09_decl_refs L d) -> c9l_ref_shape L pfx pd' r).

Lemma c9l_decl_ok_helper L pfx pd' d : d_kind d = DHelper -> c9l_decl_ok L pfx pd' d.
Proof. intros K. split; [unfold c09_is_def; rewrite K; discriminate|]. unfold c09_decl_refs. rewrite K. intros r []. Qed.

(* the names of a translated type position -> reference shapes, for a back end that spells a mentioned id i' as
   "i' if it is one of gs, else prefix ++ i'", gs agreeing with the owner's generic parameters on the mentioned ids *)
Lemma c9l_names_refs L pfx pd' tp' gs owner x :
  In tp' (c09_tposs pd') ->
  (forall n, In n (texp_names x) -> c09_builtin L n = true \/
             exists form i', In (form, i') (c09_type_ids (c9t_type tp')) /\ n = if mem_str i' gs then i' else pfx ++ i') ->
  (forall form i', In (form, i') (c09_type_ids (c9t_type tp')) -> mem_str i' gs = mem_str i' (c9t_generics tp')) ->
  forall r, In r (c09_type_refs L owner (c9t_pos tp') x) -> c9l_ref_shape L pfx pd' r.
Proof.
  intros Htp Hn Hgs r Hr. unfold c09_type_refs in Hr. apply in_map_iff in Hr as (n & <- & Hnn). apply filter_In in Hnn as [Hnn Hb].
  apply negb_true_iff in Hb. destruct (Hn n Hnn) as [C|(form & i' & Hi & ->)]; [congruence|].
  eapply C9L_type with (tp' := tp') (form := form) (i' := i'); cbn [c9_pos c9_name]; try assumption; try reflexivity.
  now rewrite (Hgs form i' Hi).
Qed.
Lemma c9l_names_refs_plain L pd' tp' owner x :
  In tp' (c09_tposs pd') ->
  (forall n, In n (texp_names x) -> c09_builtin L n = true \/ exists form i', In (form, i') (c09_type_ids (c9t_type tp')) /\ n = i') ->
  forall r, In r (c09_type_refs L owner (c9t_pos tp') x) -> c9l_ref_shape L [] pd' r.
Proof.
  intros Htp Hn. apply (c9l_names_refs L [] pd' tp' (c9t_generics tp') owner x Htp); [|reflexivity].
  intros n Hin. destruct (Hn n Hin) as [B|(form & i' & Hi & ->)]; [now left|]. right. exists form, i'. split; [exact Hi|].
  now destruct (mem_str i' (c9t_generics tp')).
Qed.

(* ---------------------------------------------------------------- the entities of a reconciled crate *)
Lemma c9l_enum_entities_check cn rn im e :
  c09_enum_entities (match e with
                     | EUnit sh => EUnit (check_eshared cn rn im sh)
                     | EAlgebraic t c sh => EAlgebraic t c (check_eshared cn rn im sh)
                     end) = c09_enum_entities e.
Proof.
  assert (K : forall vs i gs, flat_map (fun v => match v with
                     | VAnon _ vsh => [{| c9e_id := i; c9e_suffix := original (vid vsh) ++ lit "Inner"; c9e_generics := gs; c9e_kind := C9KInner |}]
                     | _ => []
                     end) (map (check_variant cn rn im) vs) =
                   flat_map (fun v => match v with
                     | VAnon _ vsh => [{| c9e_id := i; c9e_suffix := original (vid vsh) ++ lit "Inner"; c9e_generics := gs; c9e_kind := C9KInner |}]
                     | _ => []
                     end) vs).
  { intros vs i gs. induction vs as [|v vs IH]; [reflexivity|]. cbn [map flat_map]. rewrite IH. now destruct v. }
  destruct e as [sh|t c sh]; unfold c09_enum_entities; cbn [enum_shared check_eshared eid egenerics evariants c09_enum_kind]; now rewrite K.
Qed.

Lemma c9l_entities_reconciled rn cn pd e : In e (c09_entities (reconcile_crate rn cn pd)) -> In e (c09_entities pd).
Proof.
  unfold c09_entities, reconcile_crate. cbn [p_structs p_enums p_aliases]. rewrite !in_app_iff, !in_flat_map, !in_map_iff.
  intros [(s' & <- & H)|[(e' & He' & H)|(a' & <- & H)]].
  - apply c09_stable_sort_in, in_map_iff in H as (s & <- & Hs). left. exists s. auto.
  - apply c09_stable_sort_in, in_map_iff in He' as (e0 & <- & He0). right. left. exists e0. split; [exact He0|].
    now rewrite c9l_enum_entities_check in H.
  - apply c09_stable_sort_in, in_map_iff in H as (a & <- & Ha). right. right. exists a. auto.
Qed.

Lemma c9l_entities_collect fs e : In e (c09_entities (collect_single fs)) -> exists f, In f fs /\ In e (c09_entities f).
Proof.
  unfold c09_entities at 1, collect_single. rewrite fold_add_structs, fold_add_enums, fold_add_aliases.
  cbn [empty_parsed p_structs p_enums p_aliases app].
  rewrite !in_app_iff, !in_flat_map, !in_map_iff.
  intros [(s & <- & Hs)|[(en & Hen & H)|(a & <- & Ha)]].
  - apply in_flat_map in Hs as (f & Hf & Hs). exists f. split; [exact Hf|]. unfold c09_entities. rewrite !in_app_iff, in_map_iff. left. eauto.
  - apply in_flat_map in Hen as (f & Hf & Hen). exists f. split; [exact Hf|]. unfold c09_entities. rewrite !in_app_iff, in_flat_map. right. left. eauto.
  - apply in_flat_map in Ha as (f & Hf & Ha). exists f. split; [exact Hf|]. unfold c09_entities. rewrite !in_app_iff, !in_map_iff. right. right. eauto.
Qed.

Lemma c9l_multi_entities ho (l : list (str * parsed)) b pd' e :
  In (b, pd') (multi_crates ho l) -> In e (c09_entities pd') -> In e (c9m_entities l b).
Proof.
  intros Hin He. unfold multi_crates, reconcile_aliases in Hin. apply in_map_iff in Hin as ([k pd] & E & Hpd). cbn [fst snd] in E. injection E as <- <-.
  apply c9l_entities_reconciled in He. apply order_imports_entry in Hpd as (p & Hp & ->).
  change (c09_entities (with_imports p (imports_iter ho p))) with (c09_entities p) in He.
  apply collect_entry in Hp as [_ ->]. apply c9l_entities_collect in He as (f & Hf & He).
  unfold c9m_entities. apply in_flat_map. exists f. split; [exact Hf|exact He].
Qed.

(* ---------------------------------------------------------------- (2) from the shape to the judgement *)
Lemma c9l_pick_eq w i : c9m_pick w i = c09_pick w i.
Proof. reflexivity. Qed.
Lemma c9l_def_name_eq L pfx e : c9m_def_name L pfx e = c09_def_name L pfx e.
Proof. reflexivity. Qed.
Lemma c9l_declares_eq L e : c9m_declares L e = c09_defines L e.
Proof. reflexivity. Qed.

(* outside the own-crate class of definitions a type is declared under prefix ++ generated name *)
Lemma c9m_def_name_wanted L pfx e : c9e_kind e <> C9KInner -> c9m_def_class L e = None ->
  c9m_def_name L pfx e = pfx ++ renamed (c9e_id e) ++ c9e_suffix e.
Proof.
  intros Hk Hc. unfold c9m_def_name. do 2 f_equal.
  assert (Hc' : c09_type_site_class L C9Simple C9Field e = None) by (unfold c9m_def_class in Hc; destruct (c9e_kind e); try exact Hc; now destruct Hk).
  unfold c09_type_site_class in Hc'. change (renamed (c9e_id e)) with (c09_pick C9Ren (c9e_id e)). change (c9m_pick ?w ?i) with (c09_pick w i).
  destruct (c09_renamed_away (c9e_id e)) eqn:Era; [|apply c09_pick_eq; now right].
  destruct (c09_which_eqb (c09_def_which L (c9e_kind e)) (c09_type_ref_which C9Simple C9Field)) eqn:Ew; [|cbn [andb negb] in Hc'; discriminate].
  apply c09_pick_eq. now left.
Qed.

Section Conv.
Variables (L : lang) (pfx : str) (ho : list imported -> list imported) (l : list (str * parsed)).
Hypothesis Hho : oracle_ok ho.
Hypothesis Hwf : c9m_ids_wf l = true.
Variables (b : str) (pd' : parsed).
Hypothesis Hin : In (b, pd') (multi_crates ho l).

Lemma c9l_nil_cases (p : str) : p = [] \/ c09_is_nil p = false.
Proof. destruct p; auto. Qed.

Theorem c9l_ref_ok r : c9l_ref_shape L pfx pd' r -> c9m_lref_ok L l b pfx r.
Proof.
  intros [tp' form i' Htp' Hi' Hpos Hn | tp' form i' e HL Htp' Hi' Htpos Hpos He Hk Hid Hn | e w He Hin' Hpos Hw Hn | e He Hk Hinner Hpos Hn | e He Hk Hpos Hg].
  - (* a mention *)
    left.
    destruct (c9m_multi_reconciled_mentions ho l Hho Hwf b pd' Hin tp' form i' Htp' Hi') as (tp & i & _ & Hgs & Hp & Hi0 & (f & Hf & Htpf) & Hall).
    exists f, tp, form, i. split; [exact Hf|]. split; [exact Htpf|]. split; [exact Hi0|]. split; [congruence|].
    intros Hlk s Hs. unfold c9m_lknown in Hlk.
    destruct (c9m_known l b f (c9t_generics tp) i) eqn:Kn; [discriminate|].
    destruct (c9m_emitted_generic pfx l b f (c9t_generics tp) i) eqn:Eg; [discriminate|].
    rewrite (Hall f Hf Htpf Kn s Hs) in Hn. rewrite Hn, Hgs.
    destruct (mem_str i (c9t_generics tp)) eqn:G.
    + unfold c9m_spelling in Hs. rewrite G in Hs. injection Hs as <-. now rewrite G.
    + unfold c9m_emitted_generic in Eg. rewrite G, Hs in Eg. cbn [negb andb] in Eg. rewrite andb_true_r in Eg.
      destruct (c9l_nil_cases pfx) as [->|Hp']; [now destruct (mem_str s (c9t_generics tp))|].
      rewrite Hp' in Eg. cbn [negb andb] in Eg. now rewrite Eg.
  - (* the member of a JvmInline value class: formatted with no generic parameters in scope *)
    left.
    destruct (c9m_multi_reconciled_mentions ho l Hho Hwf b pd' Hin tp' form i' Htp' Hi') as (tp & i & Hown & Hgs & Hp & Hi0 & (f & Hf & Htpf) & Hall).
    exists f, tp, form, i. split; [exact Hf|]. split; [exact Htpf|]. split; [exact Hi0|]. split; [congruence|].
    intros Hlk s Hs. unfold c9m_lknown in Hlk.
    destruct (c9m_known l b f (c9t_generics tp) i) eqn:Kn; [discriminate|].
    destruct (c9m_emitted_generic pfx l b f (c9t_generics tp) i) eqn:Eg; [discriminate|].
    destruct (c9m_inline_generic L pfx l b tp i) eqn:Ig; [discriminate|].
    rewrite (Hall f Hf Htpf Kn s Hs) in Hn. rewrite Hn.
    destruct (mem_str i (c9t_generics tp)) eqn:G; [|reflexivity].
    unfold c9m_inline_generic in Ig. rewrite HL, <- Hp, Htpos, G in Ig.
    destruct (c9l_nil_cases pfx) as [->|Hp']; [reflexivity|]. rewrite Hp' in Ig. cbn [negb andb] in Ig.
    exfalso. assert (existsb (c9m_is_inline_alias (c9t_owner tp)) (c9m_entities l b) = true) as Hc; [|congruence].
    apply existsb_exists. exists e. split; [exact (c9l_multi_entities ho l b pd' e Hin He)|].
    unfold c9m_is_inline_alias. rewrite Hk, Hid, Hown. apply str_eqb_refl.
  - (* the sealed parent *)
    right. left. split; [exact Hpos|]. exists e. split; [exact (c9l_multi_entities ho l b pd' e Hin He)|]. split; [exact Hin'|].
    intros Hc. rewrite Hn, Hin'. unfold c09_def_name. do 2 f_equal.
    unfold c09_parent_site_class in Hc. rewrite Hw in Hc.
    destruct (c09_renamed_away (c9e_id e)) eqn:Era; [|apply c09_pick_eq; now right].
    destruct (c09_which_eqb w (c09_def_which L (c9e_kind e))) eqn:Ew; [|discriminate].
    apply c09_pick_eq. now left.
  - (* the helper struct *)
    right. right. left. split; [exact Hpos|]. exists e. split; [exact (c9l_multi_entities ho l b pd' e Hin He)|]. split; [exact Hk|]. split; [exact Hinner|].
    intros Hc. rewrite Hn. unfold c9m_def_name. do 2 f_equal. rewrite Hk. change (c9m_pick ?w ?i) with (c09_pick w i).
    unfold c09_inner_site_class in Hc.
    destruct (c09_renamed_away (c9e_id e)) eqn:Era; [|apply c09_pick_eq; now right].
    destruct (c09_which_eqb (c09_inner_ref_which L) (c09_def_which L C9KInner)) eqn:Ew; [|discriminate].
    apply c09_pick_eq. now left.
  - right. right. right. split; [exact Hpos|]. exists e. split; [exact (c9l_multi_entities ho l b pd' e Hin He)|]. auto.
Qed.

Theorem c9l_decl_judged d : c9l_decl_ok L pfx pd' d ->
  (c09_is_def d = true -> c9m_ldef_ok L l b pfx (d_name d)) /\ (forall r, In r (c09_decl_refs L d) -> c9m_lref_ok L l b pfx r).
Proof.
  intros [Hd Hr]. split.
  - intros Hdef. destruct (Hd Hdef) as (e & He & Hdefs & Hn). exists e. split; [exact (c9l_multi_entities ho l b pd' e Hin He)|]. auto.
  - intros r Hin'. apply c9l_ref_ok. exact (Hr r Hin').
Qed.
End Conv.

(* ---------------------------------------------------------------- (3) the boolean judgement *)
Lemma c9l_pos_eqb_eq a b : c09_pos_eqb a b = true <-> a = b.
Proof. destruct a, b; cbn; split; intros H; try reflexivity; try discriminate. Qed.

Lemma c9l_none_iff {A} (o : option A) : c9m_none o = true <-> o = None.
Proof. destruct o; cbn; split; intros H; try reflexivity; discriminate. Qed.

Lemma c9l_is_inner_iff e : c9m_is_inner e = true <-> c9e_kind e = C9KInner.
Proof. unfold c9m_is_inner. destruct (c9e_kind e); split; intros H; try reflexivity; discriminate. Qed.

Lemma c9m_mention_reflect L ws b pfx r : c9m_mention_okb L ws b pfx r = true <-> c9m_mention_ok L ws b pfx r.
Proof.
  unfold c9m_mention_okb, c9m_mention_ok. rewrite existsb_exists. split.
  - intros (f & Hf & H). apply existsb_exists in H as (tp & Htp & H). apply andb_true_iff in H as [Hp H].
    apply existsb_exists in H as ([form i] & Hi & H). cbn [snd] in H.
    exists f, tp, form, i. split; [now apply c9m_files_in|]. split; [exact Htp|]. split; [exact Hi|]. split; [now apply c9l_pos_eqb_eq|].
    intros Hk s Hs. rewrite Hk, Hs in H. now apply str_eqb_eq in H.
  - intros (f & tp & form & i & Hf & Htp & Hi & Hp & H). exists f. split; [now apply c9m_files_in|].
    apply existsb_exists. exists tp. split; [exact Htp|]. apply andb_true_iff. split; [now apply c9l_pos_eqb_eq|].
    apply existsb_exists. exists (form, i). split; [exact Hi|]. cbn [snd].
    destruct (c9m_lknown L pfx ws b f tp i); [reflexivity|]. destruct (c9m_spelling ws b f (c9t_generics tp) i) as [s|]; [|reflexivity].
    apply str_eqb_eq. now apply H.
Qed.

Lemma c9m_parent_reflect L ws b pfx r : c9m_parent_okb L ws b pfx r = true <-> c9m_parent_ok L ws b pfx r.
Proof.
  unfold c9m_parent_okb, c9m_parent_ok. rewrite andb_true_iff, c9l_pos_eqb_eq, existsb_exists. split.
  - intros [Hp (e & He & H)]. split; [exact Hp|]. exists e. split; [exact He|]. apply andb_true_iff in H as [H1 H2]. apply str_eqb_eq in H1. split; [exact H1|].
    intros Hc. apply orb_true_iff in H2 as [H2|H2]; [|now apply str_eqb_eq]. apply c9l_none_iff in Hc. rewrite Hc in H2. discriminate.
  - intros [Hp (e & He & H1 & H2)]. split; [exact Hp|]. exists e. split; [exact He|]. apply andb_true_iff. split; [now apply str_eqb_eq|].
    destruct (c09_parent_site_class L e) as [k|]; [reflexivity|]. cbn [c9m_none negb orb]. apply str_eqb_eq. now apply H2.
Qed.

Lemma c9m_inner_reflect L ws b pfx r : c9m_inner_okb L ws b pfx r = true <-> c9m_inner_ok L ws b pfx r.
Proof.
  unfold c9m_inner_okb, c9m_inner_ok. rewrite !andb_true_iff, c9l_pos_eqb_eq, existsb_exists. split.
  - intros [[Hp Hi] (e & He & H)]. split; [exact Hp|]. exists e. split; [exact He|]. apply andb_true_iff in H as [H1 H2]. apply c9l_is_inner_iff in H1.
    split; [exact H1|]. split; [exact Hi|].
    intros Hc. apply orb_true_iff in H2 as [H2|H2]; [|now apply str_eqb_eq]. apply c9l_none_iff in Hc. rewrite Hc in H2. discriminate.
  - intros [Hp (e & He & H1 & Hi & H2)]. split; [split; [exact Hp|exact Hi]|]. exists e. split; [exact He|]. apply andb_true_iff. split; [now apply c9l_is_inner_iff|].
    destruct (c09_inner_site_class L e) as [k|]; [reflexivity|]. cbn [c9m_none negb orb]. apply str_eqb_eq. now apply H2.
Qed.

Lemma c9m_inner_arg_reflect ws b r : c9m_inner_arg_okb ws b r = true <-> c9m_inner_arg_ok ws b r.
Proof.
  unfold c9m_inner_arg_okb, c9m_inner_arg_ok. rewrite andb_true_iff, c9l_pos_eqb_eq, existsb_exists. split.
  - intros [Hp (e & He & H)]. split; [exact Hp|]. exists e. apply andb_true_iff in H as [H1 H2]. apply c9l_is_inner_iff in H1. apply c09_mem_str_in in H2. auto.
  - intros [Hp (e & He & H1 & H2)]. split; [exact Hp|]. exists e. split; [exact He|]. apply andb_true_iff. split; [now apply c9l_is_inner_iff|now apply c09_mem_str_in].
Qed.

Theorem c9m_lref_reflect L ws b pfx r : c9m_lref_okb L ws b pfx r = true <-> c9m_lref_ok L ws b pfx r.
Proof.
  unfold c9m_lref_okb, c9m_lref_ok. rewrite !orb_true_iff, c9m_mention_reflect, c9m_parent_reflect, c9m_inner_reflect, c9m_inner_arg_reflect. tauto.
Qed.

Theorem c9m_ldef_reflect L ws b pfx d : c9m_ldef_okb L ws b pfx d = true <-> c9m_ldef_ok L ws b pfx d.
Proof.
  unfold c9m_ldef_okb, c9m_ldef_ok. rewrite existsb_exists. split.
  - intros (e & He & H). apply andb_true_iff in H as [H1 H2]. apply str_eqb_eq in H2. eauto.
  - intros (e & He & H1 & H2). exists e. split; [exact He|]. apply andb_true_iff. split; [exact H1|now apply str_eqb_eq].
Qed.

Theorem good_C09_multi_reflect L pfx ws b obs :
  good_C09_multi L pfx ws b obs = true <->
  (forall d, In d (c9_defs obs) -> c9m_ldef_ok L ws b pfx d) /\ (forall r, In r (c9_refs obs) -> c9m_lref_ok L ws b pfx r).
Proof.
  unfold good_C09_multi. rewrite andb_true_iff, !forallb_forall. split.
  - intros [H1 H2]. split; [intros d Hd; now apply c9m_ldef_reflect, H1|intros r Hr; now apply c9m_lref_reflect, H2].
  - intros [H1 H2]. split; [intros d Hd; now apply c9m_ldef_reflect, H1|intros r Hr; now apply c9m_lref_reflect, H2].
Qed.

(* declarations all of which have the shape are good *)
Theorem c9l_decls_good L pfx ho (l : list (str * parsed)) b pd' (ds : list decl) :
  oracle_ok ho -> c9m_ids_wf l = true -> In (b, pd') (multi_crates ho l) ->
  (forall d, In d ds -> c9l_decl_ok L pfx pd' d) ->
  good_C09_multi L pfx l b (c9m_observe_decls L ds) = true.
Proof.
  intros Hho Hwf Hin Hall. apply good_C09_multi_reflect. unfold c9m_observe_decls. cbn [c9_defs c9_refs]. split.
  - intros n Hn. apply in_map_iff in Hn as (d & <- & Hd). apply filter_In in Hd as [Hd Hdef].
    exact (proj1 (c9l_decl_judged L pfx ho l Hho Hwf b pd' Hin d (Hall d Hd)) Hdef).
  - intros r Hr. apply in_flat_map in Hr as (d & Hd & Hr).
    exact (proj2 (c9l_decl_judged L pfx ho l Hho Hwf b pd' Hin d (Hall d Hd)) r Hr).
Qed.

Lemma c9l_observe_decls L fd : c09_observe L fd = c9m_observe_decls L (fd_decls fd).
Proof. reflexivity. Qed.

(* a file all of whose declarations have the shape is good *)
Theorem c9l_file_good L pfx ho (l : list (str * parsed)) b pd' (fd : file_decls) :
  oracle_ok ho -> c9m_ids_wf l = true -> In (b, pd') (multi_crates ho l) ->
  (forall d, In d (fd_decls fd) -> c9l_decl_ok L pfx pd' d) ->
  good_C09_multi L pfx l b (c09_observe L fd) = true.
Proof. intros Hho Hwf Hin Hall. rewrite c9l_observe_decls. now apply (c9l_decls_good L pfx ho l b pd'). Qed.

(* the same for a list of groups of declarations *)
Lemma c9l_forall_judged L pfx ho (l : list (str * parsed)) b pd' (ds : list decl) :
  oracle_ok ho -> c9m_ids_wf l = true -> In (b, pd') (multi_crates ho l) ->
  (forall d, In d ds -> c9l_decl_ok L pfx pd' d) ->
  Forall (fun d => (c09_is_def d = true -> c9m_ldef_ok L l b pfx (d_name d)) /\
                   (forall r, In r (c09_decl_refs L d) -> c9m_lref_ok L l b pfx r)) ds.
Proof.
  intros Hho Hwf Hin Hall. apply Forall_forall. intros d Hd. exact (c9l_decl_judged L pfx ho l Hho Hwf b pd' Hin d (Hall d Hd)).
Qed.

(* ---------------------------------------------------------------- a workspace in no class *)
(* c9m_lknown_ws = None: no mention, no definition, no parent, no helper of any crate is in a class - the conditional
   clauses of the judgement then all apply *)
Theorem c9m_lknown_ws_none L pfx (ws : c9m_ws) : c9m_lknown_ws L pfx ws = None ->
  forall b f, In (b, f) ws ->
    (forall tp form i, In tp (c09_tposs f) -> In (form, i) (c09_type_ids (c9t_type tp)) -> c9m_lknown L pfx ws b f tp i = None) /\
    (forall e, In e (c9m_entities ws b) ->
       match c9e_kind e with
       | C9KInner => c09_inner_site_class L e = None
       | _ => c9m_def_class L e = None /\ c09_parent_site_class L e = None
       end).
Proof.
  intros H b f Hf. unfold c9m_lknown_ws in H.
  assert (Hbf : match c9m_lknown_file L pfx ws b f with Some k => Some k | None => c9m_lknown_crate L ws b end = None).
  { apply (c09_first_none _ H). apply in_map_iff. exists (b, f). split; [reflexivity|exact Hf]. }
  destruct (c9m_lknown_file L pfx ws b f) as [k|] eqn:Kf; [discriminate|]. split.
  - intros tp form i Htp Hi. apply (c09_first_none _ Kf). apply in_flat_map. exists tp. split; [exact Htp|].
    apply in_map_iff. exists (form, i). split; [reflexivity|exact Hi].
  - intros e He. unfold c9m_lknown_crate in Hbf.
    assert (K : forall x, In x (match c9e_kind e with
                                | C9KInner => [c09_inner_site_class L e]
                                | _ => [c9m_def_class L e; c09_parent_site_class L e]
                                end) -> x = None).
    { intros x Hx. apply (c09_first_none _ Hbf). apply in_flat_map. exists e. split; [exact He|exact Hx]. }
    destruct (c9e_kind e); try (split; apply K; cbn; auto). apply K. now left.
Qed.
