(* C07, the Kotlin back end: kt_generate never panics - for every configuration and every parsed data (no
   shape hypothesis: kotlin.rs has no partial operation left since write_const returns an error). *)
From Coq Require Import String List Bool Permutation.
From TS Require Import Model.Str Model.Outcome Model.Unicode Model.Types Model.Parse Model.Rename
                       Model.TopsortAlgo Model.Topsort Model.Lang.Common Model.Lang.Decl Model.Lang.Kotlin.
From TS Require Import Spec.C07BackSpec.
From TS Require Import Proofs.C07Monad Proofs.C07Topsort.
Import ListNotations.

Section KTP.
Variable uc : unicode.
Variable cfg : kt_config.
Variable P : string -> Prop.

Lemma kt_texp_po g t : panics_only P (kt_texp cfg g t).
Proof.
  induction t as [id|id ps IH|x IH|x n IH|x IH|k v IHk IHv|x IH|p] using rtype_ind'; cbn [kt_texp].
  - exact I.
  - destruct (tmap_get (kt_type_mappings cfg) id); [exact I|].
    apply po_bind; [|intros; exact I].
    induction IH as [|x r Hx _ IHr]; [exact I|].
    apply po_bind; [exact Hx|]. intros y _. apply po_bind; [exact IHr|]. intros; exact I.
  - po_walk.
  - po_walk.
  - po_walk.
  - po_walk.
  - po_walk.
  - destruct p; exact I.
Qed.
Hint Resolve kt_texp_po : c07.

Lemma kt_member_po f g b vis : panics_only P (kt_member_of cfg f g b vis).
Proof. unfold kt_member_of. po_walk. Qed.
Hint Resolve kt_member_po : c07.

Lemma kt_struct_po rs : panics_only P (kt_struct_decl cfg rs).
Proof. unfold kt_struct_decl. po_walk. Qed.
Hint Resolve kt_struct_po : c07.

Lemma kt_alias_po a : panics_only P (kt_alias_decl cfg a).
Proof. unfold kt_alias_decl. po_walk. Qed.
Hint Resolve kt_alias_po : c07.

Lemma kt_inner_po e : panics_only P (kt_inner_decls cfg e).
Proof. unfold kt_inner_decls. po_walk. Qed.
Hint Resolve kt_inner_po : c07.

Lemma kt_variant_po sh v : panics_only P (kt_variant_of cfg sh v).
Proof. unfold kt_variant_of. po_walk. Qed.
Hint Resolve kt_variant_po : c07.

Lemma kt_enum_po e : panics_only P (kt_enum_decls cfg e).
Proof. unfold kt_enum_decls, kt_entry_of. po_walk. Qed.
Hint Resolve kt_enum_po : c07.

Lemma kt_decl_po it : panics_only P (kt_decl_of cfg it).
Proof. unfold kt_decl_of. po_walk. Qed.
Hint Resolve kt_decl_po : c07.

Lemma kt_write_item_po it : panics_only P (kt_write_item cfg it).
Proof. unfold kt_write_item. po_walk. Qed.
Hint Resolve kt_write_item_po : c07.

Theorem kt_generate_po pd : panics_only P (kt_generate uc cfg pd).
Proof.
  unfold kt_generate. destruct (topsort_total (items_of pd)) as (items & E & _). rewrite E. cbn [bind].
  unfold kt_concat. po_walk.
Qed.
End KTP.

Theorem kt_generate_never_panics uc cfg pd : no_panic (kt_generate uc cfg pd).
Proof. apply kt_generate_po. Qed.
