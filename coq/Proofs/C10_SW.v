(* C10 for Swift, the lexical half at the LAYOUT layer: every declaration whose names are made of key characters
   ([A-Za-z0-9_-]), whose doc lines have no line end, whose decorators / constraints / verbatim types are balanced
   and whose raw values are printable prints to a neutral fragment.  (The decision layer of the Swift back end -
   trim / split of constraint strings - is not followed here: see Props/C10.v, C10_lex_swift_layout.) *)
From Coq Require Import List Bool Lia ZifyBool ZifyN NArith Permutation.
From TS Require Import Model.Str Model.Outcome Model.Unicode Model.Types Model.Parse Model.Rename Model.TopsortAlgo Model.Topsort
                       Model.Lang.Common Model.Lang.Decl Model.Lang.Swift.
From TS Require Import Spec.C10Spec Proofs.BackCommon Proofs.C10Lex Proofs.C10_TSFile Proofs.C10Common.
Import ListNotations.
Local Open Scope N_scope.
Local Notation length := List.length (only parsing).

Definition keychars (s : str) : bool := forallb c10_key_char s.
Lemma keychars_tok s : keychars s = true -> c10_tok_ok s = true.
Proof. unfold keychars, c10_tok_ok. apply forallb_impl. intros x Hx. apply negb_true_iff, key_char_not_special, Hx. Qed.
Lemma keychars_intick s : keychars s = true -> c10_intick_ok s = true.
Proof.
  unfold keychars, c10_intick_ok. apply forallb_impl. intros c. unfold c10_key_char, is_aalpha, is_alower, is_aupper, is_adigit. unfold_chars. lia.
Qed.
Lemma keychars_instr s : keychars s = true -> c10_instr_ok s = true.
Proof. apply key_chars_instr. Qed.

Definition nonnil (s : str) : bool := match s with [] => false | _ => true end.
Lemma nonnil_ne s : nonnil s = true -> s <> [].
Proof. destruct s; [discriminate|discriminate]. Qed.

Lemma sw_tabs_bal n : bal c10_lex_sw (sw_tabs n).
Proof. apply tr_repeat_str. intros st. reflexivity. Qed.

Lemma sw_comments_bal indent docs : forallb c10_line_ok docs = true -> bal c10_lex_sw (sw_render_comments indent docs).
Proof.
  intros H. unfold sw_render_comments. apply tr_flat_map. apply Forall_forall. intros c Hc.
  rewrite forallb_forall in H. pose proof (line_stay c10_lex_sw c (H c Hc)) as Hl.
  pose proof (sw_tabs_bal indent) as Ht. intros st. walk. reflexivity.
Qed.

Lemma sw_show_bal x : c10_texp_ok c10_lex_sw x = true -> bal c10_lex_sw (sw_show x).
Proof.
  induction x as [n args IH | e IH | es IH | k v IHk IHv | e IH | t] using texp_ind'; intros H; cbn [c10_texp_ok] in H.
  - apply andb_true_iff in H as [Hn Ha]. pose proof (tok_bal c10_lex_sw n Hn) as Hnb.
    destruct args as [|a l]; [exact Hnb|].
    change (sw_show (XName n (a :: l))) with (n ++ lit "<" ++ join (lit ", ") (map sw_show (a :: l)) ++ lit ">").
    assert (Hj : bal c10_lex_sw (join (lit ", ") (map sw_show (a :: l)))).
    { apply tr_join_map; [intros st; reflexivity|]. exact (Forall_forallb_imp _ _ _ IH Ha). }
    intros st. set (J := join _ _) in *. walk. reflexivity.
  - change (sw_show (XSeq e)) with (lit "[" ++ sw_show e ++ lit "]"). specialize (IH H). intros st. walk. reflexivity.
  - change (sw_show (XFixed es)) with (lit "(" ++ join (lit ", ") (map sw_show es) ++ lit ")").
    assert (Hj : bal c10_lex_sw (join (lit ", ") (map sw_show es))).
    { apply tr_join_map; [intros st; reflexivity|]. exact (Forall_forallb_imp _ _ _ IH H). }
    intros st. set (J := join _ _) in *. walk. reflexivity.
  - apply andb_true_iff in H as [Hk Hv]. specialize (IHk Hk). specialize (IHv Hv).
    change (sw_show (XMap k v)) with (lit "[" ++ sw_show k ++ lit ": " ++ sw_show v ++ lit "]").
    intros st. walk. reflexivity.
  - change (sw_show (XOpt e)) with (sw_show e ++ lit "?"). specialize (IH H). intros st. walk. reflexivity.
  - exact (balanced_bal _ t H).
Qed.

(* an identifier, back-ticked or not *)
Lemma sw_show_name_bal name esc : keychars name = true -> bal c10_lex_sw (sw_show_name name esc).
Proof.
  intros H. unfold sw_show_name. destruct esc; [|apply tok_bal, keychars_tok, H].
  pose proof (intick_stay_tick c10_lex_sw _ (keychars_intick _ H)) as Ht. intros st. walk. reflexivity.
Qed.
(* ... inside a "..." literal *)
Lemma sw_show_name_instr name esc : keychars name = true -> tr c10_lex_sw (C10LStr ch_dq) (sw_show_name name esc) (C10LStr ch_dq).
Proof.
  intros H. pose proof (instr_stay c10_lex_sw _ (keychars_instr _ H)) as Hs. unfold sw_show_name. destruct esc; [|exact Hs].
  intros st. walk. reflexivity.
Qed.
(* swift_keyword_aware_rename of a neutral token (the tag / content key of an algebraic enum, swift.rs:490 / :591): a
   keyword is made of letters, so its back-ticked form is neutral too *)
Lemma sw_keywords_keychars : forallb keychars SWIFT_KEYWORDS = true.
Proof. vm_compute. reflexivity. Qed.
Lemma sw_keyword_aware_bal k : c10_tok_ok k = true -> bal c10_lex_sw (swift_keyword_aware_rename k).
Proof.
  intros H. unfold swift_keyword_aware_rename. destruct (sw_is_keyword k) eqn:Ek; [|apply tok_bal, H].
  apply sw_show_name_bal. unfold sw_is_keyword, mem_str in Ek. apply existsb_exists in Ek as [y [Hy E]].
  apply str_eqb_eq in E. subst y. pose proof sw_keywords_keychars as Hk. rewrite forallb_forall in Hk. apply Hk, Hy.
Qed.
(* a printed type, back-ticked when the decision layer found it to be a keyword *)
Definition c10_sw_case_type_ok (ty : texp) (esc : bool) : bool :=
  c10_texp_ok c10_lex_sw ty && implb esc (c10_intick_ok (sw_show ty)).
Lemma sw_case_type_bal ty esc : c10_sw_case_type_ok ty esc = true -> bal c10_lex_sw (sw_show_name (sw_show ty) esc).
Proof.
  unfold c10_sw_case_type_ok. rewrite andb_true_iff. intros [Ht He]. unfold sw_show_name. destruct esc; [|exact (sw_show_bal _ Ht)].
  pose proof (intick_stay_tick c10_lex_sw _ He) as Hk. intros st. walk. reflexivity.
Qed.

(* ------------------------------------------------------------------ well-formed declarations *)
Definition c10_sw_generics_ok (gs : list (str * list str)) : bool :=
  forallb (fun g => c10_tok_ok (fst g) && forallb (c10_raw_ok c10_lex_sw) (snd g)) gs.
Definition c10_sw_member_ok (m : sw_member) : bool :=
  forallb c10_line_ok (swm_docs m) && keychars (swm_name m) &&
  match swm_coding_key m with Some k => nonnil k && c10_instr_ok k | None => true end &&
  c10_texp_ok c10_lex_sw (swm_type m) && c10_texp_ok c10_lex_sw (swm_init_type m).
Definition c10_sw_struct_ok (s : sw_struct) : bool :=
  forallb c10_line_ok (sws_docs s) && keychars (sws_name s) && c10_sw_generics_ok (sws_generics s) &&
  forallb (c10_raw_ok c10_lex_sw) (sws_decs s) && forallb c10_sw_member_ok (sws_members s).
Definition c10_sw_variant_ok (v : sw_variant) : bool :=
  forallb c10_line_ok (swv_docs v) && keychars (swv_name v) &&
  match swv_raw v with Some w => nonnil w && c10_instr_ok w | None => true end &&
  match swv_payload v with
  | SWPUnit => true
  | SWPTuple ty esc _ => c10_sw_case_type_ok ty esc
  | SWPInner name gs => c10_tok_ok name && forallb c10_tok_ok gs
  end.
Definition c10_sw_enum_ok (e : sw_enum) : bool :=
  forallb c10_sw_struct_ok (swe_inner e) && forallb c10_line_ok (swe_docs e) && keychars (swe_name e) &&
  c10_sw_generics_ok (swe_generics e) && forallb (c10_raw_ok c10_lex_sw) (swe_decs e) &&
  match swe_tagged e with Some (tag, content) => c10_tok_ok tag && c10_tok_ok content | None => true end &&
  forallb c10_sw_variant_ok (swe_variants e).
Definition c10_sw_decl_ok (d : sw_decl) : bool :=
  match d with
  | SWStruct s => c10_sw_struct_ok s
  | SWAlias docs name _ gs ty => forallb c10_line_ok docs && keychars name && forallb c10_tok_ok gs && c10_texp_ok c10_lex_sw ty
  | SWEnum e => c10_sw_enum_ok e
  | SWCodableVoid decs => forallb (c10_raw_ok c10_lex_sw) decs
  end.

Lemma sw_decs_bal decs : forallb (c10_raw_ok c10_lex_sw) decs = true -> bal c10_lex_sw (join (lit ", ") decs).
Proof.
  intros H. apply tr_join; [intros st; reflexivity|]. apply Forall_forall. intros d Hd. apply balanced_bal.
  rewrite forallb_forall in H. exact (H d Hd).
Qed.

Lemma sw_generic_header_bal gs : c10_sw_generics_ok gs = true -> bal c10_lex_sw (sw_render_generic_header gs).
Proof.
  intros H. unfold sw_render_generic_header. destruct gs as [|g r]; [apply tr_nil|].
  assert (Hj : bal c10_lex_sw (join (lit ", ") (map (fun g0 : str * list str => fst g0 ++ lit ": " ++ join (lit " & ") (snd g0)) (g :: r)))).
  { apply tr_join_map; [intros st; reflexivity|]. apply Forall_forall. intros x Hx. unfold c10_sw_generics_ok in H. rewrite forallb_forall in H.
    specialize (H x Hx). apply andb_true_iff in H as [Hn Hc]. pose proof (tok_bal c10_lex_sw _ Hn) as G1.
    assert (G2 : bal c10_lex_sw (join (lit " & ") (snd x))).
    { apply tr_join; [intros st; reflexivity|]. apply Forall_forall. intros d Hd. apply balanced_bal. rewrite forallb_forall in Hc. exact (Hc d Hd). }
    intros st. set (J := join _ _) in *. walk. reflexivity. }
  intros st. set (J := join _ _) in *. walk. reflexivity.
Qed.

Lemma sw_member_ident_bal m : c10_sw_member_ok m = true -> bal c10_lex_sw (sw_member_ident m).
Proof. unfold c10_sw_member_ok. rewrite !andb_true_iff. intros [[[[_ Hn] _] _] _]. apply sw_show_name_bal, Hn. Qed.

Lemma sw_render_member_bal m : c10_sw_member_ok m = true -> bal c10_lex_sw (sw_render_member m).
Proof.
  intros H. pose proof (sw_member_ident_bal m H) as H2. unfold c10_sw_member_ok in H. rewrite !andb_true_iff in H. destruct H as [[[[Hd Hn] _] Ht] _].
  pose proof (sw_comments_bal 1 _ Hd) as H1. pose proof (sw_show_bal _ Ht) as H3.
  unfold sw_render_member, sw_member_opt. intros st. destruct (swm_default_opt m); walk; reflexivity.
Qed.
Lemma sw_member_coding_key_bal m : c10_sw_member_ok m = true -> bal c10_lex_sw (sw_render_member_coding_key m).
Proof.
  intros H. pose proof (sw_member_ident_bal m H) as H2. unfold c10_sw_member_ok in H. rewrite !andb_true_iff in H. destruct H as [[[[_ _] Hk] _] _].
  unfold sw_render_member_coding_key. destruct (swm_coding_key m) as [k|]; [|exact H2].
  apply andb_true_iff in Hk as [Hk1 Hk2]. pose proof (instr_q1 c10_lex_sw k (nonnil_ne _ Hk1) Hk2) as H3. intros st. walk. reflexivity.
Qed.
Lemma sw_init_param_bal m : c10_sw_member_ok m = true -> bal c10_lex_sw (sw_render_init_param m).
Proof.
  unfold c10_sw_member_ok. rewrite !andb_true_iff. intros [[[[_ Hn] _] _] Hi].
  pose proof (tok_bal c10_lex_sw _ (keychars_tok _ Hn)) as H1. pose proof (sw_show_bal _ Hi) as H2.
  unfold sw_render_init_param, sw_member_opt. intros st. destruct (swm_default_opt m); walk; reflexivity.
Qed.

Lemma sw_coding_keys_block_bal keys : Forall (fun k => bal c10_lex_sw k) keys -> bal c10_lex_sw (sw_render_coding_keys_block keys).
Proof.
  intros H. assert (Hj : bal c10_lex_sw (join (lit "," ++ sw_nl ++ sw_tabs 3) keys)) by (apply tr_join; [intros st; reflexivity|exact H]).
  unfold sw_render_coding_keys_block, sw_line. intros st. set (J := join _ _) in *. walk. reflexivity.
Qed.

Lemma sw_render_struct_bal s : c10_sw_struct_ok s = true -> bal c10_lex_sw (sw_render_struct s).
Proof.
  unfold c10_sw_struct_ok. rewrite !andb_true_iff. intros [[[[Hd Hn] Hg] Hdec] Hm].
  pose proof (sw_comments_bal 0 _ Hd) as H1. pose proof (sw_show_name_bal _ (sws_escaped s) Hn) as H2.
  pose proof (sw_generic_header_bal _ Hg) as H3. pose proof (sw_decs_bal _ Hdec) as H4.
  apply forallb_Forall in Hm.
  assert (H5 : bal c10_lex_sw (flat_map sw_render_member (sws_members s))).
  { apply tr_flat_map. revert Hm. apply Forall_impl. intros m. apply sw_render_member_bal. }
  assert (H6 : bal c10_lex_sw (sw_render_coding_keys_block (map sw_render_member_coding_key (sws_members s)))).
  { apply sw_coding_keys_block_bal. apply Forall_map. revert Hm. apply Forall_impl. intros m. apply sw_member_coding_key_bal. }
  assert (H7 : bal c10_lex_sw (join (lit ", ") (map sw_render_init_param (sws_members s)))).
  { apply tr_join_map; [intros st; reflexivity|]. revert Hm. apply Forall_impl. intros m. apply sw_init_param_bal. }
  assert (H8 : bal c10_lex_sw (flat_map (fun m => sw_line 2 (lit "self." ++ swm_name m ++ lit " = " ++ sw_member_ident m)) (sws_members s))).
  { apply tr_flat_map. revert Hm. apply Forall_impl. intros m Hmm. pose proof (sw_member_ident_bal m Hmm) as G1.
    unfold c10_sw_member_ok in Hmm. rewrite !andb_true_iff in Hmm. destruct Hmm as [[[[_ Hmn] _] _] _].
    pose proof (tok_bal c10_lex_sw _ (keychars_tok _ Hmn)) as G2. unfold sw_line. intros st. walk. reflexivity. }
  unfold sw_render_struct, sw_line. cbv zeta. intros st.
  set (F1 := flat_map sw_render_member _) in *. set (CK := sw_render_coding_keys_block _) in *.
  set (J := join _ (map sw_render_init_param _)) in *. set (F2 := flat_map (fun m => _) _) in *. set (D := join _ (sws_decs s)) in *.
  destruct (sws_coding_keys s), (sws_members s); walk; reflexivity.
Qed.

Lemma sw_variant_ident_bal v : c10_sw_variant_ok v = true -> bal c10_lex_sw (sw_variant_ident v).
Proof. unfold c10_sw_variant_ok. rewrite !andb_true_iff. intros [[[_ Hn] _] _]. apply sw_show_name_bal, Hn. Qed.

Lemma sw_render_unit_case_bal v : c10_sw_variant_ok v = true -> bal c10_lex_sw (sw_render_unit_case v).
Proof.
  intros H. pose proof (sw_variant_ident_bal v H) as H2. unfold c10_sw_variant_ok in H. rewrite !andb_true_iff in H. destruct H as [[[Hd _] Hr] _].
  pose proof (sw_comments_bal 1 _ Hd) as H1. unfold sw_render_unit_case. destruct (swv_raw v) as [w|].
  - apply andb_true_iff in Hr as [Hw _]. pose proof (debug_str_bal_triple c10_lex_sw w (nonnil_ne _ Hw)) as H3. intros st. walk. reflexivity.
  - intros st. walk. reflexivity.
Qed.

Lemma sw_render_case_bal v : c10_sw_variant_ok v = true -> bal c10_lex_sw (sw_render_case v).
Proof.
  intros H. pose proof (sw_variant_ident_bal v H) as H2. unfold c10_sw_variant_ok in H. rewrite !andb_true_iff in H. destruct H as [[[Hd _] _] Hp].
  pose proof (sw_comments_bal 1 _ Hd) as H1. unfold sw_render_case. destruct (swv_payload v) as [|ty esc opt|name gs].
  - intros st. walk. reflexivity.
  - pose proof (sw_case_type_bal _ _ Hp) as H3. intros st. walk. reflexivity.
  - apply andb_true_iff in Hp as [Hn Hg]. pose proof (tok_bal c10_lex_sw _ Hn) as H3.
    pose proof (tok_bal c10_lex_sw _ (generics_suffix_tok _ Hg)) as H4. intros st. walk. reflexivity.
Qed.

Lemma sw_render_coding_key_bal v : c10_sw_variant_ok v = true -> bal c10_lex_sw (sw_render_coding_key v).
Proof.
  intros H. pose proof (sw_variant_ident_bal v H) as H2. unfold c10_sw_variant_ok in H. rewrite !andb_true_iff in H. destruct H as [[[_ _] Hr] _].
  unfold sw_render_coding_key. destruct (swv_raw v) as [w|]; [|exact H2].
  apply andb_true_iff in Hr as [Hw1 Hw2]. pose proof (instr_q1 c10_lex_sw w (nonnil_ne _ Hw1) Hw2) as H3. intros st. walk. reflexivity.
Qed.

Lemma sw_render_decoding_bal content v : bal c10_lex_sw content -> c10_sw_variant_ok v = true -> bal c10_lex_sw (sw_render_decoding content v).
Proof.
  intros H0 H.
  unfold c10_sw_variant_ok in H. rewrite !andb_true_iff in H. destruct H as [[[_ Hn] _] Hp].
  pose proof (tok_bal c10_lex_sw _ (keychars_tok _ Hn)) as H1.
  unfold sw_render_decoding, sw_line. destruct (swv_payload v) as [|ty esc opt|name gs].
  - intros st. walk. reflexivity.
  - pose proof (sw_case_type_bal _ _ Hp) as H3. intros st. set (CT := sw_show_name _ _) in *. destruct opt; walk; reflexivity.
  - apply andb_true_iff in Hp as [Hnm Hg]. pose proof (tok_bal c10_lex_sw _ Hnm) as H3.
    pose proof (tok_bal c10_lex_sw _ (generics_suffix_tok _ Hg)) as H4. intros st. walk. reflexivity.
Qed.

Lemma sw_render_encoding_bal tag content v : bal c10_lex_sw tag -> bal c10_lex_sw content -> c10_sw_variant_ok v = true ->
  bal c10_lex_sw (sw_render_encoding tag content v).
Proof.
  intros G0 H0 H.
  pose proof (sw_variant_ident_bal v H) as H2.
  unfold c10_sw_variant_ok in H. rewrite !andb_true_iff in H. destruct H as [[[_ Hn] _] Hp].
  pose proof (tok_bal c10_lex_sw _ (keychars_tok _ Hn)) as H1.
  unfold sw_render_encoding, sw_line. destruct (swv_payload v); intros st; walk; reflexivity.
Qed.

Lemma sw_render_enum_bal e : c10_sw_enum_ok e = true -> bal c10_lex_sw (sw_render_enum e).
Proof.
  unfold c10_sw_enum_ok. rewrite !andb_true_iff. intros [[[[[[Hin Hd] Hn] Hg] Hdec] Htag] Hv].
  pose proof (sw_comments_bal 0 _ Hd) as H1. pose proof (sw_show_name_bal _ (swe_escaped e) Hn) as H2.
  pose proof (sw_show_name_instr _ (swe_escaped e) Hn) as H2s.
  pose proof (sw_generic_header_bal _ Hg) as H3. pose proof (sw_decs_bal _ Hdec) as H4.
  assert (H5 : bal c10_lex_sw (flat_map sw_render_struct (swe_inner e))).
  { apply tr_flat_map. apply forallb_Forall in Hin. revert Hin. apply Forall_impl. intros s. apply sw_render_struct_bal. }
  apply forallb_Forall in Hv.
  unfold sw_render_enum, sw_line. cbv zeta. destruct (swe_tagged e) as [[tag content]|].
  - apply andb_true_iff in Htag as [Htg Hct]. pose proof (sw_keyword_aware_bal _ Htg) as G1. pose proof (sw_keyword_aware_bal _ Hct) as G2.
    set (tagk := swift_keyword_aware_rename tag) in *. set (contentk := swift_keyword_aware_rename content) in *.
    assert (F1 : bal c10_lex_sw (flat_map sw_render_case (swe_variants e))).
    { apply tr_flat_map. revert Hv. apply Forall_impl. intros v. apply sw_render_case_bal. }
    set (K := match swe_variants e with [] => [] | _ => sw_render_coding_keys_block (map sw_render_coding_key (swe_variants e)) end).
    assert (F2 : bal c10_lex_sw K).
    { subst K. destruct (swe_variants e) as [|v0 vr] eqn:Ev; [apply tr_nil|]. apply sw_coding_keys_block_bal. apply Forall_map.
      revert Hv. apply Forall_impl. intros v. apply sw_render_coding_key_bal. }
    assert (F3 : bal c10_lex_sw (flat_map (sw_render_decoding contentk) (swe_variants e))).
    { apply tr_flat_map. revert Hv. apply Forall_impl. intros v. apply sw_render_decoding_bal, G2. }
    assert (F4 : bal c10_lex_sw (flat_map (sw_render_encoding tagk contentk) (swe_variants e))).
    { apply tr_flat_map. revert Hv. apply Forall_impl. intros v. apply sw_render_encoding_bal; assumption. }
    intros st. set (S := flat_map sw_render_struct _) in *. set (C := flat_map sw_render_case _) in *.
    set (D := flat_map (sw_render_decoding contentk) _) in *. set (E := flat_map (sw_render_encoding tagk contentk) _) in *.
    set (DE := join _ (swe_decs e)) in *. set (NM := sw_show_name _ _) in *.
    destruct (swe_indirect e); walk; reflexivity.
  - assert (F1 : bal c10_lex_sw (flat_map sw_render_unit_case (swe_variants e))).
    { apply tr_flat_map. revert Hv. apply Forall_impl. intros v. apply sw_render_unit_case_bal. }
    intros st. set (S := flat_map sw_render_struct _) in *. set (C := flat_map sw_render_unit_case _) in *.
    set (DE := join _ (swe_decs e)) in *. set (NM := sw_show_name _ _) in *.
    destruct (swe_indirect e); walk; reflexivity.
Qed.

Theorem sw_render_decl_bal d : c10_sw_decl_ok d = true -> bal c10_lex_sw (sw_render_decl d).
Proof.
  destruct d as [s | docs name esc gs ty | e | decs]; cbn [c10_sw_decl_ok sw_render_decl].
  - apply sw_render_struct_bal.
  - rewrite !andb_true_iff. intros [[[Hd Hn] Hg] Ht].
    pose proof (sw_comments_bal 0 _ Hd) as H1. pose proof (sw_show_name_bal _ esc Hn) as H2.
    pose proof (tok_bal c10_lex_sw _ (generics_suffix_tok _ Hg)) as H3. pose proof (sw_show_bal _ Ht) as H4.
    intros st. set (NM := sw_show_name _ _) in *. walk. reflexivity.
  - apply sw_render_enum_bal.
  - intros Hd. pose proof (sw_decs_bal _ Hd) as H1.
    assert (H2 : bal c10_lex_sw (sw_render_comments 0 [sw_CODABLE_VOID_DOC])) by (apply balanced_bal; vm_compute; reflexivity).
    intros st. set (D := join _ decs) in *. set (C := sw_render_comments 0 _) in *. walk. reflexivity.
Qed.
