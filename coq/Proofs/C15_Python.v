(* C15 for Python at renderer level: what py_write_item prints for an IR item is code parts and comment
   fragments - docstrings everywhere, except the doc of an algebraic enum, which is printed as `# `
   lines above the final Union alias, AFTER the variant classes - whose doc strings are the item's doc
   strings in Python's print order (helper classes of struct variants first, each under the comment
   typeshare generates for it; a docstring FOLLOWS the line it documents). *)
From Coq Require Import List NArith Bool Lia String Permutation.
From TS Require Import Model.Str Model.Outcome Model.Unicode Model.Types Model.Parse
                       Model.Lang.Common Model.Lang.Decl Model.Lang.Python.
From TS Require Import Spec.Lexers Spec.C15Spec Spec.C15Render Proofs.BackCommon Proofs.C15 Proofs.C15_Render.
Import ListNotations.
Local Open Scope N_scope.

Ltac c15_sites_norm :=
  unfold c15_sites; cbn [app]; rewrite ?app_nil_r, ?map_app, ?c15_map_flat_map; cbn [app map]; rewrite ?app_nil_r; reflexivity.

(* the documented positions of a declaration, in print order, with the form they are printed in *)
Definition py_decl_sites (d : py_decl) : list c15_doc_site :=
  match d with
  | PYAlias docs _ _ _ => c15_sites true docs
  | PYConst _ _ _ => []
  | PYClass docs _ _ _ ms => c15_sites true (docs ++ flat_map pym_docs ms)
  | PYUnitEnum docs _ vs => c15_sites true (docs ++ flat_map (fun v => fst (fst v)) vs)
  | PYAlgebraic docs _ _ _ _ _ vs => c15_sites true (flat_map pyv_docs vs) ++ c15_sites false docs
  end.

Section PYLayout.
Variable P : str -> Prop.
Hypothesis P_all : forall s, P s.
Notation D := (Decomp C15py P).

Lemma py_comments_decomp b ds i : D (py_write_comments b ds i) (c15_sites b ds).
Proof. rewrite <- (proj1 (C15_fragment_py b i ds)). exact (Decomp_frag C15py P b i ds). Qed.

Ltac py_decomp tac :=
  repeat first [ apply py_comments_decomp | tac | apply Decomp_app | apply Decomp_code; apply P_all ].

Lemma py_member_decomp m : D (py_render_member m) (c15_sites true (pym_docs m)).
Proof. unfold py_render_member. cbv zeta. eapply Decomp_eq; [py_decomp ltac:(fail)|]. c15_sites_norm. Qed.

Lemma py_variant_decomp tag content v : D (py_render_variant tag content v) (c15_sites true (pyv_docs v)).
Proof. unfold py_render_variant. cbv zeta. eapply Decomp_eq; [py_decomp ltac:(fail)|]. c15_sites_norm. Qed.

Theorem py_decl_decomp d : D (py_render_decl d) (py_decl_sites d).
Proof.
  destruct d as [docs name gs ty|name ty value|docs name gs config ms|docs name vs|docs name tn entries tag content vs];
    cbn [py_render_decl py_decl_sites].
  - eapply Decomp_eq; [py_decomp ltac:(fail)|]. c15_sites_norm.
  - eapply Decomp_eq; [py_decomp ltac:(fail)|]. c15_sites_norm.
  - eapply Decomp_eq;
      [py_decomp ltac:(apply (Decomp_concat_map C15py P) with (g := fun m => c15_sites true (pym_docs m));
                       intros; apply py_member_decomp)|].
    c15_sites_norm.
  - destruct vs as [|v r].
    + eapply Decomp_eq; [py_decomp ltac:(fail)|]. c15_sites_norm.
    + eapply Decomp_eq;
        [py_decomp ltac:(apply (Decomp_concat_map C15py P) with (g := fun v => c15_sites true (fst (fst v)));
                         intros [[vdocs case] wire] _; cbn [fst]; eapply Decomp_eq)|..].
      all: c15_sites_norm.
  - eapply Decomp_eq;
      [py_decomp ltac:(apply (Decomp_concat_map C15py P) with (g := fun v => c15_sites true (pyv_docs v));
                       intros; apply py_variant_decomp)|].
    c15_sites_norm.
Qed.
End PYLayout.

(* ---- decisions: the declarations keep the IR's doc strings ---- *)
Section PYDocs.
Variable uc : unicode.
Variable cfg : py_config.

Ltac inv_ret H := unfold ret in H; injection H as <- _.

Lemma py_member_docs_ir gs f st m st' : py_member_of uc cfg gs f st = Ok (m, st') -> pym_docs m = fcomments f.
Proof.
  unfold py_member_of. intros H.
  apply mbind_ok in H as (a & s1 & _ & H). apply mbind_ok in H as (b & s2 & _ & H).
  apply mbind_ok in H as (c & s3 & _ & H). inv_ret H. reflexivity.
Qed.

Lemma py_class_sites_ir s st d st' : py_class_of uc cfg s st = Ok (d, st') ->
  py_decl_sites d = c15_sites true (scomments s ++ flat_map fcomments (sfields s)).
Proof.
  unfold py_class_of. intros H.
  apply mbind_ok in H as (a & s1 & _ & H). apply mbind_ok in H as (b & s2 & _ & H).
  apply mbind_ok in H as (c & s3 & _ & H). apply mbind_ok in H as (config & s4 & _ & H).
  apply mbind_ok in H as (ms & s5 & Hm & H). inv_ret H. cbn [py_decl_sites]. do 2 f_equal.
  apply c15_Forall2_flat_map. eapply mmapM_Forall2; [|exact Hm].
  intros f s0 m s0' Hf. exact (py_member_docs_ir _ _ _ _ _ Hf).
Qed.

Lemma py_inner_sites_ir e vs st ds st' : py_inner_classes_of uc cfg e vs st = Ok (ds, st') ->
  flat_map py_decl_sites ds = c15_sites true (flat_map (c15_helper_docs e) vs).
Proof.
  revert st ds st'. induction vs as [|v r IH]; intros st ds st' H.
  - cbn in H. inv_ret H. reflexivity.
  - destruct v as [vsh|t vsh|fs vsh]; cbn [py_inner_classes_of flat_map c15_helper_docs] in *.
    + eapply IH; exact H.
    + eapply IH; exact H.
    + apply mbind_ok in H as (c & s1 & Hc & H). apply mbind_ok in H as (cs & s2 & Hr & H). inv_ret H.
      cbn [flat_map]. rewrite (IH _ _ _ Hr), (py_class_sites_ir _ _ _ _ Hc). unfold c15_sites. rewrite <- map_app. reflexivity.
Qed.

Theorem py_decl_sites_ir it st ds st' : py_decl_of uc cfg it st = Ok (ds, st') ->
  flat_map py_decl_sites ds = c15_py_item_sites it.
Proof.
  destruct it as [s|e|a|c]; cbn [py_decl_of c15_py_item_sites c15_item_docs]; intros H.
  - apply mbind_ok in H as (d & s1 & Hd & H). inv_ret H. cbn [flat_map]. rewrite app_nil_r.
    exact (py_class_sites_ir _ _ _ _ Hd).
  - apply mbind_ok in H as (inners & s1 & Hi & H).
    destruct e as [sh|tag content sh]; cbn [enum_shared] in *.
    + apply mbind_ok in H as (u & s2 & _ & H). apply mbind_ok in H as (vs & s3 & Hv & H). inv_ret H.
      rewrite flat_map_app, (py_inner_sites_ir _ _ _ _ _ Hi). f_equal.
      cbn [flat_map py_decl_sites]. rewrite app_nil_r. do 2 f_equal.
      apply c15_Forall2_flat_map. eapply mmapM_Forall2; [|exact Hv].
      intros v s0 x s0' Hx. destruct v as [vsh|t vsh|fs vsh]; cbn [py_unit_variant_of] in Hx; try discriminate.
      inv_ret Hx. reflexivity.
    + apply mbind_ok in H as (d & s2 & Hd & H). inv_ret H.
      rewrite flat_map_app, (py_inner_sites_ir _ _ _ _ _ Hi). f_equal. cbn [flat_map]. rewrite app_nil_r.
      unfold py_algebraic_of in Hd.
      apply mbind_ok in Hd as (u1 & t1 & _ & Hd). apply mbind_ok in Hd as (u2 & t2 & _ & Hd).
      apply mbind_ok in Hd as (u3 & t3 & _ & Hd). apply mbind_ok in Hd as (vs & t4 & Hv & Hd).
      apply mbind_ok in Hd as (u5 & t5 & _ & Hd). inv_ret Hd. cbn [py_decl_sites]. do 2 f_equal.
      apply c15_Forall2_flat_map. eapply mmapM_Forall2; [|exact Hv].
      intros v s0 x s0' Hx. destruct v as [vsh|t vsh|fs vsh]; cbn [py_variant_of] in Hx.
      * apply mbind_ok in Hx as (w & r1 & _ & Hx). inv_ret Hx. reflexivity.
      * apply mbind_ok in Hx as (w & r1 & _ & Hx). apply mbind_ok in Hx as (w2 & r2 & _ & Hx). inv_ret Hx. reflexivity.
      * apply mbind_ok in Hx as (w & r1 & _ & Hx). inv_ret Hx. reflexivity.
  - apply mbind_ok in H as (ty & s1 & _ & H). apply mbind_ok in H as (utv & stv & _ & H). inv_ret H. cbn. now rewrite app_nil_r.
  - apply mbind_ok in H as (ty & s1 & _ & H). inv_ret H. reflexivity.
Qed.

(* one item through write_struct / write_enum (with write_types_for_anonymous_structs) / write_type_alias /
   write_const, for every printer state (imports, type variables, custom translations collected so far) *)
Theorem py_item_decomp it st text st' : py_write_item uc cfg it st = Ok (text, st') ->
  Decomp C15py (fun _ => True) text (c15_py_item_sites it).
Proof.
  unfold py_write_item. intros H. apply mbind_ok in H as (ds & s1 & Hd & H). inv_ret H.
  rewrite <- (py_decl_sites_ir _ _ _ _ Hd).
  apply Decomp_concat_map. intros d _. apply py_decl_decomp. auto.
Qed.

Theorem C15_py_render_partial it st text st' : py_write_item uc cfg it st = Ok (text, st') ->
  exists parts,
    text = text_of (c15_file_pieces C15py parts) /\
    docs_of (c15_file_pieces C15py parts) = map (c15_site_text C15py) (c15_py_item_sites it) /\
    (Forall (c15_code_neutral C15py) parts ->
     c15_contained C15py LCode (mark (c15_file_pieces C15py parts)) =
     forallb (c15_site_ok C15py) (c15_py_item_sites it)).
Proof. intros H. exact (Decomp_partial _ _ _ (py_item_decomp _ _ _ _ H)). Qed.
End PYDocs.

(* Python's print order is a rearrangement of the IR's doc strings of the item plus the generated comments *)
Theorem c15_py_sites_perm it :
  Permutation (map snd (c15_py_item_sites it)) (c15_item_generated it ++ c15_item_docs it).
Proof.
  etransitivity; [|apply c15_helpers_first_perm].
  destruct it as [s|e|a|c]; cbn [c15_py_item_sites c15_item_docs_helpers_first]; try (rewrite c15_sites_docs; apply Permutation_refl).
  destruct e as [sh|tag content sh]; cbn [enum_shared]; rewrite !map_app, !c15_sites_docs.
  - apply Permutation_refl.
  - apply Permutation_app_head, Permutation_app_comm.
Qed.
