(* C01, layout: the text each printer writes for a member's key binding spells the key literally, as a
   double-quoted literal without escapes (Kotlin @SerialName, Swift CodingKeys raw value, Go json
   tag, pydantic alias, TypeScript quoted property), and a literal reader gets the key back. On the
   key alphabet [A-Za-z0-9_-] nothing needs escaping, whichever of {:?} / raw printing a back end uses. *)
From Coq Require Import List Bool Lia ZifyBool ZifyN.
From TS Require Import Model.Str Model.Outcome Model.Unicode Model.Types Model.Lang.Common Model.Lang.Decl
                       Model.Lang.TypeScript Model.Lang.Kotlin Model.Lang.Swift Model.Lang.Scala Model.Lang.Go Model.Lang.Python.
From TS Require Import Spec.C01Spec.
From TS Require Import Proofs.FrontAttrs Proofs.C01_TS Proofs.C01.
Import ListNotations.
Local Open Scope N_scope.

(* reader of a double-quoted literal at the head of a text: its content (no escape sequences
   accepted: a backslash fails) and the text after the closing quote *)
Fixpoint read_lit_body (s : str) : option (str * str) :=
  match s with
  | [] => None
  | c :: r => if c =? ch_dq then Some ([], r)
              else if c =? ch_bs then None
              else match read_lit_body r with Some (b, rest) => Some (c :: b, rest) | None => None end
  end.
Definition read_lit (s : str) : option (str * str) :=
  match s with c :: r => if c =? ch_dq then read_lit_body r else None | [] => None end.

Lemma key_char_plain_lit c : key_char c = true -> (c =? ch_dq) = false /\ (c =? ch_bs) = false /\ (c =? 44) = false.
Proof. unfold key_char, is_aalpha, is_alower, is_aupper, is_adigit, ch_us, ch_dash, ch_dq, ch_bs. lia. Qed.

Lemma read_lit_body_key k rest : forallb key_char k = true -> read_lit_body (k ++ ch_dq :: rest) = Some (k, rest).
Proof.
  induction k as [|c r IH]; cbn [forallb app read_lit_body]; intros H.
  - now rewrite N.eqb_refl.
  - apply andb_true_iff in H as [Hc Hr]. destruct (key_char_plain_lit c Hc) as (-> & -> & _). now rewrite (IH Hr).
Qed.

(* the literal "k" followed by anything reads back as k *)
Theorem read_lit_key k rest : forallb key_char k = true -> read_lit ([ch_dq] ++ k ++ [ch_dq] ++ rest) = Some (k, rest).
Proof. intros H. cbn [app read_lit]. rewrite N.eqb_refl. exact (read_lit_body_key k rest H). Qed.

(* any text that is, up to re-association of ++, the literal "k" followed by rest *)
Ltac solve_lit H := rewrite <- ?app_assoc; cbn [app read_lit]; rewrite N.eqb_refl; rewrite <- ?app_assoc; cbn [app];
                    apply read_lit_body_key; exact H.

Lemma escape_key k : forallb key_char k = true -> flat_map escape_debug_char k = k.
Proof.
  induction k as [|c r IH]; cbn [flat_map forallb]; [reflexivity|]. intros H. apply andb_true_iff in H as [Hc Hr].
  now rewrite (key_char_plain c Hc), (IH Hr).
Qed.

Lemma c01_key_ok_chars k : c01_key_ok k = true -> forallb key_char k = true.
Proof. destruct k; [discriminate|]. exact (fun H => H). Qed.

(* ---- TypeScript: the property name is the key, in quotes exactly when it has a '-' ---- *)
Theorem ts_property_token k rest : c01_key_ok k = true ->
  if c01_has_dash k then read_lit (typescript_property_aware_rename k ++ rest) = Some (k, rest)
  else typescript_property_aware_rename k = k.
Proof.
  intros H. apply c01_key_ok_chars in H. unfold typescript_property_aware_rename, c01_has_dash.
  destruct (contains_char ch_dash k); [|reflexivity].
  rewrite (debug_str_key k H). solve_lit H.
Qed.

(* ---- Kotlin: the line  @SerialName("k")  in front of the val ---- *)
Definition kt_member_rest (m : kt_member) : str :=
  (match km_visibility m with KtPublic => [ch_tab] ++ lit "val " | KtPrivate => [ch_tab] ++ lit "private val " end) ++
  km_name m ++ lit ": " ++ kt_show (km_type m) ++
  (match km_default m with
   | KtNullableDefault => lit "? = null"
   | KtNullDefault => lit " = null"
   | KtRequired => []
   end).
Theorem kt_serial_name_line m k : km_serial_name m = Some k -> c01_key_ok k = true ->
  kt_render_member m = (kt_write_comments 1 (km_docs m) ++ [ch_tab]) ++ lit "@SerialName(" ++ [ch_dq] ++ k ++ [ch_dq] ++ lit ")" ++ nl ++ kt_member_rest m /\
  read_lit ([ch_dq] ++ k ++ [ch_dq] ++ lit ")" ++ nl ++ kt_member_rest m) = Some (k, lit ")" ++ nl ++ kt_member_rest m).
Proof.
  intros Hs H. apply c01_key_ok_chars in H. unfold kt_render_member, kt_member_rest. rewrite Hs, (debug_str_key k H). split.
  - change (ch_dq :: k ++ [ch_dq]) with ([ch_dq] ++ k ++ [ch_dq]). rewrite <- !app_assoc. reflexivity.
  - solve_lit H.
Qed.
(* without the annotation the val is declared under the key itself (no '-' in it then: C01_back_kotlin) *)

(* ---- Swift: the CodingKeys case  name = "k" ---- *)
Theorem sw_coding_key_case m k : swm_coding_key m = Some k -> c01_key_ok k = true ->
  sw_render_member_coding_key m = sw_member_ident m ++ lit " = " ++ [ch_dq] ++ k ++ [ch_dq] /\
  read_lit ([ch_dq] ++ k ++ [ch_dq]) = Some (k, []).
Proof.
  intros Hs H. apply c01_key_ok_chars in H. unfold sw_render_member_coding_key. rewrite Hs. split.
  - reflexivity.
  - cbn [app read_lit]. rewrite N.eqb_refl. exact (read_lit_body_key k [] H).
Qed.

(* ---- Go: the struct tag  `json:"k"`  or  `json:"k,omitempty"` : the name is the part before ',' ---- *)
Fixpoint before_comma (s : str) : str :=
  match s with [] => [] | c :: r => if c =? 44 then [] else c :: before_comma r end.

Lemma before_comma_key k rest : forallb key_char k = true -> before_comma (k ++ 44 :: rest) = k /\ before_comma k = k.
Proof.
  induction k as [|c r IH]; cbn [forallb app before_comma]; intros H.
  - split; reflexivity.
  - apply andb_true_iff in H as [Hc Hr]. destruct (key_char_plain_lit c Hc) as (_ & _ & ->).
    destruct (IH Hr) as [-> ->]. split; reflexivity.
Qed.

Definition go_member_front (m : go_member) : str :=
  go_write_comments 1 (gm_docs m) ++ [ch_tab] ++ gm_name m ++ lit " " ++ (if gm_star m then lit "*" else []) ++ go_show (gm_type m) ++ lit " ".
Definition go_tag_body (m : go_member) : str := gm_key m ++ (if gm_omitempty m then lit ",omitempty" else []).

Lemma read_lit_body_two a b r : forallb key_char a = true ->
  forallb (fun c => negb (c =? ch_dq) && negb (c =? ch_bs)) b = true ->
  read_lit_body (a ++ b ++ ch_dq :: r) = Some (a ++ b, r).
Proof.
  intros Ha Hb. induction a as [|c a IHa]; cbn [app forallb] in *.
  - induction b as [|c b IHb]; cbn [app forallb read_lit_body] in *; [now rewrite N.eqb_refl|].
    apply andb_true_iff in Hb as [Hc Hb]. apply andb_true_iff in Hc as [Hc1 Hc2].
    apply negb_true_iff in Hc1, Hc2. rewrite Hc1, Hc2, (IHb Hb). reflexivity.
  - apply andb_true_iff in Ha as [Hc Ha]. cbn [read_lit_body]. destruct (key_char_plain_lit c Hc) as (-> & -> & _).
    now rewrite (IHa Ha).
Qed.

Theorem go_json_tag m : c01_key_ok (gm_key m) = true ->
  go_render_member m = go_member_front m ++ lit "`json:" ++ [ch_dq] ++ go_tag_body m ++ [ch_dq] ++ lit "`" ++ go_nl /\
  before_comma (go_tag_body m) = gm_key m /\
  (forall rest, read_lit ([ch_dq] ++ go_tag_body m ++ [ch_dq] ++ rest) = Some (go_tag_body m, rest)).
Proof.
  intros H. apply c01_key_ok_chars in H. unfold go_render_member, go_member_front, go_tag_body. rewrite (escape_key _ H).
  split; [|split].
  - rewrite <- !app_assoc. reflexivity.
  - destruct (gm_omitempty m).
    + exact (proj1 (before_comma_key (gm_key m) (lit "omitempty") H)).
    + rewrite app_nil_r. exact (proj2 (before_comma_key (gm_key m) [] H)).
  - intros rest. cbn [app read_lit]. rewrite N.eqb_refl. rewrite <- app_assoc.
    apply read_lit_body_two; [exact H|]. destruct (gm_omitempty m); vm_compute; reflexivity.
Qed.

(* ---- Python: Field(alias="k") is the first decorator of the field ---- *)
Definition py_member_front (m : py_member) : str :=
  let shown := py_show (pym_type m) in
  lit "    " ++ pym_name m ++ lit ": " ++
  match pym_annotated m with
  | Some (de, ser) => lit "Annotated[" ++ shown ++ lit ", BeforeValidator(" ++ de ++ lit "), PlainSerializer(" ++ ser ++ lit ")]"
  | None => shown
  end ++ lit " = Field(".
Definition py_member_back (m : py_member) : str :=
  (if pym_default_none m then lit ", default=None" else []) ++ lit ")" ++ py_nl ++ py_write_comments true (pym_docs m) 1.

Theorem py_alias_token m k : pym_alias m = Some k -> c01_key_ok k = true ->
  py_render_member m = py_member_front m ++ lit "alias=" ++ [ch_dq] ++ k ++ [ch_dq] ++ py_member_back m /\
  read_lit ([ch_dq] ++ k ++ [ch_dq] ++ py_member_back m) = Some (k, py_member_back m).
Proof.
  intros Hs H. apply c01_key_ok_chars in H. unfold py_render_member, py_member_front, py_member_back. rewrite Hs. split.
  - destruct (pym_default_none m); cbn [app join]; rewrite <- !app_assoc; reflexivity.
  - solve_lit H.
Qed.
