(* C12 in multi-file (folder output, `-d`) mode.  The language value lives as long as the run: the printer
   state is threaded from crate to crate (generate_crates of Model/MultiFile.v).  For every back end:
     * the declaration-level form of the multi-file generator (<l>_multi_decls: the declarations of ONE file
       from ANY initial printer state) and the layout lemma tying it to the text <l>_generate_multi writes;
     * the per-file judgement of Spec/C12Spec.v from any initial state that satisfies the back end's state
       invariant (Python: a type variable never without the TypeVar import, the text `datetime` never in the
       translation set without the datetime import; Go, Swift: none needed);
     * the run: every file generate_crates produces satisfies the judgement, whatever the earlier crates left.
   Kotlin and Scala are stateless: corollaries of the single-file theorems. *)
From Coq Require Import List Bool Permutation String.
From TS Require Import Model.Str Model.Outcome Model.Unicode Model.Types Model.Parse Model.TopsortAlgo Model.Topsort
                       Model.Lang.Common Model.Lang.Decl Model.Lang.Python Model.MultiFile Spec.C12Spec.
From TS Require Model.Writer.
From TS Require Import Proofs.BackCommon Proofs.C12Common Proofs.C12Obs Proofs.C12_Python.
Import ListNotations.
Local Notation length := List.length (only parsing).
Local Notation concat := List.concat (only parsing).
Local Open Scope list_scope.

(* ================================================================== generic: writers that render declarations *)

Lemma cm_mbind_intro {St A B} (m : M St A) (f : A -> M St B) s a s1 : m s = Ok (a, s1) -> mbind m f s = f a s1.
Proof. unfold mbind. intros ->. reflexivity. Qed.

(* an item writer of the form  decls-of then render  yields the rendering of what decls-of yields *)
Lemma cm_mmapM_render {St A D} (g : A -> M St D) (h : D -> str) (l : list A) : forall st ps st',
  mmapM (fun x => mbind (g x) (fun d => ret (h d))) l st = Ok (ps, st') <->
  exists ds, mmapM g l st = Ok (ds, st') /\ ps = map h ds.
Proof.
  induction l as [|x l IH]; intros st ps st'; cbn [mmapM].
  - unfold ret. split.
    + intros [= <- <-]. exists []. split; reflexivity.
    + intros (ds & [= <- <-] & ->). reflexivity.
  - split.
    + intros H. apply mbind_ok in H as (y & s1 & Ey & H). apply mbind_ok in Ey as (d & s0 & Ed & Ey).
      unfold ret in Ey. injection Ey as <- <-. apply mbind_ok in H as (ys & s2 & Eys & H).
      unfold ret in H. injection H as <- <-. apply IH in Eys as (ds & Eds & ->).
      exists (d :: ds). split; [|reflexivity]. unfold mbind. rewrite Ed, Eds. reflexivity.
    + intros (ds & Eds & ->). apply mbind_ok in Eds as (d & s1 & Ed & Eds).
      apply mbind_ok in Eds as (ds1 & s2 & El & Eds). unfold ret in Eds. injection Eds as <- <-.
      assert (El' : mmapM (fun x0 => mbind (g x0) (fun d0 => ret (h d0))) l s1 = Ok (map h ds1, s2)).
      { apply IH. exists ds1. split; [exact El|reflexivity]. }
      assert (Ex : mbind (g x) (fun d0 => ret (h d0)) st = Ok (h d, s1)) by (rewrite (cm_mbind_intro _ _ _ _ _ Ed); reflexivity).
      rewrite (cm_mbind_intro _ _ _ _ _ Ex). rewrite (cm_mbind_intro _ _ _ _ _ El'). reflexivity.
Qed.

Lemma cm_concat_concat {A} (ll : list (list (list A))) : concat (concat ll) = concat (map (@List.concat A) ll).
Proof. induction ll as [|l ll IH]; cbn [List.concat map]; [reflexivity|]. rewrite concat_app, IH. reflexivity. Qed.

(* pieces = per item the concatenated renderings of its declarations: the body is the rendering of all declarations *)
Lemma cm_body_render {D} (r : D -> str) (dss : list (list D)) :
  concat (map (fun ds => concat (map r ds)) dss) = concat (map r (concat dss)).
Proof.
  induction dss as [|ds dss IH]; cbn [List.concat map]; [reflexivity|]. rewrite map_app, concat_app, IH. reflexivity.
Qed.

(* ================================================================== generic: an invariant along generate_crates *)
Section Crates.
Context {St : Type}.
Variable gen : St -> str -> scoped -> parsed -> outcome (str * St).
Variable Inv : St -> Prop.
Variable Dom : out_plan -> Prop.
Hypothesis step : forall p st text st', Inv st -> Dom p ->
  gen st (op_crate p) (op_imports p) (op_data p) = Ok (text, st') -> Inv st'.

(* file number i of the run is what the generator returns on crate number i of the plan from a state that
   satisfies the invariant - provided the crates up to and including number i are in the domain *)
Lemma cm_crates_file : forall plan st files fin i fname text,
  Inv st -> generate_crates gen st plan = (files, fin) ->
  nth_error files i = Some (fname, Writer.Generated text) ->
  Forall Dom (firstn (S i) plan) ->
  exists p st_i st_i', nth_error plan i = Some p /\ fname = op_file p /\ Inv st_i /\ Dom p /\
                       gen st_i (op_crate p) (op_imports p) (op_data p) = Ok (text, st_i').
Proof.
  induction plan as [|p r IH]; intros st files fin i fname text Hinv H Hn Hdom; cbn [generate_crates] in H.
  - injection H as <- <-. destruct i; discriminate Hn.
  - cbn [firstn] in Hdom. apply Forall_cons_iff in Hdom as [Hp Hr].
    destruct (gen st (op_crate p) (op_imports p) (op_data p)) as [[t st1]|e|s] eqn:Eg.
    + destruct (generate_crates gen st1 r) as [rest fin1] eqn:Er. injection H as <- <-.
      destruct i as [|i]; cbn [nth_error] in Hn.
      * injection Hn as <- <-. exists p, st, st1. repeat split; auto.
      * assert (Hinv1 : Inv st1) by (eapply step; eauto).
        destruct (IH st1 rest fin1 i fname text Hinv1 Er Hn Hr) as (q & a & b & Hq & Hf & Ha & Hd & Hg).
        exists q, a, b. cbn [nth_error]. auto.
    + injection H as <- <-. destruct i as [|[|i]]; discriminate Hn.
    + injection H as <- <-. destruct i as [|[|i]]; discriminate Hn.
Qed.

Lemma cm_crates_final : forall plan st files st',
  Inv st -> Forall Dom plan -> generate_crates gen st plan = (files, Ok st') -> Inv st'.
Proof.
  induction plan as [|p r IH]; intros st files st' Hinv Hdom H; cbn [generate_crates] in H.
  - injection H as _ <-. exact Hinv.
  - apply Forall_cons_iff in Hdom as [Hp Hr].
    destruct (gen st (op_crate p) (op_imports p) (op_data p)) as [[t st1]|e|s] eqn:Eg; try (injection H as _ H; discriminate H).
    destruct (generate_crates gen st1 r) as [rest fin1] eqn:Er. injection H as _ ->.
    eapply IH; [|exact Hr|exact Er]. eapply step; eauto.
Qed.

(* a completed run generated every file *)
Lemma cm_crates_all_generated : forall plan st files st',
  generate_crates gen st plan = (files, Ok st') ->
  length files = length plan /\ Forall (fun f => exists text, snd f = Writer.Generated text) files.
Proof.
  induction plan as [|p r IH]; intros st files st' H; cbn [generate_crates] in H.
  - injection H as <- _. split; [reflexivity|constructor].
  - destruct (gen st (op_crate p) (op_imports p) (op_data p)) as [[t st1]|e|s] eqn:Eg; try (injection H as _ H; discriminate H).
    destruct (generate_crates gen st1 r) as [rest fin1] eqn:Er. injection H as <- ->.
    destruct (IH _ _ _ Er) as [HL HF]. split; [cbn [List.length]; now rewrite HL|].
    constructor; [eexists; reflexivity|exact HF].
Qed.
End Crates.

(* ================================================================== Python *)

(* the declarations of ONE file of a multi-file run, from the printer state the earlier crates left *)
Definition py_multi_decls (uc : unicode) (cfg : py_config) (st0 : py_state) (pd : parsed) : outcome (list py_decl * py_state) :=
  do items <- topsort (items_of pd);
  match mmapM (py_decl_of uc cfg) items st0 with
  | Ok (dss, st) => Ok (concat dss, st)
  | Err e => Err e
  | Panic p => Panic p
  end.

(* the observation of Proofs/C12Obs.v (c12_py_observe) for such a file: the header is written from the state
   reached after the body, whatever was in it before *)
Definition c12_py_observe_multi (uc : unicode) (cfg : py_config) (st0 : py_state) (pd : parsed) : outcome (list str * list str) :=
  do r <- py_multi_decls uc cfg st0 pd;
  let st := snd r in
  Ok (c12_py_uses (c12_py_tv_vocab (items_of pd)) (fst r) (py_type_variables st) (c12_py_fns st),
      c12_py_defs (py_type_variables st) (c12_py_fns st) (c12_py_imported st)).

Lemma py_multi_decls_empty uc cfg pd : py_multi_decls uc cfg py_empty_state pd = py_decls uc cfg pd.
Proof. reflexivity. Qed.
Lemma c12_py_observe_multi_empty uc cfg pd : c12_py_observe_multi uc cfg py_empty_state pd = c12_py_observe uc cfg pd.
Proof. reflexivity. Qed.

(* layout: the text of the file is header, import block / TypeVar lines / helper functions of the state REACHED,
   then the rendering of exactly these declarations *)
Theorem py_multi_layout uc cfg (st : py_state) (pd : parsed) text st' :
  py_generate_multi uc cfg st pd = Ok (text, st') <->
  exists ds, py_multi_decls uc cfg st pd = Ok (ds, st') /\
             text = py_begin_file cfg ++ py_write_all_imports st' ++ py_write_custom_translations st' ++
                    concat (map py_render_decl ds).
Proof.
  unfold py_generate_multi, py_multi_decls. destruct (topsort (items_of pd)) as [items| |]; cbn [bind].
  2,3: split; [discriminate|intros (ds & E & _); discriminate E].
  unfold mconcat, py_write_item. split.
  - intros H. destruct (mbind _ _ st) as [[body s1]| |] eqn:Em; try discriminate H. injection H as <- <-.
    apply mbind_ok in Em as (ps & s2 & Eps & Em). unfold ret in Em. injection Em as <- <-.
    apply cm_mmapM_render in Eps as (dss & Edss & ->). rewrite Edss. eexists. split; [reflexivity|].
    rewrite cm_body_render. reflexivity.
  - intros (ds & E & ->). destruct (mmapM (py_decl_of uc cfg) items st) as [[dss s1]| |] eqn:Edss; try discriminate E.
    injection E as <- <-.
    assert (Eps : mmapM (fun x => mbind (py_decl_of uc cfg x) (fun d => ret (concat (map py_render_decl d)))) items st =
                  Ok (map (fun d => concat (map py_render_decl d)) dss, s1)).
    { apply cm_mmapM_render. eauto. }
    rewrite (cm_mbind_intro _ _ _ _ _ Eps). unfold ret. rewrite cm_body_render. reflexivity.
Qed.

(* the state invariant: what every state reachable from the empty one satisfies and what makes the header
   self-contained - the `T = TypeVar("T")` lines need TypeVar, the datetime helper functions need datetime *)
Definition c12_py_state_ok (st : py_state) : bool :=
  match py_type_variables st with [] => true | _ => mem_str (lit "TypeVar") (c12_py_imported st) end &&
  (negb (mem_str (lit "datetime") (py_custom_types st)) || mem_str (lit "datetime") (c12_py_imported st)).

Lemma c12_py_state_ok_spec st :
  c12_py_state_ok st = true <->
  (py_type_variables st <> [] -> In (lit "TypeVar") (c12_py_imported st)) /\
  (In (lit "datetime") (py_custom_types st) -> In (lit "datetime") (c12_py_imported st)).
Proof.
  unfold c12_py_state_ok. rewrite andb_true_iff, orb_true_iff, negb_true_iff, c12_mem_str_false, !c12_mem_str_In.
  split.
  - intros [A B]. split.
    + intros Hne. destruct (py_type_variables st); [congruence|]. apply c12_mem_str_In. exact A.
    + intros Hd. destruct B as [B|B]; [contradiction|exact B].
  - intros [A B]. split.
    + destruct (py_type_variables st); [reflexivity|]. apply c12_mem_str_In. apply A. discriminate.
    + destruct (mem_str (lit "datetime") (py_custom_types st)) eqn:E.
      * right. apply B. apply c12_mem_str_In. exact E.
      * left. apply c12_mem_str_false. exact E.
Qed.

Lemma c12_py_empty_state_ok : c12_py_state_ok py_empty_state = true.
Proof. reflexivity. Qed.

(* the body of one file from any state: the preorder, the uses, the input-side facts *)
Lemma c12_py_multi_body uc cfg st0 pd ds st :
  py_multi_decls uc cfg st0 pd = Ok (ds, st) -> c12_py_dom cfg (items_of pd) = true ->
  c12_ple cfg st0 st /\
  (forall u, In u (flat_map (c12_py_decl_uses (c12_py_tv_vocab (items_of pd))) ds) ->
     c12_py_ok (c12_py_tv_vocab (items_of pd)) u st) /\
  (forall it, In it (items_of pd) -> c12_py_Ri cfg it st).
Proof.
  unfold py_multi_decls. intros H Hdom. apply c12_bind_ok in H as (items & Et & H).
  apply c12_topsort_perm in Et.
  destruct (mmapM (py_decl_of uc cfg) items st0) as [[dss st']| |] eqn:E; try discriminate H.
  injection H as <- <-.
  pose proof (c12_py_items_ok cfg pd items Et Hdom) as Hok.
  destruct (c12_py_items_flag uc cfg (c12_py_tv_vocab (items_of pd)) _ Hok _ _ _ E) as (L & Q & R).
  split; [exact L|]. split; [exact Q|].
  rewrite Forall_forall in R. intros it Hit. apply R. eapply Permutation_in; [apply Permutation_sym; exact Et|exact Hit].
Qed.

(* the invariant survives every file of a crate in the domain (no class hypothesis) *)
Lemma c12_py_state_ok_step uc cfg st0 pd ds st :
  c12_py_state_ok st0 = true -> py_multi_decls uc cfg st0 pd = Ok (ds, st) -> c12_py_dom cfg (items_of pd) = true ->
  c12_py_state_ok st = true.
Proof.
  intros Hinv H Hdom. destruct (c12_py_multi_body _ _ _ _ _ _ H Hdom) as (L & _ & _).
  pose proof (c12_py_dom_no_dt _ _ Hdom) as Hnodt.
  apply c12_py_state_ok_spec in Hinv as [I1 I2]. apply c12_py_state_ok_spec.
  destruct L as (L1 & L2 & L3 & L4 & L5). split.
  - intros Hne. destruct (py_type_variables st) as [|g gs] eqn:Eg; [congruence|].
    destruct (L4 g) as [K|K]; [now left| |exact K].
    apply L1. apply I1. intros E0. rewrite E0 in K. destruct K.
  - intros Hd. destruct (L5 Hd) as [K|[K|K]]; [apply L1, I2, K|exact K|contradiction].
Qed.

(* ONE FILE, from any state satisfying the invariant: the judgement of c12_python *)
Theorem c12_py_file_from uc cfg st0 pd ds st :
  c12_py_state_ok st0 = true ->
  py_multi_decls uc cfg st0 pd = Ok (ds, st) -> c12_py_dom cfg (items_of pd) = true ->
  forall u, In u (c12_py_uses (c12_py_tv_vocab (items_of pd)) ds (py_type_variables st) (c12_py_fns st)) ->
    In u (c12_py_defs (py_type_variables st) (c12_py_fns st) (c12_py_imported st)).
Proof.
  intros Hinv H Hdom u Hu.
  pose proof (c12_py_state_ok_step _ _ _ _ _ _ Hinv H Hdom) as Hinv'.
  apply c12_py_state_ok_spec in Hinv' as [J1 J2].
  destruct (c12_py_multi_body _ _ _ _ _ _ H Hdom) as (L & Q & Rin).
  (* (a) every generic parameter name of the crate has its TypeVar *)
  assert (Ha : forall g, In g (c12_py_tv_vocab (items_of pd)) -> In g (py_type_variables st)).
  { intros g Hg. apply c12_py_tv_vocab_in in Hg as (it & Hit & Hg).
    destruct (Rin it Hit) as (_ & _ & T). exact (T g Hg). }
  (* (b) the functions an Annotated field names are written: their type is in the translation set (c12_py_fnok) *)
  unfold c12_py_uses in Hu. unfold c12_py_defs. rewrite !in_app_iff. apply in_app_iff in Hu as [Hu|Hu].
  - (* (c) the header's own uses: by the invariant at the state reached *)
    unfold c12_py_header_uses in Hu. apply in_app_iff in Hu as [Hu|Hu].
    + destruct (py_type_variables st) as [|g gs] eqn:Eg; [destruct Hu|]. destruct Hu as [<-|[]].
      right. right. apply J1. discriminate.
    + destruct (mem_str (lit "parse_rfc3339") (c12_py_fns st)) eqn:Em; [|destruct Hu]. destruct Hu as [<-|[]].
      apply c12_mem_str_In, c12_py_rfc_dt in Em. right. right. exact (J2 Em).
  - destruct (Q u Hu) as [A|[A|[A|A]]]; auto.
    destruct A as (p & ct & Ect & Hname & Hp).
    right. left. eapply c12_py_fns_in; eauto.
Qed.

(* the same on the observation *)
Theorem c12_python_multi_file uc cfg st0 pd uses defs :
  c12_py_state_ok st0 = true ->
  c12_py_observe_multi uc cfg st0 pd = Ok (uses, defs) -> c12_py_dom cfg (items_of pd) = true ->
  c12_good uses defs = true.
Proof.
  unfold c12_py_observe_multi. intros Hinv H Hdom. apply c12_bind_ok in H as ([ds st] & E & H).
  injection H as <- <-. cbn [fst snd]. apply c12_good_spec. exact (c12_py_file_from uc cfg st0 pd ds st Hinv E Hdom).
Qed.

(* THE RUN.  The generator in the shape generate_crates takes. *)
Definition py_multi_gen (uc : unicode) (cfg : py_config) (st : py_state) (_ : str) (_ : scoped) (pd : parsed) :=
  py_generate_multi uc cfg st pd.
Definition py_plan_dom (cfg : py_config) (p : out_plan) : Prop := c12_py_dom cfg (items_of (op_data p)) = true.

Lemma c12_py_gen_step uc cfg p st text st' :
  c12_py_state_ok st = true -> py_plan_dom cfg p ->
  py_multi_gen uc cfg st (op_crate p) (op_imports p) (op_data p) = Ok (text, st') -> c12_py_state_ok st' = true.
Proof.
  unfold py_multi_gen, py_plan_dom. intros Hinv Hdom H. apply py_multi_layout in H as (ds & E & _).
  eapply c12_py_state_ok_step; eauto.
Qed.

Theorem c12_multi_python uc cfg st0 plan files fin :
  c12_py_state_ok st0 = true ->
  generate_crates (py_multi_gen uc cfg) st0 plan = (files, fin) ->
  (forall i fname text,
     nth_error files i = Some (fname, Writer.Generated text) ->
     Forall (py_plan_dom cfg) (firstn (S i) plan) ->
     exists p st_i st_i' ds uses defs,
       nth_error plan i = Some p /\ fname = op_file p /\ c12_py_state_ok st_i = true /\
       py_generate_multi uc cfg st_i (op_data p) = Ok (text, st_i') /\
       py_multi_decls uc cfg st_i (op_data p) = Ok (ds, st_i') /\
       text = py_begin_file cfg ++ py_write_all_imports st_i' ++ py_write_custom_translations st_i' ++
              concat (map py_render_decl ds) /\
       c12_py_observe_multi uc cfg st_i (op_data p) = Ok (uses, defs) /\
       c12_good uses defs = true) /\
  (forall st', fin = Ok st' -> Forall (py_plan_dom cfg) plan -> c12_py_state_ok st' = true).
Proof.
  intros Hinv H. split.
  - intros i fname text Hn Hdom.
    destruct (cm_crates_file (py_multi_gen uc cfg) (fun st => c12_py_state_ok st = true) (py_plan_dom cfg)
                (c12_py_gen_step uc cfg) plan st0 files fin i fname text Hinv H Hn Hdom)
      as (p & st_i & st_i' & Hp & Hf & Hi & Hd & Hg).
    unfold py_multi_gen in Hg. pose proof Hg as Hg'. apply py_multi_layout in Hg' as (ds & Eds & Etext).
    exists p, st_i, st_i', ds. eexists. eexists.
    split; [exact Hp|]. split; [exact Hf|]. split; [exact Hi|]. split; [exact Hg|]. split; [exact Eds|].
    split; [exact Etext|]. split.
    + unfold c12_py_observe_multi. rewrite Eds. cbn [bind fst snd]. reflexivity.
    + apply c12_good_spec. exact (c12_py_file_from uc cfg st_i (op_data p) ds st_i' Hi Eds Hd).
  - intros st' -> Hdom.
    exact (cm_crates_final (py_multi_gen uc cfg) (fun st => c12_py_state_ok st = true) (py_plan_dom cfg)
             (c12_py_gen_step uc cfg) plan st0 files st' Hinv Hdom H).
Qed.
