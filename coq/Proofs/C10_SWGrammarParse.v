(* C10, grammar half for Swift, part 2: the PARSER of Spec/C10SwGrammar.v is complete for a declarative token-level grammar:
     - [WGr]: type-identifier / type / generic-argument lists of the header comment of Spec/C10SwGrammar.v as an inductive family
       over token lists; [wgr_complete]: [c10_sw_t] consumes exactly the tokens of a derivation, whatever follows (provided the
       follower is not one the greedy loops would eat: [<], [.], [?]), with the fuel it is given;
     - inheritance lists / protocol compositions, generic-parameter clauses, parameter clauses, balanced code blocks ([blk], [Neu]);
     - [DeclOk] / [MemberOk] / [Body]: declarations, members (declarations and case clauses) and bodies; [body_ok], [decls_ok]. *)
From Coq Require Import List Bool Lia ZifyBool ZifyN NArith String.
From TS Require Import Model.Str Spec.C10TsGrammar Spec.C10SwGrammar.
Import ListNotations.
Local Open Scope N_scope.
Local Notation length := List.length (only parsing).

(* ------------------------------------------------------------------ the grammar of types *)
Inductive wsort := STyId | SPre | STy | SArgs.

Fixpoint quests (k : nat) : list c10_wtok := match k with O => [] | S k => WP 63 :: quests k end.

Inductive WGr : wsort -> list c10_wtok -> Prop :=
| W_id t : c10_sw_is_tyname t = true -> WGr STyId [t]
| W_id_app t args : c10_sw_is_tyname t = true -> WGr SArgs args -> WGr STyId (t :: WP 60 :: args ++ [WP 62])
| W_id_dot t r : c10_sw_is_tyname t = true -> WGr STyId r -> WGr STyId (t :: WP 46 :: r)
| W_id_app_dot t args r : c10_sw_is_tyname t = true -> WGr SArgs args -> WGr STyId r ->
    WGr STyId (t :: WP 60 :: args ++ WP 62 :: WP 46 :: r)
| W_arr e : WGr STy e -> WGr SPre (WP 91 :: e ++ [WP 93])
| W_dict k v : WGr STy k -> WGr STy v -> WGr SPre (WP 91 :: k ++ WP 58 :: v ++ [WP 93])
| W_unit : WGr SPre [WP 40; WP 41]
| W_tuple args : WGr SArgs args -> WGr SPre (WP 40 :: args ++ [WP 41])
| W_pre_id i : WGr STyId i -> WGr SPre i
| W_ty p k : WGr SPre p -> WGr STy (p ++ quests k)
| W_args1 t : WGr STy t -> WGr SArgs t
| W_args t l : WGr STy t -> WGr SArgs l -> WGr SArgs (t ++ WP 44 :: l).

(* first tokens *)
Definition tyhead (ts : list c10_wtok) : Prop :=
  match ts with
  | t :: _ => c10_sw_is_tyname t = true \/ t = WP 91 \/ t = WP 40
  | [] => False
  end.
Lemma tyhead_app a b : tyhead a -> tyhead (a ++ b).
Proof. destruct a; [intros []|]. intros H. exact H. Qed.

Lemma wgr_head s ts : WGr s ts -> tyhead ts.
Proof.
  induction 1; cbn [tyhead app]; auto; try (apply tyhead_app; assumption).
Qed.

Lemma tyname_not_p t c : c10_sw_is_tyname t = true -> c10_sw_is_p c t = false.
Proof. destruct t; try discriminate; reflexivity. Qed.
Lemma tyname_not_kw_res t w : c10_sw_is_tyname t = true -> c10_sw_res (lit w) = true -> lit w <> lit "Any" -> lit w <> lit "Self" -> c10_sw_is_kw w t = false.
Proof.
  destruct t as [s| | | | |]; try reflexivity. cbn [c10_sw_is_tyname c10_sw_is_kw]. intros H Hr H1 H2.
  destruct (str_eqb s (lit w)) eqn:E; [|reflexivity]. apply str_eqb_eq in E. subst s. rewrite Hr in H. cbn [negb orb] in H.
  apply orb_true_iff in H as [H|H]; apply str_eqb_eq in H; congruence.
Qed.

(* followers the greedy loops of a type do not eat *)
Definition fol (rest : list c10_wtok) : Prop :=
  match rest with t :: _ => c10_sw_is_p 60 t = false /\ c10_sw_is_p 46 t = false /\ c10_sw_is_p 63 t = false | [] => True end.
Definition folid (rest : list c10_wtok) : Prop :=
  match rest with t :: _ => c10_sw_is_p 60 t = false /\ c10_sw_is_p 46 t = false | [] => True end.
Lemma fol_folid rest : fol rest -> folid rest.
Proof. destruct rest; [trivial|]. cbn. tauto. Qed.
Lemma fol_kp c rest : c <> 60 -> c <> 46 -> c <> 63 -> fol (WP c :: rest).
Proof. intros. cbn [fol c10_sw_is_p]. lia. Qed.
Lemma folid_kp c rest : c <> 60 -> c <> 46 -> folid (WP c :: rest).
Proof. intros. cbn [folid c10_sw_is_p]. lia. Qed.
Lemma fol_nl rest : fol (WNl :: rest).
Proof. cbn. auto. Qed.

Lemma suffix_quests k : forall rest f, c10_sw_is_p 63 (hd WNl rest) = false -> (k + 1 <= f)%nat ->
  c10_sw_t f WTySuffix (quests k ++ rest) = Some rest.
Proof.
  induction k as [|k IH]; intros rest f Hr Hf; (destruct f as [|f]; [lia|]).
  - cbn [quests app c10_sw_t]. destruct rest as [|t r]; [reflexivity|]. cbn [hd] in Hr. rewrite Hr. reflexivity.
  - cbn [quests app c10_sw_t c10_sw_is_p]. change (63 =? 63) with true. cbv beta iota. apply IH; [exact Hr|lia].
Qed.
Lemma fol_hd rest : fol rest -> c10_sw_is_p 63 (hd WNl rest) = false.
Proof. destruct rest; [reflexivity|]. cbn. tauto. Qed.
Lemma folid_quests k rest : fol rest -> folid (quests k ++ rest).
Proof. destruct k; [apply fol_folid|]. intros _. cbn [quests app]. apply folid_kp; lia. Qed.
Lemma quests_len k : List.length (quests k) = k.
Proof. induction k; cbn [quests List.length]; lia. Qed.

Definition Complete (s : wsort) (ts : list c10_wtok) : Prop :=
  match s with
  | STyId => forall rest f, folid rest -> (2 * List.length ts + 1 <= f)%nat -> c10_sw_t f WTyId (ts ++ rest) = Some rest
  | SPre => forall k rest f, fol rest -> (2 * List.length ts + k + 2 <= f)%nat -> c10_sw_t f WTy (ts ++ quests k ++ rest) = Some rest
  | STy => forall rest f, fol rest -> (2 * List.length ts + 2 <= f)%nat -> c10_sw_t f WTy (ts ++ rest) = Some rest
  | SArgs => forall closer rest f, closer = 62 \/ closer = 41 -> (2 * List.length ts + 2 <= f)%nat ->
               match c10_sw_t f WTy (ts ++ WP closer :: rest) with
               | Some r3 => c10_sw_t f (WTyArgs closer) r3
               | None => None
               end = Some rest
  end.

Lemma tyhead_not_close t r c : tyhead (t :: r) -> c = 93 \/ c = 41 -> c10_sw_is_p c t = false.
Proof.
  cbn [tyhead]. intros [H|[H|H]] Hc; [apply tyname_not_p, H|subst t; cbn [c10_sw_is_p]; lia|subst t; cbn [c10_sw_is_p]; lia].
Qed.

Theorem wgr_complete s ts : WGr s ts -> Complete s ts.
Proof.
  induction 1 as [t Ht | t args Ht Ha IHa | t r Ht Hr IHr | t args r Ht Ha IHa Hr IHr | e He IHe | k v Hk IHk Hv IHv | | args Ha IHa
                  | i Hi IHi | p k Hp IHp | t Ht IHt | t l Ht IHt Hl IHl]; cbn [Complete] in *.
  - (* name *) intros rest f Hr Hf. destruct f as [|f]; [lia|]. cbn [app c10_sw_t]. rewrite Ht.
    destruct rest as [|t2 r2]; [reflexivity|]. destruct Hr as [H1 H2]. rewrite H1, H2. reflexivity.
  - (* name<args> *) intros rest f Hr Hf. destruct f as [|f]; [lia|]. cbn [List.length] in Hf. rewrite app_length in Hf. cbn [List.length] in Hf.
    cbn [app c10_sw_t]. rewrite Ht. cbn [c10_sw_is_p]. change (60 =? 60) with true. cbv beta iota.
    rewrite <- app_assoc. cbn [app]. rewrite (IHa 62 rest f (or_introl eq_refl) ltac:(lia)).
    destruct rest as [|t2 r2]; [reflexivity|]. destruct Hr as [_ H2]. rewrite H2. reflexivity.
  - (* name.rest *) intros rest f Hf0 Hf. destruct f as [|f]; [lia|]. cbn [List.length] in Hf.
    cbn [app c10_sw_t]. rewrite Ht. cbn [c10_sw_is_p]. change (46 =? 60) with false. change (46 =? 46) with true. cbv beta iota.
    apply IHr; [exact Hf0|lia].
  - (* name<args>.rest *) intros rest f Hf0 Hf. destruct f as [|f]; [lia|]. cbn [List.length] in Hf. rewrite app_length in Hf. cbn [List.length] in Hf.
    cbn [app c10_sw_t]. rewrite Ht. cbn [c10_sw_is_p]. change (60 =? 60) with true. cbv beta iota.
    rewrite <- app_assoc. cbn [app]. rewrite (IHa 62 (WP 46 :: r ++ rest) f (or_introl eq_refl) ltac:(lia)).
    cbn [c10_sw_is_p]. change (46 =? 46) with true. cbv beta iota. apply IHr; [exact Hf0|lia].
  - (* [e] *) intros k rest f Hr Hf. destruct f as [|f]; [lia|]. cbn [List.length] in Hf. rewrite app_length in Hf. cbn [List.length] in Hf.
    cbn [app c10_sw_t c10_sw_is_p]. change (91 =? 91) with true. cbv beta iota. rewrite <- app_assoc. cbn [app].
    rewrite (IHe (WP 93 :: quests k ++ rest) f ltac:(apply fol_kp; lia) ltac:(lia)). cbn [c10_sw_is_p]. change (93 =? 93) with true. cbv beta iota.
    apply suffix_quests; [apply fol_hd, Hr|lia].
  - (* [k : v] *) intros q rest f Hr Hf. destruct f as [|f]; [lia|]. cbn [List.length] in Hf. rewrite !app_length in Hf. cbn [List.length] in Hf. rewrite app_length in Hf. cbn [List.length] in Hf.
    cbn [app c10_sw_t c10_sw_is_p]. change (91 =? 91) with true. cbv beta iota. rewrite <- !app_assoc. cbn [app]. rewrite <- !app_assoc. cbn [app].
    rewrite (IHk (WP 58 :: v ++ WP 93 :: quests q ++ rest) f ltac:(apply fol_kp; lia) ltac:(lia)). cbn [c10_sw_is_p]. change (58 =? 93) with false. change (58 =? 58) with true. cbv beta iota.
    rewrite (IHv (WP 93 :: quests q ++ rest) f ltac:(apply fol_kp; lia) ltac:(lia)). cbn [c10_sw_eat c10_sw_is_p]. change (93 =? 93) with true. cbv beta iota.
    apply suffix_quests; [apply fol_hd, Hr|lia].
  - (* () *) intros k rest f Hr Hf. destruct f as [|f]; [lia|]. cbn [List.length] in Hf.
    cbn [app c10_sw_t c10_sw_is_p]. change (40 =? 91) with false. change (40 =? 40) with true. change (41 =? 41) with true. cbv beta iota.
    apply suffix_quests; [apply fol_hd, Hr|lia].
  - (* (args) *) intros k rest f Hr Hf. destruct f as [|f]; [lia|]. cbn [List.length] in Hf. rewrite app_length in Hf. cbn [List.length] in Hf.
    pose proof (wgr_head _ _ Ha) as Hh. destruct args as [|a0 ar]; [destruct Hh|].
    cbn [app c10_sw_t c10_sw_is_p]. change (40 =? 91) with false. change (40 =? 40) with true. cbv beta iota.
    rewrite (tyhead_not_close _ _ 41 Hh (or_intror eq_refl)).
    change (a0 :: (ar ++ [WP 41]) ++ quests k ++ rest) with (((a0 :: ar) ++ [WP 41]) ++ quests k ++ rest). rewrite <- app_assoc. cbn [app].
    change (a0 :: ar ++ WP 41 :: quests k ++ rest) with ((a0 :: ar) ++ WP 41 :: quests k ++ rest).
    specialize (IHa 41 (quests k ++ rest) f (or_intror eq_refl) ltac:(cbn [List.length] in *; lia)).
    destruct (c10_sw_t f WTy ((a0 :: ar) ++ WP 41 :: quests k ++ rest)) as [r3|]; [|discriminate]. rewrite IHa.
    apply suffix_quests; [apply fol_hd, Hr|lia].
  - (* type-identifier *) intros k rest f Hr Hf. destruct f as [|f]; [lia|].
    pose proof (wgr_head _ _ Hi) as Hh. destruct i as [|t0 i0]; [destruct Hh|].
    assert (Ht0 : c10_sw_is_tyname t0 = true).
    { inversion Hi; subst; assumption. }
    cbn [app c10_sw_t]. rewrite (tyname_not_p t0 91 Ht0), (tyname_not_p t0 40 Ht0).
    change (t0 :: i0 ++ quests k ++ rest) with ((t0 :: i0) ++ quests k ++ rest).
    rewrite (IHi (quests k ++ rest) f (folid_quests k rest Hr) ltac:(lia)). apply suffix_quests; [apply fol_hd, Hr|lia].
  - (* suffixes *) intros rest f Hr Hf. rewrite app_length, quests_len in Hf. rewrite <- app_assoc. apply IHp; [exact Hr|lia].
  - (* one argument *) intros closer rest f Hc Hf. rewrite IHt; [|apply fol_kp; lia|exact Hf].
    destruct f as [|f]; [lia|]. cbn [c10_sw_t c10_sw_is_p]. rewrite N.eqb_refl. reflexivity.
  - (* more arguments *) intros closer rest f Hc Hf. rewrite app_length in Hf. cbn [List.length] in Hf. rewrite <- app_assoc. cbn [app].
    rewrite IHt; [|apply fol_kp; lia|lia]. destruct f as [|f]; [lia|]. cbn [c10_sw_t c10_sw_is_p].
    replace (44 =? closer) with false by lia. change (44 =? 44) with true. cbv beta iota. apply IHl; [exact Hc|lia].
Qed.

(* the entry points *)
Lemma sw_type_ok t rest : WGr STy t -> fol rest -> c10_sw_type (t ++ rest) = Some rest.
Proof. intros H Hr. unfold c10_sw_type. apply (wgr_complete _ _ H rest); [exact Hr|]. rewrite app_length. lia. Qed.
Lemma sw_tyid_ok t rest : WGr STyId t -> folid rest -> c10_sw_tyid (t ++ rest) = Some rest.
Proof. intros H Hr. unfold c10_sw_tyid. apply (wgr_complete _ _ H rest); [exact Hr|]. rewrite app_length. lia. Qed.

Lemma wgr_id_ty i : WGr STyId i -> WGr STy i.
Proof. intros H. rewrite <- (app_nil_r i). exact (W_ty i 0 (W_pre_id i H)). Qed.
Lemma wgr_pre_ty p : WGr SPre p -> WGr STy p.
Proof. intros H. rewrite <- (app_nil_r p). exact (W_ty p 0 H). Qed.
Lemma wgr_ty_quest_gen s t : WGr s t -> s = STy -> WGr STy (t ++ [WP 63]).
Proof.
  destruct 1; intros E; try discriminate. rewrite <- app_assoc.
  replace (quests k ++ [WP 63]) with (quests (S k)); [apply W_ty; assumption|].
  clear. induction k as [|k IH]; [reflexivity|]. cbn [quests app] in *. rewrite <- IH. reflexivity.
Qed.
Lemma wgr_ty_quest t : WGr STy t -> WGr STy (t ++ [WP 63]).
Proof. intros H. exact (wgr_ty_quest_gen _ _ H eq_refl). Qed.

(* ------------------------------------------------------------------ separated lists of type-identifiers *)
Fixpoint sep_toks (sep : char) (ids : list (list c10_wtok)) : list c10_wtok :=
  match ids with
  | [] => []
  | [i] => i
  | i :: r => i ++ WP sep :: sep_toks sep r
  end.

Lemma sep_toks_len sep ids : (List.length ids <= S (List.length (sep_toks sep ids)))%nat.
Proof. induction ids as [|i [|i2 r] IH]; cbn [sep_toks List.length] in *; try lia. rewrite app_length. cbn [List.length]. lia. Qed.

Lemma tyids_ok sep ids : sep <> 60 -> sep <> 46 -> Forall (WGr STyId) ids -> ids <> [] ->
  forall rest f, folid rest -> c10_sw_is_p sep (hd WNl rest) = false -> (List.length ids <= f)%nat ->
  c10_sw_tyids sep f (sep_toks sep ids ++ rest) = Some rest.
Proof.
  intros Hs1 Hs2 H. induction H as [|i r Hi Hr IH]; [congruence|]. intros _ rest f Hf0 Hsep Hf.
  destruct f as [|f]; [cbn in Hf; lia|]. destruct r as [|i2 r].
  - cbn [sep_toks c10_sw_tyids]. rewrite (sw_tyid_ok i rest Hi Hf0). destruct rest as [|t r]; [reflexivity|]. cbn [hd] in Hsep. rewrite Hsep. reflexivity.
  - change (sep_toks sep (i :: i2 :: r)) with (i ++ WP sep :: sep_toks sep (i2 :: r)). rewrite <- app_assoc. cbn [app c10_sw_tyids].
    rewrite (sw_tyid_ok i _ Hi) by (apply folid_kp; assumption). cbn [c10_sw_is_p]. rewrite N.eqb_refl.
    apply IH; [discriminate|exact Hf0|exact Hsep|cbn [List.length] in *; lia].
Qed.

(* ------------------------------------------------------------------ generic-parameter clauses *)
(* a generic parameter: its name and the type-identifiers of its constraint *)
Definition gparam := (c10_wtok * list (list c10_wtok))%type.
Definition gparam_ok (g : gparam) : Prop := c10_sw_is_name (fst g) = true /\ Forall (WGr STyId) (snd g).
Definition gparam_toks (g : gparam) : list c10_wtok :=
  fst g :: match snd g with [] => [] | cs => WP 58 :: sep_toks 38 cs end.
Fixpoint gparams_body (gs : list gparam) : list c10_wtok :=
  match gs with
  | [] => []
  | [g] => gparam_toks g ++ [WP 62]
  | g :: r => gparam_toks g ++ WP 44 :: gparams_body r
  end.
Definition gparams_toks (gs : list gparam) : list c10_wtok := match gs with [] => [] | _ => WP 60 :: gparams_body gs end.

Definition gp_step (f : nat) (ts : list c10_wtok) : option (list c10_wtok) :=
  match c10_sw_eat_name ts with
  | Some (t :: r) =>
    let after := if c10_sw_is_p 58 t then c10_sw_tyids 38 (S (List.length r)) r else Some (t :: r) in
    match after with
    | Some (t2 :: r2) => if c10_sw_is_p 62 t2 then Some r2 else if c10_sw_is_p 44 t2 then c10_sw_gparams f r2 else None
    | _ => None
    end
  | _ => None
  end.
Lemma gparams_unfold f ts : c10_sw_gparams (S f) ts = gp_step f ts.
Proof. reflexivity. Qed.

Lemma gparam_step g c tail f : gparam_ok g -> c = 62 \/ c = 44 ->
  gp_step f (gparam_toks g ++ WP c :: tail) = if c =? 62 then Some tail else c10_sw_gparams f tail.
Proof.
  intros [Hn Hc] Hcc. destruct g as [n cs]. cbn [fst snd] in *. unfold gp_step, gparam_toks. cbn [fst snd app c10_sw_eat_name]. rewrite Hn.
  destruct cs as [|c0 cr].
  - cbn [app c10_sw_is_p]. replace (c =? 58) with false by lia. cbv zeta. cbn [c10_sw_is_p]. destruct Hcc as [-> | ->]; reflexivity.
  - set (cs := c0 :: cr) in *. cbn [app c10_sw_is_p]. change (58 =? 58) with true. cbv beta iota zeta.
    rewrite (tyids_ok 38 cs ltac:(lia) ltac:(lia) Hc ltac:(discriminate) (WP c :: tail)).
    + cbn [c10_sw_is_p]. destruct Hcc as [-> | ->]; reflexivity.
    + apply folid_kp; lia.
    + cbn [hd c10_sw_is_p]. lia.
    + rewrite app_length. pose proof (sep_toks_len 38 cs). cbn [List.length]. lia.
Qed.

Lemma gparams_ok gs : Forall gparam_ok gs -> gs <> [] -> forall rest f, (List.length gs <= f)%nat ->
  c10_sw_gparams f (gparams_body gs ++ rest) = Some rest.
Proof.
  intros H. induction H as [|g r Hg Hr IH]; [congruence|]. intros _ rest f Hf. destruct f as [|f]; [cbn in Hf; lia|].
  destruct r as [|g2 r].
  - cbn [gparams_body]. rewrite <- app_assoc. cbn [app]. rewrite gparams_unfold, (gparam_step g 62 rest f Hg (or_introl eq_refl)). reflexivity.
  - change (gparams_body (g :: g2 :: r)) with (gparam_toks g ++ WP 44 :: gparams_body (g2 :: r)). rewrite <- app_assoc. cbn [app].
    rewrite gparams_unfold, (gparam_step g 44 _ f Hg (or_intror eq_refl)). change (44 =? 62) with false. cbv beta iota.
    apply IH; [discriminate|cbn [List.length] in *; lia].
Qed.

Lemma gparams_body_len gs : (List.length gs <= List.length (gparams_body gs))%nat.
Proof.
  induction gs as [|g r IH]; [cbn; lia|]. destruct r as [|g2 r].
  - cbn [gparams_body]. rewrite app_length. unfold gparam_toks. cbn [List.length]. lia.
  - change (gparams_body (g :: g2 :: r)) with (gparam_toks g ++ WP 44 :: gparams_body (g2 :: r)). rewrite app_length. unfold gparam_toks.
    cbn [List.length] in *. lia.
Qed.

Lemma opt_gparams_ok gs t rest : Forall gparam_ok gs -> c10_sw_is_p 60 t = false ->
  c10_sw_opt_gparams (gparams_toks gs ++ t :: rest) = Some (t :: rest).
Proof.
  intros H Ht. destruct gs as [|g r].
  - cbn [gparams_toks app c10_sw_opt_gparams]. rewrite Ht. reflexivity.
  - cbn [gparams_toks app c10_sw_opt_gparams c10_sw_is_p]. change (60 =? 60) with true. cbv beta iota.
    apply gparams_ok; [exact H|discriminate|]. rewrite app_length. pose proof (gparams_body_len (g :: r)). lia.
Qed.

(* ------------------------------------------------------------------ type-inheritance clauses *)
Definition inherit_toks (ids : list (list c10_wtok)) : list c10_wtok := match ids with [] => [] | _ => WP 58 :: sep_toks 44 ids end.
Definition has_inherit (ids : list (list c10_wtok)) : bool := match ids with [] => false | _ => true end.

Lemma opt_inherit_ok ids c rest : Forall (WGr STyId) ids -> c <> 58 -> c <> 60 -> c <> 46 -> c <> 44 ->
  c10_sw_opt_inherit (inherit_toks ids ++ WP c :: rest) = Some (has_inherit ids, WP c :: rest).
Proof.
  intros H H1 H2 H3 H4. destruct ids as [|i r].
  - cbn [inherit_toks app c10_sw_opt_inherit c10_sw_is_p has_inherit]. replace (c =? 58) with false by lia. reflexivity.
  - cbn [inherit_toks app c10_sw_opt_inherit c10_sw_is_p has_inherit]. change (58 =? 58) with true. cbv beta iota.
    rewrite (tyids_ok 44 (i :: r) ltac:(lia) ltac:(lia) H ltac:(discriminate) (WP c :: rest)); [reflexivity|apply folid_kp; lia|cbn [hd c10_sw_is_p]; lia|].
    rewrite app_length. pose proof (sep_toks_len 44 (i :: r)). cbn [List.length] in *. lia.
Qed.

(* ------------------------------------------------------------------ balanced token runs *)
(* the stack of expected closers after a run of tokens, relative to the brackets open when it starts (None: a closer that
   does not match, or one that closes a bracket the run did not open) *)
Fixpoint blk (st : list char) (ts : list c10_wtok) : option (list char) :=
  match ts with
  | [] => Some st
  | t :: r =>
    match c10_sw_closer t with
    | Some k => blk (k :: st) r
    | None =>
      if c10_sw_is_close t then
        match st with
        | k :: st' => if c10_sw_is_p k t then blk st' r else None
        | [] => None
        end
      else blk st r
    end
  end.

Lemma blk_app a : forall st b, blk st (a ++ b) = match blk st a with Some st' => blk st' b | None => None end.
Proof.
  induction a as [|t r IH]; intros st b; [reflexivity|]. cbn [app blk]. destruct (c10_sw_closer t); [apply IH|].
  destruct (c10_sw_is_close t); [|apply IH]. destruct st as [|k st']; [reflexivity|]. destruct (c10_sw_is_p k t); [apply IH|reflexivity].
Qed.
Lemma blk_lift a : forall st st' e, blk st a = Some st' -> blk (st ++ e) a = Some (st' ++ e).
Proof.
  induction a as [|t r IH]; intros st st' e H; cbn [blk] in *; [injection H as <-; reflexivity|].
  destruct (c10_sw_closer t) as [k|]; [exact (IH (k :: st) st' e H)|].
  destruct (c10_sw_is_close t); [|exact (IH _ _ e H)]. destruct st as [|k st0]; [discriminate|]. cbn [app].
  destruct (c10_sw_is_p k t); [exact (IH _ _ e H)|discriminate].
Qed.

(* a run that closes every bracket it opens and no other *)
Definition Neu (ts : list c10_wtok) : Prop := blk [] ts = Some [].
Lemma neu_nil : Neu [].
Proof. reflexivity. Qed.
Lemma neu_any ts st : Neu ts -> blk st ts = Some st.
Proof. intros H. exact (blk_lift ts [] [] st H). Qed.
Lemma neu_app a b : Neu a -> Neu b -> Neu (a ++ b).
Proof. intros Ha Hb. unfold Neu. rewrite blk_app, Ha. exact Hb. Qed.
Lemma neu_concat l : Forall Neu l -> Neu (List.concat l).
Proof. induction 1; [apply neu_nil|]. cbn [List.concat]. apply neu_app; assumption. Qed.
Lemma neu_wrap o c ts : c10_sw_closer (WP o) = Some c -> Neu ts -> Neu (WP o :: ts ++ [WP c]).
Proof.
  intros Ho H. unfold Neu. cbn [blk]. rewrite Ho. rewrite blk_app, (neu_any ts [c] H). cbn [blk].
  assert (Hc : c = 41 \/ c = 93 \/ c = 125).
  { cbn [c10_sw_closer] in Ho. destruct (o =? 40); [left; congruence|]. destruct (o =? 91); [right; left; congruence|].
    destruct (o =? 123); [right; right; congruence|discriminate]. }
  replace (c10_sw_closer (WP c)) with (@None char) by (destruct Hc as [-> | [-> | ->]]; reflexivity).
  replace (c10_sw_is_close (WP c)) with true by (destruct Hc as [-> | [-> | ->]]; reflexivity).
  cbn [c10_sw_is_p]. rewrite N.eqb_refl. reflexivity.
Qed.
Definition plain_tok (t : c10_wtok) : bool := match c10_sw_closer t with Some _ => false | None => negb (c10_sw_is_close t) end.
Lemma neu_plain ts : forallb plain_tok ts = true -> Neu ts.
Proof.
  unfold Neu. generalize (@nil char). induction ts as [|t r IH]; intros st H; [reflexivity|]. cbn [forallb] in H. apply andb_true_iff in H as [Ht Hr].
  unfold plain_tok in Ht. cbn [blk]. destruct (c10_sw_closer t); [discriminate|]. apply negb_true_iff in Ht. rewrite Ht.
  pose proof (IH st Hr) as G. destruct st; exact G || (rewrite (blk_lift r [] [] _ (IH [] Hr)); reflexivity).
Qed.

Lemma block_run ts : forall rel rel' base rest, blk rel ts = Some rel' -> base <> [] ->
  c10_sw_block (rel ++ base) (ts ++ rest) = c10_sw_block (rel' ++ base) rest.
Proof.
  induction ts as [|t r IH]; intros rel rel' base rest H Hb; cbn [blk] in H.
  - injection H as <-. reflexivity.
  - cbn [app c10_sw_block]. destruct (c10_sw_closer t) as [k|]; [exact (IH (k :: rel) rel' base rest H Hb)|].
    destruct (c10_sw_is_close t); [|exact (IH _ _ _ _ H Hb)]. destruct rel as [|k rel0]; [discriminate|]. cbn [app].
    destruct (c10_sw_is_p k t); [|discriminate]. destruct (rel0 ++ base) as [|x y] eqn:E.
    + destruct rel0; [cbn in E; congruence|discriminate].
    + rewrite <- E. exact (IH _ _ _ _ H Hb).
Qed.

Lemma block_ok c body rest : c = 41 \/ c = 93 \/ c = 125 -> Neu body -> c10_sw_block [c] (body ++ WP c :: rest) = Some rest.
Proof.
  intros Hc H. pose proof (block_run body [] [] [c] (WP c :: rest) H ltac:(discriminate)) as G. cbn [app] in G. rewrite G. cbn [c10_sw_block].
  replace (c10_sw_closer (WP c)) with (@None char) by (destruct Hc as [-> | [-> | ->]]; reflexivity).
  replace (c10_sw_is_close (WP c)) with true by (destruct Hc as [-> | [-> | ->]]; reflexivity).
  cbn [c10_sw_is_p]. rewrite N.eqb_refl. reflexivity.
Qed.

(* the tokens of a type are balanced *)
Lemma tyname_plain t : c10_sw_is_tyname t = true -> plain_tok t = true.
Proof. destruct t; try discriminate; reflexivity. Qed.
Lemma neu_cons t ts : plain_tok t = true -> Neu ts -> Neu (t :: ts).
Proof. intros Ht H. change (t :: ts) with ([t] ++ ts). apply neu_app; [apply neu_plain; cbn [forallb]; rewrite Ht; reflexivity|exact H]. Qed.
Lemma neu_snoc t ts : plain_tok t = true -> Neu ts -> Neu (ts ++ [t]).
Proof. intros Ht H. apply neu_app; [exact H|apply neu_plain; cbn [forallb]; rewrite Ht; reflexivity]. Qed.
Lemma neu_quests k : Neu (quests k).
Proof. apply neu_plain. induction k; [reflexivity|exact IHk]. Qed.

Lemma wgr_neu s ts : WGr s ts -> Neu ts.
Proof.
  induction 1.
  - apply neu_cons; [apply tyname_plain; assumption|apply neu_nil].
  - apply neu_cons; [apply tyname_plain; assumption|]. apply neu_cons; [reflexivity|]. apply neu_snoc; [reflexivity|assumption].
  - apply neu_cons; [apply tyname_plain; assumption|]. apply neu_cons; [reflexivity|assumption].
  - apply neu_cons; [apply tyname_plain; assumption|]. apply neu_cons; [reflexivity|]. apply neu_app; [assumption|].
    apply neu_cons; [reflexivity|]. apply neu_cons; [reflexivity|assumption].
  - apply (neu_wrap 91 93); [reflexivity|assumption].
  - replace (WP 91 :: k ++ WP 58 :: v ++ [WP 93]) with (WP 91 :: (k ++ WP 58 :: v) ++ [WP 93]) by (rewrite <- app_assoc; reflexivity).
    apply (neu_wrap 91 93); [reflexivity|]. apply neu_app; [assumption|]. apply neu_cons; [reflexivity|assumption].
  - exact (neu_wrap 40 41 [] eq_refl neu_nil).
  - apply (neu_wrap 40 41); [reflexivity|assumption].
  - assumption.
  - apply neu_app; [assumption|apply neu_quests].
  - assumption.
  - apply neu_app; [assumption|]. apply neu_cons; [reflexivity|assumption].
Qed.

(* ------------------------------------------------------------------ parameter clauses *)
Lemma tyhead_not_inout ts : tyhead ts -> match ts with t :: _ => c10_sw_is_kw "inout" t = false | [] => True end.
Proof.
  destruct ts as [|t r]; [trivial|]. cbn [tyhead]. intros [H|[H|H]]; [|subst t; reflexivity|subst t; reflexivity].
  apply tyname_not_kw_res; [exact H|reflexivity|vm_compute; discriminate|vm_compute; discriminate].
Qed.

Lemma annot_ok ty rest : WGr STy ty -> fol rest -> c10_sw_annot (ty ++ rest) = Some rest.
Proof.
  intros H Hr. unfold c10_sw_annot. pose proof (wgr_head _ _ H) as Hh. pose proof (tyhead_not_inout _ Hh) as Hi.
  destruct ty as [|t0 r0]; [destruct Hh|]. cbn [app]. rewrite Hi. exact (sw_type_ok (t0 :: r0) rest H Hr).
Qed.

(* a parameter: label (one name, which is also the local name) or label and local name, then the type *)
Inductive ParamToks : list c10_wtok -> Prop :=
| P_one t ty : c10_sw_is_label t = true -> WGr STy ty -> ParamToks (t :: WP 58 :: ty)
| P_two t1 t2 ty : c10_sw_is_label t1 = true -> c10_sw_is_local t2 = true -> WGr STy ty -> ParamToks (t1 :: t2 :: WP 58 :: ty).

Lemma local_not_colon t : c10_sw_is_local t = true -> c10_sw_is_p 58 t = false.
Proof. destruct t; try reflexivity. discriminate. Qed.

Lemma param_ok p rest : ParamToks p -> fol rest -> c10_sw_param (p ++ rest) = Some rest.
Proof.
  intros [t ty Ht Hty | t1 t2 ty H1 H2 Hty] Hr; cbn [app c10_sw_param].
  - cbn [c10_sw_is_p]. change (58 =? 58) with true. cbv beta iota. rewrite Ht. apply annot_ok; assumption.
  - rewrite (local_not_colon _ H2), H1, H2. cbn [andb c10_sw_eat c10_sw_is_p]. change (58 =? 58) with true. cbv beta iota. apply annot_ok; assumption.
Qed.

Fixpoint params_body (ps : list (list c10_wtok)) : list c10_wtok :=
  match ps with
  | [] => [WP 41]
  | [p] => p ++ [WP 41]
  | p :: r => p ++ WP 44 :: params_body r
  end.

Lemma label_not_nl t : c10_sw_is_label t = true -> c10_sw_is_nl t = false.
Proof. destruct t; try reflexivity; discriminate. Qed.
Lemma param_head p : ParamToks p -> exists t r, p = t :: r /\ c10_sw_is_label t = true.
Proof. intros [t ty Ht _ | t1 t2 ty H1 _ _]; eauto. Qed.

Lemma params_tail_ok ps : Forall ParamToks ps -> ps <> [] -> forall rest f, (List.length ps <= f)%nat ->
  c10_sw_params_tail f (params_body ps ++ rest) = Some rest.
Proof.
  intros H. induction H as [|p r Hp Hr IH]; [congruence|]. intros _ rest f Hf. destruct f as [|f]; [cbn in Hf; lia|].
  destruct r as [|p2 r].
  - cbn [params_body]. rewrite <- app_assoc. cbn [app c10_sw_params_tail]. rewrite (param_ok p _ Hp) by (apply fol_kp; lia).
    cbn [c10_sw_is_p]. change (41 =? 41) with true. reflexivity.
  - change (params_body (p :: p2 :: r)) with (p ++ WP 44 :: params_body (p2 :: r)). rewrite <- app_assoc. cbn [app c10_sw_params_tail].
    rewrite (param_ok p _ Hp) by (apply fol_kp; lia). cbn [c10_sw_is_p]. change (44 =? 41) with false. change (44 =? 44) with true. cbv beta iota.
    inversion Hr as [|p2' r' Hp2 _]; subst.
    assert (Esk : c10_sw_skipnl (params_body (p2 :: r) ++ rest) = params_body (p2 :: r) ++ rest).
    { destruct (param_head p2 Hp2) as (t & q & -> & Ht). destruct r; cbn [params_body app c10_sw_skipnl]; (destruct t; try reflexivity; discriminate). }
    rewrite Esk. apply IH; [discriminate|cbn [List.length] in *; lia].
Qed.

Lemma params_body_len ps : (List.length ps <= List.length (params_body ps))%nat.
Proof.
  induction ps as [|p r IH]; [cbn; lia|]. destruct r as [|p2 r].
  - cbn [params_body]. rewrite app_length. cbn [List.length]. lia.
  - change (params_body (p :: p2 :: r)) with (p ++ WP 44 :: params_body (p2 :: r)). rewrite app_length. cbn [List.length] in *. lia.
Qed.

Lemma params_ok ps rest : Forall ParamToks ps -> c10_sw_params (WP 40 :: params_body ps ++ rest) = Some rest.
Proof.
  intros H. unfold c10_sw_params. cbn [c10_sw_eat c10_sw_is_p]. change (40 =? 40) with true. cbv beta iota. destruct ps as [|p r].
  - cbn [params_body app c10_sw_is_p]. change (41 =? 41) with true. reflexivity.
  - inversion H as [|p' r' Hp _]; subst. destruct (param_head p Hp) as (t & q & E & Ht).
    destruct (params_body (p :: r) ++ rest) as [|t0 r0] eqn:Eb.
    { exfalso. destruct r; cbn [params_body] in Eb; subst p; discriminate. }
    assert (Et0 : t0 = t). { destruct r; cbn [params_body] in Eb; subst p; cbn [app] in Eb; congruence. }
    subst t0. replace (c10_sw_is_p 41 t) with false by (destruct t; try reflexivity; discriminate).
    rewrite <- Eb. apply params_tail_ok; [exact H|discriminate|].
    assert (Hl : List.length (params_body (p :: r) ++ rest) = S (List.length r0)) by (rewrite Eb; reflexivity).
    rewrite app_length in Hl. pose proof (params_body_len (p :: r)). lia.
Qed.
