(* C07, topsort: for EVERY item list
     - the dependency collection (get_dependencies, Model/Topsort.v) completes within the model's fuel
       deps_fuel things = 4 * |things| + 16, and leaves the `seen` set as it found it;
     - every name it pushes is a key of the `types` map, so types.get(dep).unwrap() (topsort.rs:222) and
       get_index(..).expect(..) (topsort.rs:154) succeed;
   hence build_dag is always Ok, and with Proofs/C11.topsort_permutation (toposort_impl and sort_by_indices
   on a well-formed graph: sites topsort.rs:175, :232, :235, :237, :240 and their fuel) topsort is TOTAL.

   Why the fuel suffices (since the /repo fix of the stray seen.remove, finding C07-topsort-recursion): every
   get_* collector starts with `if seen.insert(name)` and the names that can be met are keys of `types`; a
   nested call either finds its name in `seen` (and returns at once) or adds a new key to `seen` - so the
   nesting depth is bounded by the number of keys not yet seen, plus one.  The recursion of
   get_dependencies_from_type into the arguments of a generic type (every argument, at any depth, since the
   repair of its Generic arm) is structural on the type and consumes no fuel: it happens at the SAME `seen`
   set, after the generic type's own name has been removed again. *)
From Coq Require Import String List Arith Bool Lia Permutation.
From TS Require Import Model.Str Model.Outcome Model.Types Model.TopsortAlgo Model.Topsort.
From TS Require Import Spec.C07BackSpec.
From TS Require Import Proofs.C11 Proofs.C07Monad.
Import ListNotations.
Local Open Scope nat_scope.
Local Notation length := List.length (only parsing).

Definition iname (it : ritem) : str := original (item_id it).

Lemma t_mem_str_In x l : mem_str x l = true <-> In x l.
Proof.
  unfold mem_str. rewrite existsb_exists. split.
  - intros (y & Hy & E). apply str_eqb_eq in E. now subst.
  - intros H. exists x. split; [exact H|apply str_eqb_refl].
Qed.

Lemma t_filter_drop_fresh id (seen : list str) : mem_str id seen = false ->
  filter (fun y => negb (str_eqb id y)) (id :: seen) = seen.
Proof.
  intros H. cbn [filter]. rewrite str_eqb_refl. cbn [negb].
  induction seen as [|y r IH]; cbn [filter]; [reflexivity|].
  unfold mem_str in H. cbn [existsb] in H. apply orb_false_iff in H as [E H].
  rewrite E. cbn [negb]. f_equal. apply IH. exact H.
Qed.

Lemma t_ritem_eqb_refl a : ritem_eqb a a = true.
Proof. destruct a; cbn [ritem_eqb]; apply str_eqb_refl. Qed.

Section Deps.
Variable types : str -> option ritem.
Variable U : list str.                                   (* the keys of the map *)
Hypothesis types_name : forall n tp, types n = Some tp -> iname tp = n.
Hypothesis types_key : forall n tp, types n = Some tp -> In n U.

(* keys not yet seen *)
Definition cnt (seen : list str) : nat := length (filter (fun n => negb (mem_str n seen)) U).

Lemma filter_len_le {A} (p q : A -> bool) l : (forall x, p x = true -> q x = true) ->
  length (filter p l) <= length (filter q l).
Proof.
  intros H. induction l as [|x r IH]; [cbn; lia|]. cbn [filter].
  destruct (p x) eqn:Ep; [rewrite (H x Ep); cbn; lia|]. destruct (q x); cbn; lia.
Qed.

Lemma filter_len_lt {A} (p q : A -> bool) l y : (forall x, p x = true -> q x = true) ->
  In y l -> p y = false -> q y = true -> length (filter p l) < length (filter q l).
Proof.
  intros H. induction l as [|x r IH]; intros Hin Hp Hq; [destruct Hin|]. cbn [filter].
  destruct Hin as [->|Hin].
  - rewrite Hp, Hq. pose proof (filter_len_le p q r H). cbn. lia.
  - specialize (IH Hin Hp Hq). destruct (p x) eqn:Ep; [rewrite (H x Ep); cbn; lia|]. destruct (q x); cbn; lia.
Qed.

Lemma cnt_cons_le id seen : cnt (id :: seen) <= cnt seen.
Proof.
  unfold cnt. apply filter_len_le. intros x. unfold mem_str. cbn [existsb].
  destruct (str_eqb x id); cbn [orb negb]; [discriminate|auto].
Qed.

Lemma cnt_cons_lt id seen : In id U -> mem_str id seen = false -> cnt (id :: seen) < cnt seen.
Proof.
  intros HU Hf. unfold cnt. apply filter_len_lt with (y := id); auto.
  - intros x. unfold mem_str. cbn [existsb]. destruct (str_eqb x id); cbn [orb negb]; [discriminate|auto].
  - unfold mem_str. cbn [existsb]. rewrite str_eqb_refl. reflexivity.
  - rewrite Hf. reflexivity.
Qed.

(* [g] succeeds on every state whose seen set is [seen] and leaves that set unchanged *)
Definition tot (seen : list str) (g : dstate -> option dstate) : Prop :=
  forall s, dseen s = seen -> exists s', g s = Some s' /\ dseen s' = seen.

Lemma tot_fold {A} seen (g : A -> dstate -> option dstate) l :
  (forall x, In x l -> tot seen (g x)) ->
  tot seen (fun s => fold_left (fun acc x => obind acc (g x)) l (Some s)).
Proof.
  induction l as [|x r IH]; intros H s Hs; cbn [fold_left].
  - eauto.
  - destruct (H x (or_introl eq_refl) s Hs) as (s1 & E1 & H1). cbn [obind]. rewrite E1.
    apply IH; [|exact H1]. intros y Hy. apply H. now right.
Qed.

Section Level.
Variable f : nat.
Variable rec : ritem -> dstate -> option dstate.
(* the recursive call, one level of fuel down *)
Hypothesis rec_total : forall it s, cnt (dseen s) < f ->
  (mem_str (iname it) (dseen s) = true \/ In (iname it) U) ->
  exists s', rec it s = Some s' /\ dseen s' = dseen s.

Lemma visit_name_tot id seen : cnt seen < f -> tot seen (visit_name types rec id).
Proof.
  intros Hc s Hs. unfold visit_name. destruct (types id) as [tp|] eqn:ET; [|eauto].
  unfold seen_insert. destruct (mem_str id (dseen s)) eqn:Em; [eauto|].
  cbv iota beta.
  destruct (rec_total tp (res_push id {| dres := dres s; dseen := id :: dseen s |})) as (s2 & E2 & H2).
  - cbn [res_push dseen]. rewrite Hs. pose proof (cnt_cons_le id seen). lia.
  - left. cbn [res_push dseen]. rewrite (types_name id tp ET). unfold mem_str. cbn [existsb]. rewrite str_eqb_refl. reflexivity.
  - rewrite E2. cbn [obind]. eexists. split; [reflexivity|]. cbn [seen_remove dseen]. rewrite H2. cbn [res_push dseen].
    rewrite t_filter_drop_fresh; [exact Hs|exact Em].
Qed.

Lemma deps_type_tot t : forall seen, cnt seen < f -> tot seen (deps_type types rec t).
Proof.
  induction t as [id|id ps IH|x IH|x n IH|x IH|k v IHk IHv|x IH|p] using rtype_ind'; intros seen Hc.
  - cbn [deps_type]. now apply visit_name_tot.
  - intros s Hs. cbn [deps_type]. destruct (visit_name_tot id seen Hc s Hs) as (s1 & E1 & H1). rewrite E1. cbn [obind].
    apply (tot_fold seen (deps_type types rec) ps); [|exact H1].
    intros p Hp. rewrite Forall_forall in IH. now apply IH.
  - cbn [deps_type]. now apply IH.
  - cbn [deps_type]. now apply IH.
  - cbn [deps_type]. now apply IH.
  - intros s Hs. cbn [deps_type]. destruct (IHk seen Hc s Hs) as (s1 & E1 & H1). rewrite E1. cbn [obind]. now apply IHv.
  - cbn [deps_type]. now apply IH.
  - intros s Hs. cbn [deps_type]. eauto.
Qed.

Lemma deps_fields_tot fs seen : cnt seen < f -> tot seen (deps_fields types rec fs).
Proof. intros Hc. unfold deps_fields. apply (tot_fold seen (deps_type types rec)). intros t _. now apply deps_type_tot. Qed.

(* the common frame of get_struct / enum / alias / const_dependencies: insert the own name, walk, remove it *)
Lemma frame_tot name (body : dstate -> option dstate) s :
  cnt (dseen s) < S f -> (mem_str name (dseen s) = true \/ In name U) ->
  (mem_str name (dseen s) = false -> tot (name :: dseen s) body) ->
  exists s', (let '(fresh, s1) := seen_insert name s in
              if fresh then obind (body s1) (fun s2 => Some (seen_remove name s2)) else Some s) = Some s' /\
             dseen s' = dseen s.
Proof.
  intros Hc Hn Hb. unfold seen_insert. destruct (mem_str name (dseen s)) eqn:Em; [eauto|].
  destruct (Hb eq_refl {| dres := dres s; dseen := name :: dseen s |} eq_refl) as (s2 & E2 & H2).
  rewrite E2. cbn [obind]. eexists. split; [reflexivity|]. cbn [seen_remove dseen]. rewrite H2.
  now apply t_filter_drop_fresh.
Qed.

Lemma deps_item_tot it s : cnt (dseen s) < S f ->
  (mem_str (iname it) (dseen s) = true \/ In (iname it) U) ->
  exists s', deps_item types rec it s = Some s' /\ dseen s' = dseen s.
Proof.
  intros Hc Hn.
  assert (Hin : forall name, mem_str name (dseen s) = true \/ In name U -> mem_str name (dseen s) = false ->
                             cnt (name :: dseen s) < f).
  { intros name [H|H] Hf; [congruence|]. pose proof (cnt_cons_lt name (dseen s) H Hf). lia. }
  destruct it as [st|[sh|tg ct sh]|a|c]; unfold iname in Hn; cbn [item_id enum_shared] in Hn; cbn [deps_item].
  - apply frame_tot; auto. intros Hf. apply deps_fields_tot. now apply Hin.
  - eauto.
  - apply frame_tot; auto. intros Hf. apply deps_fields_tot. now apply Hin.
  - pose proof (Hin _ Hn) as Hlt. clear Hin Hn.
    unfold seen_insert. destruct (mem_str (original (aid a)) (dseen s)) eqn:Hf; [eauto|]. specialize (Hlt eq_refl).
    destruct (deps_type_tot (atype a) (original (aid a) :: dseen s) Hlt
                {| dres := dres s; dseen := original (aid a) :: dseen s |} eq_refl) as (s2 & E2 & H2).
    rewrite E2. cbn [obind].
    destruct (tot_fold (original (aid a) :: dseen s)
                (fun gname sa => match types gname with Some thing => rec thing sa | None => Some sa end)
                (agenerics a)) with (s := s2) as (s3 & E3 & H3).
    + intros g _ sa Hsa. destruct (types g) as [thing|] eqn:ET; [|eauto].
      destruct (rec_total thing sa) as (s' & E' & H').
      * rewrite Hsa. exact Hlt.
      * right. rewrite (types_name g thing ET). eapply types_key. exact ET.
      * rewrite E'. eexists. split; [reflexivity|]. congruence.
    + exact H2.
    + cbv beta in E3. rewrite E3. cbn [obind]. eexists. split; [reflexivity|]. cbn [seen_remove dseen]. rewrite H3.
      now apply t_filter_drop_fresh.
  - apply frame_tot; auto. intros Hf. apply deps_type_tot. now apply Hin.
Qed.
End Level.

Theorem get_dependencies_total fuel : forall it s, cnt (dseen s) < fuel ->
  (mem_str (iname it) (dseen s) = true \/ In (iname it) U) ->
  exists s', get_dependencies fuel types it s = Some s' /\ dseen s' = dseen s.
Proof.
  induction fuel as [|f IH]; intros it s Hc Hn; [lia|].
  cbn [get_dependencies]. apply deps_item_tot with (f := f); auto.
Qed.

(* ---- every pushed name is a key ---- *)
Definition keyed (s : dstate) : Prop := Forall (fun n => types n <> None) (dres s).
Definition pres (g : dstate -> option dstate) : Prop := forall s s', keyed s -> g s = Some s' -> keyed s'.

Lemma keyed_push id tp s : types id = Some tp -> keyed s -> keyed (res_push id s).
Proof.
  intros ET H. unfold keyed, res_push. cbn [dres]. apply Forall_app. split; [exact H|].
  constructor; [congruence|constructor].
Qed.

Lemma pres_fold {A} (g : A -> dstate -> option dstate) l :
  (forall x, In x l -> pres (g x)) ->
  forall o s', fold_left (fun acc x => obind acc (g x)) l o = Some s' -> (forall s, o = Some s -> keyed s) -> keyed s'.
Proof.
  induction l as [|x r IH]; intros H o s' E Ho; cbn [fold_left] in E.
  - now apply Ho.
  - eapply IH; [intros y Hy; apply H; now right|exact E|].
    intros s1 E1. destruct o as [s0|]; cbn [obind] in E1; [|discriminate].
    eapply (H x (or_introl eq_refl)); [apply Ho; reflexivity|exact E1].
Qed.

Section PLevel.
Variable rec : ritem -> dstate -> option dstate.
Hypothesis rec_pres : forall it, pres (rec it).

Lemma visit_name_pres id : pres (visit_name types rec id).
Proof.
  intros s s' K E. unfold visit_name in E. destruct (types id) as [tp|] eqn:ET; [|injection E as <-; exact K].
  unfold seen_insert in E. destruct (mem_str id (dseen s)); [injection E as <-; exact K|]. cbv iota beta in E.
  destruct (rec tp _) as [s2|] eqn:E2; cbn [obind] in E; [|discriminate]. injection E as <-.
  unfold keyed, seen_remove. cbn [dres]. eapply rec_pres; [|exact E2]. eapply keyed_push; [exact ET|exact K].
Qed.

Lemma deps_type_pres t : pres (deps_type types rec t).
Proof.
  induction t as [id|id ps IH|x IH|x n IH|x IH|k v IHk IHv|x IH|p] using rtype_ind'; try (cbn [deps_type]; assumption).
  - cbn [deps_type]. apply visit_name_pres.
  - intros s s' K E. cbn [deps_type] in E. destruct (visit_name types rec id s) as [s1|] eqn:E1; cbn [obind] in E; [|discriminate].
    rewrite Forall_forall in IH.
    eapply (pres_fold (deps_type types rec) ps); [intros p Hp; now apply IH|exact E|].
    intros s0 [= <-]. eapply visit_name_pres; eassumption.
  - intros s s' K E. cbn [deps_type] in E. destruct (deps_type types rec k s) as [s1|] eqn:E1; cbn [obind] in E; [|discriminate].
    eapply IHv; [eapply IHk; eassumption|exact E].
  - intros s s' K E. cbn [deps_type] in E. injection E as <-. exact K.
Qed.

Lemma deps_fields_pres fs : pres (deps_fields types rec fs).
Proof.
  intros s s' K E. unfold deps_fields in E.
  eapply (pres_fold (deps_type types rec) fs); [intros t _; apply deps_type_pres|exact E|]. intros s0 [= <-]. exact K.
Qed.

Lemma frame_pres name (body : dstate -> option dstate) : pres body ->
  pres (fun s => let '(fresh, s1) := seen_insert name s in
                 if fresh then obind (body s1) (fun s2 => Some (seen_remove name s2)) else Some s).
Proof.
  intros Hb s s' K E. unfold seen_insert in E. destruct (mem_str name (dseen s)); [injection E as <-; exact K|].
  destruct (body _) as [s2|] eqn:E2; cbn [obind] in E; [|discriminate]. injection E as <-.
  unfold keyed, seen_remove. cbn [dres]. eapply Hb; [|exact E2]. exact K.
Qed.

Lemma deps_item_pres it : pres (deps_item types rec it).
Proof.
  destruct it as [st|[sh|tg ct sh]|a|c]; cbn [deps_item].
  - apply (frame_pres _ (deps_fields types rec _)). apply deps_fields_pres.
  - intros s s' K [= <-]. exact K.
  - apply (frame_pres _ (deps_fields types rec _)). apply deps_fields_pres.
  - intros s s' K E. cbn [deps_item] in E. unfold seen_insert in E. destruct (mem_str (original (aid a)) (dseen s)); [injection E as <-; exact K|].
    destruct (deps_type types rec (atype a) _) as [s2|] eqn:E2; cbn [obind] in E; [|discriminate].
    destruct (fold_left _ (agenerics a) (Some s2)) as [s3|] eqn:E3; cbn [obind] in E; [|discriminate]. injection E as <-.
    unfold keyed, seen_remove. cbn [dres].
    eapply (pres_fold (fun gname sa => match types gname with Some thing => rec thing sa | None => Some sa end) (agenerics a));
      [|exact E3|].
    + intros g _ sa sa' Ka Ea. destruct (types g) as [thing|]; [eapply rec_pres; eassumption|injection Ea as <-; exact Ka].
    + intros s0 [= <-]. eapply deps_type_pres; [|exact E2]. exact K.
  - apply (frame_pres _ (deps_type types rec _)). apply deps_type_pres.
Qed.
End PLevel.

Theorem get_dependencies_keyed fuel : forall it, pres (get_dependencies fuel types it).
Proof.
  induction fuel as [|f IH]; intros it s s' K E; [discriminate|].
  cbn [get_dependencies] in E. eapply deps_item_pres; eassumption.
Qed.
End Deps.

(* ---- the map built by topsort ---- *)
Lemma types_get_spec things n tp : types_get things n = Some tp -> iname tp = n /\ In tp things.
Proof.
  unfold types_get. intros H. apply find_some in H as [Hin E]. apply str_eqb_eq in E. split; [exact E|].
  now apply in_rev.
Qed.

Lemma types_get_In things a : In a things -> types_get things (iname a) <> None.
Proof.
  intros Hin E. unfold types_get in E. pose proof (find_none _ _ E a) as H. cbv beta in H. unfold iname in H.
  rewrite str_eqb_refl in H. apply in_rev in Hin. specialize (H Hin). discriminate.
Qed.

Lemma get_index_In it l : In it l -> get_index it l <> None.
Proof.
  induction l as [|z l IH]; intros Hin; [destruct Hin|]. cbn [get_index].
  destruct (ritem_eqb z it) eqn:E; [discriminate|].
  destruct Hin as [->|Hin]; [rewrite t_ritem_eqb_refl in E; discriminate|].
  destruct (get_index it l); [discriminate|]. now apply IH.
Qed.

Lemma deps_fuel_enough things : length (map iname things) < deps_fuel things.
Proof. rewrite map_length. unfold deps_fuel. lia. Qed.

Lemma cnt_le U seen : cnt U seen <= length U.
Proof. unfold cnt. induction U as [|x r IH]; cbn [filter]; [cbn; lia|]. destruct (negb _); cbn [List.length] in *; lia. Qed.

(* one row of the graph: no fuel exhaustion, no unwrap / expect *)
Theorem dag_row_total things a : In a things -> exists row, dag_row things a = Ok row.
Proof.
  intros Hin. unfold dag_row.
  destruct (get_dependencies_total (types_get things) (map iname things)
              (fun n tp H => proj1 (types_get_spec things n tp H))
              (fun n tp H => match types_get_spec things n tp H with
                             | conj E Hi => eq_ind (iname tp) (fun m => In m (map iname things)) (in_map iname things tp Hi) n E
                             end)
              (deps_fuel things) a {| dres := []; dseen := [] |}) as (s & E & _).
  - cbn [dseen]. pose proof (cnt_le (map iname things) []). pose proof (deps_fuel_enough things). lia.
  - right. now apply in_map.
  - rewrite E.
    assert (K : keyed (types_get things) s).
    { eapply get_dependencies_keyed; [|exact E]. constructor. }
    unfold keyed in K. induction (dres s) as [|dep r IH]; [eexists; reflexivity|].
    apply Forall_cons_iff in K as [Kd Kr]. destruct (IH Kr) as (row & Er). cbn [mapM].
    destruct (types_get things dep) as [it|] eqn:ET; [|congruence].
    apply types_get_spec in ET as [_ Hit]. pose proof (get_index_In it things Hit) as Hi.
    destruct (get_index it things) as [i|]; [|congruence]. cbn [bind]. rewrite Er. cbn [bind]. eauto.
Qed.

Theorem build_dag_total things : exists dag, build_dag things = Ok dag.
Proof.
  unfold build_dag.
  assert (H : forall l, (forall a, In a l -> In a things) -> exists dag, mapM (dag_row things) l = Ok dag).
  { induction l as [|a r IH]; intros Hl; [eexists; reflexivity|]. cbn [mapM].
    destruct (dag_row_total things a (Hl a (or_introl eq_refl))) as (row & ->). cbn [bind].
    destruct IH as (dag & ->); [intros b Hb; apply Hl; now right|]. cbn [bind]. eauto. }
  apply H. auto.
Qed.

(* topsort.rs:198 topsort returns, for every item list, a permutation of it *)
Theorem topsort_total things : exists out, topsort things = Ok out /\ Permutation out things.
Proof. destruct (build_dag_total things) as (dag & E). eapply topsort_permutation. exact E. Qed.

Theorem topsort_never_panics things : no_panic (topsort things).
Proof. destruct (topsort_total things) as (out & -> & _). exact I. Qed.

Theorem topsort_panics_only_on_fuel things : panics_only fuel_site (topsort things).
Proof. destruct (topsort_total things) as (out & -> & _). exact I. Qed.

Theorem deps_complete_always things : deps_complete things = true.
Proof.
  unfold deps_complete. apply forallb_forall. intros a Hin.
  pose proof (dag_row_total things a Hin) as (row & E). unfold dag_row in E.
  destruct (get_dependencies _ _ a _); [reflexivity|discriminate].
Qed.

(* non-trivial instance (vm_compute): the mutually shadowing alias generics of the recorded finding
   C07-topsort-recursion ( type A<B> = Vec<B>;  type B<A> = Vec<A>; ) plus a struct using both *)
Definition w_tid (n : string) : id := {| original := lit n; renamed := lit n; via_serde_rename := false |}.
Definition w_shadow_items : list ritem :=
  [ItAlias {| aid := w_tid "A"; agenerics := [lit "B"]; atype := RVec (RSimple (lit "B")); acomments := []; adecs := []; aredacted := false |};
   ItAlias {| aid := w_tid "B"; agenerics := [lit "A"]; atype := RVec (RSimple (lit "A")); acomments := []; adecs := []; aredacted := false |};
   ItStruct {| sid := w_tid "S"; sgenerics := [];
               sfields := [{| fid := w_tid "x"; fty := RGeneric (lit "A") [RGeneric (lit "B") [RPrim PU8]]; fcomments := [];
                              has_default := false; fdecs := [] |}];
               scomments := []; sdecs := []; sredacted := false |}].

Example topsort_total_nonvacuous :
  match topsort w_shadow_items with
  | Ok out => map iname out = [lit "B"; lit "A"; lit "S"] \/ map iname out = [lit "A"; lit "B"; lit "S"]
  | _ => False
  end.
Proof. vm_compute. auto. Qed.
