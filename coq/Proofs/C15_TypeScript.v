(* C15 for TypeScript WITHOUT the neutrality hypothesis: the code the model's printer writes around the
   comment fragments keeps the reference lexer in code mode, for every item whose identifiers, keys and
   mapped type texts are plain (Spec/C15Render.v: c15_item_plain, c15_mappings_plain).  Hence the text
   printed for such an item is contained iff all its doc strings are safe_ts; then the same for whole
   files (ts_generate: header, items in topological order, the reviver / replacer trailer). *)
From Coq Require Import List NArith Bool Lia ZifyBool ZifyN String.
From TS Require Import Model.Str Model.Outcome Model.Unicode Model.Types Model.Parse Model.Rename
                       Model.TopsortAlgo Model.Topsort Model.Lang.Common Model.Lang.Decl Model.Lang.TypeScript.
From TS Require Import Spec.Lexers Spec.C15Spec Spec.C15Render Proofs.BackCommon Proofs.C15 Proofs.C15_Render.
Import ListNotations.
Local Open Scope N_scope.

Ltac c15_sites_norm :=
  unfold c15_sites; cbn [app]; rewrite ?app_nil_r, ?map_app, ?c15_map_flat_map; cbn [app map]; rewrite ?app_nil_r; reflexivity.

Notation NT := (c15_neutral C15ts).
Notation plain := (c15_plain C15ts).

(* ---- a {:?}-printed string is one double-quoted literal ---- *)
Lemma ts_escape_lex c : c15_lit_char c = true ->
  lex_str_gen cfg_ts (LStr ch_dq false) (escape_debug_char c) = LStr ch_dq false.
Proof.
  unfold c15_lit_char, escape_debug_char, ch_dq, ch_bs, ch_nl, ch_cr, ch_tab, ch_sq. intros H.
  repeat match goal with |- context [if ?b then _ else _] => let E := fresh in destruct b eqn:E; [try reflexivity; lia|] end.
  cbn [lex_str_gen fold_left lex_gen lex_quoted cfg_ts lc_eol]. unfold ch_bs, ch_dq, eol_js, ch_nl, ch_cr.
  replace (c =? 92) with false by lia. replace ((c =? 34) || ((c =? 10) || (c =? 13) || (c =? 8232) || (c =? 8233))) with false by lia.
  reflexivity.
Qed.

Lemma ts_debug_neutral s : c15_lit_str s = true -> NT (debug_str s).
Proof.
  intros H. unfold c15_neutral, debug_str. rewrite lex_str_app. change (lex_str_gen (c15_cfg C15ts) LCode [ch_dq]) with (LStr ch_dq false).
  rewrite lex_str_app. replace (lex_str_gen (c15_cfg C15ts) (LStr ch_dq false) (flat_map escape_debug_char s)) with (LStr ch_dq false); [reflexivity|].
  unfold c15_lit_str in H. induction s as [|c r IH]; [reflexivity|].
  cbn [forallb] in H. apply andb_true_iff in H as [Hc Hr]. cbn [flat_map]. rewrite lex_str_app.
  change (c15_cfg C15ts) with cfg_ts. rewrite (ts_escape_lex c Hc). now apply IH.
Qed.

Lemma ts_rename_neutral k : c15_name_ok C15ts k = true -> NT (typescript_property_aware_rename k).
Proof.
  unfold c15_name_ok. intros H. apply andb_true_iff in H as [Hp Hl]. unfold typescript_property_aware_rename.
  destruct (contains_char ch_dash k); [now apply ts_debug_neutral|now apply c15_neutral_plain].
Qed.

(* ================= layout: the code parts of ts_render_decl are neutral ================= *)
Definition ts_member_ok (m : ts_member) : bool := c15_name_ok C15ts (tm_key m) && plain (ts_show (tm_type m)).
Definition ts_variant_ok (v : ts_variant) : bool :=
  match v with
  | TVUnit _ wire => c15_lit_str wire
  | TVTuple _ wire ty _ _ => c15_lit_str wire && plain (ts_show ty)
  | TVStruct _ wire ms => c15_lit_str wire && forallb ts_member_ok ms
  end.
Definition ts_decl_ok (d : ts_decl) : bool :=
  match d with
  | TSInterface _ name gs ms => plain name && forallb plain gs && forallb ts_member_ok ms
  | TSAlias _ name gs ty _ _ => plain name && forallb plain gs && plain (ts_show ty)
  | TSConst name ty value => plain name && plain (ts_show ty) && plain value
  | TSUnitEnum _ name gs vs => plain name && forallb plain gs && forallb (fun v => plain (snd (fst v)) && c15_lit_str (snd v)) vs
  | TSUnion _ name gs tag content vs => plain name && forallb plain gs && plain tag && plain content && forallb ts_variant_ok vs
  end.

Notation D := (Decomp C15ts NT).

Lemma ts_comments_decomp i ds : D (ts_comments i ds) (c15_sites false ds).
Proof. rewrite <- (proj1 (C15_fragment_ts i ds)). exact (Decomp_frag C15ts NT false i ds). Qed.

(* a code atom: a plain string, a generics suffix, a quoted string, an optional literal, a literal *)
Ltac ts_atom :=
  first [ apply c15_neutral_plain; assumption
        | apply c15_neutral_plain; apply c15_plain_generics_suffix; assumption
        | apply ts_debug_neutral; assumption
        | apply ts_rename_neutral; assumption
        | match goal with |- c15_neutral _ (if ?b then _ else _) => destruct b end; vm_compute; reflexivity
        | vm_compute; reflexivity ].
(* the quoted atoms are recognised BEFORE ++ is split (debug_str unfolds to an append) *)
Ltac ts_quoted :=
  apply Decomp_code;
  first [ apply ts_debug_neutral; assumption
        | apply ts_rename_neutral; assumption
        | apply c15_neutral_plain; apply c15_plain_generics_suffix; assumption ].
Ltac ts_decomp tac := c15_decomp ltac:(apply ts_comments_decomp) ltac:(first [tac | ts_quoted]) ts_atom.

Lemma ts_member_decomp m : ts_member_ok m = true -> D (ts_render_member m) (c15_sites false (tm_docs m)).
Proof.
  unfold ts_member_ok, ts_render_member. intros H. c15_split_andb.
  eapply Decomp_eq; [ts_decomp ltac:(fail)|]. c15_sites_norm.
Qed.

Lemma ts_members_decomp ms : forallb ts_member_ok ms = true ->
  D (List.concat (map ts_render_member ms)) (flat_map (fun m => c15_sites false (tm_docs m)) ms).
Proof.
  intros H. apply Decomp_concat_map. intros m Hm. apply ts_member_decomp.
  rewrite forallb_forall in H. now apply H.
Qed.

Definition ts_variant_docs' (v : ts_variant) : list str :=
  match v with
  | TVUnit docs _ | TVTuple docs _ _ _ _ => docs
  | TVStruct docs _ ms => docs ++ flat_map tm_docs ms
  end.

Lemma ts_variant_decomp tag content v : plain tag = true -> plain content = true -> ts_variant_ok v = true ->
  D (ts_render_variant tag content v) (c15_sites false (ts_variant_docs' v)).
Proof.
  intros Ht Hc H. destruct v as [docs wire|docs wire ty opt nullu|docs wire ms]; cbn [ts_variant_ok ts_render_variant ts_variant_docs'] in *;
    c15_split_andb.
  - eapply Decomp_eq; [ts_decomp ltac:(fail)|]. c15_sites_norm.
  - eapply Decomp_eq; [ts_decomp ltac:(fail)|]. c15_sites_norm.
  - eapply Decomp_eq; [ts_decomp ltac:(apply ts_members_decomp; assumption)|]. c15_sites_norm.
Qed.

Lemma ts_variant_docs_eq v : ts_variant_docs' v = ts_variant_docs v.
Proof. destruct v; reflexivity. Qed.

Theorem ts_decl_decomp d : ts_decl_ok d = true -> D (ts_render_decl d) (c15_sites false (ts_decl_docs d)).
Proof.
  intros H. destruct d as [docs name gs ms|docs name gs ty undef nullu|name ty value|docs name gs vs|docs name gs tag content vs];
    cbn [ts_decl_ok ts_render_decl ts_decl_docs] in *; c15_split_andb.
  - eapply Decomp_eq; [ts_decomp ltac:(apply ts_members_decomp; assumption)|]. c15_sites_norm.
  - eapply Decomp_eq; [ts_decomp ltac:(fail)|]. c15_sites_norm.
  - eapply Decomp_eq; [ts_decomp ltac:(fail)|]. c15_sites_norm.
  - match goal with Hv : forallb _ vs = true |- _ => rename Hv into Hvs end.
    eapply Decomp_eq;
      [ts_decomp ltac:(apply (Decomp_concat_map C15ts NT) with (g := fun v => c15_sites false (fst (fst v)));
                       intros [[vdocs case] wire] Hin; rewrite forallb_forall in Hvs; specialize (Hvs _ Hin);
                       cbn [fst snd] in Hvs; c15_split_andb; eapply Decomp_eq)|..].
    all: c15_sites_norm.
  - match goal with Hv : forallb _ vs = true |- _ => rename Hv into Hvs end.
    eapply Decomp_eq;
      [ts_decomp ltac:(apply (Decomp_concat_map C15ts NT) with (g := fun v => c15_sites false (ts_variant_docs' v));
                       intros v Hin; rewrite forallb_forall in Hvs; apply ts_variant_decomp; auto)|].
    unfold c15_sites. cbn [app]. rewrite ?app_nil_r, map_app, c15_map_flat_map. reflexivity.
Qed.

(* ================= decisions: plain IR items give declarations with neutral code ================= *)
Section TSPlain.
Variable uc : unicode.
Variable cfg : ts_config.
Hypothesis Hmap : c15_mappings_plain C15ts (ts_type_mappings cfg) = true.

Ltac inv_ret H := unfold ret in H; injection H as <- _.

Lemma ts_special_mapped mapped s x s' :
  (mdo st <- mget;
   mdo _ <- (if has_custom_translation mapped then mput (tsmap_set st mapped []) else ret tt);
   ret (XRaw mapped)) s = Ok (x, s') -> x = XRaw mapped.
Proof.
  intros H. apply mbind_ok in H as (a & s1 & _ & H). apply mbind_ok in H as (b & s2 & _ & H). inv_ret H. reflexivity.
Qed.

Lemma ts_texp_plain gs t : c15_rtype_plain C15ts t = true ->
  forall s x s', ts_texp cfg gs t s = Ok (x, s') -> plain (ts_show x) = true.
Proof.
  induction t as [id|id ps IH|t IH|t n IH|t IH|k v IHk IHv|t IH|p] using rtype_ind'; intros Hp s x s' H;
    cbn [ts_texp c15_rtype_plain] in *.
  - inv_ret H. destruct (tmap_get (ts_type_mappings cfg) id) eqn:E; cbn [ts_show]; [eapply c15_tmap_get_plain; eauto|exact Hp].
  - apply andb_true_iff in Hp as [Hid Hps].
    destruct (tmap_get (ts_type_mappings cfg) id) eqn:E.
    + inv_ret H. cbn [ts_show]. eapply c15_tmap_get_plain; eauto.
    + rewrite c15_go_is_mmapM in H. apply mbind_ok in H as (parts & s1 & Hparts & H). inv_ret H.
      assert (HQ : Forall (fun y => plain (ts_show y) = true) parts).
      { eapply c15_mmapM_Forall; [|exact Hparts]. rewrite Forall_forall in IH |- *. intros t Ht.
        apply IH; [exact Ht|]. rewrite forallb_forall in Hps. now apply Hps. }
      cbn [ts_show]. destruct parts as [|y r]; [exact Hid|].
      rewrite !c15_plain_app, Hid. cbn [andb]. rewrite c15_plain_join; [reflexivity|reflexivity|].
      rewrite c15_forallb_map. now apply c15_Forall_forallb.
  - destruct (tmap_get (ts_type_mappings cfg) (rtype_display (RVec t))) eqn:E.
    + apply ts_special_mapped in H as ->. eapply c15_tmap_get_plain; eauto.
    + apply mbind_ok in H as (e & s1 & He & H). inv_ret H. cbn [ts_show]. rewrite c15_plain_app, (IH Hp _ _ _ He). reflexivity.
  - destruct (tmap_get (ts_type_mappings cfg) (rtype_display (RArray t n))) eqn:E.
    + apply ts_special_mapped in H as ->. eapply c15_tmap_get_plain; eauto.
    + apply mbind_ok in H as (e & s1 & He & H). inv_ret H. cbn [ts_show]. rewrite !c15_plain_app, c15_plain_join; [reflexivity|reflexivity|].
      rewrite c15_forallb_map. apply c15_forallb_repeat. exact (IH Hp _ _ _ He).
  - destruct (tmap_get (ts_type_mappings cfg) (rtype_display (RSlice t))) eqn:E.
    + apply ts_special_mapped in H as ->. eapply c15_tmap_get_plain; eauto.
    + apply mbind_ok in H as (e & s1 & He & H). inv_ret H. cbn [ts_show]. rewrite c15_plain_app, (IH Hp _ _ _ He). reflexivity.
  - apply andb_true_iff in Hp as [Hk Hv].
    destruct (tmap_get (ts_type_mappings cfg) (rtype_display (RHashMap k v))) eqn:E.
    + apply ts_special_mapped in H as ->. eapply c15_tmap_get_plain; eauto.
    + apply mbind_ok in H as (ks & s1 & Hks & H). apply mbind_ok in H as (vs & s2 & Hvs & H). inv_ret H.
      assert (Eks : plain (ts_show ks) = true).
      { destruct k; try exact (IHk Hk _ _ _ Hks). destruct (mem_str id gs); [discriminate|exact (IHk Hk _ _ _ Hks)]. }
      cbn [ts_show]. rewrite !c15_plain_app, Eks, (IHv Hv _ _ _ Hvs). reflexivity.
  - destruct (tmap_get (ts_type_mappings cfg) (rtype_display (ROption t))) eqn:E.
    + apply ts_special_mapped in H as ->. eapply c15_tmap_get_plain; eauto.
    + exact (IH Hp _ _ _ H).
  - destruct (tmap_get (ts_type_mappings cfg) (rtype_display (RPrim p))) eqn:E.
    + apply ts_special_mapped in H as ->. eapply c15_tmap_get_plain; eauto.
    + destruct p; try discriminate; inv_ret H; reflexivity.
Qed.

Lemma ts_member_ok_ir gs f st m st' : c15_field_plain C15ts TypeScript f = true ->
  ts_member_of cfg gs f st = Ok (m, st') -> ts_member_ok m = true.
Proof.
  unfold c15_field_plain, ts_member_of. intros Hf H. c15_split_andb.
  apply mbind_ok in H as (ty & s1 & Hty & H). apply mbind_ok in H as (s2 & s3 & _ & H).
  apply mbind_ok in H as (u & s4 & _ & H). inv_ret H. unfold ts_member_ok. cbn [tm_key tm_type].
  apply andb_true_iff. split; [assumption|].
  destruct (type_override f TypeScript).
  - inv_ret Hty. assumption.
  - eapply ts_texp_plain; eauto.
Qed.

Lemma ts_members_ok_ir gs fs st ms st' : forallb (c15_field_plain C15ts TypeScript) fs = true ->
  mmapM (ts_member_of cfg gs) fs st = Ok (ms, st') -> forallb ts_member_ok ms = true.
Proof.
  intros Hf H.
  apply (c15_Forall2_forallb (fun f m => c15_field_plain C15ts TypeScript f = true -> ts_member_ok m = true)
           (c15_field_plain C15ts TypeScript) _ fs ms); [|auto|exact Hf].
  eapply mmapM_Forall2; [|exact H]. intros f s0 m s0' Hm Hp. exact (ts_member_ok_ir _ _ _ _ _ Hp Hm).
Qed.

Definition ts_const_name (n : str) : str := str_to_uppercase uc (to_snake_case uc n).

Theorem ts_decl_ok_ir it st d st' : c15_item_plain C15ts TypeScript ts_const_name it = true ->
  ts_decl_of uc cfg it st = Ok (d, st') -> ts_decl_ok d = true.
Proof.
  destruct it as [s|[sh|tag content sh]|a|c]; cbn [ts_decl_of c15_item_plain enum_shared]; unfold c15_name_ok; intros Hp H; c15_split_andb.
  - apply mbind_ok in H as (ms & s1 & Hm & H). inv_ret H. cbn [ts_decl_ok].
    rewrite (ts_members_ok_ir _ _ _ _ _ ltac:(eassumption) Hm). repeat (apply andb_true_iff; split); auto.
  - apply mbind_ok in H as (vs & s1 & Hm & H). inv_ret H. cbn [ts_decl_ok].
    repeat (apply andb_true_iff; split); auto.
    apply (c15_Forall2_forallb
             (fun v x => c15_variant_plain C15ts TypeScript v = true -> (plain (snd (fst x)) && c15_lit_str (snd x)) = true)
             (c15_variant_plain C15ts TypeScript) _ (evariants sh) vs); [|auto|assumption].
    eapply mmapM_Forall2; [|exact Hm]. intros v s0 x s0' Hv Hpv.
    unfold c15_variant_plain, c15_name_ok in Hpv. c15_split_andb.
    destruct v as [vsh|t vsh|fs vsh]; cbn in Hv; try discriminate. inv_ret Hv. cbn [fst snd variant_shared] in *.
    apply andb_true_iff; split; assumption.
  - apply mbind_ok in H as (vs & s1 & Hm & H). inv_ret H. cbn [ts_decl_ok].
    repeat (apply andb_true_iff; split); auto.
    apply (c15_Forall2_forallb
             (fun v x => c15_variant_plain C15ts TypeScript v = true -> ts_variant_ok x = true)
             (c15_variant_plain C15ts TypeScript) _ (evariants sh) vs); [|auto|assumption].
    eapply mmapM_Forall2; [|exact Hm]. intros v s0 x s0' Hv Hpv.
    unfold c15_variant_plain, c15_name_ok in Hpv. c15_split_andb.
    destruct v as [vsh|t vsh|fs vsh]; cbn [ts_variant_of variant_shared] in *.
    + inv_ret Hv. assumption.
    + apply mbind_ok in Hv as (ty & s2 & Hty & Hv). inv_ret Hv. cbn [ts_variant_ok].
      apply andb_true_iff; split; [assumption|]. eapply ts_texp_plain; eauto.
    + apply mbind_ok in Hv as (ms & s2 & Hms & Hv). inv_ret Hv. cbn [ts_variant_ok].
      apply andb_true_iff; split; [assumption|]. eapply ts_members_ok_ir; eauto.
  - apply mbind_ok in H as (ty & s1 & Hty & H). inv_ret H. cbn [ts_decl_ok].
    repeat (apply andb_true_iff; split); auto. eapply ts_texp_plain; eauto.
  - apply mbind_ok in H as (ty & s1 & Hty & H). inv_ret H. cbn [ts_decl_ok].
    repeat (apply andb_true_iff; split); auto; [eapply ts_texp_plain; eauto|apply c15_plain_dec_of_Z].
Qed.

(* one item, no neutrality hypothesis *)
Theorem ts_item_decomp it st text st' : c15_item_plain C15ts TypeScript ts_const_name it = true ->
  ts_write_item uc cfg it st = Ok (text, st') -> D text (c15_sites false (c15_item_docs it)).
Proof.
  unfold ts_write_item. intros Hp H. apply mbind_ok in H as (d & s1 & Hd & H). inv_ret H.
  rewrite <- (ts_decl_docs_ir _ _ _ _ _ _ Hd). apply ts_decl_decomp. eapply ts_decl_ok_ir; eauto.
Qed.

Theorem C15_ts_item it st text st' : c15_item_plain C15ts TypeScript ts_const_name it = true ->
  ts_write_item uc cfg it st = Ok (text, st') ->
  exists parts,
    text = text_of (c15_file_pieces C15ts parts) /\
    docs_of (c15_file_pieces C15ts parts) = map c15_esc_ts (c15_item_docs it) /\
    c15_contained C15ts LCode (mark (c15_file_pieces C15ts parts)) = true.
Proof.
  intros Hp H. destruct (Decomp_contained _ _ _ (ts_item_decomp _ _ _ _ Hp H)) as (ps & Ht & Hd & Hc).
  exists ps. rewrite c15_sites_text_ts in Hd. rewrite c15_sites_ok_ts in Hc. auto.
Qed.
End TSPlain.

(* non-vacuity: a struct with a dashed key, a generic parameter, an Option<Vec<T>> field, and an algebraic enum
   with the three variant kinds satisfy the hypotheses, and the text the model prints for them (docs full of
   comment openers and quotes) is contained *)
Definition c15_nv_id (o r : string) : id := {| original := lit o; renamed := lit r; via_serde_rename := false |}.
Definition c15_nv_field (o r : string) (t : rtype) (docs : list str) : rfield :=
  {| fid := c15_nv_id o r; fty := t; fcomments := docs; has_default := false; fdecs := [] |}.
Definition c15_nv_struct : ritem :=
  ItStruct {| sid := c15_nv_id "Foo" "Foo"; sgenerics := [lit "T"];
              sfields := [c15_nv_field "a_b" "a-b" (ROption (RVec (RSimple (lit "T")))) [c15_doc_nasty_ts];
                          c15_nv_field "c" "c" (RHashMap (RPrim PString) (RGeneric (lit "Bar") [RPrim PU8])) [lit "x"; lit "y"]];
              scomments := [c15_doc_nasty_ts; lit "second"]; sdecs := []; sredacted := false |}.
Definition c15_nv_vsh (o r : string) (docs : list str) : vshared := {| vid := c15_nv_id o r; vcomments := docs |}.
Definition c15_nv_enum : ritem :=
  ItEnum (EAlgebraic (lit "type") (lit "content")
            {| eid := c15_nv_id "E" "E"; egenerics := []; ecomments := [lit "enum doc"];
               evariants := [VUnit (c15_nv_vsh "A" "a" [lit "unit"]);
                             VTuple (RPrim PString) (c15_nv_vsh "B" "b q" [c15_doc_nasty_ts]);
                             VAnon [c15_nv_field "x" "x" (RPrim PBool) [lit "field doc"]] (c15_nv_vsh "C" "c" [lit "struct variant"])];
               edecs := []; erecursive := false; eredacted := false |}).
Example C15_ts_item_nonvacuous :
  forallb (c15_item_plain C15ts TypeScript (ts_const_name uc_exec)) [c15_nv_struct; c15_nv_enum] = true /\
  c15_mappings_plain C15ts (ts_type_mappings c15_ts_cfg) = true /\
  match ts_write_item uc_exec c15_ts_cfg c15_nv_enum [] with
  | Ok (text, _) => good_C15 C15ts (map c15_esc_ts (c15_item_docs c15_nv_enum)) text
  | _ => false
  end = true.
Proof. repeat split; vm_compute; reflexivity. Qed.

(* ================================================================================================
   TypeScript, whole files: ts_generate = header ++ items (topological order, printer state threaded)
   ++ trailer (the reviver / replacer functions, printed when a Date / Uint8Array was met).
   ================================================================================================ *)
From Coq Require Import Permutation.
From TS Require Proofs.C11.

(* ---- the header: a block comment with the version, neutral when the version has no star ---- *)

Lemma ts_block_no_star v : c15_no_star v = true -> lex_str_gen cfg_ts (LBlock 0 PNone) v = LBlock 0 PNone.
Proof.
  unfold c15_no_star. induction v as [|c r IH]; [reflexivity|]. cbn [forallb]. intros H. apply andb_true_iff in H as [Hc Hr].
  cbn [lex_str_gen fold_left lex_gen is_star is_pslash andb cfg_ts lc_nested]. apply negb_true_iff in Hc. rewrite Hc. now apply IH.
Qed.

Lemma ts_begin_neutral cfg : c15_no_star (ts_version cfg) = true -> NT (ts_begin_file cfg).
Proof.
  intros H. unfold ts_begin_file. destruct (ts_no_version_header cfg); [reflexivity|].
  unfold c15_neutral. rewrite !lex_str_app. change (c15_cfg C15ts) with cfg_ts.
  change (lex_str_gen cfg_ts (lex_str_gen cfg_ts (lex_str_gen cfg_ts LCode (lit "/*")) nl) (lit " Generated by typeshare "))
    with (LBlock 0 PNone).
  rewrite (ts_block_no_star _ H). reflexivity.
Qed.

(* ---- the printer state: the property names collected for Date, printed raw between double quotes ---- *)
Definition ts_state_ok (st : ts_state) : bool := forallb (fun kv => forallb c15_ts_key_ok (snd kv)) st.


Lemma ts_raw_lex i : c15_ts_key_ok i = true -> lex_str_gen cfg_ts (LStr ch_dq false) i = LStr ch_dq false.
Proof.
  unfold c15_ts_key_ok. induction i as [|c r IH]; [reflexivity|]. cbn [forallb]. intros H. apply andb_true_iff in H as [Hc Hr].
  cbn [lex_str_gen fold_left lex_gen lex_quoted cfg_ts lc_eol]. unfold c15_ts_raw_char in Hc.
  apply andb_true_iff in Hc as [Hc He]. apply andb_true_iff in Hc as [Hq Hb].
  apply negb_true_iff in Hq, Hb, He. rewrite Hb, Hq, He. cbn [orb]. now apply IH.
Qed.

Lemma ts_key_eq_neutral i : c15_ts_key_ok i = true -> NT (lit "key === """ ++ i ++ lit """").
Proof.
  intros H. unfold c15_neutral. rewrite !lex_str_app. change (c15_cfg C15ts) with cfg_ts.
  change (lex_str_gen cfg_ts LCode (lit "key === """)) with (LStr ch_dq false). rewrite (ts_raw_lex i H). reflexivity.
Qed.

Lemma ts_state_get st k ids : ts_state_ok st = true -> tsmap_get st k = Some ids -> forallb c15_ts_key_ok ids = true.
Proof.
  unfold ts_state_ok. induction st as [|[a v] r IH]; [discriminate|]. cbn [forallb tsmap_get snd]. intros H. apply andb_true_iff in H as [Hv Hr].
  destruct (str_eqb a k); [intros E; injection E as <-; exact Hv|now apply IH].
Qed.

Lemma ts_state_set st k v : ts_state_ok st = true -> forallb c15_ts_key_ok v = true -> ts_state_ok (tsmap_set st k v) = true.
Proof.
  unfold ts_state_ok. intros Hs Hv. induction st as [|[a w] r IH]; cbn [tsmap_set forallb snd]; [now rewrite Hv|].
  cbn [forallb snd] in Hs. apply andb_true_iff in Hs as [Hw Hr].
  destruct (str_eqb a k); [cbn [forallb snd]; now rewrite Hv, Hr|].
  destruct (str_ltb k a); cbn [forallb snd]; [now rewrite Hv, Hw, Hr|]. now rewrite Hw, IH.
Qed.

Lemma c15_sset_insert_forallb (p : str -> bool) x s : p x = true -> forallb p s = true -> forallb p (sset_insert x s) = true.
Proof.
  intros Hx. induction s as [|y r IH]; intros H; cbn [sset_insert forallb]; [now rewrite Hx|].
  cbn [forallb] in H. apply andb_true_iff in H as [Hy Hr].
  destruct (str_eqb x y); [cbn [forallb]; now rewrite Hy, Hr|].
  destruct (str_ltb x y); cbn [forallb]; [now rewrite Hx, Hy, Hr|]. now rewrite Hy, IH.
Qed.

Lemma c15_mmapM_inv {St A B} (Inv : St -> Prop) (f : A -> M St B) l :
  Forall (fun x => forall s y s', f x s = Ok (y, s') -> Inv s -> Inv s') l ->
  forall s ys s', mmapM f l s = Ok (ys, s') -> Inv s -> Inv s'.
Proof.
  induction 1 as [|x l Hx _ IH]; intros s ys s' H Hs; cbn [mmapM] in H.
  - unfold ret in H. injection H as _ <-. exact Hs.
  - apply mbind_ok in H as (y & s1 & Hy & H). apply mbind_ok in H as (ys' & s2 & Hys & H).
    unfold ret in H. injection H as _ <-. eauto.
Qed.

Section TSFile.
Variable uc : unicode.
Variable cfg : ts_config.
Hypothesis Hmap : c15_mappings_plain C15ts (ts_type_mappings cfg) = true.
Notation Inv := (fun st : ts_state => ts_state_ok st = true).

Ltac inv_ret H := unfold ret in H; injection H as <- <-.

Lemma ts_special_mapped_inv mapped s x s' :
  (mdo st <- mget;
   mdo _ <- (if has_custom_translation mapped then mput (tsmap_set st mapped []) else ret tt);
   ret (XRaw mapped)) s = Ok (x, s') -> Inv s -> Inv s'.
Proof.
  intros H Hs. apply mbind_ok in H as (a & s1 & Ha & H). unfold mget in Ha. injection Ha as <- <-.
  apply mbind_ok in H as (b & s2 & Hb & H). inv_ret H.
  destruct (has_custom_translation mapped).
  - unfold mput in Hb. injection Hb as _ <-. now apply ts_state_set.
  - unfold ret in Hb. injection Hb as _ <-. exact Hs.
Qed.

Lemma ts_texp_inv gs t : forall s x s', ts_texp cfg gs t s = Ok (x, s') -> Inv s -> Inv s'.
Proof.
  induction t as [id|id ps IH|t IH|t n IH|t IH|k v IHk IHv|t IH|p] using rtype_ind'; intros s x s' H Hs; cbn [ts_texp] in H.
  - inv_ret H. exact Hs.
  - destruct (tmap_get (ts_type_mappings cfg) id).
    + inv_ret H. exact Hs.
    + rewrite c15_go_is_mmapM in H. apply mbind_ok in H as (parts & s1 & Hparts & H). inv_ret H.
      eapply (c15_mmapM_inv Inv); [|exact Hparts|exact Hs]. eapply Forall_impl; [|exact IH]. cbn. intros t Ht. exact Ht.
  - destruct (tmap_get (ts_type_mappings cfg) (rtype_display (RVec t))); [eapply ts_special_mapped_inv; eauto|].
    apply mbind_ok in H as (e & s1 & He & H). inv_ret H. eauto.
  - destruct (tmap_get (ts_type_mappings cfg) (rtype_display (RArray t n))); [eapply ts_special_mapped_inv; eauto|].
    apply mbind_ok in H as (e & s1 & He & H). inv_ret H. eauto.
  - destruct (tmap_get (ts_type_mappings cfg) (rtype_display (RSlice t))); [eapply ts_special_mapped_inv; eauto|].
    apply mbind_ok in H as (e & s1 & He & H). inv_ret H. eauto.
  - destruct (tmap_get (ts_type_mappings cfg) (rtype_display (RHashMap k v))); [eapply ts_special_mapped_inv; eauto|].
    apply mbind_ok in H as (ks & s1 & Hks & H). apply mbind_ok in H as (vs & s2 & Hvs & H). inv_ret H.
    assert (Inv s1).
    { destruct k; try exact (IHk _ _ _ Hks Hs). destruct (mem_str id gs); [discriminate|exact (IHk _ _ _ Hks Hs)]. }
    eauto.
  - destruct (tmap_get (ts_type_mappings cfg) (rtype_display (ROption t))); [eapply ts_special_mapped_inv; eauto|]. eauto.
  - destruct (tmap_get (ts_type_mappings cfg) (rtype_display (RPrim p))); [eapply ts_special_mapped_inv; eauto|].
    destruct p; try discriminate; inv_ret H; exact Hs.
Qed.


Lemma ts_member_inv gs f s m s' : c15_ts_field_key_ok f = true -> ts_member_of cfg gs f s = Ok (m, s') -> Inv s -> Inv s'.
Proof.
  unfold ts_member_of, c15_ts_field_key_ok. intros Hk H Hs.
  apply mbind_ok in H as (ty & s1 & Hty & H). apply mbind_ok in H as (s2 & s3 & Hg & H). unfold mget in Hg. injection Hg as <- <-.
  apply mbind_ok in H as (u & s4 & Hu & H). inv_ret H.
  assert (Hs1 : Inv s1).
  { destruct (type_override f TypeScript); [inv_ret Hty; exact Hs|eapply ts_texp_inv; eauto]. }
  destruct (has_custom_translation (ts_show ty)).
  - unfold mput in Hu. injection Hu as _ <-. apply ts_state_set; [exact Hs1|].
    apply c15_sset_insert_forallb; [exact Hk|].
    destruct (tsmap_get s1 (ts_show ty)) eqn:E; [exact (ts_state_get _ _ _ Hs1 E)|reflexivity].
  - unfold ret in Hu. injection Hu as _ <-. exact Hs1.
Qed.

Lemma ts_members_inv gs fs s ms s' : forallb c15_ts_field_key_ok fs = true ->
  mmapM (ts_member_of cfg gs) fs s = Ok (ms, s') -> Inv s -> Inv s'.
Proof.
  intros Hk. apply (c15_mmapM_inv Inv). rewrite Forall_forall. rewrite forallb_forall in Hk.
  intros f Hf s0 y s0' Hy. eapply ts_member_inv; eauto.
Qed.


Lemma ts_decl_inv it s d s' : c15_ts_item_keys_ok it = true -> ts_decl_of uc cfg it s = Ok (d, s') -> Inv s -> Inv s'.
Proof.
  destruct it as [rs|[sh|tag content sh]|a|c]; cbn [ts_decl_of c15_ts_item_keys_ok enum_shared]; intros Hk H Hs.
  - apply mbind_ok in H as (ms & s1 & Hm & H). inv_ret H. eapply ts_members_inv; eauto.
  - apply mbind_ok in H as (vs & s1 & Hm & H). inv_ret H.
    eapply (c15_mmapM_inv Inv); [|exact Hm|exact Hs]. rewrite Forall_forall. intros v _ s0 y s0' Hy Hs0.
    destruct v; try discriminate. inv_ret Hy. exact Hs0.
  - apply mbind_ok in H as (vs & s1 & Hm & H). inv_ret H.
    eapply (c15_mmapM_inv Inv); [|exact Hm|exact Hs]. rewrite Forall_forall. rewrite forallb_forall in Hk.
    intros v Hv s0 y s0' Hy Hs0. specialize (Hk v Hv). destruct v as [vsh|t vsh|fs vsh]; cbn [ts_variant_of] in Hy.
    + inv_ret Hy. exact Hs0.
    + apply mbind_ok in Hy as (ty & s2 & Hty & Hy). inv_ret Hy. eapply ts_texp_inv; eauto.
    + apply mbind_ok in Hy as (ms & s2 & Hms & Hy). inv_ret Hy. eapply ts_members_inv; eauto.
  - apply mbind_ok in H as (ty & s1 & Hty & H). inv_ret H. eapply ts_texp_inv; eauto.
  - apply mbind_ok in H as (ty & s1 & Hty & H). inv_ret H. eapply ts_texp_inv; eauto.
Qed.

(* ---- the trailer ---- *)

Lemma ts_date_reviver_neutral st : ts_state_ok st = true -> NT (date_reviver st).
Proof.
  intros Hs. unfold date_reviver. cbv zeta.
  assert (Hid : NT (match tsmap_get st DATE with
                    | Some [] | None => []
                    | Some ids => lit " && (" ++ join (lit " || ") (map (fun i => lit "key === """ ++ i ++ lit """") ids) ++ lit ")"
                    end)).
  { destruct (tsmap_get st DATE) as [ids|] eqn:E; [|reflexivity]. destruct ids as [|i r]; [reflexivity|].
    pose proof (ts_state_get _ _ _ Hs E) as Hids.
    apply c15_neutral_app; [vm_compute; reflexivity|]. apply c15_neutral_app; [|vm_compute; reflexivity].
    apply c15_neutral_join; [vm_compute; reflexivity|]. rewrite Forall_forall. intros x Hx.
    apply in_map_iff in Hx as (k & <- & Hk). apply ts_key_eq_neutral. rewrite forallb_forall in Hids. now apply Hids. }
  repeat (apply c15_neutral_app; [first [exact Hid | vm_compute; reflexivity]|]). vm_compute; reflexivity.
Qed.

Lemma ts_contents_neutral st : ts_state_ok st = true ->
  let contents := flat_map (fun kv => match custom_translations st (fst kv) with Some c => [c] | None => [] end) st in
  Forall NT (map fst contents) /\ Forall NT (map snd contents).
Proof.
  intros Hs. cbv zeta. generalize st at 2 4. intros l. induction l as [|kv r [IH1 IH2]]; [split; constructor|].
  cbn [flat_map]. unfold custom_translations at 1 3.
  destruct (str_eqb (fst kv) UINT8ARRAY); [|destruct (str_eqb (fst kv) DATE)]; cbn [app map fst snd]; split;
    try assumption; constructor; try assumption; try (vm_compute; reflexivity).
  now apply ts_date_reviver_neutral.
Qed.

Lemma ts_end_file_decomp st : ts_state_ok st = true ->
  D (ts_end_file st) (c15_sites false (match st with [] => [] | _ => c15_ts_trailer_docs end)).
Proof.
  intros Hs. unfold ts_end_file. destruct st as [|kv r]; [apply Decomp_nil|]. cbv zeta.
  destruct (ts_contents_neutral _ Hs) as [H1 H2]. cbv zeta in H1, H2.
  eapply Decomp_eq.
  - c15_decomp ltac:(apply ts_comments_decomp)
               ltac:(apply Decomp_code; apply c15_neutral_join; [vm_compute; reflexivity|assumption])
               ltac:(vm_compute; reflexivity).
  - c15_sites_norm.
Qed.

(* ---- items in sequence ---- *)
Lemma ts_items_decomp items : forall s texts s',
  forallb (c15_item_plain C15ts TypeScript (ts_const_name uc)) items = true ->
  forallb c15_ts_item_keys_ok items = true ->
  mmapM (ts_write_item uc cfg) items s = Ok (texts, s') -> Inv s ->
  D (List.concat texts) (c15_sites false (flat_map c15_item_docs items)) /\ Inv s'.
Proof.
  induction items as [|it r IH]; intros s texts s' Hp Hk H Hs; cbn [mmapM] in H.
  - unfold ret in H. injection H as <- <-. split; [apply Decomp_nil|exact Hs].
  - cbn [forallb] in Hp, Hk. apply andb_true_iff in Hp as [Hp1 Hp2]. apply andb_true_iff in Hk as [Hk1 Hk2].
    apply mbind_ok in H as (t & s1 & Ht & H). apply mbind_ok in H as (ts & s2 & Hts & H).
    unfold ret in H. injection H as <- <-.
    assert (Hs1 : Inv s1).
    { unfold ts_write_item in Ht. apply mbind_ok in Ht as (d & s3 & Hd & Ht). unfold ret in Ht. injection Ht as _ <-.
      eapply ts_decl_inv; eauto. }
    destruct (IH _ _ _ Hp2 Hk2 Hts Hs1) as [HD Hs2]. split; [|exact Hs2].
    cbn [List.concat flat_map]. unfold c15_sites. rewrite map_app. apply Decomp_app; [|exact HD].
    exact (ts_item_decomp uc cfg Hmap _ _ _ _ Hp1 Ht).
Qed.

(* ---- the whole file ---- *)
Theorem ts_file_decomp pd text :
  c15_no_star (ts_version cfg) = true ->
  forallb (c15_item_plain C15ts TypeScript (ts_const_name uc)) (items_of pd) = true ->
  forallb c15_ts_item_keys_ok (items_of pd) = true ->
  ts_generate uc cfg pd = Ok text ->
  exists items trailer,
    topsort (items_of pd) = Ok items /\ Permutation items (items_of pd) /\
    (trailer = [] \/ trailer = c15_ts_trailer_docs) /\
    D text (c15_sites false (flat_map c15_item_docs items ++ trailer)).
Proof.
  intros Hv Hp Hk H. unfold ts_generate in H. apply c15_bind_ok in H as (items & Hitems & H).
  assert (Hperm : Permutation items (items_of pd)).
  { assert (H' := Hitems). unfold topsort in H'. destruct (build_dag (items_of pd)) as [dag| |] eqn:E; cbn [bind] in H'; try discriminate.
    destruct (Proofs.C11.topsort_permutation _ _ E) as (out & Eo & P). rewrite Hitems in Eo. injection Eo as <-. exact P. }
  rewrite <- (c15_forallb_perm _ _ _ Hperm) in Hp. rewrite <- (c15_forallb_perm _ _ _ Hperm) in Hk.
  unfold mconcat, mbind in H. destruct (mmapM (ts_write_item uc cfg) items []) as [[texts st]| |] eqn:E; try discriminate.
  unfold ret in H. injection H as <-.
  destruct (ts_items_decomp items _ _ _ Hp Hk E eq_refl) as [HD Hst].
  exists items, (match st with [] => [] | _ => c15_ts_trailer_docs end). repeat split; auto.
  - destruct st; auto.
  - unfold c15_sites. rewrite map_app, <- (app_nil_l (map _ (flat_map _ _) ++ _)).
    apply Decomp_app; [apply Decomp_code; now apply ts_begin_neutral|].
    apply Decomp_app; [exact HD|]. now apply ts_end_file_decomp.
Qed.

Theorem C15_ts_file pd text :
  c15_no_star (ts_version cfg) = true ->
  forallb (c15_item_plain C15ts TypeScript (ts_const_name uc)) (items_of pd) = true ->
  forallb c15_ts_item_keys_ok (items_of pd) = true ->
  ts_generate uc cfg pd = Ok text ->
  exists items trailer parts,
    topsort (items_of pd) = Ok items /\ Permutation items (items_of pd) /\
    (trailer = [] \/ trailer = c15_ts_trailer_docs) /\
    text = text_of (c15_file_pieces C15ts parts) /\
    docs_of (c15_file_pieces C15ts parts) = map c15_esc_ts (flat_map c15_item_docs items ++ trailer) /\
    c15_contained C15ts LCode (mark (c15_file_pieces C15ts parts)) = true.
Proof.
  intros Hv Hp Hk H. destruct (ts_file_decomp _ _ Hv Hp Hk H) as (items & trailer & Ht & Hperm & Htr & HD).
  destruct (Decomp_contained _ _ _ HD) as (ps & Htext & Hd & Hc).
  exists items, trailer, ps. rewrite c15_sites_text_ts in Hd. rewrite c15_sites_ok_ts in Hc.
  repeat split; auto.
Qed.
End TSFile.

(* non-vacuity for whole files: a version header, a type mapping, a struct with a Date field (so that the printer
   state is not empty and the reviver / replacer trailer is printed with the field's key in it), an algebraic enum *)
Definition c15_nv_file_cfg : ts_config :=
  {| ts_type_mappings := [(lit "Url", lit "string")]; ts_no_version_header := false; ts_version := lit "1.13.2" |}.
Definition c15_nv_pd : parsed :=
  {| p_structs := [ {| sid := c15_nv_id "Foo" "Foo"; sgenerics := [];
                       sfields := [c15_nv_field "when" "when" (RPrim PDateTime) [c15_doc_nasty_ts];
                                   c15_nv_field "site" "site" (RSimple (lit "Url")) [lit "mapped"]];
                       scomments := [lit "a struct"]; sdecs := []; sredacted := false |} ];
     p_enums := [ match c15_nv_enum with ItEnum e => e | _ => EUnit {| eid := c15_nv_id "X" "X"; egenerics := []; ecomments := []; evariants := [];
                                                                       edecs := []; erecursive := false; eredacted := false |} end ];
     p_aliases := []; p_consts := []; p_type_names := [lit "Foo"; lit "E"]; p_errors := []; p_imports := [] |}.
Example C15_ts_file_nonvacuous :
  c15_mappings_plain C15ts (ts_type_mappings c15_nv_file_cfg) = true /\
  c15_no_star (ts_version c15_nv_file_cfg) = true /\
  forallb (c15_item_plain C15ts TypeScript (ts_const_name uc_exec)) (items_of c15_nv_pd) = true /\
  forallb c15_ts_item_keys_ok (items_of c15_nv_pd) = true /\
  match ts_generate uc_exec c15_nv_file_cfg c15_nv_pd with
  | Ok text => good_C15 C15ts (map c15_esc_ts (flat_map c15_item_docs (items_of c15_nv_pd))) text &&
               contains_sub (lit "key === ""when""") text && contains_sub (lit "Generated by typeshare 1.13.2") text
  | _ => false
  end = true.
Proof. repeat split; vm_compute; reflexivity. Qed.
