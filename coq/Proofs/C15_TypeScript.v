(* C15 for TypeScript WITHOUT the neutrality hypothesis: the code the model's printer writes around the
   comment fragments keeps the reference lexer in code mode, for every item whose identifiers, keys and
   mapped type texts are plain (Spec/C15Render.v: c15_item_plain, c15_mappings_plain).  Hence the text
   printed for such an item is contained iff all its doc strings are safe_ts; then the same for whole
   files (ts_generate: header, items in topological order, the reviver / replacer trailer). *)
From Coq Require Import List NArith Bool Lia ZifyBool ZifyN String.
From TS Require Import Model.Str Model.Outcome Model.Unicode Model.Types Model.Parse Model.Rename
                       Model.TopsortAlgo Model.Topsort Model.Lang.Common Model.Lang.Decl Model.Lang.TypeScript.
From TS Require Import Spec.Lexers Spec.C15Spec Spec.C15Render Proofs.BackCommon Proofs.C15 Proofs.C15_Render.
Import ListNotations.
Local Open Scope N_scope.

Ltac c15_sites_norm :=
  unfold c15_sites; cbn [app]; rewrite ?app_nil_r, ?map_app, ?c15_map_flat_map; cbn [app map]; rewrite ?app_nil_r; reflexivity.

Notation NT := (c15_neutral C15ts).
Notation plain := (c15_plain C15ts).

(* ---- a {:?}-printed string is one double-quoted literal ---- *)
Lemma ts_escape_lex c : c15_lit_char c = true ->
  lex_str_gen cfg_ts (LStr ch_dq false) (escape_debug_char c) = LStr ch_dq false.
Proof.
  unfold c15_lit_char, escape_debug_char, ch_dq, ch_bs, ch_nl, ch_cr, ch_tab, ch_sq. intros H.
  repeat match goal with |- context [if ?b then _ else _] => let E := fresh in destruct b eqn:E; [try reflexivity; lia|] end.
  cbn [lex_str_gen fold_left lex_gen lex_quoted cfg_ts lc_eol]. unfold ch_bs, ch_dq, eol_js, ch_nl, ch_cr.
  replace (c =? 92) with false by lia. replace ((c =? 34) || ((c =? 10) || (c =? 13) || (c =? 8232) || (c =? 8233))) with false by lia.
  reflexivity.
Qed.

Lemma ts_debug_neutral s : c15_lit_str s = true -> NT (debug_str s).
Proof.
  intros H. unfold c15_neutral, debug_str. rewrite lex_str_app. change (lex_str_gen (c15_cfg C15ts) LCode [ch_dq]) with (LStr ch_dq false).
  rewrite lex_str_app. replace (lex_str_gen (c15_cfg C15ts) (LStr ch_dq false) (flat_map escape_debug_char s)) with (LStr ch_dq false); [reflexivity|].
  unfold c15_lit_str in H. induction s as [|c r IH]; [reflexivity|].
  cbn [forallb] in H. apply andb_true_iff in H as [Hc Hr]. cbn [flat_map]. rewrite lex_str_app.
  change (c15_cfg C15ts) with cfg_ts. rewrite (ts_escape_lex c Hc). now apply IH.
Qed.

Lemma ts_rename_neutral k : c15_name_ok C15ts k = true -> NT (typescript_property_aware_rename k).
Proof.
  unfold c15_name_ok. intros H. apply andb_true_iff in H as [Hp Hl]. unfold typescript_property_aware_rename.
  destruct (contains_char ch_dash k); [now apply ts_debug_neutral|now apply c15_neutral_plain].
Qed.

(* ================= layout: the code parts of ts_render_decl are neutral ================= *)
Definition ts_member_ok (m : ts_member) : bool := c15_name_ok C15ts (tm_key m) && plain (ts_show (tm_type m)).
Definition ts_variant_ok (v : ts_variant) : bool :=
  match v with
  | TVUnit _ wire => c15_lit_str wire
  | TVTuple _ wire ty _ => c15_lit_str wire && plain (ts_show ty)
  | TVStruct _ wire ms => c15_lit_str wire && forallb ts_member_ok ms
  end.
Definition ts_decl_ok (d : ts_decl) : bool :=
  match d with
  | TSInterface _ name gs ms => plain name && forallb plain gs && forallb ts_member_ok ms
  | TSAlias _ name gs ty _ => plain name && forallb plain gs && plain (ts_show ty)
  | TSConst name ty value => plain name && plain (ts_show ty) && plain value
  | TSUnitEnum _ name gs vs => plain name && forallb plain gs && forallb (fun v => plain (snd (fst v)) && c15_lit_str (snd v)) vs
  | TSUnion _ name gs tag content vs => plain name && forallb plain gs && plain tag && plain content && forallb ts_variant_ok vs
  end.

Notation D := (Decomp C15ts NT).

Lemma ts_comments_decomp i ds : D (ts_comments i ds) (c15_sites false ds).
Proof. rewrite <- (proj1 (C15_fragment_ts i ds)). exact (Decomp_frag C15ts NT false i ds). Qed.

(* a code atom: a plain string, a generics suffix, a quoted string, an optional literal, a literal *)
Ltac ts_atom :=
  first [ apply c15_neutral_plain; assumption
        | apply c15_neutral_plain; apply c15_plain_generics_suffix; assumption
        | apply ts_debug_neutral; assumption
        | apply ts_rename_neutral; assumption
        | match goal with |- c15_neutral _ (if ?b then _ else _) => destruct b end; vm_compute; reflexivity
        | vm_compute; reflexivity ].
(* the quoted atoms are recognised BEFORE ++ is split (debug_str unfolds to an append) *)
Ltac ts_quoted :=
  apply Decomp_code;
  first [ apply ts_debug_neutral; assumption
        | apply ts_rename_neutral; assumption
        | apply c15_neutral_plain; apply c15_plain_generics_suffix; assumption ].
Ltac ts_decomp tac := c15_decomp ltac:(apply ts_comments_decomp) ltac:(first [tac | ts_quoted]) ts_atom.

Lemma ts_member_decomp m : ts_member_ok m = true -> D (ts_render_member m) (c15_sites false (tm_docs m)).
Proof.
  unfold ts_member_ok, ts_render_member. intros H. c15_split_andb.
  eapply Decomp_eq; [ts_decomp ltac:(fail)|]. c15_sites_norm.
Qed.

Lemma ts_members_decomp ms : forallb ts_member_ok ms = true ->
  D (List.concat (map ts_render_member ms)) (flat_map (fun m => c15_sites false (tm_docs m)) ms).
Proof.
  intros H. apply Decomp_concat_map. intros m Hm. apply ts_member_decomp.
  rewrite forallb_forall in H. now apply H.
Qed.

Definition ts_variant_docs' (v : ts_variant) : list str :=
  match v with
  | TVUnit docs _ | TVTuple docs _ _ _ => docs
  | TVStruct docs _ ms => docs ++ flat_map tm_docs ms
  end.

Lemma ts_variant_decomp tag content v : plain tag = true -> plain content = true -> ts_variant_ok v = true ->
  D (ts_render_variant tag content v) (c15_sites false (ts_variant_docs' v)).
Proof.
  intros Ht Hc H. destruct v as [docs wire|docs wire ty opt|docs wire ms]; cbn [ts_variant_ok ts_render_variant ts_variant_docs'] in *;
    c15_split_andb.
  - eapply Decomp_eq; [ts_decomp ltac:(fail)|]. c15_sites_norm.
  - eapply Decomp_eq; [ts_decomp ltac:(fail)|]. c15_sites_norm.
  - eapply Decomp_eq; [ts_decomp ltac:(apply ts_members_decomp; assumption)|]. c15_sites_norm.
Qed.

Lemma ts_variant_docs_eq v : ts_variant_docs' v = ts_variant_docs v.
Proof. destruct v; reflexivity. Qed.

Theorem ts_decl_decomp d : ts_decl_ok d = true -> D (ts_render_decl d) (c15_sites false (ts_decl_docs d)).
Proof.
  intros H. destruct d as [docs name gs ms|docs name gs ty undef|name ty value|docs name gs vs|docs name gs tag content vs];
    cbn [ts_decl_ok ts_render_decl ts_decl_docs] in *; c15_split_andb.
  - eapply Decomp_eq; [ts_decomp ltac:(apply ts_members_decomp; assumption)|]. c15_sites_norm.
  - eapply Decomp_eq; [ts_decomp ltac:(fail)|]. c15_sites_norm.
  - eapply Decomp_eq; [ts_decomp ltac:(fail)|]. c15_sites_norm.
  - match goal with Hv : forallb _ vs = true |- _ => rename Hv into Hvs end.
    eapply Decomp_eq;
      [ts_decomp ltac:(apply (Decomp_concat_map C15ts NT) with (g := fun v => c15_sites false (fst (fst v)));
                       intros [[vdocs case] wire] Hin; rewrite forallb_forall in Hvs; specialize (Hvs _ Hin);
                       cbn [fst snd] in Hvs; c15_split_andb; eapply Decomp_eq)|..].
    all: c15_sites_norm.
  - match goal with Hv : forallb _ vs = true |- _ => rename Hv into Hvs end.
    eapply Decomp_eq;
      [ts_decomp ltac:(apply (Decomp_concat_map C15ts NT) with (g := fun v => c15_sites false (ts_variant_docs' v));
                       intros v Hin; rewrite forallb_forall in Hvs; apply ts_variant_decomp; auto)|].
    unfold c15_sites. cbn [app]. rewrite ?app_nil_r, map_app, c15_map_flat_map. reflexivity.
Qed.

(* ================= decisions: plain IR items give declarations with neutral code ================= *)
Section TSPlain.
Variable uc : unicode.
Variable cfg : ts_config.
Hypothesis Hmap : c15_mappings_plain C15ts (ts_type_mappings cfg) = true.

Ltac inv_ret H := unfold ret in H; injection H as <- _.

Lemma ts_special_mapped mapped s x s' :
  (mdo st <- mget;
   mdo _ <- (if has_custom_translation mapped then mput (tsmap_set st mapped []) else ret tt);
   ret (XRaw mapped)) s = Ok (x, s') -> x = XRaw mapped.
Proof.
  intros H. apply mbind_ok in H as (a & s1 & _ & H). apply mbind_ok in H as (b & s2 & _ & H). inv_ret H. reflexivity.
Qed.

Lemma ts_texp_plain gs t : c15_rtype_plain C15ts t = true ->
  forall s x s', ts_texp cfg gs t s = Ok (x, s') -> plain (ts_show x) = true.
Proof.
  induction t as [id|id ps IH|t IH|t n IH|t IH|k v IHk IHv|t IH|p] using rtype_ind'; intros Hp s x s' H;
    cbn [ts_texp c15_rtype_plain] in *.
  - inv_ret H. destruct (tmap_get (ts_type_mappings cfg) id) eqn:E; cbn [ts_show]; [eapply c15_tmap_get_plain; eauto|exact Hp].
  - apply andb_true_iff in Hp as [Hid Hps].
    destruct (tmap_get (ts_type_mappings cfg) id) eqn:E.
    + inv_ret H. cbn [ts_show]. eapply c15_tmap_get_plain; eauto.
    + rewrite c15_go_is_mmapM in H. apply mbind_ok in H as (parts & s1 & Hparts & H). inv_ret H.
      assert (HQ : Forall (fun y => plain (ts_show y) = true) parts).
      { eapply c15_mmapM_Forall; [|exact Hparts]. rewrite Forall_forall in IH |- *. intros t Ht.
        apply IH; [exact Ht|]. rewrite forallb_forall in Hps. now apply Hps. }
      cbn [ts_show]. destruct parts as [|y r]; [exact Hid|].
      rewrite !c15_plain_app, Hid. cbn [andb]. rewrite c15_plain_join; [reflexivity|reflexivity|].
      rewrite c15_forallb_map. now apply c15_Forall_forallb.
  - destruct (tmap_get (ts_type_mappings cfg) (rtype_display (RVec t))) eqn:E.
    + apply ts_special_mapped in H as ->. eapply c15_tmap_get_plain; eauto.
    + apply mbind_ok in H as (e & s1 & He & H). inv_ret H. cbn [ts_show]. rewrite c15_plain_app, (IH Hp _ _ _ He). reflexivity.
  - destruct (tmap_get (ts_type_mappings cfg) (rtype_display (RArray t n))) eqn:E.
    + apply ts_special_mapped in H as ->. eapply c15_tmap_get_plain; eauto.
    + apply mbind_ok in H as (e & s1 & He & H). inv_ret H. cbn [ts_show]. rewrite !c15_plain_app, c15_plain_join; [reflexivity|reflexivity|].
      rewrite c15_forallb_map. apply c15_forallb_repeat. exact (IH Hp _ _ _ He).
  - destruct (tmap_get (ts_type_mappings cfg) (rtype_display (RSlice t))) eqn:E.
    + apply ts_special_mapped in H as ->. eapply c15_tmap_get_plain; eauto.
    + apply mbind_ok in H as (e & s1 & He & H). inv_ret H. cbn [ts_show]. rewrite c15_plain_app, (IH Hp _ _ _ He). reflexivity.
  - apply andb_true_iff in Hp as [Hk Hv].
    destruct (tmap_get (ts_type_mappings cfg) (rtype_display (RHashMap k v))) eqn:E.
    + apply ts_special_mapped in H as ->. eapply c15_tmap_get_plain; eauto.
    + apply mbind_ok in H as (ks & s1 & Hks & H). apply mbind_ok in H as (vs & s2 & Hvs & H). inv_ret H.
      assert (Eks : plain (ts_show ks) = true).
      { destruct k; try exact (IHk Hk _ _ _ Hks). destruct (mem_str id gs); [discriminate|exact (IHk Hk _ _ _ Hks)]. }
      cbn [ts_show]. rewrite !c15_plain_app, Eks, (IHv Hv _ _ _ Hvs). reflexivity.
  - destruct (tmap_get (ts_type_mappings cfg) (rtype_display (ROption t))) eqn:E.
    + apply ts_special_mapped in H as ->. eapply c15_tmap_get_plain; eauto.
    + exact (IH Hp _ _ _ H).
  - destruct (tmap_get (ts_type_mappings cfg) (rtype_display (RPrim p))) eqn:E.
    + apply ts_special_mapped in H as ->. eapply c15_tmap_get_plain; eauto.
    + destruct p; try discriminate; inv_ret H; reflexivity.
Qed.

Lemma ts_member_ok_ir gs f st m st' : c15_field_plain C15ts TypeScript f = true ->
  ts_member_of cfg gs f st = Ok (m, st') -> ts_member_ok m = true.
Proof.
  unfold c15_field_plain, ts_member_of. intros Hf H. c15_split_andb.
  apply mbind_ok in H as (ty & s1 & Hty & H). apply mbind_ok in H as (s2 & s3 & _ & H).
  apply mbind_ok in H as (u & s4 & _ & H). inv_ret H. unfold ts_member_ok. cbn [tm_key tm_type].
  apply andb_true_iff. split; [assumption|].
  destruct (type_override f TypeScript).
  - inv_ret Hty. assumption.
  - eapply ts_texp_plain; eauto.
Qed.

Lemma ts_members_ok_ir gs fs st ms st' : forallb (c15_field_plain C15ts TypeScript) fs = true ->
  mmapM (ts_member_of cfg gs) fs st = Ok (ms, st') -> forallb ts_member_ok ms = true.
Proof.
  intros Hf H.
  apply (c15_Forall2_forallb (fun f m => c15_field_plain C15ts TypeScript f = true -> ts_member_ok m = true)
           (c15_field_plain C15ts TypeScript) _ fs ms); [|auto|exact Hf].
  eapply mmapM_Forall2; [|exact H]. intros f s0 m s0' Hm Hp. exact (ts_member_ok_ir _ _ _ _ _ Hp Hm).
Qed.

Definition ts_const_name (n : str) : str := str_to_uppercase uc (to_snake_case uc n).

Theorem ts_decl_ok_ir it st d st' : c15_item_plain C15ts TypeScript ts_const_name it = true ->
  ts_decl_of uc cfg it st = Ok (d, st') -> ts_decl_ok d = true.
Proof.
  destruct it as [s|[sh|tag content sh]|a|c]; cbn [ts_decl_of c15_item_plain enum_shared]; unfold c15_name_ok; intros Hp H; c15_split_andb.
  - apply mbind_ok in H as (ms & s1 & Hm & H). inv_ret H. cbn [ts_decl_ok].
    rewrite (ts_members_ok_ir _ _ _ _ _ ltac:(eassumption) Hm). repeat (apply andb_true_iff; split); auto.
  - apply mbind_ok in H as (vs & s1 & Hm & H). inv_ret H. cbn [ts_decl_ok].
    repeat (apply andb_true_iff; split); auto.
    apply (c15_Forall2_forallb
             (fun v x => c15_variant_plain C15ts TypeScript v = true -> (plain (snd (fst x)) && c15_lit_str (snd x)) = true)
             (c15_variant_plain C15ts TypeScript) _ (evariants sh) vs); [|auto|assumption].
    eapply mmapM_Forall2; [|exact Hm]. intros v s0 x s0' Hv Hpv.
    unfold c15_variant_plain, c15_name_ok in Hpv. c15_split_andb.
    destruct v as [vsh|t vsh|fs vsh]; cbn in Hv; try discriminate. inv_ret Hv. cbn [fst snd variant_shared] in *.
    apply andb_true_iff; split; assumption.
  - apply mbind_ok in H as (vs & s1 & Hm & H). inv_ret H. cbn [ts_decl_ok].
    repeat (apply andb_true_iff; split); auto.
    apply (c15_Forall2_forallb
             (fun v x => c15_variant_plain C15ts TypeScript v = true -> ts_variant_ok x = true)
             (c15_variant_plain C15ts TypeScript) _ (evariants sh) vs); [|auto|assumption].
    eapply mmapM_Forall2; [|exact Hm]. intros v s0 x s0' Hv Hpv.
    unfold c15_variant_plain, c15_name_ok in Hpv. c15_split_andb.
    destruct v as [vsh|t vsh|fs vsh]; cbn [ts_variant_of variant_shared] in *.
    + inv_ret Hv. assumption.
    + apply mbind_ok in Hv as (ty & s2 & Hty & Hv). inv_ret Hv. cbn [ts_variant_ok].
      apply andb_true_iff; split; [assumption|]. eapply ts_texp_plain; eauto.
    + apply mbind_ok in Hv as (ms & s2 & Hms & Hv). inv_ret Hv. cbn [ts_variant_ok].
      apply andb_true_iff; split; [assumption|]. eapply ts_members_ok_ir; eauto.
  - apply mbind_ok in H as (ty & s1 & Hty & H). inv_ret H. cbn [ts_decl_ok].
    repeat (apply andb_true_iff; split); auto. eapply ts_texp_plain; eauto.
  - apply mbind_ok in H as (ty & s1 & Hty & H). inv_ret H. cbn [ts_decl_ok].
    repeat (apply andb_true_iff; split); auto; [eapply ts_texp_plain; eauto|apply c15_plain_dec_of_Z].
Qed.

(* one item, no neutrality hypothesis *)
Theorem ts_item_decomp it st text st' : c15_item_plain C15ts TypeScript ts_const_name it = true ->
  ts_write_item uc cfg it st = Ok (text, st') -> D text (c15_sites false (c15_item_docs it)).
Proof.
  unfold ts_write_item. intros Hp H. apply mbind_ok in H as (d & s1 & Hd & H). inv_ret H.
  rewrite <- (ts_decl_docs_ir _ _ _ _ _ _ Hd). apply ts_decl_decomp. eapply ts_decl_ok_ir; eauto.
Qed.

Theorem C15_ts_item it st text st' : c15_item_plain C15ts TypeScript ts_const_name it = true ->
  ts_write_item uc cfg it st = Ok (text, st') ->
  exists parts,
    text = text_of (c15_file_pieces C15ts parts) /\
    docs_of (c15_file_pieces C15ts parts) = c15_item_docs it /\
    c15_contained C15ts LCode (mark (c15_file_pieces C15ts parts)) = forallb safe_ts (c15_item_docs it).
Proof.
  intros Hp H. destruct (Decomp_contained _ _ _ (ts_item_decomp _ _ _ _ Hp H)) as (ps & Ht & Hd & Hc).
  exists ps. rewrite c15_sites_docs in Hd. rewrite c15_sites_ok_false in Hc by discriminate. auto.
Qed.
End TSPlain.

(* non-vacuity: a struct with a dashed key, a generic parameter, an Option<Vec<T>> field, and an algebraic enum
   with the three variant kinds satisfy the hypotheses, and the text the model prints for them (docs full of
   comment openers and quotes) is contained *)
Definition c15_nv_id (o r : string) : id := {| original := lit o; renamed := lit r; via_serde_rename := false |}.
Definition c15_nv_field (o r : string) (t : rtype) (docs : list str) : rfield :=
  {| fid := c15_nv_id o r; fty := t; fcomments := docs; has_default := false; fdecs := [] |}.
Definition c15_nv_struct : ritem :=
  ItStruct {| sid := c15_nv_id "Foo" "Foo"; sgenerics := [lit "T"];
              sfields := [c15_nv_field "a_b" "a-b" (ROption (RVec (RSimple (lit "T")))) [c15_doc_nasty_ts];
                          c15_nv_field "c" "c" (RHashMap (RPrim PString) (RGeneric (lit "Bar") [RPrim PU8])) [lit "x"; lit "y"]];
              scomments := [c15_doc_nasty_ts; lit "second"]; sdecs := []; sredacted := false |}.
Definition c15_nv_vsh (o r : string) (docs : list str) : vshared := {| vid := c15_nv_id o r; vcomments := docs |}.
Definition c15_nv_enum : ritem :=
  ItEnum (EAlgebraic (lit "type") (lit "content")
            {| eid := c15_nv_id "E" "E"; egenerics := []; ecomments := [lit "enum doc"];
               evariants := [VUnit (c15_nv_vsh "A" "a" [lit "unit"]);
                             VTuple (RPrim PString) (c15_nv_vsh "B" "b q" [c15_doc_nasty_ts]);
                             VAnon [c15_nv_field "x" "x" (RPrim PBool) [lit "field doc"]] (c15_nv_vsh "C" "c" [lit "struct variant"])];
               edecs := []; erecursive := false; eredacted := false |}).
Example C15_ts_item_nonvacuous :
  forallb (c15_item_plain C15ts TypeScript (ts_const_name uc_exec)) [c15_nv_struct; c15_nv_enum] = true /\
  c15_mappings_plain C15ts (ts_type_mappings c15_ts_cfg) = true /\
  match ts_write_item uc_exec c15_ts_cfg c15_nv_enum [] with
  | Ok (text, _) => good_C15 C15ts (c15_item_docs c15_nv_enum) text
  | _ => false
  end = true.
Proof. repeat split; vm_compute; reflexivity. Qed.
