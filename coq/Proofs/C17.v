(* C17: re-running is idempotent and the output depends only on the latest inputs.
   A run is a left fold of "compare, then write if different and non-empty" steps over the list of
   files the run reaches (its plan); with pairwise distinct paths each step only sees and only
   changes its own file, which gives a closed form for every file after a run.  Idempotence,
   freshness, the skip-when-empty carve-out, the behaviour on Codable.swift and "everything else is
   untouched" are read off that closed form; the history theorems are inductions on the list of
   runs.  (Model of the code after fix 0622333: Codable.swift is compared with what is written.) *)
From Coq Require Import Lia.
From TS Require Import Model.Str Model.Writer Spec.C17Spec.

(* ------------------------------------------------------------------ the file system *)
Lemma read_write_same s p f : fs_read (fs_write s p f) p = Some f.
Proof.
  induction s as [|[q g] r IH]; simpl.
  - now rewrite str_eqb_refl.
  - destruct (str_eqb q p) eqn:E; simpl; rewrite E; auto.
Qed.

Lemma read_write_other s p q f : p <> q -> fs_read (fs_write s p f) q = fs_read s q.
Proof.
  intros N. induction s as [|[r g] s IH]; simpl.
  - destruct (str_eqb p q) eqn:E; auto. apply str_eqb_eq in E. contradiction.
  - destruct (str_eqb r p) eqn:E; simpl.
    + apply str_eqb_eq in E. subst r. destruct (str_eqb p q) eqn:E2; auto.
      apply str_eqb_eq in E2. contradiction.
    + destruct (str_eqb r q); auto.
Qed.

(* ------------------------------------------------------------------ strip_suffix(b"\n") *)
Lemma strip_suffix_nl_spec buf : forall c, strip_suffix_nl buf = Some c <-> buf = c ++ [ch_nl].
Proof.
  induction buf as [|x r IH]; intros c.
  - simpl. split; [discriminate|]. intro E. now destruct c.
  - cbn [strip_suffix_nl]. destruct r as [|y r'].
    + destruct (x =? ch_nl) eqn:E.
      * apply N.eqb_eq in E. subst x. split.
        -- intros H. injection H as <-. reflexivity.
        -- intros H. destruct c as [|z c']; [reflexivity|]. simpl in H. injection H as _ H. now destruct c'.
      * apply N.eqb_neq in E. split; [discriminate|]. intros H.
        destruct c as [|z c']; simpl in H.
        -- injection H as H. contradiction.
        -- injection H as _ H. now destruct c'.
    + destruct (strip_suffix_nl (y :: r')) as [b|] eqn:Es; cbn [option_map].
      * pose proof (proj1 (IH b) eq_refl) as Hb. split.
        -- intros H. injection H as <-. simpl. now rewrite Hb.
        -- intros H. destruct c as [|z c']; simpl in H.
           ++ injection H as _ H. discriminate.
           ++ injection H as <- H. apply IH in H. injection H as <-. reflexivity.
      * split; [discriminate|]. intros H. destruct c as [|z c']; simpl in H.
        -- injection H as _ H. discriminate.
        -- injection H as _ H. apply IH in H. discriminate.
Qed.

(* the comparison of write_codable_file = equality with what write_codable writes *)
Lemma codable_compare buf c :
  match strip_suffix_nl buf with Some b => str_eqb b c | None => false end = str_eqb buf (write_codable c).
Proof.
  unfold write_codable. destruct (strip_suffix_nl buf) as [b|] eqn:E.
  - apply strip_suffix_nl_spec in E. subst buf. destruct (str_eqb b c) eqn:E2.
    + apply str_eqb_eq in E2. subst. now rewrite str_eqb_refl.
    + symmetry. apply str_eqb_neq. intro H. apply app_inv_tail in H. subst. now rewrite str_eqb_refl in E2.
  - symmetry. apply str_eqb_neq. intro H. apply strip_suffix_nl_spec in H. congruence.
Qed.

Definition fpath_eq_dec : forall a b : fpath, {a = b} + {a <> b} := list_eq_dec N.eq_dec.

(* ------------------------------------------------------------------ one compare-and-write step *)
Record action := mk_action { a_path : fpath; a_data : bytes }.

Definition step (now : mtime) (s : fs) (a : action) : fs :=
  let same := match fs_read s (a_path a) with
              | Some (buf, _) => str_eqb buf (a_data a)
              | None => false
              end in
  if same then s
  else if negb (is_empty_bytes (a_data a)) then fs_write s (a_path a) (a_data a, now)
  else s.

(* what the step does to its own file, as a function of what was there *)
Definition step_file (now : mtime) (old : option file) (a : action) : option file :=
  let same := match old with
              | Some (buf, _) => str_eqb buf (a_data a)
              | None => false
              end in
  if same then old
  else if negb (is_empty_bytes (a_data a)) then Some (a_data a, now)
  else old.

Lemma step_self now s a : fs_read (step now s a) (a_path a) = step_file now (fs_read s (a_path a)) a.
Proof.
  unfold step, step_file.
  destruct (match fs_read s (a_path a) with Some (buf, _) => str_eqb buf (a_data a) | None => false end); auto.
  destruct (negb (is_empty_bytes (a_data a))); auto. apply read_write_same.
Qed.

Lemma step_other now s a q : a_path a <> q -> fs_read (step now s a) q = fs_read s q.
Proof.
  intros N. unfold step.
  destruct (match fs_read s (a_path a) with Some (buf, _) => str_eqb buf (a_data a) | None => false end); auto.
  destruct (negb (is_empty_bytes (a_data a))); auto. now apply read_write_other.
Qed.

Definition exec (now : mtime) (l : list action) (s : fs) : fs := fold_left (step now) l s.

Lemma exec_notin now l : forall s q, ~ In q (map a_path l) -> fs_read (exec now l s) q = fs_read s q.
Proof.
  induction l as [|a l IH]; intros s q N; simpl; auto.
  unfold exec in *. simpl. rewrite IH.
  - apply step_other. intro E. apply N. simpl. now left.
  - intro H. apply N. simpl. now right.
Qed.

Lemma exec_in now l : NoDup (map a_path l) -> forall s a, In a l ->
  fs_read (exec now l s) (a_path a) = step_file now (fs_read s (a_path a)) a.
Proof.
  induction l as [|x l IH]; intros ND s a Hin; [contradiction|].
  simpl in ND. inversion ND as [|? ? Hnot ND']; subst.
  unfold exec. simpl. fold (exec now l (step now s x)).
  destruct Hin as [->|Hin].
  - rewrite exec_notin by assumption. apply step_self.
  - rewrite IH by assumption. rewrite step_other; [reflexivity|].
    intro E. apply Hnot. rewrite E. now apply in_map.
Qed.

(* a step that will not change the file system *)
Definition settled (s : fs) (a : action) : Prop :=
  (exists m, fs_read s (a_path a) = Some (a_data a, m)) \/ a_data a = [].

Lemma settled_step now s a : settled s a -> step now s a = s.
Proof.
  intros [[m E]|E]; unfold step.
  - rewrite E, str_eqb_refl. reflexivity.
  - rewrite E. simpl.
    destruct (match fs_read s (a_path a) with Some (buf, _) => str_eqb buf [] | None => false end); reflexivity.
Qed.

Lemma exec_settled now l s : (forall a, In a l -> settled s a) -> exec now l s = s.
Proof.
  induction l as [|a l IH]; intros H; [reflexivity|].
  unfold exec. simpl. rewrite settled_step by (apply H; now left).
  apply IH. intros b Hb. apply H. now right.
Qed.

Lemma empty_bytes_nil b : is_empty_bytes b = true -> b = [].
Proof. destruct b; [reflexivity|discriminate]. Qed.

Lemma step_file_settles now old a :
  (exists m, step_file now old a = Some (a_data a, m)) \/ a_data a = [].
Proof.
  unfold step_file. destruct old as [[buf m]|].
  - destruct (str_eqb buf (a_data a)) eqn:E.
    + apply str_eqb_eq in E. subst. left. eauto.
    + destruct (is_empty_bytes (a_data a)) eqn:E2; simpl.
      * right. now apply empty_bytes_nil.
      * left. eauto.
  - destruct (is_empty_bytes (a_data a)) eqn:E2; simpl.
    + right. now apply empty_bytes_nil.
    + left. eauto.
Qed.

Lemma settled_after now l s a : NoDup (map a_path l) -> In a l -> settled (exec now l s) a.
Proof.
  intros ND Hin. unfold settled. rewrite exec_in by assumption. apply step_file_settles.
Qed.

Lemma exec_idempotent t1 t2 l s : NoDup (map a_path l) -> exec t2 l (exec t1 l s) = exec t1 l s.
Proof. intros ND. apply exec_settled. intros a Ha. now apply settled_after. Qed.

(* ------------------------------------------------------------------ a run is the exec of its plan *)
Definition act_codable (folder : fpath) (c : bytes) : action := mk_action (codable_path folder) (c ++ [ch_nl]).
Definition crate_actions (folder : fpath) (crates : list (fpath * gen_result)) : list action :=
  map (fun c => mk_action (path_join folder (fst c)) (snd c)) (generated_prefix crates).

Definition plan (o : outputs) : list action :=
  match o with
  | ParseErrors => []
  | SingleFile f (Some (Generated b)) => [mk_action f b]
  | SingleFile _ _ => []
  | MultiFile folder crates codable =>
      crate_actions folder crates ++
      (if all_generated crates then match codable with Some c => [act_codable folder c] | None => [] end else [])
  end.

Lemma plan_paths o : map a_path (plan o) = may_touch o.
Proof.
  destruct o as [|f [[b|]|]|folder crates codable]; try reflexivity.
  simpl. unfold crate_actions. rewrite map_app, map_map. simpl. f_equal.
  destruct (all_generated crates); [|reflexivity]. now destruct codable.
Qed.

Lemma all_generated_cons n b r : all_generated ((n, Generated b) :: r) = all_generated r.
Proof. reflexivity. Qed.

Lemma write_crates_spec now folder crates : forall s,
  write_crates s now folder crates =
  (exec now (crate_actions folder crates) s, if all_generated crates then ExitOk else ExitErr).
Proof.
  induction crates as [|[n [b|]] r IH]; intros s.
  - reflexivity.
  - cbn [write_crates]. rewrite IH. rewrite all_generated_cons. reflexivity.
  - reflexivity.
Qed.

Lemma nonempty_snoc (c : bytes) x : is_empty_bytes (c ++ [x]) = false.
Proof. now destruct c. Qed.

Lemma write_codable_file_step s now folder c : write_codable_file s now folder c = step now s (act_codable folder c).
Proof.
  unfold write_codable_file, step, act_codable, codable_path. cbn [a_path a_data].
  rewrite nonempty_snoc. cbn [negb].
  destruct (fs_read s (path_join folder CODABLE_FILE)) as [[buf m]|]; [|reflexivity].
  now rewrite codable_compare.
Qed.

Lemma run_full_spec s now o :
  run_full s now o = (exec now (plan o) s, if succeeds o then ExitOk else ExitErr).
Proof.
  destruct o as [|f [[b|]|]|folder crates codable]; try reflexivity.
  cbn [run_full plan succeeds]. unfold write_multiple_files. rewrite write_crates_spec.
  unfold exec. rewrite fold_left_app. fold (exec now (crate_actions folder crates) s).
  destruct (all_generated crates); [|reflexivity].
  destruct codable as [c|]; cbn [post_generation fold_left]; [|reflexivity].
  now rewrite write_codable_file_step.
Qed.

Lemma run_plan s now o : run s now o = exec now (plan o) s.
Proof. unfold run. now rewrite run_full_spec. Qed.

Lemma status_spec s now o : snd (run_full s now o) = ExitOk <-> succeeds o = true.
Proof. rewrite run_full_spec. simpl. destruct (succeeds o); split; congruence. Qed.

Lemma plan_nodup o : NoDup (may_touch o) -> NoDup (map a_path (plan o)).
Proof. now rewrite plan_paths. Qed.

Lemma responsible_plan o : succeeds o = true ->
  responsible o = map (fun a => (a_path a, a_data a)) (plan o).
Proof.
  intros H. unfold responsible. rewrite H.
  destruct o as [|f [[b|]|]|folder crates codable]; try reflexivity; try discriminate.
  simpl in H. cbn [plan]. rewrite H. unfold crate_actions. rewrite map_app, map_map. simpl.
  f_equal. now destruct codable.
Qed.

Lemma responsible_action o p b : In (p, b) (responsible o) ->
  exists a, In a (plan o) /\ a_path a = p /\ a_data a = b.
Proof.
  intros H. destruct (succeeds o) eqn:E.
  - rewrite responsible_plan in H by assumption. apply in_map_iff in H as (a & Ea & Ha).
    injection Ea as <- <-. eauto.
  - unfold responsible in H. rewrite E in H. contradiction.
Qed.

(* ------------------------------------------------------------------ closed form of one run *)
Theorem run_read_responsible s t o p b :
  NoDup (may_touch o) -> In (p, b) (responsible o) ->
  fs_read (run s t o) p =
  match fs_read s p with
  | Some (old, m) => if str_eqb old b then Some (old, m) else if is_empty_bytes b then Some (old, m) else Some (b, t)
  | None => if is_empty_bytes b then None else Some (b, t)
  end.
Proof.
  intros ND Hin. destruct (responsible_action _ _ _ Hin) as (a & Ha & <- & <-).
  rewrite run_plan, exec_in by (auto using plan_nodup).
  unfold step_file.
  destruct (fs_read s (a_path a)) as [[old m]|].
  - destruct (str_eqb old (a_data a)); [reflexivity|]. now destruct (is_empty_bytes (a_data a)).
  - now destruct (is_empty_bytes (a_data a)).
Qed.

Theorem untouched s t o p : ~ In p (may_touch o) -> fs_read (run s t o) p = fs_read s p.
Proof. intros H. rewrite run_plan. apply exec_notin. now rewrite plan_paths. Qed.

(* ------------------------------------------------------------------ (a) idempotence *)
Theorem idempotent s t1 t2 o : NoDup (may_touch o) -> run (run s t1 o) t2 o = run s t1 o.
Proof. intros ND. rewrite !run_plan. apply exec_idempotent. now apply plan_nodup. Qed.

Definition reruns (o : outputs) (ts : list mtime) : history := map (fun t => (t, o)) ts.

Theorem idempotent_history s0 h t o ts :
  NoDup (may_touch o) ->
  run_history s0 (h ++ (t, o) :: reruns o ts) = run_history s0 (h ++ [(t, o)]).
Proof.
  intros ND. unfold run_history. rewrite !fold_left_app. cbn [fold_left fst snd].
  generalize (fold_left (fun s' r => run s' (fst r) (snd r)) h s0). intros s.
  induction ts as [|t' ts IH]; [reflexivity|].
  cbn [reruns map fold_left fst snd]. rewrite idempotent by assumption. exact IH.
Qed.

(* ------------------------------------------------------------------ Codable.swift *)
Lemma codable_responsible folder crates c :
  all_generated crates = true ->
  In (codable_path folder, c ++ [ch_nl]) (responsible (MultiFile folder crates (Some c))).
Proof.
  intros AG. unfold responsible. cbn [succeeds]. rewrite AG. apply in_or_app. right. now left.
Qed.

(* an up-to-date Codable.swift (the contents and the newline) is left alone, time stamp included *)
Theorem codable_up_to_date_untouched s t folder crates c m :
  let o := MultiFile folder crates (Some c) in
  all_generated crates = true -> NoDup (may_touch o) ->
  fs_read s (codable_path folder) = Some (c ++ [ch_nl], m) ->
  fs_read (run s t o) (codable_path folder) = Some (c ++ [ch_nl], m).
Proof.
  intros o AG ND E.
  rewrite (run_read_responsible s t o _ _ ND (codable_responsible folder crates c AG)).
  now rewrite E, str_eqb_refl.
Qed.

(* anything else under that name (absent, stale, the contents WITHOUT the newline) is replaced *)
Theorem codable_stale_rewritten s t folder crates c :
  let o := MultiFile folder crates (Some c) in
  all_generated crates = true -> NoDup (may_touch o) ->
  content s (codable_path folder) <> Some (c ++ [ch_nl]) ->
  fs_read (run s t o) (codable_path folder) = Some (c ++ [ch_nl], t).
Proof.
  intros o AG ND Hc.
  rewrite (run_read_responsible s t o _ _ ND (codable_responsible folder crates c AG)).
  rewrite nonempty_snoc. unfold content in Hc.
  destruct (fs_read s (codable_path folder)) as [[old m]|]; [|reflexivity].
  destruct (str_eqb old (c ++ [ch_nl])) eqn:E; [|reflexivity].
  apply str_eqb_eq in E. subst. now elim Hc.
Qed.

(* ------------------------------------------------------------------ (b) freshness *)
Theorem fresh_value s t o p b :
  NoDup (may_touch o) -> In (p, b) (responsible o) -> b <> [] -> content (run s t o) p = Some b.
Proof.
  intros ND Hin Hb. unfold content. rewrite (run_read_responsible s t o p b) by assumption.
  assert (E : is_empty_bytes b = false) by (destruct b; [now elim Hb|reflexivity]).
  rewrite E. destruct (fs_read s p) as [[old m]|]; [|reflexivity].
  destruct (str_eqb old b) eqn:E2; [|reflexivity]. apply str_eqb_eq in E2. now subst.
Qed.

Lemma run_history_snoc s0 h t o : run_history s0 (h ++ [(t, o)]) = run (run_history s0 h) t o.
Proof. unfold run_history. now rewrite fold_left_app. Qed.

Theorem fresh s0 h t t' o p b :
  NoDup (may_touch o) -> In (p, b) (responsible o) -> b <> [] ->
  content (run_history s0 (h ++ [(t, o)])) p = content (run empty_fs t' o) p.
Proof.
  intros ND Hin Hb. rewrite run_history_snoc.
  rewrite (fresh_value _ t o p b), (fresh_value _ t' o p b) by assumption. reflexivity.
Qed.

(* skip-when-empty: an empty output leaves whatever is there *)
Theorem empty_output_keeps_file s t o p :
  NoDup (may_touch o) -> In (p, []) (responsible o) -> fs_read (run s t o) p = fs_read s p.
Proof.
  intros ND Hin. rewrite (run_read_responsible s t o p []) by assumption. simpl.
  destruct (fs_read s p) as [[old m]|]; [|reflexivity]. now destruct (str_eqb old []).
Qed.

(* the unrestricted freshness statement is false: an earlier output survives an empty one *)
Definition w_path : fpath := lit "out.ts".
Definition w_old : outputs := SingleFile w_path (Some (Generated (lit "export type A = number;"))).
Definition w_new : outputs := SingleFile w_path (Some (Generated [])).

Theorem fresh_refuted :
  exists s0 h t t' o p b,
    NoDup (may_touch o) /\ In (p, b) (responsible o) /\
    content (run_history s0 (h ++ [(t, o)])) p <> content (run empty_fs t' o) p.
Proof.
  exists empty_fs, [(1, w_old)], 2, 3, w_new, w_path, [].
  split; [repeat constructor; simpl; tauto|].
  split; [now left|]. vm_compute. discriminate.
Qed.

(* ------------------------------------------------------------------ (c) everything else is untouched *)
Theorem untouched_history h : forall s p,
  (forall r, In r h -> ~ In p (may_touch (snd r))) -> fs_read (run_history s h) p = fs_read s p.
Proof.
  induction h as [|[t o] h IH]; intros s p H; [reflexivity|].
  unfold run_history in *. cbn [fold_left fst snd]. rewrite IH.
  - apply untouched. apply (H (t, o)). now left.
  - intros r Hr. apply H. now right.
Qed.

Theorem failed_parse_writes_nothing s t : run s t ParseErrors = s.
Proof. reflexivity. Qed.

(* ------------------------------------------------------------------ the check's verdict predicates *)
Lemma file_eqb_refl x : file_eqb x x = true.
Proof. destruct x as [[b m]|]; simpl; [|reflexivity]. now rewrite str_eqb_refl, N.eqb_refl. Qed.

Lemma fs_same_refl s : fs_same s s = true.
Proof. unfold fs_same. apply forallb_forall. intros e _. apply file_eqb_refl. Qed.

Theorem rerun_good s t1 t2 o :
  NoDup (may_touch o) -> good_rerun (run s t1 o) (run (run s t1 o) t2 o) = true.
Proof. intros ND. rewrite idempotent by assumption. apply fs_same_refl. Qed.

Theorem fresh_good s0 h t t' o :
  NoDup (may_touch o) -> nonempty_outputs o = true ->
  good_fresh (map fst (responsible o)) (run_history s0 (h ++ [(t, o)])) (run empty_fs t' o) = true.
Proof.
  intros ND NE. unfold good_fresh. apply forallb_forall. intros p Hp.
  apply in_map_iff in Hp as ([p' b] & <- & Hin). cbn [fst].
  unfold nonempty_outputs in NE. rewrite forallb_forall in NE. specialize (NE _ Hin). cbn [snd] in NE.
  rewrite (fresh s0 h t t' o p' b); auto.
  - destruct (content (run empty_fs t' o) p'); simpl; [apply str_eqb_refl|reflexivity].
  - intro E. subst. discriminate.
Qed.

Lemma distinct_paths_nodup l : distinct_paths l = true -> NoDup l.
Proof.
  induction l as [|x r IH]; intros H; [constructor|].
  simpl in H. apply andb_true_iff in H as [H1 H2]. constructor; [|now apply IH].
  intro Hin. apply negb_true_iff in H1. unfold mem_str in H1.
  assert (existsb (str_eqb x) r = true); [|congruence].
  apply existsb_exists. exists x. split; [assumption|apply str_eqb_refl].
Qed.

Theorem dom_nodup o : dom_C17 o = true -> NoDup (may_touch o).
Proof. apply distinct_paths_nodup. Qed.

(* ------------------------------------------------------------------ the hypotheses are satisfiable *)
Definition ex_o : outputs :=
  MultiFile (lit "out") [(lit "A.swift", Generated (lit "x")); (lit "B.swift", Generated (lit "y"))]
            (Some (lit "public struct CodableVoid: Codable {}")).

Example C17_nonvacuous :
  NoDup (may_touch ex_o) /\ nonempty_outputs ex_o = true /\
  responsible ex_o = [(lit "out/A.swift", lit "x"); (lit "out/B.swift", lit "y");
                      (lit "out/Codable.swift", lit "public struct CodableVoid: Codable {}" ++ [ch_nl])] /\
  run (run [(lit "out/A.swift", (lit "old", 0)); (lit "keep", (lit "k", 0))] 1 ex_o) 2 ex_o =
    [(lit "out/A.swift", (lit "x", 1)); (lit "keep", (lit "k", 0)); (lit "out/B.swift", (lit "y", 1));
     (lit "out/Codable.swift", (lit "public struct CodableVoid: Codable {}" ++ [ch_nl], 1))].
Proof.
  split; [repeat constructor; simpl; intuition discriminate|].
  repeat split; vm_compute; reflexivity.
Qed.
