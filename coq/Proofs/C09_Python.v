(* C09 for Python: no prefix, every definition under id.renamed (the ...Inner helper class included,
   defined and referred to through the one closure make_anonymous_struct_name), every mentioned id
   spelled verbatim; the printing monad only collects imports, TypeVars and helper functions. *)
From Coq Require Import List Bool String Permutation.
From TS Require Import Model.Str Model.Outcome Model.Unicode Model.Types Model.Parse Model.Reconcile Model.TopsortAlgo Model.Topsort
                       Model.Lang.Common Model.Lang.Decl Model.Lang.Python Spec.C09Spec.
From TS Require Import Proofs.C09Common Proofs.C09Recon Proofs.C09Refs Proofs.C09Lang.
Import ListNotations.
Local Notation length := List.length (only parsing).

Local Notation py_names_ok x t :=
  (forall n, In n (texp_names x) -> c09_builtin Python n = true \/ exists form i, In (form, i) (c09_type_ids t) /\ n = i).

Section PYN.
Variable uc : unicode.
Variable cfg : py_config.

Lemma py_special_mapped_names key (k : M py_state texp) (P : texp -> Prop) s x s' :
  match tmap_get (py_type_mappings cfg) key with
  | Some mapped =>
    mdo _ <- (if py_is_some (py_json_translation_for_type mapped) then py_add_custom_type mapped else ret tt);
    ret (XRaw mapped)
  | None => k
  end s = Ok (x, s') ->
  (forall m, P (XRaw m)) -> (forall s x s', k s = Ok (x, s') -> P x) -> P x.
Proof.
  destruct (tmap_get (py_type_mappings cfg) key); intros Hx Hraw Hk; [|eauto].
  c09_bind Hx u s1 E. c09_ret Hx. apply Hraw.
Qed.

Lemma py_texp_names gs t : forall s x s', py_texp cfg gs t s = Ok (x, s') -> py_names_ok x t.
Proof.
  assert (Hlist : forall t0 (P : texp -> Prop),
            (forall s x s', py_texp cfg gs t0 s = Ok (x, s') -> py_names_ok x t0) ->
            forall s x s', (mdo _ <- py_add_import (lit "typing") (lit "List"); mdo e <- py_texp cfg gs t0; ret (XName (lit "List") [e])) s = Ok (x, s') ->
            py_names_ok x t0).
  { intros t0 _ IH s x s' Hx. c09_bind Hx u s1 E0. c09_bind Hx e s2 E. c09_ret Hx. intros nm Hn.
    cbn [texp_names flat_map] in Hn. rewrite app_nil_r in Hn. destruct Hn as [<-|Hn]; [left; reflexivity|]. exact (IH _ _ _ E nm Hn). }
  induction t using rtype_ind'; intros s x s' Hx; cbn [py_texp] in Hx.
  - c09_bind Hx u s1 E0. c09_ret Hx. intros nm Hn. destruct (tmap_get (py_type_mappings cfg) id); cbn [texp_names flat_map] in Hn; [destruct Hn|]. destruct Hn as [<-|[]].
    right. exists C9Simple, id. split; [left; reflexivity|reflexivity].
  - c09_bind Hx u s0 E0. destruct (tmap_get (py_type_mappings cfg) id); [c09_ret Hx; intros nm []|].
    c09_bind Hx parts s1 E. c09_ret Hx. apply c09_mgo_Forall2 in E. intros nm Hn. cbn [texp_names] in Hn. destruct Hn as [<-|Hn].
    + right. exists C9Generic, id. split; [left; reflexivity|reflexivity].
    + apply in_flat_map in Hn as (y & Hy & Hn). destruct (c09_Forall2_in_r _ _ _ _ E Hy) as (p & Hp & sa & sb & Ep).
      rewrite Forall_forall in H. destruct (H p Hp sa y sb Ep nm Hn) as [B|(form & i & Hi & ->)]; [left; exact B|].
      right. exists form, i. split; [|reflexivity]. cbn [c09_type_ids]. right. apply in_flat_map. exists p. split; assumption.
  - eapply (py_special_mapped_names _ _ (fun x => py_names_ok x (RVec t))); [exact Hx|intros m n []|]. exact (Hlist t (fun _ => True) IHt).
  - eapply (py_special_mapped_names _ _ (fun x => py_names_ok x (RArray t n))); [exact Hx|intros m n0 []|]. exact (Hlist t (fun _ => True) IHt).
  - eapply (py_special_mapped_names _ _ (fun x => py_names_ok x (RSlice t))); [exact Hx|intros m n []|]. exact (Hlist t (fun _ => True) IHt).
  - eapply (py_special_mapped_names _ _ (fun x => py_names_ok x (RHashMap t1 t2))); [exact Hx|intros m n []|]. clear Hx. intros s0 x0 s0' Hx.
    c09_bind Hx u sa E0. c09_bind Hx ks s1 E1. c09_bind Hx vs s2 E2. c09_ret Hx.
    assert (py_texp cfg gs t1 sa = Ok (ks, s1)) as E1'.
    { destruct t1; try exact E1. destruct (mem_str id gs); [discriminate|exact E1]. }
    intros nm Hn. cbn [texp_names flat_map] in Hn. rewrite app_nil_r in Hn. destruct Hn as [<-|Hn]; [left; reflexivity|].
    apply in_app_iff in Hn as [Hn|Hn].
    + destruct (IHt1 _ _ _ E1' nm Hn) as [B|(form & i & Hi & ->)]; [left; exact B|]. right. exists form, i. split; [cbn [c09_type_ids]; apply in_app_iff; auto|reflexivity].
    + destruct (IHt2 _ _ _ E2 nm Hn) as [B|(form & i & Hi & ->)]; [left; exact B|]. right. exists form, i. split; [cbn [c09_type_ids]; apply in_app_iff; auto|reflexivity].
  - eapply (py_special_mapped_names _ _ (fun x => py_names_ok x (ROption t))); [exact Hx|intros m n []|]. clear Hx. intros s0 x0 s0' Hx.
    c09_bind Hx u sa E0. c09_bind Hx e s1 E. c09_ret Hx. exact (IHt _ _ _ E).
  - eapply (py_special_mapped_names _ _ (fun x => py_names_ok x (RPrim p))); [exact Hx|intros m n []|]. clear Hx. intros s0 x0 s0' Hx.
    intros nm Hn. left. destruct p; try (c09_bind Hx u sa E0); c09_ret Hx; destruct Hn as [<-|[]]; reflexivity.
Qed.

Lemma py_names_strip m : texp_names (mb_type (py_obs_member m)) = texp_names (pym_type m).
Proof. unfold py_obs_member. cbn [mb_type]. destruct (pym_type m); try reflexivity. destruct (pym_default_none m); reflexivity. Qed.

Lemma py_member_names gs f s m s' : py_member_of uc cfg gs f s = Ok (m, s') -> py_names_ok (mb_type (py_obs_member m)) (fty f).
Proof.
  unfold py_member_of. intros H. cbv zeta in H. c09_bind H ty s1 E. c09_bind H u s2 E2. c09_bind H ann s3 E3. c09_ret H.
  intros n Hn. rewrite py_names_strip in Hn. cbn [pym_type] in Hn.
  eapply py_texp_names; [exact E|]. destruct (negb (is_optional (fty f)) && has_default f); exact Hn.
Qed.
End PYN.

Section PYI.
Variable uc : unicode.
Variable cfg : py_config.
Variable pd : parsed.
Hypothesis Hdom : dom_C09 Python [] pd = true.
Let rn := c09_rn pd.
Let pd' := c09_reconciled pd.
Notation shape := (c09_ref_shape Python [] pd).
Notation decl_ok := (c09_decl_ok pd Python []).
Notation ownercond := (c09_ownercond pd Python []).
Notation defname := (c09_def_name Python []).
Notation has_def := (c09_has_def Python []).

Lemma py_refs tp owner x :
  In tp (c09_tposs pd) -> py_names_ok x (c09_recon_type pd tp) -> ownercond tp owner ->
  forall r, In r (c09_type_refs Python owner (c9t_pos tp) x) -> shape r.
Proof. intros Htp Hn Hown. eapply (c09_names_refs_plain pd Python [] Hdom); eauto. Qed.

(* write_struct: a source struct or the helper class of a struct variant *)
Lemma py_class_shape s' d sa sb owner (mk : rfield -> c09_tpos) fs :
  py_class_of uc cfg s' sa = Ok (d, sb) -> sfields s' = map (check_field [] rn []) fs -> owner = renamed (sid s') ->
  (forall f, In f fs -> In (mk f) (c09_tposs pd) /\ c9t_pos (mk f) = C9Field /\ c9t_type (mk f) = fty f /\ ownercond (mk f) owner) ->
  exists d1, py_obs d = [d1] /\ d_name d1 = owner /\ c09_is_def d1 = true /\ forall r, In r (c09_decl_refs Python d1) -> shape r.
Proof.
  unfold py_class_of. intros Hd Hfs -> Hmk.
  c09_bind Hd u1 s1 E1. c09_bind Hd u2 s2 E2. c09_bind Hd u3 s3 E3. c09_bind Hd config s4 E4. c09_bind Hd ms s5 E. c09_ret Hd.
  eexists. split; [reflexivity|]. cbn [d_name]. repeat split.
  intros r Hr. unfold c09_decl_refs in Hr. cbn [d_kind d_name d_members d_variants flat_map] in Hr. rewrite app_nil_r in Hr.
  apply in_flat_map in Hr as (m' & Hm' & Hr). apply in_map_iff in Hm' as (m & <- & Hm).
  apply c09_mmapM_Forall2 in E. rewrite Hfs in E. destruct (c09_Forall2_in_r _ _ _ _ E Hm) as (f' & Hf' & sc & sd & Em).
  apply in_map_iff in Hf' as (f & <- & Hf). destruct (Hmk f Hf) as (Htp & Hpos & Hty & Hown).
  rewrite <- Hpos in Hr. eapply py_refs; [exact Htp| |exact Hown|exact Hr].
  unfold c09_recon_type. rewrite Hty. exact (py_member_names uc cfg _ _ _ _ _ Em).
Qed.

(* the helper classes of an enum: exactly one per struct variant *)
Lemma py_inner_classes sh vs : forall s cs s', py_inner_classes_of uc cfg sh vs s = Ok (cs, s') ->
  (forall c, In c cs -> exists fs vsh sa sb, In (VAnon fs vsh) vs /\
      py_class_of uc cfg (anon_struct sh (py_anonymous_struct_name sh (original (vid vsh))) (original (vid vsh)) fs) sa = Ok (c, sb)) /\
  (forall fs vsh, In (VAnon fs vsh) vs -> exists c sa sb, In c cs /\
      py_class_of uc cfg (anon_struct sh (py_anonymous_struct_name sh (original (vid vsh))) (original (vid vsh)) fs) sa = Ok (c, sb)).
Proof.
  induction vs as [|v vs IH]; intros s cs s' H; cbn [py_inner_classes_of] in H.
  - c09_ret H. split; [intros c []|intros fs vsh []].
  - destruct v as [vsh|t vsh|fs vsh].
    + destruct (IH _ _ _ H) as (A & B). split.
      * intros c Hc. destruct (A c Hc) as (fs & vsh0 & sa & sb & Hv & E). exists fs, vsh0, sa, sb. split; [right; exact Hv|exact E].
      * intros fs vsh0 [C|Hv]; [discriminate|]. exact (B fs vsh0 Hv).
    + destruct (IH _ _ _ H) as (A & B). split.
      * intros c Hc. destruct (A c Hc) as (fs & vsh0 & sa & sb & Hv & E). exists fs, vsh0, sa, sb. split; [right; exact Hv|exact E].
      * intros fs vsh0 [C|Hv]; [discriminate|]. exact (B fs vsh0 Hv).
    + c09_bind H c0 s1 E0. c09_bind H cs0 s2 E1. c09_ret H. destruct (IH _ _ _ E1) as (A & B). split.
      * intros c [<-|Hc]; [exists fs, vsh, s, s1; split; [left; reflexivity|exact E0]|].
        destruct (A c Hc) as (fs1 & vsh0 & sa & sb & Hv & E). exists fs1, vsh0, sa, sb. split; [right; exact Hv|exact E].
      * intros fs1 vsh0 [C|Hv]; [injection C as <- <-; exists c0, s, s1; split; [left; reflexivity|exact E0]|].
        destruct (B fs1 vsh0 Hv) as (c & sa & sb & Hc & E). exists c, sa, sb. split; [right; exact Hc|exact E].
Qed.

Lemma py_has_def_1 g d en : In d g -> c09_is_def d = true -> d_name d = defname en -> has_def g en.
Proof. intros. exists d. auto. Qed.

Lemma py_item it' ds s1 s2 : In it' (items_of pd') -> py_decl_of uc cfg it' s1 = Ok (ds, s2) ->
  c09_item_ok pd Python [] it' (flat_map py_obs ds).
Proof.
  intros Hit Hd. destruct (c09_items_cases pd Python [] Hdom it' Hit) as [(a & Ha & ->)|[(s & Hs & ->)|[(e & He & ->)|(c & Hc & ->)]]];
    cbn [py_decl_of] in Hd.
  - (* alias *)
    cbn [c09_ra agenerics atype acomments aid] in Hd. c09_bind Hd ty s3 E. c09_bind Hd utv s4 Etv. c09_ret Hd.
    assert (Hn : defname (c09_ent_alias a) = renamed (aid a)) by (unfold c09_def_name; cbn; apply app_nil_r).
    cbn [flat_map py_obs app]. split.
    + intros d [<-|[]]. split.
      * intros _. exists (c09_ent_alias a). split; [apply c09_in_alias; exact Ha|]. rewrite Hn. reflexivity.
      * intros r Hr. unfold c09_decl_refs in Hr. cbn [d_kind d_name d_type] in Hr.
        eapply (py_refs {| c9t_owner := aid a; c9t_generics := agenerics a; c9t_pos := C9Alias; c9t_type := atype a |}); [apply c09_tp_alias; exact Ha| | |exact Hr].
        -- exact (py_texp_names cfg _ _ _ _ _ E).
        -- right. exists (c09_ent_alias a). split; [apply c09_in_alias; exact Ha|]. split; [rewrite Hn; reflexivity|reflexivity].
    + intros a0 Ha0 Ea. eexists. split; [left; reflexivity|]. split; [reflexivity|]. cbn [d_name].
      assert (aid a0 = aid a) as <- by (apply (f_equal aid) in Ea; cbn in Ea; congruence).
      unfold c09_def_name. cbn. symmetry. apply app_nil_r.
  - (* struct *)
    c09_bind Hd d s3 E. c09_ret Hd.
    assert (Hn : defname (c09_ent_struct s) = renamed (sid s)) by (unfold c09_def_name; cbn; apply app_nil_r).
    destruct (py_class_shape (c09_rs rn s) d _ _ (renamed (sid s))
                (fun f => {| c9t_owner := sid s; c9t_generics := sgenerics s; c9t_pos := C9Field; c9t_type := fty f |}) (sfields s) E eq_refl eq_refl)
      as (d1 & Hobs & Hname & Hdef & Hrefs).
    { intros f Hf. split; [apply c09_tp_struct; assumption|]. repeat split.
      right. exists (c09_ent_struct s). split; [apply c09_in_struct; exact Hs|]. split; [rewrite Hn; reflexivity|reflexivity]. }
    cbn [flat_map]. rewrite Hobs. cbn [app]. split.
    + intros d0 [<-|[]]. split; [|exact Hrefs]. intros _. exists (c09_ent_struct s). split; [apply c09_in_struct; exact Hs|]. rewrite Hn. exact Hname.
    + intros s0 Hs0 Es. apply (py_has_def_1 _ d1); [left; reflexivity|exact Hdef|]. rewrite Hname.
      assert (sid s0 = sid s) as <- by (apply (f_equal sid) in Es; cbn in Es; congruence).
      unfold c09_def_name. cbn. symmetry. apply app_nil_r.
  - (* enum: helper classes, then the enum *)
    destruct (c09_sh_recon pd e) as (Hid & Hgs & Hvs). fold rn in Hid, Hgs, Hvs.
    set (j := c09_ent_enum e).
    assert (Hj : In j (c09_entities pd)) by (apply c09_in_enum; exact He).
    assert (Hnj : defname j = renamed (eid (enum_shared e))) by (unfold c09_def_name; destruct e; cbn; apply app_nil_r).
    c09_bind Hd inners s3 Ei. fold rn in Ei.
    destruct (py_inner_classes _ _ _ _ _ Ei) as (Hanon0 & Hanon0'). rewrite Hvs in Hanon0, Hanon0'.
    assert (Hinner : forall fs vsh d sa sb, In (VAnon fs vsh) (evariants (enum_shared e)) ->
              py_class_of uc cfg (anon_struct (enum_shared (c09_re rn e)) (py_anonymous_struct_name (enum_shared (c09_re rn e)) (original (vid vsh)))
                                    (original (vid vsh)) (map (check_field [] rn []) fs)) sa = Ok (d, sb) ->
              exists d1, py_obs d = [d1] /\ d_name d1 = defname (c09_ent_inner e vsh) /\ c09_is_def d1 = true /\
                         forall r, In r (c09_decl_refs Python d1) -> shape r).
    { intros fs vsh d sa sb Hv Ec.
      assert (Hnm : defname (c09_ent_inner e vsh) = py_anonymous_struct_name (enum_shared (c09_re rn e)) (original (vid vsh)))
        by (unfold py_anonymous_struct_name; rewrite Hid; reflexivity).
      rewrite Hnm.
      eapply (py_class_shape _ d sa sb _ (fun f => {| c9t_owner := eid (enum_shared e); c9t_generics := egenerics (enum_shared e); c9t_pos := C9Field; c9t_type := fty f |}) fs Ec);
        [reflexivity|reflexivity|].
      intros f Hf. split; [apply (c09_tp_anon pd e fs vsh f He Hv Hf)|]. repeat split.
      right. exists (c09_ent_inner e vsh). split; [eapply c09_in_inner; eassumption|]. split; [symmetry; exact Hnm|reflexivity]. }
    assert (Hanon : forall d, In d inners -> exists fs vsh sa sb, In (VAnon fs vsh) (evariants (enum_shared e)) /\
              py_class_of uc cfg (anon_struct (enum_shared (c09_re rn e)) (py_anonymous_struct_name (enum_shared (c09_re rn e)) (original (vid vsh)))
                                    (original (vid vsh)) (map (check_field [] rn []) fs)) sa = Ok (d, sb)).
    { intros d Hd0. destruct (Hanon0 d Hd0) as (fs' & vsh & sa & sb & Hv' & Ec). apply in_map_iff in Hv' as (v & Ev & Hv).
      destruct v as [?|? ?|fs vsh1]; try discriminate. injection Ev as <- <-. exists fs, vsh1, sa, sb. auto. }
    assert (Hanon' : forall fs vsh, In (VAnon fs vsh) (evariants (enum_shared e)) -> exists d sa sb, In d inners /\
              py_class_of uc cfg (anon_struct (enum_shared (c09_re rn e)) (py_anonymous_struct_name (enum_shared (c09_re rn e)) (original (vid vsh)))
                                    (original (vid vsh)) (map (check_field [] rn []) fs)) sa = Ok (d, sb)).
    { intros fs vsh Hv. apply (Hanon0' (map (check_field [] rn []) fs) vsh). apply in_map_iff. exists (VAnon fs vsh). auto. }
    (* the enum itself *)
    assert (Hself : exists dE, ds = inners ++ [dE] /\ (exists dS, In dS (py_obs dE) /\ c09_is_def dS = true) /\
              forall d, In d (py_obs dE) -> (d_kind d = DHelper) \/
                (d_name d = defname j /\ c09_is_def d = true /\ forall r, In r (c09_decl_refs Python d) -> shape r)).
    { destruct e as [sh|tag content sh]; cbn [c09_re enum_shared] in *.
      - c09_bind Hd u s4 E0. c09_bind Hd vs s5 Ev. c09_ret Hd. eexists. split; [reflexivity|].
        split; [eexists; split; [left; reflexivity|reflexivity]|].
        intros d [<-|[]]. right. cbn [d_name check_eshared eid]. rewrite Hnj. repeat split.
        intros r Hr. unfold c09_decl_refs in Hr. cbn [d_kind d_name d_members d_variants flat_map app] in Hr.
        apply in_flat_map in Hr as (v & Hv & Hr). apply in_map_iff in Hv as ([[vd vc] vw] & <- & _). cbn in Hr. destruct Hr.
      - c09_bind Hd dE s4 Ea. c09_ret Hd. exists dE. split; [reflexivity|].
        unfold py_algebraic_of in Ea. c09_bind Ea u1 sa1 E1. c09_bind Ea u2 sa2 E2. cbv zeta in Ea. c09_bind Ea u3 sa3 E3.
        c09_bind Ea vs sa4 Ev. c09_bind Ea u4 sa5 E4. c09_ret Ea.
        split; [eexists; split; [right; left; reflexivity|reflexivity]|].
        cbn [py_obs check_eshared eid]. intros d [<-|[<-|[]]]; [left; reflexivity|right].
        cbn [d_name]. rewrite Hnj. repeat split.
        intros r Hr. unfold c09_decl_refs in Hr. cbn [d_kind d_name d_members d_variants flat_map app] in Hr.
        apply in_flat_map in Hr as (vd & Hvd & Hr). apply in_map_iff in Hvd as (pv & <- & Hpv).
        apply c09_mmapM_Forall2 in Ev. cbn [check_eshared evariants] in Ev.
        destruct (c09_Forall2_in_r _ _ _ _ Ev Hpv) as (v' & Hv' & sc & sd & Ev'). apply in_map_iff in Hv' as (v & <- & Hv).
        destruct v as [vsh|t vsh|fs vsh]; cbn [check_variant py_variant_of] in Ev'.
        + c09_bind Ev' u5 se E5. c09_ret Ev'. cbn in Hr. destruct Hr.
        + c09_bind Ev' ty se Et. c09_bind Ev' u5 sf E5. c09_ret Ev'. cbn [py_obs_variant vd_parent vd_payload pyv_content app egenerics] in Hr, Et.
          eapply (py_refs {| c9t_owner := eid sh; c9t_generics := egenerics sh; c9t_pos := C9Payload; c9t_type := t |});
            [apply (c09_tp_tuple pd (EAlgebraic tag content sh) t vsh He Hv)| | |exact Hr].
          * exact (py_texp_names cfg _ _ _ _ _ Et).
          * right. exists j. split; [exact Hj|]. split; [rewrite Hnj; reflexivity|reflexivity].
        + c09_bind Ev' u5 se E5. c09_ret Ev'. cbn [py_obs_variant vd_parent vd_payload pyv_content app map] in Hr. destruct Hr as [<-|[]].
          eapply C9S_inner with (i := c09_ent_inner (EAlgebraic tag content sh) vsh); cbn [c9_in c9_pos c9_name]; try reflexivity.
          eapply c09_in_inner; [exact He|exact Hv]. }
    destruct Hself as (dE & -> & (dS & HdS & HdefS) & HselfE).
    assert (Hg : forall d, In d (flat_map py_obs (inners ++ [dE])) <->
                (exists d0, In d0 inners /\ In d (py_obs d0)) \/ In d (py_obs dE)).
    { intros d. rewrite flat_map_app, in_app_iff, in_flat_map. cbn [flat_map]. rewrite app_nil_r. reflexivity. }
    split.
    + intros d Hd0. apply Hg in Hd0 as [(d0 & Hd0 & Hdd)|Hdd].
      * destruct (Hanon d0 Hd0) as (fs & vsh & sa & sb & Hv & Ec). destruct (Hinner fs vsh d0 sa sb Hv Ec) as (d1 & Ho & A & B & C).
        rewrite Ho in Hdd. destruct Hdd as [<-|[]]. split; [|exact C]. intros _. exists (c09_ent_inner e vsh). split; [eapply c09_in_inner; eassumption|exact A].
      * destruct (HselfE d Hdd) as [K|(A & B & C)]; [apply (c09_decl_ok_helper pd Python []); exact K|].
        split; [|exact C]. intros _. exists j. split; [exact Hj|exact A].
    + intros e0 He0 Ee.
      assert (eid (enum_shared e0) = eid (enum_shared e) /\ egenerics (enum_shared e0) = egenerics (enum_shared e) /\ c09_enum_kind e0 = c09_enum_kind e) as (Ei0 & Eg0 & Ek0).
      { pose proof (f_equal (fun x => eid (enum_shared x)) Ee) as A. pose proof (f_equal (fun x => egenerics (enum_shared x)) Ee) as B.
        pose proof (f_equal c09_enum_kind Ee) as C. destruct e, e0; cbn in A, B, C |- *; try discriminate; repeat split; congruence. }
      split.
      * destruct (HselfE dS HdS) as [K|(A & B & C)]; [unfold c09_is_def in HdefS; rewrite K in HdefS; discriminate|].
        apply (py_has_def_1 _ dS); [apply Hg; right; exact HdS|exact B|]. rewrite A. unfold j, c09_ent_enum. rewrite Ei0, Eg0, Ek0. reflexivity.
      * intros _ fs vsh Hv0.
        assert (evariants (enum_shared (c09_re rn e)) = map (check_variant [] rn []) (evariants (enum_shared e0))) as Hv1eq.
        { destruct (c09_sh_recon pd e0) as (_ & _ & A). transitivity (evariants (enum_shared (c09_re rn e0))); [f_equal; f_equal; exact Ee|exact A]. }
        assert (In (check_variant [] rn [] (VAnon fs vsh)) (map (check_variant [] rn []) (evariants (enum_shared e)))) as Hv1.
        { rewrite <- Hvs, Hv1eq. apply in_map. exact Hv0. }
        apply in_map_iff in Hv1 as (v & Ev1 & Hv1). destruct v as [?|? ?|fs1 vsh1]; try discriminate. injection Ev1 as Efs <-.
        destruct (Hanon' fs1 vsh1 Hv1) as (d0 & sa & sb & Hd0 & Ec). destruct (Hinner fs1 vsh1 d0 sa sb Hv1 Ec) as (d1 & Ho & A & B & C).
        apply (py_has_def_1 _ d1); [apply Hg; left; exists d0; split; [exact Hd0|rewrite Ho; left; reflexivity]|exact B|]. rewrite A.
        unfold c09_ent_inner. rewrite Ei0, Eg0. reflexivity.
  - (* const: not a definition; its type is reconciled like every other type position *)
    c09_bind Hd ty s3 E. c09_ret Hd. split; [|exact I].
    cbn [flat_map py_obs app]. intros d [<-|[]]. split; [cbn; discriminate|].
    intros r Hr. unfold c09_decl_refs in Hr. cbn [d_kind d_name d_type] in Hr.
    eapply (py_refs {| c9t_owner := cid c; c9t_generics := []; c9t_pos := C9Const; c9t_type := ctype c |}); [apply c09_tp_const; exact Hc| |left; reflexivity|exact Hr].
    exact (py_texp_names cfg _ _ _ _ _ E).
Qed.

Theorem py_shape fd : py_file_decls uc cfg pd' = Ok fd -> c09_shape Python [] pd (c09_observe Python fd).
Proof.
  unfold py_file_decls, py_decls. intros H.
  destruct (topsort (items_of pd')) as [items| |] eqn:Et; cbn [bind] in H; try discriminate.
  destruct (mmapM (py_decl_of uc cfg) items py_empty_state) as [[dss st]| |] eqn:Em; cbn [bind] in H; try discriminate.
  injection H as <-. pose proof (c09_topsort_in' _ _ Et) as Hperm. apply c09_mmapM_Forall2 in Em.
  apply (c09_shape_of_items pd Python [] Hdom
           (fun it' g => exists ds s1 s2, py_decl_of uc cfg it' s1 = Ok (ds, s2) /\ g = flat_map py_obs ds)
           (map py_helper_decl (py_type_variables st) ++
            map py_helper_decl (flat_map (fun ct => [py_ser_name ct; py_de_name ct]) (py_translations_defined st)))
           (map (flat_map py_obs) dss)); cbn [fd_decls].
  - intros d. rewrite app_assoc, in_app_iff.
    assert (In d (flat_map py_obs (List.concat dss)) <-> exists g, In g (map (flat_map py_obs) dss) /\ In d g) as ->; [|reflexivity].
    rewrite in_flat_map. split.
    + intros (x & Hx & Hd). apply in_concat in Hx as (ds & Hds & Hx). exists (flat_map py_obs ds). split; [apply in_map; exact Hds|apply in_flat_map; eauto].
    + intros (g & Hg & Hd). apply in_map_iff in Hg as (ds & <- & Hds). apply in_flat_map in Hd as (x & Hx & Hd). exists x. split; [apply in_concat; eauto|exact Hd].
  - intros d Hd. apply in_app_iff in Hd as [Hd|Hd]; apply in_map_iff in Hd as (n & <- & _); reflexivity.
  - intros it' Hit _. apply Hperm in Hit. destruct (c09_Forall2_in_l _ _ _ _ Em Hit) as (ds & Hds & s1 & s2 & E).
    exists (flat_map py_obs ds). split; [apply in_map; exact Hds|]. exists ds, s1, s2. auto.
  - intros g Hg. apply in_map_iff in Hg as (ds & <- & Hds). destruct (c09_Forall2_in_r _ _ _ _ Em Hds) as (it' & Hit & s1 & s2 & E).
    exists it'. split; [apply Hperm; exact Hit|]. exists ds, s1, s2. auto.
  - intros it' g Hit (ds & s1 & s2 & E & ->). exact (py_item it' ds s1 s2 Hit E).
Qed.

Theorem c09_python (acrs : list str) fd :
  known_C09 Python [] acrs pd = None -> py_file_decls uc cfg pd' = Ok fd ->
  good_C09 Python [] pd (c09_observe Python fd) = true.
Proof. intros Hknown H. exact (c09_shape_good Python [] acrs pd _ Hdom Hknown (py_shape fd H)). Qed.
End PYI.

Theorem c09_python_all (uc : unicode) (cfg : py_config) (acrs : list str) (pd : parsed) :
  dom_C09 Python [] pd = true -> known_C09 Python [] acrs pd = None ->
  forall fd : file_decls, py_file_decls uc cfg (c09_reconciled pd) = Ok fd ->
    good_C09 Python [] pd (c09_observe Python fd) = true.
Proof. intros Hd Hk fd H. exact (c09_python uc cfg pd Hd acrs fd Hk H). Qed.
