(* C15 for Go at renderer level: what go_write_item prints for an IR item is code parts and `// `
   comment fragments whose doc strings are the item's doc strings in Go's print order (helper structs
   of struct variants first, each under the comment typeshare generates for it, then the enum's own
   doc - above the key type of a tagged enum -, then the variants' docs above their constants). *)
From Coq Require Import List NArith Bool Lia String.
From TS Require Import Model.Str Model.Outcome Model.Unicode Model.Types Model.Parse
                       Model.Lang.Common Model.Lang.Decl Model.Lang.Go.
From TS Require Import Spec.Lexers Spec.C15Spec Spec.C15Render Proofs.BackCommon Proofs.C15 Proofs.C15_Render.
Import ListNotations.
Local Open Scope N_scope.

Ltac c15_sites_norm :=
  unfold c15_sites; cbn [app]; rewrite ?app_nil_r, ?map_app, ?c15_map_flat_map; cbn [app map]; rewrite ?app_nil_r; reflexivity.

(* the doc strings of a declaration, in print order *)
Definition go_decl_docs (d : go_decl) : list str :=
  match d with
  | GOStruct docs _ _ ms => docs ++ flat_map gm_docs ms
  | GOAlias docs _ _ => docs
  | GOConst _ _ _ => []
  | GOUnitEnum docs _ vs => docs ++ flat_map (fun v => fst (fst v)) vs
  | GOTagged e => gt_docs e ++ flat_map gv_docs (gt_variants e)
  end.

Section GOLayout.
Variable P : str -> Prop.
Hypothesis P_all : forall s, P s.
Notation D := (Decomp C15go P).

Lemma go_comments_decomp i ds : D (go_write_comments i ds) (c15_sites false ds).
Proof. rewrite <- (proj1 (C15_fragment_go i ds)). exact (Decomp_frag C15go P false i ds). Qed.

Ltac go_decomp tac :=
  repeat first [ apply go_comments_decomp | tac | apply Decomp_app | apply Decomp_code; apply P_all ].

Lemma go_member_decomp m : D (go_render_member m) (c15_sites false (gm_docs m)).
Proof. unfold go_render_member. eapply Decomp_eq; [go_decomp ltac:(fail)|]. c15_sites_norm. Qed.

Lemma go_written_decomp e v : D (go_vo_written (go_render_variant e v)) (c15_sites false (gv_docs v)).
Proof.
  unfold go_render_variant. destruct (gv_content v); cbn [go_vo_written];
    (eapply Decomp_eq; [go_decomp ltac:(fail)|]; c15_sites_norm).
Qed.

Lemma go_written_all_decomp e vs :
  D (flat_map go_vo_written (map (go_render_variant e) vs)) (flat_map (fun v => c15_sites false (gv_docs v)) vs).
Proof.
  induction vs as [|v r IH]; [apply Decomp_nil|].
  cbn [map flat_map]. apply Decomp_app; [apply go_written_decomp|exact IH].
Qed.

Theorem go_decl_decomp d : D (go_render_decl d) (c15_sites false (go_decl_docs d)).
Proof.
  destruct d as [docs name gs ms|docs name ty|name ty value|docs name vs|e]; cbn [go_render_decl go_decl_docs].
  - eapply Decomp_eq;
      [go_decomp ltac:(apply (Decomp_concat_map C15go P) with (g := fun m => c15_sites false (gm_docs m));
                       intros; apply go_member_decomp)|].
    c15_sites_norm.
  - eapply Decomp_eq; [go_decomp ltac:(fail)|]. c15_sites_norm.
  - eapply Decomp_eq; [go_decomp ltac:(fail)|]. c15_sites_norm.
  - eapply Decomp_eq;
      [go_decomp ltac:(apply (Decomp_concat_map C15go P) with (g := fun v => c15_sites false (fst (fst v)));
                       intros [[vdocs const] wire] _; cbn [fst]; eapply Decomp_eq)|..].
    all: c15_sites_norm.
  - eapply Decomp_eq; [go_decomp ltac:(apply go_written_all_decomp)|]. c15_sites_norm.
Qed.
End GOLayout.

(* ---- decisions: the declarations keep the IR's doc strings ---- *)
Section GODocs.
Variable uc : unicode.
Variable cfg : go_config.

Ltac inv_ret H := unfold ret in H; injection H as <- _.

Lemma go_member_docs_ir gs f st m st' : go_member_of uc cfg gs f st = Ok (m, st') -> gm_docs m = fcomments f.
Proof.
  unfold go_member_of. intros H.
  apply mbind_ok in H as (a & s1 & _ & H). apply mbind_ok in H as (b & s2 & _ & H).
  apply mbind_ok in H as (c & s3 & _ & H). inv_ret H. reflexivity.
Qed.

Lemma go_struct_docs_ir rs st d st' : go_struct_decl_of uc cfg rs st = Ok (d, st') ->
  go_decl_docs d = scomments rs ++ flat_map fcomments (sfields rs).
Proof.
  unfold go_struct_decl_of. intros H.
  apply mbind_ok in H as (name & s1 & _ & H). apply mbind_ok in H as (ms & s2 & Hm & H). inv_ret H.
  cbn [go_decl_docs]. f_equal. apply c15_Forall2_flat_map. eapply mmapM_Forall2; [|exact Hm].
  intros f s0 m s0' Hf. exact (go_member_docs_ir _ _ _ _ _ Hf).
Qed.

Lemma go_anon_docs_ir sh st ds st' : go_anonymous_struct_decls uc cfg sh st = Ok (ds, st') ->
  flat_map go_decl_docs ds = flat_map (c15_helper_docs sh) (evariants sh).
Proof.
  unfold go_anonymous_struct_decls. intros H. apply mbind_ok in H as (dss & s1 & Hm & H). inv_ret H.
  rewrite c15_flat_map_concat. apply c15_Forall2_flat_map. eapply mmapM_Forall2; [|exact Hm].
  intros v s0 ds s0' Hv. destruct v as [vsh|t vsh|fs vsh]; try (inv_ret Hv; reflexivity).
  apply mbind_ok in Hv as (n & s2 & _ & Hv). apply mbind_ok in Hv as (d & s3 & Hd & Hv). inv_ret Hv.
  cbn [flat_map]. rewrite app_nil_r, (go_struct_docs_ir _ _ _ _ Hd). reflexivity.
Qed.

Theorem go_decl_docs_ir cs it st ds st' : go_decl_of uc cfg cs it st = Ok (ds, st') ->
  flat_map go_decl_docs ds = c15_item_docs_helpers_first it.
Proof.
  destruct it as [s|e|a|c]; cbn [go_decl_of c15_item_docs_helpers_first c15_item_docs]; intros H.
  - apply mbind_ok in H as (d & s1 & Hd & H). inv_ret H. cbn [flat_map]. rewrite app_nil_r.
    exact (go_struct_docs_ir _ _ _ _ Hd).
  - unfold go_enum_decls_of in H. apply mbind_ok in H as (anon & s1 & Ha & H).
    destruct e as [sh|tag content sh]; cbn [enum_shared] in *.
    + apply mbind_ok in H as (en & s2 & _ & H). apply mbind_ok in H as (vs & s3 & Hv & H). inv_ret H.
      rewrite flat_map_app, (go_anon_docs_ir _ _ _ _ Ha). f_equal. cbn [flat_map go_decl_docs]. rewrite app_nil_r. f_equal.
      apply c15_Forall2_flat_map. eapply mmapM_Forall2; [|exact Hv].
      intros v s0 x s0' Hx. destruct v as [vsh|t vsh|fs vsh]; cbn [go_unit_variant_of] in Hx; try discriminate.
      apply mbind_ok in Hx as (a & s4 & _ & Hx). apply mbind_ok in Hx as (b & s5 & _ & Hx). inv_ret Hx. reflexivity.
    + apply mbind_ok in H as (sn & s2 & _ & H). apply mbind_ok in H as (cf & s3 & _ & H).
      apply mbind_ok in H as (tf & s4 & _ & H). apply mbind_ok in H as (ssn & s5 & _ & H).
      apply mbind_ok in H as (ta & s6 & _ & H). apply mbind_ok in H as (vs & s7 & Hv & H). inv_ret H.
      rewrite flat_map_app, (go_anon_docs_ir _ _ _ _ Ha). f_equal.
      cbn [flat_map go_decl_docs gt_docs gt_variants]. rewrite app_nil_r. f_equal.
      apply c15_Forall2_flat_map. eapply mmapM_Forall2; [|exact Hv].
      intros v s0 x s0' Hx. unfold go_variant_of in Hx.
      apply mbind_ok in Hx as (a & t1 & _ & Hx). apply mbind_ok in Hx as (b & t2 & _ & Hx).
      apply mbind_ok in Hx as (c & t3 & _ & Hx). apply mbind_ok in Hx as (d & t4 & _ & Hx). inv_ret Hx. reflexivity.
  - apply mbind_ok in H as (n & s1 & _ & H). apply mbind_ok in H as (ty & s2 & _ & H). inv_ret H.
    cbn. now rewrite app_nil_r.
  - apply mbind_ok in H as (ty & s1 & _ & H). inv_ret H. reflexivity.
Qed.

(* one item through write_struct / write_enum (with write_types_for_anonymous_structs) / write_type_alias /
   write_const, for every printer state *)
Theorem go_item_decomp cs it st text st' : go_write_item uc cfg cs it st = Ok (text, st') ->
  Decomp C15go (fun _ => True) text (c15_sites false (c15_item_docs_helpers_first it)).
Proof.
  unfold go_write_item. intros H. apply mbind_ok in H as (ds & s1 & Hd & H). inv_ret H.
  rewrite <- (go_decl_docs_ir _ _ _ _ _ Hd). eapply Decomp_eq.
  - apply Decomp_concat_map with (g := fun d => c15_sites false (go_decl_docs d)).
    intros d _. apply go_decl_decomp. auto.
  - unfold c15_sites. now rewrite c15_map_flat_map.
Qed.

Theorem C15_go_render_partial cs it st text st' : go_write_item uc cfg cs it st = Ok (text, st') ->
  exists parts,
    text = text_of (c15_file_pieces C15go parts) /\
    docs_of (c15_file_pieces C15go parts) = c15_item_docs_helpers_first it /\
    (Forall (c15_code_neutral C15go) parts ->
     c15_contained C15go LCode (mark (c15_file_pieces C15go parts)) =
     forallb safe_go (c15_item_docs_helpers_first it)).
Proof.
  intros H. destruct (Decomp_partial _ _ _ (go_item_decomp _ _ _ _ _ H)) as (ps & Ht & Hd & Hc).
  exists ps. rewrite c15_sites_text_line in Hd by discriminate. rewrite c15_sites_ok_false in Hc by discriminate. auto.
Qed.
End GODocs.
