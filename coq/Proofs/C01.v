(* C01: the JSON key every generated member binds is serde's key of the Rust field.
   Part 1  generic: a characterisation ([fits]) of the observed member of a key, and the step from
           "every observed member list fits its expected keys" to the verdict [good_groups_C01];
   Part 2  the decision layer of each of the six back ends, for ALL IR values, configurations and
           printer states: the observation of whatever [<l>_decl_of] returns fits [ir_groups].
   Front end and composition: Proofs/C01Front.v; layout (key tokens read back): Proofs/C01Layout.v. *)
From Coq Require Import List Bool Lia ZifyBool ZifyN String Permutation.
From TS Require Import Model.Str Model.Outcome Model.Unicode Model.Syntax Model.Attrs Model.Types Model.Parse Model.Reconcile
                       Model.Lang.Common Model.Lang.Decl Model.Lang.TypeScript Model.Lang.Kotlin Model.Lang.Swift
                       Model.Lang.Scala Model.Lang.Go Model.Lang.Python.
From TS Require Import Spec.SerdeCase Spec.C16Spec Spec.Serde Spec.TargetOsRule Spec.C03Spec Spec.C01Spec.
From TS Require Import Proofs.BackCommon Proofs.FrontAttrs Proofs.FrontItems Proofs.SortLemmas Proofs.C01_TS.
Import ListNotations.
Local Open Scope N_scope.
Local Notation length := List.length (only parsing).

(* ===================================================================================== *)
(* Part 1: generic                                                                       *)
(* ===================================================================================== *)

Definition undash (k : str) : str := replace_char ch_dash ch_us k.

(* what the observed member of a field with key [k] looks like in language [l]: Scala declares the
   key with '-' replaced by '_' as a plain name; the other five bind the key itself *)
Definition fits (l : lang) (k : str) (m : member) : Prop :=
  mb_key m = match l with Scala => undash k | _ => k end /\
  binding_ok l m = true.
Definition group_fits (l : lang) (keys : list str) (ms : list member) : Prop := Forall2 (fits l) keys ms.
Definition groups_fit (l : lang) (expected : list (list str)) (gs : list (list member)) : Prop :=
  Forall2 (group_fits l) expected gs.

Lemma c01_strs_eqb_refl l : c01_strs_eqb l l = true.
Proof. induction l as [|x r IH]; cbn; [reflexivity|]. now rewrite str_eqb_refl. Qed.

Lemma undash_id k : c01_has_dash k = false -> undash k = k.
Proof.
  unfold c01_has_dash, contains_char, undash, replace_char. induction k as [|c r IH]; cbn [existsb map]; [reflexivity|].
  intros H. apply orb_false_iff in H as [Hc Hr]. rewrite (IH Hr).
  rewrite N.eqb_sym in Hc. now rewrite Hc.
Qed.

Lemma undash_no_dash k : c01_has_dash (undash k) = false.
Proof.
  unfold c01_has_dash, contains_char, undash, replace_char. induction k as [|c r IH]; cbn [existsb map]; [reflexivity|].
  rewrite IH, orb_false_r. destruct (c =? ch_dash) eqn:E; [reflexivity|]. now rewrite N.eqb_sym.
Qed.

Lemma map_undash_id keys : forallb (fun k => negb (c01_has_dash k)) keys = true -> map undash keys = keys.
Proof.
  induction keys as [|k r IH]; cbn [forallb map]; [reflexivity|]. intros H.
  apply andb_true_iff in H as [Hk Hr]. rewrite (IH Hr), undash_id; [reflexivity|]. now destruct (c01_has_dash k).
Qed.

Lemma group_fits_keys l keys ms : group_fits l keys ms ->
  map mb_key ms = match l with Scala => map undash keys | _ => keys end.
Proof.
  induction 1 as [|k m keys ms (Hk & _) _ IH]; [destruct l; reflexivity|].
  cbn [map]. rewrite Hk, IH. destruct l; reflexivity.
Qed.
Lemma group_fits_binding l keys ms : group_fits l keys ms -> binding_group l ms = true.
Proof.
  induction 1 as [|k m keys ms (_ & Hb) _ IH]; [reflexivity|]. unfold binding_group in *. cbn [forallb]. now rewrite Hb, IH.
Qed.

Lemma group_good l keys ms : group_fits l keys ms -> dom_group l keys = true ->
  keys_group keys ms = true /\ binding_group l ms = true.
Proof.
  intros H Hd. unfold dom_group in Hd. apply andb_true_iff in Hd as [_ Hsc].
  split.
  - unfold keys_group. rewrite (group_fits_keys _ _ _ H). destruct l; try apply c01_strs_eqb_refl.
    rewrite (map_undash_id _ Hsc). apply c01_strs_eqb_refl.
  - exact (group_fits_binding _ _ _ H).
Qed.

(* the step from the per-member characterisation to the verdict the check evaluates *)
Theorem groups_good l expected gs : groups_fit l expected gs ->
  dom_C01 l expected = true -> good_groups_C01 l expected gs = true.
Proof.
  unfold good_groups_C01, good_keys_C01, good_binding_C01.
  induction 1 as [|keys ms expected gs Hg _ IH]; [reflexivity|].
  cbn [dom_C01 forallb c01_all2]. intros Hd.
  apply andb_true_iff in Hd as [Hd1 Hd2].
  destruct (group_good l keys ms Hg Hd1) as (H1 & H2).
  specialize (IH Hd2). apply andb_true_iff in IH as [IH1 IH2].
  now rewrite H1, H2, IH1, IH2.
Qed.

(* ---------- list plumbing shared by the six back ends ---------- *)
Lemma Forall2_flat_map {A B C D} (R : C -> D -> Prop) (f : A -> list C) (g : B -> list D) la lb :
  Forall2 (fun a b => Forall2 R (f a) (g b)) la lb -> Forall2 R (flat_map f la) (flat_map g lb).
Proof. induction 1; cbn [flat_map]; [constructor|]. now apply Forall2_app. Qed.

Lemma flat_map_map {A B C} (g : A -> B) (f : B -> list C) l : flat_map f (map g l) = flat_map (fun x => f (g x)) l.
Proof. induction l as [|x r IH]; cbn; [reflexivity|]. now rewrite IH. Qed.

Lemma flat_map_single {A B} (f : A -> B) l : flat_map (fun x => [f x]) l = map f l.
Proof. induction l as [|x r IH]; cbn; [reflexivity|]. now rewrite IH. Qed.

Lemma flat_map_concat {A B} (f : A -> list B) ll : flat_map f (List.concat ll) = flat_map (flat_map f) ll.
Proof. induction ll as [|l r IH]; cbn; [reflexivity|]. now rewrite flat_map_app, IH. Qed.

Lemma flat_map_flat_map {A B C} (g : A -> list B) (f : B -> list C) l :
  flat_map f (flat_map g l) = flat_map (fun x => flat_map f (g x)) l.
Proof. induction l as [|x r IH]; cbn; [reflexivity|]. now rewrite flat_map_app, IH. Qed.

Lemma flat_map_nil {A B} (f : A -> list B) l : (forall x, f x = []) -> flat_map f l = [].
Proof. intros H. induction l as [|x r IH]; cbn; [reflexivity|]. now rewrite H, IH. Qed.

Lemma Forall2_Forall_l {A B} (P : A -> Prop) (R : A -> B -> Prop) l r :
  Forall P l -> Forall2 R l r -> Forall2 (fun x y => P x /\ R x y) l r.
Proof. intros HP H. induction H; constructor; inversion HP; subst; auto. Qed.

Lemma Forall2_impl {A B} (R S : A -> B -> Prop) l r : (forall x y, R x y -> S x y) -> Forall2 R l r -> Forall2 S l r.
Proof. intros H. induction 1; constructor; auto. Qed.

Lemma existsb_false_Forall {A} (p : A -> bool) l : existsb p l = false -> Forall (fun x => p x = false) l.
Proof.
  induction l as [|x r IH]; cbn [existsb]; intros H; constructor; apply orb_false_iff in H as [H1 H2]; auto.
Qed.

(* a member list observed member by member *)
Lemma fields_fit {M} l (obs : M -> member) (R : rfield -> M -> Prop) fs ms :
  Forall2 R fs ms -> (forall f m, R f m -> fits l (renamed (fid f)) (obs m)) ->
  group_fits l (ir_field_keys fs) (map obs ms).
Proof. unfold group_fits, ir_field_keys. induction 1; intros H'; cbn [map]; constructor; auto. Qed.

(* the expected groups of an enum, variant by variant *)
Definition variant_groups (v : rvariant) : list (list str) :=
  match v with VAnon fs _ => [ir_field_keys fs] | _ => [] end.
Lemma ir_groups_enum e : ir_groups (ItEnum e) = flat_map variant_groups (evariants (enum_shared e)).
Proof. reflexivity. Qed.

(* an observed variant that does not inline its members contributes no member list *)
Definition inline_groups (v : variantd) : list (list member) :=
  match vd_payload v with PayInline ms => [ms] | _ => [] end.
Lemma no_inline_groups {A} (g : A -> variantd) l :
  (forall x, match vd_payload (g x) with PayInline _ => False | _ => True end) ->
  flat_map inline_groups (map g l) = [].
Proof.
  intros H. rewrite flat_map_map. apply flat_map_nil. intros x. unfold inline_groups. specialize (H x).
  destruct (vd_payload (g x)); tauto || reflexivity.
Qed.
Lemma decl_groups_enum d : d_kind d = DEnum -> decl_groups d = flat_map inline_groups (d_variants d).
Proof. unfold decl_groups. now intros ->. Qed.

(* the helper structs of an enum's struct variants: one list of declarations per variant *)
Lemma inner_groups_fit {D} l (obs : D -> list decl) (vs : list rvariant) (dss : list (list D)) :
  Forall2 (fun v ds => groups_fit l (variant_groups v) (obs_groups (flat_map obs ds))) vs dss ->
  groups_fit l (flat_map variant_groups vs) (obs_groups (flat_map obs (List.concat dss))).
Proof.
  intros H. unfold obs_groups. rewrite flat_map_concat, flat_map_flat_map.
  unfold groups_fit. apply Forall2_flat_map. exact H.
Qed.

(* ===================================================================================== *)
(* Part 2: the six decision layers                                                       *)
(* ===================================================================================== *)

(* ---------------- TypeScript ---------------- *)
Section TS.
Variable uc : unicode.
Variable cfg : ts_config.

Lemma ts_member_fits generics f st m st' : ts_member_of cfg generics f st = Ok (m, st') ->
  fits TypeScript (renamed (fid f)) (ts_obs_member m).
Proof.
  intros H. apply ts_member_key in H. unfold fits. cbn [ts_obs_member mb_key mb_name mb_binding].
  split; auto. unfold binding_ok. cbn [ts_obs_member mb_binding mb_name mb_key].
  destruct (contains_char ch_dash (tm_key m)) eqn:E; [reflexivity|].
  rewrite str_eqb_refl. unfold c01_has_dash. now rewrite E.
Qed.

Lemma ts_members_fit generics fs st ms st' : mmapM (ts_member_of cfg generics) fs st = Ok (ms, st') ->
  group_fits TypeScript (ir_field_keys fs) (map ts_obs_member ms).
Proof.
  intros H. eapply fields_fit; [eapply mmapM_Forall2; [|exact H]|].
  - intros f s0 m s0' Hf. exact (ts_member_fits _ _ _ _ _ Hf).
  - auto.
Qed.

Lemma ts_variant_fits generics ue v st tv st' : ts_variant_of cfg generics ue v st = Ok (tv, st') ->
  groups_fit TypeScript (variant_groups v) (inline_groups (ts_obs_variant tv)).
Proof.
  destruct v as [vsh|t vsh|fs vsh]; cbn [ts_variant_of]; intros H.
  - unfold ret in H. injection H as <- _. constructor.
  - apply mbind_ok in H as (ty & s2 & _ & H). unfold ret in H. injection H as <- _. constructor.
  - apply mbind_ok in H as (ms & s2 & Hms & H). unfold ret in H. injection H as <- _.
    unfold inline_groups. cbn [ts_obs_variant vd_payload variant_groups]. constructor; [|constructor].
    exact (ts_members_fit _ _ _ _ _ Hms).
Qed.

Theorem ts_decl_fits it st d st' : ts_decl_of uc cfg it st = Ok (d, st') ->
  groups_fit TypeScript (ir_groups it) (obs_groups [ts_obs d]).
Proof.
  unfold obs_groups. cbn [flat_map]. rewrite app_nil_r.
  destruct it as [s|e|a|c]; cbn [ts_decl_of]; intros H.
  - apply mbind_ok in H as (ms & s1 & Hm & H). unfold ret in H. injection H as <- _.
    cbn [ts_obs]. unfold decl_groups. cbn [d_kind d_members ir_groups]. constructor; [|constructor].
    exact (ts_members_fit _ _ _ _ _ Hm).
  - destruct e as [sh|tag content sh].
    + apply mbind_ok in H as (vs & s1 & Hm & H). unfold ret in H. injection H as <- _.
      rewrite ir_groups_enum. cbn [enum_shared].
      assert (Hu : Forall (fun v => variant_groups v = []) (evariants sh)).
      { apply (mmapM_Forall2 _ (fun v _ => variant_groups v = [])) in Hm.
        - clear -Hm. induction Hm; constructor; auto.
        - intros v s0 y s0' Hv. destruct v; [reflexivity| |]; discriminate Hv. }
      rewrite decl_groups_enum by reflexivity. cbn [ts_obs d_variants].
      rewrite no_inline_groups by (intros [[? ?] ?]; exact I).
      replace (flat_map variant_groups (evariants sh)) with (@nil (list str)); [constructor|].
      clear -Hu. induction Hu as [|v r Hv _ IH]; cbn [flat_map]; [reflexivity|]. now rewrite Hv, <- IH.
    + apply mbind_ok in H as (vs & s1 & Hm & H). unfold ret in H. injection H as <- _.
      rewrite ir_groups_enum, decl_groups_enum by reflexivity. cbn [enum_shared ts_obs d_variants].
      rewrite flat_map_map. unfold groups_fit. apply Forall2_flat_map.
      eapply mmapM_Forall2; [|exact Hm]. intros v s0 tv s0' Hv. exact (ts_variant_fits _ _ _ _ _ _ Hv).
  - apply mbind_ok in H as (ty & s1 & _ & H). unfold ret in H. injection H as <- _. constructor.
  - apply mbind_ok in H as (ty & s1 & _ & H). unfold ret in H. injection H as <- _. constructor.
Qed.
End TS.

(* ---------------- Kotlin ---------------- *)
Section KT.
Variable cfg : kt_config.

Lemma kt_member_fits f gens (req : bool) vis m : kt_member_of cfg f gens req vis = Ok m ->
  (req = false -> c01_has_dash (renamed (fid f)) = false) ->
  fits Kotlin (renamed (fid f)) (kt_obs_member m).
Proof.
  unfold kt_member_of. destruct (match type_override f Kotlin with Some o => _ | None => _ end) as [ty| |]; cbn [bind]; try discriminate.
  intros [= <-] Hreq. unfold fits, binding_ok. cbn [kt_obs_member km_serial_name km_name mb_key mb_binding mb_name].
  unfold kt_remove_dash_from_identifier. fold (undash (renamed (fid f))).
  destruct req; cbn.
  - repeat split; auto.
  - rewrite (undash_id _ (Hreq eq_refl)). repeat split; auto. now rewrite str_eqb_refl, (Hreq eq_refl).
Qed.

Lemma kt_struct_fits rs d : kt_struct_decl cfg rs = Ok d ->
  groups_fit Kotlin [ir_field_keys (sfields rs)] (decl_groups (kt_obs d)).
Proof.
  unfold kt_struct_decl. destruct (sfields rs) as [|f0 fr] eqn:Ef.
  - intros [= <-]. cbn. repeat constructor.
  - set (fs := f0 :: fr) in *. set (req := existsb (fun f => contains_char ch_dash (renamed (fid f))) fs).
    destruct (mapM _ fs) as [ms| |] eqn:Em; cbn [bind]; try discriminate. intros [= <-].
    cbn [kt_obs]. unfold decl_groups. cbn [d_kind d_members]. constructor; [|constructor].
    assert (Hall : Forall (fun f => req = false -> c01_has_dash (renamed (fid f)) = false) fs).
    { destruct req eqn:Er; [apply Forall_forall; intros; discriminate|].
      apply existsb_false_Forall in Er. eapply Forall_impl; [|exact Er]. cbn. auto. }
    apply mapM_Forall2 in Em. eapply fields_fit; [exact (Forall2_Forall_l _ _ _ _ Hall Em)|].
    intros f m [Hd Hm]. exact (kt_member_fits _ _ _ _ _ Hm Hd).
Qed.

Lemma kt_inner_fit e ds : kt_inner_decls cfg e = Ok ds ->
  groups_fit Kotlin (ir_groups (ItEnum e)) (obs_groups (map kt_obs ds)).
Proof.
  unfold kt_inner_decls. destruct (mapM _ (evariants (enum_shared e))) as [dss| |] eqn:Em; cbn [bind]; try discriminate.
  intros [= <-]. rewrite ir_groups_enum, <- flat_map_single. apply inner_groups_fit.
  apply mapM_Forall2 in Em. eapply Forall2_impl; [|exact Em]. cbn beta.
  intros v dsv Hv. destruct v as [vsh|t vsh|fs vsh]; try (injection Hv as <-; constructor).
  destruct (kt_struct_decl cfg _) as [d| |] eqn:Ed; cbn [bind] in Hv; try discriminate. injection Hv as <-.
  apply kt_struct_fits in Ed. cbn [anon_struct sfields] in Ed.
  change (groups_fit Kotlin [ir_field_keys fs] (decl_groups (kt_obs d) ++ [])). now rewrite app_nil_r.
Qed.

Theorem kt_decl_fits it ds : kt_decl_of cfg it = Ok ds ->
  groups_fit Kotlin (ir_groups it) (obs_groups (map kt_obs ds)).
Proof.
  destruct it as [s|e|a|c]; cbn [kt_decl_of]; intros H.
  - destruct (kt_struct_decl cfg s) as [d| |] eqn:Ed; cbn [bind] in H; try discriminate. injection H as <-.
    apply kt_struct_fits in Ed. unfold obs_groups. cbn [map flat_map ir_groups]. now rewrite app_nil_r.
  - unfold kt_enum_decls in H. destruct (kt_inner_decls cfg e) as [anon| |] eqn:Ea; cbn [bind] in H; try discriminate.
    apply kt_inner_fit in Ea.
    assert (Hd : forall d, (exists docs name gs es, d = KTEnumClass docs name gs es) \/
                           (exists docs name gs content vs, d = KTSealedClass docs name gs content vs) ->
                           decl_groups (kt_obs d) = []).
    { intros d [(docs & name & gs & es & ->)|(docs & name & gs & content & vs & ->)];
        rewrite decl_groups_enum by reflexivity; cbn [kt_obs d_variants]; apply no_inline_groups.
      - intros x. exact I.
      - intros x. cbn [kt_obs_variant vd_payload]. destruct (kv_payload x); exact I. }
    destruct e as [sh|tag content sh]; cbn [enum_shared] in H.
    + destruct (mapM kt_entry_of (evariants sh)) as [es| |]; cbn [bind] in H; try discriminate. injection H as <-.
      unfold obs_groups in *. rewrite map_app, flat_map_app. cbn [map flat_map].
      rewrite Hd, !app_nil_r by (left; eauto). exact Ea.
    + destruct (mapM (kt_variant_of cfg sh) (evariants sh)) as [vs| |]; cbn [bind] in H; try discriminate. injection H as <-.
      unfold obs_groups in *. rewrite map_app, flat_map_app. cbn [map flat_map].
      rewrite Hd, !app_nil_r by (right; eauto 6). exact Ea.
  - destruct (kt_alias_decl cfg a) as [d| |] eqn:Ed; cbn [bind] in H; try discriminate. injection H as <-.
    unfold kt_alias_decl in Ed. destruct (kt_is_inline (adecs a)).
    + destruct (kt_member_of cfg _ _ _ _); cbn [bind] in Ed; try discriminate. injection Ed as <-. constructor.
    + destruct (kt_texp cfg _ _); cbn [bind] in Ed; try discriminate. injection Ed as <-. constructor.
  - discriminate.
Qed.
End KT.

(* ---------------- Scala ---------------- *)
Section SC.
Variable cfg : sc_config.

Lemma sc_member_fits gens f m : sc_member_of cfg gens f = Ok m -> fits Scala (renamed (fid f)) (sc_obs_member m).
Proof.
  unfold sc_member_of. destruct (match type_override f Scala with Some o => _ | None => _ end) as [ty| |]; cbn [bind]; try discriminate.
  intros [= <-]. unfold fits, binding_ok. cbn [sc_obs_member scm_name mb_key mb_binding mb_name].
  fold (undash (renamed (fid f))). repeat split; auto. now rewrite str_eqb_refl, undash_no_dash.
Qed.

Lemma sc_class_fits rs d : sc_class_of cfg rs = Ok d ->
  groups_fit Scala [ir_field_keys (sfields rs)] (obs_groups (sc_obs d)).
Proof.
  unfold sc_class_of. destruct (sfields rs) as [|f0 fr] eqn:Ef.
  - intros [= <-]. cbn. repeat constructor.
  - destruct (mapM _ (f0 :: fr)) as [ms| |] eqn:Em; cbn [bind]; try discriminate. intros [= <-].
    unfold obs_groups. cbn [sc_obs flat_map]. unfold decl_groups. cbn [d_kind d_members app]. constructor; [|constructor].
    apply mapM_Forall2 in Em. eapply fields_fit; [exact Em|]. intros f m Hm. exact (sc_member_fits _ _ _ Hm).
Qed.

Lemma sc_inner_fit sh ds : sc_inner_decls_of cfg sh = Ok ds ->
  groups_fit Scala (flat_map variant_groups (evariants sh)) (obs_groups (flat_map sc_obs ds)).
Proof.
  unfold sc_inner_decls_of. destruct (mapM _ (evariants sh)) as [dss| |] eqn:Em; cbn [bind]; try discriminate.
  intros [= <-]. apply inner_groups_fit.
  apply mapM_Forall2 in Em. eapply Forall2_impl; [|exact Em]. cbn beta.
  intros v dsv Hv. destruct v as [vsh|t vsh|fs vsh]; try (injection Hv as <-; constructor).
  destruct (sc_class_of cfg _) as [d| |] eqn:Ed; cbn [bind] in Hv; try discriminate. injection Hv as <-.
  apply sc_class_fits in Ed. cbn [anon_struct sfields] in Ed. cbn [flat_map variant_groups]. now rewrite app_nil_r.
Qed.

Theorem sc_decl_fits it ds : sc_decl_of cfg it = Ok ds ->
  groups_fit Scala (ir_groups it) (obs_groups (flat_map sc_obs ds)).
Proof.
  destruct it as [s|e|a|c]; cbn [sc_decl_of]; intros H.
  - destruct (sc_class_of cfg s) as [d| |] eqn:Ed; cbn [bind] in H; try discriminate. injection H as <-.
    apply sc_class_fits in Ed. cbn [flat_map ir_groups]. now rewrite app_nil_r.
  - destruct (sc_inner_decls_of cfg (enum_shared e)) as [inner| |] eqn:Ei; cbn [bind] in H; try discriminate.
    destruct (sc_variants_of cfg e) as [vs| |] eqn:Ev; cbn [bind] in H; try discriminate. injection H as <-.
    apply sc_inner_fit in Ei. rewrite ir_groups_enum. unfold obs_groups in *.
    rewrite !flat_map_app. cbn [flat_map sc_obs app]. rewrite decl_groups_enum by reflexivity. cbn [d_variants].
    rewrite no_inline_groups, !app_nil_r; [exact Ei|].
    intros x. cbn [sc_obs_variant vd_payload]. destruct (scv_payload x) as [|gs c ty|gs c i a0]; try exact I. destruct ty; exact I.
  - destruct (sc_texp cfg _ _); cbn [bind] in H; try discriminate. injection H as <-. constructor.
  - discriminate.
Qed.
End SC.

(* ---------------- Swift ---------------- *)
Section SW.
Variable uc : unicode.
Variable cfg : sw_config.

Lemma sw_member_fits f ty ity : fits Swift (renamed (fid f)) (sw_obs_member (sw_member_of uc f ty ity)).
Proof.
  unfold fits, binding_ok, sw_member_of. cbn [sw_obs_member swm_coding_key swm_name mb_key mb_binding mb_name].
  unfold sw_remove_dash_from_identifier. fold (undash (renamed (fid f))). fold (c01_has_dash (renamed (fid f))).
  destruct (c01_has_dash (renamed (fid f))) eqn:Hd; cbn.
  - split; reflexivity.
  - rewrite (undash_id _ Hd). split; [reflexivity|now rewrite str_eqb_refl, Hd].
Qed.

Lemma sw_combine_fits (fs : list rfield) : forall (rest : list (texp * texp)), length rest = length fs ->
  group_fits Swift (ir_field_keys fs)
    (map sw_obs_member (map (fun x => sw_member_of uc (fst x) (fst (snd x)) (snd (snd x))) (combine fs rest))).
Proof.
  induction fs as [|f fs IH]; intros [|r rest] Hl; try discriminate; cbn [combine map ir_field_keys]; [constructor|].
  constructor; [apply sw_member_fits|]. apply IH. cbn in Hl. congruence.
Qed.

Lemma combine_length_eq {A B} (a : list A) (b : list B) : length a = length b -> length (combine a b) = length a.
Proof. intros H. rewrite combine_length. lia. Qed.

Lemma sw_struct_fits rs st d st' : sw_struct_of uc cfg rs st = Ok (d, st') ->
  groups_fit Swift [ir_field_keys (sfields rs)] (decl_groups (sw_obs_struct d)).
Proof.
  unfold sw_struct_of. intros H.
  apply mbind_ok in H as (tys & s1 & Ht & H). apply mbind_ok in H as (itys & s2 & Hi & H).
  unfold ret in H. injection H as <- _.
  unfold decl_groups. cbn [sw_obs_struct d_kind d_members sws_members]. constructor; [|constructor].
  apply sw_combine_fits. apply mmapM_length in Ht. apply mmapM_length in Hi.
  rewrite combine_length_eq; congruence.
Qed.

Lemma sw_inner_fit sh vs : forall st ss st', sw_inner_structs_of uc cfg sh vs st = Ok (ss, st') ->
  groups_fit Swift (flat_map variant_groups vs) (obs_groups (map sw_obs_struct ss)).
Proof.
  induction vs as [|v vs IH]; intros st ss st' H; cbn [sw_inner_structs_of] in H.
  - unfold ret in H. injection H as <- _. constructor.
  - destruct v as [vsh|t vsh|fs vsh]; cbn [flat_map variant_groups app]; try (eapply IH; exact H).
    apply mbind_ok in H as (s & s1 & Hs & H). apply mbind_ok in H as (ss' & s2 & Hss & H).
    unfold ret in H. injection H as <- _.
    apply sw_struct_fits in Hs. cbn [anon_struct sfields] in Hs. apply IH in Hss.
    unfold obs_groups in *. cbn [map flat_map]. unfold groups_fit in *.
    change (ir_field_keys fs :: flat_map variant_groups vs) with ([ir_field_keys fs] ++ flat_map variant_groups vs).
    apply Forall2_app; [exact Hs|exact Hss].
Qed.

Theorem sw_decl_fits it st d st' : sw_decl_of uc cfg it st = Ok (d, st') ->
  groups_fit Swift (ir_groups it) (obs_groups (sw_obs d)).
Proof.
  destruct it as [s|e|a|c]; cbn [sw_decl_of]; intros H.
  - apply mbind_ok in H as (d0 & s1 & Hd & H). unfold ret in H. injection H as <- _.
    apply sw_struct_fits in Hd. unfold obs_groups. cbn [sw_obs flat_map ir_groups]. now rewrite app_nil_r.
  - apply mbind_ok in H as (d0 & s1 & Hd & H). unfold ret in H. injection H as <- _.
    unfold sw_enum_of in Hd. apply mbind_ok in Hd as (inner & s2 & Hi & Hd). apply mbind_ok in Hd as (vs & s3 & _ & Hd).
    unfold ret in Hd. injection Hd as <- _.
    apply sw_inner_fit in Hi. rewrite ir_groups_enum. cbn [sw_obs swe_inner].
    unfold obs_groups in *. rewrite flat_map_app. cbn [flat_map]. rewrite decl_groups_enum by reflexivity.
    cbn [sw_obs_enum d_variants]. rewrite no_inline_groups, !app_nil_r; [exact Hi|].
    intros x. cbn [sw_obs_variant vd_payload]. destruct (swv_payload x); exact I.
  - apply mbind_ok in H as (t & s1 & _ & H). unfold ret in H. injection H as <- _. constructor.
  - discriminate.
Qed.
End SW.

(* ---------------- Go ---------------- *)
Section GO.
Variable uc : unicode.
Variable cfg : go_config.

Lemma go_member_fits gens f st m st' : go_member_of uc cfg gens f st = Ok (m, st') ->
  fits Go (renamed (fid f)) (go_obs_member m).
Proof.
  unfold go_member_of. intros H.
  apply mbind_ok in H as (tn & s1 & _ & H). apply mbind_ok in H as (gt & s2 & _ & H).
  apply mbind_ok in H as (fname & s3 & _ & H). unfold ret in H. injection H as <- _.
  unfold fits, binding_ok. cbn. split; reflexivity.
Qed.

Lemma go_struct_fits rs st d st' : go_struct_decl_of uc cfg rs st = Ok (d, st') ->
  groups_fit Go [ir_field_keys (sfields rs)] (obs_groups (go_obs d)).
Proof.
  unfold go_struct_decl_of. intros H.
  apply mbind_ok in H as (name & s1 & _ & H). apply mbind_ok in H as (ms & s2 & Hm & H).
  unfold ret in H. injection H as <- _.
  unfold obs_groups. cbn [go_obs flat_map]. unfold decl_groups. cbn [d_kind d_members app]. constructor; [|constructor].
  eapply fields_fit; [eapply mmapM_Forall2; [|exact Hm]|].
  - intros f s0 m s0' Hf. exact (go_member_fits _ _ _ _ _ Hf).
  - auto.
Qed.

Lemma go_anon_fit sh st ds st' : go_anonymous_struct_decls uc cfg sh st = Ok (ds, st') ->
  groups_fit Go (flat_map variant_groups (evariants sh)) (obs_groups (flat_map go_obs ds)).
Proof.
  unfold go_anonymous_struct_decls. intros H. apply mbind_ok in H as (dss & s1 & Hm & H).
  unfold ret in H. injection H as <- _. apply inner_groups_fit.
  eapply mmapM_Forall2; [|exact Hm]. cbn beta.
  intros v s0 dsv s0' Hv. destruct v as [vsh|t vsh|fs vsh]; try (unfold ret in Hv; injection Hv as <- _; constructor).
  apply mbind_ok in Hv as (sn & s2 & _ & Hv). apply mbind_ok in Hv as (d & s3 & Hd & Hv).
  unfold ret in Hv. injection Hv as <- _.
  apply go_struct_fits in Hd. cbn [anon_struct sfields] in Hd. cbn [flat_map variant_groups]. now rewrite app_nil_r.
Qed.

Theorem go_decl_fits custom it st ds st' : go_decl_of uc cfg custom it st = Ok (ds, st') ->
  groups_fit Go (ir_groups it) (obs_groups (flat_map go_obs ds)).
Proof.
  destruct it as [s|e|a|c]; cbn [go_decl_of]; intros H.
  - apply mbind_ok in H as (d & s1 & Hd & H). unfold ret in H. injection H as <- _.
    apply go_struct_fits in Hd. cbn [flat_map ir_groups]. now rewrite app_nil_r.
  - unfold go_enum_decls_of in H. apply mbind_ok in H as (anon & s1 & Ha & H).
    apply go_anon_fit in Ha. rewrite ir_groups_enum.
    assert (Hd : forall d, (exists docs name vs, d = GOUnitEnum docs name vs) \/ (exists t, d = GOTagged t) ->
                           obs_groups (go_obs d) = []).
    { intros d [(docs & name & vs & ->)|(t & ->)]; unfold obs_groups; cbn [go_obs flat_map].
      - rewrite decl_groups_enum by reflexivity. cbn [d_variants]. rewrite no_inline_groups; [reflexivity|].
        intros [[? ?] ?]. exact I.
      - unfold decl_groups at 1. cbn [d_kind app]. rewrite decl_groups_enum by reflexivity. cbn [d_variants].
        rewrite no_inline_groups; [reflexivity|].
        intros x. cbn [go_obs_variant vd_payload]. destruct (gv_content x); exact I. }
    destruct e as [sh|tag content sh]; cbn [enum_shared] in *.
    + apply mbind_ok in H as (en & s2 & _ & H). apply mbind_ok in H as (vs & s3 & _ & H).
      unfold ret in H. injection H as <- _.
      unfold obs_groups in *. rewrite !flat_map_app. cbn [flat_map]. rewrite app_nil_r.
      rewrite Hd by (left; eauto). now rewrite app_nil_r.
    + apply mbind_ok in H as (sn & s2 & _ & H). apply mbind_ok in H as (cf & s3 & _ & H).
      apply mbind_ok in H as (tf & s4 & _ & H). apply mbind_ok in H as (ssn & s5 & _ & H).
      apply mbind_ok in H as (ta & s6 & _ & H). apply mbind_ok in H as (vs & s7 & _ & H).
      unfold ret in H. injection H as <- _.
      unfold obs_groups in *. rewrite !flat_map_app. cbn [flat_map]. rewrite app_nil_r.
      rewrite Hd by (right; eauto). now rewrite app_nil_r.
  - apply mbind_ok in H as (name & s1 & _ & H). apply mbind_ok in H as (ty & s2 & _ & H).
    unfold ret in H. injection H as <- _. constructor.
  - apply mbind_ok in H as (ty & s1 & _ & H). unfold ret in H. injection H as <- _. constructor.
Qed.
End GO.

(* ---------------- Python ---------------- *)
Section PY.
Variable uc : unicode.
Variable cfg : py_config.

Lemma py_member_fits gens f st m st' : py_member_of uc cfg gens f st = Ok (m, st') ->
  fits Python (renamed (fid f)) (py_obs_member m).
Proof.
  unfold py_member_of. intros H.
  apply mbind_ok in H as (ty & s1 & _ & H). apply mbind_ok in H as (u & s2 & _ & H).
  apply mbind_ok in H as (ann & s3 & _ & H). unfold ret in H. injection H as <- _.
  unfold fits, binding_ok. cbn [py_obs_member pym_alias pym_name mb_key mb_binding mb_name].
  destruct (str_eqb (py_property_aware_rename uc (original (fid f))) (renamed (fid f))) eqn:E; cbn [negb].
  - apply str_eqb_eq in E. rewrite E. split; [reflexivity|now rewrite str_eqb_refl].
  - split; reflexivity.
Qed.

Lemma py_class_fits rs st d st' : py_class_of uc cfg rs st = Ok (d, st') ->
  groups_fit Python [ir_field_keys (sfields rs)] (obs_groups (py_obs d)).
Proof.
  unfold py_class_of. intros H.
  apply mbind_ok in H as (u1 & s1 & _ & H). apply mbind_ok in H as (u2 & s2 & _ & H).
  apply mbind_ok in H as (u3 & s3 & _ & H). apply mbind_ok in H as (config & s4 & _ & H).
  apply mbind_ok in H as (ms & s5 & Hm & H). unfold ret in H. injection H as <- _.
  unfold obs_groups. cbn [py_obs flat_map]. unfold decl_groups. cbn [d_kind d_members app]. constructor; [|constructor].
  eapply fields_fit; [eapply mmapM_Forall2; [|exact Hm]|].
  - intros f s0 m s0' Hf. exact (py_member_fits _ _ _ _ _ Hf).
  - auto.
Qed.

Lemma py_inner_fit sh vs : forall st ds st', py_inner_classes_of uc cfg sh vs st = Ok (ds, st') ->
  groups_fit Python (flat_map variant_groups vs) (obs_groups (flat_map py_obs ds)).
Proof.
  induction vs as [|v vs IH]; intros st ds st' H; cbn [py_inner_classes_of] in H.
  - unfold ret in H. injection H as <- _. constructor.
  - destruct v as [vsh|t vsh|fs vsh]; cbn [flat_map variant_groups app]; try (eapply IH; exact H).
    apply mbind_ok in H as (c & s1 & Hc & H). apply mbind_ok in H as (cs & s2 & Hcs & H).
    unfold ret in H. injection H as <- _.
    apply py_class_fits in Hc. cbn [anon_struct sfields] in Hc. apply IH in Hcs.
    unfold obs_groups in *. cbn [flat_map]. rewrite flat_map_app. unfold groups_fit in *.
    change (ir_field_keys fs :: flat_map variant_groups vs) with ([ir_field_keys fs] ++ flat_map variant_groups vs).
    apply Forall2_app; [exact Hc|exact Hcs].
Qed.

Theorem py_decl_fits it st ds st' : py_decl_of uc cfg it st = Ok (ds, st') ->
  groups_fit Python (ir_groups it) (obs_groups (flat_map py_obs ds)).
Proof.
  destruct it as [s|e|a|c]; cbn [py_decl_of]; intros H.
  - apply mbind_ok in H as (d & s1 & Hd & H). unfold ret in H. injection H as <- _.
    apply py_class_fits in Hd. cbn [flat_map ir_groups]. now rewrite app_nil_r.
  - apply mbind_ok in H as (inners & s1 & Hi & H). apply py_inner_fit in Hi. rewrite ir_groups_enum.
    assert (Hd : forall d, (exists docs name vs, d = PYUnitEnum docs name vs) \/
                           (exists docs name tn en t c vs, d = PYAlgebraic docs name tn en t c vs) ->
                           obs_groups (py_obs d) = []).
    { intros d [(docs & name & vs & ->)|(docs & name & tn & en & t & c & vs & ->)]; unfold obs_groups; cbn [py_obs flat_map].
      - rewrite decl_groups_enum by reflexivity. cbn [d_variants]. rewrite no_inline_groups; [reflexivity|].
        intros [[? ?] ?]. exact I.
      - unfold decl_groups at 1. cbn [d_kind app]. rewrite decl_groups_enum by reflexivity. cbn [d_variants].
        rewrite no_inline_groups; [reflexivity|].
        intros x. unfold py_obs_variant. cbn [vd_payload]. destruct (pyv_content x); exact I. }
    destruct e as [sh|tag content sh]; cbn [enum_shared] in *.
    + apply mbind_ok in H as (u & s2 & _ & H). apply mbind_ok in H as (vs & s3 & _ & H).
      unfold ret in H. injection H as <- _.
      unfold obs_groups in *. rewrite !flat_map_app. cbn [flat_map]. rewrite app_nil_r.
      rewrite Hd by (left; eauto). now rewrite app_nil_r.
    + apply mbind_ok in H as (d & s2 & Ha & H). unfold ret in H. injection H as <- _.
      unfold py_algebraic_of in Ha.
      apply mbind_ok in Ha as (u1 & t1 & _ & Ha). apply mbind_ok in Ha as (u2 & t2 & _ & Ha).
      apply mbind_ok in Ha as (u3 & t3 & _ & Ha). apply mbind_ok in Ha as (vs & t4 & _ & Ha).
      apply mbind_ok in Ha as (u5 & t5 & _ & Ha). unfold ret in Ha. injection Ha as <- _.
      unfold obs_groups in *. rewrite !flat_map_app. cbn [flat_map]. rewrite app_nil_r.
      rewrite Hd by (right; eauto 10). now rewrite app_nil_r.
  - apply mbind_ok in H as (ty & s1 & _ & H). apply mbind_ok in H as (utv & stv & _ & H). unfold ret in H. injection H as <- _. constructor.
  - apply mbind_ok in H as (ty & s1 & _ & H). unfold ret in H. injection H as <- _. constructor.
Qed.
End PY.
