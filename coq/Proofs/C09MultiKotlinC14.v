(* C09 in folder mode composed with C14 (Kotlin): in the file generated for a crate every reference is spelled as
   Spec/C09MultiLangSpec.v demands (Proofs/C09MultiKotlin.v), every cross-crate reference in dom_C14 is imported from
   the crate that defines it under the emitted name, and every import line `import <package>.<k>.<prefix><n>` names a
   class that k's file declares under prefix ++ n (C14's Kotlin theorem, since fix 26 of /repo about the PREFIXED name). *)
From Coq Require Import List Bool String Permutation.
From TS Require Import Model.Str Model.Outcome Model.Unicode Model.Syntax Model.Types Model.Parse Model.Reconcile Model.Collect
                       Model.Lang.Common Model.Lang.Decl Model.Lang.Kotlin Model.MultiFile.
From TS Require Import Spec.C11Spec Spec.C14Spec Spec.C14KotlinSpec Spec.C09Spec Spec.C09MultiSpec Spec.C09MultiLangSpec.
From TS Require Import Proofs.C14 Proofs.C14Front Proofs.C14Main Proofs.C14Imports Proofs.C14Kotlin Proofs.C09Multi Proofs.C09MultiC14
                       Proofs.C09MultiLang Proofs.C09MultiKotlin Proofs.C12MultiStateless.
Import ListNotations.

Theorem c9m_kt_spelled_and_imported (uc : unicode) (Huc : unicode_ok uc) (cfg : kt_config) (T ign : list str)
    (ho_file ho_crate : list imported -> list imported) (hc : crate_types -> crate_types)
    (ws : list ws_entry) (arrivals : list (str * parsed)) :
  parse_workspace uc T ign ho_file ws = Ok arrivals ->
  oracle_ok ho_file -> oracle_ok ho_crate -> oracle_ok hc -> c9m_ids_wf arrivals = true ->
  forall c pd, In (c, pd) (multi_crates ho_crate arrivals) ->
  let imports := crate_imports hc (multi_crates ho_crate arrivals) c pd in
  forall text, kt_generate_multi uc cfg c imports pd = Ok text ->
    (exists ds fd,
       kt_decls uc cfg pd = Ok ds /\ kt_file_decls uc cfg pd = Ok fd /\ fd_decls fd = map kt_obs ds /\
       text = kt_render_header (kt_header_multi cfg c) ++
              c14_kt_import_block (kt_package cfg) (kt_prefix cfg) (scoped_pairs imports) ++ List.concat (map kt_render_decl ds) /\
       good_C09_multi Kotlin (kt_prefix cfg) arrivals c (c09_observe Kotlin fd) = true) /\
    (forall v, In v (judge_crate (c14_infos uc T ws) ign c (scoped_pairs imports)) -> rv_dom v = true ->
       rv_imported v = true /\
       (c9m_two_names arrivals (rv_from v) (rv_name v) = false ->
        rv_generated_name v = c9m_emitted_name arrivals (rv_from v) (rv_name v))) /\
    (forall k n, In (k, n) (scoped_pairs imports) ->
       k <> c /\
       exists pdk, In (k, pdk) (multi_crates ho_crate arrivals) /\
         (exists it, In it (items_of pdk) /\ is_type14 it = true /\ renamed (item_id it) = n) /\
         forall imk textk, kt_generate_multi uc cfg k imk pdk = Ok textk ->
           forall it, In it (items_of pdk) -> is_type14 it = true -> renamed (item_id it) = n ->
             exists ds pre post,
               kt_decl_of cfg it = Ok ds /\
               textk = kt_begin_file_multi cfg k ++ c14_kt_import_block (kt_package cfg) (kt_prefix cfg) (scoped_pairs imk) ++
                       pre ++ List.concat (map kt_render_decl ds) ++ post /\
               (c14_kt_alias_class it = false -> exists d, In d ds /\ d_name (kt_obs d) = kt_prefix cfg ++ n)).
Proof.
  intros HW Hof Hoc Hhc Hwf c pd Hin imports text Hg. split; [|split].
  - destruct (c9m_kt_file uc cfg ho_crate arrivals Hoc Hwf c pd Hin c imports text Hg) as (ds & fd & A & B & C & D & _ & E).
    exists ds, fd. rewrite kt_write_imports_block in D. auto.
  - intros v Hv Hd. split.
    + exact (imports_complete uc Huc T ign ho_file ho_crate hc ws arrivals HW Hof Hoc Hhc c pd v Hin Hv Hd).
    + intros H2. rewrite (judge_crate_generated uc T ws ign c _ v Hv). now apply (c9m_renamed_in_emitted uc T ign ho_file ws arrivals HW).
  - intros k n Hkn. apply (kt_imports_name_declared uc cfg T ign ho_file ho_crate hc ws arrivals HW (fun l x Hx => proj1 (Hhc l x) Hx) c pd k n Hkn).
Qed.
