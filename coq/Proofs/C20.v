(* C20: the configuration pipeline of the CLI (load_config / find_configuration_file,
   override_configuration, language(), store_config) computes, for every file system, current
   directory and command line, the settings of Spec/C20Spec.v: command line, else file, else default. *)
From Coq Require Import Lia String.
From TS Require Import Model.Str Model.Types Model.Config Spec.C20Spec.

Local Notation F := CONFIG_FILE_NAME.

(* ------------------------------------------------------------------ paths *)
Lemma fpath_eqb_refl p : fpath_eqb p p = true.
Proof. induction p as [|x p IH]; simpl; [reflexivity|]. now rewrite str_eqb_refl. Qed.

Lemma fpath_eqb_eq a b : fpath_eqb a b = true <-> a = b.
Proof.
  revert b; induction a as [|x a IH]; intros [|y b]; simpl; split; try congruence; try reflexivity.
  - intros H. apply andb_true_iff in H as [H1 H2]. apply str_eqb_eq in H1. apply IH in H2. now subst.
  - intros H. injection H as -> ->. rewrite str_eqb_refl. now apply IH.
Qed.

Lemma fpath_eqb_neq a b : a <> b -> fpath_eqb a b = false.
Proof. intros H. destruct (fpath_eqb a b) eqn:E; [|reflexivity]. apply fpath_eqb_eq in E. contradiction. Qed.

(* ------------------------------------------------------------------ override_configuration *)
(* two layers: the command line over whatever configuration was loaded *)
Definition overridden (cfg : config) (o : cli_options) : config :=
  {| c_swift := {| sw_prefix := or_default (o_swift_prefix o) (sw_prefix (c_swift cfg));
                   sw_default_decorators := sw_default_decorators (c_swift cfg);
                   sw_default_generic_constraints := sw_default_generic_constraints (c_swift cfg);
                   sw_codablevoid_constraints := sw_codablevoid_constraints (c_swift cfg);
                   sw_type_mappings := sw_type_mappings (c_swift cfg) |};
     c_typescript := c_typescript cfg;
     c_kotlin := {| kt_package := or_default (o_java_package o) (kt_package (c_kotlin cfg));
                    kt_module_name := or_default (o_kotlin_module_name o) (kt_module_name (c_kotlin cfg));
                    kt_prefix := or_default (o_kotlin_prefix o) (kt_prefix (c_kotlin cfg));
                    kt_type_mappings := kt_type_mappings (c_kotlin cfg) |};
     c_scala := {| sc_package := or_default (o_scala_package o) (sc_package (c_scala cfg));
                   sc_module_name := or_default (o_scala_module_name o) (sc_module_name (c_scala cfg));
                   sc_type_mappings := sc_type_mappings (c_scala cfg) |};
     c_python := c_python cfg;
     c_go := {| go_package := or_default (o_go_package o) (go_package (c_go cfg));
                go_uppercase_acronyms := go_uppercase_acronyms (c_go cfg);
                go_no_pointer_slice := go_no_pointer_slice (c_go cfg);
                go_type_mappings := go_type_mappings (c_go cfg) |};
     c_target_os := or_default (o_target_os o) [] |}.

Lemma override_two_layers cfg o :
  override_configuration cfg o =
    if is_go (o_language o) && str_is_empty (or_default (o_go_package o) (go_package (c_go cfg)))
    then CErr EGoPackageMissing else COk (overridden cfg o).
Proof.
  unfold override_configuration, overridden.
  destruct cfg as [[a1 a2 a3 a4 a5] ts [k1 k2 k3 k4] [s1 s2 s3] py [g1 g2 g3 g4] tos].
  destruct (o_swift_prefix o), (o_kotlin_prefix o), (o_java_package o), (o_kotlin_module_name o),
           (o_scala_package o), (o_scala_module_name o), (o_go_package o); reflexivity.
Qed.

Lemma eff_split {A} (cli file : option A) d : or_default cli (or_default file d) = effective cli file d.
Proof. destruct cli, file; reflexivity. Qed.
Lemma only_split {A} (file : option A) d : or_default file d = file_only file d.
Proof. destruct file; reflexivity. Qed.

(* #[serde(default)]: a field of the loaded configuration is the file's value if table and key are
   present, the default otherwise *)
Ltac serde_default file tbl key :=
  destruct file as [f|]; [|reflexivity]; cbn; destruct (tbl f) as [t|]; [|reflexivity]; cbn;
  destruct (key t); reflexivity.

Lemma ld_sw_prefix file : sw_prefix (c_swift (config_of_file file)) = or_default (fkey file pc_swift psw_prefix) dstr.
Proof. serde_default file pc_swift psw_prefix. Qed.
Lemma ld_sw_decorators file : sw_default_decorators (c_swift (config_of_file file)) = or_default (fkey file pc_swift psw_default_decorators) dlist.
Proof. serde_default file pc_swift psw_default_decorators. Qed.
Lemma ld_sw_constraints file : sw_default_generic_constraints (c_swift (config_of_file file)) = or_default (fkey file pc_swift psw_default_generic_constraints) dlist.
Proof. serde_default file pc_swift psw_default_generic_constraints. Qed.
Lemma ld_sw_codablevoid file : sw_codablevoid_constraints (c_swift (config_of_file file)) = or_default (fkey file pc_swift psw_codablevoid_constraints) dlist.
Proof. serde_default file pc_swift psw_codablevoid_constraints. Qed.
Lemma ld_sw_tm file : sw_type_mappings (c_swift (config_of_file file)) = or_default (fkey file pc_swift psw_type_mappings) dmap.
Proof. serde_default file pc_swift psw_type_mappings. Qed.
Lemma ld_ts_tm file : tsc_type_mappings (c_typescript (config_of_file file)) = or_default (fkey file pc_typescript pts_type_mappings) dmap.
Proof. serde_default file pc_typescript pts_type_mappings. Qed.
Lemma ld_kt_package file : kt_package (c_kotlin (config_of_file file)) = or_default (fkey file pc_kotlin pkt_package) dstr.
Proof. serde_default file pc_kotlin pkt_package. Qed.
Lemma ld_kt_module file : kt_module_name (c_kotlin (config_of_file file)) = or_default (fkey file pc_kotlin pkt_module_name) dstr.
Proof. serde_default file pc_kotlin pkt_module_name. Qed.
Lemma ld_kt_prefix file : kt_prefix (c_kotlin (config_of_file file)) = or_default (fkey file pc_kotlin pkt_prefix) dstr.
Proof. serde_default file pc_kotlin pkt_prefix. Qed.
Lemma ld_kt_tm file : kt_type_mappings (c_kotlin (config_of_file file)) = or_default (fkey file pc_kotlin pkt_type_mappings) dmap.
Proof. serde_default file pc_kotlin pkt_type_mappings. Qed.
Lemma ld_sc_package file : sc_package (c_scala (config_of_file file)) = or_default (fkey file pc_scala psc_package) dstr.
Proof. serde_default file pc_scala psc_package. Qed.
Lemma ld_sc_module file : sc_module_name (c_scala (config_of_file file)) = or_default (fkey file pc_scala psc_module_name) dstr.
Proof. serde_default file pc_scala psc_module_name. Qed.
Lemma ld_sc_tm file : sc_type_mappings (c_scala (config_of_file file)) = or_default (fkey file pc_scala psc_type_mappings) dmap.
Proof. serde_default file pc_scala psc_type_mappings. Qed.
Lemma ld_py_tm file : py_type_mappings (c_python (config_of_file file)) = or_default (fkey file pc_python ppy_type_mappings) dmap.
Proof. serde_default file pc_python ppy_type_mappings. Qed.
Lemma ld_go_package file : go_package (c_go (config_of_file file)) = or_default (fkey file pc_go pgo_package) dstr.
Proof. serde_default file pc_go pgo_package. Qed.
Lemma ld_go_acronyms file : go_uppercase_acronyms (c_go (config_of_file file)) = or_default (fkey file pc_go pgo_uppercase_acronyms) dlist.
Proof. serde_default file pc_go pgo_uppercase_acronyms. Qed.
Lemma ld_go_nps file : go_no_pointer_slice (c_go (config_of_file file)) = or_default (fkey file pc_go pgo_no_pointer_slice) false.
Proof. serde_default file pc_go pgo_no_pointer_slice. Qed.
Lemma ld_go_tm file : go_type_mappings (c_go (config_of_file file)) = or_default (fkey file pc_go pgo_type_mappings) dmap.
Proof. serde_default file pc_go pgo_type_mappings. Qed.

Lemma eta_typescript t : t = {| tsc_type_mappings := tsc_type_mappings t |}.
Proof. now destruct t. Qed.
Lemma eta_python t : t = {| py_type_mappings := py_type_mappings t |}.
Proof. now destruct t. Qed.

(* three layers *)
Lemma overridden_is_expected file o : overridden (config_of_file file) o = expected_config o file.
Proof.
  unfold overridden, expected_config, eff_swift_prefix, eff_kotlin_prefix, eff_java_package,
    eff_kotlin_module_name, eff_scala_package, eff_scala_module_name, eff_go_package.
  rewrite (eta_typescript (c_typescript (config_of_file file))), (eta_python (c_python (config_of_file file))).
  rewrite ld_sw_prefix, ld_sw_decorators, ld_sw_constraints, ld_sw_codablevoid, ld_sw_tm, ld_ts_tm,
    ld_kt_package, ld_kt_module, ld_kt_prefix, ld_kt_tm, ld_sc_package, ld_sc_module, ld_sc_tm, ld_py_tm,
    ld_go_package, ld_go_acronyms, ld_go_nps, ld_go_tm.
  rewrite !eff_split.
  destruct (o_target_os o); reflexivity.
Qed.

Lemma go_refusal file o :
  is_go (o_language o) && str_is_empty (or_default (o_go_package o) (go_package (c_go (config_of_file file))))
  = go_package_missing o file.
Proof.
  unfold go_package_missing, eff_go_package. rewrite ld_go_package, eff_split.
  destruct (o_language o) as [[]|]; cbn; try reflexivity.
Qed.

Theorem override_three_layers file o :
  override_configuration (config_of_file file) o =
    if go_package_missing o file then CErr EGoPackageMissing else COk (expected_config o file).
Proof. rewrite override_two_layers, go_refusal, overridden_is_expected. reflexivity. Qed.

(* language(): the wiring *)
Theorem wiring o file l multi : language_params l (expected_config o file) multi = expected_backend o file l multi.
Proof. destruct l; reflexivity. Qed.

(* per setting, in the shape the property is worded *)
Section PerSetting.
  Variables (file : option pconfig) (o : cli_options) (cfg : config).
  Hypothesis H : override_configuration (config_of_file file) o = COk cfg.

  Lemma cfg_is : cfg = expected_config o file.
  Proof. rewrite override_three_layers in H. destruct (go_package_missing o file); congruence. Qed.

  Lemma prec_swift_prefix :
    sw_prefix (c_swift cfg) = effective (o_swift_prefix o) (fkey file pc_swift psw_prefix) dstr /\
    forall m b, language_params Swift cfg m = BSwift b -> bsw_prefix b = sw_prefix (c_swift cfg).
  Proof. rewrite cfg_is. split; [reflexivity|]. intros m b E. now injection E as <-. Qed.
  Lemma prec_kotlin_prefix :
    kt_prefix (c_kotlin cfg) = effective (o_kotlin_prefix o) (fkey file pc_kotlin pkt_prefix) dstr /\
    forall m b, language_params Kotlin cfg m = BKotlin b -> bkt_prefix b = kt_prefix (c_kotlin cfg).
  Proof. rewrite cfg_is. split; [reflexivity|]. intros m b E. now injection E as <-. Qed.
  Lemma prec_java_package :
    kt_package (c_kotlin cfg) = effective (o_java_package o) (fkey file pc_kotlin pkt_package) dstr /\
    forall m b, language_params Kotlin cfg m = BKotlin b -> bkt_package b = kt_package (c_kotlin cfg).
  Proof. rewrite cfg_is. split; [reflexivity|]. intros m b E. now injection E as <-. Qed.
  Lemma prec_kotlin_module_name :
    kt_module_name (c_kotlin cfg) = effective (o_kotlin_module_name o) (fkey file pc_kotlin pkt_module_name) dstr /\
    forall m b, language_params Kotlin cfg m = BKotlin b -> bkt_module_name b = kt_module_name (c_kotlin cfg).
  Proof. rewrite cfg_is. split; [reflexivity|]. intros m b E. now injection E as <-. Qed.
  Lemma prec_scala_package :
    sc_package (c_scala cfg) = effective (o_scala_package o) (fkey file pc_scala psc_package) dstr /\
    forall m b, language_params Scala cfg m = BScala b -> bsc_package b = sc_package (c_scala cfg).
  Proof. rewrite cfg_is. split; [reflexivity|]. intros m b E. now injection E as <-. Qed.
  Lemma prec_scala_module_name :
    sc_module_name (c_scala cfg) = effective (o_scala_module_name o) (fkey file pc_scala psc_module_name) dstr /\
    forall m b, language_params Scala cfg m = BScala b -> bsc_module_name b = sc_module_name (c_scala cfg).
  Proof. rewrite cfg_is. split; [reflexivity|]. intros m b E. now injection E as <-. Qed.
  Lemma prec_go_package :
    go_package (c_go cfg) = effective (o_go_package o) (fkey file pc_go pgo_package) dstr /\
    forall m b, language_params Go cfg m = BGo b -> bgo_package b = go_package (c_go cfg).
  Proof. rewrite cfg_is. split; [reflexivity|]. intros m b E. now injection E as <-. Qed.
End PerSetting.

(* file-only settings: untouched by override_configuration, whatever the command line *)
Theorem file_only_pass_through cfg o cfg' :
  override_configuration cfg o = COk cfg' ->
  sw_type_mappings (c_swift cfg') = sw_type_mappings (c_swift cfg) /\
  sw_default_decorators (c_swift cfg') = sw_default_decorators (c_swift cfg) /\
  sw_default_generic_constraints (c_swift cfg') = sw_default_generic_constraints (c_swift cfg) /\
  sw_codablevoid_constraints (c_swift cfg') = sw_codablevoid_constraints (c_swift cfg) /\
  kt_type_mappings (c_kotlin cfg') = kt_type_mappings (c_kotlin cfg) /\
  sc_type_mappings (c_scala cfg') = sc_type_mappings (c_scala cfg) /\
  c_typescript cfg' = c_typescript cfg /\
  c_python cfg' = c_python cfg /\
  go_type_mappings (c_go cfg') = go_type_mappings (c_go cfg) /\
  go_uppercase_acronyms (c_go cfg') = go_uppercase_acronyms (c_go cfg) /\
  go_no_pointer_slice (c_go cfg') = go_no_pointer_slice (c_go cfg).
Proof.
  rewrite override_two_layers. destruct (_ && _); [discriminate|]. intros E. injection E as <-.
  cbn. repeat split.
Qed.

(* ... and they reach the back end as the file has them *)
Theorem file_only_reach_backend cfg o cfg' multi :
  override_configuration cfg o = COk cfg' ->
  (forall b, language_params Swift cfg' multi = BSwift b ->
     bsw_type_mappings b = sw_type_mappings (c_swift cfg) /\
     bsw_default_decorators b = sw_default_decorators (c_swift cfg) /\
     bsw_default_generic_constraints b = sw_default_generic_constraints (c_swift cfg) /\
     bsw_codablevoid_constraints b = sw_codablevoid_constraints (c_swift cfg)) /\
  (forall b, language_params Kotlin cfg' multi = BKotlin b -> bkt_type_mappings b = kt_type_mappings (c_kotlin cfg)) /\
  (forall b, language_params Scala cfg' multi = BScala b -> bsc_type_mappings b = sc_type_mappings (c_scala cfg)) /\
  (forall b, language_params TypeScript cfg' multi = BTypeScript b -> bts_type_mappings b = tsc_type_mappings (c_typescript cfg)) /\
  (forall b, language_params Python cfg' multi = BPython b -> bpy_type_mappings b = py_type_mappings (c_python cfg)) /\
  (forall b, language_params Go cfg' multi = BGo b ->
     bgo_type_mappings b = go_type_mappings (c_go cfg) /\
     bgo_uppercase_acronyms b = go_uppercase_acronyms (c_go cfg) /\
     bgo_no_pointer_slice b = go_no_pointer_slice (c_go cfg)).
Proof.
  rewrite override_two_layers. destruct (_ && _); [discriminate|]. intros E. injection E as <-.
  repeat match goal with |- _ /\ _ => split end; intros b Eb; injection Eb as <-; repeat split.
Qed.

Theorem override_refuses_iff cfg o :
  (exists e, override_configuration cfg o = CErr e) <->
  (o_language o = Some AGo /\ or_default (o_go_package o) (go_package (c_go cfg)) = []).
Proof.
  rewrite override_two_layers. split.
  - intros [e E]. destruct (o_language o) as [[]|]; cbn in E; try discriminate.
    destruct (or_default _ _); cbn in E; [now split|discriminate].
  - intros [-> ->]. now exists EGoPackageMissing.
Qed.

Theorem override_target_os cfg o cfg' :
  override_configuration cfg o = COk cfg' -> c_target_os cfg' = or_default (o_target_os o) [].
Proof. rewrite override_two_layers. destruct (_ && _); [discriminate|]. intros E. now injection E as <-. Qed.

(* target_os of the loaded configuration never matters: it is overwritten *)
Theorem override_ignores_target_os cfg o : override_configuration (persisted cfg) o = override_configuration cfg o.
Proof. rewrite !override_two_layers. reflexivity. Qed.

Theorem target_os_from_options cfg o :
  override_configuration (persisted cfg) o = override_configuration cfg o /\
  forall cfg', override_configuration cfg o = COk cfg' -> c_target_os cfg' = or_default (o_target_os o) [].
Proof. split; [apply override_ignores_target_os|apply override_target_os]. Qed.

(* ------------------------------------------------------------------ discovery *)
Section Discovery.
  Variable bytes : Type.
  Implicit Types (fs : fsys bytes).

  Lemma find_nil fs : find_configuration_file fs [] = if is_file fs [F] then Some [F] else None.
  Proof. reflexivity. Qed.

  Lemma find_snoc fs c x :
    find_configuration_file fs (c ++ [x]) =
      if is_file fs ((c ++ [x]) ++ [F]) then Some ((c ++ [x]) ++ [F]) else find_configuration_file fs c.
  Proof.
    unfold find_configuration_file. rewrite rev_app_distr. cbn [rev app find_up].
    rewrite rev_involutive. reflexivity.
  Qed.

  (* the walk on the reversed components: what it returns *)
  Lemma find_up_some fs r p :
    find_up fs r = Some p ->
    exists r1 r2, r = r1 ++ r2 /\ p = rev (F :: r2) /\ is_file fs p = true /\
      forall r1' r2', r = r1' ++ r2' -> (List.length r2 < List.length r2')%nat -> is_file fs (rev (F :: r2')) = false.
  Proof.
    induction r as [|x r IH]; cbn [find_up].
    - destruct (is_file fs (rev [F])) eqn:E; [|discriminate]. intros H. injection H as <-.
      exists [], []. repeat split; auto. intros r1' r2' H L.
      symmetry in H. apply app_eq_nil in H as [_ ->]. cbn in L. lia.
    - destruct (is_file fs (rev (F :: x :: r))) eqn:E.
      + intros H. injection H as <-. exists [], (x :: r). repeat split; auto.
        intros r1' r2' H L. apply (f_equal (@List.length _)) in H. rewrite app_length in H. lia.
      + intros H. destruct (IH H) as (r1 & r2 & -> & -> & Hf & Hn).
        exists (x :: r1), r2. repeat split; auto.
        intros [|y r1'] r2' H' L.
        * cbn in H'. subst r2'. exact E.
        * cbn in H'. injection H' as _ H'. eapply Hn; eassumption.
  Qed.

  Lemma find_up_none fs r :
    find_up fs r = None -> forall r1 r2, r = r1 ++ r2 -> is_file fs (rev (F :: r2)) = false.
  Proof.
    induction r as [|x r IH]; cbn [find_up].
    - destruct (is_file fs (rev [F])) eqn:E; [discriminate|]. intros _ r1 r2 H.
      symmetry in H. apply app_eq_nil in H as [_ ->]. exact E.
    - destruct (is_file fs (rev (F :: x :: r))) eqn:E; [discriminate|]. intros H [|y r1] r2 H'.
      + cbn in H'. subst r2. exact E.
      + cbn in H'. injection H' as _ H'. eapply IH; eassumption.
  Qed.

  Lemma rev_cons_F (d : fpath) : rev (F :: rev d) = d ++ [F].
  Proof. cbn [rev]. now rewrite rev_involutive. Qed.

  (* discovery returns the typeshare.toml of the nearest ancestor directory that has one *)
  Theorem discovery_nearest fs cwd p :
    find_configuration_file fs cwd = Some p ->
    exists d t, cwd = d ++ t /\ p = d ++ [F] /\ is_file fs p = true /\
      forall d' t', cwd = d' ++ t' -> (List.length d < List.length d')%nat -> is_file fs (d' ++ [F]) = false.
  Proof.
    unfold find_configuration_file. intros H.
    destruct (find_up_some _ _ _ H) as (r1 & r2 & E & -> & Hf & Hn).
    exists (rev r2), (rev r1). split; [|split; [|split]].
    - rewrite <- rev_app_distr, <- E. now rewrite rev_involutive.
    - reflexivity.
    - exact Hf.
    - intros d' t' E' L. rewrite <- rev_cons_F. apply (Hn (rev t') (rev d')).
      + rewrite E', rev_app_distr. reflexivity.
      + rewrite rev_length in *. exact L.
  Qed.

  Theorem discovery_none_iff fs cwd :
    find_configuration_file fs cwd = None <->
    forall d t, cwd = d ++ t -> is_file fs (d ++ [F]) = false.
  Proof.
    split.
    - unfold find_configuration_file. intros H d t E. rewrite <- rev_cons_F.
      apply (find_up_none _ _ H (rev t) (rev d)). rewrite E, rev_app_distr. reflexivity.
    - intros H. destruct (find_configuration_file fs cwd) as [p|] eqn:E; [|reflexivity].
      destruct (discovery_nearest _ _ _ E) as (d & t & E1 & -> & Hf & _).
      rewrite (H d t E1) in Hf. discriminate.
  Qed.

  (* the declarative search of the specification *)
  Lemma prefixes_snoc (l : fpath) x : prefixes (l ++ [x]) = prefixes l ++ [l ++ [x]].
  Proof.
    induction l as [|a l IH]; [reflexivity|].
    cbn [app prefixes]. rewrite IH, map_app. reflexivity.
  Qed.

  Lemma ancestors_snoc (l : fpath) x : ancestors (l ++ [x]) = (l ++ [x]) :: ancestors l.
  Proof. unfold ancestors. rewrite prefixes_snoc, rev_app_distr. reflexivity. Qed.

  Theorem discovery_is_nearest_config fs cwd : find_configuration_file fs cwd = nearest_config fs cwd.
  Proof.
    induction cwd as [|x c IH] using rev_ind.
    - reflexivity.
    - rewrite find_snoc, IH. unfold nearest_config. rewrite ancestors_snoc. cbn [map find].
      change (lit "typeshare.toml") with F. unfold is_file.
      destruct (fs_lookup fs ((c ++ [x]) ++ [F])); reflexivity.
  Qed.

  (* the loop of the code terminates: S (depth of the current directory) iterations suffice, because
     each iteration that continues has removed one component *)
  Lemma pop_file (d : fpath) : fpath_pop (d ++ [F]) = (d, true).
  Proof. unfold fpath_pop. rewrite rev_app_distr. cbn. now rewrite rev_involutive. Qed.

  Lemma find_loop_up fs r : forall fuel, (List.length r < fuel)%nat -> find_loop fuel fs (rev r) = Some (find_up fs r).
  Proof.
    induction r as [|x r IH]; intros [|fuel] L; try (cbn in L; lia).
    - cbn [find_loop find_up rev app]. destruct (is_file fs [F]); reflexivity.
    - cbn [find_loop find_up]. rewrite pop_file.
      change (rev (x :: r) ++ [F]) with (rev (F :: x :: r)).
      destruct (is_file fs (rev (F :: x :: r))); [reflexivity|].
      cbn [negb]. unfold fpath_pop at 1. rewrite rev_involutive. cbn [negb].
      apply IH. cbn in L. lia.
  Qed.

  Theorem discovery_loop_terminates fs cwd :
    find_loop (S (List.length cwd)) fs cwd = Some (find_configuration_file fs cwd).
  Proof.
    unfold find_configuration_file. rewrite <- (rev_involutive cwd) at 2.
    apply find_loop_up. rewrite rev_length. lia.
  Qed.

  Theorem discovery_fuel_monotone fs cwd fuel :
    (List.length cwd < fuel)%nat -> find_loop fuel fs cwd = Some (find_configuration_file fs cwd).
  Proof.
    intros L. unfold find_configuration_file. rewrite <- (rev_involutive cwd) at 1.
    apply find_loop_up. now rewrite rev_length.
  Qed.
End Discovery.

(* ------------------------------------------------------------------ load, generate *)
Section Load.
  Variable bytes : Type.
  Variable ser : config -> bytes.
  Variable parse : bytes -> option pconfig.
  Implicit Types (fs : fsys bytes).

  (* -c wins: with an explicit path nothing but that one file is consulted *)
  Theorem explicit_config_wins fs fs' cwd u :
    fs_lookup fs (resolve cwd u) = fs_lookup fs' (resolve cwd u) ->
    load_config parse fs cwd (Some u) = load_config parse fs' cwd (Some u).
  Proof. unfold load_config. now intros ->. Qed.

  Theorem explicit_config_is_read fs cwd u :
    load_config parse fs cwd (Some u) =
      match fs_lookup fs (resolve cwd u) with
      | None => CErr EConfigRead
      | Some b => match parse b with Some f => COk (fill_config f) | None => CErr EConfigParse end
      end.
  Proof. unfold load_config, de. destruct (fs_lookup fs (resolve cwd u)); [|reflexivity]. destruct (parse b); reflexivity. Qed.

  Lemma config_source_model fs cwd cp :
    match cp with Some u => Some (resolve cwd u) | None => find_configuration_file fs cwd end = config_source fs cwd cp.
  Proof. destruct cp as [[p|p]|]; try reflexivity. apply discovery_is_nearest_config. Qed.

  (* load_config: the located file with defaults filled in; the default when there is none *)
  Theorem load_config_spec fs cwd cp :
    load_config parse fs cwd cp =
      match config_source fs cwd cp with
      | None => COk (config_of_file None)
      | Some p => match fs_lookup fs p with
                  | None => CErr EConfigRead
                  | Some b => match parse b with
                              | Some f => COk (config_of_file (Some f))
                              | None => CErr EConfigParse
                              end
                  end
      end.
  Proof.
    unfold load_config. rewrite config_source_model.
    destruct (config_source fs cwd cp) as [p|]; [|reflexivity].
    destruct (fs_lookup fs p) as [b|]; [|reflexivity]. unfold de. destruct (parse b); reflexivity.
  Qed.

  Lemma from_config_of_file file o :
    match override_configuration (config_of_file file) o with
    | CErr e => CErr e
    | CPanic s => CPanic s
    | COk cfg =>
      match o_language o with
      | None => CPanic "main.rs:88 no language specified"
      | Some language => COk (language_params (supported_of language) cfg (o_output_folder o), c_target_os cfg)
      end
    end = expected_with o file.
  Proof.
    rewrite override_three_layers. unfold expected_with.
    destruct (go_package_missing o file); [reflexivity|].
    destruct (o_language o) as [l|]; [|reflexivity].
    rewrite wiring. destruct l; reflexivity.
  Qed.

  (* the whole generating run = the specification, for every file system, directory, command line *)
  Theorem generate_types_spec fs cwd o : generate_types parse fs cwd o = expected_generate parse fs cwd o.
  Proof.
    unfold generate_types, expected_generate. rewrite load_config_spec.
    destruct (config_source fs cwd (o_config_file o)) as [p|].
    - destruct (fs_lookup fs p) as [b|]; [|reflexivity].
      destruct (parse b) as [f|]; [|reflexivity]. apply from_config_of_file.
    - apply from_config_of_file.
  Qed.

  (* ---------------------------------------------------------------- store *)
  Theorem store_existing fs cwd cfg cp :
    is_file fs (store_target cwd cp) = true -> store_config ser fs cwd cfg cp = (fs, CErr EConfigExists).
  Proof. unfold store_config, store_target. now intros ->. Qed.

  Theorem store_fresh fs cwd cfg cp :
    is_file fs (store_target cwd cp) = false ->
    store_config ser fs cwd cfg cp = ((store_target cwd cp, ser cfg) :: fs, COk tt).
  Proof. unfold store_config, store_target. now intros ->. Qed.

  Theorem store_fails_iff_exists fs cwd cfg cp :
    (exists e, snd (store_config ser fs cwd cfg cp) = CErr e) <-> is_file fs (store_target cwd cp) = true.
  Proof.
    destruct (is_file fs (store_target cwd cp)) eqn:E.
    - rewrite store_existing by assumption. split; auto. intros _. now exists EConfigExists.
    - rewrite store_fresh by assumption. cbn. split; [intros [e H]|]; discriminate.
  Qed.

  Theorem store_other_files_untouched fs cwd cfg cp q :
    q <> store_target cwd cp -> fs_lookup (fst (store_config ser fs cwd cfg cp)) q = fs_lookup fs q.
  Proof.
    intros N. destruct (is_file fs (store_target cwd cp)) eqn:E.
    - now rewrite store_existing.
    - rewrite store_fresh by assumption. cbn. rewrite fpath_eqb_neq; auto.
  Qed.

  Theorem generate_config_spec fs cwd o : generate_config ser fs cwd o = expected_generate_config ser fs cwd o.
  Proof.
    unfold generate_config, expected_generate_config.
    change default_config with (config_of_file None). rewrite override_three_layers.
    destruct (go_package_missing o None); [reflexivity|].
    unfold store_config, is_file.
    replace (resolve cwd match o_config_file o with Some u => u | None => PRel [F] end)
      with (match o_config_file o with Some (PAbs p) => p | Some (PRel p) => cwd ++ p | None => cwd ++ [lit "typeshare.toml"] end)
      by (destruct (o_config_file o) as [[p|p]|]; reflexivity).
    destruct (fs_lookup fs _); reflexivity.
  Qed.

  (* ---------------------------------------------------------------- round trip *)
  (* the one thing assumed about toml: parsing what was serialised, then filling defaults, gives the
     configuration back - except target_os, which #[serde(skip)] neither writes nor reads *)
  Hypothesis toml_roundtrip : forall c, de parse (ser c) = Some (persisted c).

  Lemma find_self fs cwd : is_file fs (cwd ++ [F]) = true -> find_configuration_file fs cwd = Some (cwd ++ [F]).
  Proof.
    intros H. unfold find_configuration_file.
    assert (E : rev (F :: rev cwd) = cwd ++ [F]) by apply rev_cons_F.
    destruct (rev cwd) as [|x r]; cbn [find_up]; rewrite E, H; reflexivity.
  Qed.

  Lemma load_stored fs cwd cfg cp :
    load_config parse ((store_target cwd cp, ser cfg) :: fs) cwd cp = COk (persisted cfg).
  Proof.
    unfold load_config.
    assert (L : fs_lookup ((store_target cwd cp, ser cfg) :: fs) (store_target cwd cp) = Some (ser cfg))
      by (cbn; now rewrite fpath_eqb_refl).
    destruct cp as [u|].
    - change (resolve cwd u) with (store_target cwd (Some u)). rewrite L, toml_roundtrip. reflexivity.
    - rewrite find_self.
      + change (cwd ++ [F]) with (store_target cwd None). rewrite L, toml_roundtrip. reflexivity.
      + unfold is_file. change (cwd ++ [F]) with (store_target cwd None). now rewrite L.
  Qed.

  (* a configuration stored on a fresh path (explicit -c path, or typeshare.toml in the current
     directory) is what the same command line location loads afterwards, on all persisted fields *)
  Theorem store_then_load fs cwd cfg cp :
    is_file fs (store_target cwd cp) = false ->
    load_config parse (fst (store_config ser fs cwd cfg cp)) cwd cp = COk (persisted cfg).
  Proof. intros H. rewrite store_fresh by assumption. apply load_stored. Qed.

  (* -g followed by a generating run that names the same location *)
  Theorem generate_config_then_load fs cwd o fs' :
    generate_config ser fs cwd o = (fs', COk tt) ->
    exists cfg, override_configuration default_config o = COk cfg /\
                cfg = expected_config o None /\
                load_config parse fs' cwd (o_config_file o) = COk (persisted cfg).
  Proof.
    unfold generate_config. change default_config with (config_of_file None).
    destruct (override_configuration (config_of_file None) o) as [cfg| |] eqn:E; try (intros H; discriminate H).
    intros H. exists cfg. split; [reflexivity|]. split; [now apply cfg_is|].
    destruct (is_file fs (store_target cwd (o_config_file o))) eqn:X.
    - rewrite store_existing in H by assumption. discriminate.
    - rewrite store_fresh in H by assumption. injection H as <-. apply load_stored.
  Qed.

  (* ... with no setting options gives the back end of the command line that wrote the file *)
  Theorem generate_config_then_generate fs cwd o fs' o2 l :
    generate_config ser fs cwd o = (fs', COk tt) ->
    o_config_file o2 = o_config_file o -> no_setting_options o2 = true -> o_language o2 = Some l ->
    generate_types parse fs' cwd o2 =
      if is_go (Some l) && str_is_empty (eff_go_package o None) then CErr EGoPackageMissing
      else COk (expected_backend o None (supported_of l) (o_output_folder o2), or_default (o_target_os o2) []).
  Proof.
    intros G Ec Ns El. destruct (generate_config_then_load _ _ _ _ G) as (cfg & _ & -> & L).
    unfold generate_types. rewrite Ec, L, override_ignores_target_os, override_two_layers, El.
    unfold no_setting_options in Ns.
    destruct (o_swift_prefix o2) eqn:E1; try discriminate. destruct (o_kotlin_prefix o2) eqn:E2; try discriminate.
    destruct (o_java_package o2) eqn:E3; try discriminate. destruct (o_kotlin_module_name o2) eqn:E4; try discriminate.
    destruct (o_scala_package o2) eqn:E5; try discriminate. destruct (o_scala_module_name o2) eqn:E6; try discriminate.
    destruct (o_go_package o2) eqn:E7; try discriminate.
    cbn [or_default expected_config c_go go_package].
    destruct (is_go (Some l) && str_is_empty (eff_go_package o None)); [reflexivity|].
    unfold overridden. rewrite E1, E2, E3, E4, E5, E6, E7. cbn [or_default].
    destruct l; reflexivity.
  Qed.
End Load.

(* ------------------------------------------------------------------ non-vacuity *)
(* The round-trip hypothesis is satisfiable: contents = what they parse to, the serialiser writes every
   key (as toml::to_string_pretty is observed to do) and skips target_os. *)
Lemma fill_present c : fill_config (present_config c) = persisted c.
Proof. destruct c as [[] [] [] [] [] [] ?]; reflexivity. Qed.

Example C20_nonvacuous :
  (forall c, de (fun b : pconfig => Some b) (present_config c) = Some (persisted c)) /\
  (* -g -s "P" --go-package "g" in /a/b, then -l swift from the same directory, and -l kotlin -k "K"
     against a file two levels up that sets kotlin.prefix and kotlin.package *)
  let o0 := {| o_language := None; o_swift_prefix := None; o_kotlin_prefix := None; o_java_package := None;
               o_kotlin_module_name := None; o_scala_package := None; o_scala_module_name := None;
               o_go_package := None; o_config_file := None; o_generate_config := false;
               o_output_folder := false; o_target_os := None |} in
  let og := {| o_language := None; o_swift_prefix := Some (lit "P"); o_kotlin_prefix := None; o_java_package := None;
               o_kotlin_module_name := None; o_scala_package := None; o_scala_module_name := None;
               o_go_package := Some (lit "g"); o_config_file := None; o_generate_config := true;
               o_output_folder := false; o_target_os := Some [lit "ios"] |} in
  let cwd := [lit "a"; lit "b"] in
  let fs1 := fst (generate_config present_config [] cwd og) in
  fs_lookup fs1 [lit "a"; lit "b"; lit "typeshare.toml"] <> None /\
  generate_config present_config fs1 cwd og = (fs1, CErr EConfigExists) /\
  (exists b, generate_types (fun b => Some b) fs1 cwd
     {| o_language := Some ASwift; o_swift_prefix := None; o_kotlin_prefix := None; o_java_package := None;
        o_kotlin_module_name := None; o_scala_package := None; o_scala_module_name := None;
        o_go_package := None; o_config_file := None; o_generate_config := false;
        o_output_folder := false; o_target_os := None |} = COk (BSwift b, []) /\ bsw_prefix b = lit "P") /\
  let kfile := {| pc_swift := None; pc_typescript := None;
                  pc_kotlin := Some {| pkt_package := Some (lit "file.pkg"); pkt_module_name := None;
                                       pkt_prefix := Some (lit "FileK"); pkt_type_mappings := None |};
                  pc_scala := None; pc_python := None; pc_go := None |} in
  exists b, generate_types (fun b => Some b) [([lit "typeshare.toml"], kfile)] cwd
     {| o_language := Some AKotlin; o_swift_prefix := None; o_kotlin_prefix := Some (lit "K"); o_java_package := None;
        o_kotlin_module_name := None; o_scala_package := None; o_scala_module_name := None;
        o_go_package := None; o_config_file := None; o_generate_config := false;
        o_output_folder := false; o_target_os := None |} = COk (BKotlin b, []) /\
     bkt_prefix b = lit "K" /\ bkt_package b = lit "file.pkg" /\ bkt_module_name b = [].
Proof.
  split; [intros c; unfold de; cbn [option_map]; now rewrite fill_present|].
  cbv zeta. split; [vm_compute; discriminate|]. split; [vm_compute; reflexivity|].
  split; eexists; vm_compute; repeat split.
Qed.
