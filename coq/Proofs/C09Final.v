(* C09: the unconditional corollary for programs without serde(rename) on types. *)
From Coq Require Import List Bool String.
From TS Require Import Model.Str Model.Outcome Model.Unicode Model.Types Model.Parse Model.Lang.Decl Model.Lang.Kotlin Model.Lang.TypeScript Model.Lang.Scala Model.Lang.Python Model.Lang.Swift Model.Lang.Go Spec.C09Spec.
From TS Require Import Proofs.C09Common Proofs.C09Recon Proofs.C09_KotlinFile Proofs.C09Witness Proofs.C09_TypeScript Proofs.C09_Scala Proofs.C09_Python Proofs.C09_Swift Proofs.C09_Go.
Import ListNotations.

Lemma c09_no_rename_kotlin (uc : unicode) (cfg : kt_config) (pd : parsed) :
  dom_C09 Kotlin (kt_prefix cfg) pd = true ->
  (forall e, In e (c09_entities pd) -> c09_renamed_away (c9e_id e) = false) ->
  (forall a, In a (p_aliases pd) -> c09_inline_generic_class Kotlin (kt_prefix cfg) a = None) ->
  forall fd : file_decls, kt_file_decls uc cfg (c09_reconciled pd) = Ok fd ->
    good_C09 Kotlin (kt_prefix cfg) pd (c09_observe Kotlin fd) = true.
Proof.
  intros Hd Hr Hi fd H.
  exact (c09_kotlin uc cfg [] pd Hd (c09_no_rename_known Kotlin _ pd Hr Hi) fd H).
Qed.

(* outside Kotlin no alias is in the inline-generic class *)
Lemma c09_no_inline_class (L : lang) (pfx : str) (a : Types.ralias) : L <> Kotlin -> c09_inline_generic_class L pfx a = None.
Proof. destruct L; try reflexivity. intros C. exfalso. apply C. reflexivity. Qed.

Lemma c09_no_rename_typescript (uc : unicode) (cfg : ts_config) (pd : parsed) :
  dom_C09 TypeScript [] pd = true ->
  (forall e, In e (c09_entities pd) -> c09_renamed_away (c9e_id e) = false) ->
  forall fd : file_decls, ts_file_decls uc cfg (c09_reconciled pd) = Ok fd ->
    good_C09 TypeScript [] pd (c09_observe TypeScript fd) = true.
Proof.
  intros Hd Hr fd H.
  refine (c09_typescript uc cfg pd Hd [] fd (c09_no_rename_known TypeScript _ pd Hr _) H).
  intros a _. apply c09_no_inline_class. discriminate.
Qed.

Lemma c09_no_rename_scala (uc : unicode) (cfg : sc_config) (pd : parsed) :
  dom_C09 Scala [] pd = true ->
  (forall e, In e (c09_entities pd) -> c09_renamed_away (c9e_id e) = false) ->
  forall fd : file_decls, sc_file_decls uc cfg (c09_reconciled pd) = Ok fd ->
    good_C09 Scala [] pd (c09_observe Scala fd) = true.
Proof.
  intros Hd Hr fd H.
  refine (c09_scala uc cfg pd Hd [] fd (c09_no_rename_known Scala _ pd Hr _) H).
  intros a _. apply c09_no_inline_class. discriminate.
Qed.

Lemma c09_no_rename_python (uc : unicode) (cfg : py_config) (pd : parsed) :
  dom_C09 Python [] pd = true ->
  (forall e, In e (c09_entities pd) -> c09_renamed_away (c9e_id e) = false) ->
  forall fd : file_decls, py_file_decls uc cfg (c09_reconciled pd) = Ok fd ->
    good_C09 Python [] pd (c09_observe Python fd) = true.
Proof.
  intros Hd Hr fd H.
  refine (c09_python uc cfg pd Hd [] fd (c09_no_rename_known Python _ pd Hr _) H).
  intros a _. apply c09_no_inline_class. discriminate.
Qed.

Lemma c09_no_rename_swift (uc : unicode) (cfg : sw_config) (pd : parsed) :
  dom_C09 Swift (sw_prefix cfg) pd = true ->
  (forall e, In e (c09_entities pd) -> c09_renamed_away (c9e_id e) = false) ->
  forall fd : file_decls, sw_file_decls uc cfg (c09_reconciled pd) = Ok fd ->
    good_C09 Swift (sw_prefix cfg) pd (c09_observe Swift fd) = true.
Proof.
  intros Hd Hr fd H.
  refine (c09_swift uc cfg pd Hd [] fd (c09_no_rename_known Swift _ pd Hr _) H).
  intros a _. apply c09_no_inline_class. discriminate.
Qed.

Lemma c09_no_rename_go_no_acronyms (uc : unicode) (cfg : go_config) (pd : parsed) :
  go_uppercase_acronyms cfg = [] ->
  dom_C09 Go [] pd = true ->
  (forall e, In e (c09_entities pd) -> c09_renamed_away (c9e_id e) = false) ->
  forall fd : file_decls, go_file_decls uc cfg (c09_reconciled pd) = Ok fd ->
    good_C09 Go [] pd (c09_observe Go fd) = true.
Proof.
  intros Ha Hd Hr fd H.
  refine (c09_go uc cfg Ha pd Hd [] fd (c09_no_rename_known Go _ pd Hr _) H).
  intros a _. apply c09_no_inline_class. discriminate.
Qed.
