(* C15 - documentation text stays inside comments: proofs.
   Part 1: the reference lexer over marked texts (composition lemmas).
   Part 2: the three comment forms (line comments, TypeScript block comment, Python docstring):
           what the lexer does on a doc string, exactly.
   Part 3: per language: the fragment printed by the model's write_comments IS the template of
           Spec/C15Spec.v; it is contained iff every string AS WRITTEN is safe_<l>; the two escapes
           (TypeScript, Python docstrings) make every written string safe; so does the absence of line
           breaks for the line-comment writers.
   Part 4: files as sequences of code parts and comment fragments (whole-file lifting, partial).
   Part 5: regression pins (the former witnesses) through the model's front end and generators.
   Part 6: the front end carries trimmed lines; containment without hypothesis on the attribute values. *)
From Coq Require Import List NArith Bool Lia String.
From TS Require Import Model.Str Spec.Lexers Spec.C15Spec Proofs.C15_Replace.
From TS Require Import Model.Lang.TypeScript Model.Lang.Kotlin Model.Lang.Swift Model.Lang.Scala Model.Lang.Go Model.Lang.Python.
Import ListNotations.
Local Open Scope N_scope.

(* ================= Part 1: composition ================= *)
Lemma lex_marked_app L t1 t2 st :
  lex_marked L st (t1 ++ t2) = match lex_marked L st t1 with Some s => lex_marked L s t2 | None => None end.
Proof.
  revert st; induction t1 as [|[c p] r IH]; intros st; [reflexivity|].
  cbn [lex_marked app]. destruct (p && negb (in_comment L st && in_comment L (lex_gen L st c))); [reflexivity|apply IH].
Qed.

Lemma lex_marked_plain L s st : lex_marked L st (plain_text s) = Some (lex_str_gen L st s).
Proof.
  revert st; induction s as [|c r IH]; intros st; [reflexivity|].
  cbn [plain_text map lex_marked andb]. apply IH.
Qed.

Lemma lex_str_app L a b st : lex_str_gen L st (a ++ b) = lex_str_gen L (lex_str_gen L st a) b.
Proof. apply fold_left_app. Qed.

Lemma mark_cons p ps : mark (p :: ps) = piece_mark p ++ mark ps.
Proof. reflexivity. Qed.
Lemma mark_app a b : mark (a ++ b) = mark a ++ mark b.
Proof. unfold mark. apply flat_map_app. Qed.
Lemma text_of_app a b : text_of (a ++ b) = text_of a ++ text_of b.
Proof. unfold text_of. apply flat_map_app. Qed.
Lemma docs_of_app a b : docs_of (a ++ b) = docs_of a ++ docs_of b.
Proof. unfold docs_of. apply flat_map_app. Qed.

Lemma unmark_mark ps : unmark (mark ps) = text_of ps.
Proof.
  induction ps as [|p r IH]; [reflexivity|].
  rewrite mark_cons. unfold unmark in *. rewrite map_app, IH. cbn [text_of flat_map]. f_equal.
  destruct p as [s|s]; cbn [piece_mark piece_text]; unfold plain_text, planted_text; rewrite map_map; cbn [fst]; apply map_id.
Qed.

Lemma filter_plain s : filter snd (plain_text s) = [].
Proof. induction s as [|c r IH]; [reflexivity|]. cbn [plain_text map filter snd]. exact IH. Qed.
Lemma filter_planted s : map fst (filter snd (planted_text s)) = s.
Proof. induction s as [|c r IH]; [reflexivity|]. cbn [planted_text map filter snd fst]. f_equal. exact IH. Qed.
Lemma planted_of_mark ps : planted_of (mark ps) = List.concat (docs_of ps).
Proof.
  induction ps as [|p r IH]; [reflexivity|].
  rewrite mark_cons. unfold planted_of in *. rewrite filter_app, map_app, IH.
  destruct p as [s|s]; cbn [piece_mark docs_of flat_map app List.concat].
  - now rewrite filter_plain.
  - now rewrite filter_planted.
Qed.

(* a lexer step on the marked text of a literal piece followed by something *)
Lemma lex_marked_lit L s t st : lex_marked L st (plain_text s ++ t) = lex_marked L (lex_str_gen L st s) t.
Proof. now rewrite lex_marked_app, lex_marked_plain. Qed.

Lemma lex_tabs L st n : lex_gen L st ch_tab = st -> lex_str_gen L st (tabs_ n) = st.
Proof.
  intros H. induction n as [|n IH]; [reflexivity|].
  unfold tabs_ in *. cbn [repeat_str]. rewrite lex_str_app. cbn [lex_str_gen fold_left]. now rewrite H.
Qed.

Lemma lex_repeat L st s n : lex_str_gen L st s = st -> lex_str_gen L st (repeat_str s n) = st.
Proof.
  intros H. induction n as [|n IH]; [reflexivity|].
  cbn [repeat_str]. now rewrite lex_str_app, H.
Qed.

(* ================= Part 2a: line comments ================= *)
Lemma line_doc_ok L d : safe_line (lc_eol L) d = true -> lex_marked L LLine (planted_text d) = Some LLine.
Proof.
  induction d as [|c r IH]; [reflexivity|].
  cbn [safe_line forallb planted_text map lex_marked lex_gen]. intros H. apply andb_true_iff in H as [H1 H2].
  destruct (lc_eol L c); [discriminate|]. cbn [in_comment andb negb]. apply IH, H2.
Qed.

Lemma line_doc_bad L d : safe_line (lc_eol L) d = false -> lex_marked L LLine (planted_text d) = None.
Proof.
  induction d as [|c r IH]; [discriminate|].
  cbn [safe_line forallb planted_text map lex_marked lex_gen]. intros H.
  destruct (lc_eol L c); cbn [in_comment andb negb] in *; [reflexivity|apply IH, H].
Qed.

(* lines `pre d newline` read from a state S0 to which every line returns: pre leads from S0 to S1,
   a doc string read from S1 either escapes (None) or ends in a state that the newline maps to S0 *)
Section Lines.
  Variable L : lexcfg.
  Variables (S0 S1 : lstate) (pre : str) (ok : str -> bool).
  Hypothesis Hpre : lex_str_gen L S0 pre = S1.
  Hypothesis Hdoc : forall d,
    if ok d then exists S2, lex_marked L S1 (planted_text d) = Some S2 /\ lex_gen L S2 ch_nl = S0
    else lex_marked L S1 (planted_text d) = None.

  Lemma lines_step d t :
    lex_marked L S0 (mark [PLit pre; PDoc d; PLit [ch_nl]] ++ t) = if ok d then lex_marked L S0 t else None.
  Proof.
    cbn [mark flat_map piece_mark app]. rewrite app_nil_r, <- ?app_assoc.
    rewrite lex_marked_lit, Hpre, lex_marked_app.
    pose proof (Hdoc d) as H. destruct (ok d).
    - destruct H as (S2 & -> & H2). rewrite lex_marked_lit. cbn [lex_str_gen fold_left]. now rewrite H2.
    - now rewrite H.
  Qed.

  Lemma lines_lex docs t :
    lex_marked L S0 (mark (line_tmpl pre docs) ++ t) = if forallb ok docs then lex_marked L S0 t else None.
  Proof.
    induction docs as [|d r IH]; [reflexivity|].
    unfold line_tmpl in *. cbn [flat_map forallb].
    rewrite mark_app, <- app_assoc, lines_step.
    destruct (ok d); [apply IH|reflexivity].
  Qed.
End Lines.

Lemma line_doc_spec L d : lc_eol L ch_nl = true ->
  if safe_line (lc_eol L) d then exists S2, lex_marked L LLine (planted_text d) = Some S2 /\ lex_gen L S2 ch_nl = LCode
  else lex_marked L LLine (planted_text d) = None.
Proof.
  intros Hnl. destruct (safe_line (lc_eol L) d) eqn:E.
  - exists LLine. split; [now apply line_doc_ok|]. cbn [lex_gen]. now rewrite Hnl.
  - now apply line_doc_bad.
Qed.

Lemma line_tmpl_text pre docs : text_of (line_tmpl pre docs) = flat_map (fun d => pre ++ d ++ [ch_nl]) docs.
Proof.
  induction docs as [|d r IH]; [reflexivity|].
  unfold line_tmpl in *. cbn [flat_map]. rewrite text_of_app, IH. cbn [text_of flat_map piece_text app].
  now rewrite ?app_nil_r, <- ?app_assoc.
Qed.
Lemma line_tmpl_docs pre docs : docs_of (line_tmpl pre docs) = docs.
Proof.
  induction docs as [|d r IH]; [reflexivity|]. unfold line_tmpl in *. cbn [flat_map]. rewrite docs_of_app, IH. reflexivity.
Qed.

(* contained_gen in terms of lex_marked *)
Lemma contained_iff L st t : contained_gen L st t = true <-> lex_marked L st t = Some LCode.
Proof.
  unfold contained_gen. destruct (lex_marked L st t) as [[]|]; split; intros H; try reflexivity; try discriminate; congruence.
Qed.

Lemma line_tmpl_lex L pre docs t :
  lex_str_gen L LCode pre = LLine -> lc_eol L ch_nl = true ->
  lex_marked L LCode (mark (line_tmpl pre docs) ++ t) =
  if forallb (safe_line (lc_eol L)) docs then lex_marked L LCode t else None.
Proof.
  intros Hpre Hnl.
  exact (lines_lex L LCode LLine pre (safe_line (lc_eol L)) Hpre (fun d => line_doc_spec L d Hnl) docs t).
Qed.

(* from the continuation form to the verdict on the fragment alone *)
Lemma contained_of_lex L ps (b : bool) :
  (forall t, lex_marked L LCode (mark ps ++ t) = if b then lex_marked L LCode t else None) ->
  contained_gen L LCode (mark ps) = b.
Proof.
  intros H. unfold contained_gen. rewrite <- (app_nil_r (mark ps)), H. now destruct b.
Qed.

(* ================= Part 2b: the TypeScript block comment ================= *)
(* no `*/`: a scan with one bit of memory (was the previous character a star) *)
Fixpoint blk_ok (star : bool) (d : str) : bool :=
  match d with
  | [] => true
  | c :: r => if star && (c =? ch_slash) then false else blk_ok (c =? ch_star) r
  end.
Definition blk_end (star : bool) (d : str) : bool := fold_left (fun _ c => c =? ch_star) d star.
Definition pend_of (star : bool) : pend := if star then PStar else PNone.

Lemma blk_ok_spec star d :
  blk_ok star d = negb ((star && starts_with [ch_slash] d) || contains_sub [ch_star; ch_slash] d).
Proof.
  revert star; induction d as [|c r IH]; intros star.
  - cbn. now rewrite andb_false_r.
  - cbn [blk_ok contains_sub starts_with]. rewrite IH.
    rewrite (N.eqb_sym ch_slash c), (N.eqb_sym ch_star c), andb_true_r.
    destruct star, (c =? ch_slash) eqn:E1, (c =? ch_star) eqn:E2; cbn [andb orb negb]; try reflexivity.
    all: apply N.eqb_eq in E1, E2; subst; discriminate.
Qed.

Lemma safe_ts_blk d : safe_ts d = blk_ok false d.
Proof. unfold safe_ts. now rewrite blk_ok_spec. Qed.

Lemma ts_doc_lex star d :
  lex_marked cfg_ts (LBlock 0 (pend_of star)) (planted_text d) =
  if blk_ok star d then Some (LBlock 0 (pend_of (blk_end star d))) else None.
Proof.
  revert star; induction d as [|c r IH]; intros star; [reflexivity|].
  cbn [planted_text map lex_marked blk_ok blk_end fold_left].
  assert (E : lex_gen cfg_ts (LBlock 0 (pend_of star)) c =
              if star && (c =? ch_slash) then LCode else LBlock 0 (pend_of (c =? ch_star))).
  { destruct star; cbn [lex_gen pend_of is_star is_pslash andb cfg_ts lc_nested];
      destruct (c =? ch_slash); destruct (c =? ch_star); reflexivity. }
  rewrite E. destruct (star && (c =? ch_slash)); [reflexivity|].
  cbn [in_comment andb negb]. apply IH.
Qed.

Lemma ts_blk_nl_tabs star n :
  lex_str_gen cfg_ts (LBlock 0 (pend_of star)) ([ch_nl] ++ tabs_ n) = LBlock 0 PNone.
Proof.
  rewrite lex_str_app. replace (lex_str_gen cfg_ts (LBlock 0 (pend_of star)) [ch_nl]) with (LBlock 0 PNone) by now destruct star.
  now apply lex_tabs.
Qed.

(* ================= Part 2c: the Python docstring ================= *)
(* the usable form: either None, or a triple-quote state *)
Lemma py_doc_lex' n esc d :
  if py_doc_scan n esc d
  then exists n' esc', lex_marked cfg_py (LTriple ch_dq n esc) (planted_text d) = Some (LTriple ch_dq n' esc')
  else lex_marked cfg_py (LTriple ch_dq n esc) (planted_text d) = None.
Proof.
  revert n esc; induction d as [|c r IH]; intros n esc; [cbn; eauto|].
  cbn [planted_text map lex_marked py_doc_scan].
  assert (E : lex_gen cfg_py (LTriple ch_dq n esc) c =
              if esc then LTriple ch_dq 0 false
              else if c =? ch_bs then LTriple ch_dq 0 true
              else if c =? ch_dq then (if Nat.leb 2 n then LCode else LTriple ch_dq (S n) false)
              else LTriple ch_dq 0 false) by reflexivity.
  rewrite E. destruct esc; [cbn [in_comment cfg_py lc_docstring andb negb]; apply IH|].
  destruct (c =? ch_bs); [cbn [in_comment cfg_py lc_docstring andb negb]; apply IH|].
  destruct (c =? ch_dq); [|cbn [in_comment cfg_py lc_docstring andb negb]; apply IH].
  destruct (Nat.leb 2 n); [reflexivity|]. cbn [in_comment cfg_py lc_docstring andb negb]; apply IH.
Qed.

Lemma py_triple_nl n esc : lex_gen cfg_py (LTriple ch_dq n esc) ch_nl = LTriple ch_dq 0 false.
Proof. now destruct esc. Qed.

Lemma py_doc_spec d :
  if safe_py_docstring d
  then exists S2, lex_marked cfg_py (LTriple ch_dq 0 false) (planted_text d) = Some S2 /\
                  lex_gen cfg_py S2 ch_nl = LTriple ch_dq 0 false
  else lex_marked cfg_py (LTriple ch_dq 0 false) (planted_text d) = None.
Proof.
  unfold safe_py_docstring. pose proof (py_doc_lex' 0 false d) as H. destruct (py_doc_scan 0 false d); [|exact H].
  destruct H as (n' & esc' & H). eexists; split; [exact H|apply py_triple_nl].
Qed.

Lemma py_indent_neutral k st : lex_gen cfg_py st ch_sp = st -> lex_str_gen cfg_py st (repeat_str (lit "    ") k) = st.
Proof.
  intros H. apply lex_repeat. change (lit "    ") with [ch_sp; ch_sp; ch_sp; ch_sp].
  cbn [lex_str_gen fold_left]. now rewrite !H.
Qed.

Lemma ts_doc_spec d :
  if safe_ts d
  then exists S2, lex_marked cfg_ts (LBlock 0 PNone) (planted_text d) = Some S2 /\
                  lex_gen cfg_ts S2 ch_nl = LBlock 0 PNone
  else lex_marked cfg_ts (LBlock 0 PNone) (planted_text d) = None.
Proof.
  rewrite safe_ts_blk. pose proof (ts_doc_lex false d) as H. cbn [pend_of] in H.
  destruct (blk_ok false d); [|exact H].
  eexists; split; [exact H|]. now destruct (blk_end false d).
Qed.

(* ================= Part 3: the six languages ================= *)
Lemma flat_map_concat {A B} (f : A -> list B) l : List.concat (map f l) = flat_map f l.
Proof. symmetry. apply flat_map_concat_map. Qed.

Lemma flat_map_cons {A B} (f : A -> list B) x l : flat_map f (x :: l) = f x ++ flat_map f l.
Proof. reflexivity. Qed.

Lemma join_lines (sep pre : str) x r :
  pre ++ join (sep ++ pre) (x :: r) ++ sep = flat_map (fun d => pre ++ d ++ sep) (x :: r).
Proof.
  revert x; induction r as [|y r IH]; intros x.
  - cbn [join flat_map]. now rewrite app_nil_r.
  - change (join (sep ++ pre) (x :: y :: r)) with (x ++ (sep ++ pre) ++ join (sep ++ pre) (y :: r)).
    rewrite flat_map_cons, <- (IH y). now rewrite <- ?app_assoc.
Qed.

Lemma join_lines' (sep pre1 pre2 : str) x r rest :
  pre1 ++ pre2 ++ join (sep ++ pre1 ++ pre2) (x :: r) ++ sep ++ rest =
  flat_map (fun d => (pre1 ++ pre2) ++ d ++ sep) (x :: r) ++ rest.
Proof. rewrite <- join_lines. now rewrite <- ?app_assoc. Qed.

(* ---- 3a: the fragments, given the strings AS WRITTEN (the [_w] templates of Spec/C15Spec.v) ---- *)
(* ---- Kotlin ---- *)
Lemma kt_pre n : lex_str_gen cfg_kt LCode (tabs_ n ++ lit "/// ") = LLine.
Proof. rewrite lex_str_app, lex_tabs by reflexivity. reflexivity. Qed.

Lemma C15_lex_kt_w indent ws t :
  lex_marked cfg_kt LCode (mark (kt_tmpl_w indent ws) ++ t) =
  if forallb safe_kt ws then lex_marked cfg_kt LCode t else None.
Proof. apply (line_tmpl_lex cfg_kt); [apply kt_pre|reflexivity]. Qed.

Lemma kt_tmpl_w_text indent ws : text_of (kt_tmpl_w indent ws) = kt_write_comments indent ws.
Proof.
  unfold kt_tmpl_w, kt_write_comments. rewrite line_tmpl_text, <- flat_map_concat_map.
  apply flat_map_ext. intros d. unfold kt_write_comment, tabs, tabs_, nl. now rewrite <- ?app_assoc.
Qed.

(* ---- Swift ---- *)
Lemma C15_lex_sw_w indent ws t :
  lex_marked cfg_sw LCode (mark (sw_tmpl_w indent ws) ++ t) =
  if forallb safe_sw ws then lex_marked cfg_sw LCode t else None.
Proof. apply (line_tmpl_lex cfg_sw); [rewrite lex_str_app, lex_tabs by reflexivity; reflexivity|reflexivity]. Qed.

Lemma sw_tmpl_w_text indent ws : text_of (sw_tmpl_w indent ws) = sw_render_comments indent ws.
Proof.
  unfold sw_tmpl_w, sw_render_comments. rewrite line_tmpl_text.
  apply flat_map_ext. intros d. unfold sw_tabs, tabs_, sw_nl. now rewrite <- ?app_assoc.
Qed.

(* ---- Scala ---- *)
Lemma C15_lex_sc_w indent ws t :
  lex_marked cfg_sc LCode (mark (sc_tmpl_w indent ws) ++ t) =
  if forallb safe_sc ws then lex_marked cfg_sc LCode t else None.
Proof. apply (line_tmpl_lex cfg_sc); [rewrite lex_str_app, lex_tabs by reflexivity; reflexivity|reflexivity]. Qed.

Lemma sc_tmpl_w_text indent ws : text_of (sc_tmpl_w indent ws) = sc_write_comments indent ws.
Proof.
  unfold sc_tmpl_w, sc_write_comments. rewrite line_tmpl_text, <- flat_map_concat_map.
  apply flat_map_ext. intros d. unfold sc_write_comment, sc_tabs, tabs_, sc_nl. now rewrite <- ?app_assoc.
Qed.

(* ---- Go ---- *)
Lemma C15_lex_go_w indent ws t :
  lex_marked cfg_go LCode (mark (go_tmpl_w indent ws) ++ t) =
  if forallb safe_go ws then lex_marked cfg_go LCode t else None.
Proof. apply (line_tmpl_lex cfg_go); [rewrite lex_str_app, lex_tabs by reflexivity; reflexivity|reflexivity]. Qed.

Lemma go_tmpl_w_text indent ws : text_of (go_tmpl_w indent ws) = go_write_comments indent ws.
Proof.
  unfold go_tmpl_w, go_write_comments. rewrite line_tmpl_text.
  apply flat_map_ext. intros d. unfold go_write_comment, go_tabs, tabs_, go_nl. now rewrite <- ?app_assoc.
Qed.

(* ---- TypeScript ---- *)
Lemma ts_open n : lex_str_gen cfg_ts LCode (tabs_ n ++ lit "/** ") = LBlock 0 PNone.
Proof. rewrite lex_str_app, lex_tabs by reflexivity. reflexivity. Qed.
Lemma ts_open_nl n : lex_str_gen cfg_ts LCode (tabs_ n ++ lit "/**" ++ [ch_nl]) = LBlock 0 PNone.
Proof. rewrite lex_str_app, lex_tabs by reflexivity. reflexivity. Qed.
Lemma ts_star_pre n : lex_str_gen cfg_ts (LBlock 0 PNone) (tabs_ n ++ lit " * ") = LBlock 0 PNone.
Proof. rewrite lex_str_app, lex_tabs by reflexivity. reflexivity. Qed.
Lemma ts_close n : lex_str_gen cfg_ts (LBlock 0 PNone) (tabs_ n ++ lit " */" ++ [ch_nl]) = LCode.
Proof. rewrite lex_str_app, lex_tabs by reflexivity. reflexivity. Qed.

Lemma ts_lines_lex n docs t :
  lex_marked cfg_ts (LBlock 0 PNone) (mark (line_tmpl (tabs_ n ++ lit " * ") docs) ++ t) =
  if forallb safe_ts docs then lex_marked cfg_ts (LBlock 0 PNone) t else None.
Proof. apply (lines_lex cfg_ts (LBlock 0 PNone) (LBlock 0 PNone)); [apply ts_star_pre|apply ts_doc_spec]. Qed.

Lemma C15_lex_ts_w indent docs t :
  lex_marked cfg_ts LCode (mark (ts_tmpl_w indent docs) ++ t) =
  if forallb safe_ts docs then lex_marked cfg_ts LCode t else None.
Proof.
  destruct docs as [|d [|d2 r]].
  - reflexivity.
  - cbn [ts_tmpl_w forallb mark flat_map piece_mark app]. rewrite andb_true_r, <- ?app_assoc.
    rewrite lex_marked_lit, ts_open, lex_marked_app.
    pose proof (ts_doc_lex false d) as H. cbn [pend_of] in H. rewrite safe_ts_blk, H.
    destruct (blk_ok false d); [|reflexivity].
    rewrite lex_marked_lit. now destruct (blk_end false d).
  - cbn [ts_tmpl_w]. rewrite !mark_app. cbn [mark flat_map piece_mark]. rewrite ?app_nil_r, <- ?app_assoc.
    rewrite lex_marked_lit, ts_open_nl, ts_lines_lex.
    destruct (forallb safe_ts (d :: d2 :: r)); [|reflexivity].
    now rewrite lex_marked_lit, ts_close.
Qed.

Lemma ts_tmpl_w_text indent ws : text_of (ts_tmpl_w indent ws) = ts_comments_raw indent ws.
Proof.
  destruct ws as [|d [|d2 r]]; [reflexivity| |].
  - cbn [ts_tmpl_w text_of flat_map piece_text ts_comments_raw app].
    unfold tabs, tabs_, nl. now rewrite app_nil_r, <- ?app_assoc.
  - cbn [ts_tmpl_w ts_comments_raw]. rewrite !text_of_app, line_tmpl_text.
    match goal with |- context [flat_map ?f (d :: d2 :: r)] => set (F := flat_map f (d :: d2 :: r)) end.
    cbn [text_of flat_map piece_text]. rewrite ?app_nil_r. subst F.
    unfold tabs, tabs_, nl. rewrite join_lines'. now rewrite <- ?app_assoc.
Qed.
Lemma ts_tmpl_w_docs indent ws : docs_of (ts_tmpl_w indent ws) = ws.
Proof.
  destruct ws as [|d [|d2 r]]; [reflexivity|reflexivity|].
  cbn [ts_tmpl_w]. rewrite !docs_of_app, line_tmpl_docs. cbn [docs_of flat_map app]. now rewrite app_nil_r.
Qed.

(* ---- Python ---- *)
Lemma py_indent_code k : lex_str_gen cfg_py LCode (repeat_str (lit "    ") k) = LCode.
Proof. now apply py_indent_neutral. Qed.
Lemma py_indent_triple k : lex_str_gen cfg_py (LTriple ch_dq 0 false) (repeat_str (lit "    ") k) = LTriple ch_dq 0 false.
Proof. now apply py_indent_neutral. Qed.

Lemma py_lines_lex k docs t :
  lex_marked cfg_py (LTriple ch_dq 0 false) (mark (line_tmpl (repeat_str (lit "    ") k) docs) ++ t) =
  if forallb safe_py_docstring docs then lex_marked cfg_py (LTriple ch_dq 0 false) t else None.
Proof.
  apply (lines_lex cfg_py (LTriple ch_dq 0 false) (LTriple ch_dq 0 false)); [apply py_indent_triple|apply py_doc_spec].
Qed.

Lemma C15_lex_py_w docstring indent docs t :
  lex_marked cfg_py LCode (mark (py_tmpl_w docstring indent docs) ++ t) =
  if forallb (safe_py docstring) docs then lex_marked cfg_py LCode t else None.
Proof.
  destruct docs as [|d r]; [reflexivity|]. destruct docstring.
  - cbn [py_tmpl_w]. rewrite !mark_app. cbn [mark flat_map piece_mark]. rewrite ?app_nil_r, <- ?app_assoc.
    rewrite lex_marked_lit, lex_str_app, py_indent_code.
    change (lex_str_gen cfg_py LCode (lit """""""" ++ [ch_nl])) with (LTriple ch_dq 0 false).
    rewrite py_lines_lex. change (safe_py true) with safe_py_docstring.
    destruct (forallb safe_py_docstring (d :: r)); [|reflexivity].
    rewrite lex_marked_lit, lex_str_app, py_indent_triple. reflexivity.
  - cbn [py_tmpl_w]. apply (line_tmpl_lex cfg_py); [|reflexivity].
    rewrite lex_str_app, py_indent_code. reflexivity.
Qed.

Lemma join_map_lines (f : str -> str) x r rest :
  join [ch_nl] (map f (x :: r)) ++ [ch_nl] ++ rest = flat_map (fun d => f d ++ [ch_nl]) (x :: r) ++ rest.
Proof.
  revert x; induction r as [|y r IH]; intros x.
  - cbn [map join flat_map]. now rewrite app_nil_r, <- app_assoc.
  - change (join [ch_nl] (map f (x :: y :: r))) with (f x ++ [ch_nl] ++ join [ch_nl] (map f (y :: r))).
    rewrite flat_map_cons, <- ?app_assoc, (IH y). reflexivity.
Qed.

(* python.rs write_comments on the strings as written (what the model's py_write_comments prints after its escape) *)
Definition py_write_comments_w (is_docstring : bool) (ws : list str) (indent_level : nat) : str :=
  let indent := py_indent indent_level in
  match ws with
  | [] => []
  | _ =>
    (if is_docstring then
       indent ++ lit """""""" ++ py_nl ++
       join py_nl (map (fun v => indent ++ v) ws) ++ py_nl ++
       indent ++ lit """"""""
     else join py_nl (map (fun v => indent ++ lit "# " ++ v) ws)) ++ py_nl
  end.

Lemma py_tmpl_w_text docstring indent ws : text_of (py_tmpl_w docstring indent ws) = py_write_comments_w docstring ws indent.
Proof.
  destruct ws as [|d r]; [reflexivity|]. destruct docstring.
  - cbn [py_tmpl_w py_write_comments_w]. rewrite !text_of_app, line_tmpl_text. unfold py_indent, py_nl.
    set (ind := repeat_str (lit "    ") indent).
    match goal with |- context [flat_map ?f (d :: r)] => set (F := flat_map f (d :: r)) end.
    cbn [text_of flat_map piece_text]. rewrite ?app_nil_r.
    replace F with (flat_map (fun d0 => (ind ++ d0) ++ [ch_nl]) (d :: r))
      by (apply flat_map_ext; intros; now rewrite <- app_assoc).
    rewrite <- ?app_assoc. now rewrite join_map_lines.
  - cbn [py_tmpl_w py_write_comments_w]. rewrite line_tmpl_text. unfold py_indent, py_nl.
    set (ind := repeat_str (lit "    ") indent).
    rewrite <- (app_nil_r (join _ _ ++ _)), <- app_assoc, join_map_lines, app_nil_r.
    apply flat_map_ext; intros; now rewrite <- ?app_assoc.
Qed.
Lemma py_tmpl_w_docs docstring indent ws : docs_of (py_tmpl_w docstring indent ws) = ws.
Proof.
  destruct ws as [|d r]; [reflexivity|]. destruct docstring.
  - cbn [py_tmpl_w]. rewrite !docs_of_app, line_tmpl_docs. cbn [docs_of flat_map app]. now rewrite app_nil_r.
  - cbn [py_tmpl_w]. apply line_tmpl_docs.
Qed.

(* the six languages at once, strings as written: contained iff every written string is safe_<l> *)
Lemma C15_lex_w l docstring indent ws t :
  lex_marked (c15_cfg l) LCode (mark (c15_tmpl_w l docstring indent ws) ++ t) =
  if forallb (c15_safe_w l docstring) ws then lex_marked (c15_cfg l) LCode t else None.
Proof.
  destruct l; cbn [c15_tmpl_w c15_safe_w c15_cfg].
  - apply C15_lex_ts_w. - apply C15_lex_kt_w. - apply C15_lex_sw_w.
  - apply C15_lex_sc_w. - apply C15_lex_go_w. - apply C15_lex_py_w.
Qed.

Theorem C15_exact_w l docstring indent ws :
  c15_contained l LCode (mark (c15_tmpl_w l docstring indent ws)) = forallb (c15_safe_w l docstring) ws.
Proof. apply contained_of_lex. intros t. apply C15_lex_w. Qed.

Lemma c15_tmpl_w_docs l docstring indent ws : docs_of (c15_tmpl_w l docstring indent ws) = ws.
Proof.
  destruct l; cbn [c15_tmpl_w].
  - apply ts_tmpl_w_docs. - apply line_tmpl_docs. - apply line_tmpl_docs.
  - apply line_tmpl_docs. - apply line_tmpl_docs. - apply py_tmpl_w_docs.
Qed.

(* ---- 3b: the escapes remove the terminators ---- *)
(* TypeScript: after the escape no star is followed by a slash *)
Lemma c15_esc_ts_blk d : forall star, blk_ok star (c15_esc_ts d) = negb (star && starts_with [ch_slash] d).
Proof.
  induction d as [|c r IH]; intros star; [cbn; now rewrite andb_false_r|].
  cbn [c15_esc_ts]. destruct ((c =? ch_star) && starts_with [ch_slash] r) eqn:E.
  - apply andb_true_iff in E as [E1 E2]. apply N.eqb_eq in E1. subst c.
    cbn [blk_ok starts_with]. change (ch_star =? ch_slash) with false. change (ch_slash =? ch_star) with false.
    rewrite !andb_false_r. cbn [andb negb]. change (ch_bs =? ch_slash) with false. change (ch_bs =? ch_star) with false.
    cbn [andb]. rewrite IH. reflexivity.
  - cbn [blk_ok starts_with]. rewrite andb_true_r, (N.eqb_sym ch_slash c).
    destruct (star && (c =? ch_slash)); [reflexivity|]. rewrite IH, E. reflexivity.
Qed.
Theorem c15_esc_ts_safe d : safe_ts (c15_esc_ts d) = true.
Proof. rewrite safe_ts_blk, c15_esc_ts_blk. reflexivity. Qed.

(* Python: after the escape there are never three unescaped quotes in a row, whatever precedes.
   [n] unescaped quotes have just been read ([esc]: an unescaped backslash has): that is fine as long as the
   rest d does not complete them to three, which leftmost-first replacement guarantees *)
Definition c15_py_inv (n : nat) (esc : bool) (d : str) : Prop :=
  esc = true \/ match n with
                | O => True
                | S O => starts_with [ch_dq; ch_dq] d = false
                | _ => starts_with [ch_dq] d = false
                end.

Lemma c15_esc_py_scan k : forall d n esc, (List.length d <= k)%nat -> c15_py_inv n esc d ->
  py_doc_scan n esc (c15_esc_py d) = true.
Proof.
  induction k as [|k IH]; intros d n esc Hk Hinv.
  - destruct d; [reflexivity|cbn in Hk; lia].
  - destruct d as [|c r]; [reflexivity|]. cbn [List.length] in Hk.
    assert (Hplain : ~ (exists r3, r = ch_dq :: ch_dq :: r3 /\ c = ch_dq) -> c15_py_inv n esc (c :: r) ->
                     py_doc_scan n esc (c :: c15_esc_py r) = true).
    { intros Hno Hi. cbn [py_doc_scan]. destruct esc.
      - apply IH; [lia|]. right. exact I.
      - destruct Hi as [Hi|Hi]; [discriminate|].
        destruct (c =? ch_bs) eqn:Ebs; [apply IH; [lia|now left]|].
        destruct (c =? ch_dq) eqn:Edq; [|apply IH; [lia|right; exact I]].
        apply N.eqb_eq in Edq. subst c.
        destruct n as [|[|n]].
        + cbn [Nat.leb]. apply IH; [lia|]. right. destruct r as [|c2 [|c3 r3]]; try reflexivity.
          * cbn [starts_with]. now rewrite andb_false_r.
          * cbn [starts_with]. rewrite andb_true_r. destruct (ch_dq =? c2) eqn:E2; [|reflexivity].
            destruct (ch_dq =? c3) eqn:E3; [|reflexivity]. apply N.eqb_eq in E2, E3. subst. exfalso. apply Hno. eauto.
        + cbn [Nat.leb]. apply IH; [lia|]. right.
          cbn [starts_with] in Hi. change (ch_dq =? ch_dq) with true in Hi. cbn [andb] in Hi.
          destruct r as [|c2 r2]; [reflexivity|]. cbn [starts_with] in *. now rewrite andb_true_r in *.
        + cbn [starts_with] in Hi. change (ch_dq =? ch_dq) with true in Hi. discriminate. }
    destruct r as [|c2 [|c3 r3]].
    + apply Hplain; [|exact Hinv]. intros (r3 & E & _). discriminate.
    + apply Hplain; [|exact Hinv]. intros (r3 & E & _). discriminate.
    + cbn [c15_esc_py]. destruct ((c =? ch_dq) && (c2 =? ch_dq) && (c3 =? ch_dq)) eqn:E.
      * cbn [app py_doc_scan]. change (ch_bs =? ch_bs) with true. change (ch_dq =? ch_bs) with false. change (ch_dq =? ch_dq) with true.
        destruct esc; cbn [Nat.leb]; (apply IH; [cbn [List.length] in Hk; lia|right; exact I]).
      * change (c :: c15_esc_py (c2 :: c3 :: r3)) with (c :: c15_esc_py (c2 :: c3 :: r3)).
        apply Hplain; [|exact Hinv]. intros (r4 & E4 & Ec). injection E4 as -> -> _. subst c. discriminate.
Qed.
Theorem c15_esc_py_safe d : safe_py_docstring (c15_esc_py d) = true.
Proof. unfold safe_py_docstring. apply (c15_esc_py_scan (List.length d)); [lia|right; exact I]. Qed.

(* ---- 3c: the fragments, given the doc strings ---- *)
Lemma forallb_map' {A B} (f : A -> B) (p : B -> bool) xs : forallb p (map f xs) = forallb (fun x => p (f x)) xs.
Proof. induction xs as [|x r IH]; [reflexivity|]. cbn [map forallb]. now rewrite IH. Qed.

(* the six languages at once: contained iff every doc string is c15_safe *)
Lemma C15_lex l docstring indent docs t :
  lex_marked (c15_cfg l) LCode (mark (c15_tmpl l docstring indent docs) ++ t) =
  if forallb (c15_safe l docstring) docs then lex_marked (c15_cfg l) LCode t else None.
Proof. unfold c15_tmpl. rewrite C15_lex_w, forallb_map'. reflexivity. Qed.

Theorem C15_exact l docstring indent docs :
  c15_contained l LCode (mark (c15_tmpl l docstring indent docs)) = forallb (c15_safe l docstring) docs.
Proof. apply contained_of_lex. intros t. apply C15_lex. Qed.

Lemma c15_tmpl_docs l docstring indent docs :
  docs_of (c15_tmpl l docstring indent docs) = map (c15_written l docstring) docs.
Proof. unfold c15_tmpl. apply c15_tmpl_w_docs. Qed.

(* which doc strings are c15_safe: all of them for TypeScript and for Python docstrings; those without LF / CR (Go: LF)
   for the line comment writers *)
Lemma c15_safe_ts b d : c15_safe C15ts b d = true.
Proof. apply c15_esc_ts_safe. Qed.
Lemma c15_safe_py_docstring d : c15_safe C15py true d = true.
Proof. apply c15_esc_py_safe. Qed.
Lemma c15_forallb_impl {A} (p q : A -> bool) l : (forall x, p x = true -> q x = true) -> forallb p l = true -> forallb q l = true.
Proof. intros H. induction l as [|x r IH]; [reflexivity|]. cbn [forallb]. rewrite !andb_true_iff. intros [H1 H2]. split; auto. Qed.
Lemma c15_safe_no_break l b d : safe_line eol_lf_cr d = true -> c15_safe l b d = true.
Proof.
  intros H. destruct l; [apply c15_safe_ts|exact H|exact H|exact H| |destruct b; [apply c15_safe_py_docstring|exact H]].
  unfold c15_safe, c15_safe_w, c15_written, safe_go, safe_line in *. revert H. apply c15_forallb_impl.
  intros c. unfold eol_lf_cr, eol_lf. destruct (c =? ch_nl); [discriminate|reflexivity].
Qed.
Lemma c15_forallb_true {A} (p : A -> bool) l : (forall x, p x = true) -> forallb p l = true.
Proof. intros H. induction l as [|x r IH]; [reflexivity|]. cbn [forallb]. now rewrite H. Qed.

Lemma c15_written_id l b d : l <> C15ts -> (l = C15py -> b = false) -> c15_written l b d = d.
Proof. intros H1 H2. destruct l; try reflexivity; [congruence|]. now rewrite (H2 eq_refl). Qed.
Lemma c15_written_map_id l b docs : l <> C15ts -> (l = C15py -> b = false) -> map (c15_written l b) docs = docs.
Proof. intros H1 H2. rewrite <- (map_id docs) at 2. apply map_ext. intros d. now apply c15_written_id. Qed.

(* ---- per language: the fragment is what the model prints; its doc pieces are the doc strings as written ---- *)
Theorem C15_fragment_kt indent docs :
  text_of (kt_tmpl indent docs) = kt_write_comments indent docs /\ docs_of (kt_tmpl indent docs) = docs.
Proof.
  unfold kt_tmpl, c15_tmpl. rewrite c15_written_map_id by discriminate. split; [apply kt_tmpl_w_text|apply line_tmpl_docs].
Qed.
Theorem C15_fragment_sw indent docs :
  text_of (sw_tmpl indent docs) = sw_render_comments indent docs /\ docs_of (sw_tmpl indent docs) = docs.
Proof.
  unfold sw_tmpl, c15_tmpl. rewrite c15_written_map_id by discriminate. split; [apply sw_tmpl_w_text|apply line_tmpl_docs].
Qed.
Theorem C15_fragment_sc indent docs :
  text_of (sc_tmpl indent docs) = sc_write_comments indent docs /\ docs_of (sc_tmpl indent docs) = docs.
Proof.
  unfold sc_tmpl, c15_tmpl. rewrite c15_written_map_id by discriminate. split; [apply sc_tmpl_w_text|apply line_tmpl_docs].
Qed.
Theorem C15_fragment_go indent docs :
  text_of (go_tmpl indent docs) = go_write_comments indent docs /\ docs_of (go_tmpl indent docs) = docs.
Proof.
  unfold go_tmpl, c15_tmpl. rewrite c15_written_map_id by discriminate. split; [apply go_tmpl_w_text|apply line_tmpl_docs].
Qed.
Theorem C15_fragment_ts indent docs :
  text_of (ts_tmpl indent docs) = ts_comments indent docs /\ docs_of (ts_tmpl indent docs) = map c15_esc_ts docs.
Proof.
  unfold ts_tmpl, c15_tmpl. cbn [c15_tmpl_w]. change (c15_written C15ts false) with c15_esc_ts. split; [|apply ts_tmpl_w_docs].
  rewrite ts_tmpl_w_text. unfold ts_comments. f_equal. apply map_ext. intros d. symmetry. apply ts_escape_comment_spec.
Qed.
Lemma py_write_comments_written docstring docs indent :
  py_write_comments docstring docs indent = py_write_comments_w docstring (map (c15_written C15py docstring) docs) indent.
Proof.
  destruct docs as [|d r]; [reflexivity|]. unfold py_write_comments, py_write_comments_w. destruct docstring.
  - cbn [c15_written]. rewrite (map_ext _ _ py_escape_docstring_spec). reflexivity.
  - cbn [c15_written]. now rewrite map_id.
Qed.
Theorem C15_fragment_py docstring indent docs :
  text_of (py_tmpl docstring indent docs) = py_write_comments docstring docs indent /\
  docs_of (py_tmpl docstring indent docs) = map (c15_written C15py docstring) docs.
Proof.
  unfold py_tmpl, c15_tmpl. cbn [c15_tmpl_w]. split; [|apply py_tmpl_w_docs].
  now rewrite py_tmpl_w_text, py_write_comments_written.
Qed.
Lemma C15_fragment_text l b indent docs :
  text_of (c15_tmpl l b indent docs) =
  match l with
  | C15ts => ts_comments indent docs | C15kt => kt_write_comments indent docs | C15sw => sw_render_comments indent docs
  | C15sc => sc_write_comments indent docs | C15go => go_write_comments indent docs | C15py => py_write_comments b docs indent
  end.
Proof.
  destruct l.
  - apply (C15_fragment_ts indent docs). - apply (C15_fragment_kt indent docs). - apply (C15_fragment_sw indent docs).
  - apply (C15_fragment_sc indent docs). - apply (C15_fragment_go indent docs). - apply (C15_fragment_py b indent docs).
Qed.

(* ================= Part 4: whole files, as code parts and comment fragments ================= *)
Lemma c15_part_lex l p t : c15_code_neutral l p ->
  lex_marked (c15_cfg l) LCode (mark (c15_part_pieces l p) ++ t) =
  if c15_part_safe l p then lex_marked (c15_cfg l) LCode t else None.
Proof.
  destruct p as [s|b i ds]; cbn [c15_code_neutral c15_part_pieces c15_part_safe].
  - intros H. cbn [mark flat_map piece_mark app]. rewrite app_nil_r, lex_marked_lit. now rewrite H.
  - intros _. apply C15_lex.
Qed.

Theorem C15_file_exact l ps : Forall (c15_code_neutral l) ps ->
  c15_contained l LCode (mark (c15_file_pieces l ps)) = forallb (c15_part_safe l) ps.
Proof.
  intros H. unfold c15_contained. apply contained_of_lex. intros t.
  induction H as [|p r Hp Hr IH]; [reflexivity|].
  unfold c15_file_pieces in *. cbn [flat_map forallb]. rewrite mark_app, <- app_assoc, (c15_part_lex l p _ Hp).
  destruct (c15_part_safe l p); [apply IH|reflexivity].
Qed.

(* the doc pieces of a file: the doc strings of its fragments, as written *)
Definition c15_part_written (l : c15_lang) (p : c15_part) : list str :=
  match p with CPcode _ => [] | CPdoc b _ ds => map (c15_written l b) ds end.
Lemma c15_file_docs l ps : docs_of (c15_file_pieces l ps) = flat_map (c15_part_written l) ps.
Proof.
  induction ps as [|p r IH]; [reflexivity|].
  unfold c15_file_pieces in *. cbn [flat_map]. rewrite docs_of_app, IH. f_equal.
  destruct p as [s|b i ds]; [reflexivity|]. cbn [c15_part_pieces c15_part_written]. apply c15_tmpl_docs.
Qed.

(* ================= Part 5: regression pins through the model's generators ================= *)
From TS Require Import Model.Outcome Model.Unicode Model.Types Model.Parse Model.Lang.Common Model.Lang.Decl.
From TS Require Import Model.Syntax Model.Attrs.

Definition c15_id (s : string) : id := {| original := lit s; renamed := lit s; via_serde_rename := false |}.
(* #[typeshare] struct Foo { x: u8 } with the doc strings [docs] on the struct *)
Definition c15_wit_docs (docs : list str) : parsed :=
  {| p_structs := [ {| sid := c15_id "Foo"; sgenerics := [];
                       sfields := [ {| fid := c15_id "x"; fty := RPrim PU8; fcomments := []; has_default := false; fdecs := [] |} ];
                       scomments := docs; sdecs := []; sredacted := false |} ];
     p_enums := []; p_aliases := []; p_consts := []; p_type_names := [lit "Foo"]; p_errors := []; p_imports := [] |}.
Definition c15_wit (doc : str) : parsed := c15_wit_docs [doc].
(* the verdict of Spec/C15Spec.v on a generated file for the strings [ws] that must be found in it *)
Definition c15_judge_all (l : c15_lang) (ws : list str) (o : outcome str) : option (bool * bool) :=
  match o with Ok t => Some (c15_reproduced ws t, c15_contained_in l ws t) | _ => None end.
Definition c15_judge (l : c15_lang) (doc : str) (o : outcome str) : option (bool * bool) := c15_judge_all l [doc] o.

Definition c15_ts_cfg : ts_config := {| ts_type_mappings := []; ts_no_version_header := true; ts_version := [] |}.
Definition c15_kt_cfg : kt_config :=
  {| kt_package := lit "p"; kt_module_name := []; kt_prefix := []; kt_type_mappings := []; kt_no_version_header := true; kt_version := [] |}.
Definition c15_sw_cfg : sw_config :=
  {| sw_prefix := []; sw_type_mappings := []; sw_default_decorators := []; sw_default_generic_constraints := [];
     sw_codablevoid_constraints := []; sw_no_version_header := true; sw_version := [] |}.
Definition c15_sc_cfg : sc_config :=
  {| sc_package := lit "p.q"; sc_module_name := []; sc_type_mappings := []; sc_no_version_header := true; sc_version := [] |}.
Definition c15_go_cfg : go_config :=
  {| go_package := lit "p"; go_type_mappings := []; go_uppercase_acronyms := []; go_no_pointer_slice := false;
     go_no_version_header := true; go_version := [] |}.
Definition c15_py_cfg : py_config := {| py_type_mappings := []; py_no_version_header := true; py_version := [] |}.

Definition c15_generate (l : c15_lang) (pd : parsed) : outcome str :=
  match l with
  | C15ts => ts_generate uc_exec c15_ts_cfg pd
  | C15kt => kt_generate uc_exec c15_kt_cfg pd
  | C15sw => sw_generate uc_exec c15_sw_cfg pd
  | C15sc => sc_generate uc_exec c15_sc_cfg pd
  | C15go => go_generate uc_exec c15_go_cfg pd
  | C15py => py_generate uc_exec c15_py_cfg pd
  end.

(* the attribute values of the former witnesses: `/** alpha<LF>beta */` is #[doc = " alpha<LF>beta "] *)
Definition c15_val_two_lines : str := lit " alpha" ++ [ch_nl] ++ lit "beta ".
Definition c15_val_star_slash : str := lit "alpha */ beta".
Definition c15_val_quotes : str := lit " alpha """""" beta".
Definition c15_doc_attr_of (v : str) : attr := {| a_inner := false; a_meta := MNV [lit "doc"] (VStr v) |}.

(* A regression pin: the doc attribute #[doc = v] on `struct Foo`, through the model's front end
   (parse_comment_attrs) and the model's whole-file generator of language l: the front end delivers exactly the
   carried lines, the file reproduces every carried line as written (c15_written) and every character of them is
   read inside a comment / docstring, the lexer back in code at the end. *)
Definition c15_pinned (l : c15_lang) (v : str) (carried : list str) : Prop :=
  parse_comment_attrs uc_exec [c15_doc_attr_of v] = carried /\
  c15_carried uc_exec v = carried /\
  c15_judge_all l (map (c15_written l true) carried)
                (c15_generate l (c15_wit_docs (parse_comment_attrs uc_exec [c15_doc_attr_of v]))) = Some (true, true).

Lemma C15_kt_fixed : c15_pinned C15kt c15_val_two_lines [lit "alpha"; lit "beta"]. Proof. repeat split; vm_compute; reflexivity. Qed.
Lemma C15_sw_fixed : c15_pinned C15sw c15_val_two_lines [lit "alpha"; lit "beta"]. Proof. repeat split; vm_compute; reflexivity. Qed.
Lemma C15_sc_fixed : c15_pinned C15sc c15_val_two_lines [lit "alpha"; lit "beta"]. Proof. repeat split; vm_compute; reflexivity. Qed.
Lemma C15_go_fixed : c15_pinned C15go c15_val_two_lines [lit "alpha"; lit "beta"]. Proof. repeat split; vm_compute; reflexivity. Qed.
Lemma C15_ts_fixed : c15_pinned C15ts c15_val_star_slash [lit "alpha */ beta"]. Proof. repeat split; vm_compute; reflexivity. Qed.
Lemma C15_py_fixed : c15_pinned C15py c15_val_quotes [lit "alpha """""" beta"]. Proof. repeat split; vm_compute; reflexivity. Qed.
(* and what is written there: the escapes *)
Lemma C15_ts_fixed_written : c15_written C15ts true (lit "alpha */ beta") = lit "alpha *\/ beta". Proof. reflexivity. Qed.
Lemma C15_py_fixed_written : c15_written C15py true (lit "alpha """""" beta") = lit "alpha \""\""\"" beta". Proof. reflexivity. Qed.

(* non-vacuity: ONE doc attribute full of the property's alphabet - comment openers and terminators of all six
   languages, quote runs, backslashes in front of quotes and at line ends, CR LF, a lone CR, LF, a form feed, a blank
   line - is carried as several lines, every one reproduced (as written) and contained, in every language *)
Definition c15_val_nasty : str :=
  lit " a */ /* // """""" ''' \ # `b` \" ++ [ch_cr; ch_nl] ++ lit "*/" ++ [ch_nl] ++ lit """""""" ++ [ch_nl; ch_nl] ++
  lit "\""""""" ++ [ch_cr] ++ lit "c " ++ [12] ++ lit " d\" ++ [ch_nl] ++ lit " */*/ """"""""""\ ".
Definition c15_holds (l : c15_lang) (v : str) : Prop :=
  let carried := parse_comment_attrs uc_exec [c15_doc_attr_of v] in
  (6 <= List.length carried)%nat /\
  c15_judge_all l (map (c15_written l true) carried) (c15_generate l (c15_wit_docs carried)) = Some (true, true).
Example C15_kt_nonvacuous : c15_holds C15kt c15_val_nasty. Proof. split; vm_compute; [lia|reflexivity]. Qed.
Example C15_sw_nonvacuous : c15_holds C15sw c15_val_nasty. Proof. split; vm_compute; [lia|reflexivity]. Qed.
Example C15_sc_nonvacuous : c15_holds C15sc c15_val_nasty. Proof. split; vm_compute; [lia|reflexivity]. Qed.
Example C15_go_nonvacuous : c15_holds C15go c15_val_nasty. Proof. split; vm_compute; [lia|reflexivity]. Qed.
Example C15_ts_nonvacuous : c15_holds C15ts c15_val_nasty. Proof. split; vm_compute; [lia|reflexivity]. Qed.
Example C15_py_nonvacuous : c15_holds C15py c15_val_nasty. Proof. split; vm_compute; [lia|reflexivity]. Qed.
(* doc strings kept for the non-vacuity examples of the renderer-level theorems (Proofs/C15_TypeScript.v, C15_Kotlin.v) *)
Definition c15_doc_nasty_line : str := lit "a */ /* // """""" ''' \ # `b` \".
Definition c15_doc_nasty_ts : str := lit "a /* // """""" ''' \ # `b`" ++ [ch_nl] ++ lit "* / \ */".

(* ================= Part 6: the statements of Props/C15.v ================= *)
(* the front end *)
Lemma parse_comment_attrs_app uc a b :
  parse_comment_attrs uc (a ++ b) = parse_comment_attrs uc a ++ parse_comment_attrs uc b.
Proof. unfold parse_comment_attrs. now rewrite !flat_map_app. Qed.

(* the values of the doc attributes of an attribute list, in order *)
Definition c15_doc_values (attrs : list attr) : list str :=
  flat_map (fun a => match a_meta a with
                     | MNV p (VStr s) => if path_is_ident p (lit "doc") then [s] else []
                     | _ => []
                     end) attrs.

Theorem parse_comment_attrs_carried uc attrs :
  parse_comment_attrs uc attrs = flat_map (c15_carried uc) (c15_doc_values attrs).
Proof.
  unfold parse_comment_attrs, c15_doc_values. induction attrs as [|[i m] r IH]; [reflexivity|].
  cbn [flat_map a_meta]. rewrite !flat_map_app, IH. f_equal.
  destruct m as [p|p x y|p v]; try reflexivity. destruct (path_is_ident p (lit "doc")); [|now destruct v].
  destruct v; [|reflexivity]. cbn [expr_to_string flat_map]. rewrite !app_nil_r. apply doc_entries_carried.
Qed.

Theorem parse_comment_attrs_no_break uc attrs d : In d (parse_comment_attrs uc attrs) -> safe_line eol_lf_cr d = true.
Proof.
  rewrite parse_comment_attrs_carried. intros H. apply in_flat_map in H as (v & _ & H). exact (c15_carried_no_break uc v d H).
Qed.

(* every carried line is c15_safe in every language and form *)
Theorem c15_carried_safe uc l b vs : forallb (c15_safe l b) (flat_map (c15_carried uc) vs) = true.
Proof.
  apply forallb_forall. intros d H. apply in_flat_map in H as (v & _ & H).
  apply c15_safe_no_break. exact (c15_carried_no_break uc v d H).
Qed.

(* containment of the fragments: unconditional on what the front end carries *)
Lemma C15_contained_carried l docstring uc indent vs :
  c15_contained l LCode (mark (c15_tmpl l docstring indent (flat_map (c15_carried uc) vs))) = true.
Proof. rewrite C15_exact. apply c15_carried_safe. Qed.

Lemma C15_contained_ts indent docs : c15_contained C15ts LCode (mark (ts_tmpl indent docs)) = true.
Proof. unfold ts_tmpl. rewrite C15_exact. apply c15_forallb_true. intros d. apply c15_safe_ts. Qed.
Lemma C15_contained_kt uc indent vs :
  c15_contained C15kt LCode (mark (kt_tmpl indent (flat_map (c15_carried uc) vs))) = true.
Proof. apply (C15_contained_carried C15kt false). Qed.
Lemma C15_contained_sw uc indent vs :
  c15_contained C15sw LCode (mark (sw_tmpl indent (flat_map (c15_carried uc) vs))) = true.
Proof. apply (C15_contained_carried C15sw false). Qed.
Lemma C15_contained_sc uc indent vs :
  c15_contained C15sc LCode (mark (sc_tmpl indent (flat_map (c15_carried uc) vs))) = true.
Proof. apply (C15_contained_carried C15sc false). Qed.
Lemma C15_contained_go uc indent vs :
  c15_contained C15go LCode (mark (go_tmpl indent (flat_map (c15_carried uc) vs))) = true.
Proof. apply (C15_contained_carried C15go false). Qed.
Lemma C15_contained_py_docstring indent docs : c15_contained C15py LCode (mark (py_tmpl true indent docs)) = true.
Proof. unfold py_tmpl. rewrite C15_exact. apply c15_forallb_true. intros d. apply c15_safe_py_docstring. Qed.
Lemma C15_contained_py uc docstring indent vs :
  c15_contained C15py LCode (mark (py_tmpl docstring indent (flat_map (c15_carried uc) vs))) = true.
Proof. apply (C15_contained_carried C15py docstring). Qed.

(* doc strings that no source text produces (IR level): the line-comment fragments are contained iff no string has a line break *)
Lemma C15_exact_line l indent docs : l <> C15ts -> l <> C15py ->
  c15_contained l LCode (mark (c15_tmpl l false indent docs)) =
  forallb (safe_line (match l with C15go => eol_lf | _ => eol_lf_cr end)) docs.
Proof. intros H1 H2. rewrite C15_exact. destruct l; try congruence; reflexivity. Qed.

Lemma known_C15_none l sites : known_C15 l sites = None.
Proof. reflexivity. Qed.

Lemma safe_line_meaning eol d : safe_line eol d = true <-> (forall c, In c d -> eol c = false).
Proof.
  unfold safe_line. rewrite forallb_forall. split; intros H c Hc.
  - apply H in Hc. now destruct (eol c).
  - now rewrite (H c Hc).
Qed.

(* `*/` does not occur: no position where the string continues with `*` `/` *)
Lemma safe_ts_meaning d : safe_ts d = true <-> (forall a b, d <> a ++ [ch_star; ch_slash] ++ b).
Proof.
  unfold safe_ts. rewrite negb_true_iff. split.
  - intros H a b E. subst d. induction a as [|c a IH].
    + cbn in H. discriminate.
    + cbn [app contains_sub] in H. apply orb_false_iff in H as [_ H]. now apply IH.
  - intros H. induction d as [|c r IH]; [reflexivity|].
    cbn [contains_sub]. apply orb_false_iff. split.
    + destruct r as [|c2 r2]; cbn [starts_with]; [now rewrite andb_false_r|].
      rewrite andb_true_r. destruct (ch_star =? c) eqn:E1; [|reflexivity]. destruct (ch_slash =? c2) eqn:E2; [|reflexivity].
      apply N.eqb_eq in E1, E2. subst. exfalso. exact (H [] r2 eq_refl).
    + apply IH. intros a b E. apply (H (c :: a) b). cbn [app]. now rewrite E.
Qed.

(* ================= Part 7: the TypeScript renderer as code parts and comment fragments ================= *)
(* ts_render_decl of the model, re-read as a sequence of parts: every ts_comments call becomes a CPdoc
   part carrying exactly the doc list of that position, everything else is code.  The two lemmas say
   the parts ARE the rendered text and that the doc strings of the parts are the doc strings of the
   declaration in print order; with C15_file_exact this is whole-declaration containment, up to the
   code parts keeping the lexer in code mode. *)
Definition ts_part_text (p : c15_part) : str :=
  match p with CPcode s => s | CPdoc _ i ds => ts_comments i ds end.

Lemma ts_file_text ps : text_of (c15_file_pieces C15ts ps) = flat_map ts_part_text ps.
Proof.
  induction ps as [|p r IH]; [reflexivity|].
  unfold c15_file_pieces in *. cbn [flat_map]. rewrite text_of_app, IH. f_equal.
  destruct p as [s|b i ds]; cbn [c15_part_pieces ts_part_text].
  - cbn. now rewrite app_nil_r.
  - apply (C15_fragment_text C15ts).
Qed.

Definition ts_member_code (m : ts_member) : str :=
  [ch_tab] ++ (if tm_readonly m then lit "readonly " else []) ++
  typescript_property_aware_rename (tm_key m) ++
  (if tm_optional m then lit "?" else []) ++ lit ": " ++ ts_show (tm_type m) ++
  (if tm_null_union m then lit " | null" else []) ++ lit ";" ++ nl.
Definition ts_parts_member (m : ts_member) : list c15_part :=
  [CPdoc false 1 (tm_docs m); CPcode (ts_member_code m)].

Definition ts_parts_variant (tag content : str) (v : ts_variant) : list c15_part :=
  match v with
  | TVUnit docs wire =>
    [CPcode nl; CPdoc false 1 docs;
     CPcode ([ch_tab] ++ lit "| { " ++ tag ++ lit ": " ++ debug_str wire ++ lit ", " ++ content ++ lit "?: undefined }")]
  | TVTuple docs wire ty opt nullu =>
    [CPcode nl; CPdoc false 1 docs;
     CPcode ([ch_tab] ++ lit "| { " ++ tag ++ lit ": " ++ debug_str wire ++ lit ", " ++
             content ++ (if opt then lit "?" else []) ++ lit ": " ++ ts_show ty ++
             (if nullu then lit " | null" else []) ++ lit " }")]
  | TVStruct docs wire ms =>
    [CPcode nl; CPdoc false 1 docs;
     CPcode ([ch_tab] ++ lit "| { " ++ tag ++ lit ": " ++ debug_str wire ++ lit ", " ++ content ++ lit ": {" ++ nl)] ++
    flat_map ts_parts_member ms ++ [CPcode (lit "}" ++ lit "}")]
  end.

Definition ts_parts_decl (d : ts_decl) : list c15_part :=
  match d with
  | TSInterface docs name gs ms =>
    [CPdoc false 0 docs; CPcode (lit "export interface " ++ name ++ generics_suffix gs ++ lit " {" ++ nl)] ++
    flat_map ts_parts_member ms ++ [CPcode (lit "}" ++ nl ++ nl)]
  | TSAlias docs name gs ty undef nullu =>
    [CPdoc false 0 docs;
     CPcode (lit "export type " ++ name ++ generics_suffix gs ++ lit " = " ++ ts_show ty ++
             (if nullu then lit " | null" else []) ++
             (if undef then lit " | undefined" else []) ++ lit ";" ++ nl ++ nl)]
  | TSConst name ty value =>
    [CPcode (lit "export const " ++ name ++ lit ": " ++ ts_show ty ++ lit " = " ++ value ++ lit ";" ++ nl)]
  | TSUnitEnum docs name gs vs =>
    [CPdoc false 0 docs; CPcode (lit "export enum " ++ name ++ generics_suffix gs ++ lit " {")] ++
    flat_map (fun v => let '(vdocs, case, wire) := v in
                       [CPcode nl; CPdoc false 1 vdocs; CPcode ([ch_tab] ++ case ++ lit " = " ++ debug_str wire ++ lit ",")]) vs ++
    [CPcode (nl ++ lit "}" ++ nl ++ nl)]
  | TSUnion docs name gs tag content vs =>
    [CPdoc false 0 docs; CPcode (lit "export type " ++ name ++ generics_suffix gs ++ lit " = ")] ++
    flat_map (ts_parts_variant tag content) vs ++ [CPcode (lit ";" ++ nl ++ nl)]
  end.

Definition c15_part_docs (p : c15_part) : list str := match p with CPcode _ => [] | CPdoc _ _ ds => ds end.
Lemma c15_map_flat_map' {A B C} (g : B -> C) (f : A -> list B) l :
  map g (flat_map f l) = flat_map (fun x => map g (f x)) l.
Proof. induction l as [|x r IH]; [reflexivity|]. cbn [flat_map]. now rewrite map_app, IH. Qed.
(* the doc pieces of a TypeScript file: the doc strings of its fragments, escaped *)
Lemma c15_file_docs_ts ps : docs_of (c15_file_pieces C15ts ps) = map c15_esc_ts (flat_map c15_part_docs ps).
Proof. rewrite c15_file_docs, c15_map_flat_map'. apply flat_map_ext. now intros [s|b i ds]. Qed.
(* the line-comment languages write the doc strings verbatim *)
Lemma c15_file_docs_line l ps : l <> C15ts -> l <> C15py -> docs_of (c15_file_pieces l ps) = flat_map c15_part_docs ps.
Proof.
  intros H1 H2. rewrite c15_file_docs. apply flat_map_ext. intros [s|b i ds]; [reflexivity|].
  cbn [c15_part_written c15_part_docs]. apply c15_written_map_id; [exact H1|congruence].
Qed.
(* every TypeScript fragment is contained *)
Lemma c15_part_safe_ts p : c15_part_safe C15ts p = true.
Proof. destruct p as [s|b i ds]; [reflexivity|]. cbn [c15_part_safe]. apply c15_forallb_true. intros d. apply c15_safe_ts. Qed.
Definition ts_member_docs (m : ts_member) : list str := tm_docs m.
Definition ts_variant_docs (v : ts_variant) : list str :=
  match v with
  | TVUnit docs _ | TVTuple docs _ _ _ _ => docs
  | TVStruct docs _ ms => docs ++ flat_map ts_member_docs ms
  end.
(* the doc strings of a declaration, in print order *)
Definition ts_decl_docs (d : ts_decl) : list str :=
  match d with
  | TSInterface docs _ _ ms => docs ++ flat_map ts_member_docs ms
  | TSAlias docs _ _ _ _ _ => docs
  | TSConst _ _ _ => []
  | TSUnitEnum docs _ _ vs => docs ++ flat_map (fun v => fst (fst v)) vs
  | TSUnion docs _ _ _ _ vs => docs ++ flat_map ts_variant_docs vs
  end.

Lemma flat_map_flat_map {A B C} (f : A -> list B) (g : B -> list C) l :
  flat_map g (flat_map f l) = flat_map (fun x => flat_map g (f x)) l.
Proof. induction l as [|x r IH]; [reflexivity|]. cbn [flat_map]. now rewrite flat_map_app, IH. Qed.

Lemma ts_members_text ms : flat_map ts_part_text (flat_map ts_parts_member ms) = List.concat (map ts_render_member ms).
Proof.
  rewrite flat_map_flat_map, <- flat_map_concat_map. apply flat_map_ext. intros m.
  cbn [ts_parts_member flat_map ts_part_text]. unfold ts_render_member, ts_member_code. now rewrite app_nil_r.
Qed.

Lemma ts_variant_text tag content v :
  flat_map ts_part_text (ts_parts_variant tag content v) = ts_render_variant tag content v.
Proof.
  destruct v as [docs wire|docs wire ty opt nullu|docs wire ms]; cbn [ts_parts_variant ts_render_variant].
  - cbn [flat_map ts_part_text]. now rewrite app_nil_r.
  - cbn [flat_map ts_part_text]. now rewrite app_nil_r.
  - rewrite !flat_map_app, ts_members_text. cbn [flat_map ts_part_text]. rewrite app_nil_r.
    now rewrite <- ?app_assoc.
Qed.

Theorem ts_decl_parts_text d : text_of (c15_file_pieces C15ts (ts_parts_decl d)) = ts_render_decl d.
Proof.
  rewrite ts_file_text.
  destruct d as [docs name gs ms|docs name gs ty undef nullu|name ty value|docs name gs vs|docs name gs tag content vs];
    cbn [ts_parts_decl ts_render_decl].
  - rewrite !flat_map_app, ts_members_text. cbn [flat_map ts_part_text]. rewrite app_nil_r. now rewrite <- ?app_assoc.
  - cbn [flat_map ts_part_text]. now rewrite app_nil_r.
  - cbn [flat_map ts_part_text]. now rewrite app_nil_r.
  - rewrite !flat_map_app, flat_map_flat_map. cbn [flat_map ts_part_text]. rewrite app_nil_r, <- ?app_assoc.
    do 5 f_equal. rewrite <- flat_map_concat_map. f_equal.
    + apply flat_map_ext. intros [[vdocs case] wire]. cbn [flat_map ts_part_text]. now rewrite app_nil_r, <- ?app_assoc.
  - rewrite !flat_map_app, flat_map_flat_map. cbn [flat_map ts_part_text]. rewrite app_nil_r, <- ?app_assoc.
    do 5 f_equal. rewrite <- flat_map_concat_map. f_equal.
    + apply flat_map_ext. intros v. apply ts_variant_text.
Qed.

Lemma ts_members_docs ms : flat_map c15_part_docs (flat_map ts_parts_member ms) = flat_map ts_member_docs ms.
Proof.
  rewrite flat_map_flat_map. apply flat_map_ext. intros m. cbn. now rewrite app_nil_r.
Qed.

Theorem ts_decl_parts_docs d : docs_of (c15_file_pieces C15ts (ts_parts_decl d)) = map c15_esc_ts (ts_decl_docs d).
Proof.
  rewrite c15_file_docs_ts. f_equal.
  destruct d as [docs name gs ms|docs name gs ty undef nullu|name ty value|docs name gs vs|docs name gs tag content vs];
    cbn [ts_parts_decl ts_decl_docs].
  - rewrite !flat_map_app, ts_members_docs. cbn. now rewrite ?app_nil_r.
  - cbn. now rewrite app_nil_r.
  - reflexivity.
  - rewrite !flat_map_app, flat_map_flat_map. cbn [flat_map c15_part_docs app]. rewrite ?app_nil_r. f_equal.
    apply flat_map_ext. intros [[vdocs case] wire]. cbn. now rewrite app_nil_r.
  - rewrite !flat_map_app, flat_map_flat_map. cbn [flat_map c15_part_docs app]. rewrite ?app_nil_r. f_equal.
    apply flat_map_ext. intros v. destruct v as [vd w|vd w ty opt nullu|vd w ms]; cbn [ts_parts_variant ts_variant_docs].
    + cbn. now rewrite app_nil_r.
    + cbn. now rewrite app_nil_r.
    + rewrite !flat_map_app, ts_members_docs. cbn. now rewrite ?app_nil_r.
Qed.

(* whole declaration: contained, given neutral code parts *)
Theorem C15_ts_decl_partial d : Forall (c15_code_neutral C15ts) (ts_parts_decl d) ->
  c15_contained C15ts LCode (mark (c15_file_pieces C15ts (ts_parts_decl d))) = true.
Proof. intros H. rewrite (C15_file_exact C15ts _ H). apply c15_forallb_true. apply c15_part_safe_ts. Qed.

(* ================= Part 8: TypeScript decisions keep the IR's doc strings ================= *)
From TS Require Import Proofs.BackCommon.

Lemma Forall2_flat_map {A B C} (f : A -> list C) (g : B -> list C) l r :
  Forall2 (fun a b => g b = f a) l r -> flat_map g r = flat_map f l.
Proof. induction 1 as [|a b l r H _ IH]; [reflexivity|]. cbn [flat_map]. now rewrite H, IH. Qed.

Section TSDocs.
Variable uc : unicode.
Variable cfg : ts_config.

Lemma ts_member_docs_ir generics f st m st' : ts_member_of cfg generics f st = Ok (m, st') -> ts_member_docs m = fcomments f.
Proof.
  unfold ts_member_of. intros H.
  apply mbind_ok in H as (ty & s1 & _ & H). apply mbind_ok in H as (s2 & s3 & _ & H).
  apply mbind_ok in H as (u & s4 & _ & H). unfold ret in H. injection H as <- _. reflexivity.
Qed.

Lemma ts_members_docs_ir generics fs st ms st' :
  mmapM (ts_member_of cfg generics) fs st = Ok (ms, st') -> flat_map ts_member_docs ms = flat_map fcomments fs.
Proof.
  intros H. apply Forall2_flat_map.
  eapply mmapM_Forall2; [|exact H]. intros f s0 m s0' Hf. exact (ts_member_docs_ir _ _ _ _ _ Hf).
Qed.

Theorem ts_decl_docs_ir it st d st' : ts_decl_of uc cfg it st = Ok (d, st') -> ts_decl_docs d = c15_item_docs it.
Proof.
  destruct it as [s|[sh|tag content sh]|a|c]; cbn [ts_decl_of c15_item_docs]; intros H.
  - apply mbind_ok in H as (ms & s1 & Hm & H). unfold ret in H. injection H as <- _.
    cbn [ts_decl_docs]. f_equal. exact (ts_members_docs_ir _ _ _ _ _ Hm).
  - apply mbind_ok in H as (vs & s1 & Hm & H). unfold ret in H. injection H as <- _.
    cbn [ts_decl_docs enum_shared]. f_equal. apply Forall2_flat_map.
    eapply mmapM_Forall2; [|exact Hm]. intros v s0 x s0' Hv.
    destruct v as [vsh|t vsh|fs vsh]; cbn in Hv; try discriminate.
    unfold ret in Hv. injection Hv as <- _. reflexivity.
  - apply mbind_ok in H as (vs & s1 & Hm & H). unfold ret in H. injection H as <- _.
    cbn [ts_decl_docs enum_shared]. f_equal. apply Forall2_flat_map.
    eapply mmapM_Forall2; [|exact Hm]. intros v s0 x s0' Hv.
    destruct v as [vsh|t vsh|fs vsh]; cbn [ts_variant_of] in Hv.
    + unfold ret in Hv. injection Hv as <- _. reflexivity.
    + apply mbind_ok in Hv as (ty & s2 & _ & Hv). unfold ret in Hv. injection Hv as <- _. reflexivity.
    + apply mbind_ok in Hv as (ms & s2 & Hms & Hv). unfold ret in Hv. injection Hv as <- _.
      cbn [ts_variant_docs c15_variant_docs]. f_equal. exact (ts_members_docs_ir _ _ _ _ _ Hms).
  - apply mbind_ok in H as (ty & s1 & _ & H). unfold ret in H. injection H as <- _. reflexivity.
  - apply mbind_ok in H as (ty & s1 & _ & H). unfold ret in H. injection H as <- _. reflexivity.
Qed.

(* one item through write_struct / write_enum / write_type_alias of the model: the text is code parts
   and comment fragments whose doc pieces are exactly the IR's doc strings of the item, escaped, in order;
   it is contained whatever the doc strings are, given that the code parts keep the lexer in code mode *)
Theorem C15_ts_item_partial it st text st' : ts_write_item uc cfg it st = Ok (text, st') ->
  exists parts,
    text = text_of (c15_file_pieces C15ts parts) /\
    docs_of (c15_file_pieces C15ts parts) = map c15_esc_ts (c15_item_docs it) /\
    (Forall (c15_code_neutral C15ts) parts ->
     c15_contained C15ts LCode (mark (c15_file_pieces C15ts parts)) = true).
Proof.
  unfold ts_write_item. intros H. apply mbind_ok in H as (d & s1 & Hd & H). unfold ret in H. injection H as <- _.
  exists (ts_parts_decl d). pose proof (ts_decl_docs_ir _ _ _ _ Hd) as E. repeat split.
  - symmetry. apply ts_decl_parts_text.
  - now rewrite ts_decl_parts_docs, E.
  - apply C15_ts_decl_partial.
Qed.
End TSDocs.

(* ================= Part 10: the Scala renderer as code parts and comment fragments ================= *)
Definition sc_part_text (p : c15_part) : str :=
  match p with CPcode s => s | CPdoc _ i ds => sc_write_comments i ds end.

Lemma sc_file_text ps : text_of (c15_file_pieces C15sc ps) = flat_map sc_part_text ps.
Proof.
  induction ps as [|p r IH]; [reflexivity|].
  unfold c15_file_pieces in *. cbn [flat_map]. rewrite text_of_app, IH. f_equal.
  destruct p as [s|b i ds]; cbn [c15_part_pieces sc_part_text].
  - cbn. now rewrite app_nil_r.
  - apply (C15_fragment_text C15sc).
Qed.

Definition sc_member_code (m : sc_member) : str :=
  [ch_tab] ++ scm_name m ++ lit ": " ++ sc_show (scm_type m) ++
  match scm_default m with
  | SCDefUnderscore => lit " = _"
  | SCDefNone => lit " = None"
  | SCDefAbsent => []
  end.
Definition sc_parts_member (m : sc_member) : list c15_part := [CPdoc false 1 (scm_docs m); CPcode (sc_member_code m)].
Fixpoint sc_parts_members (ms : list sc_member) : list c15_part :=
  match ms with
  | [] => []
  | [m] => sc_parts_member m
  | m :: r => sc_parts_member m ++ [CPcode (lit "," ++ sc_nl)] ++ sc_parts_members r
  end.

Definition sc_variant_code (v : sc_variant) : str :=
  [ch_tab] ++
  match scv_payload v with
  | SCPayUnit => lit "case object " ++ scv_name v
  | SCPayTuple gs content ty =>
    lit "case class " ++ scv_name v ++ sc_generic_parameters gs ++ lit "(" ++
    content ++ lit ": " ++ sc_show ty ++ lit ")"
  | SCPayInner gs content inner args =>
    lit "case class " ++ scv_name v ++ sc_generic_parameters gs ++ lit "(" ++
    content ++ lit ": " ++ inner ++ sc_generic_parameters args ++ lit ")"
  end ++
  lit " extends " ++ scv_parent v ++ sc_generic_parameters (scv_parent_generics v) ++ lit " {" ++ sc_nl ++
  [ch_tab; ch_tab] ++ lit "val serialName: String = " ++ debug_str (scv_wire v) ++ sc_nl ++
  [ch_tab] ++ lit "}" ++ sc_nl.
Definition sc_parts_variant (v : sc_variant) : list c15_part := [CPdoc false 1 (scv_docs v); CPcode (sc_variant_code v)].

Definition sc_parts_decl (d : sc_decl) : list c15_part :=
  match d with
  | SCAlias docs name gs ty =>
    [CPdoc false 0 docs; CPcode (lit "type " ++ name ++ sc_generic_parameters gs ++ lit " = " ++ sc_show ty ++ sc_nl ++ sc_nl)]
  | SCCaseClass docs name gs ms =>
    [CPdoc false 0 docs; CPcode (lit "case class " ++ name ++ sc_generic_parameters gs ++ lit " (" ++ sc_nl)] ++
    sc_parts_members ms ++ [CPcode (sc_nl ++ lit ")" ++ sc_nl ++ sc_nl)]
  | SCEmptyClass docs name =>
    [CPdoc false 0 docs; CPcode (lit "class " ++ name ++ lit " extends Serializable" ++ sc_nl ++ sc_nl)]
  | SCEnum docs name gs vs =>
    [CPdoc false 0 docs;
     CPcode (lit "sealed trait " ++ name ++ sc_generic_parameters gs ++ lit " {" ++ sc_nl ++
             [ch_tab] ++ lit "def serialName: String" ++ sc_nl ++
             lit "}" ++ sc_nl ++
             lit "object " ++ name ++ lit " {" ++ sc_nl)] ++
    flat_map sc_parts_variant vs ++ [CPcode (lit "}" ++ sc_nl ++ sc_nl)]
  | SCHelperAliases l =>
    [CPcode (List.concat (map (fun nt => lit "type " ++ fst nt ++ lit " = " ++ sc_show (snd nt) ++ sc_nl) l) ++ sc_nl)]
  end.

(* the doc strings of a Scala declaration, in print order *)
Definition sc_decl_docs (d : sc_decl) : list str :=
  match d with
  | SCAlias docs _ _ _ | SCEmptyClass docs _ => docs
  | SCCaseClass docs _ _ ms => docs ++ flat_map scm_docs ms
  | SCEnum docs _ _ vs => docs ++ flat_map scv_docs vs
  | SCHelperAliases _ => []
  end.

Lemma sc_members_text ms :
  flat_map sc_part_text (sc_parts_members ms) = join (lit "," ++ sc_nl) (map sc_render_member ms).
Proof.
  assert (E : forall m, flat_map sc_part_text (sc_parts_member m) = sc_render_member m).
  { intros m. cbn [sc_parts_member flat_map sc_part_text]. unfold sc_render_member, sc_member_code. now rewrite app_nil_r. }
  induction ms as [|m [|m2 r] IH]; [reflexivity|apply E|].
  change (sc_parts_members (m :: m2 :: r)) with (sc_parts_member m ++ [CPcode (lit "," ++ sc_nl)] ++ sc_parts_members (m2 :: r)).
  change (join (lit "," ++ sc_nl) (map sc_render_member (m :: m2 :: r)))
    with (sc_render_member m ++ (lit "," ++ sc_nl) ++ join (lit "," ++ sc_nl) (map sc_render_member (m2 :: r))).
  rewrite !flat_map_app, E, IH. cbn [flat_map sc_part_text]. now rewrite app_nil_r.
Qed.

Lemma sc_members_docs ms : flat_map c15_part_docs (sc_parts_members ms) = flat_map scm_docs ms.
Proof.
  induction ms as [|m [|m2 r] IH]; [reflexivity| |].
  - cbn. now rewrite ?app_nil_r.
  - change (sc_parts_members (m :: m2 :: r)) with (sc_parts_member m ++ [CPcode (lit "," ++ sc_nl)] ++ sc_parts_members (m2 :: r)).
    rewrite !flat_map_app, IH. cbn [sc_parts_member flat_map c15_part_docs app]. now rewrite ?app_nil_r.
Qed.

Theorem sc_decl_parts_text d : text_of (c15_file_pieces C15sc (sc_parts_decl d)) = sc_render_decl d.
Proof.
  rewrite sc_file_text.
  destruct d as [docs name gs ty|docs name gs ms|docs name|docs name gs vs|l]; cbn [sc_parts_decl sc_render_decl].
  - cbn [flat_map sc_part_text]. now rewrite app_nil_r.
  - rewrite !flat_map_app, sc_members_text. cbn [flat_map sc_part_text]. rewrite app_nil_r. now rewrite <- ?app_assoc.
  - cbn [flat_map sc_part_text]. now rewrite app_nil_r.
  - assert (E : flat_map sc_part_text (flat_map sc_parts_variant vs) = List.concat (map sc_render_variant vs)).
    { rewrite flat_map_flat_map, <- flat_map_concat_map. apply flat_map_ext. intros v.
      cbn [sc_parts_variant flat_map sc_part_text]. unfold sc_render_variant, sc_variant_code. now rewrite app_nil_r. }
    rewrite !flat_map_app, E. cbn [flat_map sc_part_text]. now rewrite ?app_nil_r, <- ?app_assoc.
  - cbn [flat_map sc_part_text]. now rewrite app_nil_r.
Qed.

Theorem sc_decl_parts_docs d : docs_of (c15_file_pieces C15sc (sc_parts_decl d)) = sc_decl_docs d.
Proof.
  rewrite c15_file_docs_line by discriminate.
  destruct d as [docs name gs ty|docs name gs ms|docs name|docs name gs vs|l]; cbn [sc_parts_decl sc_decl_docs].
  - cbn. now rewrite app_nil_r.
  - rewrite !flat_map_app, sc_members_docs. cbn. now rewrite ?app_nil_r.
  - cbn. now rewrite app_nil_r.
  - rewrite !flat_map_app, flat_map_flat_map. cbn [flat_map c15_part_docs app]. rewrite ?app_nil_r. f_equal.
    apply flat_map_ext. intros v. cbn. now rewrite app_nil_r.
  - reflexivity.
Qed.

Theorem C15_sc_decl_partial d : Forall (c15_code_neutral C15sc) (sc_parts_decl d) ->
  c15_contained C15sc LCode (mark (c15_file_pieces C15sc (sc_parts_decl d))) = forallb safe_sc (sc_decl_docs d).
Proof.
  intros H. rewrite (C15_file_exact C15sc _ H), <- sc_decl_parts_docs, c15_file_docs_line by discriminate.
  induction (sc_parts_decl d) as [|p r IH]; [reflexivity|].
  cbn [forallb flat_map]. rewrite forallb_app. inversion H; subst. rewrite IH by assumption. f_equal.
  now destruct p.
Qed.

(* the model's write_struct / write_enum / write_type_alias for Scala: every declaration printed for the
   item is code parts + comment fragments carrying exactly that declaration's doc strings *)
Theorem C15_sc_render_partial d :
  exists parts,
    sc_render_decl d = text_of (c15_file_pieces C15sc parts) /\
    docs_of (c15_file_pieces C15sc parts) = sc_decl_docs d /\
    (Forall (c15_code_neutral C15sc) parts ->
     c15_contained C15sc LCode (mark (c15_file_pieces C15sc parts)) = forallb safe_sc (sc_decl_docs d)).
Proof.
  exists (sc_parts_decl d). repeat split.
  - symmetry. apply sc_decl_parts_text.
  - apply sc_decl_parts_docs.
  - apply C15_sc_decl_partial.
Qed.
