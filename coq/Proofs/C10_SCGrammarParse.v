(* C10, grammar half for Scala, part 2: the NEWLINE AUTOMATON and the PARSER of Spec/C10ScGrammar.v.
     - [NR]: what [c10_sc_nls] does on a run of raw tokens, from a state to a state, whatever follows (the automaton is
       left-to-right, so runs compose: [nr_app]); runs without line ends ([nr_nonl]), balanced runs ([Bal]);
     - [Gt]: the declarative token grammar of types and type lists; [gt_complete]: [c10_sg] consumes exactly the tokens of
       a derivation, with the fuel it is given; [gt_bal]: such tokens are a balanced run without line ends that can end a
       statement;
     - type-parameter clauses, class parameters and parameter clauses, templates, the statement forms the back end
       writes ([StatOk]), statement sequences ([stats_ok]), packagings and package objects, compilation units. *)
From Coq Require Import List Bool Lia ZifyBool ZifyN NArith String.
From TS Require Import Model.Str Spec.C10TsGrammar Spec.C10ScGrammar.
Import ListNotations.
Local Open Scope N_scope.
Local Notation length := List.length (only parsing).

(* ================================================================== the newline automaton *)
Definition NR (regs : list bool) (ce pend : bool) (a a' : list c10_utok) (regs' : list bool) (ce' pend' : bool) : Prop :=
  forall rest, c10_sc_nls regs ce pend (a ++ rest) = a' ++ c10_sc_nls regs' ce' pend' rest.

Lemma nr_nil regs ce pend : NR regs ce pend [] [] regs ce pend.
Proof. intros rest. reflexivity. Qed.
Lemma nr_app r0 c0 p0 a a' r1 c1 p1 b b' r2 c2 p2 :
  NR r0 c0 p0 a a' r1 c1 p1 -> NR r1 c1 p1 b b' r2 c2 p2 -> NR r0 c0 p0 (a ++ b) (a' ++ b') r2 c2 p2.
Proof. intros Ha Hb rest. rewrite <- !app_assoc, Ha, Hb. reflexivity. Qed.

Definition nonl (t : c10_utok) : bool := match t with UNl => false | _ => true end.
Definition regs_after (regs : list bool) (a : list c10_utok) : list bool := fold_left c10_sc_region a regs.
Definition ce_after (ce : bool) (a : list c10_utok) : bool := fold_left (fun _ t => c10_sc_can_end t) a ce.

Lemma nls_cons_nonl t regs ce pend r : nonl t = true ->
  c10_sc_nls regs ce pend (t :: r) = (if pend && c10_sc_can_begin t then [UNl] else []) ++ t :: c10_sc_nls (c10_sc_region regs t) (c10_sc_can_end t) false r.
Proof. destruct t; try discriminate; reflexivity. Qed.

(* a run without line ends is copied *)
Lemma nr_nonl a : forallb nonl a = true -> forall regs ce, NR regs ce false a a (regs_after regs a) (ce_after ce a) false.
Proof.
  induction a as [|t a IH]; intros H regs ce rest; [reflexivity|]. cbn [forallb] in H. apply andb_true_iff in H as [Ht Ha].
  cbn [app]. rewrite (nls_cons_nonl _ _ _ _ _ Ht). cbn [andb app]. rewrite (IH Ha). reflexivity.
Qed.
(* its first token, when a line end is pending *)
Lemma nr_first t regs ce pend : nonl t = true ->
  NR regs ce pend [t] ((if pend && c10_sc_can_begin t then [UNl] else []) ++ [t]) (c10_sc_region regs t) (c10_sc_can_end t) false.
Proof. intros Ht rest. cbn [app]. rewrite (nls_cons_nonl _ _ _ _ _ Ht), <- app_assoc. reflexivity. Qed.
Lemma nr_nl regs ce pend : NR regs ce pend [UNl] [] regs ce (pend || (ce && c10_sc_enabled regs)).
Proof. intros rest. reflexivity. Qed.
(* line ends where the state absorbs them: nothing can end (after an opening brace), or one is pending already *)
Lemma nr_nls_idle k regs pend : NR regs pend pend (repeat UNl k) [] regs pend pend.
Proof.
  induction k as [|k IH]; intros rest; [reflexivity|]. cbn [repeat app c10_sc_nls]. destruct pend; cbn [orb andb]; apply IH.
Qed.
Lemma nr_nls_pend k regs : c10_sc_enabled regs = true -> NR regs true false (repeat UNl (S k)) [] regs true true.
Proof.
  intros He rest. cbn [repeat app c10_sc_nls]. rewrite He. cbn [orb andb]. apply (nr_nls_idle k regs true).
Qed.

(* balanced runs *)
Definition Bal (a : list c10_utok) : Prop := forall regs, regs_after regs a = regs.
Lemma regs_after_app regs a b : regs_after regs (a ++ b) = regs_after (regs_after regs a) b.
Proof. unfold regs_after. apply fold_left_app. Qed.
Lemma bal_nil : Bal [].
Proof. intros regs. reflexivity. Qed.
Lemma bal_app a b : Bal a -> Bal b -> Bal (a ++ b).
Proof. intros Ha Hb regs. rewrite regs_after_app, Ha, Hb. reflexivity. Qed.
Lemma bal_id n : Bal [UId n].
Proof. intros regs. reflexivity. Qed.
Lemma bal_comma : Bal [UP 44].
Proof. intros regs. reflexivity. Qed.
Lemma bal_wrap o c a : (o = 91 /\ c = 93) \/ (o = 40 /\ c = 41) -> Bal a -> Bal (UP o :: a ++ [UP c]).
Proof.
  intros Hoc Ha regs. change (UP o :: a ++ [UP c]) with ([UP o] ++ a ++ [UP c]). rewrite !regs_after_app, Ha.
  destruct Hoc as [[-> ->]|[-> ->]]; reflexivity.
Qed.

Lemma ce_after_app ce a t : ce_after ce (a ++ [t]) = c10_sc_can_end t.
Proof. unfold ce_after. rewrite fold_left_app. reflexivity. Qed.

(* ================================================================== names *)
Definition nm (n : str) : Prop := c10_sc_kw n = false.

Lemma mem_str_true x l : mem_str x l = true -> In x l.
Proof.
  unfold mem_str. rewrite existsb_exists. intros (y & Hy & E). apply str_eqb_eq in E. subst. exact Hy.
Qed.
Lemma nm_neq n w : nm n -> c10_sc_kw (lit w) = true -> str_eqb n (lit w) = false.
Proof.
  intros Hn Hw. destruct (str_eqb n (lit w)) eqn:E; [|reflexivity]. apply str_eqb_eq in E. subst. unfold nm in Hn. congruence.
Qed.
Lemma nm_not_modifier n : nm n -> mem_str n c10_sc_modifiers = false.
Proof.
  intros Hn. destruct (mem_str n c10_sc_modifiers) eqn:E; [|reflexivity]. apply mem_str_true in E.
  assert (Hall : forallb c10_sc_kw c10_sc_modifiers = true) by (vm_compute; reflexivity).
  rewrite forallb_forall in Hall. specialize (Hall n E). unfold nm in Hn. congruence.
Qed.
Lemma nm_is_name n : nm n -> c10_sc_is_name (UId n) = true.
Proof. intros Hn. cbn [c10_sc_is_name]. unfold nm in Hn. rewrite Hn. reflexivity. Qed.

(* a follower that does not continue a path *)
Definition nodot (rest : list c10_utok) : Prop := match rest with t :: _ => c10_sc_is_p 46 t = false | [] => True end.

Lemma path_stop f rest : nodot rest -> c10_sc_path (S f) rest = Some rest.
Proof. intros H. cbn [c10_sc_path]. destruct rest as [|t r]; [reflexivity|]. cbn [nodot] in H. rewrite H. reflexivity. Qed.
Lemma stable_name n rest : nm n -> nodot rest -> c10_sc_stable (UId n :: rest) = Some rest.
Proof. intros Hn Hr. unfold c10_sc_stable. cbn [c10_sc_eat_name]. rewrite (nm_is_name _ Hn). apply path_stop, Hr. Qed.

(* ================================================================== types *)
Inductive tsort := TTy | TTys.
Inductive Gt : tsort -> list c10_utok -> Prop :=
| Gt_name n : nm n -> Gt TTy [UId n]
| Gt_app n args : nm n -> Gt TTys args -> Gt TTy (UId n :: UP 91 :: args ++ [UP 93])
| Gt_tuple args : Gt TTys args -> Gt TTy (UP 40 :: args ++ [UP 41])
| Gt_one t : Gt TTy t -> Gt TTys t
| Gt_cons t l : Gt TTy t -> Gt TTys l -> Gt TTys (t ++ UP 44 :: l).

Lemma sg_type_unfold f t r : c10_sg (S f) UType (t :: r) =
  if c10_sc_is_p 40 t then match c10_sg f UType r with Some r1 => c10_sg f (UTypesTail 41) r1 | None => None end
  else match c10_sc_stable (t :: r) with
       | Some (t2 :: r2) => if c10_sc_is_p 91 t2
                            then match c10_sg f UType r2 with Some r3 => c10_sg f (UTypesTail 93) r3 | None => None end
                            else Some (t2 :: r2)
       | other => other
       end.
Proof. reflexivity. Qed.
Lemma sg_tail_unfold f closer t r : c10_sg (S f) (UTypesTail closer) (t :: r) =
  if c10_sc_is_p closer t then Some r
  else if c10_sc_is_p 44 t then match c10_sg f UType r with Some r2 => c10_sg f (UTypesTail closer) r2 | None => None end
  else None.
Proof. reflexivity. Qed.

(* followers a type does not swallow *)
Definition tfol (rest : list c10_utok) : Prop :=
  match rest with t :: _ => c10_sc_is_p 46 t = false /\ c10_sc_is_p 91 t = false | [] => True end.
Lemma tfol_up c r : c <> 46 -> c <> 91 -> tfol (UP c :: r).
Proof. intros H1 H2. cbn [tfol c10_sc_is_p]. lia. Qed.

Definition GComplete (s : tsort) (ts : list c10_utok) : Prop :=
  match s with
  | TTy => forall rest f, tfol rest -> (2 * List.length ts + 1 <= f)%nat -> c10_sg f UType (ts ++ rest) = Some rest
  | TTys => forall closer rest f, closer = 93 \/ closer = 41 -> (2 * List.length ts + 1 <= f)%nat ->
              match c10_sg f UType (ts ++ UP closer :: rest) with
              | Some r => c10_sg f (UTypesTail closer) r
              | None => None
              end = Some rest
  end.

Lemma gt_ne s ts : Gt s ts -> ts <> [].
Proof. induction 1; try discriminate; try assumption. destruct t; [congruence|discriminate]. Qed.

Theorem gt_complete s ts : Gt s ts -> GComplete s ts.
Proof.
  induction 1 as [n Hn | n args Hn Hargs IH | args Hargs IH | t Ht IH | t l Ht IHt Hl IHl]; cbn [GComplete] in *.
  - intros rest f Hr Hf. destruct f as [|f]; [cbn in Hf; lia|]. cbn [app]. rewrite sg_type_unfold. cbn [c10_sc_is_p].
    rewrite stable_name; [|exact Hn|destruct rest; [exact I|exact (proj1 Hr)]].
    destruct rest as [|t2 r2]; [reflexivity|]. rewrite (proj2 Hr). reflexivity.
  - intros rest f _ Hf. destruct f as [|f]; [cbn in Hf; lia|]. cbn [app]. rewrite sg_type_unfold. cbn [c10_sc_is_p].
    rewrite stable_name; [|exact Hn|reflexivity]. cbn [c10_sc_is_p]. change (91 =? 91) with true. cbv beta iota.
    rewrite <- app_assoc. cbn [app]. apply IH; [left; reflexivity|]. cbn [List.length] in Hf. rewrite app_length in Hf. cbn [List.length] in Hf. lia.
  - intros rest f _ Hf. destruct f as [|f]; [cbn in Hf; lia|]. cbn [app]. rewrite sg_type_unfold. cbn [c10_sc_is_p].
    change (40 =? 40) with true. cbv beta iota. rewrite <- app_assoc. cbn [app]. apply IH; [right; reflexivity|].
    cbn [List.length] in Hf. rewrite app_length in Hf. cbn [List.length] in Hf. lia.
  - intros closer rest f Hc Hf. rewrite IH; [|apply tfol_up; lia|exact Hf]. destruct f as [|f]; [lia|].
    rewrite sg_tail_unfold. cbn [c10_sc_is_p]. rewrite N.eqb_refl. reflexivity.
  - intros closer rest f Hc Hf. rewrite app_length in Hf. cbn [List.length] in Hf. rewrite <- app_assoc. cbn [app].
    rewrite IHt; [|apply tfol_up; lia|lia]. destruct f as [|f]; [lia|]. rewrite sg_tail_unfold. cbn [c10_sc_is_p].
    replace (44 =? closer) with false by lia. change (44 =? 44) with true. cbv beta iota. apply IHl; [exact Hc|lia].
Qed.

Lemma sc_type_ok t rest : Gt TTy t -> tfol rest -> c10_sc_type (t ++ rest) = Some rest.
Proof. intros H Hr. unfold c10_sc_type. apply (gt_complete _ _ H rest); [exact Hr|]. rewrite app_length. lia. Qed.

(* the tokens of a type: no line end, balanced, the last one can end a statement *)
Lemma gt_shape s ts : Gt s ts -> forallb nonl ts = true /\ Bal ts /\ (s = TTy -> forall ce, ce_after ce ts = true).
Proof.
  induction 1 as [n Hn | n args Hn Hargs (I1 & I2 & _) | args Hargs (I1 & I2 & _) | t Ht (I1 & I2 & _) | t l Ht (I1 & I2 & _) Hl (J1 & J2 & _)].
  - split; [reflexivity|]. split; [apply bal_id|]. intros _ ce. unfold ce_after. cbn [fold_left c10_sc_can_end]. unfold nm in Hn. rewrite Hn. reflexivity.
  - split; [cbn [forallb nonl]; rewrite forallb_app, I1; reflexivity|]. split.
    + change (UId n :: UP 91 :: args ++ [UP 93]) with ([UId n] ++ UP 91 :: args ++ [UP 93]). apply bal_app; [apply bal_id|]. apply bal_wrap; [left; split; reflexivity|exact I2].
    + intros _ ce. change (UId n :: UP 91 :: args ++ [UP 93]) with ((UId n :: UP 91 :: args) ++ [UP 93]). apply ce_after_app.
  - split; [cbn [forallb nonl]; rewrite forallb_app, I1; reflexivity|]. split.
    + apply bal_wrap; [right; split; reflexivity|exact I2].
    + intros _ ce. change (UP 40 :: args ++ [UP 41]) with ((UP 40 :: args) ++ [UP 41]). apply ce_after_app.
  - split; [exact I1|]. split; [exact I2|discriminate].
  - split; [rewrite forallb_app; cbn [forallb nonl]; rewrite I1, J1; reflexivity|]. split; [|discriminate].
    apply bal_app; [exact I2|]. change (UP 44 :: l) with ([UP 44] ++ l). apply bal_app; [apply bal_comma|exact J2].
Qed.

(* a type is copied by the newline automaton and leaves it in "can end, nothing pending" *)
Lemma nr_type t regs ce : Gt TTy t -> NR regs ce false t t regs true false.
Proof.
  intros H. destruct (gt_shape _ _ H) as (H1 & H2 & H3). pose proof (nr_nonl t H1 regs ce) as G. rewrite H2, (H3 eq_refl) in G. exact G.
Qed.

(* comma-separated names: type arguments T, U and the inside of a type-parameter clause *)
Fixpoint names_toks (gs : list str) : list c10_utok :=
  match gs with
  | [] => []
  | [g] => [UId g]
  | g :: r => UId g :: UP 44 :: names_toks r
  end.
Definition gens_toks (gs : list str) : list c10_utok := match gs with [] => [] | _ => UP 91 :: names_toks gs ++ [UP 93] end.

Lemma names_gt gs : gs <> [] -> Forall nm gs -> Gt TTys (names_toks gs).
Proof.
  induction gs as [|g r IH]; [congruence|]. intros _ H. inversion H as [|g0 r0 Hg Hr]; subst. destruct r as [|g2 r].
  - apply Gt_one, Gt_name, Hg.
  - change (names_toks (g :: g2 :: r)) with ([UId g] ++ UP 44 :: names_toks (g2 :: r)). apply Gt_cons; [apply Gt_name, Hg|].
    apply IH; [discriminate|exact Hr].
Qed.

(* a name with optional type arguments is a type *)
Lemma name_args_gt n gs : nm n -> Forall nm gs -> Gt TTy (UId n :: gens_toks gs).
Proof.
  intros Hn Hg. destruct gs as [|g r]; [apply Gt_name, Hn|]. unfold gens_toks. apply Gt_app; [exact Hn|]. apply names_gt; [discriminate|exact Hg].
Qed.

Lemma names_nonl gs : forallb nonl (names_toks gs) = true.
Proof. induction gs as [|g [|g2 r] IH]; [reflexivity|reflexivity|]. exact IH. Qed.
Lemma names_bal gs : Bal (names_toks gs).
Proof.
  induction gs as [|g [|g2 r] IH]; [apply bal_nil|apply bal_id|].
  change (names_toks (g :: g2 :: r)) with ([UId g] ++ [UP 44] ++ names_toks (g2 :: r)). apply bal_app; [apply bal_id|]. apply bal_app; [apply bal_comma|exact IH].
Qed.
Lemma gens_nonl gs : forallb nonl (gens_toks gs) = true.
Proof. destruct gs as [|g r]; [reflexivity|]. unfold gens_toks. cbn [forallb nonl]. rewrite forallb_app, names_nonl. reflexivity. Qed.
Lemma gens_bal gs : Bal (gens_toks gs).
Proof. destruct gs as [|g r]; [apply bal_nil|]. unfold gens_toks. apply bal_wrap; [left; split; reflexivity|apply names_bal]. Qed.

(* [TypeParamClause] *)
Lemma tparams_tail_ok gs : gs <> [] -> Forall nm gs -> forall rest n, (List.length gs <= n)%nat ->
  c10_sc_tparams_tail n (names_toks gs ++ UP 93 :: rest) = Some rest.
Proof.
  induction gs as [|g r IH]; [congruence|]. intros _ H rest n Hn. inversion H as [|g0 r0 Hg Hr]; subst.
  destruct n as [|n]; [cbn in Hn; lia|]. destruct r as [|g2 r].
  - cbn [names_toks app c10_sc_tparams_tail c10_sc_is_p orb]. rewrite (nm_is_name _ Hg). cbn [orb]. change (93 =? 93) with true. reflexivity.
  - change (names_toks (g :: g2 :: r)) with (UId g :: UP 44 :: names_toks (g2 :: r)). cbn [app c10_sc_tparams_tail c10_sc_is_p orb].
    rewrite (nm_is_name _ Hg). cbn [orb]. change (44 =? 93) with false. change (44 =? 44) with true. cbv beta iota.
    apply IH; [discriminate|exact Hr|]. cbn [List.length] in *. lia.
Qed.
Lemma names_len gs : (List.length gs <= List.length (names_toks gs))%nat.
Proof. induction gs as [|g [|g2 r] IH]; cbn [names_toks List.length] in *; lia. Qed.

Lemma tparams_ok gs rest : Forall nm gs -> match rest with t :: _ => c10_sc_is_p 91 t = false | [] => True end ->
  c10_sc_tparams (gens_toks gs ++ rest) = Some rest.
Proof.
  intros Hg Hr. destruct gs as [|g r].
  - cbn [gens_toks app]. unfold c10_sc_tparams. destruct rest as [|t r']; [reflexivity|]. rewrite Hr. reflexivity.
  - unfold gens_toks. cbn [app]. unfold c10_sc_tparams. cbn [c10_sc_is_p]. change (91 =? 91) with true. cbv beta iota.
    rewrite <- app_assoc. cbn [app]. apply tparams_tail_ok; [discriminate|exact Hg|].
    rewrite app_length. pose proof (names_len (g :: r)). lia.
Qed.

(* ================================================================== class parameters *)
Lemma nm_not_in n l : nm n -> forallb c10_sc_kw l = true -> mem_str n l = false.
Proof.
  intros Hn Hall. destruct (mem_str n l) eqn:E; [|reflexivity]. apply mem_str_true in E.
  rewrite forallb_forall in Hall. specialize (Hall n E). unfold nm in Hn. congruence.
Qed.

(* name : type [= default] *)
Definition dflt_toks (d : option str) : list c10_utok := match d with Some x => [UP 61; UId x] | None => [] end.
Definition member_toks (name : str) (tx : list c10_utok) (d : option str) : list c10_utok := UId name :: UP 58 :: tx ++ dflt_toks d.

Lemma annots_none f nlok t r : c10_sc_is_p 64 t = false -> c10_sc_annots (S f) nlok (t :: r) = Some (t :: r).
Proof. intros H. cbn [c10_sc_annots]. rewrite H. reflexivity. Qed.
Lemma mods_name n r : nm n -> c10_sc_mods (UId n :: r) = UId n :: r.
Proof. intros H. cbn [c10_sc_mods c10_sc_is_modifier]. rewrite (nm_not_modifier _ H). reflexivity. Qed.

Lemma expr_name x rest : nm x -> nodot rest -> c10_sc_expr (UId x :: rest) = Some rest.
Proof.
  intros Hx Hr. cbn [c10_sc_expr]. rewrite (nm_not_in x _ Hx) by (vm_compute; reflexivity). apply stable_name; assumption.
Qed.

(* what a member's tokens must do *)
Definition MemberToks (m : list c10_utok) : Prop :=
  (exists n r, m = UId n :: r) /\
  forall c rest, c = 44 \/ c = 41 -> c10_sc_param (m ++ UP c :: rest) = Some (UP c :: rest).

Lemma param_ok name tx d : nm name -> Gt TTy tx -> match d with Some x => nm x | None => True end -> MemberToks (member_toks name tx d).
Proof.
  intros Hn Ht Hd. split; [exists name, (UP 58 :: tx ++ dflt_toks d); reflexivity|]. intros c rest Hc.
  unfold c10_sc_param, member_toks. cbn [app].
  rewrite annots_none by reflexivity. rewrite (mods_name _ _ Hn).
  cbn [c10_sc_is_kw]. rewrite (nm_neq name "val" Hn eq_refl), (nm_neq name "var" Hn eq_refl). cbn [orb].
  cbn [c10_sc_eat_name]. rewrite (nm_is_name _ Hn). cbn [c10_sc_eat c10_sc_is_p]. change (58 =? 58) with true. cbv beta iota.
  rewrite <- app_assoc. rewrite (sc_type_ok tx _ Ht).
  2:{ destruct d; cbn [dflt_toks app]; apply tfol_up; lia. }
  destruct d as [x|]; cbn [dflt_toks app c10_sc_is_p].
  - change (61 =? 61) with true. cbv beta iota. apply expr_name; [exact Hd|]. cbn [nodot c10_sc_is_p]. lia.
  - replace (c =? 61) with false by lia. reflexivity.
Qed.

Fixpoint params_toks (ms : list (list c10_utok)) : list c10_utok :=
  match ms with
  | [] => [UP 41]
  | [m] => m ++ [UP 41]
  | m :: r => m ++ UP 44 :: params_toks r
  end.

Lemma params_ok ms : ms <> [] -> Forall MemberToks ms -> forall rest n, (List.length ms <= n)%nat ->
  c10_sc_params n (params_toks ms ++ rest) = Some rest.
Proof.
  induction ms as [|m r IH]; [congruence|]. intros _ H rest n Hn. inversion H as [|m0 r0 [_ Hm] Hr]; subst.
  destruct n as [|n]; [cbn in Hn; lia|]. destruct r as [|m2 r].
  - cbn [params_toks c10_sc_params]. rewrite <- app_assoc. cbn [app]. rewrite Hm by (right; reflexivity).
    cbn [c10_sc_is_p]. change (41 =? 41) with true. reflexivity.
  - change (params_toks (m :: m2 :: r)) with (m ++ UP 44 :: params_toks (m2 :: r)). cbn [c10_sc_params]. rewrite <- app_assoc. cbn [app].
    rewrite Hm by (left; reflexivity). cbn [c10_sc_is_p]. change (44 =? 41) with false. change (44 =? 44) with true. cbv beta iota.
    apply IH; [discriminate|exact Hr|]. cbn [List.length] in *. lia.
Qed.
Lemma params_len ms : (List.length ms <= List.length (params_toks ms))%nat.
Proof.
  induction ms as [|m [|m2 r] IH]; cbn [params_toks List.length] in *; [lia|rewrite app_length; cbn [List.length]; lia|].
  rewrite app_length. cbn [List.length]. lia.
Qed.
Lemma params_head ms : ms <> [] -> Forall MemberToks ms -> exists n r, params_toks ms = UId n :: r.
Proof.
  destruct ms as [|m r]; [congruence|]. intros _ H. inversion H as [|m0 r0 [(n & x & ->) _] Hr]; subst.
  destruct r; cbn [params_toks app]; eauto.
Qed.

(* no further parameter clause follows *)
Definition cfol (rest : list c10_utok) : Prop :=
  match rest with
  | [] => True
  | t :: r => c10_sc_is_p 40 t = false /\ match t, r with UNl, t2 :: _ => c10_sc_is_p 40 t2 = false | _, _ => True end
  end.
Lemma clauses_stop f rest : cfol rest -> c10_sc_clauses (S f) rest = Some (O, rest).
Proof.
  intros H. destruct rest as [|t r]; [reflexivity|]. destruct H as [H1 H2]. cbn [c10_sc_clauses].
  destruct t; try (rewrite H1; reflexivity). destruct r as [|t2 r2]; [reflexivity|]. rewrite H2. reflexivity.
Qed.
Lemma clauses_one ms rest f : ms <> [] -> Forall MemberToks ms -> cfol rest -> (2 <= f)%nat ->
  c10_sc_clauses f (UP 40 :: params_toks ms ++ rest) = Some (1%nat, rest).
Proof.
  intros Hne Hms Hr Hf. destruct f as [|f]; [lia|]. cbn [c10_sc_clauses c10_sc_is_p]. change (40 =? 40) with true. cbv beta iota.
  destruct (params_head ms Hne Hms) as (n & x & E).
  assert (E2 : params_toks ms ++ rest = UId n :: x ++ rest) by (rewrite E; reflexivity).
  rewrite E2. cbn [c10_sc_is_p]. rewrite <- E2.
  rewrite params_ok; [|exact Hne|exact Hms|rewrite app_length; pose proof (params_len ms); lia].
  destruct f as [|f]; [lia|]. rewrite (clauses_stop f rest Hr). reflexivity.
Qed.

(* ================================================================== statements: unfolding [c10_sq] *)
Definition stat_body (f : nat) (top : bool) (ts1 : list c10_utok) : option (nat * list c10_utok) :=
  let '(cas, ts2) := match ts1 with t3 :: r3 => if c10_sc_is_kw "case" t3 then (true, r3) else (false, ts1) | [] => (false, ts1) end in
  match ts2 with
  | UId k :: r3 =>
    if str_eqb k (lit "class") then
      match c10_sc_eat_name r3 with
      | Some r4 =>
        match c10_sc_tparams r4 with
        | Some r5 =>
          match c10_sc_clauses (S (List.length r5)) r5 with
          | Some (n, r6) => if cas && Nat.eqb n 0 then None
                            else match c10_sq f UTemplateOpt r6 with Some (_, r7) => Some (1%nat, r7) | None => None end
          | None => None
          end
        | None => None
        end
      | None => None
      end
    else if str_eqb k (lit "object") then
      match c10_sc_eat_name r3 with
      | Some r4 => match c10_sq f UTemplateOpt r4 with Some (_, r5) => Some (1%nat, r5) | None => None end
      | None => None
      end
    else if cas then None
    else if str_eqb k (lit "trait") then
      match c10_sc_eat_name r3 with
      | Some r4 => match c10_sc_tparams r4 with
                   | Some r5 => match c10_sq f UTemplateOpt r5 with Some (_, r6) => Some (1%nat, r6) | None => None end
                   | None => None
                   end
      | None => None
      end
    else if top then None
    else if str_eqb k (lit "type") then match c10_sc_typedef r3 with Some r4 => Some (1%nat, r4) | None => None end
    else if str_eqb k (lit "val") || str_eqb k (lit "def") then match c10_sc_valdef r3 with Some r4 => Some (1%nat, r4) | None => None end
    else None
  | _ => None
  end.

Lemma sq_stat_unfold f top t t2 r2 : top && c10_sc_is_kw "package" t = false ->
  c10_sq (S f) (UStat top) (t :: t2 :: r2) =
  match c10_sc_annots (S (List.length (t :: t2 :: r2))) true (t :: t2 :: r2) with
  | None => None
  | Some ts0 => stat_body f top (c10_sc_mods ts0)
  end.
Proof. intros H. cbn [c10_sq]. rewrite H. reflexivity. Qed.

Lemma sq_pkgobj_unfold f r2 : c10_sq (S f) (UStat true) (UId (lit "package") :: UId (lit "object") :: r2) =
  match c10_sc_eat_name r2 with Some r3 => c10_sq f UTemplateOpt r3 | None => None end.
Proof. reflexivity. Qed.
Lemma sq_pkg_unfold f t2 r2 : c10_sc_is_kw "object" t2 = false ->
  c10_sq (S f) (UStat true) (UId (lit "package") :: t2 :: r2) =
  match c10_sc_stable (t2 :: r2) with
  | Some r3 =>
    let r4 := match r3 with UNl :: (t5 :: _) as r5 => if c10_sc_is_p 123 t5 then r5 else r3 | _ => r3 end in
    match c10_sc_eat 123 r4 with Some r5 => c10_sq f (UStats true true) r5 | None => None end
  | None => None
  end.
Proof. intros H. cbn [c10_sq]. change (true && c10_sc_is_kw "package" (UId (lit "package"))) with true. cbv beta iota. rewrite H. reflexivity. Qed.

Lemma sq_stats_unfold f top cl t r : c10_sq (S f) (UStats top cl) (t :: r) =
  if c10_sc_is_p 125 t then (if cl then Some (O, r) else None)
  else if c10_sc_is_sep t then c10_sq f (UStats top cl) r
  else match c10_sq f (UStat top) (t :: r) with
       | Some (n, r1) =>
         if c10_sc_stat_end r1
         then match c10_sq f (UStats top cl) r1 with Some (k, r2) => Some ((n + k)%nat, r2) | None => None end
         else None
       | None => None
       end.
Proof. reflexivity. Qed.

Lemma sq_tmpl_unfold f t r : c10_sq (S f) UTemplateOpt (t :: r) =
  if c10_sc_is_kw "extends" t
  then match r with
       | t2 :: _ => if c10_sc_is_p 123 t2 then c10_sq f UBodyOpt r
                    else match c10_sc_type r with Some r1 => c10_sq f UWiths r1 | None => None end
       | [] => None
       end
  else c10_sq f UBodyOpt (t :: r).
Proof. reflexivity. Qed.
Lemma sq_withs_unfold f t r : c10_sq (S f) UWiths (t :: r) =
  if c10_sc_is_kw "with" t then match c10_sc_type r with Some r1 => c10_sq f UWiths r1 | None => None end
  else c10_sq f UBodyOpt (t :: r).
Proof. reflexivity. Qed.
Lemma sq_body_open f x : c10_sq (S f) UBodyOpt (UP 123 :: x) = c10_sq f (UStats false true) x.
Proof. reflexivity. Qed.

(* what may follow a statement: the end, a closing brace, or a line end and the keyword of the next statement *)
Definition Fol (rest : list c10_utok) : Prop :=
  rest = [] \/ (exists r, rest = UP 125 :: r) \/ (exists k r, rest = UNl :: UId k :: r).

Lemma fol_tfol rest : Fol rest -> tfol rest.
Proof. intros [->|[(r & ->)|(k & r & ->)]]; cbn [tfol c10_sc_is_p]; auto. Qed.
Lemma fol_nodot rest : Fol rest -> nodot rest.
Proof. intros H. apply fol_tfol in H. destruct rest; [exact I|exact (proj1 H)]. Qed.
Lemma fol_cfol rest : Fol rest -> cfol rest.
Proof. intros [->|[(r & ->)|(k & r & ->)]]; cbn [cfol c10_sc_is_p]; auto. Qed.
Lemma fol_stat_end rest : Fol rest -> c10_sc_stat_end rest = true.
Proof. intros [->|[(r & ->)|(k & r & ->)]]; reflexivity. Qed.

Lemma bodyopt_stop f rest : Fol rest -> c10_sq (S f) UBodyOpt rest = Some (O, rest).
Proof. intros [->|[(r & ->)|(k & r & ->)]]; reflexivity. Qed.
Lemma withs_stop f rest : Fol rest -> c10_sq (S (S f)) UWiths rest = Some (O, rest).
Proof. intros [->|[(r & ->)|(k & r & ->)]]; reflexivity. Qed.
Lemma tmpl_stop f rest : Fol rest -> c10_sq (S (S f)) UTemplateOpt rest = Some (O, rest).
Proof. intros [->|[(r & ->)|(k & r & ->)]]; reflexivity. Qed.

(* ================================================================== templates *)
Definition TemplOk (tm : list c10_utok) (n : nat) : Prop :=
  cfol tm /\ (match tm with t :: _ => c10_sc_is_p 91 t = false | [] => True end) /\
  forall f rest, Fol rest -> (2 * List.length tm + 4 <= f)%nat -> c10_sq f UTemplateOpt (tm ++ rest) = Some (n, rest).
(* the inside of a template body, closing brace included *)
Definition BodyOk (body : list c10_utok) (n : nat) : Prop :=
  forall f rest, (2 * List.length body + 3 <= f)%nat -> c10_sq f (UStats false true) (body ++ rest) = Some (n, rest).

Lemma gt_head t : Gt TTy t -> exists t0 r, t = t0 :: r /\ c10_sc_is_p 123 t0 = false.
Proof. intros H. inversion H; subst; eexists; eexists; split; reflexivity. Qed.

Definition kwt (w : string) : c10_utok := UId (lit w).

Lemma templ_ext p : Gt TTy p -> TemplOk (kwt "extends" :: p) O.
Proof.
  intros Hp. split; [split; [reflexivity|exact I]|]. split; [reflexivity|]. intros f rest Hr Hf.
  destruct f as [|f]; [lia|]. cbn [app]. rewrite sq_tmpl_unfold.
  change (c10_sc_is_kw "extends" (kwt "extends")) with true. cbv beta iota.
  destruct (gt_head p Hp) as (t0 & r0 & E & H0). rewrite E. cbn [app]. rewrite H0.
  change (t0 :: r0 ++ rest) with ((t0 :: r0) ++ rest). rewrite <- E.
  rewrite (sc_type_ok p rest Hp (fol_tfol _ Hr)). cbn [List.length] in Hf. destruct f as [|[|f]]; try lia. apply withs_stop, Hr.
Qed.
Lemma templ_body body n : BodyOk body n -> TemplOk (UP 123 :: body) n.
Proof.
  intros Hb. split; [split; [reflexivity|exact I]|]. split; [reflexivity|]. intros f rest Hr Hf. cbn [List.length] in Hf.
  destruct f as [|[|f]]; try lia. cbn [app]. rewrite sq_tmpl_unfold.
  change (c10_sc_is_kw "extends" (UP 123)) with false. cbv beta iota. rewrite sq_body_open. apply Hb. lia.
Qed.
Lemma templ_ext_body p body n : Gt TTy p -> BodyOk body n -> TemplOk (kwt "extends" :: p ++ UP 123 :: body) n.
Proof.
  intros Hp Hb. split; [split; [reflexivity|exact I]|]. split; [reflexivity|]. intros f rest Hr Hf.
  cbn [List.length] in Hf. rewrite app_length in Hf. cbn [List.length] in Hf.
  destruct f as [|f]; [lia|]. cbn [app]. rewrite sq_tmpl_unfold.
  change (c10_sc_is_kw "extends" (kwt "extends")) with true. cbv beta iota.
  destruct (gt_head p Hp) as (t0 & r0 & E & H0). rewrite <- app_assoc. rewrite E. cbn [app]. rewrite H0.
  change (t0 :: r0 ++ UP 123 :: body ++ rest) with ((t0 :: r0) ++ UP 123 :: body ++ rest). rewrite <- E.
  rewrite (sc_type_ok p _ Hp) by (apply tfol_up; lia). cbn [app].
  destruct f as [|[|[|f]]]; try lia. rewrite sq_withs_unfold. change (c10_sc_is_kw "with" (UP 123)) with false. cbv beta iota.
  rewrite sq_body_open. apply Hb. lia.
Qed.
Lemma templ_none : TemplOk [] O.
Proof.
  split; [exact I|]. split; [exact I|]. intros f rest Hr Hf. cbn [List.length] in Hf. destruct f as [|[|f]]; try lia. apply tmpl_stop, Hr.
Qed.

(* ================================================================== the statement forms *)
Definition StatOk (top : bool) (d : list c10_utok) (n : nat) : Prop :=
  (exists k r, d = UId k :: r) /\
  forall f rest, Fol rest -> (2 * List.length d + 4 <= f)%nat -> c10_sq f (UStat top) (d ++ rest) = Some (n, rest).

Ltac evb t := let v := eval vm_compute in t in change t with v.
Ltac evlits :=
  repeat match goal with
         | |- context [str_eqb (lit ?a) (lit ?b)] => evb (str_eqb (lit a) (lit b))
         | |- context [mem_str (lit ?a) c10_sc_modifiers] => evb (mem_str (lit a) c10_sc_modifiers)
         end.
(* open a statement that starts with keyword tokens *)
Ltac stat_start :=
  unfold kwt;
  rewrite sq_stat_unfold by (first [reflexivity | apply andb_false_r]);
  rewrite annots_none by reflexivity;
  cbn [c10_sc_mods c10_sc_is_modifier kwt]; evlits; cbv beta iota;
  unfold stat_body; cbn [c10_sc_is_kw]; evlits; cbv beta iota; cbn [orb andb].

Lemma fol_not91 rest : Fol rest -> match rest with t :: _ => c10_sc_is_p 91 t = false | [] => True end.
Proof. intros [->|[(r & ->)|(k & r & ->)]]; cbn; auto. Qed.

(* type N[G] = T *)
Lemma stat_alias name gs tx : nm name -> Forall nm gs -> Gt TTy tx ->
  StatOk false (kwt "type" :: UId name :: gens_toks gs ++ UP 61 :: tx) 1.
Proof.
  intros Hn Hg Ht. split; [eexists; eexists; reflexivity|]. intros f rest Hr Hf. destruct f as [|f]; [lia|]. cbn [app].
  stat_start. unfold c10_sc_typedef. cbn [c10_sc_eat_name]. rewrite (nm_is_name _ Hn). rewrite <- app_assoc.
  rewrite tparams_ok by (exact Hg || reflexivity). cbn [app c10_sc_eat c10_sc_is_p]. change (61 =? 61) with true. cbv beta iota.
  rewrite (sc_type_ok tx rest Ht (fol_tfol _ Hr)). reflexivity.
Qed.

(* [case] class N[G] (params) template  /  class N template *)
Lemma cfol_app_templ tm rest : TemplOk tm 0 \/ True -> cfol tm -> Fol rest -> cfol (tm ++ rest).
Proof. intros _ Hc Hr. destruct tm as [|t r]; [exact (fol_cfol _ Hr)|]. cbn [app cfol] in *. destruct Hc as [H1 H2]. split; [exact H1|].
  destruct t; try exact I. destruct r as [|t2 r2]; [|exact H2]. cbn [app]. destruct Hr as [->|[(x & ->)|(k & x & ->)]]; cbn; auto. Qed.

Lemma stat_case_class top name gs ms tm n : nm name -> Forall nm gs -> ms <> [] -> Forall MemberToks ms -> TemplOk tm n ->
  StatOk top (kwt "case" :: kwt "class" :: UId name :: gens_toks gs ++ UP 40 :: params_toks ms ++ tm) 1.
Proof.
  intros Hn Hg Hne Hms (Hc & H91 & Htm). split; [eexists; eexists; reflexivity|]. intros f rest Hr Hf. destruct f as [|f]; [lia|]. cbn [app].
  stat_start. cbn [c10_sc_eat_name]. rewrite (nm_is_name _ Hn). repeat (rewrite <- app_assoc; cbn [app]).
  rewrite tparams_ok by (exact Hg || reflexivity).
  rewrite clauses_one; [|exact Hne|exact Hms|apply cfol_app_templ; auto|cbn [List.length]; lia]. cbn [Nat.eqb andb].
  rewrite Htm; [reflexivity|exact Hr|]. cbn [List.length] in Hf. rewrite !app_length in Hf. cbn [List.length] in Hf. rewrite !app_length in Hf. lia.
Qed.

Lemma tparams_none rest : match rest with t :: _ => c10_sc_is_p 91 t = false | [] => True end -> c10_sc_tparams rest = Some rest.
Proof. intros H. exact (tparams_ok [] rest (Forall_nil _) H). Qed.

Lemma app_head_not91 tm rest : match tm with t :: _ => c10_sc_is_p 91 t = false | [] => True end -> Fol rest ->
  match tm ++ rest with t :: _ => c10_sc_is_p 91 t = false | [] => True end.
Proof. intros H Hr. destruct tm; [exact (fol_not91 _ Hr)|exact H]. Qed.

Lemma stat_class top name tm n : nm name -> TemplOk tm n -> StatOk top (kwt "class" :: UId name :: tm) 1.
Proof.
  intros Hn (Hc & H91 & Htm). split; [eexists; eexists; reflexivity|]. intros f rest Hr Hf. destruct f as [|f]; [lia|]. cbn [app].
  stat_start. cbn [c10_sc_eat_name]. rewrite (nm_is_name _ Hn).
  rewrite tparams_none by (apply app_head_not91; assumption).
  rewrite clauses_stop by (apply cfol_app_templ; auto).
  rewrite Htm; [reflexivity|exact Hr|]. cbn [List.length] in Hf. lia.
Qed.

(* [case] object N template *)
Lemma stat_object top (cas : bool) name tm n : nm name -> TemplOk tm n ->
  StatOk top ((if cas then [kwt "case"] else []) ++ kwt "object" :: UId name :: tm) 1.
Proof.
  intros Hn (Hc & H91 & Htm). split; [destruct cas; eexists; eexists; reflexivity|]. intros f rest Hr Hf. destruct f as [|f]; [lia|].
  destruct cas; cbn [app]; stat_start; cbn [c10_sc_eat_name]; rewrite (nm_is_name _ Hn);
    (rewrite Htm; [reflexivity|exact Hr|]); cbn [List.length app] in Hf; lia.
Qed.

(* sealed trait N[G] template *)
Lemma stat_trait top name gs tm n : nm name -> Forall nm gs -> TemplOk tm n ->
  StatOk top (kwt "sealed" :: kwt "trait" :: UId name :: gens_toks gs ++ tm) 1.
Proof.
  intros Hn Hg (Hc & H91 & Htm). split; [eexists; eexists; reflexivity|]. intros f rest Hr Hf. destruct f as [|f]; [lia|]. cbn [app].
  stat_start. cbn [c10_sc_eat_name]. rewrite (nm_is_name _ Hn). rewrite <- app_assoc.
  rewrite tparams_ok by (exact Hg || (apply app_head_not91; assumption)).
  rewrite Htm; [reflexivity|exact Hr|]. cbn [List.length] in Hf. rewrite !app_length in Hf. lia.
Qed.

(* def N: T   /   val N: T = "..." *)
Lemma stat_def name tx : nm name -> Gt TTy tx -> StatOk false (kwt "def" :: UId name :: UP 58 :: tx) 1.
Proof.
  intros Hn Ht. split; [eexists; eexists; reflexivity|]. intros f rest Hr Hf. destruct f as [|f]; [lia|]. cbn [app].
  stat_start. unfold c10_sc_valdef. cbn [c10_sc_eat_name]. rewrite (nm_is_name _ Hn). cbn [c10_sc_eat c10_sc_is_p]. change (58 =? 58) with true. cbv beta iota.
  rewrite (sc_type_ok tx rest Ht (fol_tfol _ Hr)).
  destruct Hr as [->|[(r & ->)|(k & r & ->)]]; reflexivity.
Qed.
Lemma stat_val_str name tx : nm name -> Gt TTy tx -> StatOk false (kwt "val" :: UId name :: UP 58 :: tx ++ [UP 61; UStr]) 1.
Proof.
  intros Hn Ht. split; [eexists; eexists; reflexivity|]. intros f rest Hr Hf. destruct f as [|f]; [lia|]. cbn [app].
  stat_start. unfold c10_sc_valdef. cbn [c10_sc_eat_name]. rewrite (nm_is_name _ Hn). cbn [c10_sc_eat c10_sc_is_p]. change (58 =? 58) with true. cbv beta iota.
  rewrite <- app_assoc. rewrite (sc_type_ok tx _ Ht) by (apply tfol_up; lia). reflexivity.
Qed.

(* ================================================================== statement sequences *)
Fixpoint seq_toks (ds : list (list c10_utok)) : list c10_utok :=
  match ds with
  | [] => []
  | [d] => d
  | d :: r => d ++ UNl :: seq_toks r
  end.
Definition tail_toks (cl : bool) (rest : list c10_utok) : list c10_utok := if cl then UP 125 :: rest else [].
Definition tail_rest (cl : bool) (rest : list c10_utok) : list c10_utok := if cl then rest else [].

Lemma fol_tail cl rest : Fol (tail_toks cl rest).
Proof. destruct cl; [right; left; eexists; reflexivity|left; reflexivity]. Qed.

Lemma stats_end f top cl rest : c10_sq (S f) (UStats top cl) (tail_toks cl rest) = Some (O, tail_rest cl rest).
Proof. destruct cl; reflexivity. Qed.

Theorem stats_ok top cl ds ns : Forall2 (StatOk top) ds ns -> forall f rest, (2 * List.length (seq_toks ds) + 5 <= f)%nat ->
  c10_sq f (UStats top cl) (seq_toks ds ++ tail_toks cl rest) = Some (fold_right plus O ns, tail_rest cl rest).
Proof.
  induction 1 as [|d n ds ns [(k & r & ->) Hd] Hds IH]; intros f rest Hf.
  - destruct f as [|f]; [lia|]. apply stats_end.
  - destruct f as [|f]; [lia|]. destruct ds as [|d2 ds2].
    + inversion Hds; subst. cbn [seq_toks fold_right] in *. cbn [app]. rewrite sq_stats_unfold. cbn [c10_sc_is_p c10_sc_is_sep].
      change (UId k :: r ++ tail_toks cl rest) with ((UId k :: r) ++ tail_toks cl rest).
      rewrite Hd; [|apply fol_tail|cbn [List.length] in *; lia]. rewrite (fol_stat_end _ (fol_tail cl rest)).
      destruct f as [|f]; [cbn [List.length] in *; lia|]. rewrite stats_end. reflexivity.
    + change (seq_toks ((UId k :: r) :: d2 :: ds2)) with ((UId k :: r) ++ UNl :: seq_toks (d2 :: ds2)) in *. rewrite app_length in Hf. cbn [List.length] in Hf.
      rewrite <- app_assoc. cbn [app]. rewrite sq_stats_unfold. cbn [c10_sc_is_p c10_sc_is_sep].
      change (UId k :: r ++ ?x) with ((UId k :: r) ++ x).
      assert (Hfol : Fol (UNl :: seq_toks (d2 :: ds2) ++ tail_toks cl rest)).
      { inversion Hds as [|? ? ? ? [(k2 & r2 & E2) _] _]; subst. right; right. exists k2.
        destruct ds2; cbn [seq_toks app]; eexists; reflexivity. }
      rewrite Hd; [|exact Hfol|cbn [List.length]; lia]. rewrite (fol_stat_end _ Hfol).
      destruct f as [|f]; [lia|]. rewrite sq_stats_unfold. cbn [c10_sc_is_p c10_sc_is_sep].
      rewrite IH by lia. cbn [fold_right]. reflexivity.
Qed.

(* a template body: { members }  *)
Lemma body_ok ds ns : Forall2 (StatOk false) ds ns -> BodyOk (seq_toks ds ++ [UP 125]) (fold_right plus O ns).
Proof.
  intros H f rest Hf. rewrite <- app_assoc. cbn [app]. rewrite app_length in Hf. cbn [List.length] in Hf.
  apply (stats_ok false true ds ns H f rest). lia.
Qed.

(* package last { stats } *)
Lemma stat_packaging last ds ns : nm last -> Forall2 (StatOk true) ds ns ->
  StatOk true (kwt "package" :: UId last :: UP 123 :: seq_toks ds ++ [UP 125]) (fold_right plus O ns).
Proof.
  intros Hn Hds. split; [eexists; eexists; reflexivity|]. intros f rest Hr Hf. destruct f as [|f]; [lia|]. cbn [app]. unfold kwt.
  rewrite sq_pkg_unfold by (cbn [c10_sc_is_kw]; apply (nm_neq last "object" Hn eq_refl)).
  rewrite stable_name by (exact Hn || reflexivity). cbn [c10_sc_eat c10_sc_is_p]. change (123 =? 123) with true. cbv beta iota.
  rewrite <- app_assoc. cbn [app]. cbn [List.length] in Hf. rewrite app_length in Hf. cbn [List.length] in Hf.
  apply (stats_ok true true ds ns Hds f rest). lia.
Qed.

(* package object last { members }: the members are counted *)
Lemma stat_package_object last ds ns : nm last -> Forall2 (StatOk false) ds ns ->
  StatOk true (kwt "package" :: kwt "object" :: UId last :: UP 123 :: seq_toks ds ++ [UP 125]) (fold_right plus O ns).
Proof.
  intros Hn Hds. split; [eexists; eexists; reflexivity|]. intros f rest Hr Hf. destruct f as [|f]; [lia|]. cbn [app]. unfold kwt.
  rewrite sq_pkgobj_unfold. cbn [c10_sc_eat_name]. rewrite (nm_is_name _ Hn).
  destruct (templ_body _ _ (body_ok ds ns Hds)) as (_ & _ & Htm).
  change (UP 123 :: (seq_toks ds ++ [UP 125]) ++ rest) with ((UP 123 :: seq_toks ds ++ [UP 125]) ++ rest).
  apply Htm; [exact Hr|]. cbn [List.length] in *. lia.
Qed.

(* ================================================================== compilation units *)
Fixpoint qual_toks (names : list str) : list c10_utok :=
  match names with
  | [] => []
  | [a] => [UId a]
  | a :: r => UId a :: UP 46 :: qual_toks r
  end.

Lemma path_qual names : Forall nm names -> forall rest f, nodot rest -> (List.length names < f)%nat ->
  c10_sc_path f (flat_map (fun a => [UP 46; UId a]) names ++ rest) = Some rest.
Proof.
  induction 1 as [|a r Ha Hr IH]; intros rest f Hrest Hf; (destruct f as [|f]; [lia|]).
  - apply path_stop, Hrest.
  - cbn [flat_map app c10_sc_path c10_sc_is_p]. change (46 =? 46) with true. cbv beta iota. rewrite (nm_is_name _ Ha).
    apply IH; [exact Hrest|cbn [List.length] in Hf; lia].
Qed.
Lemma qual_flat a r : qual_toks (a :: r) = UId a :: flat_map (fun x => [UP 46; UId x]) r.
Proof. revert a. induction r as [|b r IH]; intros a; [reflexivity|]. change (qual_toks (a :: b :: r)) with (UId a :: UP 46 :: qual_toks (b :: r)). rewrite IH. reflexivity. Qed.
Lemma stable_qual a r rest : nm a -> Forall nm r -> nodot rest -> c10_sc_stable (qual_toks (a :: r) ++ rest) = Some rest.
Proof.
  intros Ha Hr Hrest. rewrite qual_flat. cbn [app]. unfold c10_sc_stable. cbn [c10_sc_eat_name]. rewrite (nm_is_name _ Ha).
  apply path_qual; [exact Hr|exact Hrest|]. rewrite app_length.
  assert (List.length r <= List.length (flat_map (fun x => [UP 46%N; UId x]) r))%nat by (clear; induction r; cbn [flat_map List.length app]; lia). lia.
Qed.

Definition sq_top (ts : list c10_utok) : option nat :=
  match c10_sq (4 * List.length ts + 4)%nat (UStats true false) ts with Some (n, _) => Some n | None => None end.

(* the top-level statements of a unit *)
Lemma top_seq_ok ds ns : Forall2 (StatOk true) ds ns -> sq_top (seq_toks ds) = Some (fold_right plus O ns).
Proof.
  intros H. destruct ds as [|d ds]; [inversion H; subst; reflexivity|].
  unfold sq_top. pose proof (stats_ok true false (d :: ds) ns H (4 * List.length (seq_toks (d :: ds)) + 4)%nat []) as G.
  cbn [tail_toks tail_rest] in G. rewrite app_nil_r in G. rewrite G; [reflexivity|].
  inversion H as [|? ? ? ? [(k & r & E) _] _]; subst.
  assert (1 <= List.length (seq_toks ((UId k :: r) :: ds)))%nat by (destruct ds; cbn [seq_toks List.length app]; lia). lia.
Qed.

(* a unit that starts with a statement keyword other than a package clause *)
Lemma unit_direct f t ts : c10_sc_is_kw "package" t = false -> c10_sc_unit (S f) (t :: ts) = sq_top (t :: ts).
Proof. intros H. cbn [c10_sc_unit]. destruct ts as [|t2 r2]; [reflexivity|]. rewrite H. reflexivity. Qed.
Lemma unit_nil f : c10_sc_unit (S f) [] = Some O.
Proof. reflexivity. Qed.
Lemma unit_pkgobj f r2 : c10_sc_unit (S f) (kwt "package" :: kwt "object" :: r2) = sq_top (kwt "package" :: kwt "object" :: r2).
Proof. reflexivity. Qed.
Lemma unit_packaging f last r2 : nm last ->
  c10_sc_unit (S f) (kwt "package" :: UId last :: UP 123 :: r2) = sq_top (kwt "package" :: UId last :: UP 123 :: r2).
Proof.
  intros Hn. cbn [c10_sc_unit]. unfold kwt. change (c10_sc_is_kw "package" (UId (lit "package"))) with true.
  cbn [c10_sc_is_kw]. rewrite (nm_neq last "object" Hn eq_refl). cbn [negb andb].
  rewrite stable_name by (exact Hn || reflexivity). reflexivity.
Qed.
(* package a.b.c <line end> rest *)
Lemma unit_clause f a r X : nm a -> Forall nm r ->
  c10_sc_unit (S f) (kwt "package" :: qual_toks (a :: r) ++ UNl :: X) = c10_sc_unit f X.
Proof.
  intros Ha Hr. rewrite qual_flat. cbn [app c10_sc_unit]. unfold kwt. change (c10_sc_is_kw "package" (UId (lit "package"))) with true.
  cbn [c10_sc_is_kw]. rewrite (nm_neq a "object" Ha eq_refl). cbn [negb andb].
  change (UId a :: flat_map (fun x => [UP 46; UId x]) r ++ UNl :: X) with ((UId a :: flat_map (fun x => [UP 46; UId x]) r) ++ UNl :: X).
  rewrite <- qual_flat. rewrite stable_qual by (assumption || reflexivity). reflexivity.
Qed.
Lemma unit_clause_only f a r : nm a -> Forall nm r -> c10_sc_unit (S f) (kwt "package" :: qual_toks (a :: r)) = Some O.
Proof.
  intros Ha Hr. destruct r as [|b r].
  - cbn [qual_toks c10_sc_unit]. unfold kwt. change (c10_sc_is_kw "package" (UId (lit "package"))) with true.
    cbn [c10_sc_is_kw]. rewrite (nm_neq a "object" Ha eq_refl). cbn [negb andb]. rewrite stable_name by (exact Ha || exact I). reflexivity.
  - rewrite qual_flat. cbn [flat_map app c10_sc_unit]. unfold kwt. change (c10_sc_is_kw "package" (UId (lit "package"))) with true.
    cbn [c10_sc_is_kw]. rewrite (nm_neq a "object" Ha eq_refl). cbn [negb andb].
    change (UId a :: UP 46 :: UId b :: flat_map (fun x => [UP 46; UId x]) r) with (UId a :: flat_map (fun x => [UP 46; UId x]) (b :: r)).
    rewrite <- qual_flat. rewrite <- (app_nil_r (qual_toks (a :: b :: r))). rewrite stable_qual by (assumption || exact I). reflexivity.
Qed.
