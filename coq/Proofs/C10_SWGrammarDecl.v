(* C10, grammar half for Swift, part 3: DECLARATIONS.  The declaration parser [c10_sw_d] of Spec/C10SwGrammar.v accepts
     - constants (let / var with a type annotation), type aliases, imports, initializers and functions with balanced bodies;
     - case clauses of both enum styles ([CaseToks], [clause_ok]);
     - structs and enums whose body is a sequence of members, each on a line of its own ([MemberOk], [Body], [body_ok]);
     - files: a sequence of declarations, each on a line of its own ([FileToks], [file_ok]).
   Every statement is about a declaration FOLLOWED BY A LINE BREAK (the only follower the layout produces). *)
From Coq Require Import List Bool Lia ZifyBool ZifyN NArith String.
From TS Require Import Model.Str Spec.C10TsGrammar Spec.C10SwGrammar Proofs.C10_SWGrammarParse.
Import ListNotations.
Local Open Scope N_scope.
Local Notation length := List.length (only parsing).

Definition kw (w : string) : c10_wtok := WId (lit w).

(* ------------------------------------------------------------------ line breaks *)
Definition AllNl (l : list c10_wtok) : Prop := Forall (fun t => t = WNl) l.
Lemma allnl_nil : AllNl [].
Proof. constructor. Qed.
Lemma allnl_app a b : AllNl a -> AllNl b -> AllNl (a ++ b).
Proof. intros Ha Hb. apply Forall_app. split; assumption. Qed.
Lemma allnl_one : AllNl [WNl].
Proof. repeat constructor. Qed.

Lemma skipnl_app l x : AllNl l -> c10_sw_is_nl (hd (WP 0) x) = false -> c10_sw_skipnl (l ++ x) = x.
Proof.
  intros H Hx. induction H as [|t l Ht _ IH]; cbn [app].
  - destruct x as [|t r]; [reflexivity|]. cbn [hd] in Hx. destruct t; try reflexivity. discriminate.
  - subst t. cbn [c10_sw_skipnl]. exact IH.
Qed.
Lemma skipnl_all l : AllNl l -> c10_sw_skipnl l = [].
Proof. intros H. rewrite <- (app_nil_r l). apply skipnl_app; [exact H|reflexivity]. Qed.

(* ------------------------------------------------------------------ the dispatcher *)
Definition AccToks (a : list c10_wtok) : Prop := a = [] \/ a = [kw "public"] \/ a = [kw "private"].
Definition acc_kw (k : str) : bool :=
  c10_sw_is_kw "public" (WId k) || c10_sw_is_kw "private" (WId k) || c10_sw_is_kw "fileprivate" (WId k) || c10_sw_is_kw "internal" (WId k) ||
  c10_sw_is_kw "open" (WId k).

Definition decl_kw (f : nat) (ctx : c10_sw_ctx) (k : str) (r : list c10_wtok) : option (list c10_wtok) :=
  if str_eqb k (lit "import") then (if c10_sw_at_top ctx then c10_sw_import_path (S (List.length r)) r else None)
  else if str_eqb k (lit "let") || str_eqb k (lit "var") then c10_sw_let_decl r
  else if str_eqb k (lit "typealias") then c10_sw_alias_decl r
  else if str_eqb k (lit "func") then c10_sw_func_decl r
  else if str_eqb k (lit "init") then (if c10_sw_in_type ctx then c10_sw_init_decl r else None)
  else if str_eqb k (lit "struct")
  then match c10_sw_head r with Some (_, r1) => c10_sw_d f (WMembers CType) r1 | None => None end
  else if str_eqb k (lit "enum")
  then match c10_sw_head r with
       | Some (inh, r1) => c10_sw_d f (WMembers (CEnum (if inh then None else Some false))) r1
       | None => None
       end
  else if str_eqb k (lit "indirect")
  then match r with
       | t2 :: r2 => if c10_sw_is_kw "enum" t2
                     then match c10_sw_head r2 with Some (_, r1) => c10_sw_d f (WMembers (CEnum (Some false))) r1 | None => None end
                     else None
       | [] => None
       end
  else if str_eqb k (lit "extension")
  then if c10_sw_at_top ctx
       then match c10_sw_tyid r with
            | Some r0 => match c10_sw_opt_inherit r0 with
                         | Some (_, r1) => match c10_sw_eat 123 r1 with Some r2 => c10_sw_d f (WMembers CType) r2 | None => None end
                         | None => None
                         end
            | None => None
            end
       else None
  else None.

Lemma decl_unfold f ctx a k r : AccToks a -> acc_kw k = false ->
  c10_sw_d (S f) (WDecl ctx) (a ++ WId k :: r) = decl_kw f ctx k r.
Proof.
  intros Ha Hk.
  assert (E : c10_sw_access (a ++ WId k :: r) = WId k :: r).
  { destruct Ha as [-> | [-> | ->]]; [|reflexivity|reflexivity]. cbn [app c10_sw_access]. unfold acc_kw in Hk. rewrite Hk. reflexivity. }
  assert (Eat : c10_sw_attrs (S (List.length (a ++ WId k :: r))) (a ++ WId k :: r) = Some (a ++ WId k :: r)).
  { destruct Ha as [-> | [-> | ->]]; reflexivity. }
  cbn [c10_sw_d]. rewrite Eat, E. reflexivity.
Qed.

(* ------------------------------------------------------------------ simple declarations *)
Lemma name_not_p t c : c10_sw_is_name t = true -> c10_sw_is_p c t = false.
Proof. destruct t; try discriminate; reflexivity. Qed.
Lemma name_not_nl t : c10_sw_is_name t = true -> c10_sw_is_nl t = false.
Proof. destruct t; try discriminate; reflexivity. Qed.

(* let / var name : type *)
Lemma let_ok name ty rest : c10_sw_is_name name = true -> WGr STy ty ->
  c10_sw_let_decl (name :: WP 58 :: ty ++ WNl :: rest) = Some (WNl :: rest).
Proof.
  intros Hn Hty. unfold c10_sw_let_decl. cbn [c10_sw_eat_name]. rewrite Hn. cbn [c10_sw_eat c10_sw_is_p]. change (58 =? 58) with true. cbv beta iota.
  apply annot_ok; [exact Hty|apply fol_nl].
Qed.

(* typealias name<G> = type *)
Lemma alias_ok name gs ty rest : c10_sw_is_name name = true -> Forall gparam_ok gs -> WGr STy ty ->
  c10_sw_alias_decl (name :: gparams_toks gs ++ WP 61 :: ty ++ WNl :: rest) = Some (WNl :: rest).
Proof.
  intros Hn Hg Hty. unfold c10_sw_alias_decl. cbn [c10_sw_eat_name]. rewrite Hn.
  rewrite (opt_gparams_ok gs (WP 61) _ Hg eq_refl). cbn [c10_sw_eat c10_sw_is_p]. change (61 =? 61) with true. cbv beta iota.
  apply sw_type_ok; [exact Hty|apply fol_nl].
Qed.

(* import a.b *)
Lemma import_one_ok name rest : c10_sw_is_name name = true -> c10_sw_import_path (S (List.length (name :: WNl :: rest))) (name :: WNl :: rest) = Some (WNl :: rest).
Proof. intros Hn. cbn [c10_sw_import_path c10_sw_eat_name]. rewrite Hn. reflexivity. Qed.

(* the effects and the body of an initializer / a function *)
Definition EffToks (e : list c10_wtok) : Prop := e = [] \/ e = [kw "throws"].
Lemma effects_ok e x : EffToks e -> c10_sw_effects (e ++ WP 123 :: x) = WP 123 :: x.
Proof. intros [-> | ->]; reflexivity. Qed.

(* init ( params ) effects { body } *)
Lemma init_ok ps e body rest : Forall ParamToks ps -> EffToks e -> Neu body ->
  c10_sw_init_decl (WP 40 :: params_body ps ++ e ++ WP 123 :: body ++ WP 125 :: rest) = Some rest.
Proof.
  intros Hp He Hb. unfold c10_sw_init_decl. cbn [c10_sw_is_p]. change ((40 =? 63) || (40 =? 33)) with false. cbv beta iota.
  change (c10_sw_opt_gparams (WP 40 :: ?x)) with (Some (WP 40 :: x)). cbv beta iota.
  rewrite (params_ok ps _ Hp), (effects_ok e _ He). unfold c10_sw_code_block. cbn [c10_sw_eat c10_sw_is_p]. change (123 =? 123) with true. cbv beta iota.
  apply block_ok; [auto|exact Hb].
Qed.

(* func name ( params ) effects { body } *)
Lemma func_ok name ps e body rest : c10_sw_is_name name = true -> Forall ParamToks ps -> EffToks e -> Neu body ->
  c10_sw_func_decl (name :: WP 40 :: params_body ps ++ e ++ WP 123 :: body ++ WP 125 :: rest) = Some rest.
Proof.
  intros Hn Hp He Hb. unfold c10_sw_func_decl. cbn [c10_sw_eat_name]. rewrite Hn.
  change (c10_sw_opt_gparams (WP 40 :: ?x)) with (Some (WP 40 :: x)). cbv beta iota.
  rewrite (params_ok ps _ Hp), (effects_ok e _ He). cbv zeta.
  assert (E : match WP 123 :: body ++ WP 125 :: rest with
              | t :: t2 :: r4 => if c10_sw_is_p 45 t && c10_sw_is_p 62 t2 then c10_sw_type r4 else Some (WP 123 :: body ++ WP 125 :: rest)
              | _ => Some (WP 123 :: body ++ WP 125 :: rest)
              end = Some (WP 123 :: body ++ WP 125 :: rest)).
  { destruct (body ++ WP 125 :: rest); reflexivity. }
  rewrite E. cbn [c10_sw_is_p]. change (123 =? 123) with true. cbv beta iota. apply block_ok; [auto|exact Hb].
Qed.

(* name<G>: A, B { *)
Lemma head_ok name gs ids x : c10_sw_is_name name = true -> Forall gparam_ok gs -> Forall (WGr STyId) ids ->
  c10_sw_head (name :: gparams_toks gs ++ inherit_toks ids ++ WP 123 :: x) = Some (has_inherit ids, x).
Proof.
  intros Hn Hg Hi. unfold c10_sw_head. cbn [c10_sw_eat_name]. rewrite Hn.
  assert (E : c10_sw_opt_gparams (gparams_toks gs ++ inherit_toks ids ++ WP 123 :: x) = Some (inherit_toks ids ++ WP 123 :: x)).
  { destruct ids as [|i r]; [exact (opt_gparams_ok gs (WP 123) x Hg eq_refl)|].
    cbn [inherit_toks app]. exact (opt_gparams_ok gs (WP 58) _ Hg eq_refl). }
  rewrite E, (opt_inherit_ok ids 123 x Hi) by lia. cbn [c10_sw_eat c10_sw_is_p]. change (123 =? 123) with true. reflexivity.
Qed.

(* ------------------------------------------------------------------ case clauses *)
(* one case, in an enum of the flavour fl (true: raw-value style, false: union style) *)
Inductive CaseToks (fl : bool) : list c10_wtok -> Prop :=
| C_plain n : c10_sw_is_name n = true -> CaseToks fl [n]
| C_raw n : fl = true -> c10_sw_is_name n = true -> CaseToks fl [n; WP 61; WStr]
| C_tuple n ty : fl = false -> c10_sw_is_name n = true -> WGr STy ty -> CaseToks fl (n :: WP 40 :: ty ++ [WP 41]).

Definition StyleIn (fl : bool) (st : option bool) : Prop := st = None \/ st = Some fl.
(* what may follow a case: not an opening parenthesis, not an equals sign *)
Definition nxt (rest : list c10_wtok) : Prop :=
  match rest with t :: _ => c10_sw_is_p 40 t = false /\ c10_sw_is_p 61 t = false | [] => False end.

Lemma case_ok fl st c rest : CaseToks fl c -> StyleIn fl st -> nxt rest ->
  exists st', StyleIn fl st' /\ c10_sw_case st (c ++ rest) = Some (st', rest).
Proof.
  intros Hc Hst Hr. destruct Hc as [n Hn | n Hfl Hn | n ty Hfl Hn Hty]; unfold c10_sw_case; cbn [app c10_sw_eat_name]; rewrite Hn.
  - destruct rest as [|t r]; [destruct Hr|]. destruct Hr as [H1 H2]. rewrite H1, H2. exists st. split; [exact Hst|reflexivity].
  - subst fl. cbn [c10_sw_is_p]. change (61 =? 40) with false. change (61 =? 61) with true. cbv beta iota.
    replace (c10_sw_style_ok st true) with true by (destruct Hst as [-> | ->]; reflexivity). exists (Some true). split; [right; reflexivity|reflexivity].
  - subst fl. cbn [c10_sw_is_p]. change (40 =? 40) with true. cbv beta iota.
    replace (c10_sw_style_ok st false) with true by (destruct Hst as [-> | ->]; reflexivity).
    pose proof (wgr_head _ _ Hty) as Hh. destruct ty as [|t0 r0]; [destruct Hh|]. cbn [app].
    rewrite (tyhead_not_close _ _ 41 Hh (or_intror eq_refl)).
    change (t0 :: (r0 ++ [WP 41]) ++ rest) with (((t0 :: r0) ++ [WP 41]) ++ rest). rewrite <- app_assoc. cbn [app].
    change (t0 :: r0 ++ WP 41 :: rest) with ((t0 :: r0) ++ WP 41 :: rest).
    rewrite (sw_type_ok (t0 :: r0) (WP 41 :: rest) Hty) by (apply fol_kp; lia).
    cbn [c10_sw_t c10_sw_is_p]. change (41 =? 41) with true. cbv beta iota. exists (Some false). split; [right; reflexivity|reflexivity].
Qed.

(* case { , NL? case } *)
Fixpoint cases_toks (nl : bool) (cs : list (list c10_wtok)) : list c10_wtok :=
  match cs with
  | [] => []
  | [c] => c
  | c :: r => c ++ WP 44 :: (if nl then [WNl] else []) ++ cases_toks nl r
  end.

Lemma case_head fl c : CaseToks fl c -> exists n r, c = n :: r /\ c10_sw_is_name n = true.
Proof. intros [n Hn | n _ Hn | n ty _ Hn _]; eauto. Qed.

Lemma cases_ok fl nl cs : Forall (CaseToks fl) cs -> cs <> [] -> forall st rest f, StyleIn fl st -> (List.length cs <= f)%nat ->
  exists st', StyleIn fl st' /\ c10_sw_cases f st (cases_toks nl cs ++ WNl :: rest) = Some (st', WNl :: rest).
Proof.
  intros H. induction H as [|c r Hc Hr IH]; [congruence|]. intros _ st rest f Hst Hf. destruct f as [|f]; [cbn in Hf; lia|].
  destruct r as [|c2 r].
  - cbn [cases_toks c10_sw_cases]. destruct (case_ok fl st c (WNl :: rest) Hc Hst ltac:(split; reflexivity)) as (st' & Hst' & E).
    rewrite E. exists st'. split; [exact Hst'|reflexivity].
  - change (cases_toks nl (c :: c2 :: r)) with (c ++ WP 44 :: (if nl then [WNl] else []) ++ cases_toks nl (c2 :: r)).
    rewrite <- app_assoc. cbn [app c10_sw_cases].
    destruct (case_ok fl st c (WP 44 :: ((if nl then [WNl] else []) ++ cases_toks nl (c2 :: r)) ++ WNl :: rest) Hc Hst ltac:(split; reflexivity)) as (st1 & Hst1 & E).
    rewrite E. cbn [c10_sw_is_p]. change (44 =? 44) with true. cbv beta iota.
    inversion Hr as [|c2' r' Hc2 _]; subst. destruct (case_head fl c2 Hc2) as (n & q & En & Hn).
    assert (Esk : c10_sw_skipnl (((if nl then [WNl] else []) ++ cases_toks nl (c2 :: r)) ++ WNl :: rest) = cases_toks nl (c2 :: r) ++ WNl :: rest).
    { rewrite <- app_assoc. apply skipnl_app; [destruct nl; [apply allnl_one|apply allnl_nil]|].
      subst c2. destruct r; cbn [cases_toks app hd]; apply name_not_nl, Hn. }
    rewrite Esk. apply IH; [discriminate|exact Hst1|cbn [List.length] in *; lia].
Qed.

Lemma cases_toks_len nl cs : (List.length cs <= S (List.length (cases_toks nl cs)))%nat.
Proof.
  induction cs as [|c r IH]; [cbn; lia|]. destruct r as [|c2 r]; [cbn [cases_toks List.length]; lia|].
  change (cases_toks nl (c :: c2 :: r)) with (c ++ WP 44 :: (if nl then [WNl] else []) ++ cases_toks nl (c2 :: r)).
  rewrite app_length. cbn [List.length] in *. rewrite app_length. lia.
Qed.

(* ------------------------------------------------------------------ members and bodies *)
Definition member_step (f : nat) (ctx : c10_sw_ctx) (ts : list c10_wtok) : option (c10_sw_ctx * list c10_wtok) :=
  if c10_sw_starts_case ts then c10_sw_case_clause ctx ts
  else match c10_sw_d f (WDecl ctx) ts with Some r1 => Some (ctx, r1) | None => None end.

Lemma members_unfold f ctx ts : c10_sw_d (S f) (WMembers ctx) ts =
  match c10_sw_skipnl ts with
  | [] => None
  | t :: r =>
    if c10_sw_is_p 125 t then Some r
    else match member_step f ctx (t :: r) with
         | Some (ctx', t2 :: r2) =>
           if c10_sw_is_p 125 t2 then Some r2
           else if c10_sw_is_nl t2 || c10_sw_is_p 59 t2 then c10_sw_d f (WMembers ctx') r2
           else None
         | _ => None
         end
  end.
Proof. reflexivity. Qed.

Definition hd_ok (m : list c10_wtok) : Prop :=
  match m with t :: _ => c10_sw_is_nl t = false /\ c10_sw_is_p 125 t = false | [] => False end.

(* a member (declaration or case clause) followed by a line break, from every place of P, ends in a place of P *)
Definition MemberOk (P : c10_sw_ctx -> Prop) (m : list c10_wtok) : Prop :=
  hd_ok m /\
  forall ctx, P ctx -> forall rest f, (2 * List.length m + 2 <= f)%nat ->
    exists ctx', P ctx' /\ member_step f ctx (m ++ WNl :: rest) = Some (ctx', WNl :: rest).

Inductive Body (P : c10_sw_ctx -> Prop) : list c10_wtok -> Prop :=
| B_end nls : AllNl nls -> Body P (nls ++ [WP 125])
| B_mem nls m b : AllNl nls -> MemberOk P m -> Body P b -> Body P (nls ++ m ++ WNl :: b).

Lemma body_ok P b : Body P b -> forall ctx, P ctx -> forall rest f, (2 * List.length b + 2 <= f)%nat ->
  c10_sw_d f (WMembers ctx) (b ++ rest) = Some rest.
Proof.
  induction 1 as [nls Hn | nls m b Hn [Hh Hm] Hb IH]; intros ctx Hctx rest f Hf; (destruct f as [|f]; [lia|]); rewrite members_unfold.
  - rewrite <- app_assoc, (skipnl_app nls ([WP 125] ++ rest) Hn eq_refl). reflexivity.
  - rewrite <- !app_assoc. cbn [app].
    rewrite (skipnl_app nls (m ++ WNl :: b ++ rest) Hn) by (destruct m as [|t r]; [destruct Hh|]; exact (proj1 Hh)).
    rewrite !app_length in Hf. cbn [List.length] in Hf.
    destruct (Hm ctx Hctx (b ++ rest) f ltac:(lia)) as (ctx' & Hctx' & Hstep).
    destruct m as [|t r]; [destruct Hh|]. cbn [app] in *. rewrite (proj2 Hh), Hstep. cbn [c10_sw_is_p c10_sw_is_nl orb].
    apply IH; [exact Hctx'|lia].
Qed.

(* a declaration followed by a line break, at every place of P *)
Definition DeclOk (P : c10_sw_ctx -> Prop) (d : list c10_wtok) : Prop :=
  hd_ok d /\ (forall rest, c10_sw_starts_case (d ++ rest) = false) /\
  forall ctx, P ctx -> forall rest f, (2 * List.length d + 2 <= f)%nat -> c10_sw_d f (WDecl ctx) (d ++ WNl :: rest) = Some (WNl :: rest).

Lemma decl_member P d : DeclOk P d -> MemberOk P d.
Proof.
  intros (Hh & Hc & Hd). split; [exact Hh|]. intros ctx Hctx rest f Hf. exists ctx. split; [exact Hctx|].
  unfold member_step. rewrite Hc, (Hd ctx Hctx rest f Hf). reflexivity.
Qed.

(* the places *)
Definition PType (ctx : c10_sw_ctx) : Prop := ctx = CType.
Definition PEnum (fl : bool) (ctx : c10_sw_ctx) : Prop := ctx = CEnum None \/ ctx = CEnum (Some fl).
Definition PTop (ctx : c10_sw_ctx) : Prop := ctx = CTop.
Definition InType (P : c10_sw_ctx -> Prop) : Prop := forall ctx, P ctx -> c10_sw_in_type ctx = true.
Lemma intype_type : InType PType.
Proof. intros ctx ->. reflexivity. Qed.
Lemma intype_enum fl : InType (PEnum fl).
Proof. intros ctx [-> | ->]; reflexivity. Qed.

(* a case clause is a member of an enum body of its flavour *)
Lemma clause_ok fl nl cs : Forall (CaseToks fl) cs -> cs <> [] -> MemberOk (PEnum fl) (kw "case" :: cases_toks nl cs).
Proof.
  intros H Hne. split; [split; reflexivity|]. intros ctx Hctx rest f _.
  assert (Hst : exists st, ctx = CEnum st /\ StyleIn fl st) by (destruct Hctx as [-> | ->]; eexists; split; try reflexivity; [left|right]; reflexivity).
  destruct Hst as (st & -> & Hst).
  destruct (cases_ok fl nl cs H Hne st rest (S (List.length (cases_toks nl cs ++ WNl :: rest))) Hst) as (st' & Hst' & E).
  { rewrite app_length. pose proof (cases_toks_len nl cs). lia. }
  exists (CEnum st'). split; [destruct Hst' as [-> | ->]; [left|right]; reflexivity|].
  unfold member_step. cbn [app c10_sw_starts_case c10_sw_case_clause]. unfold kw.
  change (c10_sw_is_kw "case" (WId (lit "case"))) with true. cbv beta iota. cbn [orb]. rewrite E. reflexivity.
Qed.

(* ------------------------------------------------------------------ declarations, as members / top-level items *)
Lemma acc_hd_ok a k r : AccToks a -> hd_ok (a ++ WId k :: r).
Proof. intros [-> | [-> | ->]]; split; reflexivity. Qed.
Lemma acc_nocase a k r : AccToks a -> c10_sw_is_kw "case" (WId k) = false ->
  c10_sw_is_kw "indirect" (WId k) = false \/ (exists t2 r2, r = t2 :: r2 /\ c10_sw_is_kw "case" t2 = false) ->
  forall rest, c10_sw_starts_case ((a ++ WId k :: r) ++ rest) = false.
Proof.
  intros Ha H1 H2 rest. destruct Ha as [-> | [-> | ->]]; [|reflexivity|reflexivity]. cbn [app c10_sw_starts_case]. rewrite H1. cbn [orb].
  destruct H2 as [H2 | (t2 & r2 & -> & H2)]; [rewrite H2; reflexivity|]. cbn [app]. rewrite H2. apply andb_false_r.
Qed.

Lemma decl_kw_let f ctx r : decl_kw f ctx (lit "let") r = c10_sw_let_decl r.
Proof. reflexivity. Qed.
Lemma decl_kw_alias f ctx r : decl_kw f ctx (lit "typealias") r = c10_sw_alias_decl r.
Proof. reflexivity. Qed.
Lemma decl_kw_func f ctx r : decl_kw f ctx (lit "func") r = c10_sw_func_decl r.
Proof. reflexivity. Qed.
Lemma decl_kw_init f ctx r : decl_kw f ctx (lit "init") r = if c10_sw_in_type ctx then c10_sw_init_decl r else None.
Proof. reflexivity. Qed.
Lemma decl_kw_import f r : decl_kw f CTop (lit "import") r = c10_sw_import_path (S (List.length r)) r.
Proof. reflexivity. Qed.
Lemma decl_kw_struct f ctx r : decl_kw f ctx (lit "struct") r =
  match c10_sw_head r with Some (_, r1) => c10_sw_d f (WMembers CType) r1 | None => None end.
Proof. reflexivity. Qed.
Lemma decl_kw_enum f ctx r : decl_kw f ctx (lit "enum") r =
  match c10_sw_head r with Some (inh, r1) => c10_sw_d f (WMembers (CEnum (if inh then None else Some false))) r1 | None => None end.
Proof. reflexivity. Qed.
Lemma decl_kw_indirect f ctx r2 : decl_kw f ctx (lit "indirect") (kw "enum" :: r2) =
  match c10_sw_head r2 with Some (_, r1) => c10_sw_d f (WMembers (CEnum (Some false))) r1 | None => None end.
Proof. reflexivity. Qed.

Lemma decl_let_ok P a name ty : AccToks a -> c10_sw_is_name name = true -> WGr STy ty -> DeclOk P (a ++ kw "let" :: name :: WP 58 :: ty).
Proof.
  intros Ha Hn Hty. split; [apply acc_hd_ok, Ha|]. split; [apply acc_nocase; [exact Ha|reflexivity|left; reflexivity]|].
  intros ctx _ rest f Hf. destruct f as [|f]; [lia|]. rewrite <- app_assoc. cbn [app]. unfold kw.
  rewrite decl_unfold by (exact Ha || reflexivity). rewrite decl_kw_let. rewrite <- ?app_assoc. apply let_ok; assumption.
Qed.

Lemma decl_alias_ok P a name gs ty : AccToks a -> c10_sw_is_name name = true -> Forall gparam_ok gs -> WGr STy ty ->
  DeclOk P (a ++ kw "typealias" :: name :: gparams_toks gs ++ WP 61 :: ty).
Proof.
  intros Ha Hn Hg Hty. split; [apply acc_hd_ok, Ha|]. split; [apply acc_nocase; [exact Ha|reflexivity|left; reflexivity]|].
  intros ctx _ rest f Hf. destruct f as [|f]; [lia|]. rewrite <- app_assoc. cbn [app]. unfold kw.
  rewrite decl_unfold by (exact Ha || reflexivity). rewrite decl_kw_alias. rewrite <- ?app_assoc. cbn [app]. rewrite <- ?app_assoc. apply alias_ok; assumption.
Qed.

Lemma decl_init_ok P a ps e body : InType P -> AccToks a -> Forall ParamToks ps -> EffToks e -> Neu body ->
  DeclOk P (a ++ kw "init" :: WP 40 :: params_body ps ++ e ++ WP 123 :: body ++ [WP 125]).
Proof.
  intros HP Ha Hp He Hb. split; [apply acc_hd_ok, Ha|]. split; [apply acc_nocase; [exact Ha|reflexivity|left; reflexivity]|].
  intros ctx Hctx rest f Hf. destruct f as [|f]; [lia|]. rewrite <- app_assoc. cbn [app]. unfold kw.
  rewrite decl_unfold by (exact Ha || reflexivity). rewrite decl_kw_init, (HP ctx Hctx).
  rewrite <- ?app_assoc. cbn [app]. rewrite <- ?app_assoc. cbn [app]. apply init_ok; assumption.
Qed.

Lemma decl_func_ok P a name ps e body : AccToks a -> c10_sw_is_name name = true -> Forall ParamToks ps -> EffToks e -> Neu body ->
  DeclOk P (a ++ kw "func" :: name :: WP 40 :: params_body ps ++ e ++ WP 123 :: body ++ [WP 125]).
Proof.
  intros Ha Hn Hp He Hb. split; [apply acc_hd_ok, Ha|]. split; [apply acc_nocase; [exact Ha|reflexivity|left; reflexivity]|].
  intros ctx Hctx rest f Hf. destruct f as [|f]; [lia|]. rewrite <- app_assoc. cbn [app]. unfold kw.
  rewrite decl_unfold by (exact Ha || reflexivity). rewrite decl_kw_func.
  rewrite <- ?app_assoc. cbn [app]. rewrite <- ?app_assoc. cbn [app]. apply func_ok; assumption.
Qed.

Lemma decl_import_ok name : c10_sw_is_name name = true -> DeclOk PTop [kw "import"; name].
Proof.
  intros Hn. split; [split; reflexivity|]. split; [intros rest; reflexivity|].
  intros ctx -> rest f Hf. destruct f as [|f]; [lia|]. cbn [app]. unfold kw.
  pose proof (decl_unfold f CTop [] (lit "import") (name :: WNl :: rest) (or_introl eq_refl) eq_refl) as G. cbn [app] in G. rewrite G, decl_kw_import. apply import_one_ok, Hn.
Qed.

Lemma decl_struct_ok P a name gs ids body : AccToks a -> c10_sw_is_name name = true -> Forall gparam_ok gs -> Forall (WGr STyId) ids ->
  Body PType body -> DeclOk P (a ++ kw "struct" :: name :: gparams_toks gs ++ inherit_toks ids ++ WP 123 :: body).
Proof.
  intros Ha Hn Hg Hi Hb. split; [apply acc_hd_ok, Ha|]. split; [apply acc_nocase; [exact Ha|reflexivity|left; reflexivity]|].
  intros ctx _ rest f Hf. destruct f as [|f]; [lia|]. rewrite <- app_assoc. cbn [app]. unfold kw.
  rewrite decl_unfold by (exact Ha || reflexivity). rewrite decl_kw_struct.
  rewrite <- ?app_assoc. cbn [app]. rewrite (head_ok name gs ids _ Hn Hg Hi).
  apply (body_ok PType body Hb CType eq_refl). rewrite !app_length in Hf. cbn [List.length] in Hf. rewrite !app_length in Hf. cbn [List.length] in Hf. lia.
Qed.

Lemma decl_enum_ok P fl a name gs ids body : AccToks a -> c10_sw_is_name name = true -> Forall gparam_ok gs -> Forall (WGr STyId) ids ->
  ids <> [] -> Body (PEnum fl) body -> DeclOk P (a ++ kw "enum" :: name :: gparams_toks gs ++ inherit_toks ids ++ WP 123 :: body).
Proof.
  intros Ha Hn Hg Hi Hne Hb. split; [apply acc_hd_ok, Ha|]. split; [apply acc_nocase; [exact Ha|reflexivity|left; reflexivity]|].
  intros ctx _ rest f Hf. destruct f as [|f]; [lia|]. rewrite <- app_assoc. cbn [app]. unfold kw.
  rewrite decl_unfold by (exact Ha || reflexivity). rewrite decl_kw_enum.
  rewrite <- ?app_assoc. cbn [app]. rewrite (head_ok name gs ids _ Hn Hg Hi).
  replace (has_inherit ids) with true by (destruct ids; [congruence|reflexivity]).
  apply (body_ok (PEnum fl) body Hb (CEnum None) (or_introl eq_refl)). rewrite !app_length in Hf. cbn [List.length] in Hf. rewrite !app_length in Hf. cbn [List.length] in Hf. lia.
Qed.

Lemma decl_indirect_enum_ok P a name gs ids body : AccToks a -> c10_sw_is_name name = true -> Forall gparam_ok gs -> Forall (WGr STyId) ids ->
  Body (PEnum false) body -> DeclOk P (a ++ kw "indirect" :: kw "enum" :: name :: gparams_toks gs ++ inherit_toks ids ++ WP 123 :: body).
Proof.
  intros Ha Hn Hg Hi Hb. split; [apply acc_hd_ok, Ha|]. split; [apply acc_nocase; [exact Ha|reflexivity|right; eexists; eexists; split; reflexivity]|].
  intros ctx _ rest f Hf. destruct f as [|f]; [lia|]. rewrite <- app_assoc. cbn [app]. unfold kw at 1.
  rewrite decl_unfold by (exact Ha || reflexivity). rewrite decl_kw_indirect.
  rewrite <- ?app_assoc. cbn [app]. rewrite (head_ok name gs ids _ Hn Hg Hi).
  apply (body_ok (PEnum false) body Hb (CEnum (Some false)) (or_intror eq_refl)). rewrite !app_length in Hf. cbn [List.length] in Hf. rewrite !app_length in Hf. cbn [List.length] in Hf. lia.
Qed.

(* ------------------------------------------------------------------ files *)
Inductive FileToks : nat -> list c10_wtok -> Prop :=
| F_end nls : AllNl nls -> FileToks 0 nls
| F_decl n nls d b : AllNl nls -> DeclOk PTop d -> FileToks n b -> FileToks (S n) (nls ++ d ++ WNl :: b).

Lemma file_ok n ts : FileToks n ts -> forall f, (List.length ts < f)%nat -> c10_sw_decls f ts = Some n.
Proof.
  induction 1 as [nls Hn | n nls d b Hn (Hh & _ & Hd) Hb IH]; intros f Hf; (destruct f as [|f]; [lia|]); cbn [c10_sw_decls].
  - rewrite (skipnl_all nls Hn). reflexivity.
  - rewrite (skipnl_app nls (d ++ WNl :: b) Hn) by (destruct d as [|t r]; [destruct Hh|]; exact (proj1 Hh)).
    rewrite !app_length in Hf. cbn [List.length] in Hf.
    destruct (d ++ WNl :: b) as [|t r] eqn:E; [destruct d; discriminate|]. rewrite <- E. unfold c10_sw_decl.
    rewrite (Hd CTop eq_refl b) by (rewrite app_length; cbn [List.length]; lia). cbn [c10_sw_is_nl orb].
    rewrite IH; [reflexivity|]. lia.
Qed.

(* appending: a file followed by a file *)
Lemma file_app n1 a : FileToks n1 a -> forall n2 b, FileToks n2 b -> (n1 = O -> False) \/ True -> FileToks (n1 + n2) (a ++ b).
Proof.
  induction 1 as [nls Hn | n nls d b0 Hn Hd Hb IH]; intros n2 b Hb2 _.
  - cbn [plus]. destruct Hb2 as [nls2 Hn2 | n2 nls2 d2 b2 Hn2 Hd2 Hb2].
    + apply F_end, allnl_app; assumption.
    + rewrite app_assoc. apply F_decl; [apply allnl_app; assumption|exact Hd2|exact Hb2].
  - cbn [plus]. rewrite <- ?app_assoc. cbn [app]. apply F_decl; [exact Hn|exact Hd|]. apply IH; [exact Hb2|right; exact I].
Qed.
