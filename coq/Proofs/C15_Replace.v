(* C15, the std functions the repaired code uses, model against specification:
   str::replace as used by the TypeScript and Python comment writers (Model: replace_sub, leftmost
   non-overlapping, with fuel) against the structural escapes of Spec/C15Spec.v; str::lines and
   str::split(char) (Model/Str.v: accumulator style, as the std iterators) against c15_lines and
   c15_split_at; and what a doc attribute carries: no line break survives. *)
From Coq Require Import List NArith Bool Lia String.
From TS Require Import Model.Str Model.Unicode Model.Syntax Model.Attrs Spec.Lexers Spec.C15Spec.
From TS Require Import Model.Lang.TypeScript Model.Lang.Python.
Import ListNotations.
Local Open Scope N_scope.

(* ================= str::replace ================= *)
(* a pattern that does not occur: nothing changes *)
Lemma replace_sub_fuel_absent f p t s : p <> [] -> contains_sub p s = false -> replace_sub_fuel f p t s = s.
Proof.
  intros Hp. revert s. induction f as [|f IH]; intros s H; [reflexivity|].
  cbn [replace_sub_fuel]. destruct s as [|c r]; [reflexivity|].
  cbn [contains_sub] in H. apply orb_false_iff in H as [H1 H2]. rewrite H1. f_equal. now apply IH.
Qed.
Lemma replace_sub_absent p t s : contains_sub p s = false -> replace_sub p t s = s.
Proof.
  intros H. unfold replace_sub. destruct p as [|x p]; [reflexivity|].
  apply replace_sub_fuel_absent; [discriminate|exact H].
Qed.

(* TypeScript: replace star slash by star backslash slash = a backslash between every star and the slash after it *)
Lemma ts_escape_fuel f s : (List.length s < f)%nat ->
  replace_sub_fuel f [ch_star; ch_slash] [ch_star; ch_bs; ch_slash] s = c15_esc_ts s.
Proof.
  revert s. induction f as [|f IH]; intros s H; [lia|].
  cbn [replace_sub_fuel]. destruct s as [|c r]; [reflexivity|].
  cbn [List.length] in H. cbn [c15_esc_ts]. rewrite (N.eqb_sym c ch_star).
  change (starts_with [ch_star; ch_slash] (c :: r)) with ((ch_star =? c) && starts_with [ch_slash] r).
  destruct ((ch_star =? c) && starts_with [ch_slash] r) eqn:E.
  - apply andb_true_iff in E as [E1 E2]. apply N.eqb_eq in E1. subst c.
    destruct r as [|c2 r2]; [discriminate|]. cbn [starts_with] in E2. rewrite andb_true_r in E2. apply N.eqb_eq in E2. subst c2.
    cbn [List.length skipn app]. cbn [List.length] in H. rewrite IH by lia.
    cbn [c15_esc_ts]. replace (ch_slash =? ch_star) with false by reflexivity. reflexivity.
  - f_equal. apply IH. lia.
Qed.
Theorem ts_escape_comment_spec d : ts_escape_comment d = c15_esc_ts d.
Proof. unfold ts_escape_comment, replace_sub. change (lit "*/") with [ch_star; ch_slash]. apply ts_escape_fuel. lia. Qed.

(* Python: replace three quotes by three escaped quotes, leftmost first *)
Lemma py_escape_fuel f s : (List.length s < f)%nat ->
  replace_sub_fuel f [ch_dq; ch_dq; ch_dq] [ch_bs; ch_dq; ch_bs; ch_dq; ch_bs; ch_dq] s = c15_esc_py s.
Proof.
  revert s. induction f as [|f IH]; intros s H; [lia|].
  cbn [replace_sub_fuel]. destruct s as [|c r]; [reflexivity|].
  cbn [List.length] in H. destruct r as [|c2 [|c3 r3]].
  - cbn [starts_with c15_esc_py]. rewrite andb_false_r. rewrite IH by (cbn; lia). reflexivity.
  - cbn [starts_with c15_esc_py]. rewrite !andb_false_r. rewrite IH by (cbn [List.length] in *; lia). reflexivity.
  - cbn [starts_with c15_esc_py]. rewrite andb_true_r.
    rewrite (N.eqb_sym ch_dq c), (N.eqb_sym ch_dq c2), (N.eqb_sym ch_dq c3), andb_assoc.
    destruct ((c =? ch_dq) && (c2 =? ch_dq) && (c3 =? ch_dq)).
    + cbn [List.length skipn]. cbn [List.length] in H. rewrite IH by lia. reflexivity.
    + rewrite IH by (cbn [List.length] in *; lia). reflexivity.
Qed.
Theorem py_escape_docstring_spec d : py_escape_docstring d = c15_esc_py d.
Proof. unfold py_escape_docstring, replace_sub. apply py_escape_fuel. lia. Qed.

(* on a string without the terminator the escapes are the identity *)
Lemma ts_escape_comment_id d : contains_sub [ch_star; ch_slash] d = false -> ts_escape_comment d = d.
Proof. apply replace_sub_absent. Qed.
Lemma py_escape_docstring_id d : contains_sub [ch_dq; ch_dq; ch_dq] d = false -> py_escape_docstring d = d.
Proof. apply replace_sub_absent. Qed.
Lemma map_id_on {A} (f : A -> A) l : (forall x, In x l -> f x = x) -> map f l = l.
Proof. induction l as [|x r IH]; intros H; [reflexivity|]. cbn [map]. rewrite H by now left. f_equal. apply IH. intros y Hy. apply H. now right. Qed.

(* ================= str::lines, str::split(char): Model/Str.v against Spec/C15Spec.v ================= *)
Definition c15_no_lf (s : str) : bool := forallb (fun x => negb (x =? ch_nl)) s.

(* one CR at the very end removed *)
Fixpoint c15_chop_cr (a : str) : str :=
  match a with
  | [] => []
  | c :: r => match r with [] => if c =? ch_cr then [] else [c] | _ => c :: c15_chop_cr r end
  end.

Lemma strip_suffix_char_last c a x : strip_suffix_char c (a ++ [x]) = if x =? c then Some a else None.
Proof. unfold strip_suffix_char. rewrite rev_app_distr. cbn [rev app]. now rewrite rev_involutive. Qed.

Lemma c15_chop_cr_last a x : c15_chop_cr (a ++ [x]) = if x =? ch_cr then a else a ++ [x].
Proof.
  induction a as [|c a IH]; [reflexivity|].
  cbn [app c15_chop_cr]. destruct (a ++ [x]) eqn:E; [destruct a; discriminate|]. rewrite IH.
  now destruct (x =? ch_cr).
Qed.

Lemma lines_map_lf a : lines_map (a ++ [ch_nl]) = c15_chop_cr a.
Proof.
  unfold lines_map. rewrite strip_suffix_char_last. change (ch_nl =? ch_nl) with true. cbv iota.
  destruct a as [|c a _] using rev_ind; [reflexivity|].
  rewrite strip_suffix_char_last, c15_chop_cr_last. now destruct (c =? ch_cr).
Qed.

Lemma lines_map_no_lf a x : (x =? ch_nl) = false -> lines_map (a ++ [x]) = a ++ [x].
Proof. intros H. unfold lines_map. now rewrite strip_suffix_char_last, H. Qed.

Lemma c15_lines_no_lf s : s <> [] -> c15_no_lf s = true -> c15_lines s = [s].
Proof.
  induction s as [|c r IH]; [congruence|]. intros _ H. cbn [c15_no_lf forallb] in H. apply andb_true_iff in H as [Hc Hr].
  apply negb_true_iff in Hc. cbn [c15_lines]. rewrite Hc. destruct r as [|c2 r2]; [reflexivity|].
  pose proof Hr as Hr'. cbn [forallb] in Hr'. apply andb_true_iff in Hr' as [Hc2 _]. apply negb_true_iff in Hc2.
  rewrite Hc2, andb_false_r. rewrite IH; [reflexivity|discriminate|exact Hr].
Qed.

(* a line without LF, then LF *)
Lemma c15_lines_line a r : c15_no_lf a = true -> c15_lines (a ++ ch_nl :: r) = c15_chop_cr a :: c15_lines r.
Proof.
  induction a as [|c a IH]; intros H; [reflexivity|].
  cbn [c15_no_lf forallb] in H. apply andb_true_iff in H as [Hc Ha]. apply negb_true_iff in Hc.
  cbn [app c15_lines]. rewrite Hc. destruct a as [|c2 a2].
  - cbn [app]. change (ch_nl =? ch_nl) with true. rewrite andb_true_r. cbn [c15_chop_cr].
    destruct (c =? ch_cr); [reflexivity|]. change (c15_lines (ch_nl :: r)) with ([] :: c15_lines r). reflexivity.
  - pose proof Ha as Ha'. cbn [forallb] in Ha'. apply andb_true_iff in Ha' as [Hc2 _]. apply negb_true_iff in Hc2.
    cbn [app]. rewrite Hc2, andb_false_r. change (c2 :: a2 ++ ch_nl :: r) with ((c2 :: a2) ++ ch_nl :: r).
    rewrite (IH Ha). reflexivity.
Qed.

Lemma c15_no_lf_app a b : c15_no_lf (a ++ b) = c15_no_lf a && c15_no_lf b.
Proof. apply forallb_app. Qed.

Lemma split_inclusive_lines s : forall cur, c15_no_lf (rev cur) = true ->
  map lines_map (split_inclusive_nl_from cur s) = c15_lines (rev cur ++ s).
Proof.
  induction s as [|c r IH]; intros cur H.
  - rewrite app_nil_r. cbn [split_inclusive_nl_from]. destruct cur as [|x cur]; [reflexivity|].
    cbn [map]. cbn [rev] in *. rewrite c15_no_lf_app in H. apply andb_true_iff in H as [H1 H2].
    cbn [c15_no_lf forallb] in H2. rewrite andb_true_r in H2. apply negb_true_iff in H2.
    rewrite lines_map_no_lf by exact H2. rewrite c15_lines_no_lf; [reflexivity|now destruct (rev cur)|].
    rewrite c15_no_lf_app, H1. cbn [c15_no_lf forallb]. now rewrite H2.
  - cbn [split_inclusive_nl_from]. destruct (c =? ch_nl) eqn:E.
    + apply N.eqb_eq in E. subst c. cbn [map rev]. rewrite lines_map_lf, (IH [] eq_refl). cbn [rev app].
      now rewrite c15_lines_line.
    + rewrite IH.
      * cbn [rev]. now rewrite <- app_assoc.
      * cbn [rev]. rewrite c15_no_lf_app, H. cbn [c15_no_lf forallb]. now rewrite E.
Qed.

Theorem str_lines_spec s : str_lines s = c15_lines s.
Proof. unfold str_lines, split_inclusive_nl. now rewrite split_inclusive_lines. Qed.

Lemma split_char_from_spec c s : forall cur,
  exists l ls, c15_split_at c s = l :: ls /\ split_char_from c cur s = (rev cur ++ l) :: ls.
Proof.
  induction s as [|x r IH]; intros cur.
  - exists [], []. split; [reflexivity|]. cbn. now rewrite app_nil_r.
  - cbn [c15_split_at split_char_from]. destruct (x =? c).
    + destruct (IH []) as (l & ls & E1 & E2). exists [], (l :: ls). rewrite E1, E2, app_nil_r. split; reflexivity.
    + destruct (IH (x :: cur)) as (l & ls & E1 & E2). exists (x :: l), ls. rewrite E1, E2. split; [reflexivity|].
      cbn [rev]. now rewrite <- app_assoc.
Qed.
Theorem split_char_spec c s : split_char c s = c15_split_at c s.
Proof. unfold split_char. destruct (split_char_from_spec c s []) as (l & ls & E1 & E2). now rewrite E1, E2. Qed.

(* ================= the front end: what a doc attribute carries ================= *)
Theorem doc_entries_carried uc v : doc_entries uc (trim uc v) = c15_carried uc v.
Proof.
  unfold doc_entries, c15_carried. destruct (trim uc v) as [|c t]; [reflexivity|].
  rewrite str_lines_spec. f_equal. apply flat_map_ext. intros l. apply split_char_spec.
Qed.

(* ---- no carried line contains a line break ---- *)
Lemma c15_prepend_Forall (P : str -> Prop) c ls :
  (forall l, P l -> P (c :: l)) -> P [c] -> Forall P ls -> Forall P (c15_prepend c ls).
Proof. intros H1 H2 H. destruct H as [|l r Hl Hr]; cbn [c15_prepend]; constructor; auto. Qed.

Lemma c15_lines_pieces_no_lf t : Forall (fun l => c15_no_lf l = true) (c15_lines t) /\
  forall c, Forall (fun l => c15_no_lf l = true) (c15_lines (c :: t)).
Proof.
  induction t as [|x r [IH1 IH2]].
  - split; [constructor|]. intros c. cbn [c15_lines]. destruct (c =? ch_nl) eqn:E; repeat constructor.
    cbn [c15_no_lf forallb]. now rewrite E.
  - split; [apply IH2|]. intros c. cbn [c15_lines]. destruct (c =? ch_nl) eqn:E; [constructor; [reflexivity|apply IH2]|].
    destruct ((c =? ch_cr) && (x =? ch_nl)); [constructor; [reflexivity|exact IH1]|].
    apply c15_prepend_Forall; [| |apply IH2].
    + intros l Hl. cbn [c15_no_lf forallb]. rewrite E. exact Hl.
    + cbn [c15_no_lf forallb]. now rewrite E.
Qed.

Lemma c15_split_at_forall (P : char -> bool) c s : forallb P s = true ->
  Forall (fun l => forallb P l = true) (c15_split_at c s).
Proof.
  induction s as [|x r IH]; intros H; [repeat constructor|].
  cbn [forallb] in H. apply andb_true_iff in H as [Hx Hr]. cbn [c15_split_at].
  destruct (x =? c); [constructor; [reflexivity|now apply IH]|].
  apply c15_prepend_Forall; [| |now apply IH].
  - intros l Hl. cbn [forallb]. now rewrite Hx.
  - cbn [forallb]. now rewrite Hx.
Qed.
Lemma c15_split_at_none c s : Forall (fun l => forallb (fun x => negb (x =? c)) l = true) (c15_split_at c s).
Proof.
  induction s as [|x r IH]; [repeat constructor|]. cbn [c15_split_at].
  destruct (x =? c) eqn:E; [constructor; [reflexivity|exact IH]|].
  apply c15_prepend_Forall; [| |exact IH].
  - intros l Hl. cbn [forallb]. now rewrite E.
  - cbn [forallb]. now rewrite E.
Qed.

Lemma forallb_rev {A} (P : A -> bool) s : forallb P s = true -> forallb P (rev s) = true.
Proof. rewrite !forallb_forall. intros H x Hx. apply H. now apply in_rev. Qed.
Lemma forallb_trim_start uc (P : char -> bool) s : forallb P s = true -> forallb P (trim_start uc s) = true.
Proof.
  induction s as [|c r IH]; intros H; [reflexivity|]. cbn [trim_start]. destruct (u_is_ws uc c); [|exact H].
  cbn [forallb] in H. apply andb_true_iff in H as [_ H]. now apply IH.
Qed.
Lemma forallb_trim uc (P : char -> bool) s : forallb P s = true -> forallb P (trim uc s) = true.
Proof. intros H. unfold trim. now apply forallb_rev, forallb_trim_start, forallb_rev, forallb_trim_start. Qed.

(* every carried line is free of LF and CR: it stays inside a line comment of every language (the reference
   lexers of Spec/Lexers.v end a line comment at LF and CR only - Go: LF only) *)
Theorem c15_carried_no_break uc v d : In d (c15_carried uc v) -> safe_line eol_lf_cr d = true.
Proof.
  unfold c15_carried. destruct (trim uc v) as [|c t] eqn:E.
  - intros [<-|[]]. reflexivity.
  - intros H. apply in_map_iff in H as (l & <- & Hl). apply in_flat_map in Hl as (line & Hline & Hl).
    unfold safe_line. apply forallb_trim.
    pose proof (proj2 (c15_lines_pieces_no_lf t) c) as H1. rewrite Forall_forall in H1. specialize (H1 _ Hline).
    pose proof (c15_split_at_forall _ ch_cr _ H1) as H2. rewrite Forall_forall in H2. specialize (H2 _ Hl).
    pose proof (c15_split_at_none ch_cr line) as H3. rewrite Forall_forall in H3. specialize (H3 _ Hl).
    rewrite forallb_forall in *. intros x Hx. specialize (H2 x Hx). specialize (H3 x Hx).
    unfold eol_lf_cr. apply negb_true_iff in H2, H3. now rewrite H2, H3.
Qed.
