(* C10: post-conditions over the state-passing printing monad of Model/Lang/Common.v (Go, Swift, Python). *)
From Coq Require Import List.
From TS Require Import Model.Str Model.Outcome Model.Lang.Common Proofs.BackCommon.
Import ListNotations.

Section Post.
Context {St : Type} (Inv : St -> Prop).
(* running m from a state satisfying Inv gives a result satisfying P and a state satisfying Inv *)
Definition post {A} (P : A -> Prop) (m : M St A) : Prop :=
  forall s y s', m s = Ok (y, s') -> Inv s -> P y /\ Inv s'.
Lemma post_ret {A} (P : A -> Prop) a : P a -> post P (ret a).
Proof. intros Ha s y s' H Hs. unfold ret in H. injection H as <- <-. auto. Qed.
Lemma post_bind {A B} (P : A -> Prop) (Q : B -> Prop) m f : post P m -> (forall a, P a -> post Q (f a)) -> post Q (mbind m f).
Proof.
  intros Hm Hf s y s' H Hs. apply mbind_ok in H as (a & s1 & Ha & H). destruct (Hm _ _ _ Ha Hs) as [Pa Hs1]. exact (Hf a Pa _ _ _ H Hs1).
Qed.
Lemma post_weaken {A} (P Q : A -> Prop) m : (forall a, P a -> Q a) -> post P m -> post Q m.
Proof. intros HPQ Hm s y s' H Hs. destruct (Hm _ _ _ H Hs). auto. Qed.
Lemma post_mmapM {A B} (f : A -> M St B) (Q : A -> Prop) (P : B -> Prop) :
  (forall x, Q x -> post P (f x)) -> forall l, Forall Q l -> post (Forall P) (mmapM f l).
Proof.
  intros Hf l HQ. induction HQ as [|x l Hx Hl IH]; cbn [mmapM].
  - apply post_ret. constructor.
  - eapply post_bind; [exact (Hf x Hx)|]. intros y Py. eapply post_bind; [exact IH|]. intros ys Pys. apply post_ret. constructor; auto.
Qed.
Lemma post_fail {A} (P : A -> Prop) e : post P (fail e).
Proof. intros s y s' H. discriminate. Qed.
Lemma post_mpanic {A} (P : A -> Prop) site : post P (mpanic site).
Proof. intros s y s' H. discriminate. Qed.
Lemma post_mget (P : St -> Prop) : (forall s, Inv s -> P s) -> post P mget.
Proof. intros HP s y s' H Hs. unfold mget in H. injection H as <- <-. auto. Qed.
Lemma post_mput s0 : Inv s0 -> post (fun _ => True) (mput s0).
Proof. intros H0 s y s' H Hs. unfold mput in H. injection H as _ <-. auto. Qed.
End Post.
