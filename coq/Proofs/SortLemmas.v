(* Order-independence lemmas: str_ltb is a strict total order; the stable insertion sort of
   Model/Reconcile.v returns a sorted permutation of its input, hence (with pairwise distinct keys)
   a result that depends only on the set of elements; find/existsb under permutation. *)
From Coq Require Import List Bool Lia Permutation Sorted NArith ZifyBool ZifyN.
From TS Require Import Model.Str Model.Reconcile.
Import ListNotations.
Local Open Scope N_scope.

(* ---------- str_ltb is a strict total order on strings (lexicographic on code points) ---------- *)

Lemma str_ltb_irrefl : forall a, str_ltb a a = false.
Proof.
  induction a as [|x a IH]; simpl; [reflexivity|].
  rewrite N.ltb_irrefl, N.eqb_refl, IH. reflexivity.
Qed.

Lemma str_ltb_cons_iff : forall x y a b,
  str_ltb (x :: a) (y :: b) = true <-> (x < y \/ (x = y /\ str_ltb a b = true)).
Proof.
  intros x y a b. simpl.
  rewrite orb_true_iff, andb_true_iff, N.ltb_lt, N.eqb_eq. reflexivity.
Qed.

Lemma str_ltb_trans : forall a b c, str_ltb a b = true -> str_ltb b c = true -> str_ltb a c = true.
Proof.
  induction a as [|x a IH]; intros [|y b] [|z c]; try (simpl; congruence).
  rewrite !str_ltb_cons_iff.
  intros [H|[H H']] [G|[G G']]; subst.
  - left. lia.
  - left. assumption.
  - left. assumption.
  - right. split; [reflexivity|]. eapply IH; eassumption.
Qed.

Lemma str_ltb_asym : forall a b, str_ltb a b = true -> str_ltb b a = false.
Proof.
  intros a b H. destruct (str_ltb b a) eqn:E; [|reflexivity].
  pose proof (str_ltb_trans _ _ _ H E) as K. rewrite str_ltb_irrefl in K. discriminate.
Qed.

Lemma str_ltb_total : forall a b, a <> b -> str_ltb a b = true \/ str_ltb b a = true.
Proof.
  induction a as [|x a IH]; intros [|y b] Hne.
  - contradiction Hne. reflexivity.
  - left. reflexivity.
  - right. reflexivity.
  - rewrite !str_ltb_cons_iff.
    destruct (N.lt_trichotomy x y) as [H|[H|H]].
    + left. left. assumption.
    + subst y. assert (Hab : a <> b) by (intros ->; apply Hne; reflexivity).
      destruct (IH b Hab) as [K|K].
      * left. right. split; [reflexivity|assumption].
      * right. right. split; [reflexivity|assumption].
    + right. left. assumption.
Qed.

(* ---------- the insertion sort ---------- *)

Section Sorting.
  Context {A : Type} (key : A -> str).

  (* "a may stand before b" / "a stands strictly before b" *)
  Definition key_le (a b : A) : Prop := str_ltb (key b) (key a) = false.
  Definition key_lt (a b : A) : Prop := str_ltb (key a) (key b) = true.

  Lemma insert_stable_perm : forall x l, Permutation (insert_stable key x l) (x :: l).
  Proof.
    intros x l. induction l as [|y r IH]; simpl.
    - apply Permutation_refl.
    - destruct (str_ltb (key x) (key y)).
      + apply Permutation_refl.
      + eapply perm_trans; [apply perm_skip; exact IH|]. apply perm_swap.
  Qed.

  Lemma fold_insert_perm : forall l acc,
    Permutation (fold_left (fun acc x => insert_stable key x acc) l acc) (acc ++ l).
  Proof.
    induction l as [|x l IH]; intros acc; simpl.
    - rewrite app_nil_r. apply Permutation_refl.
    - eapply perm_trans; [apply IH|].
      eapply perm_trans; [apply Permutation_app_tail; apply insert_stable_perm|].
      simpl. apply Permutation_middle.
  Qed.

  Lemma insert_stable_sorted : forall x l,
    StronglySorted key_le l -> StronglySorted key_le (insert_stable key x l).
  Proof.
    intros x l. induction l as [|y r IH]; intros Hs; simpl.
    - constructor; constructor.
    - apply StronglySorted_inv in Hs as [Hr Hy].
      destruct (str_ltb (key x) (key y)) eqn:E.
      + constructor.
        * constructor; assumption.
        * constructor.
          -- unfold key_le. apply str_ltb_asym. exact E.
          -- rewrite Forall_forall in *. intros z Hz. specialize (Hy z Hz).
             unfold key_le in *.
             destruct (str_ltb (key z) (key x)) eqn:F; [|reflexivity].
             rewrite (str_ltb_trans _ _ _ F E) in Hy. discriminate.
      + constructor.
        * apply IH. exact Hr.
        * rewrite Forall_forall in *. intros z Hz.
          apply (Permutation_in _ (insert_stable_perm x r)) in Hz.
          destruct Hz as [<-|Hz].
          -- exact E.
          -- apply Hy. exact Hz.
  Qed.

  Lemma fold_insert_sorted : forall l acc,
    StronglySorted key_le acc ->
    StronglySorted key_le (fold_left (fun acc x => insert_stable key x acc) l acc).
  Proof.
    induction l as [|x l IH]; intros acc Hs; simpl.
    - exact Hs.
    - apply IH. apply insert_stable_sorted. exact Hs.
  Qed.

  Lemma stable_sort_sorted : forall l, StronglySorted key_le (stable_sort key l).
  Proof. intros l. unfold stable_sort. apply fold_insert_sorted. constructor. Qed.

  Lemma stable_sort_perm_aux : forall l, Permutation (stable_sort key l) l.
  Proof. intros l. unfold stable_sort. apply (fold_insert_perm l []). Qed.

  (* sorted + pairwise distinct keys => strictly sorted *)
  Lemma sorted_nodup_strict : forall l,
    StronglySorted key_le l -> NoDup (map key l) -> StronglySorted key_lt l.
  Proof.
    induction l as [|a l IH]; intros Hs Hn.
    - constructor.
    - apply StronglySorted_inv in Hs as [Hl Ha].
      simpl in Hn. inversion Hn as [|k ks Hnotin Hn']; subst.
      constructor.
      + apply IH; assumption.
      + rewrite Forall_forall in *. intros z Hz. specialize (Ha z Hz).
        unfold key_le, key_lt in *.
        assert (Hne : key a <> key z).
        { intros Heq. apply Hnotin. rewrite Heq. apply in_map. exact Hz. }
        destruct (str_ltb_total _ _ Hne) as [K|K]; [exact K|].
        rewrite K in Ha. discriminate.
  Qed.

  (* two strictly sorted lists with the same elements are equal *)
  Lemma strict_sorted_perm_eq : forall l l',
    StronglySorted key_lt l -> StronglySorted key_lt l' -> Permutation l l' -> l = l'.
  Proof.
    induction l as [|a r IH]; intros [|b r'] Hs Hs' Hp.
    - reflexivity.
    - apply Permutation_nil in Hp. discriminate.
    - apply Permutation_sym, Permutation_nil in Hp. discriminate.
    - apply StronglySorted_inv in Hs as [Hr Ha].
      apply StronglySorted_inv in Hs' as [Hr' Hb].
      rewrite Forall_forall in Ha, Hb.
      assert (Hab : a = b).
      { assert (Hina : In a (b :: r')) by (apply (Permutation_in _ Hp); left; reflexivity).
        assert (Hinb : In b (a :: r))
          by (apply (Permutation_in _ (Permutation_sym Hp)); left; reflexivity).
        destruct Hina as [->|Hina]; [reflexivity|].
        destruct Hinb as [->|Hinb]; [reflexivity|].
        specialize (Ha b Hinb). specialize (Hb a Hina). unfold key_lt in *.
        rewrite (str_ltb_asym _ _ Ha) in Hb. discriminate. }
      subst b. f_equal. apply IH; try assumption.
      eapply Permutation_cons_inv. exact Hp.
  Qed.
End Sorting.

(* the insertion sort returns a permutation of its input *)
Lemma stable_sort_perm : forall (A : Type) (key : A -> str) (l : list A), Permutation (stable_sort key l) l.
Proof. intros A key l. apply stable_sort_perm_aux. Qed.

(* ... and when the keys are pairwise distinct, the result depends only on the SET of elements:
   two arrival orders of the same elements sort to the same list *)
Theorem stable_sort_unique : forall (A : Type) (key : A -> str) (l l' : list A),
  Permutation l l' -> NoDup (map key l) -> stable_sort key l = stable_sort key l'.
Proof.
  intros A key l l' Hp Hn.
  apply (strict_sorted_perm_eq key).
  - apply sorted_nodup_strict; [apply stable_sort_sorted|].
    eapply Permutation_NoDup; [|exact Hn].
    apply Permutation_map, Permutation_sym, stable_sort_perm.
  - apply sorted_nodup_strict; [apply stable_sort_sorted|].
    eapply Permutation_NoDup; [|exact Hn].
    apply Permutation_map.
    eapply perm_trans; [exact Hp|]. apply Permutation_sym, stable_sort_perm.
  - eapply perm_trans; [apply stable_sort_perm|].
    eapply perm_trans; [exact Hp|]. apply Permutation_sym, stable_sort_perm.
Qed.

(* a search for "the" element satisfying p does not depend on the order when at most one does *)
Lemma find_unique_perm : forall (A : Type) (p : A -> bool) (l l' : list A),
  Permutation l l' ->
  (forall x y, In x l -> In y l -> p x = true -> p y = true -> x = y) ->
  find p l = find p l'.
Proof.
  intros A p l l' Hp Hu.
  destruct (find p l) as [x|] eqn:E; destruct (find p l') as [y|] eqn:E'.
  - apply find_some in E as [Hx Px]. apply find_some in E' as [Hy Py].
    apply (Permutation_in _ (Permutation_sym Hp)) in Hy.
    f_equal. apply Hu; assumption.
  - apply find_some in E as [Hx Px].
    apply (Permutation_in _ Hp) in Hx.
    rewrite (find_none _ _ E' _ Hx) in Px. discriminate.
  - apply find_some in E' as [Hy Py].
    apply (Permutation_in _ (Permutation_sym Hp)) in Hy.
    rewrite (find_none _ _ E _ Hy) in Py. discriminate.
  - reflexivity.
Qed.

(* existsb is order independent *)
Lemma existsb_perm : forall (A : Type) (p : A -> bool) (l l' : list A), Permutation l l' -> existsb p l = existsb p l'.
Proof.
  intros A p l l' Hp. induction Hp as [|x l l' Hp IH|x y l|l l' l'' H1 IH1 H2 IH2]; simpl.
  - reflexivity.
  - rewrite IH. reflexivity.
  - destruct (p x), (p y); reflexivity.
  - congruence.
Qed.

Print Assumptions stable_sort_unique.
Print Assumptions find_unique_perm.
