(* C10, keyword escapes: every identifier the Swift / Python back ends emit at a declaring position
   that the Decl observation carries (definition names, property / attribute names) is escaped the way the
   back end promises whenever it collides with the language's keyword list.  For ALL programs. *)
From Coq Require Import List Bool Lia ZifyBool ZifyN NArith.
From TS Require Import Model.Str Model.Outcome Model.Unicode Model.Types Model.Parse Model.TopsortAlgo Model.Topsort
                       Model.Lang.Common Model.Lang.Decl Model.Lang.ConvertCase Model.Lang.Swift Model.Lang.Python.
From TS Require Import Spec.C10Spec Proofs.BackCommon.
Import ListNotations.
Local Open Scope N_scope.
Local Notation length := List.length (only parsing).

Lemma mem_str_In x l : mem_str x l = true -> In x l.
Proof.
  unfold mem_str. rewrite existsb_exists. intros (y & Hy & E). apply str_eqb_eq in E. subst. exact Hy.
Qed.

(* no keyword of either list contains an underscore *)
Lemma kw_no_us (l : list str) : forallb (fun w => negb (contains_char ch_us w)) l = true ->
  forall x, mem_str x l = true -> contains_char ch_us x = false.
Proof.
  intros H x Hx. apply mem_str_In in Hx. rewrite forallb_forall in H. apply negb_true_iff. exact (H x Hx).
Qed.

Lemma contains_char_app c a b : contains_char c (a ++ b) = contains_char c a || contains_char c b.
Proof. unfold contains_char. apply existsb_app. Qed.

(* ------------------------------------------------------------------ Swift *)
Lemma swift_keywords_same : c10_swift_keywords = SWIFT_KEYWORDS.
Proof. vm_compute. reflexivity. Qed.

Lemma replace_dash_id k : contains_char ch_us (replace_char ch_dash ch_us k) = false -> replace_char ch_dash ch_us k = k.
Proof.
  induction k as [|c r IH]; [reflexivity|]. unfold replace_char in *. cbn [map contains_char existsb].
  rewrite orb_false_iff. intros [H1 H2]. rewrite (IH H2).
  destruct (c =? ch_dash) eqn:E; [|reflexivity]. unfold ch_us in H1. cbn in H1. discriminate.
Qed.

Lemma sw_member_kw uc f ty ity : c10_kw_member_good CSW (sw_obs_member (sw_member_of uc f ty ity)) = true.
Proof.
  unfold sw_member_of, sw_obs_member, c10_kw_member_good. cbn [mb_name mb_escaped swm_name swm_escaped].
  rewrite swift_keywords_same. unfold sw_is_keyword, sw_remove_dash_from_identifier.
  destruct (mem_str (replace_char ch_dash ch_us (renamed (fid f))) SWIFT_KEYWORDS) eqn:E; [|reflexivity].
  assert (Hus := kw_no_us SWIFT_KEYWORDS ltac:(vm_compute; reflexivity) _ E).
  rewrite (replace_dash_id _ Hus) in E. rewrite E. reflexivity.
Qed.

Lemma forallb_map_all {A B} (p : B -> bool) (f : A -> B) l : (forall x, p (f x) = true) -> forallb p (map f l) = true.
Proof. intros H. induction l; cbn; [reflexivity|]. rewrite H, IHl. reflexivity. Qed.

Section SW.
Variable uc : unicode.
Variable cfg : sw_config.

Lemma sw_struct_kw rs s d s' : sw_struct_of uc cfg rs s = Ok (d, s') -> c10_kw_decl_good CSW (sw_obs_struct d) = true.
Proof.
  unfold sw_struct_of. intros H. apply mbind_ok in H as (tys & s1 & _ & H). apply mbind_ok in H as (itys & s2 & _ & H).
  unfold ret in H. injection H as <- _. unfold sw_obs_struct, c10_kw_decl_good.
  cbn [d_name d_escaped d_members sws_name sws_escaped sws_members]. rewrite swift_keywords_same. unfold sw_is_keyword.
  rewrite implb_same. cbn [andb]. rewrite map_map. apply forallb_map_all. intros x. apply sw_member_kw.
Qed.

Lemma sw_inner_kw sh vs : forall s ds s', sw_inner_structs_of uc cfg sh vs s = Ok (ds, s') ->
  forallb (c10_kw_decl_good CSW) (map sw_obs_struct ds) = true.
Proof.
  induction vs as [|v r IH]; intros s ds s' H; cbn [sw_inner_structs_of] in H.
  - unfold ret in H. injection H as <- _. reflexivity.
  - destruct v as [vsh | t vsh | fs vsh]; try (eapply IH; exact H).
    apply mbind_ok in H as (d & s1 & Hd & H). apply mbind_ok in H as (ds' & s2 & Hr & H). unfold ret in H. injection H as <- _.
    cbn [map forallb]. rewrite (sw_struct_kw _ _ _ _ Hd), (IH _ _ _ Hr). reflexivity.
Qed.

Lemma sw_decl_kw it s d s' : sw_decl_of uc cfg it s = Ok (d, s') -> forallb (c10_kw_decl_good CSW) (sw_obs d) = true.
Proof.
  destruct it as [rs | e | a | c]; cbn [sw_decl_of]; intros H.
  - apply mbind_ok in H as (d0 & s1 & Hd & H). unfold ret in H. injection H as <- _.
    cbn [sw_obs forallb]. rewrite (sw_struct_kw _ _ _ _ Hd). reflexivity.
  - apply mbind_ok in H as (d0 & s1 & Hd & H). unfold ret in H. injection H as <- _.
    unfold sw_enum_of in Hd. apply mbind_ok in Hd as (inner & s2 & Hi & Hd). apply mbind_ok in Hd as (vs & s3 & _ & Hd).
    unfold ret in Hd. injection Hd as <- _. cbn [sw_obs swe_inner]. rewrite forallb_app, (sw_inner_kw _ _ _ _ _ Hi).
    cbn [forallb andb]. unfold sw_obs_enum, c10_kw_decl_good. cbn [d_name d_escaped d_members swe_name swe_escaped forallb].
    rewrite swift_keywords_same. unfold sw_is_keyword. rewrite implb_same. reflexivity.
  - apply mbind_ok in H as (t & s1 & _ & H). unfold ret in H. injection H as <- _.
    cbn [sw_obs forallb]. unfold c10_kw_decl_good. cbn [d_name d_escaped d_members forallb].
    rewrite swift_keywords_same. unfold sw_is_keyword. rewrite implb_same. reflexivity.
  - discriminate.
Qed.

Lemma mmapM_all {St A B} (f : A -> M St B) (P : B -> Prop) :
  (forall x s y s', f x s = Ok (y, s') -> P y) -> forall l s ys s', mmapM f l s = Ok (ys, s') -> Forall P ys.
Proof.
  intros HP l s ys s' H. apply (mmapM_Forall2 f (fun _ y => P y)) in H; [|exact HP].
  induction H; constructor; auto.
Qed.

Lemma forallb_flat_map {A B} (p : B -> bool) (f : A -> list B) l :
  Forall (fun x => forallb p (f x) = true) l -> forallb p (flat_map f l) = true.
Proof. induction 1; cbn [flat_map forallb]; [reflexivity|]. rewrite forallb_app, H, IHForall. reflexivity. Qed.

Theorem kw_swift pd fd : sw_file_decls uc cfg pd = Ok fd -> good_C10_kw CSW (fd_decls fd) = true.
Proof.
  unfold sw_file_decls, sw_decls. intros H.
  destruct (topsort (items_of pd)) as [items| |]; cbn in H; try discriminate.
  destruct (mmapM (sw_decl_of uc cfg) items false) as [[ds st]| |] eqn:E; cbn in H; try discriminate.
  injection H as <-. cbn [fd_decls]. unfold good_C10_kw. apply forallb_flat_map. apply Forall_app. split.
  - eapply mmapM_all; [|exact E]. intros x s y s' Hx. exact (sw_decl_kw _ _ _ _ Hx).
  - unfold sw_trailing_decls. destruct st; constructor; [|constructor]. reflexivity.
Qed.
End SW.

(* ------------------------------------------------------------------ Python *)
Lemma python_keywords_same : c10_python_keywords = py_keywords.
Proof. vm_compute. reflexivity. Qed.

Lemma ends_with_us_app name : c10_ends_with_us (name ++ lit "_") = true.
Proof. unfold c10_ends_with_us. rewrite rev_app_distr. reflexivity. Qed.

Section PY.
Variable uc : unicode.
Variable cfg : py_config.

Lemma py_member_kw generics f s m s' : py_member_of uc cfg generics f s = Ok (m, s') ->
  c10_kw_member_good CPY (py_obs_member m) = true.
Proof.
  unfold py_member_of. intros H. apply mbind_ok in H as (ty & s1 & _ & H). apply mbind_ok in H as (u & s2 & _ & H).
  apply mbind_ok in H as (ann & s3 & _ & H). unfold ret in H. injection H as <- _.
  unfold py_obs_member, c10_kw_member_good. cbn [mb_name mb_escaped pym_name pym_escaped].
  rewrite python_keywords_same. unfold py_property_aware_rename.
  destruct (py_name_is_keyword uc (original (fid f))) eqn:E.
  - rewrite ends_with_us_app. cbn [implb]. rewrite andb_true_r. apply negb_true_iff.
    destruct (mem_str (original (fid f) ++ lit "_") py_keywords) eqn:E2; [|reflexivity].
    pose proof (kw_no_us py_keywords ltac:(vm_compute; reflexivity) _ E2) as Hus.
    rewrite contains_char_app in Hus. apply orb_false_iff in Hus as [_ Hus]. discriminate.
  - cbn [implb]. rewrite andb_true_r. unfold py_name_is_keyword in E. rewrite E. reflexivity.
Qed.

Definition py_decl_kw (d : py_decl) : Prop := forallb (c10_kw_decl_good CPY) (py_obs d) = true.

Lemma py_class_kw rs s d s' : py_class_of uc cfg rs s = Ok (d, s') -> py_decl_kw d.
Proof.
  unfold py_class_of. intros H.
  apply mbind_ok in H as (u1 & s1 & _ & H). apply mbind_ok in H as (u2 & s2 & _ & H).
  apply mbind_ok in H as (u3 & s3 & _ & H). apply mbind_ok in H as (config & s4 & _ & H).
  apply mbind_ok in H as (ms & s5 & Hms & H). unfold ret in H. injection H as <- _.
  unfold py_decl_kw. cbn [py_obs forallb]. rewrite andb_true_r. unfold c10_kw_decl_good. cbn [d_members andb].
  apply (mmapM_all _ (fun m => c10_kw_member_good CPY (py_obs_member m) = true)) in Hms.
  - induction Hms; cbn [map forallb]; [reflexivity|]. rewrite H, IHHms. reflexivity.
  - intros x s0 y s0' Hx. exact (py_member_kw _ _ _ _ _ Hx).
Qed.

Lemma py_inner_kw sh vs : forall s ds s', py_inner_classes_of uc cfg sh vs s = Ok (ds, s') -> Forall py_decl_kw ds.
Proof.
  induction vs as [|v r IH]; intros s ds s' H; cbn [py_inner_classes_of] in H.
  - unfold ret in H. injection H as <- _. constructor.
  - destruct v as [vsh | t vsh | fs vsh]; try (eapply IH; exact H).
    apply mbind_ok in H as (d & s1 & Hd & H). apply mbind_ok in H as (ds' & s2 & Hr & H). unfold ret in H. injection H as <- _.
    constructor; [exact (py_class_kw _ _ _ _ Hd)|exact (IH _ _ _ Hr)].
Qed.

Lemma py_decl_of_kw it s ds s' : py_decl_of uc cfg it s = Ok (ds, s') -> Forall py_decl_kw ds.
Proof.
  destruct it as [rs | e | a | c]; cbn [py_decl_of]; intros H.
  - apply mbind_ok in H as (d & s1 & Hd & H). unfold ret in H. injection H as <- _.
    constructor; [exact (py_class_kw _ _ _ _ Hd)|constructor].
  - apply mbind_ok in H as (inners & s1 & Hi & H). apply py_inner_kw in Hi.
    destruct e as [sh | tag content sh].
    + apply mbind_ok in H as (u & s2 & _ & H). apply mbind_ok in H as (vs & s3 & _ & H). unfold ret in H. injection H as <- _.
      apply Forall_app. split; [exact Hi|]. constructor; [|constructor]. unfold py_decl_kw. cbn. reflexivity.
    + apply mbind_ok in H as (d & s2 & Hd & H). unfold ret in H. injection H as <- _.
      apply Forall_app. split; [exact Hi|]. constructor; [|constructor].
      unfold py_algebraic_of in Hd.
      apply mbind_ok in Hd as (u1 & t1 & _ & Hd). apply mbind_ok in Hd as (u2 & t2 & _ & Hd).
      apply mbind_ok in Hd as (u3 & t3 & _ & Hd). apply mbind_ok in Hd as (vs & t4 & _ & Hd).
      apply mbind_ok in Hd as (u4 & t5 & _ & Hd). unfold ret in Hd. injection Hd as <- _.
      unfold py_decl_kw. cbn. reflexivity.
  - apply mbind_ok in H as (ty & s1 & _ & H). apply mbind_ok in H as (utv & stv & _ & H). unfold ret in H. injection H as <- _.
    constructor; [|constructor]. unfold py_decl_kw. cbn. reflexivity.
  - apply mbind_ok in H as (ty & s1 & _ & H). unfold ret in H. injection H as <- _.
    constructor; [|constructor]. unfold py_decl_kw. cbn. reflexivity.
Qed.

Lemma helper_kw name : c10_kw_decl_good CPY (py_helper_decl name) = true.
Proof. reflexivity. Qed.

Theorem kw_python pd fd : py_file_decls uc cfg pd = Ok fd -> good_C10_kw CPY (fd_decls fd) = true.
Proof.
  unfold py_file_decls, py_decls. intros H.
  destruct (topsort (items_of pd)) as [items| |]; cbn in H; try discriminate.
  destruct (mmapM (py_decl_of uc cfg) items py_empty_state) as [[dss st]| |] eqn:E; cbn in H; try discriminate.
  injection H as <-. cbn [fd_decls]. unfold good_C10_kw. rewrite !forallb_app.
  rewrite !(forallb_map_all _ py_helper_decl _ helper_kw). cbn [andb].
  apply forallb_flat_map. apply Forall_concat.
  eapply mmapM_all; [|exact E]. intros x s y s' Hx. exact (py_decl_of_kw _ _ _ _ Hx).
Qed.
End PY.
