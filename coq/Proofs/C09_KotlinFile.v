(* C09 for Kotlin, part 3: aliases, the whole file, the theorem. *)
From Coq Require Import List Bool String Permutation.
From TS Require Import Model.Str Model.Outcome Model.Unicode Model.Types Model.Parse Model.Reconcile Model.TopsortAlgo Model.Topsort
                       Model.Lang.Common Model.Lang.Decl Model.Lang.Kotlin Spec.C09Spec.
From TS Require Import Proofs.C09Common Proofs.C09Recon Proofs.C09Refs Proofs.C09_Kotlin Proofs.C09_KotlinItems.
Import ListNotations.
Local Notation length := List.length (only parsing).

Section KTF.
Variable uc : unicode.
Variable cfg : kt_config.
Let pfx := kt_prefix cfg.
Variable acrs : list str.
Variable pd : parsed.
Hypothesis Hdom : dom_C09 Kotlin pfx pd = true.
Hypothesis Hknown : known_C09 Kotlin pfx acrs pd = None.
Let rn := c09_rn pd.
Let pd' := c09_reconciled pd.
Notation shape := (c09_ref_shape Kotlin pfx pd).

Lemma kt_item_alias a d : In a (p_aliases pd) -> kt_alias_decl cfg (c09_ra rn a) = Ok d ->
  d_name (kt_obs d) = c09_def_name Kotlin pfx (kt_ent_alias a) /\ c09_is_def (kt_obs d) = true /\
  forall r, In r (c09_decl_refs Kotlin (kt_obs d)) -> shape r.
Proof.
  intros Ha Hd. unfold kt_alias_decl in Hd. cbn [c09_ra adecs aid agenerics atype acomments aredacted] in Hd.
  rewrite kt_is_inline_spec in Hd.
  set (tp := {| c9t_owner := aid a; c9t_generics := agenerics a; c9t_pos := C9Alias; c9t_type := atype a |}).
  assert (Htp : In tp (c09_tposs pd)) by (apply kt_tp_alias; exact Ha).
  assert (Hj : In (kt_ent_alias a) (c09_entities pd)) by (apply kt_in_alias; exact Ha).
  destruct (c09_alias_inline a) eqn:Inl.
  - (* JvmInline value class: the member is formatted with an empty generics list *)
    unfold kt_member_of in Hd. cbn [type_override lookup_lang fdecs fty bind] in Hd.
    destruct (kt_texp cfg [] (check_type [] rn [] (atype a))) as [ty| |] eqn:Et; cbn [bind] in Hd; try discriminate.
    injection Hd as <-.
    assert (Hn : c09_def_name Kotlin pfx (kt_ent_alias a) = pfx ++ renamed (aid a)) by (unfold c09_def_name; cbn; rewrite Inl; cbn; rewrite app_nil_r; reflexivity).
    cbn [kt_obs d_name]. rewrite Hn. repeat split.
    intros r Hr. unfold c09_decl_refs in Hr. cbn [kt_obs d_kind d_name d_type] in Hr.
    unfold c09_type_refs in Hr. rewrite kt_names_strip in Hr. cbn [km_type] in Hr.
    apply in_map_iff in Hr as (n & <- & Hn0). apply filter_In in Hn0 as [Hn0 Hb]. apply negb_true_iff in Hb.
    destruct (kt_texp_names cfg [] _ ty Et n Hn0) as [C|(form & i' & Hi & ->)]; [congruence|].
    unfold kt_ref_name. cbn [mem_str existsb].
    destruct (c09_mention pd Kotlin pfx Hdom tp form i' Htp Hi) as [[Hg Hi0]|(i & e & Hi0 & Hlk & E)].
    + assert (Hcase : forall p : str, p = [] \/ c09_is_nil p = false) by (intros [|? ?]; auto).
      destruct (Hcase (kt_prefix cfg)) as [Hp|Hp].
      * eapply C9S_generic with (j := kt_ent_alias a); cbn [c9_in c9_pos c9_name]; try assumption; try discriminate.
        -- rewrite Hn. reflexivity.
        -- rewrite Hp. exact Hg.
      * exfalso.
        assert (c09_inline_generic_class Kotlin pfx a = None) as Hc.
        { apply (c09_class_none Kotlin pfx acrs pd Hknown). unfold c09_classes. apply in_or_app. right. apply in_or_app. right. apply in_or_app. left. apply in_map. exact Ha. }
        unfold c09_inline_generic_class in Hc. rewrite Inl in Hc. unfold pfx in Hc. rewrite Hp in Hc. cbn [negb andb] in Hc.
        assert (c09_mentions_generic (agenerics a) (atype a) = true) as Hm; [|rewrite Hm in Hc; discriminate].
        unfold c09_mentions_generic. apply existsb_exists. exists (form, i'). split; [exact Hi0|]. cbn [snd]. apply c09_mem_str_in. exact Hg.
    + destruct (c09_lookup_in pd i e Hlk) as (He & _ & Hk).
      eapply C9S_type with (tp := tp) (form := form) (i := i) (e := e); cbn [c9_in c9_pos c9_name]; try assumption; try reflexivity.
      rewrite (c09_item_suffix pd e He Hk), app_nil_r, E. reflexivity.
  - (* typealias, declared under the original name *)
    destruct (kt_texp cfg (agenerics a) (check_type [] rn [] (atype a))) as [ty| |] eqn:Et; cbn [bind] in Hd; try discriminate.
    injection Hd as <-.
    assert (Hn : c09_def_name Kotlin pfx (kt_ent_alias a) = pfx ++ original (aid a)) by (unfold c09_def_name; cbn; rewrite Inl; cbn; rewrite app_nil_r; reflexivity).
    cbn [kt_obs d_name]. rewrite Hn. repeat split.
    intros r Hr. unfold c09_decl_refs in Hr. cbn [kt_obs d_kind d_name d_type] in Hr.
    eapply (kt_texp_refs cfg pd Hdom tp (agenerics a) _ _ ty); [exact Htp|reflexivity|exact Et| | |reflexivity|exact Hr].
    + reflexivity.
    + right. exists (kt_ent_alias a). split; [exact Hj|]. split; [symmetry; exact Hn|reflexivity].
Qed.

(* ---- one item of the reconciled program ---- *)
Lemma kt_item it' dsi : In it' (items_of pd') -> kt_decl_of cfg it' = Ok dsi ->
  forall d, In d dsi -> (exists en, In en (c09_entities pd) /\ d_name (kt_obs d) = c09_def_name Kotlin pfx en) /\ c09_is_def (kt_obs d) = true /\
                        forall r, In r (c09_decl_refs Kotlin (kt_obs d)) -> shape r.
Proof.
  pose proof (kt_imp cfg pd Hdom) as Himp.
  intros Hit Hds d Hd. unfold items_of in Hit. rewrite !in_app_iff, !in_map_iff in Hit.
  destruct Hit as [(a' & <- & Ha')|[(s' & <- & Hs')|[(e' & <- & He')|(c & <- & _)]]]; cbn [kt_decl_of] in Hds.
  - apply (c09_aliases' pd Himp) in Ha' as (a & Ha & ->).
    destruct (kt_alias_decl cfg (c09_ra (c09_rn pd) a)) as [d1| |] eqn:E; cbn [bind] in Hds; try discriminate. injection Hds as <-. destruct Hd as [<-|[]].
    destruct (kt_item_alias a d1 Ha E) as (A & B & C). split; [exists (kt_ent_alias a); split; [apply kt_in_alias; exact Ha|exact A]|]. split; assumption.
  - apply (c09_structs' pd Himp) in Hs' as (s & Hs & ->).
    destruct (kt_struct_decl cfg (c09_rs (c09_rn pd) s)) as [d1| |] eqn:E; cbn [bind] in Hds; try discriminate. injection Hds as <-. destruct Hd as [<-|[]].
    destruct (kt_item_struct cfg pd Hdom s d1 Hs E) as (A & B & C). split; [exists (kt_ent_struct s); split; [apply kt_in_struct; exact Hs|exact A]|]. split; assumption.
  - apply (c09_enums' pd Himp) in He' as (e & He & ->).
    destruct (kt_item_enum cfg pd Hdom e dsi He Hds) as (A & _ & _). exact (A d Hd).
  - discriminate.
Qed.

Theorem kt_shape fd : kt_file_decls uc cfg pd' = Ok fd -> c09_shape Kotlin pfx pd (c09_observe Kotlin fd).
Proof.
  pose proof (kt_imp cfg pd Hdom) as Himp.
  unfold kt_file_decls, kt_decls. intros H.
  destruct (topsort (items_of pd')) as [items| |] eqn:Et; cbn [bind] in H; try discriminate.
  destruct (mapM (kt_decl_of cfg) items) as [dss| |] eqn:Em; cbn [bind] in H; try discriminate.
  injection H as <-. unfold c09_observe. cbn [fd_decls c9_defs c9_refs].
  pose proof (c09_topsort_in _ _ Et) as Hperm. apply c09_mapM_Forall2 in Em.
  assert (Hall : forall d, In d (List.concat dss) ->
            (exists en, In en (c09_entities pd) /\ d_name (kt_obs d) = c09_def_name Kotlin pfx en) /\ c09_is_def (kt_obs d) = true /\
            forall r, In r (c09_decl_refs Kotlin (kt_obs d)) -> shape r).
  { intros d Hd. apply in_concat in Hd as (dsi & Hdsi & Hd). destruct (c09_Forall2_in_r _ _ _ _ Em Hdsi) as (it' & Hit & E).
    apply Hperm in Hit. exact (kt_item it' dsi Hit E d Hd). }
  assert (Hitem : forall it', In it' (items_of pd') -> exists dsi, In dsi dss /\ kt_decl_of cfg it' = Ok dsi).
  { intros it' Hit. apply Hperm in Hit. exact (c09_Forall2_in_l _ _ _ _ Em Hit). }
  constructor.
  - (* every entity has its definition *)
    intros e He _.
    assert (exists d, In d (List.concat dss) /\ d_name (kt_obs d) = c09_def_name Kotlin pfx e) as (d & Hd & Hn).
    { unfold c09_entities in He. rewrite !in_app_iff, in_flat_map, !in_map_iff in He.
      destruct He as [(s & <- & Hs)|[(en & Hen & He)|(a & <- & Ha)]].
      - destruct (Hitem (ItStruct (c09_rs rn s))) as (dsi & Hdsi & E).
        { unfold items_of. apply in_or_app. right. apply in_or_app. left. apply in_map. apply (c09_structs' pd Himp). exists s. auto. }
        cbn [kt_decl_of] in E. destruct (kt_struct_decl cfg (c09_rs rn s)) as [d1| |] eqn:E1; cbn [bind] in E; try discriminate. injection E as <-.
        exists d1. split; [apply in_concat; exists (d1 :: nil); split; [exact Hdsi|left; reflexivity]|]. apply (kt_item_struct cfg pd Hdom s d1 Hs E1).
      - destruct (Hitem (ItEnum (c09_re rn en))) as (dsi & Hdsi & E).
        { unfold items_of. apply in_or_app. right. apply in_or_app. right. apply in_or_app. left. apply in_map. apply (c09_enums' pd Himp). exists en. auto. }
        cbn [kt_decl_of] in E. destruct (kt_item_enum cfg pd Hdom en dsi Hen E) as (_ & (d0 & Hd0 & Hn0) & Hin).
        unfold c09_enum_entities in He. destruct He as [<-|He].
        + exists d0. split; [apply in_concat; exists dsi; split; assumption|exact Hn0].
        + apply in_flat_map in He as (v & Hv & He). destruct v as [vsh|t vsh|fs vsh]; [destruct He|destruct He|]. destruct He as [<-|[]].
          destruct (Hin fs vsh Hv) as (d1 & Hd1 & Hn1). exists d1. split; [apply in_concat; exists dsi; split; assumption|exact Hn1].
      - destruct (Hitem (ItAlias (c09_ra rn a))) as (dsi & Hdsi & E).
        { unfold items_of. apply in_or_app. left. apply in_map. apply (c09_aliases' pd Himp). exists a. auto. }
        cbn [kt_decl_of] in E. destruct (kt_alias_decl cfg (c09_ra rn a)) as [d1| |] eqn:E1; cbn [bind] in E; try discriminate. injection E as <-.
        exists d1. split; [apply in_concat; exists (d1 :: nil); split; [exact Hdsi|left; reflexivity]|]. apply (kt_item_alias a d1 Ha E1). }
    apply in_map_iff. exists (kt_obs d). split; [exact Hn|]. apply filter_In. split; [apply in_map; exact Hd|apply (Hall d Hd)].
  - intros n Hn. apply in_map_iff in Hn as (d' & <- & Hd'). apply filter_In in Hd' as [Hd' _]. apply in_map_iff in Hd' as (d & <- & Hd).
    destruct (Hall d Hd) as ((en & Hen & E) & _). exists en. split; assumption.
  - intros r Hr. apply in_flat_map in Hr as (d' & Hd' & Hr). apply in_map_iff in Hd' as (d & <- & Hd).
    destruct (Hall d Hd) as (_ & _ & C). exact (C r Hr).
Qed.

Theorem c09_kotlin fd : kt_file_decls uc cfg pd' = Ok fd -> good_C09 Kotlin pfx pd (c09_observe Kotlin fd) = true.
Proof. intros H. exact (c09_shape_good Kotlin pfx acrs pd _ Hdom Hknown (kt_shape fd H)). Qed.
End KTF.
