(* C15 for Scala WITHOUT the neutrality hypothesis: on declarations whose names, generic parameters and printed
   types are plain (c15_sc_decl_plain, Spec/C15RenderScPy.v) the code sc_render_decl prints around the `// `
   fragments keeps the reference lexer of Scala in code mode; and the declarations sc_decl_of computes for a
   strict IR item (c15_item_strict, Spec/C15Render.v) under plain type_mappings targets are such declarations.
   The Scala reference lexer has the same table as the Kotlin one (Spec/Lexers.v cfg_sc / cfg_kt), so the
   lemmas on {:?}-quoted strings of Proofs/C15_Kotlin.v are reused by conversion. *)
From Coq Require Import List NArith Bool Lia ZifyBool ZifyN String.
From TS Require Import Model.Str Model.Outcome Model.Unicode Model.Types Model.Parse Model.Rename
                       Model.Lang.Common Model.Lang.Decl Model.Lang.Scala.
From TS Require Import Spec.Lexers Spec.C15Spec Spec.C15Render Spec.C15RenderScPy.
From TS Require Import Proofs.C15 Proofs.C15_Render Proofs.C15_Kotlin Proofs.C15_Front.
Import ListNotations.
Local Open Scope N_scope.

Notation NS := (c15_neutral C15sc).
Notation plain := (c15_plain C15sc).
Notation DS := (Decomp C15sc NS).

Ltac sc_sites_norm :=
  unfold c15_sites; cbn [app]; rewrite ?app_nil_r, ?map_app, ?c15_map_flat_map; cbn [app map]; rewrite ?app_nil_r; reflexivity.

Lemma sc_debug_neutral s : c15_quoted_ok s = true -> NS (debug_str s).
Proof. exact (kt_debug_neutral s). Qed.

Lemma sc_ident_parts s : c15_ident_ok C15sc s = true ->
  plain s = true /\ c15_quoted_ok s = true /\ c15_lit_str s = true.
Proof. intros H. destruct (kt_ident_parts s H) as (Hp & Hq & _ & Hl). repeat split; assumption. Qed.

Lemma sc_plain_generics gs : forallb plain gs = true -> plain (sc_generic_parameters gs) = true.
Proof.
  intros H. unfold sc_generic_parameters. destruct gs as [|g r]; [reflexivity|].
  rewrite !c15_plain_app, c15_plain_join; [reflexivity|reflexivity|exact H].
Qed.

Lemma sc_comments_decomp i ds : DS (sc_write_comments i ds) (c15_sites false ds).
Proof. rewrite <- (proj1 (C15_fragment_sc i ds)). exact (Decomp_frag C15sc NS false i ds). Qed.

(* ================= layout ================= *)
Ltac sc_atom :=
  first [ apply c15_neutral_plain; assumption
        | vm_compute; reflexivity ].
Ltac sc_quoted :=
  apply Decomp_code;
  first [ apply sc_debug_neutral; assumption
        | apply c15_neutral_plain; apply sc_plain_generics; assumption ].
Ltac scn_decomp tac := c15_decomp ltac:(apply sc_comments_decomp) ltac:(first [tac | sc_quoted]) sc_atom.

Lemma scn_member_decomp m : c15_sc_member_plain m = true -> DS (sc_render_member m) (c15_sites false (scm_docs m)).
Proof.
  unfold c15_sc_member_plain, sc_render_member. intros H. c15_split_andb.
  destruct (scm_default m); (eapply Decomp_eq; [scn_decomp ltac:(fail)|]; sc_sites_norm).
Qed.

Lemma scn_variant_decomp v : c15_sc_variant_plain v = true -> DS (sc_render_variant v) (c15_sites false (scv_docs v)).
Proof.
  unfold c15_sc_variant_plain, sc_render_variant. intros H. c15_split_andb.
  destruct (scv_payload v); c15_split_andb; (eapply Decomp_eq; [scn_decomp ltac:(fail)|]; sc_sites_norm).
Qed.

Lemma c15_flat_map_nil {A B} (l : list A) : flat_map (fun _ : A => @nil B) l = [].
Proof. induction l; [reflexivity|assumption]. Qed.

Theorem scn_decl_decomp d : c15_sc_decl_plain d = true -> DS (sc_render_decl d) (c15_sites false (sc_decl_docs d)).
Proof.
  intros H. destruct d as [docs name gs ty|docs name gs ms|docs name|docs name gs vs|l];
    cbn [c15_sc_decl_plain sc_render_decl sc_decl_docs] in *; c15_split_andb.
  - eapply Decomp_eq; [scn_decomp ltac:(fail)|]. sc_sites_norm.
  - match goal with Hm : forallb c15_sc_member_plain ms = true |- _ => rename Hm into Hms end.
    eapply Decomp_eq;
      [scn_decomp ltac:(apply (Decomp_join C15sc NS) with (g := fun m => c15_sites false (scm_docs m));
                        [vm_compute; reflexivity
                        |intros m Hin; rewrite forallb_forall in Hms; apply scn_member_decomp, Hms, Hin])|].
    sc_sites_norm.
  - eapply Decomp_eq; [scn_decomp ltac:(fail)|]. sc_sites_norm.
  - match goal with Hm : forallb c15_sc_variant_plain vs = true |- _ => rename Hm into Hvs end.
    eapply Decomp_eq;
      [scn_decomp ltac:(apply (Decomp_concat_map C15sc NS) with (g := fun v => c15_sites false (scv_docs v));
                        intros v Hin; rewrite forallb_forall in Hvs; apply scn_variant_decomp, Hvs, Hin)|].
    sc_sites_norm.
  - eapply Decomp_eq;
      [scn_decomp ltac:(apply (Decomp_concat_map C15sc NS) with (g := fun _ => []);
                        intros nt Hin; rewrite forallb_forall in H; specialize (H nt Hin); c15_split_andb;
                        eapply Decomp_eq; [scn_decomp ltac:(fail)|reflexivity])|].
    cbn [app]. rewrite app_nil_r. apply c15_flat_map_nil.
Qed.

(* one declaration, no neutrality hypothesis *)
Theorem C15_sc_decl d : c15_sc_decl_plain d = true ->
  exists parts,
    sc_render_decl d = text_of (c15_file_pieces C15sc parts) /\
    docs_of (c15_file_pieces C15sc parts) = sc_decl_docs d /\
    c15_contained C15sc LCode (mark (c15_file_pieces C15sc parts)) = forallb safe_sc (sc_decl_docs d).
Proof.
  intros H. destruct (Decomp_contained _ _ _ (scn_decl_decomp d H)) as (ps & Ht & Hd & Hc).
  exists ps. rewrite c15_sites_text_line in Hd by discriminate. rewrite c15_sites_ok_false in Hc by discriminate. auto.
Qed.

(* ================= decisions: the declarations keep the IR's doc strings ================= *)
Section SCItem.
Variable uc : unicode.
Variable cfg : sc_config.

Lemma sc_member_docs_ir gs f m : sc_member_of cfg gs f = Ok m -> scm_docs m = fcomments f.
Proof. unfold sc_member_of. intros H. apply c15_bind_ok in H as (ty & _ & H). injection H as <-. reflexivity. Qed.

Lemma sc_class_docs_ir rs d : sc_class_of cfg rs = Ok d ->
  sc_decl_docs d = scomments rs ++ flat_map fcomments (sfields rs).
Proof.
  unfold sc_class_of. destruct (sfields rs) as [|f fs] eqn:E.
  - intros H. injection H as <-. cbn. now rewrite app_nil_r.
  - intros H. apply c15_bind_ok in H as (ms & Hm & H). injection H as <-. cbn [sc_decl_docs]. f_equal.
    apply c15_Forall2_flat_map. eapply c15_mapM_Forall2; [|exact Hm].
    intros x y Hx. exact (sc_member_docs_ir _ _ _ Hx).
Qed.

Lemma sc_inner_docs_ir sh ds : sc_inner_decls_of cfg sh = Ok ds ->
  flat_map sc_decl_docs ds = flat_map (c15_helper_docs sh) (evariants sh).
Proof.
  unfold sc_inner_decls_of. intros H. apply c15_bind_ok in H as (dss & Hm & H). injection H as <-.
  rewrite c15_flat_map_concat. apply c15_Forall2_flat_map. eapply c15_mapM_Forall2; [|exact Hm].
  intros v ds Hv. destruct v as [vsh|t vsh|fs vsh]; try (injection Hv as <-; reflexivity).
  apply c15_bind_ok in Hv as (d & Hd & Hv). injection Hv as <-. cbn [flat_map]. rewrite app_nil_r.
  rewrite (sc_class_docs_ir _ _ Hd). reflexivity.
Qed.

Theorem sc_decl_docs_ir it ds : sc_decl_of cfg it = Ok ds ->
  flat_map sc_decl_docs ds = c15_item_docs_helpers_first it.
Proof.
  destruct it as [s|e|a|c]; cbn [sc_decl_of c15_item_docs_helpers_first c15_item_docs]; intros H.
  - apply c15_bind_ok in H as (d & Hd & H). injection H as <-. cbn [flat_map]. rewrite app_nil_r.
    exact (sc_class_docs_ir _ _ Hd).
  - apply c15_bind_ok in H as (inner & Hi & H). apply c15_bind_ok in H as (vs & Hv & H). injection H as <-.
    rewrite flat_map_app, (sc_inner_docs_ir _ _ Hi). f_equal. cbn [flat_map sc_decl_docs]. rewrite app_nil_r. f_equal.
    destruct e as [sh|tag content sh]; cbn [enum_shared sc_variants_of] in *;
      (apply c15_Forall2_flat_map; eapply c15_mapM_Forall2; [|exact Hv]); intros v x Hx.
    + unfold sc_variant_of_unit_enum in Hx. injection Hx as <-. reflexivity.
    + unfold sc_variant_of_algebraic in Hx. apply c15_bind_ok in Hx as (pl & _ & Hx). injection Hx as <-. reflexivity.
  - apply c15_bind_ok in H as (ty & _ & H). injection H as <-. cbn. now rewrite app_nil_r.
  - discriminate.
Qed.

(* ================= decisions: strict IR items give plain declarations ================= *)
Hypothesis Hmap : c15_mappings_plain C15sc (sc_type_mappings cfg) = true.

Lemma sc_texp_plain gs t : c15_rtype_plain C15sc t = true -> forall x, sc_texp cfg gs t = Ok x -> plain (sc_show x) = true.
Proof.
  induction t as [id|id ps IH|t IH|t n IH|t IH|k v IHk IHv|t IH|p] using rtype_ind'; intros Hp x H;
    cbn [sc_texp c15_rtype_plain] in *.
  - injection H as <-. destruct (tmap_get (sc_type_mappings cfg) id) eqn:E; cbn [sc_show].
    + eapply c15_tmap_get_plain; eauto.
    + exact Hp.
  - apply andb_true_iff in Hp as [Hid Hps]. destruct (tmap_get (sc_type_mappings cfg) id) eqn:E.
    + injection H as <-. cbn [sc_show]. eapply c15_tmap_get_plain; eauto.
    + rewrite c15_go_is_mapM in H. apply c15_bind_ok in H as (params & Hparams & H). injection H as <-.
      assert (HQ : Forall (fun y => plain (sc_show y) = true) params).
      { eapply c15_mapM_Forall; [|exact Hparams]. rewrite Forall_forall in IH |- *. intros t Ht.
        apply IH; [exact Ht|]. rewrite forallb_forall in Hps. now apply Hps. }
      cbn [sc_show]. destruct params as [|y r]; [exact Hid|].
      rewrite !c15_plain_app, Hid. cbn [andb].
      rewrite c15_plain_join; [reflexivity|reflexivity|]. rewrite c15_forallb_map. now apply c15_Forall_forallb.
  - apply c15_bind_ok in H as (e & He & H). injection H as <-. cbn [sc_show map join].
    rewrite !c15_plain_app, (IH Hp _ He). reflexivity.
  - apply c15_bind_ok in H as (e & He & H). injection H as <-. cbn [sc_show map join].
    rewrite !c15_plain_app, (IH Hp _ He). reflexivity.
  - apply c15_bind_ok in H as (e & He & H). injection H as <-. cbn [sc_show map join].
    rewrite !c15_plain_app, (IH Hp _ He). reflexivity.
  - apply andb_true_iff in Hp as [Hk Hv].
    apply c15_bind_ok in H as (ks & Hks & H). apply c15_bind_ok in H as (vs & Hvs & H). injection H as <-.
    cbn [sc_show map join]. rewrite !c15_plain_app, (IHk Hk _ Hks), (IHv Hv _ Hvs). reflexivity.
  - apply c15_bind_ok in H as (e & He & H). injection H as <-. cbn [sc_show].
    rewrite !c15_plain_app, (IH Hp _ He). reflexivity.
  - destruct p; try discriminate; injection H as <-; reflexivity.
Qed.

Lemma sc_plain_replace_dash s : plain s = true -> plain (replace_char ch_dash ch_us s) = true.
Proof. exact (kt_plain_replace_dash s). Qed.

Lemma sc_member_plain_ir gs f m : c15_field_strict C15sc Scala f = true ->
  sc_member_of cfg gs f = Ok m -> c15_sc_member_plain m = true.
Proof.
  unfold c15_field_strict, sc_member_of. intros Hf H. apply andb_true_iff in Hf as [Hid Hty].
  destruct (sc_ident_parts _ Hid) as (Hpl & _ & _).
  apply c15_bind_ok in H as (ty & Ety & H). injection H as <-. unfold c15_sc_member_plain. cbn [scm_name scm_type].
  apply andb_true_iff; split.
  - now apply sc_plain_replace_dash.
  - destruct (type_override f Scala); [injection Ety as <-; exact Hty|eapply sc_texp_plain; eauto].
Qed.

Lemma sc_class_plain_ir rs d :
  plain (renamed (sid rs)) = true ->
  forallb plain (sgenerics rs) = true -> forallb (c15_field_strict C15sc Scala) (sfields rs) = true ->
  sc_class_of cfg rs = Ok d -> c15_sc_decl_plain d = true.
Proof.
  intros Hn Hg Hf H. unfold sc_class_of in H. destruct (sfields rs) as [|f fs] eqn:E.
  - injection H as <-. exact Hn.
  - apply c15_bind_ok in H as (ms & Hm & H). injection H as <-. cbn [c15_sc_decl_plain].
    rewrite Hn, Hg. cbn [andb].
    apply (c15_Forall2_forallb (fun f m => c15_field_strict C15sc Scala f = true -> c15_sc_member_plain m = true)
             (c15_field_strict C15sc Scala) _ (f :: fs) ms); [|auto|exact Hf].
    eapply c15_mapM_Forall2; [|exact Hm]. intros x y Hx Hs. exact (sc_member_plain_ir _ _ _ Hs Hx).
Qed.

Lemma sc_inner_plain_ir e ds : c15_item_strict C15sc Scala (ItEnum e) = true ->
  sc_inner_decls_of cfg (enum_shared e) = Ok ds -> forallb c15_sc_decl_plain ds = true.
Proof.
  cbn [c15_item_strict]. intros Hs H. c15_split_andb.
  destruct (sc_ident_parts (renamed (eid (enum_shared e))) ltac:(eassumption)) as (Hrp & _ & _).
  unfold sc_inner_decls_of in H. apply c15_bind_ok in H as (dss & Hm & H). injection H as <-.
  match goal with Hv : forallb (c15_variant_strict _ _) _ = true |- _ => rename Hv into Hvs end.
  assert (HF : Forall (fun ds => forallb c15_sc_decl_plain ds = true) dss).
  { rewrite forallb_forall in Hvs.
    assert (Forall (fun v => c15_variant_strict C15sc Scala v = true) (evariants (enum_shared e))) as HV
      by (rewrite Forall_forall; exact Hvs).
    clear Hvs. revert dss Hm. induction HV as [|v vs Hv _ IH]; intros dss Hm; cbn [mapM] in Hm.
    - injection Hm as <-. constructor.
    - apply c15_bind_ok in Hm as (d1 & Hd1 & Hm). apply c15_bind_ok in Hm as (dr & Hdr & Hm). injection Hm as <-.
      constructor; [|now apply IH].
      destruct v as [vsh|t vsh|fs vsh]; try (injection Hd1 as <-; reflexivity).
      apply c15_bind_ok in Hd1 as (d & Hd & Hd1). injection Hd1 as <-. cbn [forallb]. rewrite andb_true_r.
      unfold c15_variant_strict in Hv. cbn [variant_shared] in Hv. c15_split_andb.
      destruct (sc_ident_parts (original (vid vsh)) ltac:(eassumption)) as (Hop & _ & _).
      eapply sc_class_plain_ir; [| | |exact Hd]; cbn [anon_struct sid renamed sgenerics sfields].
      + now rewrite !c15_plain_app, Hrp, Hop.
      + now apply c15_anon_generics_plain.
      + assumption. }
  clear Hm. induction HF as [|d r Hd _ IH]; [reflexivity|]. cbn [List.concat]. now rewrite forallb_app, Hd, IH.
Qed.

Theorem sc_decl_plain_ir it ds : c15_item_strict C15sc Scala it = true ->
  sc_decl_of cfg it = Ok ds -> forallb c15_sc_decl_plain ds = true.
Proof.
  destruct it as [s|e|a|c]; intros Hs H; cbn [sc_decl_of] in H.
  - cbn [c15_item_strict] in Hs. c15_split_andb. apply c15_bind_ok in H as (d & Hd & H). injection H as <-.
    cbn [forallb]. rewrite andb_true_r. destruct (sc_ident_parts _ ltac:(eassumption)) as (Hp & _ & _).
    eapply sc_class_plain_ir; eauto.
  - apply c15_bind_ok in H as (inner & Hi & H). apply c15_bind_ok in H as (vs & Hv & H). injection H as <-.
    rewrite forallb_app, (sc_inner_plain_ir _ _ Hs Hi). cbn [forallb andb]. rewrite andb_true_r.
    cbn [c15_item_strict] in Hs. c15_split_andb.
    destruct (sc_ident_parts (renamed (eid (enum_shared e))) ltac:(eassumption)) as (Hrp & _ & _).
    destruct (sc_ident_parts (original (eid (enum_shared e))) ltac:(eassumption)) as (Hop & _ & _).
    match goal with Hv : forallb (c15_variant_strict _ _) _ = true |- _ => rename Hv into Hvs end.
    match goal with Hg : forallb plain (egenerics _) = true |- _ => rename Hg into Hgs end.
    cbn [c15_sc_decl_plain]. rewrite Hrp, Hgs. cbn [andb].
    destruct e as [sh|tag content sh]; cbn [enum_shared sc_variants_of] in *.
    + apply (c15_Forall2_forallb (fun v x => c15_variant_strict C15sc Scala v = true -> c15_sc_variant_plain x = true)
               (c15_variant_strict C15sc Scala) _ (evariants sh) vs); [|auto|exact Hvs].
      eapply c15_mapM_Forall2; [|exact Hv]. intros v x Hx Hsv. unfold sc_variant_of_unit_enum in Hx. injection Hx as <-.
      unfold c15_variant_strict in Hsv. c15_split_andb. unfold c15_sc_variant_plain.
      cbn [scv_name scv_parent scv_parent_generics scv_wire scv_payload].
      destruct (sc_ident_parts (renamed (vid (variant_shared v))) ltac:(eassumption)) as (_ & Hq & _).
      destruct (sc_ident_parts (original (vid (variant_shared v))) ltac:(eassumption)) as (Hp & _ & _).
      now rewrite Hp, Hrp, Hq.
    + apply (c15_Forall2_forallb (fun v x => c15_variant_strict C15sc Scala v = true -> c15_sc_variant_plain x = true)
               (c15_variant_strict C15sc Scala) _ (evariants sh) vs); [|auto|exact Hvs].
      eapply c15_mapM_Forall2; [|exact Hv]. intros v x Hx Hsv. unfold sc_variant_of_algebraic in Hx.
      apply c15_bind_ok in Hx as (pl & Hpl & Hx). injection Hx as <-.
      unfold c15_variant_strict in Hsv. c15_split_andb.
      destruct (sc_ident_parts (renamed (vid (variant_shared v))) ltac:(eassumption)) as (_ & Hq & _).
      destruct (sc_ident_parts (original (vid (variant_shared v))) ltac:(eassumption)) as (Hvp & _ & _).
      unfold c15_sc_variant_plain. cbn [scv_name scv_parent scv_parent_generics scv_wire scv_payload].
      rewrite Hop, Hgs, Hq, !andb_true_r. apply andb_true_iff; split.
      * destruct (original (vid (variant_shared v))) as [|c0 r0]; [reflexivity|].
        destruct (is_adigit c0); [|exact Hvp]. change (plain ([ch_us] ++ c0 :: r0) = true). now rewrite c15_plain_app, Hvp.
      * destruct v as [vsh|t vsh|fs vsh]; cbn [variant_shared] in *.
        -- injection Hpl as <-. reflexivity.
        -- apply c15_bind_ok in Hpl as (ty & Hty & Hpl). injection Hpl as <-.
           match goal with Hc : plain content = true |- _ => rewrite Hgs, Hc end. cbn [andb]. eapply sc_texp_plain; eauto.
        -- injection Hpl as <-.
           match goal with Hc : plain content = true |- _ => rewrite Hgs, Hc end. cbn [andb].
           rewrite !c15_plain_app, Hop, Hvp. cbn [andb]. now apply c15_anon_generics_plain.
  - cbn [c15_item_strict] in Hs. c15_split_andb. apply c15_bind_ok in H as (ty & Hty & H). injection H as <-.
    cbn [forallb c15_sc_decl_plain]. rewrite andb_true_r.
    destruct (sc_ident_parts (original (aid a)) ltac:(eassumption)) as (Hop & _ & _).
    match goal with Hg : forallb plain (agenerics _) = true |- _ => rewrite Hop, Hg end. cbn [andb]. eapply sc_texp_plain; eauto.
  - discriminate.
Qed.

(* one item through write_struct / write_enum (helper classes first) / write_type_alias, no neutrality hypothesis *)
Theorem scn_item_decomp it text : c15_item_strict C15sc Scala it = true ->
  sc_write_item cfg it = Ok text -> DS text (c15_sites false (c15_item_docs_helpers_first it)).
Proof.
  unfold sc_write_item. intros Hs H. apply c15_bind_ok in H as (ds & Hd & H). injection H as <-.
  rewrite <- (sc_decl_docs_ir _ _ Hd). pose proof (sc_decl_plain_ir _ _ Hs Hd) as Hok. eapply Decomp_eq.
  - apply Decomp_concat_map with (g := fun d => c15_sites false (sc_decl_docs d)).
    intros d Hin. apply scn_decl_decomp. rewrite forallb_forall in Hok. now apply Hok.
  - unfold c15_sites. now rewrite c15_map_flat_map.
Qed.

Theorem C15_sc_item it text : c15_item_strict C15sc Scala it = true ->
  sc_write_item cfg it = Ok text ->
  exists parts,
    text = text_of (c15_file_pieces C15sc parts) /\
    docs_of (c15_file_pieces C15sc parts) = c15_item_docs_helpers_first it /\
    c15_contained C15sc LCode (mark (c15_file_pieces C15sc parts)) =
    forallb safe_sc (c15_item_docs_helpers_first it).
Proof.
  intros Hs H. destruct (Decomp_contained _ _ _ (scn_item_decomp _ _ Hs H)) as (ps & Ht & Hd & Hc).
  exists ps. rewrite c15_sites_text_line in Hd by discriminate. rewrite c15_sites_ok_false in Hc by discriminate. auto.
Qed.

(* parsed items: doc strings free of line breaks, generated comments built from strict identifiers *)
Theorem C15_sc_item_line_free it text : c15_item_strict C15sc Scala it = true ->
  Forall c15_line_free (c15_item_docs it) ->
  sc_write_item cfg it = Ok text ->
  exists parts,
    text = text_of (c15_file_pieces C15sc parts) /\
    docs_of (c15_file_pieces C15sc parts) = c15_item_docs_helpers_first it /\
    c15_contained C15sc LCode (mark (c15_file_pieces C15sc parts)) = true.
Proof.
  intros Hs Hd H. destruct (C15_sc_item it text Hs H) as (ps & Ht & Hdocs & Hc).
  exists ps. repeat split; auto. rewrite Hc, c15_helpers_first_safe. change safe_sc with (c15_safe C15sc false).
  rewrite (c15_line_free_forallb _ (c15_generated_free _ _ _ Hs) C15sc false).
  exact (c15_line_free_forallb _ Hd C15sc false).
Qed.
End SCItem.

(* non-vacuity: a tagged enum with a unit variant, a tuple variant and a struct variant (dashed key, hence a helper
   case class whose parameter name has the dash replaced), doc strings with comment openers, quotes and backslashes;
   the declarations computed for it are plain and the printed text is contained *)
Example C15_sc_item_nonvacuous :
  forallb (c15_item_strict C15sc Scala) [c15_ktnv_enum; c15_ktnv_struct] = true /\
  c15_mappings_plain C15sc (sc_type_mappings c15_sc_cfg) = true /\
  match sc_decl_of c15_sc_cfg c15_ktnv_enum with
  | Ok ds => forallb c15_sc_decl_plain ds && negb (Nat.leb (List.length ds) 1)
  | _ => false
  end = true /\
  match sc_write_item c15_sc_cfg c15_ktnv_enum with
  | Ok text => good_C15 C15sc (c15_item_docs_helpers_first c15_ktnv_enum) text
  | _ => false
  end = true.
Proof. repeat split; vm_compute; reflexivity. Qed.

(* the other item kinds: a unit enum (wire name with a dash), a generic alias and the generic struct are strict items,
   every one is written, and the printed text reproduces every doc string and is contained *)
Definition c15_scnv_unit : ritem :=
  ItEnum (EUnit {| eid := c15_ktnv_id "Color" "Color"; egenerics := []; ecomments := [c15_doc_nasty_line];
                   evariants := [VUnit (c15_ktnv_vsh "Red" "red" [c15_doc_nasty_line]);
                                 VUnit (c15_ktnv_vsh "DarkBlue" "dark-blue" [lit "second"])];
                   edecs := []; erecursive := false; eredacted := false |}).
Definition c15_scnv_alias : ritem :=
  ItAlias {| aid := c15_ktnv_id "Al" "Al"; agenerics := [lit "T"]; atype := RVec (RSimple (lit "T"));
             acomments := [c15_doc_nasty_line]; adecs := []; aredacted := false |}.
Definition c15_scnv_good (it : ritem) : bool :=
  match sc_write_item c15_sc_cfg it with
  | Ok text => negb (Nat.eqb (List.length text) 0) && good_C15 C15sc (c15_item_docs_helpers_first it) text
  | _ => false
  end.
Example C15_sc_item_kinds_nonvacuous :
  forallb (c15_item_strict C15sc Scala) [c15_scnv_unit; c15_scnv_alias; c15_ktnv_struct] = true /\
  forallb c15_scnv_good [c15_scnv_unit; c15_scnv_alias; c15_ktnv_struct] = true.
Proof. split; vm_compute; reflexivity. Qed.
