(* Lemmas shared by the back-end property proofs: the state-passing monad of Model/Lang/Common.v. *)
From Coq Require Import List.
From TS Require Import Model.Str Model.Outcome Model.Lang.Common.
Import ListNotations.
Local Notation length := List.length (only parsing).

(* a successful mmapM relates inputs and outputs pointwise, in order, whatever the state did *)
Lemma mmapM_Forall2 {St A B} (f : A -> M St B) (R : A -> B -> Prop) :
  (forall x s y s', f x s = Ok (y, s') -> R x y) ->
  forall l s ys s', mmapM f l s = Ok (ys, s') -> Forall2 R l ys.
Proof.
  intros HR l. induction l as [|x l IH]; intros s ys s' H; cbn [mmapM] in H.
  - unfold ret in H. injection H as <- _. constructor.
  - unfold mbind in H. destruct (f x s) as [[y s1]| |] eqn:Ex; try discriminate.
    destruct (mmapM f l s1) as [[ys' s2]| |] eqn:El; try discriminate.
    unfold ret in H. injection H as <- _. constructor; eauto.
Qed.

Lemma mmapM_length {St A B} (f : A -> M St B) l s ys s' : mmapM f l s = Ok (ys, s') -> length ys = length l.
Proof.
  intros H. apply (mmapM_Forall2 f (fun _ _ => True)) in H; [|auto].
  induction H; cbn; auto.
Qed.

Lemma Forall2_map_r {A B C} (R : A -> B -> Prop) (g : A -> C) (h : B -> C) l r :
  Forall2 R l r -> (forall x y, R x y -> h y = g x) -> map h r = map g l.
Proof. induction 1; intros H'; cbn; [reflexivity|]. f_equal; auto. Qed.

(* mbind inversion *)
Lemma mbind_ok {St A B} (m : M St A) (f : A -> M St B) s r s' :
  mbind m f s = Ok (r, s') -> exists a s1, m s = Ok (a, s1) /\ f a s1 = Ok (r, s').
Proof. unfold mbind. destruct (m s) as [[a s1]| |]; try discriminate. eauto. Qed.
